(* Codec/ScriptProofs.v — proofs about the Script model (C16). *)
From Coq Require Import List ZArith Bool Lia.
Import ListNotations.
Open Scope Z_scope.
Require Import MW.Gen.Consts MW.Codec.Script.

Local Ltac bool_hyps :=
  repeat match goal with
         | H : _ && _ = true |- _ => apply andb_true_iff in H; destruct H
         | H : _ || _ = false |- _ => apply orb_false_iff in H; destruct H
         | H : negb _ = true |- _ => apply negb_true_iff in H
         | H : negb _ = false |- _ => apply negb_false_iff in H
         | H : (_ <=? _) = true |- _ => apply Z.leb_le in H
         | H : (_ <=? _) = false |- _ => apply Z.leb_gt in H
         | H : (_ <? _) = true |- _ => apply Z.ltb_lt in H
         | H : (_ <? _) = false |- _ => apply Z.ltb_ge in H
         | H : (_ =? _) = true |- _ => apply Z.eqb_eq in H
         | H : (_ =? _) = false |- _ => apply Z.eqb_neq in H
         end.

(* ---------------------------------------------------------------- lists *)

Lemma lenZ_nonneg {A} (l : list A) : 0 <= lenZ l.
Proof. unfold lenZ. lia. Qed.
Lemma lenZ_nil {A} : lenZ (@nil A) = 0.
Proof. reflexivity. Qed.
Lemma lenZ_cons {A} (a : A) l : lenZ (a :: l) = 1 + lenZ l.
Proof. unfold lenZ. cbn [length]. lia. Qed.
Lemma lenZ_app {A} (a b : list A) : lenZ (a ++ b) = lenZ a + lenZ b.
Proof. unfold lenZ. rewrite app_length. lia. Qed.
Lemma lenZ_zero {A} (l : list A) : lenZ l = 0 -> l = [].
Proof. destruct l; [reflexivity|]. rewrite lenZ_cons. pose proof (lenZ_nonneg l). lia. Qed.

Lemma take_drop {A} n (l : list A) : take n l ++ drop n l = l.
Proof. apply firstn_skipn. Qed.
Lemma lenZ_take {A} n (l : list A) : 0 <= n <= lenZ l -> lenZ (take n l) = n.
Proof. unfold lenZ, take. intros H. rewrite firstn_length. lia. Qed.
Lemma lenZ_drop {A} n (l : list A) : 0 <= n <= lenZ l -> lenZ (drop n l) = lenZ l - n.
Proof. unfold lenZ, drop. intros H. rewrite skipn_length. lia. Qed.
Lemma take_all {A} n (l : list A) : lenZ l = n -> take n l = l.
Proof. unfold lenZ, take. intros H. apply firstn_all2. lia. Qed.
Lemma drop_all {A} n (l : list A) : lenZ l = n -> drop n l = [].
Proof. unfold lenZ, drop. intros H. apply skipn_all2. lia. Qed.
Lemma take_app_exact {A} n (a b : list A) : lenZ a = n -> take n (a ++ b) = a.
Proof.
  unfold lenZ, take. intros H. rewrite firstn_app.
  replace (Z.to_nat n - length a)%nat with 0%nat by lia.
  rewrite firstn_O, app_nil_r. apply firstn_all2. lia.
Qed.
Lemma drop_app_exact {A} n (a b : list A) : lenZ a = n -> drop n (a ++ b) = b.
Proof.
  unfold lenZ, drop. intros H. rewrite skipn_app.
  replace (Z.to_nat n - length a)%nat with 0%nat by lia.
  rewrite skipn_all2 by lia. reflexivity.
Qed.
Lemma length_drop_le {A} n (l : list A) : (length (drop n l) <= length l)%nat.
Proof. unfold drop. rewrite skipn_length. lia. Qed.

Lemma firstn_app_exact_nat {A} n (a b : list A) : length a = n -> firstn n (a ++ b) = a.
Proof.
  intros H. rewrite firstn_app. replace (n - length a)%nat with 0%nat by lia.
  rewrite firstn_O, app_nil_r. apply firstn_all2. lia.
Qed.
Lemma pad32_id h : lenZ h = 32 -> pad32 h = h.
Proof. unfold pad32, lenZ. intros H. apply firstn_app_exact_nat. lia. Qed.
Lemma pad32_len h : lenZ (pad32 h) = 32.
Proof.
  unfold pad32, lenZ. rewrite firstn_length, app_length, repeat_length. lia.
Qed.

(* ---------------------------------------------------------------- tokenizer *)

Lemma next_op_zero r : next_op 0 r = Some (mkpop 0 [], r).
Proof. reflexivity. Qed.

Lemma next_op_data b r : 1 <= b <= 75 ->
  next_op b r = if lenZ r <? b then None else Some (mkpop b (take b r), drop b r).
Proof.
  intros H. unfold next_op, OP_DATA_75.
  replace ((1 <=? b) && (b <=? 75)) with true; [reflexivity|].
  symmetry. apply andb_true_iff. split; apply Z.leb_le; lia.
Qed.

Lemma next_op_other b r : b < 0 \/ 78 < b -> next_op b r = Some (mkpop b [], r).
Proof.
  intros H. unfold next_op, OP_DATA_75, OP_PUSHDATA1, OP_PUSHDATA4.
  replace ((1 <=? b) && (b <=? 75)) with false.
  2:{ symmetry. apply andb_false_iff. destruct H; [left; apply Z.leb_gt|right; apply Z.leb_gt]; lia. }
  replace ((76 <=? b) && (b <=? 78)) with false; [reflexivity|].
  symmetry. apply andb_false_iff. destruct H; [left; apply Z.leb_gt|right; apply Z.leb_gt]; lia.
Qed.

Lemma next_op_op b r p rest : next_op b r = Some (p, rest) -> pop_op p = b.
Proof.
  unfold next_op. intros H.
  destruct ((1 <=? b) && (b <=? OP_DATA_75)).
  - destruct (lenZ r <? b); inversion H; reflexivity.
  - destruct ((OP_PUSHDATA1 <=? b) && (b <=? OP_PUSHDATA4)).
    + destruct (lenZ r <? _); [discriminate|].
      destruct (_ || _); inversion H; reflexivity.
    + inversion H; reflexivity.
Qed.

Lemma next_op_len b r p rest : next_op b r = Some (p, rest) -> (length rest <= length r)%nat.
Proof.
  unfold next_op. intros H.
  destruct ((1 <=? b) && (b <=? OP_DATA_75)).
  - destruct (lenZ r <? b); inversion H. apply length_drop_le.
  - destruct ((OP_PUSHDATA1 <=? b) && (b <=? OP_PUSHDATA4)).
    + destruct (lenZ r <? _); [discriminate|].
      destruct (_ || _); inversion H.
      etransitivity; [apply length_drop_le|apply length_drop_le].
    + inversion H; subst. lia.
Qed.

Lemma next_op_zero_inv r p rest : next_op 0 r = Some (p, rest) -> p = mkpop 0 [] /\ rest = r.
Proof. rewrite next_op_zero. intros H; inversion H; auto. Qed.

Lemma next_op_data_inv b r p rest : 1 <= b <= 75 -> next_op b r = Some (p, rest) ->
  r = pop_data p ++ rest /\ lenZ (pop_data p) = b /\ p = mkpop b (pop_data p).
Proof.
  intros Hb. rewrite (next_op_data b r Hb).
  destruct (lenZ r <? b) eqn:E; [discriminate|]. intros H. inversion H; subst. cbn [pop_data].
  bool_hyps. split; [symmetry; apply take_drop|]. split; [apply lenZ_take; lia|reflexivity].
Qed.

Lemma parse_fuel_irrel : forall f1 f2 s, (length s <= f1)%nat -> (length s <= f2)%nat ->
  parse_fuel f1 s = parse_fuel f2 s.
Proof.
  induction f1 as [|f1 IH]; intros f2 s H1 H2.
  - destruct s; [destruct f2; reflexivity|cbn [length] in H1; lia].
  - destruct s as [|b r]; [destruct f2; reflexivity|].
    destruct f2 as [|f2]; [cbn [length] in H2; lia|].
    cbn [parse_fuel]. destruct (next_op b r) as [[p rest]|] eqn:E; [|reflexivity].
    apply next_op_len in E. cbn [length] in H1, H2.
    rewrite (IH f2 rest) by lia. reflexivity.
Qed.

Lemma parse_script_nil : parse_script [] = Ok [].
Proof. reflexivity. Qed.

Lemma parse_script_cons b r :
  parse_script (b :: r) =
  match next_op b r with
  | None => Err EShortScript
  | Some (p, rest) => bind (parse_script rest) (fun ps => Ok (p :: ps))
  end.
Proof.
  unfold parse_script. cbn [length parse_fuel].
  destruct (next_op b r) as [[p rest]|] eqn:E; [|reflexivity].
  apply next_op_len in E. rewrite (parse_fuel_irrel (length r) (length rest) rest) by lia. reflexivity.
Qed.

Lemma parse_script_total : forall s,
  (exists pops, parse_script s = Ok pops) \/ parse_script s = Err EShortScript.
Proof.
  intros s. remember (length s) as n eqn:Hn. revert s Hn.
  induction n as [n IH] using lt_wf_ind. intros s Hn.
  destruct s as [|b r]; [left; eexists; reflexivity|].
  rewrite parse_script_cons. destruct (next_op b r) as [[p rest]|] eqn:E; [|right; reflexivity].
  apply next_op_len in E. cbn [length] in Hn.
  destruct (IH (length rest) ltac:(lia) rest eq_refl) as [[ps H]|H]; rewrite H; cbn [bind].
  - left; eexists; reflexivity.
  - right; reflexivity.
Qed.

Lemma parse_script_no_panic s p : parse_script s <> Panic p.
Proof. destruct (parse_script_total s) as [[ps H]|H]; rewrite H; discriminate. Qed.

Lemma parse_inv_nil s : parse_script s = Ok [] -> s = [].
Proof.
  destruct s as [|b r]; [reflexivity|]. rewrite parse_script_cons.
  destruct (next_op b r) as [[p rest]|]; [|discriminate].
  destruct (parse_script rest); cbn [bind]; discriminate.
Qed.

Lemma parse_inv_cons s p ps : parse_script s = Ok (p :: ps) ->
  exists r rest, s = pop_op p :: r /\ next_op (pop_op p) r = Some (p, rest) /\ parse_script rest = Ok ps.
Proof.
  destruct s as [|b r]; [rewrite parse_script_nil; discriminate|]. rewrite parse_script_cons.
  destruct (next_op b r) as [[p' rest]|] eqn:E; [|discriminate].
  destruct (parse_script rest) as [ps'| |] eqn:E2; cbn [bind]; try discriminate.
  intros H; inversion H; subst. pose proof (next_op_op _ _ _ _ E) as Hop. subst b.
  exists r, rest. auto.
Qed.

(* forward computations on the template layouts *)
Lemma parse_push n d rest : 1 <= n <= 75 -> lenZ d = n ->
  parse_script (n :: d ++ rest) = bind (parse_script rest) (fun ps => Ok (mkpop n d :: ps)).
Proof.
  intros Hn Hd. rewrite parse_script_cons, (next_op_data n _ Hn).
  rewrite lenZ_app, Hd. pose proof (lenZ_nonneg rest).
  replace (n + lenZ rest <? n) with false by (symmetry; apply Z.ltb_ge; lia).
  rewrite take_app_exact, drop_app_exact by assumption. reflexivity.
Qed.

Lemma parse_zero r : parse_script (0 :: r) = bind (parse_script r) (fun ps => Ok (mkpop 0 [] :: ps)).
Proof. rewrite parse_script_cons, next_op_zero. reflexivity. Qed.

Lemma parse_std h : lenZ h = 32 -> parse_script (0 :: 32 :: h) = Ok [mkpop 0 []; mkpop 32 h].
Proof.
  intros H. rewrite parse_zero. rewrite <- (app_nil_r h) at 1.
  rewrite parse_push by (lia || assumption). reflexivity.
Qed.

Lemma parse_three h n d : lenZ h = 32 -> 1 <= n <= 75 -> lenZ d = n ->
  parse_script (0 :: 32 :: h ++ n :: d) = Ok [mkpop 0 []; mkpop 32 h; mkpop n d].
Proof.
  intros H Hn Hd. rewrite parse_zero, parse_push by (lia || assumption).
  rewrite <- (app_nil_r d) at 1. rewrite parse_push by assumption. reflexivity.
Qed.

(* ---------------------------------------------------------------- the templates as byte layouts *)

Lemma spec_template_std h : lenZ h = 32 -> spec_template (0 :: 32 :: h) = Some (TStd h).
Proof.
  intros H. cbn [spec_template]. rewrite H. cbn [Z.ltb Z.compare Pos.compare Pos.compare_cont].
  rewrite drop_all, take_all by assumption. reflexivity.
Qed.

Lemma spec_template_three h n d : lenZ h = 32 -> lenZ d = n ->
  spec_template (0 :: 32 :: h ++ n :: d) =
  if n =? 8 then Some (TStaking h (le_dec d))
  else if n =? 20 then Some (TBinding h d)
  else if n =? 22 then Some (TBinding h d)
  else None.
Proof.
  intros H Hd. cbn [spec_template]. rewrite lenZ_app, lenZ_cons, H.
  pose proof (lenZ_nonneg d).
  replace (32 + (1 + lenZ d) <? 32) with false by (symmetry; apply Z.ltb_ge; lia).
  rewrite take_app_exact, drop_app_exact by assumption.
  destruct (n =? 8) eqn:E8; bool_hyps.
  { rewrite E8 in Hd |- *. cbv iota. rewrite Hd. reflexivity. }
  destruct (n =? 20) eqn:E20; bool_hyps.
  { rewrite E20 in Hd |- *. cbv iota. rewrite Hd. reflexivity. }
  destruct (n =? 22) eqn:E22; bool_hyps.
  { rewrite E22 in Hd |- *. cbv iota. rewrite Hd. reflexivity. }
  destruct n as [|q|q]; try reflexivity.
  repeat (destruct q as [q|q|]; try reflexivity; try lia).
Qed.

(* inversion: what a script with a template looks like *)
Lemma spec_template_inv s t : spec_template s = Some t ->
  match t with
  | TStd h => s = 0 :: 32 :: h /\ lenZ h = 32
  | TStaking h p => exists pb, s = 0 :: 32 :: h ++ 8 :: pb /\ lenZ h = 32 /\ lenZ pb = 8 /\ p = le_dec pb
  | TBinding h tg => s = 0 :: 32 :: h ++ lenZ tg :: tg /\ lenZ h = 32 /\ (lenZ tg = 20 \/ lenZ tg = 22)
  end.
Proof.
  destruct s as [|b0 s]; [discriminate|].
  destruct b0 as [|q|q]; try discriminate.
  destruct s as [|b1 r]; [discriminate|].
  destruct (Z.eq_dec b1 32) as [->|Hne].
  2:{ cbn [spec_template]. destruct b1 as [|q|q]; try discriminate.
      repeat (destruct q as [q|q|]; try discriminate; try contradiction). }
  cbn [spec_template]. destruct (lenZ r <? 32) eqn:E; [discriminate|]. bool_hyps.
  pose proof (take_drop 32 r) as Htd.
  assert (Hh : lenZ (take 32 r) = 32) by (apply lenZ_take; lia).
  destruct (drop 32 r) as [|b2 d] eqn:Ed.
  - intros H; inversion H; subst. rewrite app_nil_r in Htd. rewrite Htd in Hh |- *. auto.
  - destruct (Z.eq_dec b2 8) as [->|H8].
    { destruct (lenZ d =? 8) eqn:E8; [|discriminate]. bool_hyps.
      intros H; inversion H; subst. exists d. rewrite Htd. auto. }
    destruct (Z.eq_dec b2 20) as [->|H20].
    { destruct (lenZ d =? 20) eqn:E20; [|discriminate]. bool_hyps.
      intros H; inversion H; subst. rewrite E20, Htd. auto. }
    destruct (Z.eq_dec b2 22) as [->|H22].
    { destruct (lenZ d =? 22) eqn:E22; [|discriminate]. bool_hyps.
      intros H; inversion H; subst. rewrite E22, Htd. auto. }
    destruct b2 as [|q|q]; try discriminate.
    repeat (destruct q as [q|q|]; try discriminate; try contradiction).
Qed.

(* ---------------------------------------------------------------- from the token view back to the layouts *)

Lemma is_wsh_inv pops : is_wsh pops = true ->
  exists p0 p1, pops = [p0; p1] /\ pop_op p0 = 0 /\ pop_op p1 = 32.
Proof.
  unfold is_wsh, OP_0, OP_DATA_32. destruct pops as [|p0 [|p1 [|p2 l]]]; try discriminate.
  intros H. bool_hyps. eauto.
Qed.

Lemma is_staking_inv pops : is_staking pops = true ->
  exists p0 p1 p2, pops = [p0; p1; p2] /\ pop_op p0 = 0 /\ pop_op p1 = 32 /\ pop_op p2 = 8.
Proof.
  unfold is_staking, OP_0, OP_DATA_32, OP_DATA_8. destruct pops as [|p0 [|p1 [|p2 [|p3 l]]]]; try discriminate.
  intros H. bool_hyps. eauto 8.
Qed.

Lemma is_binding_inv pops : is_binding pops = true ->
  exists p0 p1 p2, pops = [p0; p1; p2] /\ pop_op p0 = 0 /\ pop_op p1 = 32 /\ (pop_op p2 = 20 \/ pop_op p2 = 22).
Proof.
  unfold is_binding, OP_0, OP_DATA_32, OP_DATA_20, OP_DATA_22. destruct pops as [|p0 [|p1 [|p2 [|p3 l]]]]; try discriminate.
  intros H. bool_hyps. apply orb_true_iff in H0. destruct H0; bool_hyps; eauto 9.
Qed.

Lemma two_layout s p0 p1 : parse_script s = Ok [p0; p1] -> pop_op p0 = 0 -> pop_op p1 = 32 ->
  s = 0 :: 32 :: pop_data p1 /\ lenZ (pop_data p1) = 32.
Proof.
  intros H H0 H1.
  apply parse_inv_cons in H. destruct H as (r & rest & -> & Hn & H). rewrite H0 in Hn |- *.
  apply next_op_zero_inv in Hn. destruct Hn as [_ ->].
  apply parse_inv_cons in H. destruct H as (r' & rest' & -> & Hn & H). rewrite H1 in Hn |- *.
  apply parse_inv_nil in H. subst rest'.
  apply next_op_data_inv in Hn; [|lia]. destruct Hn as (-> & Hl & _).
  rewrite app_nil_r. auto.
Qed.

Lemma three_layout s p0 p1 p2 : parse_script s = Ok [p0; p1; p2] -> pop_op p0 = 0 -> pop_op p1 = 32 ->
  1 <= pop_op p2 <= 75 ->
  s = 0 :: 32 :: pop_data p1 ++ pop_op p2 :: pop_data p2 /\ lenZ (pop_data p1) = 32 /\ lenZ (pop_data p2) = pop_op p2.
Proof.
  intros H H0 H1 H2.
  apply parse_inv_cons in H. destruct H as (r & rest & -> & Hn & H). rewrite H0 in Hn |- *.
  apply next_op_zero_inv in Hn. destruct Hn as [_ ->].
  apply parse_inv_cons in H. destruct H as (r' & rest' & -> & Hn & H). rewrite H1 in Hn |- *.
  apply next_op_data_inv in Hn; [|lia]. destruct Hn as (-> & Hl & _).
  apply parse_inv_cons in H. destruct H as (r'' & rest'' & -> & Hn & H).
  apply parse_inv_nil in H. subst rest''.
  apply next_op_data_inv in Hn; [|lia]. destruct Hn as (-> & Hl2 & _).
  rewrite app_nil_r. auto.
Qed.

Lemma class_template s pops : parse_script s = Ok pops ->
  (is_wsh pops = true -> exists h, spec_template s = Some (TStd h)) /\
  (is_staking pops = true -> exists h p, spec_template s = Some (TStaking h p)) /\
  (is_binding pops = true -> exists h t, spec_template s = Some (TBinding h t)).
Proof.
  intros Hp. repeat split; intros H.
  - apply is_wsh_inv in H. destruct H as (p0 & p1 & -> & H0 & H1).
    destruct (two_layout _ _ _ Hp H0 H1) as [-> Hl]. eexists. apply spec_template_std. assumption.
  - apply is_staking_inv in H. destruct H as (p0 & p1 & p2 & -> & H0 & H1 & H2).
    destruct (three_layout _ _ _ _ Hp H0 H1 ltac:(lia)) as (-> & Hl & Hl2).
    rewrite spec_template_three by assumption. rewrite H2. cbn. eauto.
  - apply is_binding_inv in H. destruct H as (p0 & p1 & p2 & -> & H0 & H1 & H2).
    destruct (three_layout _ _ _ _ Hp H0 H1 ltac:(lia)) as (-> & Hl & Hl2).
    rewrite spec_template_three by assumption. destruct H2 as [H2|H2]; rewrite H2; cbn; eauto.
Qed.

Lemma nontemplate s pops : spec_template s = None -> parse_script s = Ok pops ->
  is_wsh pops = false /\ is_staking pops = false /\ is_binding pops = false.
Proof.
  intros Hs Hp. destruct (class_template s pops Hp) as (A & B & C).
  repeat split.
  - destruct (is_wsh pops); [|reflexivity]. destruct (A eq_refl) as [h H]. congruence.
  - destruct (is_staking pops); [|reflexivity]. destruct (B eq_refl) as (h & p & H). congruence.
  - destruct (is_binding pops); [|reflexivity]. destruct (C eq_refl) as (h & p & H). congruence.
Qed.

(* the token lists of the three layouts *)
Lemma type_std h : type_of_pops [mkpop 0 []; mkpop 32 h] = WitnessV0ScriptHashTy.
Proof. reflexivity. Qed.
Lemma type_staking h d : type_of_pops [mkpop 0 []; mkpop 32 h; mkpop 8 d] = StakingScriptHashTy.
Proof. reflexivity. Qed.
Lemma type_binding h n d : n = 20 \/ n = 22 -> type_of_pops [mkpop 0 []; mkpop 32 h; mkpop n d] = BindingScriptHashTy.
Proof. intros [->| ->]; reflexivity. Qed.
Lemma is_binding_layout h n d : n = 20 \/ n = 22 -> is_binding [mkpop 0 []; mkpop 32 h; mkpop n d] = true.
Proof. intros [->| ->]; reflexivity. Qed.

Lemma type_nontemplate pops : is_wsh pops = false -> is_staking pops = false -> is_binding pops = false ->
  type_of_pops pops = MultiSigTy \/ type_of_pops pops = NullDataTy \/ type_of_pops pops = NonStandardTy.
Proof.
  intros A B C. unfold type_of_pops. rewrite A, B, C.
  destruct (is_multisig pops); auto. destruct (is_nulldata pops); auto.
Qed.

(* GetScriptClass in terms of the layouts *)
Lemma script_class_template s t : spec_template s = Some t -> script_class s = class_of_template t.
Proof.
  intros H. pose proof (spec_template_inv s t H) as Hi. unfold script_class. destruct t as [h|h p|h tg].
  - destruct Hi as [-> Hl]. rewrite parse_std by assumption. reflexivity.
  - destruct Hi as (pb & -> & Hl & Hl2 & _). rewrite parse_three by (assumption || lia). reflexivity.
  - destruct Hi as (-> & Hl & Hl2). rewrite parse_three by (assumption || lia || reflexivity).
    apply type_binding. assumption.
Qed.

Lemma script_class_nontemplate s : spec_template s = None ->
  script_class s = MultiSigTy \/ script_class s = NullDataTy \/ script_class s = NonStandardTy.
Proof.
  intros H. unfold script_class. destruct (parse_script s) as [pops| |] eqn:E; auto.
  destruct (nontemplate s pops H E) as (A & B & C). apply type_nontemplate; assumption.
Qed.

(* ---------------------------------------------------------------- utils.ParsePkScript on the layouts *)

Section A2.
Variable b : bool.   (* the A2 switch: every statement below holds for the code as found and for the repaired one *)
Local Notation ppk := (parse_pk_script_gen b).


Lemma ppk_std h : lenZ h = 32 ->
  ppk (0 :: 32 :: h) = Ok (mkpk WitnessV0ScriptHashTy 0 0 (AWsh 0 h) None).
Proof.
  intros H. unfold parse_pk_script_gen, get_script_info. rewrite parse_std by assumption. rewrite type_std.
  cbn [witness_class negb]. rewrite andb_false_r.
  cbn [get_parsed_opcode pop_at nth_error bind pop_data]. rewrite H. cbn [Z.eqb Pos.eqb negb bind].
  rewrite pad32_id by assumption. reflexivity.
Qed.

Lemma ppk_staking h pb : lenZ h = 32 -> lenZ pb = 8 ->
  ppk (0 :: 32 :: h ++ 8 :: pb) =
  Ok (mkpk StakingScriptHashTy 1 ((le_dec pb + 1) mod two64) (AWsh 0 h) (Some (AWsh 1 h))).
Proof.
  intros H Hp. unfold parse_pk_script_gen, get_script_info. rewrite parse_three by (assumption || lia). rewrite type_staking.
  cbn [witness_class negb]. rewrite andb_false_r.
  cbn [get_parsed_opcode pop_at nth_error bind pop_data]. rewrite H. cbn [Z.eqb Pos.eqb negb bind].
  unfold uint64_le. rewrite Hp. cbn [Z.ltb Z.compare Pos.compare Pos.compare_cont bind].
  rewrite take_all by assumption. rewrite pad32_id by assumption. reflexivity.
Qed.

Lemma ppk_binding h t : lenZ h = 32 -> lenZ t = 20 \/ lenZ t = 22 ->
  ppk (0 :: 32 :: h ++ lenZ t :: t) =
  if lenZ t =? 20 then Ok (mkpk BindingScriptHashTy 0 0 (AWsh 0 h) (Some (APkh t)))
  else if target_ok t then Ok (mkpk BindingScriptHashTy 0 BindingLockedPeriod (AWsh 0 h) (Some (ABind t)))
  else Err (target_err b).
Proof.
  intros H Ht. unfold parse_pk_script_gen, get_script_info. rewrite parse_three by (assumption || lia || reflexivity).
  rewrite type_binding by assumption.
  cbn [witness_class negb]. rewrite andb_false_r.
  cbn [get_parsed_opcode pop_at nth_error bind pop_data]. rewrite H. cbn [Z.eqb Pos.eqb negb bind].
  assert (Hg : negb (lenZ t =? 20) && negb (lenZ t =? 22) = false).
  { destruct Ht as [-> | ->]; reflexivity. }
  rewrite Hg. cbn [bind]. unfold get_parsed_binding_opcode. rewrite is_binding_layout by assumption.
  cbn [negb pop_at nth_error bind pop_data]. unfold new_wsh. rewrite H. cbn [Z.eqb Pos.eqb negb Z.ltb Z.compare].
  unfold OP_DATA_20, new_pkh, new_bind.
  destruct Ht as [Ht|Ht]; rewrite Ht; cbn [Z.eqb Pos.eqb negb]; [reflexivity|].
  destruct (target_ok t); reflexivity.
Qed.

Lemma ppk_nontemplate s : spec_template s = None -> ppk s = Err (a2_err b).
Proof.
  intros H. unfold parse_pk_script_gen, get_script_info, a2_err.
  destruct (parse_script s) as [pops| |] eqn:E; try (destruct b; reflexivity).
  destruct (nontemplate s pops H E) as (A & B & C).
  destruct (type_nontemplate pops A B C) as [T|[T|T]]; rewrite T; destruct b; reflexivity.
Qed.

(* the wallet's reading is the specification, for every byte string *)
Theorem parse_pk_script_spec_some s i : wallet_spec s = Some i -> ppk s = Ok i.
Proof.
  unfold wallet_spec. destruct (spec_template s) as [t|] eqn:E; [|discriminate].
  pose proof (spec_template_inv s t E) as Hi. destruct t as [h|h p|h tg].
  - destruct Hi as [-> Hl]. intros H; inversion H; subst. apply ppk_std. assumption.
  - destruct Hi as (pb & -> & Hl & Hl2 & ->). intros H; inversion H; subst. apply ppk_staking; assumption.
  - destruct Hi as (-> & Hl & Hl2). rewrite ppk_binding by assumption.
    destruct (lenZ tg =? 20); [intros H; inversion H; reflexivity|].
    destruct (target_ok tg); [intros H; inversion H; reflexivity|discriminate].
Qed.

Theorem parse_pk_script_spec_none s : wallet_spec s = None ->
  (spec_template s = None /\ ppk s = Err (a2_err b)) \/
  (exists h t, spec_template s = Some (TBinding h t) /\ lenZ t = 22 /\ target_ok t = false /\
               ppk s = Err (target_err b)).
Proof.
  unfold wallet_spec. destruct (spec_template s) as [t|] eqn:E.
  2:{ intros _. left. split; [reflexivity|]. apply ppk_nontemplate. assumption. }
  pose proof (spec_template_inv s t E) as Hi. destruct t as [h|h p|h tg]; try discriminate.
  destruct Hi as (-> & Hl & Hl2). intros H. right. exists h, tg.
  destruct (lenZ tg =? 20) eqn:E20; [discriminate|]. bool_hyps.
  destruct (target_ok tg) eqn:Et; [discriminate|].
  assert (H22 : lenZ tg = 22) by lia.
  repeat split; try assumption; try reflexivity.
  rewrite ppk_binding by assumption. rewrite H22, Et. reflexivity.
Qed.

Lemma ppk_cases s :
  (exists i, wallet_spec s = Some i /\ ppk s = Ok i) \/
  (wallet_spec s = None /\ (ppk s = Err (a2_err b) \/ ppk s = Err (target_err b))).
Proof.
  destruct (wallet_spec s) as [i|] eqn:E.
  - left. exists i. split; [reflexivity|]. apply parse_pk_script_spec_some. assumption.
  - right. split; [reflexivity|]. destruct (parse_pk_script_spec_none s E) as [[_ H]|(h & t & _ & _ & _ & H)]; auto.
Qed.

Theorem parse_pk_script_no_panic s p : ppk s <> Panic p.
Proof. destruct (ppk_cases s) as [(i & _ & H)|(_ & [H|H])]; rewrite H; discriminate. Qed.

Lemma wallet_spec_class s i : wallet_spec s = Some i ->
  exists t, spec_template s = Some t /\ pk_class i = class_of_template t.
Proof.
  unfold wallet_spec. destruct (spec_template s) as [t|]; [|discriminate]. intros H. exists t. split; [reflexivity|].
  destruct t as [h|h p|h tg].
  - inversion H; reflexivity.
  - inversion H; reflexivity.
  - destruct (lenZ tg =? 20); [inversion H; reflexivity|].
    destruct (target_ok tg); [inversion H; reflexivity|discriminate].
Qed.

(* ---------------------------------------------------------------- ExtractPkScriptAddrs *)

Lemma new_wsh_32 e h : lenZ h = 32 -> e = 0 \/ e = 1 -> new_wsh e h = Some (AWsh e h).
Proof. intros H [->| ->]; unfold new_wsh; rewrite H; reflexivity. Qed.

Lemma xaddrs_template pk s t : spec_template s = Some t ->
  extract_pk_script_addrs pk s = Ok (class_of_template t, consensus_addrs t, 1).
Proof.
  intros H. pose proof (spec_template_inv s t H) as Hi. unfold extract_pk_script_addrs.
  destruct t as [h|h p|h tg].
  - destruct Hi as [-> Hl]. rewrite parse_std by assumption. rewrite type_std.
    cbn [pop_at nth_error bind pop_data]. rewrite new_wsh_32 by auto. reflexivity.
  - destruct Hi as (pb & -> & Hl & Hl2 & _). rewrite parse_three by (assumption || lia). rewrite type_staking.
    cbn [pop_at nth_error bind pop_data]. rewrite new_wsh_32 by auto. reflexivity.
  - destruct Hi as (-> & Hl & Hl2). rewrite parse_three by (assumption || lia || reflexivity).
    rewrite type_binding by assumption.
    cbn [pop_at nth_error bind pop_data]. rewrite new_wsh_32 by auto. reflexivity.
Qed.

Lemma pops_range_ok pops : forall n from, (from + n <= length pops)%nat ->
  pops_range pops from n = Ok (firstn n (skipn from pops)).
Proof.
  induction n as [|n IH]; intros from H; [reflexivity|].
  cbn [pops_range]. unfold pop_at.
  destruct (nth_error pops from) as [p|] eqn:E.
  2:{ apply nth_error_None in E. lia. }
  cbn [bind]. rewrite IH by lia. cbn [bind].
  f_equal. clear IH. revert from H E. induction pops as [|q pops IHp]; intros from H E.
  - destruct from; discriminate.
  - destruct from as [|from].
    + cbn in E. inversion E; subst. reflexivity.
    + cbn [nth_error] in E. cbn [length] in H. cbn [skipn]. apply IHp; [lia|assumption].
Qed.

Definition keys_ok (pk_ok : bytes -> bool) (keys : list pop) : bool := forallb (fun k => pk_ok (pop_data k)) keys.

Lemma multisig_addrs_spec pk keys :
  multisig_addrs pk keys =
  if keys_ok pk keys then Ok (map (fun k => APubKey (pop_data k)) keys) else Panic PNilAddrPubKey.
Proof.
  induction keys as [|k ks IH]; [reflexivity|].
  cbn [multisig_addrs keys_ok forallb map]. destruct (pk (pop_data k)); [|reflexivity].
  rewrite IH. cbn [andb]. fold (keys_ok pk ks). destruct (keys_ok pk ks); reflexivity.
Qed.

Lemma is_multisig_facts pops : is_multisig pops = true ->
  4 <= lenZ pops /\ lenZ pops - 3 = as_small_int (pop_op (pop_nth pops (lenZ pops - 2))).
Proof.
  unfold is_multisig. destruct (lenZ pops <? 4) eqn:E; [discriminate|]. bool_hyps.
  destruct (negb (is_small_int _)); [discriminate|].
  destruct (negb (is_small_int _)); [discriminate|].
  destruct (negb (_ =? OP_CHECKMULTISIG)); [discriminate|].
  destruct (negb (_ =? _)) eqn:E2; [discriminate|]. bool_hyps. intros _. lia.
Qed.

Lemma type_multisig pops : type_of_pops pops = MultiSigTy -> is_multisig pops = true.
Proof.
  unfold type_of_pops. destruct (is_wsh pops); [discriminate|]. destruct (is_staking pops); [discriminate|].
  destruct (is_binding pops); [discriminate|]. destruct (is_multisig pops); [reflexivity|].
  destruct (is_nulldata pops); discriminate.
Qed.

Lemma pop_at_nth pops i : (i < length pops)%nat -> pop_at pops i = Ok (nth i pops dummy_pop).
Proof. intros H. unfold pop_at. rewrite (nth_error_nth' pops dummy_pop H). reflexivity. Qed.

Lemma multisig_keys_length pops : 4 <= lenZ pops -> lenZ (multisig_keys pops) = lenZ pops - 3.
Proof.
  intros H. unfold multisig_keys. rewrite lenZ_take; [reflexivity|].
  rewrite lenZ_drop by lia. lia.
Qed.

Lemma xaddrs_multisig pk s pops : parse_script s = Ok pops -> type_of_pops pops = MultiSigTy ->
  extract_pk_script_addrs pk s =
  if keys_ok pk (multisig_keys pops)
  then Ok (MultiSigTy, map (fun k => APubKey (pop_data k)) (multisig_keys pops), as_small_int (pop_op (pop_nth pops 0)))
  else Panic PNilAddrPubKey.
Proof.
  intros Hp Ht. unfold extract_pk_script_addrs. rewrite Hp, Ht.
  destruct (is_multisig_facts pops (type_multisig pops Ht)) as [Hl Hn].
  unfold lenZ in Hl. rewrite !pop_at_nth by lia. cbn [bind].
  replace (nth (length pops - 2) pops dummy_pop) with (pop_nth pops (lenZ pops - 2)).
  2:{ unfold pop_nth, lenZ. f_equal. lia. }
  rewrite <- Hn. rewrite pops_range_ok.
  2:{ unfold lenZ. lia. }
  cbn [bind]. change (firstn (Z.to_nat (lenZ pops - 3)) (skipn 1 pops)) with (multisig_keys pops).
  rewrite multisig_addrs_spec. destruct (keys_ok pk (multisig_keys pops)); reflexivity.
Qed.

Lemma xaddrs_other pk s pops : spec_template s = None -> parse_script s = Ok pops -> is_multisig pops = false ->
  exists c, extract_pk_script_addrs pk s = Ok (c, [], 0).
Proof.
  intros Hs Hp Hm. destruct (nontemplate s pops Hs Hp) as (A & B & C).
  unfold extract_pk_script_addrs. rewrite Hp. unfold type_of_pops. rewrite A, B, C, Hm.
  destruct (is_nulldata pops); eexists; reflexivity.
Qed.

Lemma nontemplate_multisig s pops : spec_template s = None -> parse_script s = Ok pops -> is_multisig pops = true ->
  type_of_pops pops = MultiSigTy.
Proof.
  intros Hs Hp Hm. destruct (nontemplate s pops Hs Hp) as (A & B & C).
  unfold type_of_pops. rewrite A, B, C, Hm. reflexivity.
Qed.

(* ---------------------------------------------------------------- api.extractAddressInfos, completely *)

Definition target_addr (t : bytes) : addr := if lenZ t =? 20 then APkh t else ABind t.
Definition target_chia (t : bytes) : bool := (lenZ t =? 22) && (nth 20 t 0 =? 1).
Definition target_size (t : bytes) : Z := if lenZ t =? 22 then nth 21 t 0 else 0.

Definition xinfo_spec (e2 e3 : bool) (pk : bytes -> bool) (s : bytes) : Outcome xinfo :=
  match spec_template s with
  | Some (TStd h) => Ok (mkx WitnessV0ScriptHashTy (Some (AWsh 0 h)) None None 1)
  | Some (TStaking h _) => Ok (mkx StakingScriptHashTy (Some (AWsh 0 h)) (Some (AWsh 1 h)) None 1)
  | Some (TBinding h t) =>
      if valid_target t
      then Ok (mkx BindingScriptHashTy (Some (AWsh 0 h)) None (Some (target_addr t, target_chia t, target_size t)) 1)
      else if e2 then Err EGuard else Panic PAddrsIndex1
  | None =>
      match parse_script s with
      | Ok pops =>
          if is_multisig pops then
            if keys_ok pk (multisig_keys pops)
            then Ok (mkx MultiSigTy None None None (as_small_int (pop_op (pop_nth pops 0))))
            else if e3 then Err EGuard else Panic PNilAddrPubKey
          else Err ENoAddress
      | Err e => Err e
      | Panic p => Panic p
      end
  end.

Theorem extract_address_infos_is_spec e2 e3 pk s :
  extract_address_infos_gen e2 e3 pk s = xinfo_spec e2 e3 pk s.
Proof.
  unfold extract_address_infos_gen, xinfo_spec.
  destruct (spec_template s) as [t|] eqn:E.
  - rewrite (xaddrs_template pk s t E). pose proof (spec_template_inv s t E) as Hi.
    destruct t as [h|h p|h tg]; cbn [class_of_template consensus_addrs bind].
    + reflexivity.
    + destruct Hi as (pb & _ & Hl & _). cbn [script_address]. rewrite new_wsh_32 by auto. reflexivity.
    + destruct Hi as (_ & Hl & Hl2). unfold valid_target, target_addr, target_chia, target_size, new_pkh, new_bind.
      destruct Hl2 as [Hl2|Hl2]; rewrite Hl2; cbn [Z.eqb Pos.eqb negb orb andb opt_cons].
      * rewrite andb_false_r. cbn [lenZ length Z.of_nat Pos.of_succ_nat Pos.succ Z.ltb Z.compare Pos.compare Pos.compare_cont].
        cbn [addr_at nth_error bind script_address]. rewrite Hl2. reflexivity.
      * destruct (target_ok tg); cbn [opt_cons].
        -- rewrite andb_false_r. cbn [addr_at nth_error bind script_address]. rewrite Hl2. reflexivity.
        -- destruct e2; reflexivity.
  - destruct (parse_script s) as [pops|e|p] eqn:Ep.
    + destruct (is_multisig pops) eqn:Em.
      * rewrite (xaddrs_multisig pk s pops Ep (nontemplate_multisig s pops E Ep Em)).
        destruct (keys_ok pk (multisig_keys pops)); [|destruct e3; reflexivity].
        cbn [bind]. destruct (is_multisig_facts pops Em) as [Hl _].
        pose proof (multisig_keys_length pops Hl) as Hk.
        destruct (multisig_keys pops) as [|k ks]; [rewrite lenZ_nil in Hk; lia|]. reflexivity.
      * destruct (xaddrs_other pk s pops E Ep Em) as [c Hc]. rewrite Hc. reflexivity.
    + unfold extract_pk_script_addrs. rewrite Ep. reflexivity.
    + exfalso. exact (parse_script_no_panic s p Ep).
Qed.

(* ---------------------------------------------------------------- panics of api.extractAddressInfos *)

Theorem extract_panic_cases e2 e3 pk s p : extract_address_infos_gen e2 e3 pk s = Panic p ->
  (e2 = false /\ p = PAddrsIndex1 /\ exists h t, spec_template s = Some (TBinding h t) /\ valid_target t = false) \/
  (e3 = false /\ p = PNilAddrPubKey /\ exists pops, parse_script s = Ok pops /\ type_of_pops pops = MultiSigTy /\
                                                    keys_ok pk (multisig_keys pops) = false).
Proof.
  rewrite extract_address_infos_is_spec. unfold xinfo_spec.
  destruct (spec_template s) as [[h|h q|h tg]|] eqn:E; try discriminate.
  - destruct (valid_target tg) eqn:Ev; [discriminate|]. destruct e2; [discriminate|].
    intros H; inversion H. left. repeat split. eauto.
  - destruct (parse_script s) as [pops|e|q] eqn:Ep; try discriminate.
    + destruct (is_multisig pops) eqn:Em; [|discriminate].
      destruct (keys_ok pk (multisig_keys pops)) eqn:Ek; [discriminate|]. destruct e3; [discriminate|].
      intros H; inversion H. right. repeat split. exists pops. repeat split; try assumption.
      apply (nontemplate_multisig s pops E Ep Em).
    + intros _. exfalso. exact (parse_script_no_panic s q Ep).
Qed.

(* E2: a binding template whose target the address layer refuses *)
Theorem extract_panics_on_bad_target e3 pk s h t : spec_template s = Some (TBinding h t) -> valid_target t = false ->
  extract_address_infos_gen false e3 pk s = Panic PAddrsIndex1.
Proof. intros H Hv. rewrite extract_address_infos_is_spec. unfold xinfo_spec. rewrite H, Hv. reflexivity. Qed.

(* E3: a multisig-shaped script with a key btcec refuses *)
Theorem extract_panics_on_bad_key e2 pk s pops : parse_script s = Ok pops -> type_of_pops pops = MultiSigTy ->
  keys_ok pk (multisig_keys pops) = false ->
  extract_address_infos_gen e2 false pk s = Panic PNilAddrPubKey.
Proof.
  intros Hp Ht Hk. rewrite extract_address_infos_is_spec. unfold xinfo_spec.
  destruct (spec_template s) as [t|] eqn:E.
  - pose proof (script_class_template s t E) as Hc. unfold script_class in Hc. rewrite Hp, Ht in Hc.
    destruct t; discriminate.
  - rewrite Hp, (type_multisig pops Ht), Hk. reflexivity.
Qed.

Definition e2_witness : bytes :=
  [0; 32] ++ repeat 17 32 ++ [22] ++ repeat 34 20 ++ [5; 32].
Definition e3_key : bytes := 2 :: repeat 0 31 ++ [5].
Definition e3_witness : bytes := [81; 33] ++ e3_key ++ [81; 174].

Theorem extract_no_panic_refuted : forall pk, exists s,
  extract_address_infos_gen false false pk s = Panic PAddrsIndex1 /\ script_class s = BindingScriptHashTy.
Proof. intros pk. exists e2_witness. split; vm_compute; reflexivity. Qed.

Theorem extract_multisig_panic_refuted : forall e2 pk, pk e3_key = false ->
  extract_address_infos_gen e2 false pk e3_witness = Panic PNilAddrPubKey /\ script_class e3_witness = MultiSigTy.
Proof.
  intros e2 pk H. split; [|vm_compute; reflexivity].
  pose (pops := [mkpop 81 []; mkpop 33 e3_key; mkpop 81 []; mkpop 174 []]).
  assert (Hk : multisig_keys pops = [mkpop 33 e3_key]) by (vm_compute; reflexivity).
  apply (extract_panics_on_bad_key e2 pk e3_witness pops).
  - vm_compute. reflexivity.
  - vm_compute. reflexivity.
  - unfold keys_ok. rewrite Hk. cbn [forallb pop_data]. rewrite H. reflexivity.
Qed.

(* the repaired function never panics *)
Theorem extract_repaired_no_panic pk s p : extract_address_infos_gen true true pk s <> Panic p.
Proof.
  intros H. destruct (extract_panic_cases true true pk s p H) as [(A & _)|(A & _)]; discriminate.
Qed.

(* with the bounds check alone the only panic left is the dependency's *)
Theorem extract_e2fixed_panic pk s p : extract_address_infos_gen true false pk s = Panic p ->
  p = PNilAddrPubKey /\ script_class s = MultiSigTy /\
  exists pops, parse_script s = Ok pops /\ keys_ok pk (multisig_keys pops) = false.
Proof.
  intros H. destruct (extract_panic_cases true false pk s p H) as [(A & _)|(_ & -> & pops & Hp & Ht & Hk)]; [discriminate|].
  split; [reflexivity|]. split; [unfold script_class; rewrite Hp; assumption|]. eauto.
Qed.

(* ---------------------------------------------------------------- agreement with the consensus library *)

Definition wallet_view (i : pkinfo) : list addr :=
  match pk_class i with
  | StakingScriptHashTy => opt_cons (pk_second i) []
  | _ => pk_std i :: opt_cons (pk_second i) []
  end.

Definition spec_maturity (s : bytes) : Z :=
  match spec_template s with
  | Some (TStaking _ p) => (p + 1) mod two64
  | Some (TBinding _ t) => if lenZ t =? 22 then BindingLockedPeriod else 0
  | _ => 0
  end.

Lemma parse_ok_spec s i : ppk s = Ok i -> wallet_spec s = Some i.
Proof.
  intros H. destruct (ppk_cases s) as [(j & Hj & H')|(_ & [H'|H'])]; rewrite H' in H; try discriminate.
  inversion H; subst. assumption.
Qed.

Theorem agree pk s i : ppk s = Ok i ->
  pk_class i = script_class s /\
  extract_pk_script_addrs pk s = Ok (pk_class i, wallet_view i, 1) /\
  (pk_class i = StakingScriptHashTy -> exists h, pk_std i = AWsh 0 h /\ pk_second i = Some (AWsh 1 h)) /\
  pk_maturity i = spec_maturity s /\
  pk_addrclass i = (if sclass_eqb (pk_class i) StakingScriptHashTy then 1 else 0).
Proof.
  intros H. apply parse_ok_spec in H. unfold wallet_spec in H. unfold spec_maturity.
  destruct (spec_template s) as [t|] eqn:E; [|discriminate].
  rewrite (script_class_template s t E), (xaddrs_template pk s t E).
  pose proof (spec_template_inv s t E) as Hi.
  destruct t as [h|h p|h tg].
  - inversion H; subst. cbn. repeat split; try reflexivity. discriminate.
  - inversion H; subst. cbn. repeat split; try reflexivity. intros _. eauto.
  - destruct Hi as (_ & Hl & Hl2). destruct (lenZ tg =? 20) eqn:E20.
    + inversion H; subst. bool_hyps. cbn [pk_class pk_std pk_second pk_maturity pk_addrclass class_of_template consensus_addrs wallet_view sclass_eqb].
      rewrite E20. unfold new_pkh. rewrite E20. cbn. repeat split; try reflexivity. discriminate.
    + destruct (target_ok tg) eqn:Et; [|discriminate]. inversion H; subst. bool_hyps.
      assert (H22 : lenZ tg = 22) by lia.
      cbn [pk_class pk_std pk_second pk_maturity pk_addrclass class_of_template consensus_addrs wallet_view sclass_eqb].
      rewrite H22. unfold new_bind. rewrite H22, Et. cbn. repeat split; try reflexivity. discriminate.
Qed.

Lemma valid_target_undecodable pk s h t : spec_template s = Some (TBinding h t) ->
  (valid_target t = false <-> extract_pk_script_addrs pk s = Ok (BindingScriptHashTy, [AWsh 0 h], 1)).
Proof.
  intros H. rewrite (xaddrs_template pk s _ H). pose proof (spec_template_inv s _ H) as (_ & Hl & Hl2).
  cbn [class_of_template consensus_addrs]. unfold valid_target, new_pkh, new_bind.
  destruct Hl2 as [Hl2|Hl2]; rewrite Hl2; cbn [Z.eqb Pos.eqb negb orb andb opt_cons].
  - split; intros X; first [discriminate X | inversion X].
  - destruct (target_ok t); cbn [opt_cons]; split; intros X; first [discriminate X | reflexivity | inversion X].
Qed.

Theorem reject_iff s :
  (exists e, ppk s = Err e) <->
  (script_class s = NonStandardTy \/ script_class s = MultiSigTy \/ script_class s = NullDataTy) \/
  (exists h t, spec_template s = Some (TBinding h t) /\ valid_target t = false).
Proof.
  split.
  - intros [e H]. destruct (ppk_cases s) as [(i & _ & H')|(Hn & _)]; [rewrite H' in H; discriminate|].
    destruct (parse_pk_script_spec_none s Hn) as [[Hs _]|(h & t & Hs & H22 & Ht & _)].
    + left. destruct (script_class_nontemplate s Hs) as [X|[X|X]]; auto.
    + right. exists h, t. split; [assumption|]. unfold valid_target. rewrite H22, Ht. reflexivity.
  - intros [Hc|(h & t & Hs & Hv)].
    + destruct (spec_template s) as [t|] eqn:E.
      * rewrite (script_class_template s t E) in Hc. destruct t; destruct Hc as [X|[X|X]]; discriminate.
      * exists (a2_err b). apply ppk_nontemplate. assumption.
    + assert (Hn : wallet_spec s = None).
      { unfold wallet_spec. rewrite Hs. unfold valid_target in Hv. apply orb_false_iff in Hv. destruct Hv as [Hv1 Hv2].
        rewrite Hv1. destruct (target_ok t) eqn:Et; [|reflexivity]. rewrite andb_true_r in Hv2.
        pose proof (spec_template_inv s _ Hs) as (_ & _ & [X|X]); bool_hyps; lia. }
      destruct (ppk_cases s) as [(i & Hi & _)|(_ & [H'|H'])]; [congruence| |]; eauto.
Qed.

(* for the classes the wallet does not read, the error is never "skip this output" *)
Theorem nonwitness_error s :
  script_class s = NonStandardTy \/ script_class s = MultiSigTy \/ script_class s = NullDataTy ->
  ppk s = Err (a2_err b).
Proof.
  intros Hc. destruct (spec_template s) as [t|] eqn:E.
  - rewrite (script_class_template s t E) in Hc. destruct t; destruct Hc as [X|[X|X]]; discriminate.
  - apply ppk_nontemplate. assumption.
Qed.

(* ---------------------------------------------------------------- builders *)

Lemma MinFrozenPeriod_nonneg : 0 <= MinFrozenPeriod.
Proof. unfold MinFrozenPeriod. lia. Qed.

Lemma lenZ_le_enc k v : lenZ (le_enc k v) = Z.of_nat k.
Proof. revert v. induction k as [|k IH]; intros v; [reflexivity|]. cbn [le_enc]. rewrite lenZ_cons, IH. lia. Qed.

Lemma le_dec_enc k : forall v, 0 <= v -> le_dec (le_enc k v) = v mod 256 ^ Z.of_nat k.
Proof.
  induction k as [|k IH]; intros v Hv.
  - cbn. rewrite Z.mod_1_r. reflexivity.
  - cbn [le_enc le_dec fold_right]. fold (le_dec (le_enc k (v / 256))).
    rewrite IH by (apply Z.div_pos; lia).
    rewrite Nat2Z.inj_succ, Z.pow_succ_r by lia.
    rewrite Z.rem_mul_r by lia. reflexivity.
Qed.

Lemma add_data_small d : 2 <= lenZ d <= 75 -> add_data d = Ok (lenZ d :: d).
Proof.
  intros H. unfold add_data, MaxScriptElementSize, OP_PUSHDATA1.
  replace (520 <? lenZ d) with false by (symmetry; apply Z.ltb_ge; lia).
  destruct d as [|a [|c d']].
  - rewrite lenZ_nil in H. lia.
  - rewrite lenZ_cons, lenZ_nil in H. lia.
  - replace (lenZ (a :: c :: d') <? 76) with true by (symmetry; apply Z.ltb_lt; lia). reflexivity.
Qed.

Theorem roundtrip_std h : lenZ h = 32 ->
  wallet_pay_to_witness_v0 (Some (AWsh 0 h)) = Ok (0 :: 32 :: h) /\
  ppk (0 :: 32 :: h) = Ok (mkpk WitnessV0ScriptHashTy 0 0 (AWsh 0 h) None).
Proof.
  intros H. split; [|apply ppk_std; assumption].
  cbn [wallet_pay_to_witness_v0 is_witness_v0 Z.eqb negb pay_to_addr_script script_address].
  unfold pay_to_wsh_script. rewrite H. cbn [Z.eqb Pos.eqb negb]. rewrite add_data_small by lia. rewrite H. reflexivity.
Qed.

Lemma staking_script h p : lenZ h = 32 -> MinFrozenPeriod <= p <= SequenceLockTimeMask - 1 ->
  pay_to_staking_addr_script (AWsh 1 h) p = Ok (0 :: 32 :: h ++ 8 :: le_enc 8 p).
Proof.
  intros H Hp. unfold pay_to_staking_addr_script.
  cbn [is_witness_staking Z.eqb Pos.eqb negb script_address]. rewrite H. cbn [Z.eqb Pos.eqb negb].
  unfold valid_frozen_period.
  replace (MinFrozenPeriod <=? p) with true by (symmetry; apply Z.leb_le; lia).
  replace (p <=? SequenceLockTimeMask - 1) with true by (symmetry; apply Z.leb_le; lia).
  cbn [andb negb]. rewrite add_data_small by lia. cbn [bind].
  rewrite add_data_small by (rewrite lenZ_le_enc; lia). cbn [bind]. rewrite H, lenZ_le_enc. reflexivity.
Qed.

Theorem roundtrip_staking h p : lenZ h = 32 -> MinFrozenPeriod <= p <= SequenceLockTimeMask - 1 ->
  exists s, wallet_staking_script (Some (AWsh 1 h)) p = Ok s /\ pay_to_staking_addr_script (AWsh 1 h) p = Ok s /\
            ppk s = Ok (mkpk StakingScriptHashTy 1 (p + 1) (AWsh 0 h) (Some (AWsh 1 h))).
Proof.
  intros H Hp. pose proof MinFrozenPeriod_nonneg as Hm. unfold SequenceLockTimeMask in Hp.
  exists (0 :: 32 :: h ++ 8 :: le_enc 8 p).
  assert (Hs : pay_to_staking_addr_script (AWsh 1 h) p = Ok (0 :: 32 :: h ++ 8 :: le_enc 8 p))
    by (apply staking_script; [assumption|unfold SequenceLockTimeMask; lia]).
  split; [|split; [assumption|]].
  - cbn [wallet_staking_script is_witness_staking Z.eqb Pos.eqb negb]. rewrite Z.mod_small by lia. assumption.
  - rewrite ppk_staking by (assumption || apply lenZ_le_enc).
    rewrite le_dec_enc by lia. change (256 ^ Z.of_nat 8) with two64. unfold two64.
    rewrite (Z.mod_small p) by lia. rewrite Z.mod_small by lia. reflexivity.
Qed.

Theorem roundtrip_binding h t : lenZ h = 32 -> valid_target t = true ->
  wallet_binding_script (AWsh 0 h) (target_addr t) = Ok (0 :: 32 :: h ++ lenZ t :: t) /\
  ppk (0 :: 32 :: h ++ lenZ t :: t) =
  Ok (mkpk BindingScriptHashTy 0 (if lenZ t =? 22 then BindingLockedPeriod else 0) (AWsh 0 h) (Some (target_addr t))).
Proof.
  intros H Hv. unfold valid_target in Hv. apply orb_true_iff in Hv.
  assert (Hl : lenZ t = 20 \/ lenZ t = 22) by (destruct Hv; bool_hyps; auto).
  assert (Hsa : script_address (target_addr t) = t) by (unfold target_addr; destruct (lenZ t =? 20); reflexivity).
  split.
  - unfold wallet_binding_script, pay_to_binding_script. cbn [script_address]. rewrite Hsa, H.
    assert (Hg : negb (lenZ t =? 20) && negb (lenZ t =? 22) = false) by (destruct Hl as [-> | ->]; reflexivity).
    rewrite Hg. cbn [Z.eqb Pos.eqb negb orb]. rewrite !add_data_small by lia. cbn [bind]. rewrite H. reflexivity.
  - rewrite ppk_binding by assumption. unfold target_addr.
    destruct Hv as [Hv|Hv]; bool_hyps.
    + rewrite Hv. reflexivity.
    + rewrite H0. cbn [Z.eqb Pos.eqb]. rewrite H1. reflexivity.
Qed.

(* a raw 22-byte target that is not an address: the script is built and the wallet cannot read it back;
   the wallet's own path cannot produce it (BindingOutput.BindingTarget is a massutil.Address) *)
Theorem roundtrip_binding_raw_refuted : exists h t s, lenZ h = 32 /\ lenZ t = 22 /\
  pay_to_binding_script h t = Ok s /\ ppk s = Err (target_err b).
Proof.
  exists (repeat 17 32), (repeat 34 20 ++ [5; 32]), e2_witness. repeat split; destruct b; vm_compute; reflexivity.
Qed.

(* ---------------------------------------------------------------- address strings *)
Section Encoders.
  Variable str : Type.
  Variable encode : addr -> str.                          (* bech32 / base58check EncodeAddress *)
  Variable decode : str -> option addr.                   (* massutil.DecodeAddress *)
  Hypothesis encode_inj : forall a b, encode a = encode b -> a = b.
  Hypothesis decode_encode : forall a, decode (encode a) = Some a.

  Lemma map_encode_inj : forall l1 l2, map encode l1 = map encode l2 -> l1 = l2.
  Proof.
    induction l1 as [|a l1 IH]; intros [|a2 l2] H; try discriminate; [reflexivity|].
    cbn [map] in H. inversion H. f_equal; [apply encode_inj; assumption|apply IH; assumption].
  Qed.

  (* the strings the wallet shows are the strings the consensus library derives, and only those *)
  Theorem encoded_agree pk s i c addrs r : ppk s = Ok i ->
    extract_pk_script_addrs pk s = Ok (c, addrs, r) ->
    c = pk_class i /\ map encode addrs = map encode (wallet_view i) /\
    (forall l, map encode l = map encode addrs -> l = wallet_view i).
  Proof.
    intros H Hx. destruct (agree pk s i H) as (_ & Hx' & _). rewrite Hx' in Hx. inversion Hx; subst.
    repeat split. intros l Hl. apply map_encode_inj. assumption.
  Qed.

  (* PayToWitnessV0Address on the string of a standard address *)
  Theorem roundtrip_std_encoded h : lenZ h = 32 ->
    exists s, wallet_pay_to_witness_v0 (decode (encode (AWsh 0 h))) = Ok s /\
              ppk s = Ok (mkpk WitnessV0ScriptHashTy 0 0 (AWsh 0 h) None).
  Proof. intros H. rewrite decode_encode. eexists. apply roundtrip_std. assumption. Qed.

  Theorem roundtrip_staking_encoded h p : lenZ h = 32 -> MinFrozenPeriod <= p <= SequenceLockTimeMask - 1 ->
    exists s, wallet_staking_script (decode (encode (AWsh 1 h))) p = Ok s /\
              ppk s = Ok (mkpk StakingScriptHashTy 1 (p + 1) (AWsh 0 h) (Some (AWsh 1 h))).
  Proof.
    intros H Hp. rewrite decode_encode. destruct (roundtrip_staking h p H Hp) as (s & A & _ & B). eauto.
  Qed.
End Encoders.

(* ---------------------------------------------------------------- the templates, as equations on bytes *)

Definition layout (s : bytes) (t : template) : Prop :=
  match t with
  | TStd h => s = 0 :: 32 :: h /\ lenZ h = 32
  | TStaking h p => exists pb, s = 0 :: 32 :: h ++ 8 :: pb /\ lenZ h = 32 /\ lenZ pb = 8 /\ p = le_dec pb
  | TBinding h tg => s = 0 :: 32 :: h ++ lenZ tg :: tg /\ lenZ h = 32 /\ (lenZ tg = 20 \/ lenZ tg = 22)
  end.

Theorem spec_template_grammar s t : spec_template s = Some t <-> layout s t.
Proof.
  split; [apply spec_template_inv|].
  destruct t as [h|h p|h tg]; cbn [layout].
  - intros [-> H]. apply spec_template_std. assumption.
  - intros (pb & -> & H & Hp & ->). rewrite spec_template_three by assumption. reflexivity.
  - intros (-> & H & [Ht|Ht]); rewrite spec_template_three by (assumption || reflexivity); rewrite Ht; reflexivity.
Qed.

(* the consensus library's template matching (GetScriptClass) is exactly these layouts *)
Theorem consensus_templates s :
  (script_class s = WitnessV0ScriptHashTy <-> exists h, layout s (TStd h)) /\
  (script_class s = StakingScriptHashTy <-> exists h p, layout s (TStaking h p)) /\
  (script_class s = BindingScriptHashTy <-> exists h t, layout s (TBinding h t)).
Proof.
  assert (forall c, (c = WitnessV0ScriptHashTy \/ c = StakingScriptHashTy \/ c = BindingScriptHashTy) ->
                    script_class s = c -> exists t, spec_template s = Some t /\ class_of_template t = c) as Hfw.
  { intros c Hc H. destruct (spec_template s) as [t|] eqn:E.
    - exists t. split; [reflexivity|]. rewrite <- H. symmetry. apply script_class_template. assumption.
    - destruct (script_class_nontemplate s E) as [X|[X|X]]; rewrite X in H; subst c;
        destruct Hc as [Y|[Y|Y]]; discriminate. }
  repeat split.
  - intros H. destruct (Hfw WitnessV0ScriptHashTy ltac:(auto) H) as (t & Ht & Hc). destruct t; try discriminate.
    eexists. apply spec_template_grammar. eassumption.
  - intros (h & H). apply spec_template_grammar in H. apply (script_class_template _ _ H).
  - intros H. destruct (Hfw StakingScriptHashTy ltac:(auto) H) as (t & Ht & Hc). destruct t; try discriminate.
    do 2 eexists. apply spec_template_grammar. eassumption.
  - intros (h & p & H). apply spec_template_grammar in H. apply (script_class_template _ _ H).
  - intros H. destruct (Hfw BindingScriptHashTy ltac:(auto) H) as (t & Ht & Hc). destruct t; try discriminate.
    do 2 eexists. apply spec_template_grammar. eassumption.
  - intros (h & p & H). apply spec_template_grammar in H. apply (script_class_template _ _ H).
Qed.

(* both conjuncts of "never panics", for the code as found: the first holds, the second is characterised *)
Theorem extract_panic_iff pk s p :
  extract_address_infos_gen false false pk s = Panic p <->
  (p = PAddrsIndex1 /\ exists h t, spec_template s = Some (TBinding h t) /\ valid_target t = false) \/
  (p = PNilAddrPubKey /\ exists pops, parse_script s = Ok pops /\ type_of_pops pops = MultiSigTy /\
                                      keys_ok pk (multisig_keys pops) = false).
Proof.
  split.
  - intros H. destruct (extract_panic_cases _ _ _ _ _ H) as [(_ & A)|(_ & A)]; auto.
  - intros [(-> & h & t & Hs & Hv)|(-> & pops & Hp & Ht & Hk)].
    + apply (extract_panics_on_bad_target false pk s h t Hs Hv).
    + apply (extract_panics_on_bad_key false pk s pops Hp Ht Hk).
Qed.

Theorem no_panic_repaired pk s : (forall p, ppk s <> Panic p) /\
                                 (forall p, extract_address_infos_gen true true pk s <> Panic p).
Proof. split; intros p; [apply parse_pk_script_no_panic|apply extract_repaired_no_panic]. Qed.

(* what api.extractAddressInfos shows agrees with the wallet's reading *)
Theorem extract_agrees_with_parse e2 e3 pk s i x : ppk s = Ok i ->
  extract_address_infos_gen e2 e3 pk s = Ok x ->
  x_class x = pk_class i /\ x_recipient x = Some (pk_std i) /\ x_reqsigs x = 1 /\
  (pk_class i = StakingScriptHashTy -> x_staking x = pk_second i) /\
  (pk_class i = BindingScriptHashTy -> exists a c z, x_binding x = Some (a, c, z) /\ pk_second i = Some a).
Proof.
  intros H. apply parse_ok_spec in H. rewrite extract_address_infos_is_spec. unfold wallet_spec in H. unfold xinfo_spec.
  destruct (spec_template s) as [[h|h p|h tg]|] eqn:E; try discriminate.
  - inversion H; subst. intros X; inversion X; subst. cbn. repeat split; try discriminate.
  - inversion H; subst. intros X; inversion X; subst. cbn. repeat split; try discriminate.
  - unfold valid_target, target_addr. destruct (lenZ tg =? 20) eqn:E20.
    + inversion H; subst. cbn [orb]. intros X; inversion X; subst. cbn. repeat split; try discriminate. intros _. eauto.
    + destruct (target_ok tg) eqn:Et; [|discriminate]. inversion H; subst. cbn [orb].
      destruct (lenZ tg =? 22); cbn [andb]; intros X; [|destruct e2; discriminate X].
      inversion X; subst. cbn. repeat split; try discriminate. intros _. eauto.
Qed.

Theorem roundtrip_encoded : forall (str : Type) (encode : addr -> str) (decode : str -> option addr),
  (forall a, decode (encode a) = Some a) ->
  forall h, lenZ h = 32 ->
  (exists s, wallet_pay_to_witness_v0 (decode (encode (AWsh 0 h))) = Ok s /\
             ppk s = Ok (mkpk WitnessV0ScriptHashTy 0 0 (AWsh 0 h) None)) /\
  (forall p, MinFrozenPeriod <= p <= SequenceLockTimeMask - 1 ->
   exists s, wallet_staking_script (decode (encode (AWsh 1 h))) p = Ok s /\
             ppk s = Ok (mkpk StakingScriptHashTy 1 (p + 1) (AWsh 0 h) (Some (AWsh 1 h)))).
Proof.
  intros str encode decode Hd h Hh. split.
  - exact (roundtrip_std_encoded str encode decode Hd h Hh).
  - intros p Hp. exact (roundtrip_staking_encoded str encode decode Hd h p Hh Hp).
Qed.

End A2.

(* DESIGN.md A2: in the code as found utils.ErrUnsupportedScript is never returned ... *)
Theorem parse_pk_script_never_unsupported s : parse_pk_script_gen false s <> Err EUnsupported.
Proof. destruct (ppk_cases false s) as [(i & _ & H)|(_ & [H|H])]; rewrite H; discriminate. Qed.

(* ... and with the repair it is returned exactly for the classes the wallet does not read *)
Theorem unsupported_iff_fixed s : parse_pk_script_gen true s = Err EUnsupported <->
  (script_class s = NonStandardTy \/ script_class s = MultiSigTy \/ script_class s = NullDataTy \/
   exists h t, spec_template s = Some (TBinding h t) /\ lenZ t = 22 /\ target_ok t = false).
Proof.
  split.
  - intros H. destruct (spec_template s) as [t|] eqn:E; [|destruct (script_class_nontemplate s E) as [X|[X|X]]; auto].
    destruct (ppk_cases true s) as [(i & _ & H')|(Hn & _)]; [rewrite H' in H; discriminate|].
    destruct (parse_pk_script_spec_none true s Hn) as [[Hs _]|(h & tg & Ht & Hl & Hk & H')]; [congruence|].
    right; right; right. exists h, tg. rewrite <- E. auto.
  - intros [X|[X|[X|(h & t & Ht & Hl & Hk)]]];
      [apply (nonwitness_error true); auto | apply (nonwitness_error true); auto | apply (nonwitness_error true); auto |].
    assert (wallet_spec s = None) as Hn.
    { unfold wallet_spec. rewrite Ht. rewrite Hl. cbn [Z.eqb Pos.eqb]. rewrite Hk. reflexivity. }
    destruct (parse_pk_script_spec_none true s Hn) as [[Hs _]|(h' & t' & _ & _ & _ & H')]; [congruence|].
    exact H'.
Qed.

(* the three builders in one statement *)
Theorem builders_roundtrip : forall b h, lenZ h = 32 ->
  (wallet_pay_to_witness_v0 (Some (AWsh 0 h)) = Ok (0 :: 32 :: h) /\
   parse_pk_script_gen b (0 :: 32 :: h) = Ok (mkpk WitnessV0ScriptHashTy 0 0 (AWsh 0 h) None)) /\
  (forall p, MinFrozenPeriod <= p <= SequenceLockTimeMask - 1 ->
   exists s, wallet_staking_script (Some (AWsh 1 h)) p = Ok s /\ pay_to_staking_addr_script (AWsh 1 h) p = Ok s /\
             parse_pk_script_gen b s = Ok (mkpk StakingScriptHashTy 1 (p + 1) (AWsh 0 h) (Some (AWsh 1 h)))) /\
  (forall t, valid_target t = true ->
   wallet_binding_script (AWsh 0 h) (target_addr t) = Ok (0 :: 32 :: h ++ lenZ t :: t) /\
   parse_pk_script_gen b (0 :: 32 :: h ++ lenZ t :: t) =
   Ok (mkpk BindingScriptHashTy 0 (if lenZ t =? 22 then BindingLockedPeriod else 0) (AWsh 0 h) (Some (target_addr t)))).
Proof.
  intros b h H. split; [apply roundtrip_std; assumption|]. split.
  - intros p Hp. apply roundtrip_staking; assumption.
  - intros t Ht. apply roundtrip_binding; assumption.
Qed.
