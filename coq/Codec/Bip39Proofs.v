(* Codec/Bip39Proofs.v — proofs about the Bip39 model (C13). *)
From Coq Require Import List ZArith Bool Lia.
Import ListNotations.
Open Scope Z_scope.
Require Import MW.Gen.Wordlist MW.Codec.Bip39.

Local Ltac bool_hyps :=
  repeat match goal with
         | H : _ && _ = true |- _ => apply andb_true_iff in H; destruct H
         | H : _ || _ = false |- _ => apply orb_false_iff in H; destruct H
         | H : negb _ = true |- _ => apply negb_true_iff in H
         | H : negb _ = false |- _ => apply negb_false_iff in H
         | H : (_ <=? _) = true |- _ => apply Z.leb_le in H
         | H : (_ <=? _) = false |- _ => apply Z.leb_gt in H
         | H : (_ <? _) = true |- _ => apply Z.ltb_lt in H
         | H : (_ <? _) = false |- _ => apply Z.ltb_ge in H
         | H : (_ =? _) = true |- _ => apply Z.eqb_eq in H
         | H : (_ =? _) = false |- _ => apply Z.eqb_neq in H
         end.

(* ------------------------------------------------------------------ lists of bytes *)

Lemma len_app {A} (a b : list A) : len (a ++ b) = len a + len b.
Proof. unfold len. rewrite app_length. lia. Qed.
Lemma len_cons {A} (x : A) l : len (x :: l) = 1 + len l.
Proof. unfold len. cbn [length]. lia. Qed.
Lemma len_nonneg {A} (l : list A) : 0 <= len l.
Proof. unfold len. lia. Qed.

Lemma bytes_eqb_eq a : forall b, bytes_eqb a b = true <-> a = b.
Proof.
  induction a as [|x a IH]; intros [|y b]; cbn; split; intros E; try discriminate; auto.
  - apply andb_true_iff in E. destruct E as [E1 E2]. apply Z.eqb_eq in E1. apply IH in E2. congruence.
  - injection E as -> ->. rewrite Z.eqb_refl. cbn. apply IH. reflexivity.
Qed.
Lemma bytes_eqb_refl a : bytes_eqb a a = true.
Proof. apply bytes_eqb_eq. reflexivity. Qed.
Lemma bytes_eqb_neq a b : bytes_eqb a b = false <-> a <> b.
Proof.
  split.
  - intros E F. apply bytes_eqb_eq in F. congruence.
  - intros N. destruct (bytes_eqb a b) eqn:E; auto. apply bytes_eqb_eq in E. contradiction.
Qed.

Lemma bytes_ok_app a b : bytes_ok (a ++ b) <-> bytes_ok a /\ bytes_ok b.
Proof. apply Forall_app. Qed.
Lemma bytes_ok_repeat0 n : bytes_ok (repeat 0 n).
Proof. induction n; constructor; auto. unfold is_byte. lia. Qed.

(* ------------------------------------------------------------------ big-endian values *)

Lemma fold_be b : forall x,
  fold_left (fun a y => a * 256 + y) b x = x * 256 ^ len b + be_val b.
Proof.
  unfold be_val. induction b as [|c b IH]; intros x.
  - cbn. lia.
  - cbn [fold_left]. rewrite IH. rewrite (IH (0 * 256 + c)).
    rewrite len_cons, Z.pow_add_r, Z.pow_1_r by (pose proof (len_nonneg b); lia). lia.
Qed.
Lemma be_val_app a b : be_val (a ++ b) = be_val a * 256 ^ len b + be_val b.
Proof. unfold be_val at 1. rewrite fold_left_app. rewrite fold_be. reflexivity. Qed.
Lemma be_val_cons c s : be_val (c :: s) = c * 256 ^ len s + be_val s.
Proof. change (c :: s) with ([c] ++ s). rewrite be_val_app. unfold be_val at 1. cbn. lia. Qed.
Lemma be_val_nil : be_val [] = 0. Proof. reflexivity. Qed.

Lemma be_val_bounds s : bytes_ok s -> 0 <= be_val s < 256 ^ len s.
Proof.
  induction 1 as [|c s Hc Hs IH].
  - cbn. lia.
  - rewrite be_val_cons, len_cons, Z.pow_add_r, Z.pow_1_r by (pose proof (len_nonneg s); lia).
    unfold is_byte in Hc. nia.
Qed.

Lemma be_val_repeat0 n s : be_val (repeat 0 n ++ s) = be_val s.
Proof. induction n as [|n IH]; [reflexivity|]. cbn [repeat app]. rewrite be_val_cons, IH. lia. Qed.

Lemma be_val_inj_len a : forall b, bytes_ok a -> bytes_ok b ->
  length a = length b -> be_val a = be_val b -> a = b.
Proof.
  induction a as [|c a IH]; intros [|d b] Ha Hb Hl Hv; try discriminate; auto.
  inversion Ha as [|? ? Hc Ha']; subst. inversion Hb as [|? ? Hd Hb']; subst.
  injection Hl as Hl.
  rewrite !be_val_cons in Hv. unfold len in Hv. rewrite Hl in Hv.
  pose proof (be_val_bounds a Ha') as Ba. pose proof (be_val_bounds b Hb') as Bb.
  unfold len in Ba, Bb. rewrite Hl in Ba.
  unfold is_byte in Hc, Hd.
  assert (c = d) by nia. subst d. f_equal. apply IH; auto. lia.
Qed.

(* x.Bytes(): the spec of the fuel loop *)
Lemma be_bytes_aux_spec f : forall n acc, 0 <= n < 256 ^ Z.of_nat f ->
  exists d, be_bytes_aux f n acc = d ++ acc /\ bytes_ok d /\ be_val d = n /\
            (forall L, 0 <= L -> n < 256 ^ L -> len d <= L).
Proof.
  induction f as [|f IH]; intros n acc Hn.
  - cbn in Hn. assert (n = 0) by lia. subst. exists []. cbn. repeat split; auto; try constructor; intros; cbn; lia.
  - cbn [be_bytes_aux]. destruct (n <=? 0) eqn:E; bool_hyps.
    + assert (n = 0) by lia. subst. exists []. repeat split; auto; try constructor; intros; cbn; lia.
    + rewrite Nat2Z.inj_succ, Z.pow_succ_r in Hn by lia.
      destruct (IH (n / 256) (n mod 256 :: acc)) as (d & Hd & Hok & Hv & Hl).
      { split. apply Z.div_pos; lia. apply Z.div_lt_upper_bound; lia. }
      exists (d ++ [n mod 256]). rewrite Hd, <- app_assoc. cbn [app]. repeat split.
      * apply bytes_ok_app. split; auto. constructor; [|constructor].
        unfold is_byte. apply Z.mod_pos_bound. lia.
      * rewrite be_val_app, Hv. unfold be_val at 1. cbn.
        pose proof (Z.div_mod n 256). lia.
      * intros L HL HnL. rewrite len_app. change (len [n mod 256]) with 1.
        assert (1 <= L). { destruct (Z.eq_dec L 0); [subst; cbn in HnL; lia | lia]. }
        assert (len d <= L - 1); [|lia].
        apply Hl; [lia|]. apply Z.div_lt_upper_bound; [lia|].
        rewrite <- Z.pow_succ_r by lia. replace (Z.succ (L - 1)) with L by lia. exact HnL.
Qed.

Lemma be_bytes_fuel n : 0 <= n -> n < 256 ^ Z.of_nat (S (Z.to_nat (Z.log2 n))).
Proof.
  intros Hn. destruct (Z.eq_dec n 0) as [->|N0].
  - cbn. lia.
  - pose proof (Z.log2_spec n ltac:(lia)) as [_ Hu].
    pose proof (Z.log2_nonneg n).
    rewrite Nat2Z.inj_succ, Z2Nat.id by lia.
    eapply Z.lt_le_trans; [exact Hu|].
    change 256 with (2 ^ 8). rewrite <- Z.pow_mul_r by lia.
    apply Z.pow_le_mono_r; lia.
Qed.

Lemma be_bytes_spec n : 0 <= n ->
  bytes_ok (be_bytes n) /\ be_val (be_bytes n) = n /\
  (forall L, 0 <= L -> n < 256 ^ L -> len (be_bytes n) <= L).
Proof.
  intros Hn. unfold be_bytes.
  destruct (be_bytes_aux_spec (S (Z.to_nat (Z.log2 n))) n []) as (d & Hd & Hok & Hv & Hl).
  { split; auto. apply be_bytes_fuel; auto. }
  rewrite Hd, app_nil_r. auto.
Qed.

(* padByteSlice *)
Lemma pad_bytes_spec s L : bytes_ok s -> len s <= L ->
  bytes_ok (pad_bytes s L) /\ be_val (pad_bytes s L) = be_val s /\ len (pad_bytes s L) = L.
Proof.
  intros Hs Hl. unfold pad_bytes. destruct (L - len s <=? 0) eqn:E; bool_hyps.
  - repeat split; auto. lia.
  - repeat split.
    + apply bytes_ok_app. split; auto. apply bytes_ok_repeat0.
    + apply be_val_repeat0.
    + rewrite len_app. unfold len at 1. rewrite repeat_length, Z2Nat.id; lia.
Qed.

(* pad(Bytes(n), L) is the L-byte big-endian representation of n *)
Lemma pad_be_bytes n L : 0 <= n < 256 ^ L -> 0 <= L ->
  bytes_ok (pad_bytes (be_bytes n) L) /\ be_val (pad_bytes (be_bytes n) L) = n /\
  len (pad_bytes (be_bytes n) L) = L.
Proof.
  intros Hn HL. destruct (be_bytes_spec n ltac:(lia)) as (Hok & Hv & Hl).
  destruct (pad_bytes_spec (be_bytes n) L Hok (Hl L HL ltac:(lia))) as (A & B & C).
  repeat split; auto. congruence.
Qed.

(* leading zero bytes come back *)
Lemma pad_be_bytes_id e : bytes_ok e -> pad_bytes (be_bytes (be_val e)) (len e) = e.
Proof.
  intros He. pose proof (be_val_bounds e He) as B.
  destruct (pad_be_bytes (be_val e) (len e) B (len_nonneg e)) as (A & V & Lh).
  apply be_val_inj_len; auto. apply Nat2Z.inj. exact Lh.
Qed.

Lemma pad_be_bytes_inj a b L : 0 <= a < 256 ^ L -> 0 <= b < 256 ^ L -> 0 <= L ->
  pad_bytes (be_bytes a) L = pad_bytes (be_bytes b) L -> a = b.
Proof.
  intros Ha Hb HL E.
  destruct (pad_be_bytes a L Ha HL) as (_ & Va & _).
  destruct (pad_be_bytes b L Hb HL) as (_ & Vb & _). congruence.
Qed.

(* ------------------------------------------------------------------ bit strings *)

Lemma fold_bits l : forall x,
  fold_left (fun a b => 2 * a + Z.b2z b) l x = x * 2 ^ len l + bits_val l.
Proof.
  unfold bits_val. induction l as [|c l IH]; intros x.
  - cbn. lia.
  - cbn [fold_left]. rewrite IH. rewrite (IH (2 * 0 + Z.b2z c)).
    rewrite len_cons, Z.pow_add_r, Z.pow_1_r by (pose proof (len_nonneg l); lia). lia.
Qed.
Lemma bits_val_app a b : bits_val (a ++ b) = bits_val a * 2 ^ len b + bits_val b.
Proof. unfold bits_val at 1. rewrite fold_left_app. rewrite fold_bits. reflexivity. Qed.
Lemma bits_val_cons c s : bits_val (c :: s) = Z.b2z c * 2 ^ len s + bits_val s.
Proof. change (c :: s) with ([c] ++ s). rewrite bits_val_app. unfold bits_val at 1. cbn. lia. Qed.

Lemma bits_val_bounds s : 0 <= bits_val s < 2 ^ len s.
Proof.
  induction s as [|c s IH].
  - cbn. lia.
  - rewrite bits_val_cons, len_cons, Z.pow_add_r, Z.pow_1_r by (pose proof (len_nonneg s); lia).
    destruct c; cbn [Z.b2z]; lia.
Qed.

Lemma bits_val_inj a : forall b, length a = length b -> bits_val a = bits_val b -> a = b.
Proof.
  induction a as [|c a IH]; intros [|d b] Hl Hv; try discriminate; auto.
  injection Hl as Hl. rewrite !bits_val_cons in Hv. unfold len in Hv. rewrite Hl in Hv.
  pose proof (bits_val_bounds a) as Ba. pose proof (bits_val_bounds b) as Bb.
  unfold len in Ba, Bb. rewrite Hl in Ba.
  assert (c = d) by (destruct c, d; cbn [Z.b2z] in Hv; auto; lia).
  subst d. f_equal. apply IH; auto. lia.
Qed.

Lemma bits_of_S k v : bits_of (S k) v = Z.testbit v (Z.of_nat k) :: bits_of k v.
Proof. unfold bits_of. rewrite seq_S, rev_app_distr. reflexivity. Qed.

Lemma bits_of_length k v : length (bits_of k v) = k.
Proof. unfold bits_of. rewrite map_length, rev_length, seq_length. reflexivity. Qed.

Lemma bits_val_bits_of k : forall v, 0 <= v -> bits_val (bits_of k v) = v mod 2 ^ Z.of_nat k.
Proof.
  induction k as [|k IH]; intros v Hv.
  - cbn. rewrite Z.mod_1_r. reflexivity.
  - rewrite bits_of_S, bits_val_cons, IH by auto.
    unfold len. rewrite bits_of_length.
    rewrite Z.testbit_spec' by lia.
    rewrite Nat2Z.inj_succ, Z.pow_succ_r by lia.
    rewrite (Z.mul_comm 2), Z.rem_mul_r by lia. lia.
Qed.

Lemma bits_of_bits_val l : bits_of (length l) (bits_val l) = l.
Proof.
  apply bits_val_inj. apply bits_of_length.
  pose proof (bits_val_bounds l). rewrite bits_val_bits_of by lia.
  apply Z.mod_small. exact H.
Qed.

Lemma bits_length l : length (bits l) = (8 * length l)%nat.
Proof.
  induction l as [|b l IH]; [reflexivity|].
  unfold bits in *. cbn [flat_map]. rewrite app_length, IH, bits_of_length. cbn [length]. lia.
Qed.

Lemma bits_val_bits l : bytes_ok l -> bits_val (bits l) = be_val l.
Proof.
  induction 1 as [|b l Hb Hl IH]; [reflexivity|].
  change (bits (b :: l)) with (bits_of 8 b ++ bits l).
  rewrite bits_val_app, be_val_cons, IH. unfold is_byte in Hb.
  rewrite bits_val_bits_of by lia. unfold len. rewrite bits_length.
  rewrite Z.mod_small by (cbn; lia).
  rewrite Nat2Z.inj_mul, Z.pow_mul_r by lia. reflexivity.
Qed.

Lemma flat_bits11_length (idxs : list nat) :
  length (flat_map (fun i => bits_of 11 (Z.of_nat i)) idxs) = (11 * length idxs)%nat.
Proof.
  induction idxs as [|i r IH]; [reflexivity|].
  cbn [flat_map]. rewrite app_length, IH, bits_of_length. cbn [length]. lia.
Qed.

(* ------------------------------------------------------------------ the checksum bits *)

Definition range256 : list Z := map Z.of_nat (seq 0 256).
Lemma in_range256 b : 0 <= b < 256 -> In b range256.
Proof.
  intros Hb. unfold range256. apply in_map_iff. exists (Z.to_nat b). split; [lia|].
  apply in_seq. lia.
Qed.

(* the first k bits of a byte, as a number *)
Definition csv (k : nat) (f : Z) : Z := f / 2 ^ (8 - Z.of_nat k).

(* finite sweep over 9 x 256 values, lifted below *)
Lemma checksum_sweep :
  forallb (fun k => forallb (fun f =>
     (add_checksum_loop k 0 f 0 =? csv k f) && (bits_val (firstn k (bits_of 8 f)) =? csv k f)
     && (0 <=? csv k f) && (csv k f <? 2 ^ Z.of_nat k)) range256) (seq 0 9) = true.
Proof. vm_compute. reflexivity. Qed.

Lemma checksum_facts k f : (k <= 8)%nat -> 0 <= f < 256 ->
  add_checksum_loop k 0 f 0 = csv k f /\ bits_val (firstn k (bits_of 8 f)) = csv k f /\
  0 <= csv k f < 2 ^ Z.of_nat k.
Proof.
  intros Hk Hf. pose proof checksum_sweep as S.
  rewrite forallb_forall in S. specialize (S k ltac:(apply in_seq; lia)).
  rewrite forallb_forall in S. specialize (S f (in_range256 f Hf)).
  bool_hyps. auto.
Qed.

Lemma lor_double_1 n : 0 <= n -> Z.lor (n * 2) 1 = n * 2 + 1.
Proof.
  intros Hn. rewrite (Z.mul_comm n 2). destruct n as [|p|p]; [reflexivity|reflexivity|lia].
Qed.

Lemma add_checksum_loop_linear k : forall i f n, 0 <= n ->
  add_checksum_loop k i f n = n * 2 ^ Z.of_nat k + add_checksum_loop k i f 0.
Proof.
  induction k as [|k IH]; intros i f n Hn.
  - cbn. lia.
  - cbn [add_checksum_loop]. rewrite Nat2Z.inj_succ, Z.pow_succ_r by lia.
    destruct (checksum_bit f i).
    + rewrite lor_double_1 by lia. rewrite (IH _ _ (n * 2 + 1)) by lia.
      change (Z.lor (0 * 2) 1) with 1. rewrite (IH _ _ 1) by lia. lia.
    + rewrite (IH _ _ (n * 2)) by lia. change (0 * 2) with 0. lia.
Qed.

Lemma skipn_skipn' {A} b : forall a (l : list A), skipn a (skipn b l) = skipn (b + a) l.
Proof.
  induction b as [|b IH]; intros a l; [reflexivity|].
  destruct l as [|x l]; [cbn; apply skipn_nil|]. cbn [skipn plus]. apply IH.
Qed.

Lemma firstn_length_le' {A} n (l : list A) : (n <= length l)%nat -> length (firstn n l) = n.
Proof. apply firstn_length_le. Qed.

Section WithHash.
  Variable H : bytes -> bytes.
  Hypothesis H_wf : hash_wf H.

  Lemma hash0_byte d : 0 <= hash0 H d < 256.
  Proof. unfold hash0. destruct (H_wf d) as (h0 & rest & E & B). rewrite E. exact B. Qed.

  Lemma add_checksum_spec data k : bytes_ok data -> len data / 4 = Z.of_nat k -> (k <= 8)%nat ->
    add_checksum H data = be_bytes (be_val data * 2 ^ Z.of_nat k + csv k (hash0 H data)).
  Proof.
    intros Hd Hk Hk8. unfold add_checksum. rewrite Hk, Nat2Z.id.
    pose proof (be_val_bounds data Hd).
    rewrite add_checksum_loop_linear by lia.
    destruct (checksum_facts k (hash0 H data) Hk8 (hash0_byte data)) as (A & _ & _).
    rewrite A. reflexivity.
  Qed.

  Lemma checksum_bits_spec e k : (length e * 8 / 32 = k)%nat -> (k <= 8)%nat ->
    checksum_bits H e = firstn k (bits_of 8 (hash0 H e)) /\
    bits_val (checksum_bits H e) = csv k (hash0 H e) /\ length (checksum_bits H e) = k.
  Proof.
    intros Hk Hk8. unfold checksum_bits, hash0. rewrite Hk.
    destruct (H_wf e) as (h0 & rest & E & B). rewrite E.
    change (bits (h0 :: rest)) with (bits_of 8 h0 ++ bits rest). cbn [nth].
    rewrite firstn_app, bits_of_length.
    replace (k - 8)%nat with 0%nat by lia. cbn [firstn]. rewrite app_nil_r.
    destruct (checksum_facts k h0 Hk8 B) as (_ & A & _).
    repeat split; auto. apply firstn_length_le. rewrite bits_of_length. exact Hk8.
  Qed.

  (* ---------------------------------------------------------------- the word loop of NewMnemonic *)

  Lemma land_2047 n : 0 <= n -> Z.land n 2047 = n mod 2048.
  Proof. intros. change 2047 with (Z.ones 11). rewrite Z.land_ones by lia. reflexivity. Qed.

  Lemma uint16_pad w : 0 <= w < 65536 -> uint16_be (pad_bytes (be_bytes w) 2) = w.
  Proof.
    intros Hw. destruct (pad_be_bytes w 2 ltac:(cbn; lia) ltac:(lia)) as (_ & V & L).
    destruct (pad_bytes (be_bytes w) 2) as [|a [|b [|c r]]];
      try (unfold len in L; cbn [length] in L; lia).
    unfold uint16_be. cbn [nth]. unfold be_val in V. cbn in V. lia.
  Qed.

  Lemma chunks_snoc k : forall l, length l = (11 * S k)%nat ->
    chunks (S k) l = chunks k (firstn (11 * k) l) ++ [skipn (11 * k) l].
  Proof.
    induction k as [|k IH]; intros l Hl.
    - change (chunks 1 l) with [firstn 11 l]. replace (11 * 0)%nat with 0%nat by lia.
      change (chunks 0 (firstn 0 l)) with (@nil (list bool)). change (skipn 0 l) with l.
      cbn [app]. f_equal. apply firstn_all2. lia.
    - change (chunks (S (S k)) l) with (firstn 11 l :: chunks (S k) (skipn 11 l)).
      rewrite IH by (rewrite skipn_length; lia).
      change (chunks (S k) (firstn (11 * S k) l)) with
        (firstn 11 (firstn (11 * S k) l) :: chunks k (skipn 11 (firstn (11 * S k) l))).
      rewrite firstn_firstn. replace (Nat.min 11 (11 * S k)) with 11%nat by lia.
      cbn [app]. f_equal.
      rewrite skipn_skipn'. replace (11 + 11 * k)%nat with (11 * S k)%nat by lia.
      f_equal. f_equal.
      replace (11 * S k)%nat with (11 + 11 * k)%nat by lia.
      rewrite <- firstn_skipn_comm. reflexivity.
  Qed.

  Lemma words_loop_chunks k : forall l acc, length l = (11 * k)%nat ->
    words_loop k (bits_val l) acc = map bits_val (chunks k l) ++ acc.
  Proof.
    induction k as [|k IH]; intros l acc Hl.
    - reflexivity.
    - rewrite chunks_snoc by exact Hl. cbn [words_loop].
      pose proof (bits_val_bounds l) as Bl.
      rewrite <- (firstn_skipn (11 * k) l) at 1 2.
      rewrite bits_val_app.
      assert (Ls : len (skipn (11 * k) l) = 11).
      { unfold len. rewrite skipn_length. lia. }
      rewrite Ls.
      pose proof (bits_val_bounds (skipn (11 * k) l)) as Bs. rewrite Ls in Bs.
      pose proof (bits_val_bounds (firstn (11 * k) l)) as Bf.
      change (2 ^ 11) with 2048 in *.
      set (a := bits_val (firstn (11 * k) l)) in *. set (b := bits_val (skipn (11 * k) l)) in *.
      rewrite land_2047 by lia.
      replace ((a * 2048 + b) mod 2048) with b
        by (rewrite Z.add_comm, Z.mod_add by lia; symmetry; apply Z.mod_small; lia).
      replace ((a * 2048 + b) / 2048) with a
        by (rewrite Z.add_comm, Z.div_add by lia; rewrite Z.div_small by lia; lia).
      rewrite uint16_pad by lia.
      subst a. rewrite IH by (rewrite firstn_length; lia).
      rewrite map_app, <- app_assoc. reflexivity.
  Qed.

  Lemma chunks_length k l : length (chunks k l) = k.
  Proof. revert l. induction k; intros; cbn; auto. Qed.

  Lemma chunks_concat k : forall l, length l = (11 * k)%nat -> concat (chunks k l) = l.
  Proof.
    induction k as [|k IH]; intros l Hl.
    - destruct l; [reflexivity|discriminate].
    - cbn [chunks concat]. rewrite IH by (rewrite skipn_length; lia). apply firstn_skipn.
  Qed.

  Lemma chunks_each k : forall l, length l = (11 * k)%nat -> Forall (fun c => length c = 11%nat) (chunks k l).
  Proof.
    induction k as [|k IH]; intros l Hl; cbn [chunks]; constructor.
    - rewrite firstn_length. lia.
    - apply IH. rewrite skipn_length. lia.
  Qed.
End WithHash.

(* ------------------------------------------------------------------ the word list (generated file) *)

Lemma wordlist_len : len wordlist = 2048.
Proof. vm_compute. reflexivity. Qed.

Fixpoint nodupb (l : list str) : bool :=
  match l with
  | [] => true
  | x :: r => negb (existsb (bytes_eqb x) r) && nodupb r
  end.
Lemma nodupb_sound l : nodupb l = true -> NoDup l.
Proof.
  induction l as [|x r IH]; intros E; constructor; cbn in E; bool_hyps.
  - intros I. assert (existsb (bytes_eqb x) r = true); [|congruence].
    apply existsb_exists. exists x. split; auto. apply bytes_eqb_refl.
  - auto.
Qed.
Lemma wordlist_nodup : NoDup wordlist.
Proof. apply nodupb_sound. vm_compute. reflexivity. Qed.

(* every word is a non-empty string of lower-case ASCII letters *)
Definition is_lower (c : Z) : bool := (97 <=? c) && (c <=? 122).
Definition plain_word (w : str) : bool := match w with [] => false | _ => forallb is_lower w end.
Lemma wordlist_plain : forallb plain_word wordlist = true.
Proof. vm_compute. reflexivity. Qed.

Lemma wordlist_nth_plain i w : nth_error wordlist i = Some w -> plain_word w = true.
Proof.
  intros E. pose proof wordlist_plain as P. rewrite forallb_forall in P.
  apply P. eapply nth_error_In. exact E.
Qed.

Lemma wordlist_nth_lt i w : nth_error wordlist i = Some w -> Z.of_nat i < 2048.
Proof.
  intros E. rewrite <- wordlist_len. unfold len.
  assert (i < length wordlist)%nat by (apply nth_error_Some; congruence). lia.
Qed.

Lemma wordlist_nth_ex i : 0 <= i < 2048 -> exists w, nth_error wordlist (Z.to_nat i) = Some w.
Proof.
  intros Hi. destruct (nth_error wordlist (Z.to_nat i)) eqn:E; [eauto|].
  apply nth_error_None in E. pose proof wordlist_len as L. unfold len in L. lia.
Qed.

(* wordMap *)
Lemma find_last_notin w l : forall i acc, ~ In w l -> find_last w l i acc = acc.
Proof.
  induction l as [|x r IH]; intros i acc N; [reflexivity|].
  cbn [find_last]. rewrite IH by (intros I; apply N; right; exact I).
  destruct (bytes_eqb x w) eqn:E; auto. apply bytes_eqb_eq in E. subst. exfalso. apply N. left. reflexivity.
Qed.

Lemma find_last_nodup w l : forall i acc j, NoDup l -> nth_error l j = Some w ->
  find_last w l i acc = Some (i + Z.of_nat j).
Proof.
  induction l as [|x r IH]; intros i acc j ND E; [destruct j; discriminate|].
  inversion ND as [|? ? Nx NDr]; subst. cbn [find_last]. destruct j as [|j].
  - cbn in E. injection E as ->. rewrite bytes_eqb_refl.
    rewrite find_last_notin by exact Nx. f_equal. lia.
  - cbn [nth_error] in E. rewrite (IH _ _ j NDr E). f_equal. lia.
Qed.

Lemma find_last_some w l : forall i acc z, find_last w l i acc = Some z ->
  acc = Some z \/ (i <= z /\ nth_error l (Z.to_nat (z - i)) = Some w).
Proof.
  induction l as [|x r IH]; intros i acc z E; [left; exact E|].
  cbn [find_last] in E. apply IH in E. destruct E as [E|[Hz E]].
  - destruct (bytes_eqb x w) eqn:B.
    + injection E as <-. right. split; [lia|]. rewrite Z.sub_diag. cbn. apply bytes_eqb_eq in B. congruence.
    + left. exact E.
  - right. split; [lia|]. replace (Z.to_nat (z - i)) with (S (Z.to_nat (z - (i + 1)))) by lia. exact E.
Qed.

Lemma word_index_of_nth i w : nth_error wordlist i = Some w -> word_index w = Some (Z.of_nat i).
Proof. intros E. unfold word_index. rewrite (find_last_nodup w wordlist 0 None i wordlist_nodup E). f_equal. Qed.

Lemma word_index_some w z : word_index w = Some z ->
  0 <= z < 2048 /\ nth_error wordlist (Z.to_nat z) = Some w.
Proof.
  unfold word_index. intros E. apply find_last_some in E. destruct E as [E|[Hz E]]; [discriminate|].
  rewrite Z.sub_0_r in E. split; auto. split; auto.
  pose proof (wordlist_nth_lt _ _ E). lia.
Qed.

(* from here on wordMap look-ups are used through the two lemmas above only *)
Global Opaque word_index.

(* wordList[i] *)
Lemma lookup_words_total idxs : Forall (fun i => 0 <= i < 2048) idxs -> exists ws, lookup_words idxs = Some ws.
Proof.
  induction 1 as [|i r Hi Hr IH]; [exists []; reflexivity|].
  destruct IH as (ws & E). destruct (wordlist_nth_ex i Hi) as (w & Ew).
  exists (w :: ws). cbn [lookup_words]. destruct (i <? 0) eqn:B; bool_hyps; [lia|]. rewrite Ew, E. reflexivity.
Qed.

Lemma lookup_words_some idxs : forall ws, lookup_words idxs = Some ws ->
  Forall2 (fun w i => 0 <= i /\ nth_error wordlist (Z.to_nat i) = Some w) ws idxs.
Proof.
  induction idxs as [|i r IH]; intros ws E.
  - cbn in E. injection E as <-. constructor.
  - cbn [lookup_words] in E. destruct (i <? 0) eqn:B; [discriminate|]. bool_hyps.
    destruct (nth_error wordlist (Z.to_nat i)) eqn:Ew; [|discriminate].
    destruct (lookup_words r) eqn:Er; [|discriminate]. injection E as <-.
    constructor; auto.
Qed.

(* ------------------------------------------------------------------ strings.Fields on joined words *)

Lemma space_width_plain c r : 33 <= c < 128 -> space_width (c :: r) = 0%nat.
Proof.
  intros Hc. unfold space_width, is_ascii_space, sp2, sp3.
  destruct ((9 <=? c) && (c <=? 13) || (c =? 32)) eqn:A.
  { apply orb_true_iff in A. destruct A; bool_hyps; lia. }
  destruct r as [|c2 r2]; [reflexivity|].
  replace (c =? 194) with false by (symmetry; apply Z.eqb_neq; lia). cbn [andb].
  destruct r2 as [|c3 r3]; [reflexivity|].
  replace (c =? 225) with false by (symmetry; apply Z.eqb_neq; lia).
  replace (c =? 226) with false by (symmetry; apply Z.eqb_neq; lia).
  replace (c =? 227) with false by (symmetry; apply Z.eqb_neq; lia).
  reflexivity.
Qed.

Definition plain_str (w : str) : Prop := Forall (fun c => 33 <= c < 128) w.

Lemma fields_go_plain w : plain_str w -> forall cur rest,
  fields_go 0 cur (w ++ rest) = fields_go 0 (rev w ++ cur) rest.
Proof.
  induction 1 as [|c w Hc Hw IH]; intros cur rest; [reflexivity|].
  cbn [app fields_go]. rewrite space_width_plain by exact Hc.
  rewrite IH. cbn [rev]. rewrite <- app_assoc. reflexivity.
Qed.

Lemma plain_word_str w : plain_word w = true -> w <> [] /\ plain_str w.
Proof.
  unfold plain_word. destruct w as [|c w]; [discriminate|]. intros E. split; [discriminate|].
  rewrite forallb_forall in E. apply Forall_forall. intros x Hx. specialize (E x Hx).
  unfold is_lower in E. bool_hyps. lia.
Qed.

Lemma flush_nonempty w rest : w <> [] -> flush (rev w) rest = w :: rest.
Proof.
  intros N. unfold flush. destruct (rev w) eqn:E.
  - apply (f_equal (@rev Z)) in E. rewrite rev_involutive in E. cbn in E. contradiction.
  - rewrite <- E, rev_involutive. reflexivity.
Qed.

Lemma fields_join ws : Forall (fun w => plain_word w = true) ws -> fields (join_sp ws) = ws.
Proof.
  unfold fields. induction 1 as [|w r Hw Hr IH]; [reflexivity|].
  destruct (plain_word_str w Hw) as (Nw & Pw).
  cbn [join_sp]. destruct r as [|w2 r'].
  - rewrite <- (app_nil_r w) at 1. rewrite fields_go_plain by exact Pw.
    cbn [fields_go]. rewrite app_nil_r. apply flush_nonempty. exact Nw.
  - rewrite fields_go_plain by exact Pw. rewrite app_nil_r.
    cbn [fields_go]. change (space_width (32 :: join_sp (w2 :: r'))) with 1%nat.
    cbv beta iota. rewrite IH. apply flush_nonempty. exact Nw.
Qed.

(* ------------------------------------------------------------------ sentences as numbers *)

Definition sval (idxs : list Z) : Z := fold_left (fun a i => a * 2048 + i) idxs 0.

Lemma fold_sval l : forall x,
  fold_left (fun a i => a * 2048 + i) l x = x * 2048 ^ len l + sval l.
Proof.
  unfold sval. induction l as [|c l IH]; intros x.
  - cbn. lia.
  - cbn [fold_left]. rewrite IH. rewrite (IH (0 * 2048 + c)).
    rewrite len_cons, Z.pow_add_r, Z.pow_1_r by (pose proof (len_nonneg l); lia). lia.
Qed.
Lemma sval_cons c s : sval (c :: s) = c * 2048 ^ len s + sval s.
Proof. unfold sval at 1. cbn [fold_left]. rewrite fold_sval. lia. Qed.

Lemma sval_bits (idxs : list nat) :
  bits_val (flat_map (fun i => bits_of 11 (Z.of_nat i)) idxs) =
  sval (map (fun i => Z.of_nat i mod 2048) idxs).
Proof.
  induction idxs as [|i r IH]; [reflexivity|].
  cbn [flat_map map]. rewrite bits_val_app, sval_cons, IH.
  rewrite bits_val_bits_of by lia. unfold len. rewrite flat_bits11_length, map_length.
  rewrite Nat2Z.inj_mul, Z.pow_mul_r by lia. reflexivity.
Qed.

Lemma map_mod_small (idxs : list nat) : Forall (fun i => Z.of_nat i < 2048) idxs ->
  map (fun i => Z.of_nat i mod 2048) idxs = map Z.of_nat idxs.
Proof.
  induction 1 as [|i r Hi Hr IH]; [reflexivity|]. cbn [map]. rewrite IH.
  rewrite Z.mod_small by lia. reflexivity.
Qed.

Lemma land_shift_low b i : 0 <= b -> 0 <= i < 2048 -> Z.land (b * 2048) i = 0.
Proof.
  intros Hb Hi. apply Z.bits_inj'. intros n Hn. rewrite Z.land_spec, Z.bits_0.
  destruct (Z.lt_ge_cases n 11) as [L|G].
  - change 2048 with (2 ^ 11). rewrite Z.mul_pow2_bits_low by lia. reflexivity.
  - replace (Z.testbit i n) with false; [apply andb_false_r|].
    symmetry. destruct (Z.eq_dec i 0) as [->|N0]; [apply Z.bits_0|].
    apply Z.bits_above_log2; [lia|].
    apply Z.log2_lt_pow2; [lia|].
    eapply Z.lt_le_trans with (m := 2 ^ 11); [cbn; lia|]. apply Z.pow_le_mono_r; lia.
Qed.

Lemma lor_shift_add b i : 0 <= b -> 0 <= i < 2048 -> Z.lor (b * 2048) i = b * 2048 + i.
Proof.
  intros Hb Hi. pose proof (land_shift_low b i Hb Hi) as L.
  rewrite (Z.add_nocarry_lxor _ _ L). symmetry. apply Z.lxor_lor. exact L.
Qed.

Lemma be_val_put_uint16 v : be_val (put_uint16 v) = v.
Proof. unfold put_uint16, be_val. cbn [fold_left]. pose proof (Z.div_mod v 256). lia. Qed.

Lemma efm_loop_ok ws : forall idxs b, 0 <= b ->
  Forall2 (fun w i => word_index w = Some i) ws idxs ->
  efm_loop ws b = Some (fold_left (fun a i => a * 2048 + i) idxs b).
Proof.
  induction ws as [|w r IH]; intros idxs b Hb F; inversion F as [|? i ? idxs' Hw Hr]; subst; [reflexivity|].
  cbn [efm_loop fold_left]. rewrite Hw.
  destruct (word_index_some _ _ Hw) as (Bi & _).
  rewrite be_val_put_uint16, Z.mod_small by lia. rewrite lor_shift_add by lia.
  apply IH; auto. lia.
Qed.

Lemma efm_loop_some ws : forall b N, efm_loop ws b = Some N ->
  exists idxs, Forall2 (fun w i => word_index w = Some i) ws idxs.
Proof.
  induction ws as [|w r IH]; intros b N E; [exists []; constructor|].
  cbn [efm_loop] in E. destruct (word_index w) as [i|] eqn:Hw; [|discriminate].
  apply IH in E. destruct E as (idxs & F). exists (i :: idxs). constructor; auto.
Qed.

Lemma efm_loop_none ws : forall b, efm_loop ws b = None ->
  exists w, In w ws /\ word_index w = None.
Proof.
  induction ws as [|w r IH]; intros b E; [discriminate|].
  cbn [efm_loop] in E. destruct (word_index w) as [i|] eqn:Hw.
  - apply IH in E. destruct E as (w' & I & N). exists w'. split; auto. right; auto.
  - exists w. split; auto. left; auto.
Qed.

Lemma fold_index0 ws : forall idxs b, Forall2 (fun w i => word_index w = Some i) ws idxs ->
  fold_left (fun a v => a * 2048 + word_index0 v) ws b = fold_left (fun a i => a * 2048 + i) idxs b.
Proof.
  induction ws as [|w r IH]; intros idxs b F; inversion F as [|? i ? idxs' Hw Hr]; subst; [reflexivity|].
  cbn [fold_left]. unfold word_index0 at 2. rewrite Hw. apply IH. exact Hr.
Qed.

Lemma forallb_in_word_map ws : forallb in_word_map ws = true <->
  exists idxs, Forall2 (fun w i => word_index w = Some i) ws idxs.
Proof.
  induction ws as [|w r IH].
  - split; [exists []; constructor|reflexivity].
  - cbn [forallb]. unfold in_word_map at 1. split.
    + intros E. apply andb_true_iff in E. destruct E as [E1 E2].
      destruct (word_index w) as [i|] eqn:Hw; [|discriminate].
      apply IH in E2. destruct E2 as (idxs & F). exists (i :: idxs). constructor; auto.
    + intros (idxs & F). inversion F as [|? i ? idxs' Hw Hr]; subst. rewrite Hw. cbn.
      apply IH. eauto.
Qed.

(* indexes as nat <-> as Z *)
Lemma index_nat_of_Z ws idxs : Forall2 (fun w i => word_index w = Some i) ws idxs ->
  Forall2 (fun w i => nth_error wordlist i = Some w) ws (map Z.to_nat idxs) /\
  map Z.of_nat (map Z.to_nat idxs) = idxs /\ Forall (fun i => Z.of_nat i < 2048) (map Z.to_nat idxs).
Proof.
  induction 1 as [|w i ws idxs Hw Hr IH]; [repeat split; constructor|].
  destruct IH as (A & B & C). destruct (word_index_some _ _ Hw) as (Bi & Ei).
  cbn [map]. repeat split.
  - constructor; auto.
  - rewrite B, Z2Nat.id by lia. reflexivity.
  - constructor; auto. lia.
Qed.

Lemma index_Z_of_nat ws (idxs : list nat) : Forall2 (fun w i => nth_error wordlist i = Some w) ws idxs ->
  Forall2 (fun w i => word_index w = Some i) ws (map Z.of_nat idxs) /\
  Forall (fun i => Z.of_nat i < 2048) idxs.
Proof.
  induction 1 as [|w i ws idxs Hw Hr IH]; [split; constructor|].
  destruct IH as (A & B). cbn [map]. split; constructor; auto.
  - apply word_index_of_nth. exact Hw.
  - eapply wordlist_nth_lt. exact Hw.
Qed.

Lemma Forall2_len {A B} (R : A -> B -> Prop) l1 l2 : Forall2 R l1 l2 -> length l1 = length l2.
Proof. induction 1; cbn; auto. Qed.

(* ------------------------------------------------------------------ sizes *)

Lemma div8_32 L : exists q r, (L = 4 * q + r /\ r < 4 /\ L * 8 / 32 = q)%nat.
Proof.
  exists (L / 4)%nat, (L mod 4)%nat. split; [apply Nat.div_mod; lia|].
  split; [apply Nat.mod_upper_bound; lia|].
  change 32%nat with (4 * 8)%nat. apply Nat.div_mul_cancel_r; lia.
Qed.

Lemma cs_len_4k k : (4 * k * 8 / 32 = k)%nat.
Proof.
  destruct (div8_32 (4 * k)) as (q & r & A & B & C). rewrite C. lia.
Qed.

Lemma legal_len_k e : legal_len e <-> exists k, (4 <= k <= 8)%nat /\ length e = (4 * k)%nat.
Proof.
  unfold legal_len. split.
  - intros [E|[E|[E|[E|E]]]]; [exists 4%nat|exists 5%nat|exists 6%nat|exists 7%nat|exists 8%nat]; lia.
  - intros (k & Hk & E). lia.
Qed.

Lemma legal_lenb_iff e : legal_lenb e = true <-> legal_len e.
Proof.
  unfold legal_lenb, legal_len. cbn [existsb]. rewrite !orb_true_iff, !Nat.eqb_eq. intuition discriminate.
Qed.

Lemma valid_bitsize_iff e : valid_bitsize (len e * 8) = true <-> legal_len e.
Proof.
  unfold valid_bitsize, legal_len, len. split.
  - intros E. bool_hyps. assert (Z.of_nat (length e) mod 4 = 0) by (Z.div_mod_to_equations; lia).
    Z.div_mod_to_equations. lia.
  - intros E. apply negb_true_iff. apply orb_false_iff. split; [apply orb_false_iff; split|].
    + apply negb_false_iff. apply Z.eqb_eq. destruct E as [E|[E|[E|[E|E]]]]; rewrite E; reflexivity.
    + apply Z.ltb_ge. lia.
    + apply Z.ltb_ge. lia.
Qed.

Section Main.
  Variable H : bytes -> bytes.
  Hypothesis H_wf : hash_wf H.

  (* ---------------------------------------------------------------- encoding *)

  Lemma encode_core e k : bytes_ok e -> (4 <= k <= 8)%nat -> length e = (4 * k)%nat ->
    length (bits e ++ checksum_bits H e) = (11 * (3 * k))%nat /\
    be_val (add_checksum H e) = bits_val (bits e ++ checksum_bits H e).
  Proof.
    intros He Hk Hl.
    destruct (checksum_bits_spec H H_wf e k) as (_ & Cv & Cl); [rewrite Hl; apply cs_len_4k|lia|].
    split.
    - rewrite app_length, bits_length, Cl, Hl. lia.
    - rewrite (add_checksum_spec H H_wf e k He); [| |lia].
      2:{ unfold len. rewrite Hl. rewrite Nat2Z.inj_mul. change (Z.of_nat 4) with 4.
          rewrite Z.mul_comm, Z.div_mul by lia. reflexivity. }
      pose proof (be_val_bounds e He).
      destruct (checksum_facts k (hash0 H e) ltac:(lia) (hash0_byte H H_wf e)) as (_ & _ & Bc).
      destruct (be_bytes_spec (be_val e * 2 ^ Z.of_nat k + csv k (hash0 H e))) as (_ & V & _).
      { assert (0 < 2 ^ Z.of_nat k) by (apply Z.pow_pos_nonneg; lia). nia. }
      rewrite V. rewrite bits_val_app, bits_val_bits by exact He. rewrite Cv.
      unfold len. rewrite Cl. reflexivity.
  Qed.

  Lemma new_mnemonic_is_spec e : bytes_ok e -> new_mnemonic H e = spec_encode H e.
  Proof.
    intros He. unfold new_mnemonic, spec_encode.
    destruct (legal_lenb e) eqn:LL.
    - apply legal_lenb_iff in LL. pose proof LL as LL'. apply valid_bitsize_iff in LL'. rewrite LL'. cbn [negb].
      apply legal_len_k in LL. destruct LL as (k & Hk & Hl).
      destruct (encode_core e k He Hk Hl) as (La & Va).
      rewrite Va, La.
      replace (Z.to_nat ((len e * 8 + len e * 8 / 32) / 11)) with (3 * k)%nat.
      2:{ unfold len. rewrite Hl. rewrite Nat2Z.inj_mul. change (Z.of_nat 4) with 4.
          symmetry. apply Nat2Z.inj. rewrite Z2Nat.id by (Z.div_mod_to_equations; lia).
          rewrite Nat2Z.inj_mul. change (Z.of_nat 3) with 3. Z.div_mod_to_equations. lia. }
      replace (11 * (3 * k) / 11)%nat with (3 * k)%nat
        by (symmetry; rewrite Nat.mul_comm; apply Nat.div_mul; lia).
      rewrite words_loop_chunks by exact La. rewrite app_nil_r. reflexivity.
    - replace (valid_bitsize (len e * 8)) with false; [reflexivity|].
      symmetry. destruct (valid_bitsize (len e * 8)) eqn:V; auto.
      apply valid_bitsize_iff in V. apply legal_lenb_iff in V. congruence.
  Qed.

  (* ---------------------------------------------------------------- decoding: bits <-> numbers *)

  Lemma pow2_33k k : 2 ^ Z.of_nat (11 * (3 * k)) = 2 ^ Z.of_nat k * 256 ^ (4 * Z.of_nat k).
  Proof.
    change 256 with (2 ^ 8). rewrite <- Z.pow_mul_r, <- Z.pow_add_r by lia. f_equal. lia.
  Qed.

  Lemma decode_core (idxs : list nat) k e :
    (4 <= k <= 8)%nat -> length idxs = (3 * k)%nat -> Forall (fun i => Z.of_nat i < 2048) idxs ->
    let N := sval (map Z.of_nat idxs) in
    (bytes_ok e /\ flat_map (fun i => bits_of 11 (Z.of_nat i)) idxs = bits e ++ checksum_bits H e) <->
    (e = pad_bytes (be_bytes (N / 2 ^ Z.of_nat k)) (4 * Z.of_nat k) /\
     N mod 2 ^ Z.of_nat k = csv k (hash0 H e)).
  Proof.
    intros Hk Hl Hi N.
    set (L := flat_map (fun i => bits_of 11 (Z.of_nat i)) idxs).
    assert (LL : length L = (11 * (3 * k))%nat) by (unfold L; rewrite flat_bits11_length, Hl; reflexivity).
    assert (VL : bits_val L = N) by (unfold L, N; rewrite sval_bits, map_mod_small by exact Hi; reflexivity).
    pose proof (bits_val_bounds L) as BL. unfold len in BL. rewrite LL, VL, pow2_33k in BL.
    assert (P2 : 0 < 2 ^ Z.of_nat k) by (apply Z.pow_pos_nonneg; lia).
    assert (P256 : 0 < 256 ^ (4 * Z.of_nat k)) by (apply Z.pow_pos_nonneg; lia).
    split.
    - intros (He & E).
      assert (Le : length e = (4 * k)%nat).
      { apply (f_equal (@length bool)) in E. rewrite LL, app_length, bits_length in E.
        unfold checksum_bits in E. rewrite firstn_length, bits_length in E.
        destruct (H_wf e) as (h0 & rest & EH & _). rewrite EH in E. cbn [length] in E.
        destruct (div8_32 (length e)) as (q & r & A & B & C). rewrite C in E. lia. }
      destruct (checksum_bits_spec H H_wf e k) as (_ & Cv & Cl); [rewrite Le; apply cs_len_4k|lia|].
      destruct (checksum_facts k (hash0 H e) ltac:(lia) (hash0_byte H H_wf e)) as (_ & _ & Bc).
      assert (VN : N = be_val e * 2 ^ Z.of_nat k + csv k (hash0 H e)).
      { rewrite <- VL, E, bits_val_app, bits_val_bits, Cv by exact He. unfold len. rewrite Cl. reflexivity. }
      assert (D : N / 2 ^ Z.of_nat k = be_val e).
      { rewrite VN, Z.add_comm, Z.div_add by lia. rewrite Z.div_small by lia. lia. }
      split.
      + rewrite D. replace (4 * Z.of_nat k) with (len e) by (unfold len; lia).
        symmetry. apply pad_be_bytes_id. exact He.
      + rewrite VN, Z.add_comm, Z.mod_add by lia. apply Z.mod_small. exact Bc.
    - intros (Ee & Ec).
      assert (BD : 0 <= N / 2 ^ Z.of_nat k < 256 ^ (4 * Z.of_nat k)).
      { split; [apply Z.div_pos; lia|]. apply Z.div_lt_upper_bound; lia. }
      destruct (pad_be_bytes _ _ BD ltac:(lia)) as (Ok_ & V & Ln). rewrite <- Ee in Ok_, V, Ln.
      assert (Le : length e = (4 * k)%nat) by (unfold len in Ln; lia).
      split; [exact Ok_|].
      destruct (checksum_bits_spec H H_wf e k) as (_ & Cv & Cl); [rewrite Le; apply cs_len_4k|lia|].
      apply bits_val_inj.
      + rewrite LL, app_length, bits_length, Cl, Le. lia.
      + rewrite VL, bits_val_app, bits_val_bits, Cv, V by exact Ok_. unfold len. rewrite Cl.
        rewrite <- Ec. pose proof (Z.div_mod N (2 ^ Z.of_nat k)). lia.
  Qed.

  (* the two tables, for a legal word count n = 3k *)
  Lemma tables k (x : Z) : (4 <= k <= 8)%nat ->
    checksum_mask (Z.of_nat (3 * k)) = Some (Z.ones (Z.of_nat k)) /\
    (if Z.of_nat (3 * k) =? 24 then Some x
     else match checksum_shift (Z.of_nat (3 * k)) with Some sh => Some (x / sh) | None => None end)
    = Some (csv k x).
  Proof.
    intros Hk. assert (C : (k = 4 \/ k = 5 \/ k = 6 \/ k = 7 \/ k = 8)%nat) by lia.
    destruct C as [-> | [-> | [-> | [-> | ->]]]]; (split; [reflexivity|]); unfold csv; cbn; try reflexivity.
    rewrite Z.div_1_r. reflexivity.
  Qed.

  Lemma legal_count_k n : legal_count (Z.of_nat n) = true <-> exists k, (4 <= k <= 8)%nat /\ n = (3 * k)%nat.
  Proof.
    unfold legal_count. split.
    - intros E. bool_hyps. exists (n / 3)%nat.
      assert (n = 3 * (n / 3) + n mod 3)%nat by (apply Nat.div_mod; lia).
      assert (Z.of_nat (n mod 3) = Z.of_nat n mod 3) by (rewrite Nat2Z.inj_mod; reflexivity).
      lia.
    - intros (k & Hk & ->). apply negb_true_iff. apply orb_false_iff. split; [apply orb_false_iff; split|].
      + apply negb_false_iff. apply Z.eqb_eq. rewrite Nat2Z.inj_mul, Z.mul_comm. apply Z.mod_mul. lia.
      + apply Z.ltb_ge. lia.
      + apply Z.ltb_ge. lia.
  Qed.
  (* ---------------------------------------------------------------- EntropyFromMnemonic, evaluated *)

  Lemma efm_eval s k idxs :
    (4 <= k <= 8)%nat -> length (fields s) = (3 * k)%nat ->
    Forall2 (fun w i => word_index w = Some i) (fields s) idxs ->
    let N := sval idxs in
    let e0 := pad_bytes (be_bytes (N / 2 ^ Z.of_nat k)) (4 * Z.of_nat k) in
    entropy_from_mnemonic H s =
      if N mod 2 ^ Z.of_nat k =? csv k (hash0 H e0) then Ok e0 else Err ErrChecksumIncorrect.
  Proof.
    intros Hk Hl F N e0. unfold entropy_from_mnemonic.
    assert (Ln : len (fields s) = Z.of_nat (3 * k)) by (unfold len; rewrite Hl; reflexivity).
    rewrite Ln.
    replace (legal_count (Z.of_nat (3 * k))) with true
      by (symmetry; apply legal_count_k; exists k; split; [lia|reflexivity]).
    cbn [negb]. rewrite (efm_loop_ok _ idxs 0 ltac:(lia) F). fold (sval idxs). fold N.
    replace (Z.of_nat (3 * k) / 3 * 4) with (4 * Z.of_nat k)
      by (replace (Z.of_nat (3 * k)) with (Z.of_nat k * 3) by lia; rewrite Z.div_mul by lia; lia).
    destruct (tables k (hash0 H e0) Hk) as (T1 & T2). rewrite T1.
    replace (Z.ones (Z.of_nat k) + 1) with (2 ^ Z.of_nat k) by (rewrite Z.ones_equiv; lia).
    fold e0. rewrite T2. rewrite Z.land_ones by lia. reflexivity.
  Qed.

  Lemma efm_illegal_count s : legal_count (len (fields s)) = false ->
    entropy_from_mnemonic H s = Err ErrInvalidMnemonic.
  Proof. intros E. unfold entropy_from_mnemonic. rewrite E. reflexivity. Qed.

  Lemma efm_unknown_word s : legal_count (len (fields s)) = true ->
    (exists w, In w (fields s) /\ word_index w = None) ->
    entropy_from_mnemonic H s = Err ErrInvalidMnemonicWord.
  Proof.
    intros E (w & I & N). unfold entropy_from_mnemonic. rewrite E. cbn [negb].
    destruct (efm_loop (fields s) 0) eqn:L; [|reflexivity].
    apply efm_loop_some in L. destruct L as (idxs & F).
    exfalso. clear E. induction F as [|w' i ws idxs Hw Hr IH]; [destruct I|].
    destruct I as [->|I]; [congruence|auto].
  Qed.

  Lemma legal_words_k (ws : list str) :
    (length ws = 12 \/ length ws = 15 \/ length ws = 18 \/ length ws = 21 \/ length ws = 24)%nat <->
    exists k, (4 <= k <= 8)%nat /\ length ws = (3 * k)%nat.
  Proof.
    split.
    - intros [E|[E|[E|[E|E]]]]; [exists 4%nat|exists 5%nat|exists 6%nat|exists 7%nat|exists 8%nat]; lia.
    - intros (k & Hk & E). lia.
  Qed.

  (* acceptance: exactly the valid sentences, with their entropy *)
  Theorem efm_accept_iff s e :
    entropy_from_mnemonic H s = Ok e <-> valid_sentence H (fields s) e.
  Proof.
    unfold valid_sentence. split.
    - intros E.
      destruct (legal_count (len (fields s))) eqn:LC; [|rewrite efm_illegal_count in E by exact LC; discriminate].
      pose proof LC as LC'. unfold len in LC'. apply legal_count_k in LC'. destruct LC' as (k & Hk & Hl).
      assert (exists idxs, Forall2 (fun w i => word_index w = Some i) (fields s) idxs) as (idxs & F).
      { unfold entropy_from_mnemonic in E. rewrite LC in E. cbn [negb] in E.
        destruct (efm_loop (fields s) 0) eqn:L; [|discriminate]. eapply efm_loop_some. exact L. }
      rewrite (efm_eval s k idxs Hk Hl F) in E. cbv zeta in E.
      destruct (_ =? _) eqn:C in E; [|discriminate]. injection E as E. bool_hyps.
      destruct (index_nat_of_Z _ _ F) as (Fn & Mz & Bn).
      assert (Ln : length (map Z.to_nat idxs) = (3 * k)%nat).
      { rewrite map_length. rewrite <- (Forall2_len _ _ _ F). exact Hl. }
      destruct (decode_core (map Z.to_nat idxs) k e Hk Ln Bn) as (_ & D).
      rewrite Mz in D. destruct D as (Ok_ & Eb).
      { split; [symmetry; exact E|]. rewrite <- E. exact C. }
      split; [apply legal_words_k; exists k; auto|]. split; [exact Ok_|].
      exists (map Z.to_nat idxs). split; auto.
    - intros (Lw & Ok_ & idxs & Fn & Eb).
      apply legal_words_k in Lw. destruct Lw as (k & Hk & Hl).
      destruct (index_Z_of_nat _ _ Fn) as (F & Bn).
      assert (Ln : length idxs = (3 * k)%nat) by (rewrite <- (Forall2_len _ _ _ Fn); exact Hl).
      destruct (decode_core idxs k e Hk Ln Bn) as (D & _). destruct (D (conj Ok_ Eb)) as (Ee & Ec).
      rewrite (efm_eval s k (map Z.of_nat idxs) Hk Hl F). cbv zeta. rewrite <- Ee.
      rewrite Ec, Z.eqb_refl. reflexivity.
  Qed.
  (* ---------------------------------------------------------------- round trip *)

  Lemma idx_of_chunks cs : forall ws,
    Forall2 (fun w i => 0 <= i /\ nth_error wordlist (Z.to_nat i) = Some w) ws (map bits_val cs) ->
    Forall2 (fun w i => nth_error wordlist i = Some w) ws (map (fun c => Z.to_nat (bits_val c)) cs).
  Proof.
    induction cs as [|c cs IH]; intros ws F; inversion F as [|w ? ws' ? (_ & Hw) Hr]; subst; constructor; auto.
  Qed.

  Lemma bits_of_chunks cs : Forall (fun c : list bool => length c = 11%nat) cs ->
    flat_map (fun i => bits_of 11 (Z.of_nat i)) (map (fun c => Z.to_nat (bits_val c)) cs) = concat cs.
  Proof.
    induction 1 as [|c cs Hc Hr IH]; [reflexivity|].
    cbn [map flat_map concat]. rewrite IH. f_equal.
    pose proof (bits_val_bounds c). rewrite Z2Nat.id by lia.
    rewrite <- Hc. apply bits_of_bits_val.
  Qed.

  Lemma spec_encode_valid e : legal_len e -> bytes_ok e ->
    exists ws, spec_encode H e = Ok (join_sp ws) /\ valid_sentence H ws e /\
               Forall (fun w => plain_word w = true) ws.
  Proof.
    intros LL He. unfold spec_encode. pose proof LL as LB. apply legal_lenb_iff in LB. rewrite LB.
    apply legal_len_k in LL. destruct LL as (k & Hk & Hl).
    destruct (encode_core e k He Hk Hl) as (La & _). rewrite La.
    replace (11 * (3 * k) / 11)%nat with (3 * k)%nat
      by (symmetry; rewrite Nat.mul_comm; apply Nat.div_mul; lia).
    set (all := bits e ++ checksum_bits H e) in *.
    pose proof (chunks_each (3 * k) all La) as CE.
    destruct (lookup_words_total (map bits_val (chunks (3 * k) all))) as (ws & Lk).
    { apply Forall_forall. intros i Hi. apply in_map_iff in Hi. destruct Hi as (c & <- & Hc).
      rewrite Forall_forall in CE. specialize (CE c Hc).
      pose proof (bits_val_bounds c) as B. unfold len in B. rewrite CE in B. exact B. }
    rewrite Lk. exists ws. split; [reflexivity|].
    pose proof (idx_of_chunks _ _ (lookup_words_some _ _ Lk)) as F.
    split.
    - unfold valid_sentence. split; [|split; [exact He|]].
      + apply legal_words_k. exists k. split; [exact Hk|].
        etransitivity; [exact (Forall2_len _ _ _ F)|]. rewrite map_length, chunks_length. reflexivity.
      + exists (map (fun c => Z.to_nat (bits_val c)) (chunks (3 * k) all)). split; [exact F|].
        rewrite bits_of_chunks by exact CE. apply chunks_concat. exact La.
    - clear Lk. induction F as [|w i ws' is' Hw Hr IH]; constructor; auto.
      eapply wordlist_nth_plain. exact Hw.
  Qed.

  Theorem roundtrip e : legal_len e -> bytes_ok e ->
    exists m, new_mnemonic H e = Ok m /\ entropy_from_mnemonic H m = Ok e.
  Proof.
    intros LL He. destruct (spec_encode_valid e LL He) as (ws & Es & V & P).
    exists (join_sp ws). split.
    - rewrite new_mnemonic_is_spec by exact He. exact Es.
    - apply efm_accept_iff. rewrite fields_join by exact P. exact V.
  Qed.
  (* ---------------------------------------------------------------- strings.TrimSpace before strings.Fields *)

  Definition starter (c : Z) : bool :=
    is_ascii_space c || (c =? 194) || (c =? 225) || (c =? 226) || (c =? 227).

  Local Ltac b2p E :=
    repeat (rewrite ?orb_true_iff, ?andb_true_iff, ?Z.eqb_eq, ?Z.leb_le in E).

  Lemma sp2_range c1 c2 : sp2 c1 c2 = true -> c1 = 194 /\ 128 <= c2 < 192.
  Proof. unfold sp2. intros E. b2p E. lia. Qed.
  Lemma sp3_range c1 c2 c3 : sp3 c1 c2 c3 = true ->
    (c1 = 225 \/ c1 = 226 \/ c1 = 227) /\ 128 <= c2 < 192 /\ 128 <= c3 < 192.
  Proof. unfold sp3. intros E. b2p E. lia. Qed.
  Lemma ascii_space_range c : is_ascii_space c = true -> 9 <= c <= 32.
  Proof. unfold is_ascii_space. intros E. b2p E. lia. Qed.
  Lemma starter_range c : starter c = true -> c <= 32 \/ 192 <= c.
  Proof.
    unfold starter. intros E. rewrite !orb_true_iff in E.
    destruct E as [[[[E|E]|E]|E]|E]; [apply ascii_space_range in E|..]; b2p E; lia.
  Qed.

  Lemma space_width_le s : (space_width s <= length s)%nat.
  Proof.
    unfold space_width. destruct s as [|c1 [|c2 [|c3 r]]]; cbn [length]; try lia.
    - destruct (is_ascii_space c1); lia.
    - destruct (is_ascii_space c1); [lia|]. destruct (sp2 c1 c2); lia.
    - destruct (is_ascii_space c1); [lia|]. destruct (sp2 c1 c2); [lia|]. destruct (sp3 c1 c2 c3); lia.
  Qed.

  (* a white-space rune appended to a non-empty string does not change what is seen at its head *)
  Lemma space_width_app x c0 p : x <> [] -> starter c0 = true ->
    space_width (x ++ c0 :: p) = space_width x.
  Proof.
    intros Nx S0. apply starter_range in S0.
    destruct x as [|c1 [|c2 [|c3 r]]]; [contradiction| | |reflexivity]; cbn [app]; unfold space_width.
    - destruct (is_ascii_space c1); [reflexivity|].
      destruct (sp2 c1 c0) eqn:E2; [apply sp2_range in E2; lia|].
      destruct p as [|c3 p]; [reflexivity|].
      destruct (sp3 c1 c0 c3) eqn:E3; [apply sp3_range in E3; lia|reflexivity].
    - destruct (is_ascii_space c1); [reflexivity|]. destruct (sp2 c1 c2); [reflexivity|].
      destruct (sp3 c1 c2 c0) eqn:E3; [apply sp3_range in E3; lia|reflexivity].
  Qed.

  Lemma fields_go_drop k : forall t cur, length t = k -> fields_go k cur t = flush cur [].
  Proof.
    induction k as [|k IH]; intros t cur Hl; destruct t as [|c t]; try discriminate; [reflexivity|].
    cbn [fields_go]. apply IH. cbn in Hl. lia.
  Qed.

  (* p is exactly one white-space rune *)
  Definition one_space (p : str) : Prop :=
    exists c0 p', p = c0 :: p' /\ starter c0 = true /\ space_width p = length p.

  Lemma fields_go_app_space p : one_space p -> forall x skip cur, (skip <= length x)%nat ->
    fields_go skip cur (x ++ p) = fields_go skip cur x.
  Proof.
    intros (c0 & p' & -> & S0 & W). induction x as [|c r IH]; intros skip cur Hs.
    - cbn [length] in Hs. assert (skip = 0)%nat by lia. subst skip.
      cbn [app]. cbn [fields_go]. rewrite W. cbn [length].
      rewrite fields_go_drop by reflexivity. reflexivity.
    - cbn [app]. cbn [fields_go]. destruct skip as [|k].
      + change (c :: r ++ c0 :: p') with ((c :: r) ++ c0 :: p').
        rewrite space_width_app by (auto; discriminate).
        pose proof (space_width_le (c :: r)) as LE. cbn [length] in LE.
        destruct (space_width (c :: r)) as [|k].
        * apply IH. lia.
        * f_equal. apply IH. lia.
      + apply IH. cbn [length] in Hs. lia.
  Qed.

  Lemma fields_trim_left s : forall skip, fields_go 0 [] (trim_left_go skip s) = fields_go skip [] s.
  Proof.
    induction s as [|c r IH]; intros skip; [destruct skip; reflexivity|].
    cbn [trim_left_go fields_go]. destruct skip as [|k]; [|apply IH].
    destruct (space_width (c :: r)) as [|k] eqn:W.
    - cbn [fields_go]. rewrite W. reflexivity.
    - rewrite IH. reflexivity.
  Qed.

  Lemma trim_right_go_drop k : forall a rest, length a = k -> trim_right_go k (a ++ rest) = trim_right_go 0 rest.
  Proof.
    induction k as [|k IH]; intros a rest Hl; destruct a as [|c a]; try discriminate; [reflexivity|].
    cbn [app trim_right_go]. apply IH. cbn in Hl. lia.
  Qed.

  (* the reversed pattern seen by the right trim is a white-space rune *)
  Lemma space_width_rev_some t n : space_width_rev t = S n ->
    exists q rest, t = q ++ rest /\ length q = S n /\ one_space (rev q).
  Proof.
    unfold space_width_rev. destruct t as [|c1 r1]; [discriminate|].
    destruct (is_ascii_space c1) eqn:A1.
    { intros E. injection E as <-. exists [c1], r1. repeat split.
      cbn [rev app]. exists c1, []. repeat split. unfold starter. rewrite A1. reflexivity.
      unfold space_width. rewrite A1. reflexivity. }
    destruct r1 as [|c2 r2]; [discriminate|].
    destruct (sp2 c2 c1) eqn:A2.
    { intros E. injection E as <-. exists [c1; c2], r2. repeat split.
      cbn [rev app]. exists c2, [c1]. pose proof (sp2_range _ _ A2) as R. repeat split.
      - unfold starter. destruct R as (-> & _). rewrite orb_true_r. reflexivity.
      - unfold space_width. destruct (is_ascii_space c2) eqn:B; [apply ascii_space_range in B; lia|].
        rewrite A2. reflexivity. }
    destruct r2 as [|c3 r3]; [discriminate|].
    destruct (sp3 c3 c2 c1) eqn:A3; [|discriminate].
    intros E. injection E as <-. exists [c1; c2; c3], r3. repeat split.
    cbn [rev app]. exists c3, [c2; c1]. pose proof (sp3_range _ _ _ A3) as R. repeat split.
    - unfold starter. destruct R as ([-> | [-> | ->]] & _); rewrite ?orb_true_r; reflexivity.
    - unfold space_width. destruct (is_ascii_space c3) eqn:B; [apply ascii_space_range in B; lia|].
      destruct (sp2 c3 c2) eqn:B2; [apply sp2_range in B2; lia|]. rewrite A3. reflexivity.
  Qed.

  Lemma fields_trim_right_rev n : forall t, (length t <= n)%nat ->
    fields (rev (trim_right_go 0 t)) = fields (rev t).
  Proof.
    induction n as [|n IH]; intros t Hl.
    - destruct t; [reflexivity|cbn in Hl; lia].
    - destruct t as [|c r]; [reflexivity|].
      cbn [trim_right_go]. destruct (space_width_rev (c :: r)) as [|k] eqn:W; [reflexivity|].
      destruct (space_width_rev_some _ _ W) as (q & rest & E & Lq & P).
      destruct q as [|c' q']; [discriminate|]. cbn [app] in E. injection E as <- ->.
      cbn [length] in Lq, Hl. rewrite trim_right_go_drop by lia.
      rewrite IH by (rewrite app_length in Hl; lia).
      change (c :: q' ++ rest) with ((c :: q') ++ rest). rewrite rev_app_distr.
      unfold fields. symmetry. apply fields_go_app_space; [exact P|lia].
  Qed.

  Lemma fields_trim_space s : fields (trim_space s) = fields s.
  Proof.
    unfold trim_space, trim_right_space.
    rewrite (fields_trim_right_rev (length (rev (trim_left_space s)))) by lia.
    rewrite rev_involutive. unfold fields, trim_left_space. apply fields_trim_left.
  Qed.
  (* ---------------------------------------------------------------- MnemonicToByteArray, evaluated *)

  Lemma sval_bounds idxs : Forall (fun i => 0 <= i < 2048) idxs -> 0 <= sval idxs < 2048 ^ len idxs.
  Proof.
    induction 1 as [|c s Hc Hs IH].
    - cbn. lia.
    - rewrite sval_cons, len_cons, Z.pow_add_r, Z.pow_1_r by (pose proof (len_nonneg s); lia). nia.
  Qed.

  Lemma index_bounds ws idxs : Forall2 (fun w i => word_index w = Some i) ws idxs ->
    Forall (fun i => 0 <= i < 2048) idxs.
  Proof.
    induction 1 as [|w i ws idxs Hw Hr IH]; constructor; auto.
    apply (word_index_some _ _ Hw).
  Qed.

  Lemma is_mnemonic_valid_iff s : is_mnemonic_valid s = true <->
    legal_count (len (fields s)) = true /\
    exists idxs, Forall2 (fun w i => word_index w = Some i) (fields s) idxs.
  Proof.
    unfold is_mnemonic_valid, legal_count. rewrite <- forallb_in_word_map.
    destruct (negb (len (fields s) mod 3 =? 0) || (len (fields s) <? 12) || (24 <? len (fields s))); cbn [negb].
    - split; [discriminate|]. intros (E & _). discriminate.
    - tauto.
  Qed.

  Lemma mtba_invalid raw s : is_mnemonic_valid s = false ->
    mnemonic_to_byte_array H raw s = Err ErrInvalidMnemonic.
  Proof. intros E. unfold mnemonic_to_byte_array. rewrite E. reflexivity. Qed.

  Lemma mtba_eval raw s k idxs :
    (4 <= k <= 8)%nat -> length (fields s) = (3 * k)%nat ->
    Forall2 (fun w i => word_index w = Some i) (fields s) idxs ->
    let N := sval idxs in
    let e0 := pad_bytes (be_bytes (N / 2 ^ Z.of_nat k)) (4 * Z.of_nat k) in
    mnemonic_to_byte_array H raw s =
      if N mod 2 ^ Z.of_nat k =? csv k (hash0 H e0)
      then Ok (if raw then e0 else pad_bytes (be_bytes N) (4 * Z.of_nat k + 1))
      else Err ErrChecksumIncorrect.
  Proof.
    intros Hk Hl F N e0. unfold mnemonic_to_byte_array.
    replace (is_mnemonic_valid s) with true.
    2:{ symmetry. apply is_mnemonic_valid_iff. split; [|eauto].
        unfold len. rewrite Hl. apply legal_count_k. exists k. auto. }
    cbn [negb]. rewrite fields_trim_space.
    assert (Ln : len (fields s) = 3 * Z.of_nat k) by (unfold len; rewrite Hl; lia).
    rewrite Ln.
    replace (3 * Z.of_nat k * 11 mod 32) with (Z.of_nat k) by (Z.div_mod_to_equations; lia).
    replace ((3 * Z.of_nat k * 11 - Z.of_nat k) / 8 + 1) with (4 * Z.of_nat k + 1)
      by (Z.div_mod_to_equations; lia).
    replace (4 * Z.of_nat k + 1 - (4 * Z.of_nat k + 1) mod 4) with (4 * Z.of_nat k)
      by (Z.div_mod_to_equations; lia).
    rewrite (fold_index0 _ idxs 0 F). fold (sval idxs). fold N. fold e0.
    (* bounds *)
    pose proof (sval_bounds idxs (index_bounds _ _ F)) as BN. fold N in BN.
    assert (Li : len idxs = 3 * Z.of_nat k).
    { unfold len. rewrite <- (Forall2_len _ _ _ F), Hl. lia. }
    rewrite Li in BN. change 2048 with (2 ^ 11) in BN. rewrite <- Z.pow_mul_r in BN by lia.
    replace (11 * (3 * Z.of_nat k)) with (Z.of_nat (11 * (3 * k))) in BN by lia.
    rewrite pow2_33k in BN.
    assert (P2 : 0 < 2 ^ Z.of_nat k) by (apply Z.pow_pos_nonneg; lia).
    assert (P2' : 2 ^ Z.of_nat k <= 256).
    { change 256 with (2 ^ 8). apply Z.pow_le_mono_r; lia. }
    assert (P256 : 0 < 256 ^ (4 * Z.of_nat k)) by (apply Z.pow_pos_nonneg; lia).
    assert (BD : 0 <= N / 2 ^ Z.of_nat k < 256 ^ (4 * Z.of_nat k)).
    { split; [apply Z.div_pos; lia|]. apply Z.div_lt_upper_bound; lia. }
    destruct (pad_be_bytes _ _ BD ltac:(lia)) as (Ok0 & V0 & L0). fold e0 in Ok0, V0, L0.
    rewrite (add_checksum_spec H H_wf e0 k Ok0); [| |lia].
    2:{ rewrite L0, Z.mul_comm, Z.div_mul by lia. reflexivity. }
    rewrite V0.
    destruct (checksum_facts k (hash0 H e0) ltac:(lia) (hash0_byte H H_wf e0)) as (_ & _ & Bc).
    set (c := csv k (hash0 H e0)) in *.
    pose proof (Z.div_mod N (2 ^ Z.of_nat k) ltac:(lia)) as DM.
    pose proof (Z.mod_pos_bound N (2 ^ Z.of_nat k) P2) as MB.
    assert (P257 : 256 ^ (4 * Z.of_nat k + 1) = 256 * 256 ^ (4 * Z.of_nat k))
      by (rewrite Z.pow_add_r, Z.pow_1_r by lia; lia).
    destruct (N mod 2 ^ Z.of_nat k =? c) eqn:C; bool_hyps.
    - replace (N / 2 ^ Z.of_nat k * 2 ^ Z.of_nat k + c) with N by lia.
      rewrite bytes_eqb_refl. reflexivity.
    - replace (bytes_eqb _ _) with false; [reflexivity|].
      symmetry. apply bytes_eqb_neq. intros E.
      apply pad_be_bytes_inj in E; [lia| | |lia]; rewrite P257; nia.
  Qed.

  Theorem mtba_raw_accept_iff s e :
    mnemonic_to_byte_array H true s = Ok e <-> valid_sentence H (fields s) e.
  Proof.
    rewrite <- efm_accept_iff.
    destruct (is_mnemonic_valid s) eqn:V.
    - apply is_mnemonic_valid_iff in V. destruct V as (LC & idxs & F).
      unfold len in LC. apply legal_count_k in LC. destruct LC as (k & Hk & Hl).
      rewrite (mtba_eval true s k idxs Hk Hl F), (efm_eval s k idxs Hk Hl F). reflexivity.
    - rewrite mtba_invalid by exact V. split; [discriminate|]. intros E. exfalso.
      apply efm_accept_iff in E. destruct E as (Lw & _ & idxs & Fn & _).
      apply legal_words_k in Lw. destruct Lw as (k & Hk & Hl).
      destruct (index_Z_of_nat _ _ Fn) as (F & _).
      assert (is_mnemonic_valid s = true); [|congruence].
      apply is_mnemonic_valid_iff. split; [|eauto]. unfold len. rewrite Hl. apply legal_count_k. eauto.
  Qed.

  (* without the raw flag: the ENT+CS bit string as a number, on len e + 1 bytes *)
  Theorem mtba_accept_iff s b :
    mnemonic_to_byte_array H false s = Ok b <->
    exists e, valid_sentence H (fields s) e /\
              b = pad_bytes (be_bytes (bits_val (bits e ++ checksum_bits H e))) (len e + 1).
  Proof.
    destruct (is_mnemonic_valid s) eqn:V.
    - apply is_mnemonic_valid_iff in V. destruct V as (LC & idxs & F).
      unfold len in LC. apply legal_count_k in LC. destruct LC as (k & Hk & Hl).
      pose proof (mtba_eval false s k idxs Hk Hl F) as E1.
      pose proof (mtba_eval true s k idxs Hk Hl F) as E2. cbv zeta in E1, E2.
      set (N := sval idxs) in *. set (e0 := pad_bytes (be_bytes (N / 2 ^ Z.of_nat k)) (4 * Z.of_nat k)) in *.
      destruct (index_nat_of_Z _ _ F) as (Fn & Mz & Bn).
      assert (VN : forall e, valid_sentence H (fields s) e ->
                 e = e0 /\ bits_val (bits e ++ checksum_bits H e) = N /\ len e = 4 * Z.of_nat k).
      { intros e Ve. pose proof Ve as Ve'. apply mtba_raw_accept_iff in Ve'. rewrite E2 in Ve'.
        destruct (_ =? _) in Ve'; [|discriminate]. injection Ve' as <-. split; [reflexivity|].
        destruct Ve as (_ & _ & idxs' & Fn' & Eb). rewrite <- Eb.
        assert (idxs' = map Z.to_nat idxs) as ->.
        { clear - Fn Fn'. revert idxs' Fn'. induction Fn as [|w i ws is_ Hw Hr IH]; intros idxs' F';
            inversion F' as [|? i' ? is' Hw' Hr']; subst; [reflexivity|].
          f_equal; [|apply IH; exact Hr'].
          apply word_index_of_nth in Hw. apply word_index_of_nth in Hw'. rewrite Hw in Hw'.
          injection Hw' as E. lia. }
        rewrite sval_bits, map_mod_small, Mz by exact Bn. split; [reflexivity|].
        assert (BD : 0 <= N / 2 ^ Z.of_nat k < 256 ^ (4 * Z.of_nat k)).
        { pose proof (sval_bounds idxs (index_bounds _ _ F)) as BN. fold N in BN.
          assert (Li : len idxs = 3 * Z.of_nat k).
          { unfold len. rewrite <- (Forall2_len _ _ _ F), Hl. lia. }
          rewrite Li in BN. change 2048 with (2 ^ 11) in BN. rewrite <- Z.pow_mul_r in BN by lia.
          replace (11 * (3 * Z.of_nat k)) with (Z.of_nat (11 * (3 * k))) in BN by lia.
          rewrite pow2_33k in BN.
          assert (P2 : 0 < 2 ^ Z.of_nat k) by (apply Z.pow_pos_nonneg; lia).
          split; [apply Z.div_pos; lia|]. apply Z.div_lt_upper_bound; lia. }
        apply (pad_be_bytes _ _ BD ltac:(lia)). }
      split.
      + intros E. rewrite E1 in E. destruct (_ =? _) eqn:C in E; [|discriminate]. injection E as <-.
        assert (Ve : valid_sentence H (fields s) e0) by (apply mtba_raw_accept_iff; rewrite E2, C; reflexivity).
        exists e0. split; [exact Ve|]. destruct (VN e0 Ve) as (_ & -> & ->). reflexivity.
      + intros (e & Ve & ->). destruct (VN e Ve) as (-> & -> & ->).
        apply mtba_raw_accept_iff in Ve. rewrite E2 in Ve. rewrite E1.
        destruct (_ =? _); [reflexivity|discriminate].
    - rewrite mtba_invalid by exact V. split; [discriminate|]. intros (e & Ve & _). exfalso.
      apply mtba_raw_accept_iff in Ve. rewrite mtba_invalid in Ve by exact V. discriminate.
  Qed.
  (* ---------------------------------------------------------------- IsMnemonicValid: what it is *)

  Lemma word_index_in w : (exists i, word_index w = Some i) <-> In w wordlist.
  Proof.
    split.
    - intros (i & E). apply word_index_some in E. destruct E as (_ & E). eapply nth_error_In. exact E.
    - intros I. apply In_nth_error in I. destruct I as (n & E). exists (Z.of_nat n). apply word_index_of_nth. exact E.
  Qed.

  Theorem is_mnemonic_valid_spec s : is_mnemonic_valid s = true <->
    (length (fields s) = 12 \/ length (fields s) = 15 \/ length (fields s) = 18 \/
     length (fields s) = 21 \/ length (fields s) = 24)%nat /\
    Forall (fun w => In w wordlist) (fields s).
  Proof.
    rewrite is_mnemonic_valid_iff, legal_words_k. unfold len. rewrite legal_count_k.
    apply and_iff_compat_l. generalize (fields s) as ws. induction ws as [|w r IH].
    - split; [constructor|]. exists []. constructor.
    - split.
      + intros (idxs & F). inversion F as [|? i ? is_ Hw Hr]; subst. constructor.
        * apply word_index_in. eauto.
        * apply IH. eauto.
      + intros F. inversion F as [|? ? Hw Hr]; subst. apply word_index_in in Hw. destruct Hw as (i & Hw).
        apply IH in Hr. destruct Hr as (idxs & Fr). exists (i :: idxs). constructor; auto.
  Qed.

  (* ---------------------------------------------------------------- seeds *)

  Variable PBKDF2 : bytes -> bytes -> Z -> Z -> bytes.
  Variable NFKD : bytes -> bytes.

  Lemma new_seed_def m p :
    new_seed PBKDF2 m p = PBKDF2 (join_sp (fields m)) (mnemonic_lit ++ p) 2048 64.
  Proof. reflexivity. Qed.

  Theorem new_seed_is_bip39 m p : NFKD p = p ->
    new_seed PBKDF2 m p = bip39_seed PBKDF2 NFKD (fields m) p.
  Proof. intros Hp. unfold bip39_seed. rewrite Hp. reflexivity. Qed.

  Theorem new_seed_checked_iff m p sd :
    new_seed_with_error_checking H PBKDF2 m p = Ok sd <->
    (exists e, valid_sentence H (fields m) e) /\
    sd = PBKDF2 (join_sp (fields m)) (mnemonic_lit ++ p) 2048 64.
  Proof.
    unfold new_seed_with_error_checking, new_seed_with_error_checking_gen.
    destruct (mnemonic_to_byte_array H false m) as [b|er|] eqn:E.
    - apply mtba_accept_iff in E. destruct E as (e & Ve & _). split.
      + intros S. injection S as <-. split; [eauto|reflexivity].
      + intros (_ & ->). reflexivity.
    - split; [discriminate|]. intros ((e & Ve) & _). exfalso.
      assert (exists b, mnemonic_to_byte_array H false m = Ok b) as (b & Eb)
        by (eexists; apply mtba_accept_iff; eauto). congruence.
    - split; [discriminate|]. intros ((e & Ve) & _). exfalso.
      assert (exists b, mnemonic_to_byte_array H false m = Ok b) as (b & Eb)
        by (eexists; apply mtba_accept_iff; eauto). congruence.
  Qed.

  (* the code as first found: the raw string is the password. For every entropy there is an accepted
     sentence (the mnemonic with one leading space) whose seed is not the BIP-39 seed of its words,
     whatever collision-free key derivation function is used. *)
  Theorem new_seed_unfixed_refuted e : legal_len e -> bytes_ok e ->
    exists m, entropy_from_mnemonic H m = Ok e /\
      forall p, NFKD p = p ->
        (forall a b s i k, PBKDF2 a s i k = PBKDF2 b s i k -> a = b) ->
        new_seed_unfixed PBKDF2 m p <> bip39_seed PBKDF2 NFKD (fields m) p.
  Proof.
    intros LL He. destruct (spec_encode_valid e LL He) as (ws & _ & V & P).
    assert (F : fields (32 :: join_sp ws) = ws).
    { unfold fields. cbn [fields_go]. change (space_width (32 :: join_sp ws)) with 1%nat. cbv beta iota.
      unfold flush. apply (fields_join ws P). }
    exists (32 :: join_sp ws). split.
    - apply efm_accept_iff. rewrite F. exact V.
    - intros p Hp Inj E. unfold new_seed_unfixed, new_seed_gen, bip39_seed in E. rewrite Hp, F in E.
      apply Inj in E. apply (f_equal (@length Z)) in E. cbn [length] in E. lia.
  Qed.
  (* ---------------------------------------------------------------- the executable form of the specification *)

  Lemma first_index_some w l : forall i j, first_index w l i = Some j ->
    (i <= j)%nat /\ nth_error l (j - i) = Some w.
  Proof.
    induction l as [|x r IH]; intros i j E; [discriminate|].
    cbn [first_index] in E. destruct (bytes_eqb x w) eqn:B.
    - injection E as <-. apply bytes_eqb_eq in B. subst. rewrite Nat.sub_diag. split; [lia|reflexivity].
    - apply IH in E. destruct E as (Le & E). split; [lia|].
      replace (j - i)%nat with (S (j - S i)) by lia. exact E.
  Qed.

  Lemma first_index_nodup w l : forall i n, NoDup l -> nth_error l n = Some w ->
    first_index w l i = Some (i + n)%nat.
  Proof.
    induction l as [|x r IH]; intros i n ND E; [destruct n; discriminate|].
    inversion ND as [|? ? Nx NDr]; subst. cbn [first_index]. destruct n as [|n].
    - cbn in E. injection E as ->. rewrite bytes_eqb_refl. f_equal. lia.
    - cbn [nth_error] in E. replace (bytes_eqb x w) with false.
      + rewrite (IH (S i) n NDr E). f_equal. lia.
      + symmetry. apply bytes_eqb_neq. intros ->. apply Nx. eapply nth_error_In. exact E.
  Qed.

  Lemma all_indexes_some ws : forall idxs, all_indexes ws = Some idxs ->
    Forall2 (fun w i => nth_error wordlist i = Some w) ws idxs.
  Proof.
    induction ws as [|w r IH]; intros idxs E.
    - cbn in E. injection E as <-. constructor.
    - cbn [all_indexes] in E. destruct (first_index w wordlist 0) as [i|] eqn:Fi; [|discriminate].
      destruct (all_indexes r) as [is_|]; [|discriminate]. injection E as <-.
      constructor; [|apply IH; reflexivity].
      apply first_index_some in Fi. destruct Fi as (_ & Fi). rewrite Nat.sub_0_r in Fi. exact Fi.
  Qed.

  Lemma all_indexes_complete ws idxs : Forall2 (fun w i => nth_error wordlist i = Some w) ws idxs ->
    all_indexes ws = Some idxs.
  Proof.
    induction 1 as [|w i ws idxs Hw Hr IH]; [reflexivity|].
    cbn [all_indexes]. rewrite (first_index_nodup w wordlist 0 i wordlist_nodup Hw), IH. reflexivity.
  Qed.

  Lemma bits_eqb_eq a : forall b, bits_eqb a b = true <-> a = b.
  Proof.
    induction a as [|x a IH]; intros [|y b]; cbn; split; intros E; try discriminate; auto.
    - apply andb_true_iff in E. destruct E as [E1 E2]. apply eqb_prop in E1. apply IH in E2. congruence.
    - injection E as -> ->. rewrite eqb_reflx. cbn. apply IH. reflexivity.
  Qed.

  Lemma bytes_of_bits_bits e : bytes_ok e -> bytes_of_bits (length e) (bits e) = e.
  Proof.
    induction 1 as [|b r Hb Hr IH]; [reflexivity|].
    cbn [length bytes_of_bits]. change (bits (b :: r)) with (bits_of 8 b ++ bits r).
    rewrite firstn_app, bits_of_length, Nat.sub_diag, firstn_O, app_nil_r.
    rewrite firstn_all2 by (rewrite bits_of_length; lia).
    rewrite skipn_app, bits_of_length, Nat.sub_diag, skipn_O.
    rewrite skipn_all2 by (rewrite bits_of_length; lia). cbn [app]. rewrite IH.
    unfold is_byte in Hb. rewrite bits_val_bits_of by lia. rewrite Z.mod_small by (cbn; lia). reflexivity.
  Qed.

  Lemma bits_bytes_of_bits m : forall l, length l = (8 * m)%nat ->
    bits (bytes_of_bits m l) = l /\ bytes_ok (bytes_of_bits m l).
  Proof.
    induction m as [|m IH]; intros l Hl.
    - destruct l; [split; [reflexivity|constructor]|discriminate].
    - cbn [bytes_of_bits]. destruct (IH (skipn 8 l)) as (A & B); [rewrite skipn_length; lia|].
      assert (L8 : length (firstn 8 l) = 8%nat) by (rewrite firstn_length; lia).
      split.
      + change (bits (?x :: ?r)) with (bits_of 8 x ++ bits r). rewrite A.
        rewrite <- L8 at 1. rewrite bits_of_bits_val. apply firstn_skipn.
      + constructor; [|exact B]. pose proof (bits_val_bounds (firstn 8 l)) as Bv.
        unfold len in Bv. rewrite L8 in Bv. exact Bv.
  Qed.

  Lemma sentence_len e (idxs : list nat) k : (4 <= k <= 8)%nat -> length idxs = (3 * k)%nat ->
    flat_map (fun i => bits_of 11 (Z.of_nat i)) idxs = bits e ++ checksum_bits H e -> length e = (4 * k)%nat.
  Proof.
    intros Hk Hl E. apply (f_equal (@length bool)) in E.
    rewrite flat_bits11_length, Hl, app_length, bits_length in E.
    unfold checksum_bits in E. rewrite firstn_length, bits_length in E.
    destruct (H_wf e) as (h0 & rest & EH & _). rewrite EH in E. cbn [length] in E.
    destruct (div8_32 (length e)) as (q & r & A & B & C). rewrite C in E. lia.
  Qed.

  Lemma legal_countb_k n : existsb (Nat.eqb n) [12; 15; 18; 21; 24]%nat = true <->
    exists k, (4 <= k <= 8)%nat /\ n = (3 * k)%nat.
  Proof.
    cbn [existsb]. rewrite !orb_true_iff, !Nat.eqb_eq. split.
    - intros [E|[E|[E|[E|[E|E]]]]]; [exists 4%nat|exists 5%nat|exists 6%nat|exists 7%nat|exists 8%nat|discriminate]; lia.
    - intros (k & Hk & ->). lia.
  Qed.

  Lemma ent_of_k k : (3 * k / 3 * 32 = 8 * (4 * k))%nat.
  Proof. rewrite (Nat.mul_comm 3 k), Nat.div_mul by lia. lia. Qed.
  Lemma div8_k k : (8 * (4 * k) / 8 = 4 * k)%nat.
  Proof. rewrite (Nat.mul_comm 8), Nat.div_mul by lia. reflexivity. Qed.

  Theorem spec_decode_iff ws e : spec_decode H ws = Some e <-> valid_sentence H ws e.
  Proof.
    unfold spec_decode, valid_sentence. split.
    - intros E. destruct (existsb _ _) eqn:LC in E; [|discriminate].
      apply legal_countb_k in LC. destruct LC as (k & Hk & Hl).
      destruct (all_indexes ws) as [idxs|] eqn:AI; [|discriminate].
      apply all_indexes_some in AI.
      assert (Li : length idxs = (3 * k)%nat) by (rewrite <- (Forall2_len _ _ _ AI); exact Hl).
      rewrite Hl in E.
      rewrite ent_of_k, div8_k in E.
      set (all := flat_map (fun i => bits_of 11 (Z.of_nat i)) idxs) in *.
      assert (La : length all = (11 * (3 * k))%nat) by (unfold all; rewrite flat_bits11_length, Li; reflexivity).
      destruct (bits_bytes_of_bits (4 * k) (firstn (8 * (4 * k)) all)) as (Bb & Bok).
      { rewrite firstn_length. lia. }
      set (e0 := bytes_of_bits (4 * k) (firstn (8 * (4 * k)) all)) in *.
      destruct (bits_eqb _ _) eqn:C in E; [|discriminate].
      assert (Ee : e0 = e) by congruence. clear E. subst e.
      apply bits_eqb_eq in C.
      split; [apply legal_words_k; eauto|]. split; [exact Bok|].
      exists idxs. split; [exact AI|]. fold all. rewrite Bb, <- C. symmetry. apply firstn_skipn.
    - intros (Lw & Ok_ & idxs & Fn & Eb).
      apply legal_words_k in Lw. destruct Lw as (k & Hk & Hl).
      replace (existsb _ _) with true by (symmetry; apply legal_countb_k; eauto).
      rewrite (all_indexes_complete _ _ Fn).
      assert (Li : length idxs = (3 * k)%nat) by (rewrite <- (Forall2_len _ _ _ Fn); exact Hl).
      pose proof (sentence_len e idxs k Hk Li Eb) as Le.
      rewrite Hl.
      rewrite ent_of_k, div8_k.
      rewrite Eb.
      assert (Lb : length (bits e) = (8 * (4 * k))%nat) by (rewrite bits_length, Le; reflexivity).
      rewrite firstn_app, Lb, Nat.sub_diag, firstn_O, app_nil_r.
      rewrite firstn_all2 by lia.
      rewrite skipn_app, Lb, Nat.sub_diag, skipn_O. rewrite skipn_all2 by lia. cbn [app].
      rewrite <- Le, bytes_of_bits_bits by exact Ok_.
      replace (bits_eqb _ _) with true by (symmetry; apply bits_eqb_eq; reflexivity). reflexivity.
  Qed.
  (* ---------------------------------------------------------------- corollaries used by Properties/C13.v *)

  Theorem new_mnemonic_valid e : legal_len e -> bytes_ok e ->
    exists ws, new_mnemonic H e = Ok (join_sp ws) /\ valid_sentence H ws e /\ fields (join_sp ws) = ws.
  Proof.
    intros LL He. destruct (spec_encode_valid e LL He) as (ws & Es & V & P).
    exists ws. rewrite new_mnemonic_is_spec by exact He. split; [exact Es|]. split; [exact V|].
    apply fields_join. exact P.
  Qed.

  Theorem roundtrip_byte_array e : legal_len e -> bytes_ok e ->
    exists m, new_mnemonic H e = Ok m /\ mnemonic_to_byte_array H true m = Ok e /\
              is_mnemonic_valid m = true.
  Proof.
    intros LL He. destruct (new_mnemonic_valid e LL He) as (ws & En & V & F).
    exists (join_sp ws). split; [exact En|]. split.
    - apply mtba_raw_accept_iff. rewrite F. exact V.
    - apply is_mnemonic_valid_spec. rewrite F. destruct V as (Lw & _ & idxs & Fn & _). split; [exact Lw|].
      clear - Fn. induction Fn as [|w i ws idxs Hw Hr IH]; constructor; auto. eapply nth_error_In. exact Hw.
  Qed.

  Theorem new_mnemonic_rejects e : ~ legal_len e -> new_mnemonic H e = Err ErrEntropyLengthInvalid.
  Proof.
    intros N. unfold new_mnemonic. replace (valid_bitsize (len e * 8)) with false; [reflexivity|].
    symmetry. destruct (valid_bitsize (len e * 8)) eqn:V; auto. apply valid_bitsize_iff in V. contradiction.
  Qed.

  (* a sentence has at most one entropy *)
  Theorem valid_sentence_functional ws e1 e2 :
    valid_sentence H ws e1 -> valid_sentence H ws e2 -> e1 = e2.
  Proof.
    intros V1 V2. apply spec_decode_iff in V1. apply spec_decode_iff in V2. congruence.
  Qed.
End Main.
