(* Codec/Bip39.v — executable model of masswallet/keystore/mnemonic.go
   (NewMnemonic, EntropyFromMnemonic, MnemonicToByteArray, IsMnemonicValid,
   NewSeed, NewSeedWithErrorChecking and their helpers), written line by line
   from the Go source with math/big's semantics (SetBytes / Bytes dropping
   leading zeros, And / Or / Mul / Div on non-negative integers), and, separately,
   a bit-level specification written from the BIP-39 text.
   Bytes and characters are their codes in Z; a Go string / []byte is a [list Z].
   SHA-256 ([H]), PBKDF2-HMAC-SHA512 ([PBKDF2]) and Unicode NFKD ([NFKD]) are
   arguments (Section variables): nothing below depends on what they compute.
   Only definitions here (the model must still run when a proof breaks);
   proofs are in Bip39Proofs.v, the property theorems in Properties/C13.v. *)
From Coq Require Import List ZArith Bool.
Import ListNotations.
Open Scope Z_scope.
Require Import MW.Gen.Wordlist.

Definition str := list Z.
Definition bytes := list Z.
Definition len {A} (l : list A) : Z := Z.of_nat (length l).

(* the sentinel errors of mnemonic.go *)
Inductive err := ErrInvalidMnemonic | ErrInvalidMnemonicWord | ErrEntropyLengthInvalid | ErrChecksumIncorrect.
(* Go outcome: value, error, or run-time panic (index out of range, nil map entry) *)
Inductive outcome (A : Type) := Ok (a : A) | Err (e : err) | Panic.
Arguments Ok {A} a.
Arguments Err {A} e.
Arguments Panic {A}.

Definition is_byte (b : Z) : Prop := 0 <= b < 256.
Definition bytes_ok (l : bytes) : Prop := Forall is_byte l.
Definition is_byteb (b : Z) : bool := (0 <=? b) && (b <? 256).

(* ------------------------------------------------------------------ math/big *)

(* new(big.Int).SetBytes(b): big-endian unsigned value *)
Definition be_val (b : bytes) : Z := fold_left (fun a x => a * 256 + x) b 0.

(* x.Bytes(): big-endian bytes of |x| without leading zeros (empty for 0) *)
Fixpoint be_bytes_aux (fuel : nat) (n : Z) (acc : bytes) : bytes :=
  match fuel with
  | O => acc
  | S f => if n <=? 0 then acc else be_bytes_aux f (n / 256) (n mod 256 :: acc)
  end.
Definition be_bytes (n : Z) : bytes := be_bytes_aux (S (Z.to_nat (Z.log2 n))) n [].

(* padByteSlice(slice, length) *)
Definition pad_bytes (s : bytes) (length : Z) : bytes :=
  let offset := length - len s in
  if offset <=? 0 then s else repeat 0 (Z.to_nat offset) ++ s.

(* binary.BigEndian.PutUint16 / Uint16 (the slices handed to them have >= 2 bytes) *)
Definition put_uint16 (v : Z) : bytes := [v / 256; v mod 256].
Definition uint16_be (b : bytes) : Z := nth 0 b 0 * 256 + nth 1 b 0.

(* compareByteSlices *)
Fixpoint bytes_eqb (a b : bytes) : bool :=
  match a, b with
  | [], [] => true
  | x :: a', y :: b' => (x =? y) && bytes_eqb a' b'
  | _, _ => false
  end.

(* ------------------------------------------------------------------ word list, wordMap *)

(* SetWordList: wordMap[v] = i for i, v := range wordList  (a later duplicate overwrites) *)
Fixpoint find_last (w : str) (l : list str) (i : Z) (acc : option Z) : option Z :=
  match l with
  | [] => acc
  | x :: r => find_last w r (i + 1) (if bytes_eqb x w then Some i else acc)
  end.
Definition word_index (w : str) : option Z := find_last w wordlist 0 None.

(* wordList[i] for each index; None = index out of range (Go panics) *)
Fixpoint lookup_words (idxs : list Z) : option (list str) :=
  match idxs with
  | [] => Some []
  | i :: r =>
      match (if i <? 0 then None else nth_error wordlist (Z.to_nat i)), lookup_words r with
      | Some w, Some ws => Some (w :: ws)
      | _, _ => None
      end
  end.

(* strings.Join(words, " ") *)
Fixpoint join_sp (ws : list str) : str :=
  match ws with
  | [] => []
  | w :: r => match r with [] => w | _ => w ++ 32 :: join_sp r end
  end.

(* ------------------------------------------------------------------ strings.Fields, strings.TrimSpace
   White space = unicode.IsSpace: U+0009..U+000D, U+0020, U+0085, U+00A0, U+1680,
   U+2000..U+200A, U+2028, U+2029, U+202F, U+205F, U+3000. The string is UTF-8; an
   invalid byte decodes to U+FFFD of width 1 (not a space). A lead byte of one of the
   multi-byte spaces (C2, E1, E2, E3) is never a continuation byte, so it always sits
   on a rune boundary and a byte-wise scan finds exactly the runes Go's decoder finds. *)
Definition is_ascii_space (c : Z) : bool := ((9 <=? c) && (c <=? 13)) || (c =? 32).
Definition sp2 (c1 c2 : Z) : bool := (c1 =? 194) && ((c2 =? 133) || (c2 =? 160)).
Definition sp3 (c1 c2 c3 : Z) : bool :=
  ((c1 =? 225) && (c2 =? 154) && (c3 =? 128))
  || ((c1 =? 226) && (c2 =? 128) && (((128 <=? c3) && (c3 <=? 138)) || (c3 =? 168) || (c3 =? 169) || (c3 =? 175)))
  || ((c1 =? 226) && (c2 =? 129) && (c3 =? 159))
  || ((c1 =? 227) && (c2 =? 128) && (c3 =? 128)).

(* width in bytes of the white-space rune at the head of s, 0 if there is none *)
Definition space_width (s : str) : nat :=
  match s with
  | [] => 0
  | c1 :: r1 =>
      if is_ascii_space c1 then 1
      else match r1 with
           | [] => 0
           | c2 :: r2 =>
               if sp2 c1 c2 then 2
               else match r2 with
                    | [] => 0
                    | c3 :: _ => if sp3 c1 c2 c3 then 3 else 0
                    end
           end
  end%nat.

Definition flush (cur : str) (rest : list str) : list str :=
  match cur with [] => rest | _ => rev cur :: rest end.

(* skip = bytes of the current white-space rune still to be dropped; cur = current field, reversed *)
Fixpoint fields_go (skip : nat) (cur : str) (s : str) : list str :=
  match s with
  | [] => flush cur []
  | c :: r =>
      match skip with
      | S k => fields_go k cur r
      | O => match space_width (c :: r) with
             | O => fields_go O (c :: cur) r
             | S k => flush cur (fields_go k [] r)
             end
      end
  end.
Definition fields (s : str) : list str := fields_go 0 [] s.

(* strings.TrimSpace = TrimLeft + TrimRight by unicode.IsSpace; the right trim decodes
   the last rune backwards (utf8.DecodeLastRune), here: the reversed patterns. *)
Fixpoint trim_left_go (skip : nat) (s : str) : str :=
  match s with
  | [] => []
  | c :: r =>
      match skip with
      | S k => trim_left_go k r
      | O => match space_width (c :: r) with
             | O => c :: r
             | S k => trim_left_go k r
             end
      end
  end.
Definition trim_left_space (s : str) : str := trim_left_go 0 s.

Definition space_width_rev (s : str) : nat :=
  match s with
  | [] => 0
  | c1 :: r1 =>
      if is_ascii_space c1 then 1
      else match r1 with
           | [] => 0
           | c2 :: r2 =>
               if sp2 c2 c1 then 2
               else match r2 with
                    | [] => 0
                    | c3 :: _ => if sp3 c3 c2 c1 then 3 else 0
                    end
           end
  end%nat.
Fixpoint trim_right_go (skip : nat) (s : str) : str :=   (* s is reversed *)
  match s with
  | [] => []
  | c :: r =>
      match skip with
      | S k => trim_right_go k r
      | O => match space_width_rev (c :: r) with
             | O => c :: r
             | S k => trim_right_go k r
             end
      end
  end.
Definition trim_right_space (s : str) : str := rev (trim_right_go 0 (rev s)).
Definition trim_space (s : str) : str := trim_right_space (trim_left_space s).

(* ------------------------------------------------------------------ tables of mnemonic.go *)

Definition opt_eqZ (n k v : Z) (rest : option Z) : option Z := if n =? k then Some v else rest.
(* wordLengthChecksumMasksMapping *)
Definition checksum_mask (n : Z) : option Z :=
  opt_eqZ n 12 15 (opt_eqZ n 15 31 (opt_eqZ n 18 63 (opt_eqZ n 21 127 (opt_eqZ n 24 255 None)))).
(* wordLengthChecksumShiftMapping *)
Definition checksum_shift (n : Z) : option Z :=
  opt_eqZ n 12 16 (opt_eqZ n 15 8 (opt_eqZ n 18 4 (opt_eqZ n 21 2 None))).

(* validateEntropyBitSize: nil error <-> true *)
Definition valid_bitsize (n : Z) : bool := negb (negb (n mod 32 =? 0) || (n <? 128) || (256 <? n)).
(* the word-count test of splitMnemonicWords / IsMnemonicValid *)
Definition legal_count (n : Z) : bool := negb (negb (n mod 3 =? 0) || (n <? 12) || (24 <? n)).

Section Model.
  Variable H : bytes -> bytes.                       (* sha256: computeChecksum *)
  Variable PBKDF2 : bytes -> bytes -> Z -> Z -> bytes. (* pbkdf2.Key(password, salt, iter, keyLen, sha512.New) *)
  Variable NFKD : bytes -> bytes.                    (* Unicode NFKD of a UTF-8 string (specification side only) *)

  (* hash[0] (sha256 returns 32 bytes) *)
  Definition hash0 (d : bytes) : Z := nth 0 (H d) 0.

  (* uint8(firstChecksumByte & (1 << (7-i))) > 0, i of type uint: for i > 7 the shift
     count wraps to a huge value and the uint8 constant 1 shifted by it is 0 *)
  Definition checksum_bit (first i : Z) : bool := if i <=? 7 then Z.testbit first (7 - i) else false.

  Fixpoint add_checksum_loop (k : nat) (i : Z) (first : Z) (n : Z) : Z :=
    match k with
    | O => n
    | S k' =>
        let n2 := n * 2 in
        add_checksum_loop k' (i + 1) first (if checksum_bit first i then Z.lor n2 1 else n2)
    end.

  (* addChecksum(data) *)
  Definition add_checksum (data : bytes) : bytes :=
    let first := hash0 data in
    let cbl := len data / 4 in
    be_bytes (add_checksum_loop (Z.to_nat cbl) 0 first (be_val data)).

  (* the word loop of NewMnemonic, last word first *)
  Fixpoint words_loop (k : nat) (n : Z) (acc : list Z) : list Z :=
    match k with
    | O => acc
    | S k' =>
        let word := Z.land n 2047 in
        let n' := n / 2048 in
        let wb := pad_bytes (be_bytes word) 2 in
        words_loop k' n' (uint16_be wb :: acc)
    end.

  (* NewMnemonic(entropy) *)
  Definition new_mnemonic (entropy : bytes) : outcome str :=
    let ebl := len entropy * 8 in
    let cbl := ebl / 32 in
    let sl := (ebl + cbl) / 11 in
    if negb (valid_bitsize ebl) then Err ErrEntropyLengthInvalid
    else
      let e' := add_checksum entropy in
      let n := be_val e' in
      match lookup_words (words_loop (Z.to_nat sl) n []) with
      | Some ws => Ok (join_sp ws)
      | None => Panic
      end.

  (* the decoding loop of EntropyFromMnemonic; None = a word is not in wordMap *)
  Fixpoint efm_loop (ws : list str) (b : Z) : option Z :=
    match ws with
    | [] => Some b
    | v :: r =>
        match word_index v with
        | None => None
        | Some idx => efm_loop r (Z.lor (b * 2048) (be_val (put_uint16 (idx mod 65536))))
        end
    end.

  (* EntropyFromMnemonic(mnemonic) *)
  Definition entropy_from_mnemonic (m : str) : outcome bytes :=
    let ws := fields m in
    let n := len ws in
    if negb (legal_count n) then Err ErrInvalidMnemonic
    else
      match efm_loop ws 0 with
      | None => Err ErrInvalidMnemonicWord
      | Some b =>
          match checksum_mask n with
          | None => Panic
          | Some mask =>
              let checksum := Z.land b mask in
              let b' := b / (mask + 1) in
              let entropy := pad_bytes (be_bytes b') (n / 3 * 4) in
              let ec0 := hash0 entropy in
              let ec := if n =? 24 then Some ec0
                        else match checksum_shift n with Some sh => Some (ec0 / sh) | None => None end in
              match ec with
              | None => Panic
              | Some ec => if checksum =? ec then Ok entropy else Err ErrChecksumIncorrect
              end
          end
      end.

  Definition in_word_map (w : str) : bool := match word_index w with Some _ => true | None => false end.

  (* IsMnemonicValid(mnemonic): word count and membership only — no checksum *)
  Definition is_mnemonic_valid (m : str) : bool :=
    let ws := fields m in
    let n := len ws in
    if negb (n mod 3 =? 0) || (n <? 12) || (24 <? n) then false
    else forallb in_word_map ws.

  (* wordMap[v] of a missing key is 0 *)
  Definition word_index0 (w : str) : Z := match word_index w with Some i => i | None => 0 end.

  (* MnemonicToByteArray(mnemonic, raw...) *)
  Definition mnemonic_to_byte_array (raw : bool) (m : str) : outcome bytes :=
    let ws := fields (trim_space m) in
    let ebs := len ws * 11 in
    let cbs := ebs mod 32 in
    let full := (ebs - cbs) / 8 + 1 in
    let cbytes := full - full mod 4 in
    if negb (is_mnemonic_valid m) then Err ErrInvalidMnemonic
    else
      let ce := fold_left (fun a v => a * 2048 + word_index0 v) ws 0 in
      let modulo := 2 ^ cbs in
      let rawE := ce / modulo in
      let rawBytes := pad_bytes (be_bytes rawE) cbytes in
      let ceBytes := pad_bytes (be_bytes ce) full in
      let newCE := pad_bytes (add_checksum rawBytes) full in
      if negb (bytes_eqb ceBytes newCE) then Err ErrChecksumIncorrect
      else Ok (if raw then rawBytes else ceBytes).

  Definition mnemonic_lit : bytes := [109; 110; 101; 109; 111; 110; 105; 99].   (* "mnemonic" *)

  (* NewSeed(mnemonic, password): no validation of the sentence.
     [seedfix] = true: the repaired code, which first normalises the white space
     (mnemonic = strings.Join(strings.Fields(mnemonic), " ")); false: the code as first
     found, where the raw string is the PBKDF2 password. *)
  Definition new_seed_gen (seedfix : bool) (m p : str) : bytes :=
    let m' := if seedfix then join_sp (fields m) else m in
    PBKDF2 m' (mnemonic_lit ++ p) 2048 64.

  (* NewSeedWithErrorChecking *)
  Definition new_seed_with_error_checking_gen (seedfix : bool) (m p : str) : outcome bytes :=
    match mnemonic_to_byte_array false m with
    | Ok _ => Ok (new_seed_gen seedfix m p)
    | Err e => Err e
    | Panic => Panic
    end.

  Definition new_seed : str -> str -> bytes := new_seed_gen true.
  Definition new_seed_unfixed : str -> str -> bytes := new_seed_gen false.
  Definition new_seed_with_error_checking : str -> str -> outcome bytes := new_seed_with_error_checking_gen true.
  Definition new_seed_with_error_checking_unfixed : str -> str -> outcome bytes := new_seed_with_error_checking_gen false.

  (* ================================================================== specification
     BIP-39, "Generating the mnemonic": ENT in {128,160,192,224,256}; CS = ENT/32 first bits
     of SHA256(entropy) are appended to the entropy; the ENT+CS bits are split into groups of
     11 bits, each the index of a word; the sentence is the words joined by one space.
     "From mnemonic to seed": PBKDF2(password = sentence (NFKD), salt = "mnemonic" +
     passphrase (NFKD), 2048 iterations, HMAC-SHA512, 64 bytes). *)

  (* k bits of v, most significant first *)
  Definition bits_of (k : nat) (v : Z) : list bool := map (fun i => Z.testbit v (Z.of_nat i)) (rev (seq 0 k)).
  Definition bits (l : bytes) : list bool := flat_map (bits_of 8) l.
  Definition bits_val (l : list bool) : Z := fold_left (fun a b => 2 * a + Z.b2z b) l 0.

  Fixpoint chunks (k : nat) (l : list bool) : list (list bool) :=
    match k with
    | O => []
    | S k' => firstn 11 l :: chunks k' (skipn 11 l)
    end.

  Definition legal_len (e : bytes) : Prop :=
    length e = 16%nat \/ length e = 20%nat \/ length e = 24%nat \/ length e = 28%nat \/ length e = 32%nat.
  Definition legal_lenb (e : bytes) : bool :=
    existsb (Nat.eqb (length e)) [16; 20; 24; 28; 32]%nat.

  Definition checksum_bits (e : bytes) : list bool := firstn (length e * 8 / 32) (bits (H e)).

  Definition spec_encode (e : bytes) : outcome str :=
    if legal_lenb e then
      let all := bits e ++ checksum_bits e in
      match lookup_words (map bits_val (chunks (length all / 11) all)) with
      | Some ws => Ok (join_sp ws)
      | None => Panic
      end
    else Err ErrEntropyLengthInvalid.

  (* a word sequence is a valid mnemonic of entropy e *)
  Definition valid_sentence (ws : list str) (e : bytes) : Prop :=
    (length ws = 12 \/ length ws = 15 \/ length ws = 18 \/ length ws = 21 \/ length ws = 24)%nat /\
    bytes_ok e /\
    exists idxs : list nat,
      Forall2 (fun w i => nth_error wordlist i = Some w) ws idxs /\
      flat_map (fun i => bits_of 11 (Z.of_nat i)) idxs = bits e ++ checksum_bits e.

  (* executable form: words -> indexes -> bits -> split 32:1 -> bytes, checksum compared *)
  Fixpoint first_index (w : str) (l : list str) (i : nat) : option nat :=
    match l with
    | [] => None
    | x :: r => if bytes_eqb x w then Some i else first_index w r (S i)
    end.
  Fixpoint all_indexes (ws : list str) : option (list nat) :=
    match ws with
    | [] => Some []
    | w :: r => match first_index w wordlist 0, all_indexes r with
                | Some i, Some is => Some (i :: is)
                | _, _ => None
                end
    end.
  Fixpoint bytes_of_bits (k : nat) (l : list bool) : bytes :=
    match k with
    | O => []
    | S k' => bits_val (firstn 8 l) :: bytes_of_bits k' (skipn 8 l)
    end.
  Fixpoint bits_eqb (a b : list bool) : bool :=
    match a, b with
    | [], [] => true
    | x :: a', y :: b' => Bool.eqb x y && bits_eqb a' b'
    | _, _ => false
    end.
  Definition spec_decode (ws : list str) : option bytes :=
    let n := length ws in
    if existsb (Nat.eqb n) [12; 15; 18; 21; 24]%nat then
      match all_indexes ws with
      | None => None
      | Some idxs =>
          let all := flat_map (fun i => bits_of 11 (Z.of_nat i)) idxs in
          let ent := (n / 3 * 32)%nat in   (* ENT = 32 * CS and MS = 3 * CS *)
          let e := bytes_of_bits (ent / 8) (firstn ent all) in
          if bits_eqb (skipn ent all) (checksum_bits e) then Some e else None
      end
    else None.

  Definition canonical (m : str) : Prop := m = join_sp (fields m).
  Definition canonicalb (m : str) : bool := bytes_eqb m (join_sp (fields m)).

  (* the BIP-39 seed of a word sequence and a passphrase *)
  Definition bip39_seed (ws : list str) (p : str) : bytes :=
    PBKDF2 (join_sp ws) (mnemonic_lit ++ NFKD p) 2048 64.
End Model.

(* the only fact about SHA-256 that the theorems use: it returns at least one byte *)
Definition hash_wf (H : bytes -> bytes) : Prop :=
  forall d, exists h0 rest, H d = h0 :: rest /\ 0 <= h0 < 256.
