(* Codec/AmountProofs.v — proofs about the Amount model (C15). *)
From Coq Require Import List ZArith Bool Lia.
Import ListNotations.
Open Scope Z_scope.
Require Import MW.Gen.Consts MW.Codec.Amount.

Local Ltac bool_hyps :=
  repeat match goal with
         | H : _ && _ = true |- _ => apply andb_true_iff in H; destruct H
         | H : _ || _ = false |- _ => apply orb_false_iff in H; destruct H
         | H : (_ <=? _) = true |- _ => apply Z.leb_le in H
         | H : (_ <=? _) = false |- _ => apply Z.leb_gt in H
         | H : (_ <? _) = true |- _ => apply Z.ltb_lt in H
         | H : (_ <? _) = false |- _ => apply Z.ltb_ge in H
         | H : (_ =? _) = true |- _ => apply Z.eqb_eq in H
         | H : (_ =? _) = false |- _ => apply Z.eqb_neq in H
         end.

(* ---------------------------------------------------------------- digits *)

Lemma is_digit_range c : is_digit c = true <-> 48 <= c <= 57.
Proof. unfold is_digit. rewrite andb_true_iff, !Z.leb_le. tauto. Qed.

Lemma all_digits_cons c s : all_digits (c :: s) = is_digit c && all_digits s.
Proof. reflexivity. Qed.

Lemma all_digits_single c : 48 <= c <= 57 -> all_digits [c] = true.
Proof. intros H. rewrite all_digits_cons. apply is_digit_range in H. rewrite H. reflexivity. Qed.

Lemma all_digits_app a b : all_digits (a ++ b) = all_digits a && all_digits b.
Proof. apply forallb_app. Qed.

Lemma all_digits_rev a : all_digits (rev a) = all_digits a.
Proof.
  induction a as [|c a IH]; [reflexivity|].
  cbn [rev]. rewrite all_digits_app, IH. cbn. rewrite andb_true_r. apply andb_comm.
Qed.

Lemma all_digits_repeat0 n : all_digits (repeat ch_0 n) = true.
Proof. induction n; cbn; auto. Qed.

Lemma fold_dval b : forall x,
  fold_left (fun a c => a * 10 + (c - 48)) b x = x * 10 ^ Z.of_nat (length b) + dval b.
Proof.
  unfold dval. induction b as [|c b IH]; intros x.
  - cbn. lia.
  - cbn [fold_left length]. rewrite IH. rewrite (IH (0 * 10 + (c - 48))).
    rewrite Nat2Z.inj_succ, Z.pow_succ_r by lia. lia.
Qed.

Lemma dval_app a b : dval (a ++ b) = dval a * 10 ^ Z.of_nat (length b) + dval b.
Proof. unfold dval at 1. rewrite fold_left_app. rewrite fold_dval. reflexivity. Qed.

Lemma dval_cons c s : dval (c :: s) = (c - 48) * 10 ^ Z.of_nat (length s) + dval s.
Proof. change (c :: s) with ([c] ++ s). rewrite dval_app. reflexivity. Qed.

Lemma dval_nil : dval [] = 0. Proof. reflexivity. Qed.

Lemma dval_bounds s : all_digits s = true -> 0 <= dval s < 10 ^ Z.of_nat (length s).
Proof.
  induction s as [|c s IH]; intros H.
  - cbn. lia.
  - cbn in H. apply andb_true_iff in H. destruct H as [Hc Hs].
    apply is_digit_range in Hc. specialize (IH Hs).
    rewrite dval_cons. cbn [length]. rewrite Nat2Z.inj_succ, Z.pow_succ_r by lia. nia.
Qed.

Lemma dval_repeat0 n : dval (repeat ch_0 n) = 0.
Proof.
  induction n as [|n IH]; [reflexivity|].
  cbn [repeat]. rewrite dval_cons, IH. unfold ch_0. lia.
Qed.

Lemma dval_inj_len a : forall b, all_digits a = true -> all_digits b = true ->
  length a = length b -> dval a = dval b -> a = b.
Proof.
  induction a as [|c a IH]; intros [|d b] Ha Hb Hl Hv; try discriminate; auto.
  cbn in Ha, Hb. apply andb_true_iff in Ha. apply andb_true_iff in Hb.
  destruct Ha as [Hc Ha], Hb as [Hd Hb]. injection Hl as Hl.
  rewrite !dval_cons in Hv. rewrite Hl in Hv.
  pose proof (dval_bounds a Ha) as Ba. pose proof (dval_bounds b Hb) as Bb. rewrite Hl in Ba.
  apply is_digit_range in Hc. apply is_digit_range in Hd.
  assert (c = d) by nia. subst d.
  f_equal. apply IH; auto. lia.
Qed.

(* ---------------------------------------------------------------- trims *)

Lemma trim_left0_digits s : all_digits (trim_left0 s) = all_digits s.
Proof.
  induction s as [|c s IH]; [reflexivity|].
  cbn [trim_left0]. destruct (c =? ch_0) eqn:E; [|reflexivity].
  apply Z.eqb_eq in E. subst c. cbn. exact IH.
Qed.

Lemma trim_left0_dval s : dval (trim_left0 s) = dval s.
Proof.
  induction s as [|c s IH]; [reflexivity|].
  cbn [trim_left0]. destruct (c =? ch_0) eqn:E; [|reflexivity].
  apply Z.eqb_eq in E. subst c. rewrite IH, dval_cons. unfold ch_0. lia.
Qed.

Lemma trim_left0_split s : exists n, s = repeat ch_0 n ++ trim_left0 s.
Proof.
  induction s as [|c s [n IH]]; [exists 0%nat; reflexivity|].
  cbn [trim_left0]. destruct (c =? ch_0) eqn:E.
  - apply Z.eqb_eq in E. subst c. exists (S n). cbn. f_equal. exact IH.
  - exists 0%nat. reflexivity.
Qed.

Lemma trim_left0_hd s : hd 0 (trim_left0 s) <> ch_0.
Proof.
  induction s as [|c s IH]; [cbn; unfold ch_0; lia|].
  cbn [trim_left0]. destruct (c =? ch_0) eqn:E; [exact IH|].
  apply Z.eqb_neq in E. exact E.
Qed.

Lemma trim_left0_length s : (length (trim_left0 s) <= length s)%nat.
Proof.
  induction s as [|c s IH]; [cbn; lia|]. cbn [trim_left0].
  destruct (c =? ch_0); cbn [length]; lia.
Qed.

Lemma trim_right0_digits s : all_digits (trim_right0 s) = all_digits s.
Proof. unfold trim_right0. rewrite all_digits_rev, trim_left0_digits, all_digits_rev. reflexivity. Qed.

Lemma trim_right0_split s : exists n, s = trim_right0 s ++ repeat ch_0 n.
Proof.
  unfold trim_right0. destruct (trim_left0_split (rev s)) as [n H].
  exists n. assert (rev (rev s) = rev (repeat ch_0 n ++ trim_left0 (rev s))) as E by (f_equal; exact H).
  rewrite rev_involutive, rev_app_distr in E. rewrite E at 1.
  f_equal. clear. induction n as [|n IH]; [reflexivity|].
  cbn [repeat rev]. rewrite IH. clear. induction n; cbn; congruence.
Qed.

Lemma trim_right0_length s : (length (trim_right0 s) <= length s)%nat.
Proof. unfold trim_right0. rewrite rev_length. etransitivity; [apply trim_left0_length|]. rewrite rev_length. lia. Qed.

Lemma trim_right0_last s : trim_right0 s <> [] -> last (trim_right0 s) 0 <> ch_0.
Proof.
  unfold trim_right0. intros H.
  pose proof (trim_left0_hd (rev s)) as Hh.
  destruct (trim_left0 (rev s)) as [|c t] eqn:E; [cbn in H; congruence|].
  cbn [rev]. rewrite last_last. exact Hh.
Qed.

(* value of a fraction: digits, then zeros *)
Lemma dval_pad_right s n : dval (s ++ repeat ch_0 n) = dval s * 10 ^ Z.of_nat n.
Proof. rewrite dval_app, repeat_length, dval_repeat0. lia. Qed.

(* ---------------------------------------------------------------- ParseInt *)

Lemma digit_not_sign c : is_digit c = true -> (c =? ch_plus) || (c =? ch_minus) = false.
Proof.
  intros H. apply is_digit_range in H. unfold ch_plus, ch_minus.
  apply orb_false_iff. split; apply Z.eqb_neq; lia.
Qed.

Lemma parse_int_digits s : s <> [] -> all_digits s = true ->
  parse_int s = if dval s <? 2 ^ 63 then Some (dval s) else None.
Proof.
  intros Hne Hd. destruct s as [|c r]; [congruence|].
  unfold parse_int. pose proof Hd as Hd'. cbn in Hd'. apply andb_true_iff in Hd'. destruct Hd' as [Hc Hr].
  rewrite (digit_not_sign c Hc). cbn [null]. rewrite Hd.
  assert (c =? ch_minus = false) as ->.
  { apply is_digit_range in Hc. apply Z.eqb_neq. unfold ch_minus. lia. }
  reflexivity.
Qed.

Lemma parse_int_nondigits s v : parse_int s = Some v -> all_digits s = false -> has_sign s = true.
Proof.
  destruct s as [|c r]; [discriminate|]. unfold parse_int, has_sign.
  destruct ((c =? ch_plus) || (c =? ch_minus)) eqn:E; [auto|].
  destruct (null (c :: r)); [discriminate|].
  intros H Hd. rewrite Hd in H. discriminate.
Qed.

Lemma has_sign_digits s : all_digits s = true -> has_sign s = false.
Proof.
  destruct s as [|c r]; [reflexivity|]. cbn. intros H. apply andb_true_iff in H. destruct H as [H _].
  apply digit_not_sign. exact H.
Qed.

(* ---------------------------------------------------------------- Split *)

Lemma split_dot_nonempty s : split_dot s <> [].
Proof.
  destruct s as [|c r]; cbn; [congruence|].
  destruct (c =? ch_dot); [congruence|]. destruct (split_dot r); congruence.
Qed.

Lemma split_dot_cut s :
  match cut_dot s with
  | (i, None) => split_dot s = [i] /\ i = s
  | (i, Some r) => split_dot s = i :: split_dot r
  end.
Proof.
  induction s as [|c s IH]; [cbn; auto|].
  cbn [cut_dot split_dot]. destruct (c =? ch_dot) eqn:E.
  - reflexivity.
  - destruct (cut_dot s) as [i [r|]].
    + rewrite IH. reflexivity.
    + destruct IH as [-> ->]. auto.
Qed.

Lemma cut_dot_none_digits s i : cut_dot s = (i, None) -> i = s.
Proof. intros H. pose proof (split_dot_cut s) as P. rewrite H in P. tauto. Qed.

Lemma cut_dot_some_nondigit s i r : cut_dot s = (i, Some r) -> all_digits s = false.
Proof.
  revert i r. induction s as [|c s IH]; intros i r H; [discriminate|].
  cbn in H. destruct (c =? ch_dot) eqn:E.
  - apply Z.eqb_eq in E. subst c. reflexivity.
  - destruct (cut_dot s) as [i' [r'|]] eqn:C; [|discriminate].
    rewrite all_digits_cons, (IH _ _ eq_refl). apply andb_false_r.
Qed.

(* ---------------------------------------------------------------- parse = spec *)

Lemma MaxwellPerMass_val : MaxwellPerMass = 10 ^ 8.
Proof. reflexivity. Qed.

Lemma max_amount_lt : max_amount < 2 ^ 63.
Proof. reflexivity. Qed.

Lemma MaxMass_pos : 0 < MaxMass. Proof. reflexivity. Qed.

(* the integral half: what StringToAmount computes from the text before the dot *)
Definition int_half (t : str) : str :=
  let t0 := trim_left0 t in if null t0 then [ch_0] else t0.

Lemma int_half_digits t : all_digits t = true ->
  int_half t <> [] /\ all_digits (int_half t) = true /\ dval (int_half t) = dval t.
Proof.
  intros H. unfold int_half. destruct (trim_left0 t) as [|c r] eqn:E; cbn [null].
  - split; [congruence|]. split; [reflexivity|].
    rewrite <- (trim_left0_dval t), E. reflexivity.
  - split; [congruence|]. rewrite <- E. split; [rewrite trim_left0_digits; exact H | apply trim_left0_dval].
Qed.

Lemma int_half_nondigits t : all_digits t = false -> all_digits (int_half t) = false.
Proof.
  intros H. unfold int_half. destruct (trim_left0 t) as [|c r] eqn:E; cbn [null].
  - rewrite <- trim_left0_digits, E in H. discriminate.
  - rewrite <- E, trim_left0_digits. exact H.
Qed.

(* the fractional half: trimmed text after the dot, padded to eight characters *)
Lemma frac_half_digits sf : all_digits sf = true -> (length sf <= 8)%nat ->
  let p := sf ++ repeat ch_0 (8 - length sf) in
  p <> [] /\ all_digits p = true /\ dval p = dval sf * 10 ^ (8 - Z.of_nat (length sf)) /\ dval p < 10 ^ 8.
Proof.
  intros H L p. subst p.
  assert (length (sf ++ repeat ch_0 (8 - length sf)) = 8%nat) as Hl by (rewrite app_length, repeat_length; lia).
  split; [intros E; rewrite E in Hl; discriminate|].
  split; [rewrite all_digits_app, H, all_digits_repeat0; reflexivity|].
  split.
  - rewrite dval_pad_right. f_equal. f_equal. lia.
  - pose proof (dval_bounds (sf ++ repeat ch_0 (8 - length sf))) as B.
    rewrite Hl in B. rewrite all_digits_app, H, all_digits_repeat0 in B. specialize (B eq_refl).
    change (Z.of_nat 8) with 8 in B. lia.
Qed.

Definition amount_core (sInt sFrac : str) : option Z :=
  match parse_int sInt with
  | None => None
  | Some i =>
      if (i <? 0) || (MaxMass <? i) then None
      else match parse_int sFrac with
           | None => None
           | Some f =>
               if f <? 0 then None
               else if true && (has_sign sInt || has_sign sFrac) then None
               else let u := MaxwellPerMass * i + f in
                    if max_amount <? u then None else Some u
           end
  end.

Lemma amount_core_digits sInt sFrac :
  sInt <> [] -> all_digits sInt = true -> sFrac <> [] -> all_digits sFrac = true -> dval sFrac < 10 ^ 8 ->
  amount_core sInt sFrac =
    let v := dval sInt * MaxwellPerMass + dval sFrac in
    if max_amount <? v then None else Some v.
Proof.
  intros Hi Di Hf Df Bf. unfold amount_core.
  rewrite (parse_int_digits sInt Hi Di), (parse_int_digits sFrac Hf Df).
  pose proof (dval_bounds sInt Di) as [Bi _]. pose proof (dval_bounds sFrac Df) as [Bf0 _].
  rewrite (has_sign_digits _ Di), (has_sign_digits _ Df). cbn [orb andb].
  pose proof max_amount_lt as ML. pose proof MaxMass_pos as MP.
  assert (max_amount = MaxMass * 10 ^ 8) as MA by reflexivity.
  rewrite MaxwellPerMass_val in *.
  destruct (dval sInt <? 2 ^ 63) eqn:E1; bool_hyps.
  - destruct (dval sInt <? 0) eqn:E2; bool_hyps; [lia|]. cbn [orb].
    destruct (MaxMass <? dval sInt) eqn:E3; bool_hyps.
    + cbn zeta. destruct (max_amount <? dval sInt * 10 ^ 8 + dval sFrac) eqn:E4; bool_hyps; [reflexivity|]. nia.
    + assert (dval sFrac <? 2 ^ 63 = true) as -> by (apply Z.ltb_lt; lia).
      assert (dval sFrac <? 0 = false) as -> by (apply Z.ltb_ge; lia).
      cbn zeta. replace (10 ^ 8 * dval sInt + dval sFrac) with (dval sInt * 10 ^ 8 + dval sFrac) by lia.
      reflexivity.
  - cbn zeta. destruct (max_amount <? dval sInt * 10 ^ 8 + dval sFrac) eqn:E4; bool_hyps; [reflexivity|]. nia.
Qed.

Lemma amount_core_nondigit_int sInt sFrac : all_digits sInt = false -> amount_core sInt sFrac = None.
Proof.
  intros H. unfold amount_core. destruct (parse_int sInt) as [i|] eqn:P; [|reflexivity].
  rewrite (parse_int_nondigits _ _ P H).
  destruct ((i <? 0) || (MaxMass <? i)); [reflexivity|].
  destruct (parse_int sFrac) as [f|]; [|reflexivity]. destruct (f <? 0); reflexivity.
Qed.

Lemma amount_core_nondigit_frac sInt sFrac : all_digits sFrac = false -> amount_core sInt sFrac = None.
Proof.
  intros H. unfold amount_core. destruct (parse_int sInt) as [i|]; [|reflexivity].
  destruct ((i <? 0) || (MaxMass <? i)); [reflexivity|].
  destruct (parse_int sFrac) as [f|] eqn:P; [|reflexivity].
  rewrite (parse_int_nondigits _ _ P H). rewrite orb_true_r.
  destruct (f <? 0); reflexivity.
Qed.

Lemma parse_amount_unfold s :
  parse_amount s =
  let s1 := split_dot s in
  if (2 <? Z.of_nat (length s1)) then None
  else
    let fracr :=
      match tl s1 with
      | f :: _ => let sf := trim_right0 f in
                  if 8 <? Z.of_nat (length sf) then None else Some sf
      | [] => Some []
      end in
    match fracr with
    | None => None
    | Some sf => amount_core (int_half (hd [] s1)) (sf ++ repeat ch_0 (8 - length sf))
    end.
Proof. reflexivity. Qed.

Lemma split_dot_length_none r : snd (cut_dot r) = None -> length (split_dot r) = 1%nat.
Proof.
  intros H. pose proof (split_dot_cut r) as P. destruct (cut_dot r) as [i [x|]]; [discriminate|].
  destruct P as [-> _]. reflexivity.
Qed.

Lemma split_dot_length_some r : snd (cut_dot r) <> None -> (2 <= length (split_dot r))%nat.
Proof.
  intros H. pose proof (split_dot_cut r) as P. destruct (cut_dot r) as [i [x|]]; [|cbn in H; congruence].
  rewrite P. cbn [length]. pose proof (split_dot_nonempty x). destruct (split_dot x); [congruence|cbn; lia].
Qed.

Theorem parse_amount_is_spec : forall s, parse_amount s = spec_parse s.
Proof.
  intros s. rewrite parse_amount_unfold. unfold spec_parse.
  pose proof (split_dot_cut s) as P.
  destruct (cut_dot s) as [i [r|]] eqn:C.
  - (* a dot: i . r *)
    rewrite P. cbn zeta. cbn [hd tl length].
    pose proof (split_dot_cut r) as Pr.
    destruct (cut_dot r) as [j [x|]] eqn:Cr.
    + (* a second dot: rejected on both sides *)
      assert (2 <? Z.of_nat (S (length (split_dot r))) = true) as ->.
      { apply Z.ltb_lt. pose proof (split_dot_length_some r) as L. rewrite Cr in L. cbn in L.
        assert (2 <= length (split_dot r))%nat by (apply L; congruence). lia. }
      rewrite (cut_dot_some_nondigit _ _ _ Cr). rewrite andb_false_r. reflexivity.
    + destruct Pr as [Pr ->]. rewrite Pr. cbn [length].
      assert (2 <? Z.of_nat 2 = false) as -> by reflexivity.
      destruct (all_digits r) eqn:Dr.
      * destruct (8 <? Z.of_nat (length (trim_right0 r))) eqn:L8.
        { destruct (all_digits i); reflexivity. }
        apply Z.ltb_ge in L8.
        destruct (all_digits i) eqn:Di; cbn [andb].
        -- destruct (int_half_digits i Di) as (A1 & A2 & A3).
           assert (all_digits (trim_right0 r) = true) as Dt by (rewrite trim_right0_digits; exact Dr).
           destruct (frac_half_digits (trim_right0 r) Dt ltac:(lia)) as (B1 & B2 & B3 & B4).
           rewrite amount_core_digits by assumption.
           cbn zeta. rewrite A3, B3. reflexivity.
        -- apply amount_core_nondigit_int. apply int_half_nondigits. exact Di.
      * rewrite andb_false_r.
        destruct (8 <? Z.of_nat (length (trim_right0 r))); [reflexivity|].
        apply amount_core_nondigit_frac. rewrite all_digits_app.
        rewrite trim_right0_digits, Dr. reflexivity.
  - (* no dot *)
    destruct P as [P ->]. rewrite P. cbn zeta. cbn [hd tl length].
    assert (2 <? Z.of_nat 1 = false) as -> by reflexivity.
    cbn [app length Nat.sub]. cbn [all_digits forallb]. rewrite andb_true_r.
    destruct (all_digits s) eqn:Ds.
    + destruct (int_half_digits s Ds) as (A1 & A2 & A3).
      rewrite amount_core_digits; try assumption; try reflexivity; try discriminate.
      cbn zeta. rewrite A3. unfold trim_right0. cbn. rewrite Z.add_0_r. reflexivity.
    + apply amount_core_nondigit_int. apply int_half_nondigits. exact Ds.
Qed.

(* the code as first found accepted sign characters: the statement above is false of it *)
Theorem parse_amount_unfixed_refuted :
  exists s, parse_amount_unfixed s <> spec_parse s /\ spec_parse s = None.
Proof. exists [43; 49]. vm_compute. split; [discriminate | reflexivity]. Qed.

(* ---------------------------------------------------------------- decimal rendering *)

Definition no_lead0 (s : str) : Prop := s <> [] /\ (hd 0 s = ch_0 -> s = [ch_0]).

Lemma dec_aux_spec : forall fuel n acc, (0 < fuel)%nat -> 0 <= n < 10 ^ Z.of_nat fuel ->
  exists ds, dec_aux fuel n acc = ds ++ acc /\ all_digits ds = true /\ dval ds = n /\
             ds <> [] /\ (n = 0 -> ds = [ch_0]) /\ (0 < n -> hd 0 ds <> ch_0).
Proof.
  induction fuel as [|f IH]; intros n acc Hf Hn; [lia|].
  cbn [dec_aux]. destruct (n <? 10) eqn:E; bool_hyps.
  - exists [48 + n mod 10]. rewrite Z.mod_small by lia.
    split; [reflexivity|]. split; [apply all_digits_single; lia|].
    split; [unfold dval; cbn [fold_left]; lia|]. split; [congruence|]. split; [intros ->; reflexivity|]. cbn [hd]. unfold ch_0. lia.
  - assert (0 < f)%nat as Hf'.
    { destruct f; [|lia]. cbn in Hn. lia. }
    assert (0 <= n / 10 < 10 ^ Z.of_nat f) as Hq.
    { rewrite Nat2Z.inj_succ, Z.pow_succ_r in Hn by lia. split; [apply Z.div_pos; lia|].
      apply Z.div_lt_upper_bound; lia. }
    destruct (IH (n / 10) ((48 + n mod 10) :: acc) Hf' Hq) as (ds & E1 & E2 & E3 & E4 & E5 & E6).
    exists (ds ++ [48 + n mod 10]). rewrite <- app_assoc. split; [exact E1|].
    pose proof (Z.mod_pos_bound n 10 ltac:(lia)) as Bm.
    split; [rewrite all_digits_app, E2, all_digits_single by lia; reflexivity|].
    split; [rewrite dval_app, E3; cbn [length]; unfold dval; cbn [fold_left]; change (10 ^ Z.of_nat 1) with 10;
            pose proof (Z.div_mod n 10 ltac:(lia)); lia|].
    split; [destruct ds; cbn; congruence|].
    split; [lia|]. intros _.
    assert (0 < n / 10) as Hq0 by (apply Z.div_str_pos; lia).
    specialize (E6 Hq0). destruct ds; [congruence|]. exact E6.
Qed.

Lemma dec_spec n : 0 <= n < 10 ^ 40 ->
  all_digits (dec n) = true /\ dval (dec n) = n /\ no_lead0 (dec n) /\ (0 < n -> hd 0 (dec n) <> ch_0).
Proof.
  intros H. unfold dec. destruct (dec_aux_spec 40 n [] ltac:(lia) H) as (ds & E1 & E2 & E3 & E4 & E5 & E6).
  rewrite app_nil_r in E1. rewrite E1. split; [assumption|]. split; [assumption|]. split; [|assumption].
  split; [assumption|]. intros Hh. destruct (Z.eq_dec n 0) as [->|Hn]; [auto|].
  exfalso. apply E6; [lia|assumption].
Qed.

(* a digit string without leading zero is long exactly as its value requires *)
Lemma no_lead0_lower s : all_digits s = true -> s <> [] -> hd 0 s <> ch_0 ->
  10 ^ (Z.of_nat (length s) - 1) <= dval s.
Proof.
  destruct s as [|c r]; [congruence|]. intros H _ Hh. cbn in Hh.
  cbn in H. apply andb_true_iff in H. destruct H as [Hc Hr]. apply is_digit_range in Hc.
  rewrite dval_cons. pose proof (dval_bounds r Hr). cbn [length].
  replace (Z.of_nat (S (length r)) - 1) with (Z.of_nat (length r)) by lia.
  unfold ch_0 in Hh. nia.
Qed.

Lemma pow10_mono a b : 0 <= a -> 10 ^ a <= 10 ^ b -> 0 <= b -> a <= b.
Proof.
  intros Ha H Hb. destruct (Z_le_gt_dec a b); [assumption|].
  assert (10 ^ b < 10 ^ a) by (apply Z.pow_lt_mono_r; lia). lia.
Qed.

Lemma dec_shortest n s : 0 <= n < 10 ^ 40 -> all_digits s = true -> s <> [] -> dval s = n ->
  (length (dec n) <= length s)%nat.
Proof.
  intros Hn Ds Hs Hv. destruct (dec_spec n Hn) as (D1 & D2 & (D3 & D3') & D4).
  destruct (Z.eq_dec n 0) as [->|Hz].
  - destruct (dec 0) as [|c r] eqn:E; [congruence|]. vm_compute in E. injection E as <- <-.
    destruct s; [congruence|cbn; lia].
  - specialize (D4 ltac:(lia)).
    pose proof (no_lead0_lower (dec n) D1 D3 D4) as L.
    pose proof (dval_bounds s Ds) as U. rewrite D2 in L. rewrite Hv in U.
    assert (0 < length (dec n))%nat by (destruct (dec n); [congruence|cbn; lia]).
    assert (Z.of_nat (length (dec n)) - 1 < Z.of_nat (length s)).
    { destruct (Z_lt_ge_dec (Z.of_nat (length (dec n)) - 1) (Z.of_nat (length s))); [assumption|].
      assert (10 ^ Z.of_nat (length s) <= 10 ^ (Z.of_nat (length (dec n)) - 1)) by (apply Z.pow_le_mono_r; lia).
      lia. }
    lia.
Qed.

(* ---------------------------------------------------------------- format = canon *)

Lemma firstn_skipn_len (s : str) k : (k <= length s)%nat ->
  length (firstn k s) = k /\ length (skipn k s) = (length s - k)%nat.
Proof. intros H. rewrite firstn_length, skipn_length. lia. Qed.

Lemma pad8_spec r : 0 <= r < 10 ^ 8 ->
  length (pad8 (dec r)) = 8%nat /\ all_digits (pad8 (dec r)) = true /\ dval (pad8 (dec r)) = r.
Proof.
  intros H. destruct (dec_spec r ltac:(lia)) as (D1 & D2 & (D3 & _) & D4).
  assert (length (dec r) <= 8)%nat as L.
  { destruct (Z.eq_dec r 0) as [->|Hz]; [vm_compute; lia|].
    specialize (D4 ltac:(lia)). pose proof (no_lead0_lower _ D1 D3 D4) as Lw. rewrite D2 in Lw.
    assert (Z.of_nat (length (dec r)) - 1 < 8).
    { destruct (Z_lt_ge_dec (Z.of_nat (length (dec r)) - 1) 8); [assumption|].
      assert (10 ^ 8 <= 10 ^ (Z.of_nat (length (dec r)) - 1)) by (apply Z.pow_le_mono_r; lia). lia. }
    lia. }
  unfold pad8. split; [rewrite app_length, repeat_length; lia|].
  split; [rewrite all_digits_app, all_digits_repeat0, D1; reflexivity|].
  rewrite dval_app, dval_repeat0, D2. lia.
Qed.

Lemma trim_right0_null_iff s : all_digits s = true -> (trim_right0 s = [] <-> dval s = 0).
Proof.
  intros H. destruct (trim_right0_split s) as [n E]. split.
  - intros T. rewrite T in E. cbn in E. rewrite E. apply dval_repeat0.
  - intros V. destruct (trim_right0 s) as [|c t] eqn:T; [reflexivity|]. exfalso.
    assert (trim_right0 s <> []) as Ne by (rewrite T; congruence).
    pose proof (trim_right0_last s Ne) as La. rewrite T in La.
    assert (all_digits (c :: t) = true) as Dt by (rewrite <- T, trim_right0_digits; exact H).
    (* the last character of c::t is a non-zero digit, so the value is non-zero *)
    destruct (exists_last (l := c :: t) ltac:(congruence)) as (pre & z & Ez).
    rewrite Ez in La, Dt. rewrite last_last in La.
    rewrite all_digits_app in Dt. apply andb_true_iff in Dt. destruct Dt as [Dp Dz].
    cbn in Dz. rewrite andb_true_r in Dz. apply is_digit_range in Dz.
    rewrite E, Ez in V. rewrite dval_pad_right, dval_app in V. cbn [length] in V.
    pose proof (dval_bounds pre Dp). unfold ch_0 in La.
    assert (0 < 10 ^ Z.of_nat n) by (apply Z.pow_pos_nonneg; lia).
    change (dval [z]) with (0 * 10 + (z - 48)) in V.
    assert (dval pre * 10 ^ Z.of_nat 1 + (0 * 10 + (z - 48)) = 0) by nia.
    change (10 ^ Z.of_nat 1) with 10 in *. lia.
Qed.

Theorem format_amount_is_canon n : 0 <= n <= max_amount -> format_amount n = Some (canon n).
Proof.
  intros Hn. unfold format_amount, canon.
  assert (max_amount = MaxMass * 10 ^ 8) as MA by reflexivity.
  assert (max_amount < 10 ^ 17) as MB by reflexivity.
  assert (max_amount <? n = false) as -> by (apply Z.ltb_ge; lia).
  assert (n <? 0 = false) as -> by (apply Z.ltb_ge; lia).
  rewrite MaxwellPerMass_val.
  set (q := n / 10 ^ 8). set (r := n mod 10 ^ 8).
  assert (n = q * 10 ^ 8 + r /\ 0 <= r < 10 ^ 8 /\ 0 <= q) as (En & Br & Bq).
  { subst q r. pose proof (Z.div_mod n (10 ^ 8) ltac:(lia)). pose proof (Z.mod_pos_bound n (10 ^ 8) ltac:(lia)).
    split; [lia|]. split; [assumption|]. apply Z.div_pos; lia. }
  set (s := dec (n + 10 ^ 8)).
  destruct (dec_spec (n + 10 ^ 8) ltac:(lia)) as (D1 & D2 & (D3 & _) & D4). fold s in D1, D2, D3, D4.
  specialize (D4 ltac:(lia)).
  assert (9 <= length s)%nat as L9.
  { pose proof (dval_bounds s D1) as B. rewrite D2 in B.
    destruct (le_lt_dec 9 (length s)); [assumption|].
    assert (10 ^ Z.of_nat (length s) <= 10 ^ 8) by (apply Z.pow_le_mono_r; lia). lia. }
  set (k := (length s - 8)%nat).
  destruct (firstn_skipn_len s k ltac:(lia)) as [Lf Ls].
  pose proof (firstn_skipn k s) as Es.
  assert (all_digits (firstn k s) = true /\ all_digits (skipn k s) = true) as [Df Dk].
  { rewrite <- Es, all_digits_app in D1. apply andb_true_iff in D1. exact D1. }
  assert (length (skipn k s) = 8%nat) as Ls8 by lia.
  assert (dval (firstn k s) = q + 1 /\ dval (skipn k s) = r) as [Vf Vk].
  { pose proof D2 as V. rewrite <- Es, dval_app, Ls8 in V.
    pose proof (dval_bounds _ Dk) as Bk. rewrite Ls8 in Bk. pose proof (dval_bounds _ Df) as [Bf _].
    change (Z.of_nat 8) with 8 in *. nia. }
  assert (firstn k s <> []) as Nf by (intros E; rewrite E in Lf; cbn [length] in Lf; unfold k in Lf; lia).
  rewrite (parse_int_digits _ Nf Df), Vf.
  assert (q + 1 <? 2 ^ 63 = true) as -> by (apply Z.ltb_lt; nia).
  replace (q + 1 - 1) with q by lia.
  destruct (pad8_spec r Br) as (P1 & P2 & P3).
  assert (skipn k s = pad8 (dec r)) as Ek.
  { apply dval_inj_len; try assumption; lia. }
  rewrite Ek.
  pose proof (trim_right0_null_iff (pad8 (dec r)) P2) as T. rewrite P3 in T.
  destruct (r =? 0) eqn:Er; bool_hyps.
  - destruct T as [_ T]. rewrite (T Er). reflexivity.
  - destruct (trim_right0 (pad8 (dec r))) as [|c t] eqn:Et.
    + exfalso. apply Er. apply T. reflexivity.
    + reflexivity.
Qed.

Theorem format_amount_rejects n : n < 0 \/ max_amount < n -> format_amount n = None.
Proof.
  intros H. unfold format_amount. destruct (max_amount <? n) eqn:E; [reflexivity|]. bool_hyps.
  assert (n <? 0 = true) as -> by (apply Z.ltb_lt; lia). reflexivity.
Qed.

(* ---------------------------------------------------------------- canon is read back, and is shortest *)

Lemma cut_dot_app_digits i rest : all_digits i = true ->
  cut_dot (i ++ ch_dot :: rest) = (i, Some rest).
Proof.
  induction i as [|c i IH]; intros H.
  - reflexivity.
  - cbn in H. apply andb_true_iff in H. destruct H as [Hc Hi]. apply is_digit_range in Hc.
    cbn [app cut_dot]. assert (c =? ch_dot = false) as -> by (apply Z.eqb_neq; unfold ch_dot; lia).
    rewrite (IH Hi). reflexivity.
Qed.

Lemma cut_dot_digits i : all_digits i = true -> cut_dot i = (i, None).
Proof.
  induction i as [|c i IH]; intros H; [reflexivity|].
  cbn in H. apply andb_true_iff in H. destruct H as [Hc Hi]. apply is_digit_range in Hc.
  cbn [cut_dot]. assert (c =? ch_dot = false) as -> by (apply Z.eqb_neq; unfold ch_dot; lia).
  rewrite (IH Hi). reflexivity.
Qed.

Lemma trim_right0_idem s : trim_right0 (trim_right0 s) = trim_right0 s.
Proof.
  unfold trim_right0. rewrite rev_involutive. f_equal.
  generalize (rev s). clear. intros l. induction l as [|c l IH]; [reflexivity|].
  cbn [trim_left0]. destruct (c =? ch_0) eqn:E; [exact IH|]. cbn [trim_left0]. rewrite E. reflexivity.
Qed.

(* value of a trimmed fraction, scaled to eight places *)
Lemma frac_value s : all_digits s = true -> length s = 8%nat ->
  dval (trim_right0 s) * 10 ^ (8 - Z.of_nat (length (trim_right0 s))) = dval s.
Proof.
  intros D L. destruct (trim_right0_split s) as [n E].
  assert (length s = (length (trim_right0 s) + n)%nat) as Ln by (rewrite E at 1; rewrite app_length, repeat_length; reflexivity).
  rewrite E at 3. rewrite dval_pad_right. f_equal. f_equal. lia.
Qed.

Theorem spec_parse_canon n : 0 <= n <= max_amount -> spec_parse (canon n) = Some n.
Proof.
  intros Hn. unfold canon. rewrite MaxwellPerMass_val.
  assert (max_amount < 10 ^ 17) as MB by reflexivity.
  set (q := n / 10 ^ 8). set (r := n mod 10 ^ 8).
  assert (n = q * 10 ^ 8 + r /\ 0 <= r < 10 ^ 8 /\ 0 <= q) as (En & Br & Bq).
  { subst q r. pose proof (Z.div_mod n (10 ^ 8) ltac:(lia)). pose proof (Z.mod_pos_bound n (10 ^ 8) ltac:(lia)).
    split; [lia|]. split; [assumption|]. apply Z.div_pos; lia. }
  destruct (dec_spec q ltac:(nia)) as (Q1 & Q2 & _ & _).
  destruct (pad8_spec r Br) as (P1 & P2 & P3).
  unfold spec_parse. destruct (r =? 0) eqn:Er; bool_hyps.
  - rewrite (cut_dot_digits _ Q1). rewrite Q1. cbn [all_digits forallb andb].
    unfold trim_right0. cbn [rev trim_left0 length]. cbn [Z.of_nat]. assert (8 <? 0 = false) as -> by reflexivity.
    rewrite Q2, MaxwellPerMass_val. change (dval []) with 0.
    replace (q * 10 ^ 8 + 0 * 10 ^ (8 - 0)) with n by lia.
    assert (max_amount <? n = false) as -> by (apply Z.ltb_ge; lia). reflexivity.
  - cbn [app]. rewrite (cut_dot_app_digits _ _ Q1). rewrite Q1, trim_right0_digits, P2. cbn [andb].
    rewrite trim_right0_idem.
    pose proof (trim_right0_length (pad8 (dec r))) as TL. rewrite P1 in TL.
    assert (8 <? Z.of_nat (length (trim_right0 (pad8 (dec r)))) = false) as -> by (apply Z.ltb_ge; lia).
    rewrite (frac_value _ P2 P1), P3, Q2, MaxwellPerMass_val.
    replace (q * 10 ^ 8 + r) with n by lia.
    assert (max_amount <? n = false) as -> by (apply Z.ltb_ge; lia). reflexivity.
Qed.

Theorem parse_format_roundtrip n : 0 <= n <= max_amount ->
  exists s, format_amount n = Some s /\ parse_amount s = Some n.
Proof.
  intros H. exists (canon n). split; [apply format_amount_is_canon; exact H|].
  rewrite parse_amount_is_spec. apply spec_parse_canon. exact H.
Qed.

(* what spec_parse accepts, as a grammar (Prop form of the boolean definition) *)
Theorem spec_parse_grammar s v :
  spec_parse s = Some v <->
  exists i f, (s = i \/ s = i ++ ch_dot :: f) /\ (s = i -> f = []) /\
              all_digits i = true /\ all_digits f = true /\
              (length (trim_right0 f) <= 8)%nat /\
              v = dval i * MaxwellPerMass + dval (trim_right0 f) * 10 ^ (8 - Z.of_nat (length (trim_right0 f))) /\
              v <= max_amount.
Proof.
  split.
  - unfold spec_parse. pose proof (split_dot_cut s) as P.
    destruct (cut_dot s) as [i [f|]] eqn:C.
    + intros H. destruct (all_digits i && all_digits f) eqn:D; [|discriminate]. bool_hyps.
      destruct (8 <? Z.of_nat (length (trim_right0 f))) eqn:L; [discriminate|]. bool_hyps.
      match type of H with (if ?c then _ else _) = _ => destruct c eqn:M end; [discriminate|]. bool_hyps.
      injection H as <-. exists i, f.
      assert (s = i ++ ch_dot :: f) as Es.
      { clear - C. revert i f C. induction s as [|c s IH]; intros i f C; [discriminate|].
        cbn in C. destruct (c =? ch_dot) eqn:E.
        - injection C as <- <-. apply Z.eqb_eq in E. subst c. reflexivity.
        - destruct (cut_dot s) as [i' [f'|]] eqn:C'; [|discriminate]. injection C as <- <-.
          cbn. f_equal. apply IH. reflexivity. }
      split; [right; exact Es|]. split.
      { intros E. exfalso. rewrite E in Es at 1. apply (f_equal (@length Z)) in Es. rewrite app_length in Es. cbn in Es. lia. }
      repeat split; try assumption; lia.
    + destruct P as [_ ->]. intros H. rewrite andb_true_r in H. destruct (all_digits s) eqn:D; [|discriminate].
      change (trim_right0 []) with (@nil Z) in H. cbn [length Z.of_nat] in H.
      assert (8 <? 0 = false) as E8 by reflexivity. rewrite E8 in H.
      match type of H with (if ?c then _ else _) = _ => destruct c eqn:M end; [discriminate|]. bool_hyps.
      injection H as <-. exists s, []. repeat split; auto. cbn; lia.
  - intros (i & f & Hs & Hf & Di & Df & L & -> & M).
    unfold spec_parse. destruct Hs as [E|E].
    + specialize (Hf E). subst f. subst i. rewrite (cut_dot_digits _ Di). rewrite Di. cbn [all_digits forallb andb].
      change (trim_right0 []) with (@nil Z) in *. cbn [length Z.of_nat] in *.
      assert (8 <? 0 = false) as -> by reflexivity.
      match goal with |- (if ?c then _ else _) = _ => destruct c eqn:M' end; [bool_hyps; lia|reflexivity].
    + subst s. rewrite (cut_dot_app_digits _ _ Di). rewrite Di, Df. cbn [andb].
      assert (8 <? Z.of_nat (length (trim_right0 f)) = false) as -> by (apply Z.ltb_ge; lia).
      match goal with |- (if ?c then _ else _) = _ => destruct c eqn:M' end; [bool_hyps; lia|reflexivity].
Qed.

(* shortest: any accepted numeral of the same value that has an integer part is at least as long *)
Theorem canon_shortest s n :
  spec_parse s = Some n -> fst (cut_dot s) <> [] -> (length (canon n) <= length s)%nat.
Proof.
  intros H Hi. pose proof H as G. apply spec_parse_grammar in G.
  destruct G as (i & f & Hs & Hf & Di & Df & L & Ev & M).
  rewrite MaxwellPerMass_val in Ev.
  assert (max_amount < 10 ^ 17) as MB by reflexivity.
  assert (fst (cut_dot s) = i) as Ei.
  { destruct Hs as [E|E]; subst s; [rewrite (cut_dot_digits _ Di)|rewrite (cut_dot_app_digits _ _ Di)]; reflexivity. }
  rewrite Ei in Hi.
  set (t := trim_right0 f) in *.
  assert (all_digits t = true) as Dt by (subst t; rewrite trim_right0_digits; exact Df).
  pose proof (dval_bounds i Di) as [Bi _]. pose proof (dval_bounds t Dt) as Bt.
  assert (0 <= dval t * 10 ^ (8 - Z.of_nat (length t)) < 10 ^ 8) as Bfr.
  { assert (0 < 10 ^ (8 - Z.of_nat (length t))) by (apply Z.pow_pos_nonneg; lia).
    split; [nia|].
    replace (10 ^ 8) with (10 ^ Z.of_nat (length t) * 10 ^ (8 - Z.of_nat (length t)))
      by (rewrite <- Z.pow_add_r by lia; f_equal; lia). nia. }
  assert (n / 10 ^ 8 = dval i /\ n mod 10 ^ 8 = dval t * 10 ^ (8 - Z.of_nat (length t))) as [Eq Er].
  { split; symmetry.
    - apply Z.div_unique with (r := dval t * 10 ^ (8 - Z.of_nat (length t))); [left; lia | lia].
    - apply Z.mod_unique with (q := dval i); [left; lia | lia]. }
  assert (0 <= n) as Hn0 by nia.
  unfold canon. rewrite MaxwellPerMass_val, Eq, Er.
  assert (0 <= dval i < 10 ^ 40) as Bq by nia.
  pose proof (dec_shortest (dval i) i Bq Di Hi eq_refl) as Lq.
  destruct (dval t * 10 ^ (8 - Z.of_nat (length t)) =? 0) eqn:Ez; bool_hyps.
  - destruct Hs as [E|E]; subst s; [lia|rewrite app_length; lia].
  - (* the fraction is non-zero, so s carries a dot and a fraction at least as long as the trimmed one *)
    destruct Hs as [E|E].
    { specialize (Hf E). subst f. subst t. change (trim_right0 []) with (@nil Z) in Ez. cbn in Ez. lia. }
    subst s. rewrite !app_length. cbn [length].
    set (r := dval t * 10 ^ (8 - Z.of_nat (length t))) in *.
    destruct (pad8_spec r Bfr) as (P1 & P2 & P3).
    (* pad8 (dec r) = t ++ zeros, hence trims to t *)
    assert (pad8 (dec r) = t ++ repeat ch_0 (8 - length t)) as Ep.
    { apply dval_inj_len; auto.
      - rewrite all_digits_app, Dt, all_digits_repeat0. reflexivity.
      - rewrite app_length, repeat_length. lia.
      - rewrite dval_pad_right, P3. subst r. f_equal. f_equal. lia. }
    assert (length (trim_right0 (pad8 (dec r))) <= length t)%nat as Lt.
    { rewrite Ep. destruct (trim_right0_split (t ++ repeat ch_0 (8 - length t))) as [m Em].
      (* trimming t ++ zeros gives a prefix of t because t itself ends in a non-zero digit or is empty *)
      assert (trim_right0 (t ++ repeat ch_0 (8 - length t)) = t) as ->; [|lia].
      subst t. unfold trim_right0. rewrite rev_app_distr.
      assert (forall k l, trim_left0 (rev (repeat ch_0 k) ++ l) = trim_left0 l) as Z0.
      { clear. induction k as [|k IH]; intros l; [reflexivity|].
        cbn [repeat rev]. rewrite <- app_assoc. rewrite IH. cbn. reflexivity. }
      rewrite Z0. rewrite rev_involutive.
      assert (forall l, trim_left0 (trim_left0 l) = trim_left0 l) as Idem.
      { clear. induction l as [|c l IH]; [reflexivity|]. cbn [trim_left0].
        destruct (c =? ch_0) eqn:E; [exact IH|]. cbn [trim_left0]. rewrite E. reflexivity. }
      rewrite Idem. reflexivity. }
    pose proof (trim_right0_length f). fold t in H0. lia.
Qed.
