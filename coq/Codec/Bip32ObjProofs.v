(* Codec/Bip32ObjProofs.v — the key objects of Codec/Bip32Obj.v behave like the values of
   Codec/Bip32.v as long as no two objects share a buffer.
     Part A  lists, the heap
     Part B  the separation invariant [sep], the memo invariant [memo_ok]; the three primitive
             transitions (allocation of a key object, memoisation, zeroing): invariants, frame
     Part C  Child / Neuter (copying) / Zero / String / pubKeyBytes: invariants, frame, result values
     Part D  reachable heaps
     Part E  scripts: the object interpreter computes what the value interpreter computes
     Part F  the as-found Neuter (sharing): closed counterexamples *)
From Coq Require Import List ZArith Bool Lia Arith.
Import ListNotations.
Require Import MW.Codec.Bip32 MW.Codec.Bip32Proofs MW.Codec.Bip32Obj.
Local Open Scope nat_scope.

(* ================================================================== Part A *)
Lemma upd_length {A} (l : list A) n x : length (upd l n x) = length l.
Proof. revert n; induction l as [|y l IH]; intros [|n]; cbn [upd length]; auto. Qed.

Lemma upd_oob {A} (l : list A) n x : length l <= n -> upd l n x = l.
Proof.
  revert n; induction l as [|y l IH]; intros [|n] H; cbn [upd length] in *; auto; try lia.
  f_equal. apply IH. lia.
Qed.

Lemma nth_upd_same {A} (l : list A) n x d : n < length l -> nth n (upd l n x) d = x.
Proof.
  revert n; induction l as [|y l IH]; intros [|n] H; cbn [upd length nth] in *; auto; try lia.
  apply IH. lia.
Qed.

Lemma nth_upd_other {A} (l : list A) n m x d : m <> n -> nth m (upd l n x) d = nth m l d.
Proof.
  revert n m; induction l as [|y l IH]; intros [|n] [|m] H; cbn [upd nth]; auto; try lia.
Qed.

Lemma nth_error_upd_same {A} (l : list A) n x y : nth_error (upd l n x) n = Some y -> y = x.
Proof.
  revert n; induction l as [|y' l IH]; intros [|n] H; cbn [upd nth_error] in H; try discriminate.
  - congruence.
  - eauto.
Qed.

Lemma nth_error_upd_other {A} (l : list A) n m x : m <> n -> nth_error (upd l n x) m = nth_error l m.
Proof.
  revert n m; induction l as [|y l IH]; intros [|n] [|m] H; cbn [upd nth_error]; auto; try lia.
Qed.

Lemma nth_error_upd_inv {A} (l : list A) n m x y :
  nth_error (upd l n x) m = Some y -> (m = n /\ y = x) \/ (m <> n /\ nth_error l m = Some y).
Proof.
  intros H. destruct (Nat.eq_dec m n) as [->|Hne].
  - left. split; [reflexivity|]. eapply nth_error_upd_same; eauto.
  - right. split; [assumption|]. rewrite nth_error_upd_other in H; assumption.
Qed.

Lemma nth_error_snoc_inv {A} (l : list A) m x y :
  nth_error (l ++ [x]) m = Some y -> (m < length l /\ nth_error l m = Some y) \/ (m = length l /\ y = x).
Proof.
  intros H. destruct (lt_dec m (length l)) as [Hlt|Hge].
  - left. rewrite nth_error_app1 in H; auto.
  - right. rewrite nth_error_app2 in H by lia.
    destruct (m - length l) as [|k] eqn:E; cbn [nth_error] in H.
    + split; [lia|congruence].
    + destruct k; discriminate.
Qed.

Lemma nth_snoc_old {A} (l : list A) m x d : m < length l -> nth m (l ++ [x]) d = nth m l d.
Proof. intros H. apply app_nth1; assumption. Qed.

Lemma nth_snoc_new {A} (l : list A) x d : nth (length l) (l ++ [x]) d = x.
Proof. rewrite app_nth2 by lia. rewrite Nat.sub_diag. reflexivity. Qed.

Lemma NoDup_app_r {A} (l l' : list A) : NoDup (l ++ l') -> NoDup l'.
Proof. induction l as [|x l IH]; cbn [app]; intros H; [assumption|]. inversion H; auto. Qed.

(* ---- the heap *)
Lemma zeros_length b : length (zeros b) = length b.
Proof. unfold zeros. apply repeat_length. Qed.

Lemma zeros_zeros b : zeros (zeros b) = zeros b.
Proof. unfold zeros. rewrite repeat_length. reflexivity. Qed.

Lemma hget_oob (h : heap) id : length h <= id -> hget h id = [].
Proof. intros H. unfold hget. apply nth_overflow; assumption. Qed.

Lemma hget_app_old (h e : heap) id : id < length h -> hget (h ++ e) id = hget h id.
Proof. intros H. unfold hget. apply app_nth1; assumption. Qed.

Lemma hget_app_new (h e : heap) k : hget (h ++ e) (length h + k) = hget e k.
Proof. unfold hget. rewrite app_nth2 by lia. f_equal. lia. Qed.

Lemma hwipe_length h x : length (hwipe h x) = length h.
Proof. unfold hwipe. apply upd_length. Qed.

Lemma hget_hwipe h x id :
  hget (hwipe h x) id = if Nat.eqb id x then zeros (hget h id) else hget h id.
Proof.
  destruct (Nat.eqb id x) eqn:E.
  - apply Nat.eqb_eq in E. subst id. unfold hwipe.
    destruct (lt_dec x (length h)) as [Hlt|Hge].
    + unfold hget at 1. apply nth_upd_same; assumption.
    + rewrite upd_oob by lia. rewrite hget_oob by lia. reflexivity.
  - apply Nat.eqb_neq in E. unfold hwipe, hget. apply nth_upd_other; assumption.
Qed.

Lemma wipe_list_length ids : forall h, length (wipe_list h ids) = length h.
Proof.
  unfold wipe_list. induction ids as [|x r IH]; intros h; cbn [fold_left]; auto.
  rewrite IH. apply hwipe_length.
Qed.

Lemma hget_wipe_list ids : forall h id,
  hget (wipe_list h ids) id = if existsb (Nat.eqb id) ids then zeros (hget h id) else hget h id.
Proof.
  unfold wipe_list. induction ids as [|x r IH]; intros h id; cbn [fold_left existsb]; auto.
  rewrite IH, hget_hwipe.
  destruct (Nat.eqb id x); destruct (existsb (Nat.eqb id) r); cbn [orb]; auto using zeros_zeros.
Qed.

Lemma existsb_eqb_In id ids : existsb (Nat.eqb id) ids = true <-> In id ids.
Proof.
  rewrite existsb_exists. split.
  - intros [x [Hin E]]. apply Nat.eqb_eq in E. subst. assumption.
  - intros H. exists id. split; [assumption|apply Nat.eqb_refl].
Qed.

Lemma hget_wipe_in h ids id : In id ids -> hget (wipe_list h ids) id = zeros (hget h id).
Proof.
  intros H. rewrite hget_wipe_list. apply existsb_eqb_In in H. rewrite H. reflexivity.
Qed.

Lemma hget_wipe_out h ids id : ~ In id ids -> hget (wipe_list h ids) id = hget h id.
Proof.
  intros H. rewrite hget_wipe_list.
  destruct (existsb (Nat.eqb id) ids) eqn:E; [|reflexivity].
  apply existsb_eqb_In in E. contradiction.
Qed.

(* ---- observations depend on the heap through the buffers of the object only *)
Definition agree (h h' : heap) (ids : list nat) : Prop := forall id, In id ids -> hget h' id = hget h id.

Lemma in_bufs_key o id : ob_key o = Some id -> In id (bufs o).
Proof. intros H. unfold bufs. rewrite H. cbn. auto. Qed.
Lemma in_bufs_pub o id : ob_pub o = Some id -> In id (bufs o).
Proof. intros H. unfold bufs. rewrite H. apply in_or_app. right. cbn. auto. Qed.
Lemma in_bufs_chain o : In (ob_chain o) (bufs o).
Proof. unfold bufs. apply in_or_app. right. apply in_or_app. right. cbn. auto. Qed.
Lemma in_bufs_fp o : In (ob_fp o) (bufs o).
Proof. unfold bufs. apply in_or_app. right. apply in_or_app. right. cbn. auto. Qed.

Lemma obs_agree h h' o : agree h h' (bufs o) -> obs h' o = obs h o.
Proof.
  intros H. unfold obs.
  rewrite (H _ (in_bufs_chain o)), (H _ (in_bufs_fp o)).
  destruct (ob_key o) as [k|] eqn:E; cbn [hget_opt]; [|reflexivity].
  rewrite (H _ (in_bufs_key o k E)). reflexivity.
Qed.

Lemma agree_app h e ids : (forall id, In id ids -> id < length h) -> agree h (h ++ e) ids.
Proof. intros H id Hin. apply hget_app_old. auto. Qed.

(* ================================================================== Part B *)
(* every object of the table is live: a zeroed key still points to its (zero) chainCode, parentFP and
   pubKey arrays *)
Definition sep (st : state) : Prop :=
  (forall a o id, nth_error (objs_of st) a = Some o -> In id (bufs o) -> id < length (heap_of st)) /\
  (forall a o, nth_error (objs_of st) a = Some o -> NoDup (bufs o)) /\
  (forall a b oa ob id, nth_error (objs_of st) a = Some oa -> nth_error (objs_of st) b = Some ob ->
     a <> b -> In id (bufs oa) -> ~ In id (bufs ob)).

Lemma oget_nth_error st a : a < length (objs_of st) -> nth_error (objs_of st) a = Some (oget st a).
Proof. intros H. unfold oget. apply nth_error_nth'. assumption. Qed.

Lemma nth_error_oget st a o : nth_error (objs_of st) a = Some o -> oget st a = o.
Proof. intros H. unfold oget. apply nth_error_nth. assumption. Qed.

Lemma nth_error_lt {A} (l : list A) n x : nth_error l n = Some x -> n < length l.
Proof. intros H. apply nth_error_Some. congruence. Qed.

(* a new object on buffers allocated after everything that exists *)
Lemma sep_new st h' o :
  sep st -> length (heap_of st) <= length h' ->
  (forall id, In id (bufs o) -> length (heap_of st) <= id < length h') -> NoDup (bufs o) ->
  sep (mkSt h' (objs_of st ++ [o])).
Proof.
  intros (Hb & Hn & Hd) Hlen Hfresh Hnd. unfold sep. cbn [heap_of objs_of]. repeat split.
  - intros a o' id Ha Hin. apply nth_error_snoc_inv in Ha. destruct Ha as [[_ Ha]|[_ ->]].
    + specialize (Hb _ _ _ Ha Hin). lia.
    + apply Hfresh in Hin. lia.
  - intros a o' Ha. apply nth_error_snoc_inv in Ha. destruct Ha as [[_ Ha]|[_ ->]]; eauto.
  - intros a b oa ob id Ha Hb' Hab Hina Hinb.
    apply nth_error_snoc_inv in Ha. apply nth_error_snoc_inv in Hb'.
    destruct Ha as [[_ Ha]|[Ea ->]]; destruct Hb' as [[_ Hb']|[Eb ->]].
    + exact (Hd _ _ _ _ _ Ha Hb' Hab Hina Hinb).
    + specialize (Hb _ _ _ Ha Hina). apply Hfresh in Hinb. lia.
    + specialize (Hb _ _ _ Hb' Hinb). apply Hfresh in Hina. lia.
    + lia.
Qed.

(* an object of the table replaced by one that points to some of its old buffers and to new ones *)
Lemma sep_upd st h' a o o' :
  sep st -> nth_error (objs_of st) a = Some o -> length (heap_of st) <= length h' ->
  (forall id, In id (bufs o') -> In id (bufs o) \/ length (heap_of st) <= id < length h') ->
  NoDup (bufs o') ->
  sep (mkSt h' (upd (objs_of st) a o')).
Proof.
  intros (Hb & Hn & Hd) Ho Hlen Hsub Hnd. unfold sep. cbn [heap_of objs_of]. repeat split.
  - intros b ob id Hb' Hin. apply nth_error_upd_inv in Hb'. destruct Hb' as [[-> ->]|[_ Hb']].
    + destruct (Hsub _ Hin) as [Hold|Hnew]; [|lia]. specialize (Hb _ _ _ Ho Hold). lia.
    + specialize (Hb _ _ _ Hb' Hin). lia.
  - intros b ob Hb'. apply nth_error_upd_inv in Hb'. destruct Hb' as [[-> ->]|[_ Hb']]; eauto.
  - intros b c ob oc id Hb' Hc Hbc Hinb Hinc.
    apply nth_error_upd_inv in Hb'. apply nth_error_upd_inv in Hc.
    destruct Hb' as [[-> ->]|[Hba Hb']]; destruct Hc as [[-> ->]|[Hca Hc]].
    + lia.
    + destruct (Hsub _ Hinb) as [Hold|Hnew].
      * exact (Hd _ _ _ _ _ Ho Hc Hbc Hold Hinc).
      * specialize (Hb _ _ _ Hc Hinc). lia.
    + destruct (Hsub _ Hinc) as [Hold|Hnew].
      * exact (Hd _ _ _ _ _ Hb' Ho Hbc Hinb Hold).
      * specialize (Hb _ _ _ Hb' Hinb). lia.
    + exact (Hd _ _ _ _ _ Hb' Hc Hbc Hinb Hinc).
Qed.

(* [st'] extends [st]: the objects of [st] are still there and read the same *)
Definition ext (st st' : state) : Prop :=
  length (objs_of st) <= length (objs_of st') /\
  forall b, b < length (objs_of st) -> obs_at st' b = obs_at st b.

Lemma ext_refl st : ext st st.
Proof. split; auto. Qed.

Lemma ext_trans st1 st2 st3 : ext st1 st2 -> ext st2 st3 -> ext st1 st3.
Proof.
  intros [L1 O1] [L2 O2]. split; [lia|]. intros b Hb. rewrite O2 by lia. apply O1. assumption.
Qed.

Lemma sep_bound st a id : sep st -> a < length (objs_of st) -> In id (bufs (oget st a)) -> id < length (heap_of st).
Proof. intros (Hb & _) Ha Hin. eapply Hb; [apply oget_nth_error; eassumption|assumption]. Qed.

Lemma obs_app_old st a e : sep st -> a < length (objs_of st) ->
  obs (heap_of st ++ e) (oget st a) = obs (heap_of st) (oget st a).
Proof.
  intros Hs Ha. apply obs_agree, agree_app. intros id Hin. eapply sep_bound; eassumption.
Qed.

(* ---- T1: NewExtendedKey on fresh slices *)
Lemma new_obj_id st k : snd (new_obj st k) = length (objs_of st).
Proof. reflexivity. Qed.

Lemma new_obj_len st k : length (objs_of (fst (new_obj st k))) = S (length (objs_of st)).
Proof. unfold new_obj. cbn [fst objs_of]. rewrite app_length. cbn [length]. lia. Qed.

Lemma NoDup3 n : NoDup [n; S n; S (S n)].
Proof.
  repeat constructor; cbn [In]; intros H; repeat (destruct H as [H|H]; try lia); auto.
Qed.

Lemma new_obj_sep st k : sep st -> sep (fst (new_obj st k)).
Proof.
  intros Hs. unfold new_obj. cbn [fst]. apply sep_new; auto.
  - rewrite app_length. lia.
  - intros id Hin. rewrite app_length. cbn [bufs opt_list ob_key ob_pub ob_chain ob_fp app length In] in *.
    repeat (destruct Hin as [Hin|Hin]; try lia).
  - cbn [bufs opt_list ob_key ob_pub ob_chain ob_fp app]. apply NoDup3.
Qed.

Lemma new_obj_ext st k : sep st -> ext st (fst (new_obj st k)).
Proof.
  intros Hs. split; [rewrite new_obj_len; lia|].
  intros b Hb. unfold obs_at, oget, new_obj. cbn [fst heap_of objs_of].
  rewrite nth_snoc_old by assumption. apply obs_app_old; assumption.
Qed.

Lemma hget3 (h : heap) x y z :
  hget (h ++ [x; y; z]) (length h) = x /\ hget (h ++ [x; y; z]) (S (length h)) = y /\
  hget (h ++ [x; y; z]) (S (S (length h))) = z.
Proof.
  unfold hget. repeat split; rewrite app_nth2 by lia.
  - replace (length h - length h) with 0 by lia. reflexivity.
  - replace (S (length h) - length h) with 1 by lia. reflexivity.
  - replace (S (S (length h)) - length h) with 2 by lia. reflexivity.
Qed.

Lemma new_obj_obs st k : obs_at (fst (new_obj st k)) (length (objs_of st)) = k.
Proof.
  unfold obs_at, oget, new_obj. cbn [fst heap_of objs_of]. rewrite nth_snoc_new.
  unfold obs. cbn [ob_key ob_pub ob_chain ob_fp ob_depth ob_num ob_version ob_priv hget_opt].
  destruct (hget3 (heap_of st) (ek_key k) (ek_chain k) (ek_fp k)) as (-> & -> & ->).
  destruct k; reflexivity.
Qed.

Lemma init_state_obs f : obs_at (init_state f) 0 = f.
Proof. unfold init_state. apply (new_obj_obs (mkSt [] []) f). Qed.

Lemma sep_empty : sep (mkSt [] []).
Proof.
  unfold sep. cbn [objs_of]. repeat split.
  - intros a o id H. destruct a; discriminate.
  - intros a o H. destruct a; discriminate.
  - intros a b oa ob id H. destruct a; discriminate.
Qed.

Lemma init_state_sep f : sep (init_state f).
Proof. unfold init_state. apply new_obj_sep, sep_empty. Qed.

Lemma init_state_len f : length (objs_of (init_state f)) = 1.
Proof. reflexivity. Qed.

(* ---- T3: Zero *)
Lemma o_zero_len st a : length (objs_of (o_zero st a)) = length (objs_of st).
Proof. unfold o_zero. cbn [objs_of]. apply upd_length. Qed.

Lemma o_zero_sep st a : sep st -> a < length (objs_of st) -> sep (o_zero st a).
Proof.
  intros Hs Ha. unfold o_zero. eapply sep_upd; [assumption|apply oget_nth_error; assumption| | |].
  - rewrite wipe_list_length. lia.
  - intros id Hin. left. unfold bufs in *. cbn [ob_key ob_pub ob_chain ob_fp opt_list app] in Hin.
    apply in_or_app. right. exact Hin.
  - destruct Hs as (_ & Hn & _). specialize (Hn _ _ (oget_nth_error _ _ Ha)).
    unfold bufs in *. cbn [ob_key ob_pub ob_chain ob_fp opt_list app].
    eapply NoDup_app_r. exact Hn.
Qed.

(* frame: zeroing a key leaves every other key as it was *)
Lemma o_zero_frame st a b :
  sep st -> a < length (objs_of st) -> b < length (objs_of st) -> b <> a ->
  obs_at (o_zero st a) b = obs_at st b.
Proof.
  intros Hs Ha Hb Hne. unfold obs_at, o_zero, oget. cbn [heap_of objs_of].
  rewrite nth_upd_other by assumption. apply obs_agree. intros id Hin.
  apply hget_wipe_out. destruct Hs as (_ & _ & Hd).
  exact (Hd b a _ _ id (oget_nth_error _ _ Hb) (oget_nth_error _ _ Ha) Hne Hin).
Qed.

(* the zeroed key itself reads as the zeroed value *)
Lemma o_zero_self st a : a < length (objs_of st) -> obs_at (o_zero st a) a = v_zero (obs_at st a).
Proof.
  intros Ha. unfold obs_at, o_zero, oget. cbn [heap_of objs_of].
  rewrite nth_upd_same by assumption. unfold obs, v_zero.
  cbn [ob_key ob_pub ob_chain ob_fp ob_depth ob_num ob_version ob_priv hget_opt ek_chain ek_fp].
  rewrite (hget_wipe_in _ _ _ (in_bufs_chain _)), (hget_wipe_in _ _ _ (in_bufs_fp _)). reflexivity.
Qed.

Lemma v_zero_idem k : v_zero (v_zero k) = v_zero k.
Proof. unfold v_zero. cbn [ek_chain ek_fp]. rewrite !zeros_zeros. reflexivity. Qed.

Lemma NoDup_bufs_set_pub o n :
  NoDup (bufs o) -> (forall id, In id (bufs o) -> id < n) -> NoDup (bufs (set_pub o (Some n))).
Proof.
  unfold bufs, set_pub. cbn [ob_key ob_pub ob_chain ob_fp].
  destruct (ob_key o) as [k|]; destruct (ob_pub o) as [p|]; cbn [opt_list app]; intros Hnd Hlt.
  - assert (k < n /\ ob_chain o < n /\ ob_fp o < n) as (H1 & H2 & H3)
      by (repeat split; apply Hlt; cbn [In]; auto).
    repeat rewrite NoDup_cons_iff in *. cbn [In] in *. intuition lia.
  - assert (k < n /\ ob_chain o < n /\ ob_fp o < n) as (H1 & H2 & H3)
      by (repeat split; apply Hlt; cbn [In]; auto).
    repeat rewrite NoDup_cons_iff in *. cbn [In] in *. intuition lia.
  - assert (ob_chain o < n /\ ob_fp o < n) as (H2 & H3)
      by (repeat split; apply Hlt; cbn [In]; auto).
    repeat rewrite NoDup_cons_iff in *. cbn [In] in *. intuition lia.
  - assert (ob_chain o < n /\ ob_fp o < n) as (H2 & H3)
      by (repeat split; apply Hlt; cbn [In]; auto).
    repeat rewrite NoDup_cons_iff in *. cbn [In] in *. intuition lia.
Qed.

Lemma in_bufs_set_pub o n id : In id (bufs (set_pub o (Some n))) -> In id (bufs o) \/ id = n.
Proof.
  unfold bufs, set_pub. cbn [ob_key ob_pub ob_chain ob_fp opt_list]. intros H.
  apply in_app_or in H. destruct H as [H|H].
  - left. apply in_or_app. left. exact H.
  - apply in_app_or in H. destruct H as [H|H].
    + right. cbn [In] in H. destruct H as [H|[]]. auto.
    + left. apply in_or_app. right. apply in_or_app. right. exact H.
Qed.

Lemma obs_set_pub h o p : obs h (set_pub o p) = obs h o.
Proof. reflexivity. Qed.

Section Prims.
  Variable hmac512 : bytes -> bytes -> bytes.
  Variable point : Type.
  Variable smulG : Z -> point.
  Variable padd : point -> point -> point.
  Variable ser_P : point -> bytes.
  Variable parse_pub : bytes -> option point.
  Variable coord_zero : point -> bool.
  Variable hash160 : bytes -> bytes.
  Variable dsha256 : bytes -> bytes.
  Variable b58enc : bytes -> bytes.

  Local Notation child := (child hmac512 point smulG padd ser_P parse_pub coord_zero hash160).
  Local Notation neuter := (neuter point smulG ser_P).
  Local Notation to_string := (to_string point smulG ser_P dsha256 b58enc).
  Local Notation pub_key_bytes := (pub_key_bytes point smulG ser_P).
  Local Notation o_memo := (o_memo point smulG ser_P).
  Local Notation o_pubkey := (o_pubkey point smulG ser_P).
  Local Notation o_child := (o_child hmac512 point smulG padd ser_P parse_pub coord_zero hash160).
  Local Notation o_neuter := (o_neuter point smulG ser_P).
  Local Notation o_string := (o_string point smulG ser_P dsha256 b58enc).

  (* the memoised public key of a private key is the public key of the stored private key: reading the
     memo (the code) and recomputing it (the value function) give the same bytes *)
  Definition memo_ok (st : state) : Prop :=
    forall a o id, nth_error (objs_of st) a = Some o -> ob_priv o = true -> ob_pub o = Some id ->
      hget (heap_of st) id = pub_key_bytes (obs (heap_of st) o).

  Lemma memo_ok_empty : memo_ok (mkSt [] []).
  Proof. intros a o id H. destruct a; discriminate. Qed.

  Lemma new_obj_memo_ok st k : sep st -> memo_ok st -> memo_ok (fst (new_obj st k)).
  Proof.
    intros Hs Hm a o id Ha Hp Hpub. unfold new_obj in *. cbn [fst heap_of objs_of] in *.
    apply nth_error_snoc_inv in Ha. destruct Ha as [[Hlt Ha]|[_ ->]]; [|discriminate].
    pose proof (nth_error_oget _ _ _ Ha) as Eo. subst o.
    rewrite obs_app_old by assumption.
    rewrite hget_app_old by (eapply sep_bound; eauto using in_bufs_pub).
    eapply Hm; eassumption.
  Qed.

  (* ---- T2: pubKeyBytes memoises *)
  Lemma o_memo_len st a : length (objs_of (o_memo st a)) = length (objs_of st).
  Proof.
    unfold Bip32Obj.o_memo. destruct (memo_needed _ _); cbn [objs_of]; auto using upd_length.
  Qed.

  Lemma o_memo_sep st a : sep st -> a < length (objs_of st) -> sep (o_memo st a).
  Proof.
    intros Hs Ha. unfold Bip32Obj.o_memo. destruct (memo_needed _ _); [|assumption].
    eapply sep_upd; [assumption|apply oget_nth_error; assumption| | |].
    - rewrite app_length. lia.
    - intros id Hin. apply in_bufs_set_pub in Hin. destruct Hin as [Hin| ->]; [left; assumption|right].
      rewrite app_length. cbn [length]. lia.
    - apply NoDup_bufs_set_pub.
      + destruct Hs as (_ & Hn & _). eapply Hn. apply oget_nth_error. assumption.
      + intros id Hin. eapply sep_bound; eassumption.
  Qed.

  (* the memoisation is not observable: every key, the memoising one included, reads as before *)
  Lemma o_memo_ext st a : sep st -> a < length (objs_of st) -> ext st (o_memo st a).
  Proof.
    intros Hs Ha. unfold Bip32Obj.o_memo. destruct (memo_needed _ _); [|apply ext_refl].
    split; [cbn [objs_of]; rewrite upd_length; lia|].
    intros b Hb. unfold obs_at at 1. unfold oget. cbn [heap_of objs_of].
    destruct (Nat.eq_dec b a) as [->|Hne].
    - rewrite nth_upd_same by assumption. rewrite obs_set_pub. apply obs_app_old; assumption.
    - rewrite nth_upd_other by assumption. apply obs_app_old; assumption.
  Qed.

  Lemma o_memo_memo_ok st a : sep st -> memo_ok st -> a < length (objs_of st) -> memo_ok (o_memo st a).
  Proof.
    intros Hs Hm Ha. unfold Bip32Obj.o_memo. destruct (memo_needed _ _); [|assumption].
    intros b ob id Hb Hp Hpub. cbn [heap_of objs_of] in *.
    apply nth_error_upd_inv in Hb. destruct Hb as [[-> ->]|[Hne Hb]].
    - cbn [set_pub ob_pub] in Hpub. injection Hpub as <-.
      rewrite obs_set_pub, obs_app_old by assumption.
      unfold hget. rewrite app_nth2 by lia. rewrite Nat.sub_diag. reflexivity.
    - pose proof (nth_error_lt _ _ _ Hb) as Hlt. pose proof (nth_error_oget _ _ _ Hb) as Eo. subst ob.
      rewrite obs_app_old by assumption.
      rewrite hget_app_old by (eapply sep_bound; eauto using in_bufs_pub).
      eapply Hm; eassumption.
  Qed.

  (* what pubKeyBytes returns (a buffer content) is what the value function computes *)
  Lemma o_memo_read st a : sep st -> memo_ok st -> a < length (objs_of st) ->
    pub_read (o_memo st a) a = pub_key_bytes (obs_at st a).
  Proof.
    intros Hs Hm Ha. unfold Bip32Obj.o_memo. destruct (memo_needed _ _) eqn:E.
    - unfold memo_needed in E. apply andb_true_iff in E. destruct E as [Ep _].
      unfold pub_read, oget. cbn [heap_of objs_of]. rewrite nth_upd_same by assumption.
      cbn [set_pub ob_priv ob_pub]. fold (oget st a). rewrite Ep. cbn [hget_opt].
      unfold hget. rewrite app_nth2 by lia. rewrite Nat.sub_diag. reflexivity.
    - unfold pub_read, obs_at. unfold memo_needed in E.
      destruct (ob_priv (oget st a)) eqn:Ep; cbn [andb] in E.
      + destruct (ob_pub (oget st a)) as [id|] eqn:Epub; [|discriminate]. cbn [hget_opt].
        eapply Hm; eauto using oget_nth_error.
      + unfold Bip32.pub_key_bytes, obs. cbn [ek_priv ek_key]. rewrite Ep. reflexivity.
  Qed.

  Lemma o_zero_memo_ok st a : sep st -> memo_ok st -> a < length (objs_of st) -> memo_ok (o_zero st a).
  Proof.
    intros Hs Hm Ha b ob id Hb Hp Hpub. unfold o_zero in *. cbn [heap_of objs_of] in *.
    apply nth_error_upd_inv in Hb. destruct Hb as [[-> ->]|[Hne Hb]]; [discriminate|].
    assert (Hag : agree (heap_of st) (wipe_list (heap_of st) (bufs (oget st a))) (bufs ob)).
    { intros x Hin. apply hget_wipe_out. destruct Hs as (_ & _ & Hd).
      exact (Hd b a _ _ x Hb (oget_nth_error _ _ Ha) Hne Hin). }
    rewrite (obs_agree _ _ _ Hag). rewrite (Hag _ (in_bufs_pub _ _ Hpub)). eapply Hm; eassumption.
  Qed.

  Definition inv (st : state) : Prop := sep st /\ memo_ok st.

  Lemma inv_init f : inv (init_state f).
  Proof.
    split; [apply init_state_sep|]. unfold init_state.
    apply new_obj_memo_ok; [apply sep_empty|apply memo_ok_empty].
  Qed.

  (* ================================================================ Part C *)
  Lemma memo_if_spec (c : bool) st a :
    inv st -> a < length (objs_of st) ->
    let s1 := if c then o_memo st a else st in
    inv s1 /\ ext st s1 /\ length (objs_of s1) = length (objs_of st).
  Proof.
    intros [Hs Hm] Ha. destruct c; cbn zeta.
    - split; [split; [apply o_memo_sep|apply o_memo_memo_ok]; assumption|].
      split; [apply o_memo_ext; assumption|apply o_memo_len].
    - split; [split; assumption|]. split; [apply ext_refl|reflexivity].
  Qed.

  (* ---- Child: a new object that reads as the value [child] computes from what the parent reads;
     nothing that existed reads differently (the parent's memoisation included) *)
  Lemma o_child_spec st a i st' r :
    inv st -> a < length (objs_of st) -> o_child st a i = (st', r) ->
    inv st' /\ ext st st' /\
    match r with
    | Ok c => c = length (objs_of st) /\ length (objs_of st') = S c /\
              child (obs_at st a) i = Ok (obs_at st' c)
    | Err e => child (obs_at st a) i = Err e /\ length (objs_of st') = length (objs_of st)
    end.
  Proof.
    intros Hi Ha. unfold Bip32Obj.o_child.
    destruct (child (obs_at st a) i) as [c|e] eqn:E; cbn [is_ok].
    - match goal with |- context [new_obj ?s1 c] => set (st1 := s1) end.
      destruct (memo_if_spec (negb (ek_depth (obs_at st a) =? max_uint8)%Z &&
                              (negb (hardened_start <=? i)%Z || true)) st a Hi Ha) as ([Hs1 Hm1] & Hx1 & Hl1).
      fold st1 in Hs1, Hm1, Hx1, Hl1.
      destruct (new_obj st1 c) as [st2 id] eqn:En. intros H. injection H as <- <-.
      assert (E2 : st2 = fst (new_obj st1 c)) by (rewrite En; reflexivity).
      assert (Eid : id = length (objs_of st1)) by (change id with (snd (st2, id)); rewrite <- En; reflexivity).
      subst st2 id. refine (conj (conj _ _) (conj (conj _ _) (conj _ (conj _ _)))).
      + apply new_obj_sep; assumption.
      + apply new_obj_memo_ok; assumption.
      + destruct Hx1 as [L1 _]. pose proof (new_obj_len st1 c). lia.
      + intros b Hb. destruct (new_obj_ext st1 c Hs1) as [_ O2]. rewrite O2 by lia. apply Hx1. assumption.
      + assumption.
      + rewrite new_obj_len. lia.
      + rewrite new_obj_obs. reflexivity.
    - match goal with |- (?s1, _) = _ -> _ => set (st1 := s1) end.
      destruct (memo_if_spec (negb (ek_depth (obs_at st a) =? max_uint8)%Z &&
                              (negb (hardened_start <=? i)%Z || false)) st a Hi Ha) as (Hi1 & Hx1 & Hl1).
      fold st1 in Hi1, Hx1, Hl1. intros H. injection H as <- <-. auto.
  Qed.

  Lemma neuter_key k n : neuter k = Ok n -> ek_priv k = true -> ek_key n = pub_key_bytes k.
  Proof.
    unfold Bip32.neuter. intros H Hp. rewrite Hp in H. cbn [negb] in H.
    destruct (hd_priv_to_pub (ek_version k)); [|discriminate]. injection H as <-. reflexivity.
  Qed.

  Lemma neuter_pub k n : neuter k = Ok n -> ek_priv k = false -> n = k.
  Proof. unfold Bip32.neuter. intros H Hp. rewrite Hp in H. cbn [negb] in H. congruence. Qed.

  Lemma set_key_same n : set_key n (ek_key n) = n.
  Proof. destruct n; reflexivity. Qed.

  (* ---- Neuter as repaired: the same object for a public key, otherwise a new object on its own
     buffers that reads as the value [neuter] computes *)
  Lemma o_neuter_spec st a st' r :
    inv st -> a < length (objs_of st) -> o_neuter true st a = (st', r) ->
    inv st' /\ ext st st' /\
    match r with
    | Ok c => neuter (obs_at st a) = Ok (obs_at st' c) /\
              ((c = a /\ ek_priv (obs_at st a) = false /\ st' = st) \/
               (c = length (objs_of st) /\ length (objs_of st') = S c /\ ek_priv (obs_at st a) = true))
    | Err e => neuter (obs_at st a) = Err e /\ st' = st
    end.
  Proof.
    intros Hi Ha. unfold Bip32Obj.o_neuter.
    destruct (neuter (obs_at st a)) as [n|e] eqn:E.
    - destruct (ek_priv (obs_at st a)) eqn:Ep; cbn [negb].
      + destruct Hi as [Hs Hm].
        pose proof (o_memo_sep st a Hs Ha) as Hs1. pose proof (o_memo_memo_ok st a Hs Hm Ha) as Hm1.
        pose proof (o_memo_ext st a Hs Ha) as Hx1. pose proof (o_memo_len st a) as Hl1.
        rewrite (o_memo_read st a Hs Hm Ha), <- (neuter_key _ _ E Ep), set_key_same.
        set (st1 := o_memo st a) in *.
        destruct (new_obj st1 n) as [st2 id] eqn:En. intros H. injection H as <- <-.
        assert (E2 : st2 = fst (new_obj st1 n)) by (rewrite En; reflexivity).
        assert (Eid : id = length (objs_of st1)) by (change id with (snd (st2, id)); rewrite <- En; reflexivity).
        subst st2 id. refine (conj (conj _ _) (conj (conj _ _) (conj _ _))).
        * apply new_obj_sep; assumption.
        * apply new_obj_memo_ok; assumption.
        * pose proof (new_obj_len st1 n). lia.
        * intros b Hb. destruct (new_obj_ext st1 n Hs1) as [_ O2]. rewrite O2 by lia. apply Hx1. assumption.
        * rewrite new_obj_obs. reflexivity.
        * right. split; [assumption|]. split; [|reflexivity]. rewrite new_obj_len. lia.
      + intros H. injection H as <- <-. split; [assumption|]. split; [apply ext_refl|].
        split; [|left; auto]. rewrite (neuter_pub _ _ E Ep). reflexivity.
    - intros H. injection H as <- <-. split; [assumption|]. split; [apply ext_refl|]. split; reflexivity.
  Qed.

  (* ---- Zero *)
  Lemma o_zero_inv st a : inv st -> a < length (objs_of st) -> inv (o_zero st a).
  Proof. intros [Hs Hm] Ha. split; [apply o_zero_sep|apply o_zero_memo_ok]; assumption. Qed.

  (* ---- String: reads only *)
  Lemma o_string_state st a : fst (o_string st a) = st.
  Proof. reflexivity. Qed.

  (* ---- pubKeyBytes *)
  Lemma o_pubkey_spec st a :
    inv st -> a < length (objs_of st) ->
    inv (fst (o_pubkey st a)) /\ ext st (fst (o_pubkey st a)) /\
    snd (o_pubkey st a) = pub_key_bytes (obs_at st a).
  Proof.
    intros [Hs Hm] Ha. unfold Bip32Obj.o_pubkey. cbn [fst snd].
    refine (conj (conj _ _) (conj _ _)).
    - apply o_memo_sep; assumption.
    - apply o_memo_memo_ok; assumption.
    - apply o_memo_ext; assumption.
    - apply o_memo_read; assumption.
  Qed.

  (* ---- frame, from separation alone: whatever is done to key a (Child, the copying Neuter, String,
     pubKeyBytes), every key of the table — a included — reads as before *)
  Lemma sep_memo_if (c : bool) st a : sep st -> a < length (objs_of st) ->
    let s1 := if c then o_memo st a else st in
    sep s1 /\ ext st s1 /\ length (objs_of s1) = length (objs_of st).
  Proof.
    intros Hs Ha. destruct c; cbn zeta.
    - split; [apply o_memo_sep; assumption|]. split; [apply o_memo_ext; assumption|apply o_memo_len].
    - split; [assumption|]. split; [apply ext_refl|reflexivity].
  Qed.

  Lemma o_child_sep_frame st a i :
    sep st -> a < length (objs_of st) ->
    sep (fst (o_child st a i)) /\ ext st (fst (o_child st a i)).
  Proof.
    intros Hs Ha. unfold Bip32Obj.o_child.
    destruct (child (obs_at st a) i) as [c|e]; cbn [is_ok].
    - match goal with |- context [new_obj ?s1 c] => set (st1 := s1) end.
      destruct (sep_memo_if (negb (ek_depth (obs_at st a) =? max_uint8)%Z &&
                             (negb (hardened_start <=? i)%Z || true)) st a Hs Ha) as (Hs1 & Hx1 & Hl1).
      fold st1 in Hs1, Hx1, Hl1.
      destruct (new_obj st1 c) as [st2 id] eqn:En. cbn [fst].
      assert (E2 : st2 = fst (new_obj st1 c)) by (rewrite En; reflexivity). subst st2.
      split; [apply new_obj_sep; assumption|]. eapply ext_trans; [eassumption|apply new_obj_ext; assumption].
    - cbn [fst].
      destruct (sep_memo_if (negb (ek_depth (obs_at st a) =? max_uint8)%Z &&
                             (negb (hardened_start <=? i)%Z || false)) st a Hs Ha) as (Hs1 & Hx1 & Hl1).
      split; assumption.
  Qed.

  Lemma o_neuter_sep_frame st a :
    sep st -> a < length (objs_of st) ->
    sep (fst (o_neuter true st a)) /\ ext st (fst (o_neuter true st a)).
  Proof.
    intros Hs Ha. unfold Bip32Obj.o_neuter.
    destruct (neuter (obs_at st a)) as [n|e]; [|cbn [fst]; split; [assumption|apply ext_refl]].
    destruct (negb (ek_priv (obs_at st a))); [cbn [fst]; split; [assumption|apply ext_refl]|].
    match goal with |- context [new_obj ?s1 ?k] => set (st1 := s1); set (kk := k) end.
    destruct (new_obj st1 kk) as [st2 id] eqn:En. cbn [fst].
    assert (E2 : st2 = fst (new_obj st1 kk)) by (rewrite En; reflexivity). subst st2.
    pose proof (o_memo_sep st a Hs Ha) as Hs1. fold st1 in Hs1.
    split; [apply new_obj_sep; assumption|].
    eapply ext_trans; [apply o_memo_ext; eassumption|apply new_obj_ext; assumption].
  Qed.

  (* ================================================================ Part D *)
  (* every heap the code can build: keys created from field values on fresh slices (NewExtendedKey as
     the harness calls it, NewMaster, NewKeyFromString), then any sequence of Child / Neuter (copying)
     / Zero / String / pubKeyBytes on keys of the table *)
  Inductive reachable : state -> Prop :=
  | R_empty : reachable (mkSt [] [])
  | R_new st f : reachable st -> reachable (fst (new_obj st f))
  | R_child st a i : reachable st -> a < length (objs_of st) -> reachable (fst (o_child st a i))
  | R_neuter st a : reachable st -> a < length (objs_of st) -> reachable (fst (o_neuter true st a))
  | R_zero st a : reachable st -> a < length (objs_of st) -> reachable (o_zero st a)
  | R_string st a : reachable st -> a < length (objs_of st) -> reachable (fst (o_string st a))
  | R_pubkey st a : reachable st -> a < length (objs_of st) -> reachable (fst (o_pubkey st a)).

  Theorem reachable_inv st : reachable st -> sep st /\ memo_ok st.
  Proof.
    induction 1 as [|st f _ [Hs Hm]|st a i _ IH Ha|st a _ IH Ha|st a _ IH Ha|st a _ IH Ha|st a _ IH Ha].
    - split; [apply sep_empty|apply memo_ok_empty].
    - split; [apply new_obj_sep|apply new_obj_memo_ok]; assumption.
    - destruct (o_child st a i) as [st' r] eqn:E. exact (proj1 (o_child_spec _ _ _ _ _ IH Ha E)).
    - destruct (o_neuter true st a) as [st' r] eqn:E. exact (proj1 (o_neuter_spec _ _ _ _ IH Ha E)).
    - apply o_zero_inv; assumption.
    - exact IH.
    - exact (proj1 (o_pubkey_spec _ _ IH Ha)).
  Qed.

  (* ================================================================ Part E *)
  Local Notation step := (step hmac512 point smulG padd ser_P parse_pub coord_zero hash160 dsha256 b58enc).
  Local Notation run_ops := (run_ops hmac512 point smulG padd ser_P parse_pub coord_zero hash160 dsha256 b58enc).
  Local Notation run_script := (run_script hmac512 point smulG padd ser_P parse_pub coord_zero hash160 dsha256 b58enc).
  Local Notation vstep := (vstep hmac512 point smulG padd ser_P parse_pub coord_zero hash160).
  Local Notation val_script := (val_script hmac512 point smulG padd ser_P parse_pub coord_zero hash160).

  (* the object interpreter's B against the value interpreter's B *)
  Definition Bmatch (st : state) (iB : option (Outcome nat)) (vB : option (Outcome ExtendedKey)) (same : bool) : Prop :=
    match iB, vB with
    | None, None => True
    | Some (Err e), Some (Err e') => e = e'
    | Some (Ok b), Some (Ok kb) => b < length (objs_of st) /\ obs_at st b = kb /\ (b = 0 <-> same = true)
    | _, _ => False
    end.

  Definition sim (s : istate) (v : vstate) : Prop :=
    inv (i_st s) /\ 0 < length (objs_of (i_st s)) /\ obs_at (i_st s) 0 = v_P v /\
    Bmatch (i_st s) (i_B s) (v_B v) (v_same v).

  Lemma Bmatch_ext st st' iB vB same : ext st st' -> Bmatch st iB vB same -> Bmatch st' iB vB same.
  Proof.
    intros [L O]. unfold Bmatch. destruct iB as [[b|e]|]; destruct vB as [[kb|e']|]; auto.
    intros (Hb & Ho & Hs). split; [lia|]. split; [|assumption]. rewrite O; assumption.
  Qed.

  Lemma sim_ext s v st' : sim s v -> inv st' -> ext (i_st s) st' -> sim (with_st s st') v.
  Proof.
    intros (Hi & H0 & HP & HB) Hi' Hx. unfold sim, with_st. cbn [i_st i_B].
    split; [assumption|]. split; [destruct Hx; lia|].
    split; [destruct Hx as [_ O]; rewrite O; assumption|].
    eapply Bmatch_ext; eassumption.
  Qed.

  (* derive a key from key a, zero the derived key: nothing that existed reads differently *)
  Lemma derive_zero_child st a j st1 r :
    inv st -> a < length (objs_of st) -> o_child st a j = (st1, r) ->
    inv (zero_result st1 r) /\ ext st (zero_result st1 r).
  Proof.
    intros Hi Ha E. destruct (o_child_spec _ _ _ _ _ Hi Ha E) as (Hi1 & Hx1 & Hr).
    destruct r as [c|e]; cbn [zero_result]; [|split; assumption].
    destruct Hr as (Ec & Hl & _). split; [apply o_zero_inv; [assumption|lia]|].
    split; [rewrite o_zero_len; destruct Hx1; lia|].
    intros b Hb. rewrite o_zero_frame; [apply Hx1; assumption|apply Hi1|lia|lia|lia].
  Qed.

  Lemma derive_zero_neuter st a st1 r :
    inv st -> a < length (objs_of st) -> o_neuter true st a = (st1, r) ->
    inv (zero_unless a st1 r) /\ ext st (zero_unless a st1 r).
  Proof.
    intros Hi Ha E. destruct (o_neuter_spec _ _ _ _ Hi Ha E) as (Hi1 & Hx1 & Hr).
    destruct r as [c|e]; cbn [zero_unless]; [|split; assumption].
    destruct (Nat.eqb c a) eqn:Eca; [split; assumption|]. apply Nat.eqb_neq in Eca.
    destruct Hr as (_ & [(Hc & _)|(Ec & Hl & _)]); [contradiction|].
    split; [apply o_zero_inv; [assumption|lia]|].
    split; [rewrite o_zero_len; destruct Hx1; lia|].
    intros b Hb. rewrite o_zero_frame; [apply Hx1; assumption|apply Hi1|lia|lia|lia].
  Qed.

  Lemma sim_step neu i s v o : sim s v -> sim (step true neu i s o) (vstep neu i v o).
  Proof.
    intros Hsim. pose proof Hsim as (Hi & H0 & HP & HB).
    destruct o as [|j|j| |k| | |]; cbn [Bip32Obj.step Bip32Obj.vstep].
    - (* B *)
      destruct neu.
      + destruct (o_neuter true (i_st s) P_id) as [st1 r] eqn:E.
        destruct (o_neuter_spec _ _ _ _ Hi H0 E) as (Hi1 & Hx1 & Hr).
        unfold sim. cbn [i_st i_B v_P v_B v_same andb]. split; [assumption|].
        split; [destruct Hx1; lia|]. split; [destruct Hx1 as [_ O]; rewrite O; assumption|].
        unfold P_id in *. rewrite <- HP. unfold Bmatch.
        destruct r as [c|e].
        * destruct Hr as (Hn & [(Hc & Hp & ->)|(Ec & Hl & Hp)]); rewrite Hn, Hp; cbn [negb].
          -- subst c. split; [assumption|]. split; [reflexivity|]. split; auto.
          -- split; [lia|]. split; [reflexivity|]. split; [lia|discriminate].
        * destruct Hr as (-> & _). reflexivity.
      + destruct (o_child (i_st s) P_id i) as [st1 r] eqn:E.
        destruct (o_child_spec _ _ _ _ _ Hi H0 E) as (Hi1 & Hx1 & Hr).
        unfold sim. cbn [i_st i_B v_P v_B v_same andb]. split; [assumption|].
        split; [destruct Hx1; lia|]. split; [destruct Hx1 as [_ O]; rewrite O; assumption|].
        unfold P_id in *. rewrite <- HP. unfold Bmatch.
        destruct r as [c|e].
        * destruct Hr as (Ec & Hl & ->). split; [lia|]. split; [reflexivity|]. split; [lia|discriminate].
        * destruct Hr as (-> & _). reflexivity.
    - (* a<j> *)
      destruct (i_pz s); [assumption|].
      destruct (o_child (i_st s) P_id j) as [st1 r] eqn:E.
      destruct (derive_zero_child _ _ _ _ _ Hi H0 E) as [Hi2 Hx2]. apply sim_ext; assumption.
    - (* u<j> *)
      destruct (i_pz s); [assumption|].
      destruct (o_child (i_st s) P_id j) as [st1 r] eqn:E.
      destruct (o_child_spec _ _ _ _ _ Hi H0 E) as (Hi1 & Hx1 & _).
      destruct r as [c|e]; cbn [Bip32Obj.o_string fst]; apply sim_ext; assumption.
    - (* n *)
      destruct (i_pz s); [assumption|].
      destruct (o_neuter true (i_st s) P_id) as [st1 r] eqn:E.
      destruct (derive_zero_neuter _ _ _ _ Hi H0 E) as [Hi2 Hx2]. apply sim_ext; assumption.
    - (* c<k> *)
      destruct (i_B s) as [[b|e]|] eqn:EB; try assumption.
      assert (Hb : b < length (objs_of (i_st s))).
      { unfold Bmatch in HB. destruct (v_B v) as [[kb|e']|]; try contradiction. apply HB. }
      destruct (o_child (i_st s) b k) as [st1 r] eqn:E.
      destruct (derive_zero_child _ _ _ _ _ Hi Hb E) as [Hi2 Hx2]. apply sim_ext; assumption.
    - (* m *)
      destruct (i_B s) as [[b|e]|] eqn:EB; try assumption.
      assert (Hb : b < length (objs_of (i_st s))).
      { unfold Bmatch in HB. destruct (v_B v) as [[kb|e']|]; try contradiction. apply HB. }
      destruct (o_neuter true (i_st s) b) as [st1 r] eqn:E.
      destruct (derive_zero_neuter _ _ _ _ Hi Hb E) as [Hi2 Hx2]. apply sim_ext; assumption.
    - (* s *)
      destruct (i_B s) as [[b|e]|] eqn:EB; [|assumption|assumption].
      cbn [Bip32Obj.o_string fst]. apply sim_ext; [assumption|assumption|apply ext_refl].
    - (* p *)
      unfold Bmatch in HB.
      destruct (i_B s) as [[b|e]|] eqn:EB; destruct (v_B v) as [[kb|e']|] eqn:EV; try contradiction; try assumption.
      destruct HB as (Hb & Ho & Hsame).
      destruct (Nat.eqb b P_id) eqn:Eb.
      + apply Nat.eqb_eq in Eb. unfold P_id in Eb. destruct (v_same v); [assumption|].
        destruct Hsame as [Hs1 _]. specialize (Hs1 Eb). discriminate.
      + apply Nat.eqb_neq in Eb. unfold P_id in *.
        destruct (v_same v) eqn:Es; [destruct Hsame as [_ Hs2]; specialize (Hs2 eq_refl); contradiction|].
        unfold sim. cbn [i_st i_B v_P v_B v_same]. split; [apply o_zero_inv; assumption|].
        split; [rewrite o_zero_len; assumption|].
        split; [rewrite o_zero_self by assumption; rewrite HP; reflexivity|].
        unfold Bmatch. split; [rewrite o_zero_len; assumption|].
        split; [|split; [intros; contradiction|discriminate]].
        rewrite o_zero_frame; [assumption|apply Hi|assumption|assumption|assumption].
  Qed.

  Lemma sim_run neu i script : forall s v,
    sim s v -> sim (run_ops true neu i s script) (fold_left (vstep neu i) script v).
  Proof.
    unfold Bip32Obj.run_ops. induction script as [|o r IH]; intros s v H; cbn [fold_left]; [assumption|].
    apply IH, sim_step, H.
  Qed.

  Lemma sim_init f : sim (mkI (init_state f) None false) (mkV f None false).
  Proof.
    unfold sim. cbn [i_st i_B v_P v_B v_same]. split; [apply inv_init|].
    split; [rewrite init_state_len; lia|]. split; [apply init_state_obs|exact I].
  Qed.

  Lemma sim_observe s v : sim s v -> observe s = v_B v.
  Proof.
    intros (_ & _ & _ & HB). unfold observe, Bmatch in *.
    destruct (i_B s) as [[b|e]|]; destruct (v_B v) as [[kb|e']|]; try contradiction; auto.
    - destruct HB as (_ & -> & _). reflexivity.
    - subst. reflexivity.
  Qed.

  (* every script: the key object B, observed after everything the script derived, used and zeroed,
     reads exactly what the script computes on values *)
  Theorem run_script_is_val_script neu f i script :
    run_script true neu f i script = val_script neu f i script.
  Proof.
    unfold Bip32Obj.run_script, Bip32Obj.val_script. apply sim_observe, sim_run, sim_init.
  Qed.

  (* the heaps the scripts build are separated *)
  Theorem run_ops_sep neu f i script :
    sep (i_st (run_ops true neu i (mkI (init_state f) None false) script)).
  Proof. destruct (sim_run neu i script _ _ (sim_init f)) as ([Hs _] & _). exact Hs. Qed.

  (* ---- the value interpreter when B is never derived again after the parent was zeroed *)
  Lemma vstep_no_B neu i script : forall v,
    existsb is_B script = false -> v_B (fold_left (vstep neu i) script v) = v_B v.
  Proof.
    induction script as [|o r IH]; intros v H; cbn [fold_left]; [reflexivity|].
    cbn [existsb] in H. apply orb_false_iff in H. destruct H as [Ho Hr].
    rewrite IH by assumption.
    destruct o; cbn [is_B] in Ho; try discriminate; cbn [Bip32Obj.vstep]; try reflexivity.
    destruct (v_B v) as [[kb|e]|] eqn:EV; [destruct (v_same v)| |]; cbn [v_B]; auto.
  Qed.

  Definition derived (neu : bool) (f : ExtendedKey) (i : Z) : Outcome ExtendedKey :=
    if neu then neuter f else child f i.

  Lemma val_script_wf neu f i script : forall vB same,
    no_B_after_p script = true ->
    (vB = None \/ vB = Some (derived neu f i)) ->
    v_B (fold_left (vstep neu i) script (mkV f vB same)) =
    if existsb is_B script then Some (derived neu f i) else vB.
  Proof.
    induction script as [|o r IH]; intros vB same Hwf HvB; cbn [fold_left existsb]; [reflexivity|].
    destruct o; cbn [is_B orb no_B_after_p] in *; cbn [Bip32Obj.vstep v_P v_B v_same];
      try (apply IH; assumption).
    - (* B *)
      rewrite IH; [|assumption|right; reflexivity].
      destruct (existsb is_B r); reflexivity.
    - (* p *)
      apply negb_true_iff in Hwf. rewrite Hwf.
      rewrite vstep_no_B by assumption.
      destruct vB as [[kb|e]|]; try reflexivity. destruct same; reflexivity.
  Qed.

  (* the headline: with the copying Neuter, whatever a script derives, uses and zeroes around it —
     siblings, neutered copies, grandchildren, the parent itself — the observed key object B reads
     the value Child(parent fields, i) (OBJ) / Neuter(parent fields) (OBJN).  [no_B_after_p]: B is
     not derived anew from a parent that was zeroed before (then B is, correctly, the child of the
     zeroed key; [run_script_is_val_script] covers those scripts too) *)
  Theorem obj_value_semantics neu f i script :
    no_B_after_p script = true ->
    run_script true neu f i script =
    if existsb is_B script then Some (if neu then neuter f else child f i) else None.
  Proof.
    intros Hwf. rewrite run_script_is_val_script. unfold Bip32Obj.val_script.
    apply (val_script_wf neu f i script None false Hwf). left. reflexivity.
  Qed.

  (* ---- the statements of Properties/C14.v *)
  (* separation is kept by every operation (the copying Neuter) *)
  Theorem op_sep st a :
    sep st -> a < length (objs_of st) ->
    (forall f, sep (fst (new_obj st f))) /\
    (forall i, sep (fst (o_child st a i))) /\ sep (fst (o_neuter true st a)) /\
    sep (o_zero st a) /\ sep (fst (o_string st a)) /\ sep (fst (o_pubkey st a)).
  Proof.
    intros Hs Ha. split; [intros f; apply new_obj_sep; assumption|].
    split; [intros i; apply o_child_sep_frame; assumption|].
    split; [apply o_neuter_sep_frame; assumption|]. split; [apply o_zero_sep; assumption|].
    split; [assumption|]. apply o_memo_sep; assumption.
  Qed.

  (* frame: under separation an operation on key a changes what no key b of the table reads — not
     even a itself (the memoisation of Child / Neuter / pubKeyBytes is invisible) — except that
     Zero turns a into the zeroed value *)
  Theorem op_frame st a b :
    sep st -> a < length (objs_of st) -> b < length (objs_of st) ->
    (b <> a -> obs_at (o_zero st a) b = obs_at st b) /\
    obs_at (o_zero st a) a = v_zero (obs_at st a) /\
    (forall i, obs_at (fst (o_child st a i)) b = obs_at st b) /\
    obs_at (fst (o_neuter true st a)) b = obs_at st b /\
    obs_at (fst (o_string st a)) b = obs_at st b /\
    obs_at (fst (o_pubkey st a)) b = obs_at st b.
  Proof.
    intros Hs Ha Hb.
    split; [intros Hne; apply o_zero_frame; assumption|]. split; [apply o_zero_self; assumption|].
    split; [intros i; apply (proj2 (o_child_sep_frame st a i Hs Ha)); assumption|].
    split; [apply (proj2 (o_neuter_sep_frame st a Hs Ha)); assumption|].
    split; [reflexivity|]. apply (o_memo_ext st a Hs Ha); assumption.
  Qed.

  Theorem zero_frame st a b :
    sep st -> a < length (objs_of st) -> b < length (objs_of st) -> b <> a ->
    obs_at (o_zero st a) b = obs_at st b.
  Proof. apply o_zero_frame. Qed.
End Prims.

(* ================================================================== Part F *)
(* the toy instance of the primitives (Codec/Bip32Proofs.v) for closed witnesses and examples *)
Module ToyObj.
  Definition run_script h :=
    run_script h Toy.point Toy.smulG Toy.padd Toy.ser_P Toy.parse_pub Toy.coord_zero Toy.hash160 Toy.dsha256 Toy.b58.
  Definition val_script h :=
    val_script h Toy.point Toy.smulG Toy.padd Toy.ser_P Toy.parse_pub Toy.coord_zero Toy.hash160.
  Definition neuter := neuter Toy.point Toy.smulG Toy.ser_P.

  (* a private key with a 32-byte stored scalar, depth 2 *)
  Definition parent : ExtendedKey :=
    mkEK (ser256 123456789) (repeat 7%Z 32) 2 [1; 2; 3; 4]%Z 5 hd_private_key_id true.

  Lemma parent_wf : Toy.wf_key parent.
  Proof.
    unfold Toy.wf_key, wf_key, parent. cbn [ek_priv ek_key].
    split; [|split; [vm_compute; lia|vm_compute; split; reflexivity]].
    apply Forall_forall. intros x Hin. vm_compute in Hin.
    repeat (destruct Hin as [<-|Hin]; [unfold byte; lia|]). contradiction.
  Qed.
End ToyObj.

(* Neuter as first found: the neutered key points to the pubKey, chainCode and parentFP arrays of the
   private key.
   (1) OBJN, script B.p:  pub := priv.Neuter(); priv.Zero()  — pub reads all zero;
   (2) OBJ,  script B.m:  B := P.Child(i); M := B.Neuter(); M.Zero()  — B's chain code and parent
       fingerprint read zero;
   (3) OBJ,  script n.B:  N := P.Neuter(); N.Zero(); B := P.Child(i)  — B is derived from a wiped
       chain code.
   On each of them the copying Neuter gives the value. *)
Theorem obj_value_semantics_refuted :
  (exists f script,
     Toy.wf_key f /\ no_B_after_p script = true /\
     ToyObj.run_script Toy.hmac_key true true f 0 script = Some (ToyObj.neuter f) /\
     ToyObj.run_script Toy.hmac_key false true f 0 script <> Some (ToyObj.neuter f) /\
     exists k, ToyObj.run_script Toy.hmac_key false true f 0 script = Some (Ok k) /\
               ek_key k = repeat 0%Z 33 /\ ek_chain k = repeat 0%Z 32 /\ ek_fp k = repeat 0%Z 4) /\
  (exists f i script,
     Toy.wf_key f /\ no_B_after_p script = true /\
     ToyObj.run_script Toy.hmac_key true false f i script = Some (Toy.child Toy.hmac_key f i) /\
     ToyObj.run_script Toy.hmac_key false false f i script <> Some (Toy.child Toy.hmac_key f i) /\
     exists k, ToyObj.run_script Toy.hmac_key false false f i script = Some (Ok k) /\
               ek_chain k = repeat 0%Z 32 /\ ek_fp k = repeat 0%Z 4) /\
  (exists f i script,
     Toy.wf_key f /\ no_B_after_p script = true /\
     ToyObj.run_script Toy.hmac_key true false f i script = Some (Toy.child Toy.hmac_key f i) /\
     ToyObj.run_script Toy.hmac_key false false f i script <> Some (Toy.child Toy.hmac_key f i)).
Proof.
  split; [|split].
  - exists ToyObj.parent, [OpB; OpP]. split; [exact ToyObj.parent_wf|]. split; [reflexivity|].
    split; [vm_compute; reflexivity|]. split; [vm_compute; intros H; discriminate H|].
    eexists. split; [vm_compute; reflexivity|]. repeat split.
  - exists ToyObj.parent, 7%Z, [OpB; OpM]. split; [exact ToyObj.parent_wf|]. split; [reflexivity|].
    split; [vm_compute; reflexivity|]. split; [vm_compute; intros H; discriminate H|].
    eexists. split; [vm_compute; reflexivity|]. repeat split.
  - exists ToyObj.parent, 7%Z, [OpN; OpB]. split; [exact ToyObj.parent_wf|]. split; [reflexivity|].
    split; [vm_compute; reflexivity|]. vm_compute; intros H; discriminate H.
Qed.
