(* Codec/Bip32Proofs.v — lemmas and proofs about the model of hdkeychain (Codec/Bip32.v).
   Part A: byte-string arithmetic (no primitives).
   Part B: the assumed laws of the primitives ([prim_laws]) and, inside a Section whose
           variables are the primitives and whose hypothesis is [prim_laws], the theorems.
   Part C: a toy instance of the primitives that satisfies [prim_laws] (so the hypotheses
           are consistent) and closed witnesses of the divergences between code and BIP-32. *)
From Coq Require Import List ZArith Bool Lia.
Import ListNotations.
Open Scope Z_scope.
Require Import MW.Codec.Bip32.

Ltac Zify.zify_post_hook ::= Z.div_mod_to_equations.

Definition byte (c : Z) : Prop := 0 <= c < 256.

(* ================================================================== Part A *)

Lemma be2z_acc_app a l1 l2 : be2z_acc a (l1 ++ l2) = be2z_acc (be2z_acc a l1) l2.
Proof. revert a; induction l1 as [|c l1 IH]; intros a; cbn [app be2z_acc]; auto. Qed.

Lemma be2z_snoc l c : be2z (l ++ [c]) = be2z l * 256 + c.
Proof. unfold be2z. rewrite be2z_acc_app. reflexivity. Qed.

Lemma be2z_cons0 l : be2z (0 :: l) = be2z l.
Proof. reflexivity. Qed.

Lemma be2z_zeros n l : be2z (repeat 0 n ++ l) = be2z l.
Proof. induction n as [|n IH]; cbn [repeat app]; [reflexivity|]. rewrite be2z_cons0. exact IH. Qed.

Lemma pow256_succ n : 256 ^ Z.of_nat (S n) = 256 * 256 ^ Z.of_nat n.
Proof. rewrite Nat2Z.inj_succ, Z.pow_succ_r by lia. reflexivity. Qed.

Lemma pow256_pos n : 0 < 256 ^ Z.of_nat n.
Proof. apply Z.pow_pos_nonneg; lia. Qed.

Lemma be2z_bounds l : Forall byte l -> 0 <= be2z l < 256 ^ Z.of_nat (length l).
Proof.
  induction l as [|c l IH] using rev_ind; intros H.
  - cbn. lia.
  - apply Forall_app in H as [H1 H2]. inversion H2 as [|c' l' Hc _]; subst.
    specialize (IH H1). rewrite be2z_snoc, app_length. cbn [length].
    replace (length l + 1)%nat with (S (length l)) by lia. rewrite pow256_succ.
    unfold byte in Hc. lia.
Qed.

Lemma ser_fixed_length n x : length (ser_fixed n x) = n.
Proof.
  revert x; induction n as [|n IH]; intros x; cbn [ser_fixed]; [reflexivity|].
  rewrite app_length, IH. cbn. lia.
Qed.

Lemma ser_fixed_bytes n x : Forall byte (ser_fixed n x).
Proof.
  revert x; induction n as [|n IH]; intros x; cbn [ser_fixed]; [constructor|].
  apply Forall_app; split; [apply IH|]. constructor; [|constructor].
  unfold byte. lia.
Qed.

Lemma ser_fixed_be2z l : Forall byte l -> ser_fixed (length l) (be2z l) = l.
Proof.
  induction l as [|c l IH] using rev_ind; intros H; [reflexivity|].
  apply Forall_app in H as [H1 H2]. inversion H2 as [|c' l' Hc _]; subst.
  rewrite app_length. cbn [length]. replace (length l + 1)%nat with (S (length l)) by lia.
  cbn [ser_fixed]. rewrite be2z_snoc. unfold byte in Hc.
  replace ((be2z l * 256 + c) / 256) with (be2z l) by lia.
  replace ((be2z l * 256 + c) mod 256) with c by lia.
  rewrite IH by assumption. reflexivity.
Qed.

Lemma be2z_ser_fixed n x : 0 <= x < 256 ^ Z.of_nat n -> be2z (ser_fixed n x) = x.
Proof.
  revert x; induction n as [|n IH]; intros x Hx.
  - cbn in Hx. cbn. lia.
  - cbn [ser_fixed]. rewrite be2z_snoc. rewrite pow256_succ in Hx.
    rewrite IH; [lia|]. pose proof (pow256_pos n). lia.
Qed.

Lemma strip0_be2z l : be2z (strip0 l) = be2z l.
Proof.
  induction l as [|c l IH]; cbn [strip0]; [reflexivity|].
  destruct (c =? 0) eqn:E; [|reflexivity].
  apply Z.eqb_eq in E; subst c. rewrite IH. reflexivity.
Qed.

Lemma strip0_length l : (length (strip0 l) <= length l)%nat.
Proof.
  induction l as [|c l IH]; cbn [strip0 length]; [lia|].
  destruct (c =? 0); cbn [length]; lia.
Qed.

Lemma strip0_bytes l : Forall byte l -> Forall byte (strip0 l).
Proof.
  induction l as [|c l IH]; intros H; cbn [strip0]; [constructor|].
  destruct (c =? 0); [|assumption]. inversion H; auto.
Qed.

Lemma curve_n_lt : curve_n < 256 ^ 32.
Proof. vm_compute. reflexivity. Qed.
Lemma curve_n_pos : 0 < curve_n.
Proof. vm_compute. reflexivity. Qed.

Lemma int_bytes_be2z x : 0 <= x < 256 ^ 32 -> be2z (int_bytes x) = x.
Proof. intros H. unfold int_bytes. rewrite strip0_be2z. apply (be2z_ser_fixed 32). exact H. Qed.

Lemma int_bytes_length x : (length (int_bytes x) <= 32)%nat.
Proof. unfold int_bytes. pose proof (strip0_length (ser_fixed 32 x)). rewrite ser_fixed_length in H. exact H. Qed.

Lemma int_bytes_bytes x : Forall byte (int_bytes x).
Proof. unfold int_bytes. apply strip0_bytes, ser_fixed_bytes. Qed.

Lemma pad32_length key : (length key <= 32)%nat -> length (repeat 0 (32 - length key) ++ key) = 32%nat.
Proof. intros H. rewrite app_length, repeat_length. lia. Qed.

Lemma repeat0_bytes n : Forall byte (repeat 0 n).
Proof. induction n; cbn; constructor; auto. unfold byte; lia. Qed.

(* ser256 of the value of a stored key = the key left-padded with zero bytes *)
Lemma ser256_be2z key :
  Forall byte key -> (length key <= 32)%nat -> ser256 (be2z key) = repeat 0 (32 - length key) ++ key.
Proof.
  intros Hb Hl. unfold ser256.
  rewrite <- (be2z_zeros (32 - length key) key).
  rewrite <- (pad32_length key Hl) at 1.
  apply ser_fixed_be2z. apply Forall_app; split; [apply repeat0_bytes|assumption].
Qed.

Lemma ser256_be2z_32 key : Forall byte key -> length key = 32%nat -> ser256 (be2z key) = key.
Proof.
  intros Hb Hl. rewrite ser256_be2z by (assumption || lia). rewrite Hl. reflexivity.
Qed.

Lemma be2z_lt_pow key : Forall byte key -> (length key <= 32)%nat -> 0 <= be2z key < 256 ^ 32.
Proof.
  intros Hb Hl. pose proof (be2z_bounds key Hb) as H.
  assert (256 ^ Z.of_nat (length key) <= 256 ^ 32) by (apply Z.pow_le_mono_r; lia). lia.
Qed.

Lemma fill_exact n l : length l = n -> fill n l = l.
Proof.
  intros H. unfold fill. rewrite firstn_app, H, Nat.sub_diag. cbn [firstn].
  rewrite app_nil_r. rewrite <- H. apply firstn_all.
Qed.

Lemma bytes_eqb_eq a b : bytes_eqb a b = true <-> a = b.
Proof.
  revert b; induction a as [|x a IH]; intros [|y b]; cbn [bytes_eqb]; split; intros H;
    try reflexivity; try discriminate.
  - apply andb_true_iff in H as [H1 H2]. apply Z.eqb_eq in H1. apply IH in H2. congruence.
  - inversion H; subst. apply andb_true_iff; split; [apply Z.eqb_refl|apply IH; reflexivity].
Qed.

Lemma bytes_eqb_refl a : bytes_eqb a a = true.
Proof. apply bytes_eqb_eq. reflexivity. Qed.

Lemma firstn_app_exact {A} n (a b : list A) : length a = n -> firstn n (a ++ b) = a.
Proof.
  intros H. rewrite firstn_app, H, Nat.sub_diag. cbn [firstn]. rewrite app_nil_r.
  rewrite <- H. apply firstn_all.
Qed.

Lemma skipn_app_exact {A} n (a b : list A) : length a = n -> skipn n (a ++ b) = b.
Proof.
  intros H. rewrite skipn_app, H, Nat.sub_diag. cbn [skipn]. rewrite <- H, skipn_all. reflexivity.
Qed.

Lemma slice_mid X Y Z' a b :
  length X = a -> length Y = (b - a)%nat -> slice a b (X ++ Y ++ Z') = Y.
Proof.
  intros HX HY. unfold slice. rewrite (skipn_app_exact a X _ HX). apply firstn_app_exact. exact HY.
Qed.

Lemma slice_end X Y a b :
  length X = a -> length Y = (b - a)%nat -> slice a b (X ++ Y) = Y.
Proof.
  intros HX HY. rewrite <- (app_nil_r Y) at 1. apply slice_mid; assumption.
Qed.

Lemma Forall_firstn' {A} (P : A -> Prop) n l : Forall P l -> Forall P (firstn n l).
Proof.
  revert l; induction n as [|n IH]; intros [|a l] H; cbn [firstn]; try constructor.
  - inversion H; assumption.
  - apply IH. inversion H; assumption.
Qed.

Lemma Forall_skipn' {A} (P : A -> Prop) n l : Forall P l -> Forall P (skipn n l).
Proof.
  revert l; induction n as [|n IH]; intros [|a l] H; cbn [skipn]; try assumption.
  apply IH. inversion H; assumption.
Qed.

Lemma payload_fields v d f n c kd :
  length v = 4%nat -> length f = 4%nat -> length n = 4%nat -> length c = 32%nat -> length kd = 33%nat ->
  let p := v ++ [d] ++ f ++ n ++ c ++ kd in
  length p = 78%nat /\ slice 0 4 p = v /\ nth 4 p 0 = d /\ slice 5 9 p = f /\ slice 9 13 p = n /\
  slice 13 45 p = c /\ slice 45 78 p = kd.
Proof.
  intros Hv Hf Hn Hc Hk p. unfold p.
  split. { rewrite !app_length, Hv, Hf, Hn, Hc, Hk. reflexivity. }
  split. { apply (slice_mid [] v _ 0 4); auto. }
  split. { rewrite app_nth2 by lia. rewrite Hv. reflexivity. }
  split. { replace (v ++ [d] ++ f ++ n ++ c ++ kd) with ((v ++ [d]) ++ f ++ (n ++ c ++ kd))
             by (repeat rewrite <- app_assoc; reflexivity).
           apply slice_mid; [rewrite app_length, Hv; reflexivity|exact Hf]. }
  split. { replace (v ++ [d] ++ f ++ n ++ c ++ kd) with ((v ++ [d] ++ f) ++ n ++ (c ++ kd))
             by (repeat rewrite <- app_assoc; reflexivity).
           apply slice_mid; [rewrite !app_length, Hv, Hf; reflexivity|exact Hn]. }
  split. { replace (v ++ [d] ++ f ++ n ++ c ++ kd) with ((v ++ [d] ++ f ++ n) ++ c ++ kd)
             by (repeat rewrite <- app_assoc; reflexivity).
           apply slice_mid; [rewrite !app_length, Hv, Hf, Hn; reflexivity|exact Hc]. }
  replace (v ++ [d] ++ f ++ n ++ c ++ kd) with ((v ++ [d] ++ f ++ n ++ c) ++ kd)
    by (repeat rewrite <- app_assoc; reflexivity).
  apply slice_end; [rewrite !app_length, Hv, Hf, Hn, Hc; reflexivity|exact Hk].
Qed.

Lemma slice_length a b l : (b <= length l)%nat -> length (slice a b l) = (b - a)%nat.
Proof. intros H. unfold slice. rewrite firstn_length, skipn_length. lia. Qed.

(* ================================================================== Part B *)

(* What is assumed of the primitives (all true of HMAC-SHA512, btcec's secp256k1, RIPEMD160(SHA256),
   double SHA-256 and base58 as linked; none is proved here):
   output lengths; base58 decoding inverts encoding; compressed points are 33 bytes starting
   with 02/03, decode back to the point, and a 33-byte string that decodes re-encodes to
   itself; k*G is a homomorphism from (Z, + mod n); k*G for 0<k<n is not the point at
   infinity and has no zero coordinate; results of k*G and of k*G + P have X below p. *)
Record prim_laws {point : Type}
  (hmac512 : bytes -> bytes -> bytes) (smulG : Z -> point) (padd : point -> point -> point)
  (ser_P : point -> bytes) (parse_pub : bytes -> option point) (coord_zero is_inf : point -> bool)
  (hash160 dsha256 b58enc b58dec : bytes -> bytes) : Prop := {
  hmac_len : forall k d, length (hmac512 k d) = 64%nat;
  hmac_bytes : forall k d, Forall byte (hmac512 k d);
  hash160_len : forall x, length (hash160 x) = 20%nat;
  dsha_len : forall x, length (dsha256 x) = 32%nat;
  b58_inj : forall x, b58dec (b58enc x) = x;
  serP_len : forall P, length (ser_P P) = 33%nat;
  serP_head : forall P, nth 0 (ser_P P) 0 <> 0;
  parse_ser : forall P, is_inf P = false -> parse_pub (ser_P P) = Some P;
  ser_parse : forall b P, length b = 33%nat -> parse_pub b = Some P -> ser_P P = b;
  smul_hom : forall a b, padd (smulG a) (smulG b) = smulG ((a + b) mod curve_n);
  smul_not_inf : forall k, 0 < k < curve_n -> is_inf (smulG k) = false;
  smul_coord : forall k, 0 < k < curve_n -> coord_zero (smulG k) = false;
  smul_x_range : forall k, be2z (tl (ser_P (smulG k))) < curve_p;
  padd_x_range : forall k P, 0 < k < curve_n -> be2z (tl (ser_P (padd (smulG k) P))) < curve_p }.

Arguments hmac_len {_ _ _ _ _ _ _ _ _ _ _ _} _.
Arguments hmac_bytes {_ _ _ _ _ _ _ _ _ _ _ _} _.
Arguments hash160_len {_ _ _ _ _ _ _ _ _ _ _ _} _.
Arguments dsha_len {_ _ _ _ _ _ _ _ _ _ _ _} _.
Arguments b58_inj {_ _ _ _ _ _ _ _ _ _ _ _} _.
Arguments serP_len {_ _ _ _ _ _ _ _ _ _ _ _} _.
Arguments serP_head {_ _ _ _ _ _ _ _ _ _ _ _} _.
Arguments parse_ser {_ _ _ _ _ _ _ _ _ _ _ _} _.
Arguments ser_parse {_ _ _ _ _ _ _ _ _ _ _ _} _.
Arguments smul_hom {_ _ _ _ _ _ _ _ _ _ _ _} _.
Arguments smul_not_inf {_ _ _ _ _ _ _ _ _ _ _ _} _.
Arguments smul_coord {_ _ _ _ _ _ _ _ _ _ _ _} _.
Arguments smul_x_range {_ _ _ _ _ _ _ _ _ _ _ _} _.
Arguments padd_x_range {_ _ _ _ _ _ _ _ _ _ _ _} _.

Section Theorems.
  Variable hmac512 : bytes -> bytes -> bytes.
  Variable point : Type.
  Variable smulG : Z -> point.
  Variable padd : point -> point -> point.
  Variable ser_P : point -> bytes.
  Variable parse_pub : bytes -> option point.
  Variable coord_zero : point -> bool.
  Variable is_inf : point -> bool.
  Variable hash160 : bytes -> bytes.
  Variable dsha256 : bytes -> bytes.
  Variable b58enc : bytes -> bytes.
  Variable b58dec : bytes -> bytes.
  Hypothesis laws : prim_laws hmac512 smulG padd ser_P parse_pub coord_zero is_inf hash160 dsha256 b58enc b58dec.

  Local Notation pub_key_bytes := (pub_key_bytes point smulG ser_P).
  Local Notation new_master := (new_master hmac512).
  Local Notation child_data := (child_data point smulG ser_P).
  Local Notation child := (child hmac512 point smulG padd ser_P parse_pub coord_zero hash160).
  Local Notation neuter := (neuter point smulG ser_P).
  Local Notation serialize_payload := (serialize_payload point smulG ser_P).
  Local Notation to_string := (to_string point smulG ser_P dsha256 b58enc).
  Local Notation from_string_gen := (from_string_gen point parse_pub dsha256 b58dec).
  Local Notation from_string := (from_string point parse_pub dsha256 b58dec).
  Local Notation from_string_unfixed := (from_string_unfixed point parse_pub dsha256 b58dec).
  Local Notation derive_path := (derive_path hmac512 point smulG padd ser_P parse_pub coord_zero hash160).
  Local Notation derive_coin_type_key := (derive_coin_type_key hmac512 point smulG padd ser_P parse_pub coord_zero hash160).
  Local Notation derive_account_key := (derive_account_key hmac512 point smulG padd ser_P parse_pub coord_zero hash160).
  Local Notation ckd_priv_I := (ckd_priv_I hmac512 point smulG ser_P).
  Local Notation ckd_pub_I := (ckd_pub_I hmac512 point ser_P).
  Local Notation CKDpriv := (CKDpriv hmac512 point smulG ser_P).
  Local Notation CKDpub := (CKDpub hmac512 point smulG padd ser_P is_inf).
  Local Notation spec_ckd := (spec_ckd hmac512 point smulG padd ser_P is_inf hash160).
  Local Notation spec_neuter := (spec_neuter point smulG).
  Local Notation spec_master := (spec_master hmac512 point).
  Local Notation spec_string := (spec_string point ser_P dsha256 b58enc).
  Local Notation spec_parse := (spec_parse point parse_pub dsha256 b58dec).
  Local Notation spec_derive_path := (spec_derive_path hmac512 point smulG padd ser_P is_inf hash160).
  Local Notation abs := (abs point parse_pub).
  Local Notation abs_out := (abs_out point parse_pub).

  (* ---------------------------------------------------------------- well-formed stored keys *)
  (* what derivation needs of a stored key *)
  Definition wf_key (k : ExtendedKey) : Prop :=
    if ek_priv k
    then Forall byte (ek_key k) /\ (length (ek_key k) <= 32)%nat /\ 0 < be2z (ek_key k) < curve_n
    else length (ek_key k) = 33%nat /\ exists P, parse_pub (ek_key k) = Some P.
  (* what serialisation needs in addition *)
  Definition wf_ser (k : ExtendedKey) : Prop :=
    length (ek_version k) = 4%nat /\ length (ek_fp k) = 4%nat /\ length (ek_chain k) = 32%nat /\
    0 <= ek_num k < 2 ^ 32 /\
    (ek_priv k = false -> be2z (tl (ek_key k)) < curve_p).

  Definition key_len32 (k : ExtendedKey) : Prop := length (ek_key k) = 32%nat.

  (* the HMAC output of the specification for this parent and index *)
  Definition spec_I (x : XKey point) (i : Z) : bytes :=
    match x_key x with
    | SPriv k => ckd_priv_I k (x_chain x) i
    | SPub K => ckd_pub_I K (x_chain x) i
    end.
  (* the three events of probability about 2^-256 on which the code and the BIP differ:
     IL = 0 (the code refuses, the BIP does not), a zero child scalar, a child point at
     infinity (the BIP refuses, the code does not) *)
  Definition degenerate (x : XKey point) (i : Z) : Prop :=
    let il := parse256 (firstn 32 (spec_I x i)) in
    il = 0 \/
    match x_key x with
    | SPriv k => (il + k) mod curve_n = 0
    | SPub K => is_inf (padd (smulG il) K) = true
    end.
  (* the guard of the main theorem: not the recorded finding (hardened child of a private
     parent whose stored key is shorter than 32 bytes), not degenerate *)
  Definition step_guard (parent : ExtendedKey) (x : XKey point) (i : Z) : Prop :=
    (hardened_start <= i -> ek_priv parent = true -> key_len32 parent) /\ ~ degenerate x i.

  Lemma half64 k d : Nat.div2 (length (hmac512 k d)) = 32%nat.
  Proof. rewrite (hmac_len laws). reflexivity. Qed.

  Lemma il_bytes k d : Forall byte (firstn 32 (hmac512 k d)).
  Proof. apply Forall_firstn', (hmac_bytes laws). Qed.

  (* ---------------------------------------------------------------- NewMaster *)
  Lemma master_is_spec ver seed : abs_out (new_master ver seed) = spec_master ver seed.
  Proof.
    unfold Bip32.new_master, Bip32.spec_master, min_seed_bytes, max_seed_bytes.
    destruct ((length seed <? 16)%nat || (64 <? length seed)%nat); [reflexivity|].
    rewrite half64. unfold parse256.
    set (il := be2z (firstn 32 (hmac512 master_key seed))).
    rewrite (orb_comm (il =? 0)).
    destruct ((curve_n <=? il) || (il =? 0)); reflexivity.
  Qed.

  (* ---------------------------------------------------------------- Child *)
  Lemma il_nonneg k d : 0 <= be2z (firstn 32 (hmac512 k d)).
  Proof. pose proof (be2z_bounds _ (il_bytes k d)). lia. Qed.

  Lemma mod_n_range a : 0 <= a mod curve_n < 256 ^ 32.
  Proof. pose proof (Z.mod_pos_bound a curve_n curve_n_pos). pose proof curve_n_lt. lia. Qed.

  Lemma child_is_spec parent x i :
    wf_key parent -> abs parent = Some x -> step_guard parent x i ->
    abs_out (child parent i) = spec_ckd x i.
  Proof.
    intros Hwf Habs [Hlen Hnd].
    destruct parent as [key cc depth fp num ver priv].
    unfold wf_key in Hwf. unfold key_len32 in Hlen. cbn [ek_priv ek_key] in Hwf, Hlen.
    unfold Bip32.abs in Habs. cbn [ek_priv ek_key ek_chain ek_depth ek_fp ek_num ek_version] in Habs.
    unfold degenerate, spec_I, parse256 in Hnd.
    unfold Bip32.child, Bip32.spec_ckd, max_uint8. cbv zeta.
    cbn [ek_priv ek_key ek_chain ek_depth ek_fp ek_num ek_version].
    rewrite half64.
    destruct priv.
    - (* private parent *)
      destruct Hwf as (Hb & Hl & Hk). inversion Habs; subst x; clear Habs.
      cbn [x_depth x_key x_chain x_version x_fp x_num] in *.
      destruct (depth =? 255); [reflexivity|].
      cbn [negb andb].
      assert (HI : hmac512 cc (child_data (mkEK key cc depth fp num ver true) i) = ckd_priv_I (be2z key) cc i).
      { unfold Bip32.child_data, Bip32.ckd_priv_I, Bip32.pub_key_bytes. cbn [ek_key ek_priv].
        destruct (hardened_start <=? i) eqn:Hh.
        - apply Z.leb_le in Hh. rewrite (fill_exact 32 key) by (apply Hlen; auto).
          rewrite ser256_be2z_32 by auto. reflexivity.
        - rewrite fill_exact by apply (serP_len laws). reflexivity. }
      rewrite HI. unfold Bip32.CKDpriv, parse256. cbv zeta.
      set (I := ckd_priv_I (be2z key) cc i) in *.
      set (il := be2z (firstn 32 I)) in *.
      destruct (curve_n <=? il) eqn:Hn; [reflexivity|]. cbn [orb].
      destruct (il =? 0) eqn:H0; [apply Z.eqb_eq in H0; tauto|].
      destruct ((il + be2z key) mod curve_n =? 0) eqn:Hz; [apply Z.eqb_eq in Hz; tauto|].
      unfold Bip32.abs_out, Bip32.abs. cbn [ek_priv ek_key ek_chain ek_depth ek_fp ek_num ek_version].
      rewrite int_bytes_be2z by apply mod_n_range. reflexivity.
    - (* public parent *)
      destruct Hwf as (Hl & P & HP). rewrite HP in Habs. inversion Habs; subst x; clear Habs.
      cbn [x_depth x_key x_chain x_version x_fp x_num] in *.
      destruct (depth =? 255); [reflexivity|].
      cbn [negb andb]. unfold Bip32.CKDpub.
      destruct (hardened_start <=? i) eqn:Hh; [reflexivity|].
      pose proof (ser_parse laws key P Hl HP) as Hser.
      assert (HI : hmac512 cc (child_data (mkEK key cc depth fp num ver false) i) = ckd_pub_I P cc i).
      { unfold Bip32.child_data, Bip32.ckd_pub_I, Bip32.pub_key_bytes. cbn [ek_key ek_priv].
        rewrite Hh, fill_exact by exact Hl. rewrite Hser. reflexivity. }
      rewrite HI. unfold parse256. cbv zeta.
      set (I := ckd_pub_I P cc i) in *.
      set (il := be2z (firstn 32 I)) in *.
      assert (Hil0 : 0 <= il) by (apply il_nonneg).
      destruct (curve_n <=? il) eqn:Hn; [reflexivity|]. cbn [orb].
      destruct (il =? 0) eqn:H0; [apply Z.eqb_eq in H0; tauto|].
      apply Z.leb_gt in Hn. apply Z.eqb_neq in H0.
      rewrite (smul_coord laws) by lia. rewrite HP.
      destruct (is_inf (padd (smulG il) P)) eqn:Hinf; [tauto|].
      unfold Bip32.abs_out, Bip32.abs. cbn [ek_priv ek_key ek_chain ek_depth ek_fp ek_num ek_version].
      rewrite (parse_ser laws) by exact Hinf.
      unfold Bip32.spec_fingerprint, Bip32.spec_point_of, Bip32.pub_key_bytes. cbn [ek_priv ek_key].
      rewrite Hser. reflexivity.
  Qed.

  Lemma wf_abs k : wf_key k -> exists x, abs k = Some x.
  Proof.
    unfold wf_key, Bip32.abs. destruct (ek_priv k); intros H; [eexists; reflexivity|].
    destruct H as (_ & P & HP). rewrite HP. eexists; reflexivity.
  Qed.

  (* a child the code returns under the guard is again a well-formed stored key *)
  Lemma child_wf parent x i c :
    wf_key parent -> abs parent = Some x -> step_guard parent x i ->
    child parent i = Ok c -> wf_key c.
  Proof.
    intros Hwf Habs [Hlen Hnd] Hc.
    destruct parent as [key cc depth fp num ver priv].
    unfold wf_key in Hwf. unfold key_len32 in Hlen. cbn [ek_priv ek_key] in Hwf, Hlen.
    unfold Bip32.abs in Habs. cbn [ek_priv ek_key ek_chain ek_depth ek_fp ek_num ek_version] in Habs.
    unfold degenerate, spec_I, parse256 in Hnd.
    unfold Bip32.child, max_uint8 in Hc. cbv zeta in Hc.
    cbn [ek_priv ek_key ek_chain ek_depth ek_fp ek_num ek_version] in Hc.
    rewrite half64 in Hc.
    destruct priv.
    - destruct Hwf as (Hb & Hl & Hk). inversion Habs; subst x; clear Habs.
      cbn [x_depth x_key x_chain x_version x_fp x_num] in *.
      destruct (depth =? 255); [discriminate|].
      cbn [negb andb] in Hc.
      assert (HI : hmac512 cc (child_data (mkEK key cc depth fp num ver true) i) = ckd_priv_I (be2z key) cc i).
      { unfold Bip32.child_data, Bip32.ckd_priv_I, Bip32.pub_key_bytes. cbn [ek_key ek_priv].
        destruct (hardened_start <=? i) eqn:Hh.
        - apply Z.leb_le in Hh. rewrite (fill_exact 32 key) by (apply Hlen; auto).
          rewrite ser256_be2z_32 by auto. reflexivity.
        - rewrite fill_exact by apply (serP_len laws). reflexivity. }
      rewrite HI in Hc.
      set (I := ckd_priv_I (be2z key) cc i) in *.
      set (il := be2z (firstn 32 I)) in *.
      destruct ((curve_n <=? il) || (il =? 0)); [discriminate|].
      inversion Hc; subst c; clear Hc. unfold wf_key. cbn [ek_priv ek_key].
      split; [apply int_bytes_bytes|]. split; [apply int_bytes_length|].
      rewrite int_bytes_be2z by apply mod_n_range.
      pose proof (Z.mod_pos_bound (il + be2z key) curve_n curve_n_pos). lia.
    - destruct Hwf as (Hl & P & HP). rewrite HP in Habs. inversion Habs; subst x; clear Habs.
      cbn [x_depth x_key x_chain x_version x_fp x_num] in *.
      destruct (depth =? 255); [discriminate|].
      cbn [negb andb] in Hc.
      destruct (hardened_start <=? i) eqn:Hh; [discriminate|].
      pose proof (ser_parse laws key P Hl HP) as Hser.
      assert (HI : hmac512 cc (child_data (mkEK key cc depth fp num ver false) i) = ckd_pub_I P cc i).
      { unfold Bip32.child_data, Bip32.ckd_pub_I, Bip32.pub_key_bytes. cbn [ek_key ek_priv].
        rewrite Hh, fill_exact by exact Hl. rewrite Hser. reflexivity. }
      rewrite HI in Hc.
      set (I := ckd_pub_I P cc i) in *.
      set (il := be2z (firstn 32 I)) in *.
      destruct ((curve_n <=? il) || (il =? 0)); [discriminate|].
      destruct (coord_zero (smulG il)); [discriminate|]. rewrite HP in Hc.
      inversion Hc; subst c; clear Hc. unfold wf_key. cbn [ek_priv ek_key].
      split; [apply (serP_len laws)|]. exists (padd (smulG il) P).
      apply (parse_ser laws). destruct (is_inf (padd (smulG il) P)); [tauto|reflexivity].
  Qed.

  (* ---------------------------------------------------------------- derivation paths *)
  Definition step_ok (k : ExtendedKey) (i : Z) : Prop := forall x, abs k = Some x -> step_guard k x i.
  Fixpoint path_ok (k : ExtendedKey) (path : list Z) : Prop :=
    match path with
    | [] => True
    | i :: r => step_ok k i /\ forall c, child k i = Ok c -> path_ok c r
    end.

  Lemma path_is_spec path : forall k x,
    wf_key k -> abs k = Some x -> path_ok k path ->
    abs_out (derive_path k path) = spec_derive_path x path.
  Proof.
    induction path as [|i r IH]; intros k x Hwf Habs Hok;
      cbn [Bip32.derive_path Bip32.spec_derive_path].
    - unfold Bip32.abs_out. rewrite Habs. reflexivity.
    - destruct Hok as [Hs Hr].
      pose proof (child_is_spec k x i Hwf Habs (Hs x Habs)) as Hc.
      destruct (child k i) as [c|e] eqn:Hch; cbn [bind].
      + pose proof (child_wf k x i c Hwf Habs (Hs x Habs) Hch) as Hwfc.
        destruct (wf_abs c Hwfc) as [xc Hxc].
        unfold Bip32.abs_out in Hc. rewrite Hxc in Hc. rewrite <- Hc. cbn [bind].
        apply IH; auto.
      + cbn [Bip32.abs_out] in Hc. rewrite <- Hc. reflexivity.
  Qed.

  Lemma master_wf ver seed m : new_master ver seed = Ok m -> wf_key m /\ key_len32 m.
  Proof.
    unfold Bip32.new_master. cbv zeta.
    destruct ((length seed <? min_seed_bytes)%nat || (max_seed_bytes <? length seed)%nat); [discriminate|].
    rewrite half64.
    set (sk := firstn 32 (hmac512 master_key seed)).
    destruct (curve_n <=? be2z sk) eqn:Hn; [discriminate|]. cbn [orb].
    destruct (be2z sk =? 0) eqn:H0; [discriminate|].
    intros H; inversion H; subst m; clear H.
    assert (Hlen : length sk = 32%nat).
    { unfold sk. rewrite firstn_length, (hmac_len laws). reflexivity. }
    unfold wf_key, key_len32. cbn [ek_priv ek_key].
    split; [|exact Hlen]. split; [apply il_bytes|]. split; [lia|].
    apply Z.leb_gt in Hn. apply Z.eqb_neq in H0.
    pose proof (il_nonneg master_key seed). fold sk in H. lia.
  Qed.

  (* seed and path: NewMaster followed by Child along the path *)
  Lemma seed_path_is_spec ver seed path :
    (forall m, new_master ver seed = Ok m -> path_ok m path) ->
    abs_out (bind (new_master ver seed) (fun m => derive_path m path)) =
    bind (spec_master ver seed) (fun x => spec_derive_path x path).
  Proof.
    intros Hok. pose proof (master_is_spec ver seed) as Hm.
    destruct (new_master ver seed) as [m|e] eqn:Hnm; cbn [bind].
    - destruct (master_wf ver seed m Hnm) as [Hwf _].
      destruct (wf_abs m Hwf) as [x Hx].
      unfold Bip32.abs_out in Hm. rewrite Hx in Hm. rewrite <- Hm. cbn [bind].
      apply path_is_spec; auto.
    - cbn [Bip32.abs_out] in Hm. rewrite <- Hm. reflexivity.
  Qed.

  (* ---------------------------------------------------------------- Neuter / public derivation *)
  Lemma pub_priv_commute k kp i :
    wf_key k -> ek_priv k = true -> neuter k = Ok kp -> i < hardened_start ->
    bind (child k i) neuter = child kp i.
  Proof.
    intros Hwf Hp Hn Hi.
    destruct k as [key cc depth fp num ver priv]. cbn [ek_priv] in Hp. subst priv.
    unfold wf_key in Hwf. cbn [ek_priv ek_key] in Hwf. destruct Hwf as (Hb & Hl & Hk).
    unfold Bip32.neuter in Hn. cbn [ek_priv ek_key ek_chain ek_depth ek_fp ek_num ek_version negb] in Hn.
    destruct (hd_priv_to_pub ver) as [v|] eqn:Hv; [|discriminate].
    inversion Hn; subst kp; clear Hn.
    unfold Bip32.child, max_uint8. cbv zeta.
    cbn [ek_priv ek_key ek_chain ek_depth ek_fp ek_num ek_version].
    destruct (depth =? 255); [reflexivity|].
    assert (Hh : (hardened_start <=? i) = false) by (apply Z.leb_gt; exact Hi).
    rewrite Hh. cbn [negb andb].
    assert (Hd : child_data (mkEK key cc depth fp num ver true) i =
                 child_data (mkEK (Bip32.pub_key_bytes point smulG ser_P (mkEK key cc depth fp num ver true))
                                  cc depth fp num v false) i).
    { unfold Bip32.child_data. rewrite Hh. unfold Bip32.pub_key_bytes. cbn [ek_priv ek_key]. reflexivity. }
    rewrite <- Hd. rewrite half64.
    set (I := hmac512 cc (child_data (mkEK key cc depth fp num ver true) i)).
    set (il := be2z (firstn 32 I)).
    assert (Hil0 : 0 <= il) by apply il_nonneg.
    destruct (curve_n <=? il) eqn:Hnn; [reflexivity|]. cbn [orb].
    destruct (il =? 0) eqn:H0; [reflexivity|].
    apply Z.leb_gt in Hnn. apply Z.eqb_neq in H0.
    rewrite (smul_coord laws) by lia.
    unfold Bip32.pub_key_bytes. cbn [ek_priv ek_key].
    rewrite (parse_ser laws) by (apply (smul_not_inf laws); exact Hk).
    cbn [bind]. unfold Bip32.neuter.
    cbn [ek_priv ek_key ek_chain ek_depth ek_fp ek_num ek_version negb].
    rewrite Hv. unfold Bip32.pub_key_bytes. cbn [ek_priv ek_key].
    rewrite int_bytes_be2z by apply mod_n_range.
    rewrite (smul_hom laws). reflexivity.
  Qed.

  (* ---------------------------------------------------------------- String / NewKeyFromString *)
  Lemma key_data_length k :
    wf_key k ->
    length (if ek_priv k then padded_append 32 [0] (ek_key k) else pub_key_bytes k) = 33%nat.
  Proof.
    unfold wf_key, Bip32.pub_key_bytes. destruct (ek_priv k); intros H.
    - destruct H as (_ & Hl & _). unfold padded_append. rewrite !app_length, repeat_length. cbn [length]. lia.
    - tauto.
  Qed.

  Lemma serialize_parse k : wf_key k -> wf_ser k -> from_string (to_string k) = Ok (norm k).
  Proof.
    intros Hwf (Hv & Hf & Hc & Hnum & Hx).
    pose proof (key_data_length k Hwf) as Hkd.
    unfold Bip32.to_string.
    assert (Hnn : null (ek_key k) = false).
    { unfold wf_key in Hwf. destruct (ek_key k) as [|c r]; [|reflexivity].
      destruct (ek_priv k); cbn in Hwf; [lia|]. destruct Hwf as [Hl _]. discriminate. }
    rewrite Hnn. unfold Bip32.serialize_payload.
    match goal with |- context [ek_chain k ++ ?X] => set (kd := X) end.
    assert (Hkd' : length kd = 33%nat) by exact Hkd.
    destruct (payload_fields (ek_version k) (ek_depth k) (ek_fp k) (ser32 (ek_num k)) (ek_chain k) kd
                Hv Hf (ser_fixed_length 4 _) Hc Hkd') as (Hlen & S1 & S2 & S3 & S4 & S5 & S6).
    set (p := ek_version k ++ [ek_depth k] ++ ek_fp k ++ ser32 (ek_num k) ++ ek_chain k ++ kd) in *.
    unfold Bip32.from_string, Bip32.from_string_gen. cbv zeta.
    rewrite (b58_inj laws).
    assert (Hcs : length (firstn 4 (dsha256 p)) = 4%nat).
    { rewrite firstn_length, (dsha_len laws). reflexivity. }
    assert (Hd : length (p ++ firstn 4 (dsha256 p)) = 82%nat) by (rewrite app_length, Hlen, Hcs; reflexivity).
    rewrite Hd. cbn [Nat.eqb serialized_key_len Nat.add negb Nat.sub].
    rewrite (firstn_app_exact 78 p _ Hlen), (skipn_app_exact 78 p _ Hlen).
    rewrite bytes_eqb_refl. cbn [negb].
    rewrite S1, S2, S3, S4, S5, S6.
    assert (Hn : be2z (ser32 (ek_num k)) = ek_num k).
    { apply (be2z_ser_fixed 4). change (256 ^ Z.of_nat 4) with (2 ^ 32). exact Hnum. }
    rewrite Hn. unfold norm, wf_key in *. subst kd.
    destruct k as [key cc depth fp num ver priv].
    cbn [ek_priv ek_key ek_chain ek_depth ek_fp ek_num ek_version] in *.
    destruct priv.
    - destruct Hwf as (Hb & Hl & Hk). unfold padded_append. cbn [app nth tl Z.eqb].
      rewrite be2z_zeros.
      destruct (curve_n <=? be2z key) eqn:E1; [apply Z.leb_le in E1; lia|].
      destruct (be2z key =? 0) eqn:E2; [apply Z.eqb_eq in E2; lia|]. reflexivity.
    - destruct Hwf as (Hl & P & HP). unfold Bip32.pub_key_bytes. cbn [ek_priv ek_key].
      pose proof (ser_parse laws key P Hl HP) as Hser.
      destruct (nth 0 key 0 =? 0) eqn:E0.
      { apply Z.eqb_eq in E0. rewrite <- Hser in E0. exfalso. exact (serP_head laws P E0). }
      rewrite HP. specialize (Hx eq_refl).
      destruct (curve_p <=? be2z (tl key)) eqn:E1; [apply Z.leb_le in E1; lia|]. reflexivity.
  Qed.

  (* the key parsing returns denotes the same extended key, and serialises to the same string *)
  Lemma norm_abs k : abs (norm k) = abs k.
  Proof.
    destruct k as [key cc depth fp num ver priv]. unfold norm, Bip32.abs.
    cbn [ek_priv ek_key ek_chain ek_depth ek_fp ek_num ek_version].
    destruct priv; [|reflexivity].
    cbn [ek_priv ek_key ek_chain ek_depth ek_fp ek_num ek_version].
    unfold padded_append. cbn [app]. rewrite be2z_zeros. reflexivity.
  Qed.

  Lemma norm_id k : (ek_priv k = true -> key_len32 k) -> norm k = k.
  Proof.
    unfold norm, key_len32. destruct k as [key cc depth fp num ver priv]. cbn [ek_priv ek_key ek_chain ek_depth ek_fp ek_num ek_version].
    destruct priv; [|reflexivity]. intros H. unfold padded_append. rewrite (H eq_refl).
    cbn [Nat.sub repeat app]. reflexivity.
  Qed.

  Lemma norm_fields k :
    ek_chain (norm k) = ek_chain k /\ ek_depth (norm k) = ek_depth k /\ ek_fp (norm k) = ek_fp k /\
    ek_num (norm k) = ek_num k /\ ek_version (norm k) = ek_version k /\ ek_priv (norm k) = ek_priv k /\
    be2z (ek_key (norm k)) = be2z (ek_key k) /\
    (ek_priv k = true -> (length (ek_key k) <= 32)%nat -> ek_key (norm k) = repeat 0 (32 - length (ek_key k)) ++ ek_key k) /\
    (ek_priv k = false -> ek_key (norm k) = ek_key k).
  Proof.
    unfold norm. destruct (ek_priv k) eqn:Hp; cbn [ek_priv ek_key ek_chain ek_depth ek_fp ek_num ek_version];
      repeat split; auto; try discriminate.
    unfold padded_append. cbn [app]. apply be2z_zeros.
  Qed.

  Lemma parse_is_spec s : abs_out (from_string s) = spec_parse s.
  Proof.
    unfold Bip32.from_string, Bip32.from_string_gen, Bip32.spec_parse, serialized_key_len, parse256. cbv zeta.
    cbn [Nat.add].
    destruct (length (b58dec s) =? 82)%nat eqn:Hl; cbn [negb]; [|reflexivity].
    apply Nat.eqb_eq in Hl. rewrite Hl. cbn [Nat.sub].
    set (payload := firstn 78 (b58dec s)).
    destruct (bytes_eqb (skipn 78 (b58dec s)) (firstn 4 (dsha256 payload))); cbn [negb]; [|reflexivity].
    assert (Hp : length payload = 78%nat) by (unfold payload; rewrite firstn_length, Hl; reflexivity).
    assert (Hk : length (slice 45 78 payload) = 33%nat) by (rewrite slice_length; [reflexivity|lia]).
    destruct (slice 45 78 payload) as [|c r] eqn:Hkd; [discriminate|].
    cbn [nth tl].
    destruct c as [|c'|c']; cbn [Z.eqb].
    - rewrite (orb_comm (be2z r =? 0)).
      destruct ((curve_n <=? be2z r) || (be2z r =? 0)); reflexivity.
    - destruct (parse_pub (Z.pos c' :: r)) as [K|] eqn:HK; [|reflexivity].
      cbn [andb]. destruct (curve_p <=? be2z r); [reflexivity|].
      unfold Bip32.abs_out, Bip32.abs. cbn [ek_priv ek_key ek_chain ek_depth ek_fp ek_num ek_version].
      rewrite HK. reflexivity.
    - destruct (parse_pub (Z.neg c' :: r)) as [K|] eqn:HK; [|reflexivity].
      cbn [andb]. destruct (curve_p <=? be2z r); [reflexivity|].
      unfold Bip32.abs_out, Bip32.abs. cbn [ek_priv ek_key ek_chain ek_depth ek_fp ek_num ek_version].
      rewrite HK. reflexivity.
  Qed.

  (* everything NewKeyFromString must refuse, it refuses *)
  Lemma parse_rejects s :
    let d := b58dec s in
    let payload := firstn 78 d in
    let keydata := slice 45 78 payload in
    (length d <> 82%nat -> from_string s = Err EInvalidKeyLen) /\
    (length d = 82%nat -> skipn 78 d <> firstn 4 (dsha256 payload) -> from_string s = Err EBadChecksum) /\
    (length d = 82%nat -> skipn 78 d = firstn 4 (dsha256 payload) ->
       (nth 0 keydata 0 = 0 -> be2z (tl keydata) = 0 \/ curve_n <= be2z (tl keydata) ->
          from_string s = Err EUnusableSeed) /\
       (nth 0 keydata 0 <> 0 -> parse_pub keydata = None \/ curve_p <= be2z (tl keydata) ->
          from_string s = Err EPubKeyParse)).
  Proof.
    cbv zeta. unfold Bip32.from_string, Bip32.from_string_gen, serialized_key_len. cbv zeta. cbn [Nat.add].
    split; [|split].
    - intros H. apply Nat.eqb_neq in H. rewrite H. reflexivity.
    - intros H Hc. rewrite H. cbn [Nat.eqb Nat.sub negb].
      destruct (bytes_eqb (skipn 78 (b58dec s)) (firstn 4 (dsha256 (firstn 78 (b58dec s))))) eqn:E; [|reflexivity].
      apply bytes_eqb_eq in E. contradiction.
    - intros H Hc. rewrite H. cbn [Nat.eqb Nat.sub negb]. rewrite Hc, bytes_eqb_refl. cbn [negb].
      split.
      + intros H0 Hr. rewrite H0. cbn [Z.eqb].
        destruct Hr as [Hr|Hr].
        * rewrite Hr. cbn [Z.eqb]. rewrite orb_true_r. reflexivity.
        * apply Z.leb_le in Hr. rewrite Hr. reflexivity.
      + intros H0 Hr. apply Z.eqb_neq in H0. rewrite H0.
        destruct (parse_pub (slice 45 78 (firstn 78 (b58dec s)))) eqn:HP; [|reflexivity].
        destruct Hr as [Hr|Hr]; [discriminate|]. apply Z.leb_le in Hr. rewrite Hr. reflexivity.
  Qed.

  (* ... and whatever it accepts has the right length, checksum and key material *)
  Lemma parse_accepts_only s k :
    from_string s = Ok k ->
    let d := b58dec s in
    length d = 82%nat /\ skipn 78 d = firstn 4 (dsha256 (firstn 78 d)) /\
    (if ek_priv k then length (ek_key k) = 32%nat /\ be2z (ek_key k) <> 0 /\ be2z (ek_key k) < curve_n
     else length (ek_key k) = 33%nat /\ (exists P, parse_pub (ek_key k) = Some P) /\
          nth 0 (ek_key k) 0 <> 0 /\ be2z (tl (ek_key k)) < curve_p).
  Proof.
    cbv zeta. unfold Bip32.from_string, Bip32.from_string_gen, serialized_key_len. cbv zeta. cbn [Nat.add].
    destruct (length (b58dec s) =? 82)%nat eqn:Hl; cbn [negb]; [|discriminate].
    apply Nat.eqb_eq in Hl. rewrite Hl. cbn [Nat.sub].
    set (payload := firstn 78 (b58dec s)).
    destruct (bytes_eqb (skipn 78 (b58dec s)) (firstn 4 (dsha256 payload))) eqn:Hc; cbn [negb]; [|discriminate].
    apply bytes_eqb_eq in Hc.
    assert (Hp : length payload = 78%nat) by (unfold payload; rewrite firstn_length, Hl; reflexivity).
    assert (Hk : length (slice 45 78 payload) = 33%nat) by (rewrite slice_length; [reflexivity|lia]).
    set (kd := slice 45 78 payload) in *.
    destruct (nth 0 kd 0 =? 0) eqn:H0.
    - destruct (curve_n <=? be2z (tl kd)) eqn:E1; [discriminate|]. cbn [orb].
      destruct (be2z (tl kd) =? 0) eqn:E2; [discriminate|].
      intros H; inversion H; subst k; clear H. cbn [ek_priv ek_key].
      split; [reflexivity|]. split; [exact Hc|].
      apply Z.leb_gt in E1. apply Z.eqb_neq in E2.
      split; [|lia]. destruct kd; [discriminate|]. cbn [tl]. cbn [length] in Hk. lia.
    - destruct (parse_pub kd) as [P|] eqn:HP; [|discriminate]. cbn [andb].
      destruct (curve_p <=? be2z (tl kd)) eqn:E1; [discriminate|].
      intros H; inversion H; subst k; clear H. cbn [ek_priv ek_key].
      split; [reflexivity|]. split; [exact Hc|]. split; [exact Hk|].
      split; [eauto|]. split; [apply Z.eqb_neq; exact H0|]. apply Z.leb_gt; exact E1.
  Qed.

  (* the code as first found accepted a public key whose X is not below the field prime
     (whenever the point decoder does, as btcec's does); the repaired code and the
     specification refuse it *)
  Lemma unfixed_accepts_x_ge_p d K :
    length d = 82%nat -> skipn 78 d = firstn 4 (dsha256 (firstn 78 d)) ->
    let kd := slice 45 78 (firstn 78 d) in
    nth 0 kd 0 <> 0 -> parse_pub kd = Some K -> curve_p <= be2z (tl kd) ->
    (exists k, from_string_unfixed (b58enc d) = Ok k) /\
    from_string (b58enc d) = Err EPubKeyParse /\
    spec_parse (b58enc d) = Err EPubKeyParse.
  Proof.
    intros Hl Hc kd H0 HK Hx.
    assert (Hgen : forall b, from_string_gen b (b58enc d) =
                     if b && (curve_p <=? be2z (tl kd)) then Err EPubKeyParse
                     else Ok (mkEK kd (slice 13 45 (firstn 78 d)) (nth 4 (firstn 78 d) 0) (slice 5 9 (firstn 78 d))
                                   (be2z (slice 9 13 (firstn 78 d))) (slice 0 4 (firstn 78 d)) false)).
    { intros b. unfold Bip32.from_string_gen, serialized_key_len. cbv zeta. cbn [Nat.add].
      rewrite (b58_inj laws), Hl. cbn [Nat.eqb Nat.sub negb]. rewrite Hc, bytes_eqb_refl. cbn [negb].
      fold kd. apply Z.eqb_neq in H0. rewrite H0, HK. reflexivity. }
    apply Z.leb_le in Hx.
    split; [|split].
    - unfold Bip32.from_string_unfixed. rewrite Hgen. cbn [andb]. eexists; reflexivity.
    - unfold Bip32.from_string. rewrite Hgen, Hx. reflexivity.
    - rewrite <- parse_is_spec. unfold Bip32.from_string. rewrite Hgen, Hx. reflexivity.
  Qed.

  (* ---------------------------------------------------------------- serialisability of derived keys *)
  Lemma child_wf_ser parent i c :
    length (ek_version parent) = 4%nat -> 0 <= i < 2 ^ 32 ->
    child parent i = Ok c -> wf_ser c.
  Proof.
    intros Hv Hi Hc.
    unfold Bip32.child in Hc. cbv zeta in Hc. rewrite half64 in Hc.
    destruct (ek_depth parent =? max_uint8); [discriminate|].
    destruct (negb (ek_priv parent) && (hardened_start <=? i)); [discriminate|].
    set (I := hmac512 (ek_chain parent) (child_data parent i)) in *.
    set (il := be2z (firstn 32 I)) in *.
    assert (Hil0 : 0 <= il) by apply il_nonneg.
    destruct (curve_n <=? il) eqn:Hn; [discriminate|]. cbn [orb] in Hc.
    destruct (il =? 0) eqn:H0; [discriminate|].
    apply Z.leb_gt in Hn. apply Z.eqb_neq in H0.
    assert (Hfp : length (firstn 4 (hash160 (pub_key_bytes parent))) = 4%nat)
      by (rewrite firstn_length, (hash160_len laws); reflexivity).
    assert (Hcc : length (skipn 32 I) = 32%nat)
      by (unfold I; rewrite skipn_length, (hmac_len laws); reflexivity).
    destruct (ek_priv parent).
    - inversion Hc; subst c; clear Hc. unfold wf_ser.
      cbn [ek_priv ek_key ek_chain ek_depth ek_fp ek_num ek_version].
      repeat split; auto; try lia; try discriminate.
    - destruct (coord_zero (smulG il)); [discriminate|].
      destruct (parse_pub (ek_key parent)) as [P|]; [|discriminate].
      inversion Hc; subst c; clear Hc. unfold wf_ser.
      cbn [ek_priv ek_key ek_chain ek_depth ek_fp ek_num ek_version].
      repeat split; auto; try lia. intros _. apply (padd_x_range laws). lia.
  Qed.

  Lemma master_wf_ser ver seed m : length ver = 4%nat -> new_master ver seed = Ok m -> wf_ser m.
  Proof.
    intros Hv. unfold Bip32.new_master. cbv zeta.
    destruct ((length seed <? min_seed_bytes)%nat || (max_seed_bytes <? length seed)%nat); [discriminate|].
    rewrite half64.
    destruct ((curve_n <=? be2z (firstn 32 (hmac512 master_key seed))) || (be2z (firstn 32 (hmac512 master_key seed)) =? 0)); [discriminate|].
    assert (Hcc : length (skipn 32 (hmac512 master_key seed)) = 32%nat)
      by (rewrite skipn_length, (hmac_len laws); reflexivity).
    intros H; injection H as Hm; subst m. unfold wf_ser.
    cbn [ek_priv ek_key ek_chain ek_depth ek_fp ek_num ek_version].
    refine (conj Hv (conj eq_refl (conj Hcc (conj _ _)))); [lia|discriminate].
  Qed.

  Lemma neuter_wf k kp : wf_key k -> wf_ser k -> ek_priv k = true -> neuter k = Ok kp -> wf_key kp /\ wf_ser kp.
  Proof.
    intros Hwf (Hv & Hf & Hc & Hnum & Hx) Hp.
    unfold Bip32.neuter. rewrite Hp. cbn [negb].
    unfold hd_priv_to_pub. destruct (bytes_eqb (ek_version k) hd_private_key_id); [|discriminate].
    intros H; inversion H; subst kp; clear H.
    unfold wf_key in *. rewrite Hp in Hwf. destruct Hwf as (Hb & Hl & Hk).
    unfold wf_ser, Bip32.pub_key_bytes. rewrite Hp.
    cbn [ek_priv ek_key ek_chain ek_depth ek_fp ek_num ek_version].
    split.
    - split; [apply (serP_len laws)|]. exists (smulG (be2z (ek_key k))).
      apply (parse_ser laws), (smul_not_inf laws); exact Hk.
    - repeat split; auto; try lia. intros _. apply (smul_x_range laws).
  Qed.

  (* ---------------------------------------------------------------- the recorded finding, in general *)
  (* A private parent whose stored key is shorter than 32 bytes (big.Int.Bytes() of a scalar
     with a leading zero byte: non-empty, first byte non-zero) and a hardened index: the code
     feeds HMAC-SHA512 a different message than BIP-32 prescribes. *)
  Lemma short_parent_data_differs key cc depth fp num ver i :
    Forall byte key -> (0 < length key < 32)%nat -> nth 0 key 0 <> 0 -> hardened_start <= i ->
    child_data (mkEK key cc depth fp num ver true) i <> 0 :: ser256 (be2z key) ++ ser32 i.
  Proof.
    intros Hb Hl Hh Hi. unfold Bip32.child_data. cbn [ek_key].
    apply Z.leb_le in Hi. rewrite Hi.
    rewrite ser256_be2z by (auto; lia).
    destruct key as [|c r]; [cbn in Hl; lia|]. cbn [nth] in Hh.
    destruct (32 - length (c :: r))%nat as [|m] eqn:E; [cbn [length] in *; lia|].
    unfold fill. cbn [repeat app firstn].
    intros H. inversion H. contradiction.
  Qed.

  (* ---------------------------------------------------------------- keystore/hd.go *)
  Lemma bind_ok_r {A} (o : Outcome A) : bind o (fun a => Ok a) = o.
  Proof. destruct o; reflexivity. Qed.

  Lemma wallet_path m purpose coin account :
    0 <= purpose < hardened_start -> 0 <= coin <= max_coin_type -> 0 <= account <= max_account_num ->
    bind (derive_coin_type_key m purpose coin) (fun c => derive_account_key c account) =
    derive_path m [purpose + hardened_start; coin + hardened_start; account + hardened_start].
  Proof.
    unfold max_coin_type, max_account_num, hardened_start. intros Hp Hc Ha.
    unfold Bip32.derive_coin_type_key, Bip32.derive_account_key, max_coin_type, max_account_num, hardened_start, u32.
    replace (2147483648 - 1 <? coin) with false by (symmetry; apply Z.ltb_ge; lia).
    replace (2147483648 - 2 <? account) with false by (symmetry; apply Z.ltb_ge; lia).
    rewrite !Z.mod_small by lia.
    cbn [Bip32.derive_path].
    destruct (child m (purpose + 2147483648)) as [p|e]; cbn [bind]; [|reflexivity].
    destruct (child p (coin + 2147483648)) as [c|e]; cbn [bind]; [|reflexivity].
    rewrite bind_ok_r. reflexivity.
  Qed.

  Lemma wallet_path_rejects m c purpose coin account :
    (max_coin_type < coin -> derive_coin_type_key m purpose coin = Err EInvalidCoinType) /\
    (max_account_num < account -> derive_account_key c account = Err EInvalidAccountNumber).
  Proof.
    unfold Bip32.derive_coin_type_key, Bip32.derive_account_key. split; intros H;
      apply Z.ltb_lt in H; rewrite H; reflexivity.
  Qed.

  (* every key the code derives under the guard can be serialised and parsed back *)
  Lemma child_roundtrip parent x i c :
    wf_key parent -> abs parent = Some x -> step_guard parent x i ->
    length (ek_version parent) = 4%nat -> 0 <= i < 2 ^ 32 ->
    child parent i = Ok c -> from_string (to_string c) = Ok (norm c).
  Proof.
    intros Hwf Habs Hg Hv Hi Hc. apply serialize_parse.
    - exact (child_wf parent x i c Hwf Habs Hg Hc).
    - exact (child_wf_ser parent i c Hv Hi Hc).
  Qed.

  Lemma master_roundtrip ver seed m :
    length ver = 4%nat -> new_master ver seed = Ok m -> from_string (to_string m) = Ok m.
  Proof.
    intros Hv Hm. destruct (master_wf ver seed m Hm) as [Hwf H32].
    rewrite (serialize_parse m Hwf (master_wf_ser ver seed m Hv Hm)).
    rewrite norm_id; [reflexivity|]. intros _. exact H32.
  Qed.

  Lemma neuter_roundtrip k kp :
    wf_key k -> wf_ser k -> ek_priv k = true -> neuter k = Ok kp -> from_string (to_string kp) = Ok kp.
  Proof.
    intros Hwf Hs Hp Hn. destruct (neuter_wf k kp Hwf Hs Hp Hn) as [H1 H2].
    rewrite (serialize_parse kp H1 H2). rewrite norm_id; [reflexivity|].
    unfold Bip32.neuter in Hn. rewrite Hp in Hn. cbn [negb] in Hn.
    destruct (hd_priv_to_pub (ek_version k)); [|discriminate].
    injection Hn as Hk. subst kp. cbn [ek_priv]. discriminate.
  Qed.
End Theorems.

(* ================================================================== Part C *)
(* A toy instance of the primitives: the trivial group (one point), an "HMAC" that copies its
   message, hashes that copy their input. It satisfies [prim_laws] — so the hypotheses of Part B
   are consistent — and makes the divergences between the code and BIP-32 closed, computable
   statements. (With the real HMAC-SHA512 the first divergence is exhibited on the real code by
   the correspondence harness: BIP-32 test vector 4.) *)
Module Toy.
  Definition point : Type := unit.
  Definition clamp (l : bytes) : bytes := map (fun c => c mod 256) l.
  (* copies the message without its first byte, then the key *)
  Definition hmac_copy (k d : bytes) : bytes := firstn 64 (clamp (tl d ++ k) ++ repeat 1 64).
  (* depends on the key (the chain code) only *)
  Definition hmac_key (k d : bytes) : bytes := firstn 64 (clamp k ++ repeat 1 64).
  Definition smulG (_ : Z) : point := tt.
  Definition padd (_ _ : point) : point := tt.
  Definition ser_P (_ : point) : bytes := 2 :: repeat 0 32.
  Definition parse_pub (b : bytes) : option point := if bytes_eqb b (ser_P tt) then Some tt else None.
  Definition coord_zero (_ : point) : bool := false.
  Definition is_inf (_ : point) : bool := false.
  Definition hash160 (x : bytes) : bytes := firstn 20 (clamp x ++ repeat 0 20).
  Definition dsha256 (x : bytes) : bytes := firstn 32 (clamp x ++ repeat 0 32).
  Definition b58 (x : bytes) : bytes := x.

  Lemma clamp_bytes l : Forall byte (clamp l).
  Proof. unfold clamp. induction l as [|c l IH]; cbn [map]; constructor; auto. unfold byte. lia. Qed.

  Lemma repeat_bytes c n : byte c -> Forall byte (repeat c n).
  Proof. intros H. induction n; cbn [repeat]; constructor; auto. Qed.

  Lemma pad_len n (x : bytes) c : length (firstn n (x ++ repeat c n)) = n.
  Proof. rewrite firstn_length, app_length, repeat_length. lia. Qed.

  Lemma pad_bytes n x c : byte c -> Forall byte (firstn n (clamp x ++ repeat c n)).
  Proof. intros H. apply Forall_firstn', Forall_app. split; [apply clamp_bytes|apply repeat_bytes, H]. Qed.

  Lemma laws_of (h : bytes -> bytes -> bytes) :
    (forall k d, length (h k d) = 64%nat) -> (forall k d, Forall byte (h k d)) ->
    prim_laws h smulG padd ser_P parse_pub coord_zero is_inf hash160 dsha256 b58 b58.
  Proof.
    intros Hlen Hb. constructor; auto.
    - intros x. apply pad_len.
    - intros x. apply pad_len.
    - intros P. cbn. lia.
    - intros [] _. unfold parse_pub. rewrite bytes_eqb_refl. reflexivity.
    - intros b [] _. unfold parse_pub. destruct (bytes_eqb b (ser_P tt)) eqn:E; [|discriminate].
      intros _. apply bytes_eqb_eq in E. symmetry. exact E.
    - intros k. vm_compute. reflexivity.
    - intros k P _. vm_compute. reflexivity.
  Qed.

  Lemma laws_copy : prim_laws hmac_copy smulG padd ser_P parse_pub coord_zero is_inf hash160 dsha256 b58 b58.
  Proof.
    apply laws_of; intros k d; unfold hmac_copy; [apply pad_len|apply pad_bytes; unfold byte; lia].
  Qed.
  Lemma laws_key : prim_laws hmac_key smulG padd ser_P parse_pub coord_zero is_inf hash160 dsha256 b58 b58.
  Proof.
    apply laws_of; intros k d; unfold hmac_key; [apply pad_len|apply pad_bytes; unfold byte; lia].
  Qed.

  Definition child h := child h point smulG padd ser_P parse_pub coord_zero hash160.
  Definition spec_ckd h := spec_ckd h point smulG padd ser_P is_inf hash160.
  Definition abs := abs point parse_pub.
  Definition abs_out := abs_out point parse_pub.
  Definition wf_key := wf_key point parse_pub.
  Definition degenerate h := degenerate h point smulG padd ser_P is_inf.

  (* a stored private key of one byte (scalar 1), depth 1 *)
  Definition short_parent : ExtendedKey :=
    mkEK [1] (repeat 0 32) 1 [0; 0; 0; 0] 0 hd_private_key_id true.
  Definition short_parent_x : XKey point :=
    mkX (SPriv 1) (repeat 0 32) 1 [0; 0; 0; 0] 0 hd_private_key_id.

  Lemma short_parent_wf : wf_key short_parent.
  Proof.
    unfold wf_key, Bip32Proofs.wf_key, short_parent. cbn [ek_priv ek_key].
    split; [constructor; [unfold byte; lia|constructor]|]. split; [cbn; lia|]. vm_compute. split; reflexivity.
  Qed.
End Toy.

(* D2: a hardened child of a private parent whose stored key is shorter than 32 bytes is not the
   BIP-32 child, although nothing is degenerate. *)
Lemma short_parent_refuted :
  exists parent x i,
    Toy.wf_key parent /\ Toy.abs parent = Some x /\
    hardened_start <= i /\ ek_priv parent = true /\ (length (ek_key parent) < 32)%nat /\
    ~ Toy.degenerate Toy.hmac_copy x i /\
    Toy.abs_out (Toy.child Toy.hmac_copy parent i) <> Toy.spec_ckd Toy.hmac_copy x i.
Proof.
  exists Toy.short_parent, Toy.short_parent_x, hardened_start.
  split; [exact Toy.short_parent_wf|]. split; [reflexivity|].
  split; [unfold hardened_start; lia|]. split; [reflexivity|]. split; [cbn; lia|].
  split.
  - unfold Toy.degenerate, degenerate. vm_compute. intros [H|H]; discriminate H.
  - vm_compute. intros H. discriminate H.
Qed.

(* the two remaining, negligible-probability divergences (they need an HMAC output with
   IL = 0, or IL = n - k_par): the code refuses IL = 0 where BIP-32 does not ... *)
Lemma zero_il_refuted :
  exists parent x i,
    Toy.wf_key parent /\ Toy.abs parent = Some x /\ i < hardened_start /\
    Toy.abs_out (Toy.child Toy.hmac_copy parent i) = Err EInvalidChild /\
    exists c, Toy.spec_ckd Toy.hmac_copy x i = Ok c.
Proof.
  exists Toy.short_parent, Toy.short_parent_x, 0.
  split; [exact Toy.short_parent_wf|]. split; [reflexivity|]. split; [unfold hardened_start; lia|].
  split; [vm_compute; reflexivity|]. eexists. vm_compute. reflexivity.
Qed.

(* ... and returns a child with the zero scalar (stored as the empty byte string) where BIP-32
   declares the child invalid *)
Definition zero_child_parent : ExtendedKey :=
  mkEK [1] (ser256 (curve_n - 1)) 1 [0; 0; 0; 0] 0 hd_private_key_id true.
Definition zero_child_parent_x : XKey Toy.point :=
  mkX (SPriv 1) (ser256 (curve_n - 1)) 1 [0; 0; 0; 0] 0 hd_private_key_id.

Lemma zero_child_refuted :
  exists parent x i c,
    Toy.wf_key parent /\ Toy.abs parent = Some x /\ i < hardened_start /\
    Toy.child Toy.hmac_key parent i = Ok c /\ ek_key c = [] /\
    Toy.spec_ckd Toy.hmac_key x i = Err EInvalidChild.
Proof.
  exists zero_child_parent, zero_child_parent_x, 0. eexists.
  split; [exact Toy.short_parent_wf|]. split; [reflexivity|]. split; [unfold hardened_start; lia|].
  split; [vm_compute; reflexivity|]. split; [reflexivity|]. vm_compute. reflexivity.
Qed.
