(* Extraction for the C13 correspondence driver. ExtrOcamlBasic only: Z/positive/nat
   stay the extracted inductives. Run by lib/vcheck.py inside build/ocaml/C13.
   The section variables H / PBKDF2 / NFKD become ordinary function arguments that the
   driver instantiates with look-ups in the primitive table recorded by the harness. *)
From Coq Require Import Extraction ExtrOcamlBasic.
Require Import MW.Codec.Bip39.
Extraction "model.ml" new_mnemonic entropy_from_mnemonic mnemonic_to_byte_array is_mnemonic_valid
  new_seed new_seed_with_error_checking new_seed_unfixed new_seed_with_error_checking_unfixed spec_encode spec_decode canonicalb bip39_seed fields join_sp.
