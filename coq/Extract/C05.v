(* Extraction for the C03 / C05 correspondence drivers (unlock machine, SignRawTx, row shapes over
   the perfect-cryptography instance; for C05 also the keystore manager of Keys/Manager.v).
   ExtrOcamlBasic only: Z/positive/nat stay inductive.
   Run by lib/vcheck.py inside build/ocaml/C05. *)
From Coq Require Import Extraction ExtrOcamlBasic.
Require Import MW.Keys.Unlock MW.Keys.Sign MW.Keys.Exec MW.Keys.Manager MW.Keys.ExecManager.
Extraction "model.ml" x_cfg x_init x_step x_obs x_prog x_sign_raw x_verified x_witness x_rows wit_shape parse_flag
           x_name x_mfresh x_wstep x_mobs.
