(* Extraction for the C02 correspondence driver. ExtrOcamlBasic only: Z/positive/nat stay the
   extracted inductives. Run by lib/vcheck.py inside build/ocaml/C02. *)
From Coq Require Import Extraction ExtrOcamlBasic.
Require Import MW.Tx.Select MW.Tx.Fee MW.Tx.Build.
Extraction "model.ml"
  top_k top_k_spec tk_run tk_items opt_outputs sort_desc sum_amt
  eligible sel_k max_standard_tx_size
  min_relay max_amount estimate_signed_size required_fee is_dust maybe_subtract_fee
  auto_create auto_select create_raw create_raw_sel outer_fuel
  create_raw_sel_unfixed auto_tx_check manual_tx_check fee_cap find_utxo
  auto_slack_class manual_slack_class cap_funds.
