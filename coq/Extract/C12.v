(* Extraction for the C12 correspondence driver: the address model of Keys/Gap.v and the
   specification functions of Ledger/Spec.v it is compared with. *)
From Coq Require Import Extraction ExtrOcamlBasic.
Require Import MW.Ledger.Model MW.Ledger.Spec MW.Keys.Gap.
Extraction "model.ml" wal_empty new_address api_create_address wal_reload wal_restore wal_sync
  listing mine_of oracle_of pays_any pays_form spec_refuse gap_inv_b balance_of_chain common_prefix
  block_outs out_form issue_run.
