(* Extraction for the C19 correspondence driver. ExtrOcamlBasic only: Z/N/positive/nat stay the
   extracted inductives. Run by lib/vcheck.py inside build/ocaml/C19. *)
From Coq Require Import Extraction ExtrOcamlBasic.
Require Import MW.Gen.Consts MW.Codec.Amount MW.Api.Validate MW.Api.Panic.
Extraction "model.ml" handle prologue trim_ascii all_fixed as_found current_code hash_from_str
  async_import filter_tx_input get_tx_history amount_to_string_p string_to_amount_p.
