(* Extraction for the C14 correspondence driver. ExtrOcamlBasic only: Z/positive/nat stay the
   extracted inductives. The Section variables of Codec/Bip32.v become leading function
   arguments; ocaml/C14/driver.ml instantiates them with table lookups.
   Run by lib/vcheck.py inside build/ocaml/C14. *)
From Coq Require Import Extraction ExtrOcamlBasic.
Require Import MW.Codec.Bip32 MW.Codec.Bip32Obj.
Extraction "model.ml"
  new_master child neuter to_string from_string from_string_unfixed api_key api_pub derive_path
  derive_coin_type_key derive_account_key check_branch_keys
  spec_master spec_ckd spec_neuter spec_string spec_api_key spec_point_of spec_derive_path spec_parse
  spec_coin_type_key spec_account_key abs
  run_script
  curve_n curve_p hardened_start min_seed_bytes max_seed_bytes serialized_key_len master_key
  hd_private_key_id hd_public_key_id max_coin_type max_account_num external_branch internal_branch.
