(* Extraction for the C16 correspondence driver. ExtrOcamlBasic only: Z/positive/nat
   stay the extracted inductives. Run by lib/vcheck.py inside build/ocaml/C16. *)
From Coq Require Import Extraction ExtrOcamlBasic.
Require Import MW.Gen.Consts MW.Codec.Script.
Extraction "model.ml" parse_pk_script extract_address_infos_gen e2_fixed e3_guarded script_class
  extract_pk_script_addrs wallet_spec spec_template consensus_addrs
  wallet_pay_to_witness_v0 wallet_staking_script pay_to_staking_addr_script wallet_binding_script pay_to_binding_script
  valid_target MinFrozenPeriod SequenceLockTimeMask BindingLockedPeriod MaxDataCarrierSize MaxScriptElementSize.
