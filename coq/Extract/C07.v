(* Extraction for the import / removal correspondence driver (C07 and C08). *)
From Coq Require Import Extraction ExtrOcamlBasic.
Require Import MW.Ledger.Model MW.Ledger.Spec MW.Ledger.Run MW.Ledger.Import MW.Ledger.Remove.
Extraction "model.ml" xstep xinit_sim xinit xreport game_rows spec_report xprocess import_batch import_start
  new_wallet wallet_known remove_request remove_phase1 remove_round use_wallet status_of key_owner mentions catchup find_tx repaired as_found.
