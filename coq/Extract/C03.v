(* Extraction for the C03 / C05 correspondence drivers (unlock machine, SignRawTx, row shapes over
   the perfect-cryptography instance). ExtrOcamlBasic only: Z/positive/nat stay inductive.
   Run by lib/vcheck.py inside build/ocaml/C03. *)
From Coq Require Import Extraction ExtrOcamlBasic.
Require Import MW.Keys.Unlock MW.Keys.Sign MW.Keys.Exec.
Extraction "model.ml" x_cfg x_init x_step x_obs x_prog x_sign_raw x_verified x_witness x_rows wit_shape parse_flag.
