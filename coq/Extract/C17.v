(* Extraction for the C17 correspondence driver: Ledger histories + scheduled queries + scheduled
   transaction-building calls. *)
From Coq Require Import Extraction ExtrOcamlBasic.
Require Import MW.Ledger.Model MW.Ledger.Spec MW.Ledger.Run MW.Sched.Reads MW.Sched.Build.
Extraction "model.ml" step init_sim model_report spec_report own_of process
  answer nreads answer_at stores_of immature_at store_at monotone
  build_sched tx_boundary refusal_boundary lookup_can_fail manual_lookups manual_boundary cands idx.
