(* Extraction for the C17 correspondence driver: Ledger histories + scheduled queries. *)
From Coq Require Import Extraction ExtrOcamlBasic.
Require Import MW.Ledger.Model MW.Ledger.Spec MW.Ledger.Run MW.Sched.Reads.
Extraction "model.ml" step init_sim model_report spec_report own_of process
  answer nreads answer_at stores_of immature_at store_at monotone.
