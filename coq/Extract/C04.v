(* Extraction for the C04 correspondence driver: the wallet's key tree (Keys/Derive.v over
   Codec/Bip32.v and Codec/Bip39.v). ExtrOcamlBasic only. The Section variables become leading
   function arguments; ocaml/C04/driver.ml instantiates them with table lookups.
   Run by lib/vcheck.py inside build/ocaml/C04. *)
From Coq Require Import Extraction ExtrOcamlBasic.
Require Import MW.Codec.Bip32 MW.Keys.Derive.
Extraction "model.ml" wallet_id wallet_addr create_seed import_mnemonic_seed.
