(* Extraction for the Ledger correspondence driver (C01 and the properties reusing it). *)
From Coq Require Import Extraction ExtrOcamlBasic.
Require Import MW.Ledger.Model MW.Ledger.Spec MW.Ledger.Run.
Extraction "model.ml" step init_sim model_report spec_report own_of process.
