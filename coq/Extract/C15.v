(* Extraction for the C15 correspondence driver. ExtrOcamlBasic only: Z/positive/nat
   stay the extracted inductives. Run by lib/vcheck.py inside build/ocaml/C15. *)
From Coq Require Import Extraction ExtrOcamlBasic.
Require Import MW.Codec.Amount.
Extraction "model.ml" parse_amount parse_amount_unfixed format_amount spec_parse canon max_amount.
