(* Extraction for the C11 correspondence driver. ExtrOcamlBasic only: Z/positive/nat
   stay the extracted inductives. Run by lib/vcheck.py inside build/ocaml/C11. *)
From Coq Require Import Extraction ExtrOcamlBasic.
Require Import MW.KV.Model.
Extraction "model.ml" step step_unrepaired step_seek_unrepaired step_iter_unmerged init_state.
