(* Extraction for the pending-set / deposit-history correspondence driver (C09 and C10). *)
From Coq Require Import Extraction ExtrOcamlBasic.
Require Import MW.Ledger.Model MW.Ledger.Spec MW.Ledger.Run MW.Ledger.Pending.
Extraction "model.ml" pstep init_psim receive_tx pprocess model_report spec_report own_of
  flag_rows eligible_list eligible read_unmined game_history
  ideal_pending settled_pending tx_on_chain spec_flag spec_mined_history spec_unmined_history spec_relevant
  spec_withdrawable built_sequence required_sequence csv_ok consensus_unlock_height sequence_lock_active mature.
