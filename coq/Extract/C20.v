(* Extraction for the C20 driver (state-space enumeration, trace inclusion; the check mode runs on the system with
   retry waits, Sched/HandshakeRetry.v, which has the steps of Handshake.v when no refusal is to come). ExtrOcamlBasic only.
   Z.of_nat is extracted only because ocaml/common/conv.ml mentions the types z and positive. *)
From Coq Require Import Extraction ExtrOcamlBasic ZArith.
Require Import MW.Sched.Handshake MW.Sched.HandshakeRetry.
Extraction "model.ml" step_l step init_state start_state start_cap cfg_cap busy_threshold rank observable quit cfg_found cfg_repaired
  rstep_l rinit robservable rcfg_code rcfg_seeded Z.of_nat.
