(* Extraction for the C20 driver (state-space enumeration, trace inclusion). ExtrOcamlBasic only. *)
From Coq Require Import Extraction ExtrOcamlBasic.
Require Import MW.Sched.Handshake.
Extraction "model.ml" step_l step init_state rank observable quit cfg_found cfg_repaired.
