(* Extraction for the C20 driver (state-space enumeration, trace inclusion). ExtrOcamlBasic only.
   Z.of_nat is extracted only because ocaml/common/conv.ml mentions the types z and positive. *)
From Coq Require Import Extraction ExtrOcamlBasic ZArith.
Require Import MW.Sched.Handshake.
Extraction "model.ml" step_l step init_state start_state start_cap cfg_cap busy_threshold rank observable quit cfg_found cfg_repaired Z.of_nat.
