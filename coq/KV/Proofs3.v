(* KV — the nested-map refinement (property C11).
   Part A: what each write operation does to the transaction's view [vw s b] = the store as it would be after commit,
           key by key (put, delete, clear).
   Part B: recursive bucket deletion: it only removes, only inside the deleted bucket's subtree, and (when it answers
           nil) removes every node of the subtree that is connected to it.
   Part C: the abstract nested map [tree] = { entries : key -> option value ; children : name -> option tree }, the
           abstraction relation [rep], the abstraction function [abs_tree], uniqueness up to extensional equality.
   Part D: every model operation commutes with the tree operation. *)
From Coq Require Import List ZArith Bool Lia Sorted Permutation.
Import ListNotations.
Open Scope Z_scope.
Require Import MW.KV.Model MW.KV.Proofs MW.KV.Proofs2.

(* ================================================================== Part A: the view, key by key *)
Definition vw (s : store) (b : batch) (key : bytes) : option bytes := s_get key (commit s b).

Lemma vw_put : forall s b k v key, vw s (batch_put b k v) key = if beqb key k then Some v else vw s b key.
Proof.
  intros. unfold vw, commit, b_log. cbn [batch_put b_rlog rev]. rewrite apply_log_snoc, apply_op_get. reflexivity.
Qed.
Lemma vw_delete : forall s b k key, vw s (batch_delete b k) key = if beqb key k then None else vw s b key.
Proof.
  intros. unfold vw, commit, b_log. cbn [batch_delete b_rlog rev]. rewrite apply_log_snoc, apply_op_get. reflexivity.
Qed.
Lemma vw_empty : forall s key, vw s empty_batch key = s_get key s.
Proof. reflexivity. Qed.

Lemma vw_none_of_deleted : forall s b k, batch_ok b -> snd (batch_get b k) = true -> vw s b k = None.
Proof.
  intros s b k Hb H. unfold vw. rewrite commit_get by exact Hb. unfold batch_view.
  destruct (batch_get_shape b k) as [E|[E|[v E]]]; rewrite E in *; cbn in H; try discriminate. reflexivity.
Qed.

Lemma delete_committed_ok : forall ents b, batch_ok b -> batch_ok (delete_committed b ents).
Proof.
  induction ents as [|[key v] ents IH]; intros b Hb; cbn [delete_committed]; auto.
  destruct (snd (batch_get b key)); apply IH; auto using batch_ok_delete.
Qed.

Lemma vw_delete_committed : forall s ents b key, batch_ok b ->
  vw s (delete_committed b ents) key = if existsb (beqb key) (map fst ents) then None else vw s b key.
Proof.
  intros s. induction ents as [|[k v] ents IH]; intros b key Hb; cbn [delete_committed map fst existsb]; [reflexivity|].
  destruct (snd (batch_get b k)) eqn:Ed.
  - rewrite IH by exact Hb. destruct (beqb key k) eqn:E; cbn [orb]; [|reflexivity].
    apply beqb_true_iff in E. subst key. destruct (existsb (beqb k) (map fst ents)); [reflexivity|].
    apply vw_none_of_deleted; auto.
  - rewrite IH by (apply batch_ok_delete; exact Hb). rewrite vw_delete.
    destruct (beqb key k); cbn [orb]; destruct (existsb (beqb key) (map fst ents)); reflexivity.
Qed.
Lemma vw_delete_keys : forall s keys b key,
  vw s (delete_keys b keys) key = if existsb (beqb key) keys then None else vw s b key.
Proof.
  intros s. unfold delete_keys. induction keys as [|k keys IH]; intros b key; cbn [fold_left existsb]; [reflexivity|].
  rewrite IH, vw_delete. destruct (beqb key k); cbn [orb]; destruct (existsb (beqb key) keys); reflexivity.
Qed.

(* Clear / the k/v loop of deleteBucket: exactly the keys with the bucket's prefix disappear from the view *)
Lemma vw_clear_kv : forall s b path key, keys_sorted s -> store_ok s -> batch_wf b -> bytes_ok path ->
  vw s (clear_kv s b path) key = if has_prefix (path ++ [SEP]) key then None else vw s b key.
Proof.
  intros s b path key Hsorted Hs Hwf Hpath. unfold clear_kv. set (prefix := path ++ [SEP]).
  assert (Hpb : bytes_ok prefix).
  { unfold prefix. apply bytes_ok_app; auto. constructor; [apply sep_byte_ok|constructor]. }
  set (b1 := delete_committed b (prefix_entries s prefix)).
  assert (Hwf1 : batch_wf b1) by (apply delete_committed_wf; exact Hwf).
  assert (H1 : vw s b1 key = if existsb (beqb key) (map fst (prefix_entries s prefix)) then None else vw s b key)
    by (apply vw_delete_committed; apply Hwf).
  rewrite vw_delete_keys.
  destruct (existsb (beqb key) (map fst (net_puts_by_prefix b1 prefix))) eqn:E2.
  - apply existsb_beqb_in in E2. apply in_map_iff in E2. destruct E2 as [[k d] [Ek Hin]]. cbn in Ek. subst k.
    apply net_puts_in_puts in Hin. destruct Hin as [Hp _]. rewrite Hp. reflexivity.
  - rewrite H1. destruct (existsb (beqb key) (map fst (prefix_entries s prefix))) eqn:E1.
    + apply existsb_beqb_in in E1. apply in_map_iff in E1. destruct E1 as [[k d] [Ek Hin]]. cbn in Ek. subst k.
      apply prefix_entries_sub in Hin; auto. destruct Hin as [_ Hp]. rewrite Hp. reflexivity.
    + destruct (has_prefix prefix key) eqn:Ep; [|reflexivity].
      (* nothing committed and no net put under the prefix is left: the view has nothing there *)
      rewrite <- H1. unfold vw. rewrite commit_get by (apply Hwf1).
      assert (Hs0 : s_get key s = None).
      { destruct (s_get key s) as [v|] eqn:Eg; [|reflexivity]. exfalso.
        assert (Hin : In (key, v) (prefix_entries s prefix)).
        { apply prefix_entries_in; auto. eapply entry_ok_bytes. eapply store_ok_get; eauto. }
        assert (Hex : existsb (beqb key) (map fst (prefix_entries s prefix)) = true).
        { apply existsb_beqb_in. apply in_map_iff. exists (key, v). auto. }
        congruence. }
      destruct (batch_view b1 key) as [[d|]|] eqn:Ev; auto. exfalso.
      assert (Hin : In (key, d) (net_puts_by_prefix b1 prefix)) by (apply net_puts_in; auto).
      assert (Hex : existsb (beqb key) (map fst (net_puts_by_prefix b1 prefix)) = true).
      { apply existsb_beqb_in. apply in_map_iff. exists (key, d). auto. }
      congruence.
Qed.

(* ================================================================== Part B: recursive deletion *)
(* [key] belongs to the bucket with name tuple [ms]: its index entry or one of its data entries *)
Definition node_key (ms : list bytes) (key : bytes) : Prop :=
  key = index_key (path_of ms) \/ exists uk, key = inner_key (path_of ms) uk.
(* [key] belongs to a bucket in the subtree of [ns] *)
Definition under (ns : list bytes) (key : bytes) : Prop :=
  exists ms, names_wf (ns ++ ms) /\ node_key (ns ++ ms) key.
(* view [f'] is view [f] with some keys of the subtree of [ns] removed, and nothing else changed *)
Definition shrinks (ns : list bytes) (f f' : bytes -> option bytes) : Prop :=
  forall key, f' key = f key \/ (f' key = None /\ under ns key).

Lemma shrinks_refl : forall ns f, shrinks ns f f.
Proof. intros ns f key. auto. Qed.
Lemma shrinks_trans : forall ns f g h, shrinks ns f g -> shrinks ns g h -> shrinks ns f h.
Proof.
  intros ns f g h H1 H2 key. destruct (H2 key) as [E|[E U]]; [|auto]. rewrite E. apply H1.
Qed.
Lemma under_sub : forall ns c key, under (ns ++ [c]) key -> under ns key.
Proof.
  intros ns c key [ms [Hw Hk]]. exists (c :: ms). rewrite <- app_assoc in Hw, Hk. cbn [app] in Hw, Hk. auto.
Qed.
Lemma shrinks_sub : forall ns c f g, shrinks (ns ++ [c]) f g -> shrinks ns f g.
Proof. intros ns c f g H key. destruct (H key) as [E|[E U]]; [left; exact E|right; split; [exact E|eapply under_sub; exact U]]. Qed.
Lemma shrinks_none : forall ns f g key, shrinks ns f g -> f key = None -> g key = None.
Proof. intros ns f g key H E. destruct (H key) as [E'|[E' _]]; congruence. Qed.
Lemma under_self : forall ns key, names_wf ns -> node_key ns key -> under ns key.
Proof. intros ns key Hw Hk. exists []. rewrite app_nil_r. auto. Qed.

(* handles *)
Definition hnd (h : handle) (ns : list bytes) : Prop := names_ok ns /\ h_path h = path_of ns /\ h_depth h = length ns.
Lemma hnd_handle_ok : forall h ns, hnd h ns -> handle_ok h.
Proof. intros h ns [H1 [H2 H3]]. exists ns. auto. Qed.
Lemma hnd_path_bytes : forall h ns, hnd h ns -> bytes_ok (h_path h).
Proof. intros h ns [[_ [_ Hb]] [Hp _]]. rewrite Hp. apply path_of_bytes_ok. exact Hb. Qed.

Lemma index_key_name_bytes : forall ns n, bytes_ok (index_key (path_of (ns ++ [n]))) -> bytes_ok n.
Proof.
  intros ns n H. rewrite child_key in H. apply Forall_app in H. tauto.
Qed.
(* Bucket(name) only ever answers for legal names: the index entry it found has the shape *)
Lemma bucket_some_hnd : forall s ob h ns name sub, store_ok s -> obatch_ok ob -> hnd h ns ->
  bucket s ob h name = Some sub -> hnd sub (ns ++ [name]) /\ is_valid_bucket_name name = true.
Proof.
  intros s ob h ns name sub Hs Hb [Hns [Hp Hd]] H. unfold bucket in H.
  destruct (sub_bucket h name) as [sub'|e] eqn:Es; [|discriminate].
  destruct (bucket_exists s ob (index_key (h_path sub'))) eqn:Ex; inversion H; subst sub'.
  destruct Hns as [Hne [Hv Hbn]].
  destruct (sub_bucket_wf h name sub ns Hv Hne Hp Hd Es) as [Hn [Hp' Hd']].
  destruct (bucket_exists_entry _ _ _ Hs Hb Ex) as [v Hv']. apply entry_ok_bytes in Hv'. rewrite Hp' in Hv'.
  apply index_key_name_bytes in Hv'.
  split; [|exact Hn]. split; [|split; auto]. apply names_ok_snoc; auto. split; auto.
Qed.

Definition binv (b : batch) : Prop := batch_wf b /\ batch_idx_ok b.
Lemma binv_delete : forall b k, binv b -> binv (batch_delete b k).
Proof. intros b k [H1 H2]. split; [apply batch_wf_delete|apply batch_idx_ok_delete]; auto. Qed.
Lemma binv_clear_kv : forall s b path, binv b -> binv (clear_kv s b path).
Proof. intros s b path [H1 H2]. split; [apply clear_kv_wf; auto|apply clear_kv_P; auto using batch_idx_ok_delete]. Qed.
Lemma binv_delete_rec : forall fuel s b h, binv b -> binv (snd (delete_rec fuel s b h)).
Proof.
  intros fuel s b h [H1 H2]. split; [apply delete_rec_wf; auto|apply delete_rec_P; auto using batch_idx_ok_delete].
Qed.

(* the loop over the children, named *)
Definition del_step (f : nat) (s : store) (h : handle) (acc : result unit * batch) (subname : bytes) : result unit * batch :=
  match acc with
  | (Err e, b') => (Err e, b')
  | (Ok _, b') => match bucket s (Some b') h subname with
                  | None => (Ok tt, b')
                  | Some sub => delete_rec f s b' sub
                  end
  end.
Lemma delete_rec_S : forall f s b h,
  delete_rec (S f) s b h =
  if (h_depth h =? 1)%nat then (Err ENotSupported, b)
  else match bucket_names s (Some b) h with
       | Err e => (Err e, b)
       | Ok subnames =>
           match fold_left (del_step f s h) subnames (Ok tt, b) with
           | (Err e, b') => (Err e, b')
           | (Ok _, b') => (Ok tt, batch_delete (clear_kv s b' (h_path h)) (index_key (h_path h)))
           end
       end.
Proof. reflexivity. Qed.
Lemma fold_del_err : forall f s h l e b, fold_left (del_step f s h) l (Err e, b) = (Err e, b).
Proof. intros f s h. induction l as [|c l IH]; intros e b; cbn [fold_left del_step]; auto. Qed.

(* deletion only removes, and only inside the subtree *)
Lemma has_prefix_data_key : forall ns key, has_prefix (path_of ns ++ [SEP]) key = true -> node_key ns key.
Proof.
  intros ns key H. apply has_prefix_iff in H. destruct H as [r Hr]. right. exists r. rewrite inner_key_as_app. exact Hr.
Qed.

Section DeleteShrinks.
  Variable s : store.
  Hypothesis Hsorted : keys_sorted s.
  Hypothesis Hs : store_ok s.

  Lemma finish_shrinks : forall b h ns, binv b -> hnd h ns ->
    shrinks ns (vw s b) (vw s (batch_delete (clear_kv s b (h_path h)) (index_key (h_path h)))).
  Proof.
    intros b h ns [Hwf Hidx] Hh key. pose proof Hh as [[_ Hw] [Hp _]].
    rewrite vw_delete, vw_clear_kv by (auto; eapply hnd_path_bytes; eauto). rewrite Hp.
    destruct (beqb key (index_key (path_of ns))) eqn:E.
    - right. split; auto. apply beqb_true_iff in E. apply under_self; auto. left. exact E.
    - destruct (has_prefix (path_of ns ++ [SEP]) key) eqn:Ep; auto.
      right. split; auto. apply under_self; auto. apply has_prefix_data_key. exact Ep.
  Qed.

  Lemma delete_rec_shrinks : forall fuel b h ns, binv b -> hnd h ns ->
    shrinks ns (vw s b) (vw s (snd (delete_rec fuel s b h))).
  Proof.
    induction fuel as [|fuel IH]; intros b h ns Hb Hh; [apply shrinks_refl|]. rewrite delete_rec_S.
    destruct (h_depth h =? 1)%nat; [apply shrinks_refl|].
    destruct (bucket_names s (Some b) h) as [subnames|e]; [|apply shrinks_refl].
    assert (Hf : binv (snd (fold_left (del_step fuel s h) subnames (Ok tt, b))) /\
                 shrinks ns (vw s b) (vw s (snd (fold_left (del_step fuel s h) subnames (Ok tt, b))))).
    { apply (fold_left_snd_inv (fun b' => binv b' /\ shrinks ns (vw s b) (vw s b'))); [|split; [exact Hb|apply shrinks_refl]].
      intros [[u|e] b'] c [Hb' Hsh]; cbn [snd del_step] in *; [|auto].
      destruct (bucket s (Some b') h c) as [sub|] eqn:Eb; cbn [snd]; [|auto].
      destruct (bucket_some_hnd s (Some b') h ns c sub Hs (proj2 Hb') Hh Eb) as [Hsub _].
      split; [apply binv_delete_rec; exact Hb'|].
      eapply shrinks_trans; [exact Hsh|]. apply (shrinks_sub ns c). apply IH; [exact Hb'|exact Hsub]. }
    destruct (fold_left (del_step fuel s h) subnames (Ok tt, b)) as [[u|e] b']; cbn [snd] in *; [|tauto].
    destruct Hf as [Hb' Hsh]. eapply shrinks_trans; [exact Hsh|]. apply finish_shrinks; auto.
  Qed.

  Lemma fold_del_shrinks : forall fuel h ns l b, binv b -> hnd h ns ->
    binv (snd (fold_left (del_step fuel s h) l (Ok tt, b))) /\
    shrinks ns (vw s b) (vw s (snd (fold_left (del_step fuel s h) l (Ok tt, b)))).
  Proof.
    intros fuel h ns l b Hb Hh.
    apply (fold_left_snd_inv (fun b' => binv b' /\ shrinks ns (vw s b) (vw s b'))); [|split; [exact Hb|apply shrinks_refl]].
    intros [[u|e] b'] c [Hb' Hsh]; cbn [snd del_step] in *; [|auto].
    destruct (bucket s (Some b') h c) as [sub|] eqn:Eb; cbn [snd]; [|auto].
    destruct (bucket_some_hnd s (Some b') h ns c sub Hs (proj2 Hb') Hh Eb) as [Hsub _].
    split; [apply binv_delete_rec; exact Hb'|].
    eapply shrinks_trans; [exact Hsh|]. apply (shrinks_sub ns c). apply delete_rec_shrinks; [exact Hb'|exact Hsub].
  Qed.
End DeleteShrinks.

(* --- completeness: everything connected to the deleted bucket goes *)
Lemma path_of_inj : forall A B, A <> [] -> B <> [] -> valid_names A -> valid_names B -> path_of A = path_of B -> A = B.
Proof.
  intros A B HA HB VA VB H. rewrite !path_of_unfold in H.
  destruct A as [|a A]; [congruence|]. destruct B as [|b B]; [congruence|].
  pose proof H as H'. rewrite !tail_of_cons in H'. apply sep_split_unique in H'; auto using itoa_no_sep. destruct H' as [Ei _].
  apply itoa_inj in Ei. rewrite Ei in H. apply app_inv_head in H.
  assert (H2 : tail_of (a :: A) ++ SEP :: [] = tail_of (b :: B) ++ SEP :: []) by (rewrite H; reflexivity).
  apply names_tail_inj in H2; auto using valid_names_no_sep. tauto.
Qed.

Lemma idx_not_under : forall ns c c1 r, c <> c1 -> valid_names (ns ++ c :: r) ->
  ~ under (ns ++ [c1]) (index_key (path_of (ns ++ c :: r))).
Proof.
  intros ns c c1 r Hne Hv [ms [[Hw _] [E|[uk E]]]].
  - apply index_key_injective in E. apply path_of_inj in E; auto; try (destruct ns; discriminate).
    rewrite <- app_assoc in E. apply app_inv_head in E. cbn in E. inversion E. congruence.
  - eapply index_data_disjoint; [|exact E]. exists ((ns ++ [c1]) ++ ms). split; [destruct ns; discriminate|]. split; auto.
Qed.
Lemma data_not_under : forall ns c c1 r uk, c <> c1 -> valid_names (ns ++ c :: r) ->
  ~ under (ns ++ [c1]) (inner_key (path_of (ns ++ c :: r)) uk).
Proof.
  intros ns c c1 r uk Hne Hv [ms [[Hw _] [E|[uk' E]]]].
  - symmetry in E. eapply index_data_disjoint; [|exact E]. exists (ns ++ c :: r). split; [destruct ns; discriminate|]. split; auto.
  - apply inner_key_injective in E.
    + destruct E as [E _]. apply path_of_inj in E; auto; try (destruct ns; discriminate).
      rewrite <- app_assoc in E. apply app_inv_head in E. cbn in E. inversion E. congruence.
    + exists (ns ++ c :: r). split; [destruct ns; discriminate|]. split; auto.
    + exists ((ns ++ [c1]) ++ ms). split; [destruct ns; discriminate|]. split; auto.
Qed.

(* the buckets  ns+[c1], ns+[c1;c2], ...  all exist in view [f] *)
Fixpoint chain (f : bytes -> option bytes) (ns ms : list bytes) : Prop :=
  match ms with
  | [] => True
  | c :: ms' => f (index_key (path_of (ns ++ [c]))) <> None /\ chain f (ns ++ [c]) ms'
  end.

Lemma valid_names_shift : forall ns c r (m : bytes) ms', valid_names (ns ++ c :: r ++ m :: ms') ->
  valid_names ((ns ++ c :: (r ++ [m])) ++ ms').
Proof.
  intros ns c r m ms' H. replace ((ns ++ c :: (r ++ [m])) ++ ms') with (ns ++ c :: r ++ m :: ms'); [exact H|].
  rewrite <- app_assoc. cbn [app]. rewrite <- app_assoc. reflexivity.
Qed.
Lemma chain_keep : forall f f' ns c c1, shrinks (ns ++ [c1]) f f' -> c <> c1 ->
  forall ms' r, valid_names (ns ++ c :: r ++ ms') -> chain f (ns ++ c :: r) ms' -> chain f' (ns ++ c :: r) ms'.
Proof.
  intros f f' ns c c1 Hsh Hne. induction ms' as [|m ms' IH]; intros r Hv Hc; cbn [chain] in *; [exact I|].
  destruct Hc as [H1 H2].
  assert (E : (ns ++ c :: r) ++ [m] = ns ++ c :: (r ++ [m])) by (rewrite <- app_assoc; reflexivity).
  rewrite E in *. pose proof (valid_names_shift ns c r m ms' Hv) as Hv'. split.
  - destruct (Hsh (index_key (path_of (ns ++ c :: r ++ [m])))) as [Eq|[_ U]]; [rewrite Eq; exact H1|].
    exfalso. eapply idx_not_under; [exact Hne| |exact U]. apply Forall_app in Hv'. tauto.
  - apply IH; [|exact H2]. rewrite <- app_assoc in Hv'. cbn [app] in Hv'. exact Hv'.
Qed.
Lemma chain_transfer : forall f f' ns c c1 ms', shrinks (ns ++ [c1]) f f' -> c <> c1 ->
  valid_names (ns ++ c :: ms') -> chain f ns (c :: ms') -> chain f' ns (c :: ms').
Proof.
  intros f f' ns c c1 ms' Hsh Hne Hv [H1 H2]. cbn [chain]. split.
  - destruct (Hsh (index_key (path_of (ns ++ [c])))) as [Eq|[_ U]]; [rewrite Eq; exact H1|].
    exfalso. eapply (idx_not_under ns c c1 []); [exact Hne| |exact U].
    replace (ns ++ c :: ms') with ((ns ++ [c]) ++ ms') in Hv by (rewrite <- app_assoc; reflexivity).
    apply Forall_app in Hv. tauto.
  - apply (chain_keep f f' ns c c1 Hsh Hne ms' []); auto.
Qed.

Lemma names_wf_mid : forall ns (c : bytes) ms', names_wf (ns ++ c :: ms') -> is_valid_bucket_name c = true.
Proof.
  intros ns c ms' [Hv _]. apply Forall_app in Hv. destruct Hv as [_ Hv]. inversion Hv; auto.
Qed.

Section DeleteComplete.
  Variable s : store.
  Hypothesis Hsorted : keys_sorted s.
  Hypothesis Hs : store_ok s.

  Lemma fold_del_complete : forall fuel h ns, hnd h ns ->
    (forall b sub ns' b', binv b -> hnd sub ns' -> delete_rec fuel s b sub = (Ok tt, b') ->
       forall ms key, names_wf (ns' ++ ms) -> node_key (ns' ++ ms) key -> chain (vw s b) ns' ms -> vw s b' key = None) ->
    forall l b bn, binv b -> fold_left (del_step fuel s h) l (Ok tt, b) = (Ok tt, bn) ->
    forall c ms' key, In c l -> names_wf (ns ++ c :: ms') -> node_key (ns ++ c :: ms') key ->
      chain (vw s b) ns (c :: ms') -> vw s bn key = None.
  Proof.
    intros fuel h ns Hh Hrec. induction l as [|c1 l IH]; intros b bn Hb Hfold c ms' key Hin Hw Hk Hc; [destruct Hin|].
    cbn [fold_left] in Hfold. cbn [del_step] in Hfold.
    destruct (beqb c c1) eqn:Ec.
    - apply beqb_true_iff in Ec. subst c1.
      pose proof (names_wf_mid ns c ms' Hw) as Hval. pose proof Hh as [Hns [Hp Hdp]].
      assert (Hex : bucket s (Some b) h c <> None).
      { apply (listed_child_opens s (Some b) h ns c); auto; [apply Hb|]. split; [exact Hval|]. destruct Hc as [Hc _]. exact Hc. }
      destruct (bucket s (Some b) h c) as [sub|] eqn:Eb; [|congruence].
      destruct (bucket_some_hnd s (Some b) h ns c sub Hs (proj2 Hb) Hh Eb) as [Hsub _].
      pose proof (binv_delete_rec fuel s b sub Hb) as Hb1.
      destruct (delete_rec fuel s b sub) as [[u|e] b1] eqn:Ed; [|rewrite fold_del_err in Hfold; discriminate].
      destruct u. cbn [snd] in Hb1.
      assert (H1 : vw s b1 key = None).
      { apply (Hrec b sub (ns ++ [c]) b1 Hb Hsub Ed ms' key); rewrite <- ?app_assoc; cbn [app]; auto.
        destruct Hc as [_ Hc]. exact Hc. }
      pose proof (fold_del_shrinks s Hsorted Hs fuel h ns l b1 Hb1 Hh) as [_ Hsh]. rewrite Hfold in Hsh. cbn [snd] in Hsh.
      eapply shrinks_none; eauto.
    - apply beqb_false_iff in Ec. destruct Hin as [E|Hin]; [congruence|].
      destruct (bucket s (Some b) h c1) as [sub|] eqn:Eb.
      + destruct (bucket_some_hnd s (Some b) h ns c1 sub Hs (proj2 Hb) Hh Eb) as [Hsub _].
        pose proof (binv_delete_rec fuel s b sub Hb) as Hb1.
        pose proof (delete_rec_shrinks s Hsorted Hs fuel b sub (ns ++ [c1]) Hb Hsub) as Hsh.
        destruct (delete_rec fuel s b sub) as [[u|e] b1] eqn:Ed; [|rewrite fold_del_err in Hfold; discriminate].
        destruct u. cbn [snd] in Hb1, Hsh.
        apply (IH b1 bn Hb1 Hfold c ms' key Hin Hw Hk). apply (chain_transfer _ _ ns c c1 ms' Hsh Ec); [apply Hw|exact Hc].
      + apply (IH b bn Hb Hfold c ms' key Hin Hw Hk Hc).
  Qed.

  (* when deleteBucket answers nil, every bucket connected to the deleted one through existing buckets is gone, with its data *)
  Lemma delete_rec_complete : forall fuel b h ns b', binv b -> hnd h ns -> delete_rec fuel s b h = (Ok tt, b') ->
    forall ms key, names_wf (ns ++ ms) -> node_key (ns ++ ms) key -> chain (vw s b) ns ms -> vw s b' key = None.
  Proof.
    induction fuel as [|fuel IH]; intros b h ns b' Hb Hh Hd ms key Hw Hk Hc; [cbn in Hd; discriminate|].
    rewrite delete_rec_S in Hd. destruct (h_depth h =? 1)%nat; [discriminate|].
    pose proof Hb as [Hwf Hidx]. pose proof Hh as [Hns [Hp Hdp]].
    destruct (bucket_names_exact s (Some b) h ns Hsorted Hs Hwf Hidx Hns Hp Hdp) as [l [Hl [_ Hx]]]. rewrite Hl in Hd.
    pose proof (fold_del_shrinks s Hsorted Hs fuel h ns l b Hb Hh) as [Hbn Hsh].
    destruct (fold_left (del_step fuel s h) l (Ok tt, b)) as [[u|e] bn] eqn:Ef; [|discriminate]. destruct u.
    inversion Hd; subst b'. clear Hd. cbn [snd] in Hbn, Hsh.
    destruct ms as [|c ms'].
    - rewrite app_nil_r in *. rewrite vw_delete, vw_clear_kv; auto; [|apply Hbn|eapply hnd_path_bytes; eauto]. rewrite Hp.
      destruct Hk as [E|[uk E]]; subst key.
      + rewrite beqb_refl. reflexivity.
      + destruct (beqb (inner_key (path_of ns) uk) (index_key (path_of ns))); [reflexivity|].
        rewrite inner_key_as_app, has_prefix_app. reflexivity.
    - assert (H1 : vw s bn key = None).
      { apply (fold_del_complete fuel h ns Hh IH l b bn Hb Ef c ms' key); auto.
        apply Hx. split; [eapply names_wf_mid; eauto|]. destruct Hc as [Hc _]. exact Hc. }
      eapply shrinks_none; [apply (finish_shrinks s Hsorted Hs bn h ns Hbn Hh)|exact H1].
  Qed.
End DeleteComplete.

(* ================================================================== Part C: the abstract nested map *)
(* --- the key encoding once more, without the "at least one name" side condition *)
Lemma path_key_inj : forall A B k1 k2, valid_names A -> valid_names B ->
  inner_key (path_of A) k1 = inner_key (path_of B) k2 -> A = B /\ k1 = k2.
Proof.
  intros A B k1 k2 VA VB H. unfold inner_key, path_of in H. rewrite <- !app_assoc in H.
  destruct (names_tail_starts_with_sep A k1) as [x1 X1]. destruct (names_tail_starts_with_sep B k2) as [x2 X2].
  pose proof H as H'. rewrite X1, X2 in H'. apply sep_split_unique in H'; auto using itoa_no_sep.
  destruct H' as [Ed _]. apply itoa_inj in Ed. rewrite Ed in H. apply app_inv_head in H.
  apply names_tail_inj in H; auto using valid_names_no_sep.
Qed.
Lemma path_of_inj' : forall A B, valid_names A -> valid_names B -> path_of A = path_of B -> A = B.
Proof.
  intros A B VA VB H. assert (E : inner_key (path_of A) [] = inner_key (path_of B) []) by (rewrite H; reflexivity).
  apply path_key_inj in E; tauto.
Qed.
Lemma idx_key_inj : forall A B, valid_names A -> valid_names B -> index_key (path_of A) = index_key (path_of B) -> A = B.
Proof. intros A B VA VB H. apply index_key_injective in H. apply path_of_inj'; auto. Qed.
Lemma idx_data_disjoint : forall p B k, index_key p <> inner_key (path_of B) k.
Proof.
  intros p B k H. unfold index_key, inner_key in H. rewrite path_of_unfold in H.
  destruct (itoa_head (length B)) as [c [r [Ec Hc]]]. rewrite Ec in H. cbn in H. inversion H. unfold CH_b in *. lia.
Qed.
Lemma beqb_inner_key : forall p a b, beqb (inner_key p a) (inner_key p b) = beqb a b.
Proof. intros. unfold beqb, inner_key. rewrite bcmp_app_prefix. reflexivity. Qed.

(* --- trees *)
Inductive tree := Node (ents : bytes -> option bytes) (kids : bytes -> option tree).
Definition t_ents (t : tree) : bytes -> option bytes := match t with Node e _ => e end.
Definition t_kids (t : tree) : bytes -> option tree := match t with Node _ k => k end.
Definition t_empty : tree := Node (fun _ => None) (fun _ => None).

Section TreeInd.
  Variable P : tree -> Prop.
  Hypothesis H : forall e k, (forall n t', k n = Some t' -> P t') -> P (Node e k).
  Fixpoint tree_ind' (t : tree) : P t :=
    match t with
    | Node e k =>
        H e k (fun n =>
                 match k n as o return forall t', o = Some t' -> P t' with
                 | Some t'' => fun t' E =>
                     match E in _ = o' return match o' with Some x => P x | None => True end with
                     | eq_refl => tree_ind' t''
                     end
                 | None => fun t' E =>
                     match E in _ = o' return match o' with Some x => P x | None => True end with
                     | eq_refl => I
                     end
                 end)
    end.
End TreeInd.

(* a view of the database as a function from stored keys to values *)
Definition view := bytes -> option bytes.
Definition sget (V : store) : view := fun key => s_get key V.
Definition bkf (f : view) (ms : list bytes) : Prop := f (index_key (path_of ms)) <> None.
Definition kvf (f : view) (ms : list bytes) (uk : bytes) : option bytes := f (inner_key (path_of ms) uk).

(* [t] is the nested map held by view [f] at (and below) the bucket with name tuple [ns]; [ns = []] is the database *)
Fixpoint rep (f : view) (ns : list bytes) (t : tree) {struct t} : Prop :=
  match t with
  | Node e k =>
      (forall uk, e uk = kvf f ns uk) /\
      (forall n, match k n with
                 | Some t' => is_valid_bucket_name n = true /\ bkf f (ns ++ [n]) /\ rep f (ns ++ [n]) t'
                 | None => ~ (is_valid_bucket_name n = true /\ bkf f (ns ++ [n]))
                 end)
  end.
(* extensional equality of trees *)
Fixpoint teq (t1 t2 : tree) {struct t1} : Prop :=
  match t1, t2 with
  | Node e1 k1, Node e2 k2 =>
      (forall uk, e1 uk = e2 uk) /\
      (forall n, match k1 n, k2 n with
                 | Some a, Some b => teq a b
                 | None, None => True
                 | _, _ => False
                 end)
  end.

Lemma rep_unique : forall t1 f ns t2, rep f ns t1 -> rep f ns t2 -> teq t1 t2.
Proof.
  induction t1 as [e1 k1 IH] using tree_ind'. intros f ns [e2 k2] [H1 H2] [G1 G2]. cbn [teq]. split.
  - intros uk. rewrite H1, G1. reflexivity.
  - intros n. specialize (H2 n). specialize (G2 n). destruct (k1 n) as [a|] eqn:E1; destruct (k2 n) as [b|] eqn:E2.
    + eapply (IH n a E1); [apply H2|apply G2].
    + apply G2. tauto.
    + apply H2. tauto.
    + exact I.
Qed.
Lemma teq_refl : forall t, teq t t.
Proof.
  induction t as [e k IH] using tree_ind'. cbn [teq]. split; [reflexivity|]. intros n. destruct (k n) as [a|] eqn:E; [|exact I].
  eapply IH; eauto.
Qed.

(* --- frames *)
Definition agree_below (f f' : view) (q : list bytes) : Prop :=
  forall r, valid_names r -> (bkf f' (q ++ r) <-> bkf f (q ++ r)) /\ (forall uk, kvf f' (q ++ r) uk = kvf f (q ++ r) uk).

Lemma agree_below_child : forall f f' q n, is_valid_bucket_name n = true -> agree_below f f' q -> agree_below f f' (q ++ [n]).
Proof.
  intros f f' q n Hn H r Hr. rewrite <- app_assoc. cbn [app]. apply H. constructor; auto.
Qed.
Lemma rep_frame : forall t f f' q, agree_below f f' q -> rep f q t -> rep f' q t.
Proof.
  induction t as [e k IH] using tree_ind'. intros f f' q Ha [H1 H2]. cbn [rep]. split.
  - intros uk. rewrite H1. destruct (Ha [] (Forall_nil _)) as [_ Hk]. rewrite app_nil_r in Hk. symmetry. apply Hk.
  - intros n. specialize (H2 n). destruct (k n) as [t'|] eqn:E.
    + destruct H2 as [Hn [Hb Hr]]. destruct (Ha [n]) as [Hbk _]; [constructor; auto|].
      split; [exact Hn|]. split; [apply Hbk; exact Hb|]. eapply (IH n t' E); [|exact Hr]. apply agree_below_child; auto.
    + intros [Hn Hb]. apply H2. split; [exact Hn|]. destruct (Ha [n]) as [Hbk _]; [constructor; auto|]. apply Hbk. exact Hb.
Qed.

(* --- updating the node at a path *)
Fixpoint t_upd (g : tree -> tree) (t : tree) (p : list bytes) {struct p} : tree :=
  match p with
  | [] => g t
  | n :: p' => match t with
               | Node e k => Node e (fun m => if beqb m n
                                              then match k n with Some t' => Some (t_upd g t' p') | None => None end
                                              else k m)
               end
  end.
Fixpoint t_at (t : tree) (p : list bytes) {struct p} : option tree :=
  match p with
  | [] => Some t
  | n :: p' => match t_kids t n with Some t' => t_at t' p' | None => None end
  end.

Lemma len_app_neq1 : forall (pre : list bytes) n p' r, pre <> (pre ++ n :: p') ++ r.
Proof. intros pre n p' r H. apply (f_equal (@length bytes)) in H. rewrite !app_length in H. cbn in H. lia. Qed.
Lemma len_app_neq2 : forall (pre : list bytes) n p' r, r <> [] -> pre ++ [n] <> (pre ++ n :: p') ++ r.
Proof.
  intros pre n p' r Hr H. apply (f_equal (@length bytes)) in H. rewrite !app_length in H. cbn in H.
  destruct r; [congruence|]. cbn in H. lia.
Qed.
Lemma sibling_neq : forall (pre : list bytes) m n r p' r', m <> n -> (pre ++ [m]) ++ r <> (pre ++ n :: p') ++ r'.
Proof. intros pre m n r p' r' Hne H. rewrite <- !app_assoc in H. apply app_inv_head in H. cbn in H. inversion H. congruence. Qed.

Section RepUpd.
  Variables (f f' : view) (g : tree -> tree) (T : list bytes).
  Hypothesis Hlocal : forall tn, rep f T tn -> rep f' T (g tn).
  (* the existence of buckets that are not strictly below T, and the data of buckets that are not T or below, are untouched *)
  Hypothesis Hbk : forall ms, valid_names ms -> (forall r, r <> [] -> ms <> T ++ r) -> (bkf f' ms <-> bkf f ms).
  Hypothesis Hkv : forall ms, valid_names ms -> (forall r, ms <> T ++ r) -> forall uk, kvf f' ms uk = kvf f ms uk.

  Lemma rep_upd : forall p pre t, valid_names pre -> pre ++ p = T -> rep f pre t -> rep f' pre (t_upd g t p).
  Proof.
    induction p as [|n p' IH]; intros pre t Hpre HT Hr.
    - rewrite app_nil_r in HT. subst pre. change (rep f' T (g t)). apply Hlocal. exact Hr.
    - destruct t as [e k]. destruct Hr as [H1 H2]. cbn [t_upd rep]. split.
      + intros uk. rewrite H1. symmetry. apply Hkv; auto. intros r. rewrite <- HT. apply len_app_neq1.
      + intros m. destruct (beqb m n) eqn:Em.
        * apply beqb_true_iff in Em. subst m. specialize (H2 n). destruct (k n) as [t'|] eqn:E.
          -- destruct H2 as [Hn [Hb Hr]].
             assert (Hv : valid_names (pre ++ [n])) by (apply Forall_app; split; auto).
             split; [exact Hn|]. split.
             ++ apply Hbk; auto. intros r Hne. rewrite <- HT. apply len_app_neq2. exact Hne.
             ++ apply IH; auto. rewrite <- app_assoc. exact HT.
          -- intros [Hn Hb]. apply H2. split; [exact Hn|]. apply Hbk; auto.
             ++ apply Forall_app; split; auto.
             ++ intros r Hne. rewrite <- HT. apply len_app_neq2. exact Hne.
        * apply beqb_false_iff in Em. specialize (H2 m). destruct (k m) as [t'|] eqn:E.
          -- destruct H2 as [Hm [Hb Hr]].
             assert (Hv : valid_names (pre ++ [m])) by (apply Forall_app; split; auto).
             split; [exact Hm|]. split.
             ++ apply Hbk; auto. intros r _. rewrite <- HT, <- (app_nil_r (pre ++ [m])). apply sibling_neq. exact Em.
             ++ eapply rep_frame; [|exact Hr]. intros r Hvr.
                assert (Hv' : valid_names ((pre ++ [m]) ++ r)) by (apply Forall_app; split; auto).
                split.
                ** apply Hbk; auto. intros r' _. rewrite <- HT. apply sibling_neq. exact Em.
                ** apply Hkv; auto. intros r'. rewrite <- HT. apply sibling_neq. exact Em.
          -- intros [Hm Hb]. apply H2. split; [exact Hm|]. apply Hbk; auto.
             ++ apply Forall_app; split; auto.
             ++ intros r _. rewrite <- HT, <- (app_nil_r (pre ++ [m])). apply sibling_neq. exact Em.
  Qed.
End RepUpd.

Lemma rep_at : forall f p pre t tn, rep f pre t -> t_at t p = Some tn -> rep f (pre ++ p) tn.
Proof.
  intros f. induction p as [|n p' IH]; intros pre t tn Hr Ha; cbn [t_at] in Ha.
  - inversion Ha; subst. rewrite app_nil_r. exact Hr.
  - destruct t as [e k]. cbn [t_kids] in Ha. destruct Hr as [_ H2]. specialize (H2 n). destruct (k n) as [t'|]; [|discriminate].
    destruct H2 as [_ [_ Hr']]. replace (pre ++ n :: p') with ((pre ++ [n]) ++ p') by (rewrite <- app_assoc; reflexivity).
    eapply IH; eauto.
Qed.
(* a path is live in the tree exactly when all the buckets along it exist in the view *)
Lemma t_at_chain : forall f p pre t, rep f pre t -> valid_names p -> (t_at t p <> None <-> chain f pre p).
Proof.
  intros f. induction p as [|n p' IH]; intros pre t Hr Hv; cbn [t_at chain].
  - split; [auto|discriminate].
  - inversion Hv as [|? ? Hn Hv']; subst. destruct t as [e k]. cbn [t_kids]. destruct Hr as [_ H2]. specialize (H2 n).
    destruct (k n) as [t'|].
    + destruct H2 as [_ [Hb Hr']]. rewrite (IH (pre ++ [n]) t' Hr' Hv'). split; [intros H; split; auto|tauto].
    + split; [congruence|]. intros [Hb _]. exfalso. apply H2. auto.
Qed.

(* --- the abstraction function *)
Definition bkb (V : store) (ms : list bytes) : bool :=
  match s_get (index_key (path_of ms)) V with Some _ => true | None => false end.
Lemma bkb_iff : forall V ms, bkb V ms = true <-> bkf (sget V) ms.
Proof. intros V ms. unfold bkb, bkf, sget. destruct (s_get _ V); split; congruence. Qed.
Fixpoint abs_at (fuel : nat) (V : store) (ns : list bytes) : tree :=
  Node (fun uk => s_get (inner_key (path_of ns) uk) V)
       (match fuel with
        | O => fun _ => None
        | S fuel' => fun n => if is_valid_bucket_name n && bkb V (ns ++ [n]) then Some (abs_at fuel' V (ns ++ [n])) else None
        end).
Definition key_len_bound (V : store) : nat := list_max (map (fun e : bytes * bytes => length (fst e)) V).
Definition abs_tree (V : store) : tree := abs_at (key_len_bound V) V [].

Lemma tail_of_length : forall ms, (length ms <= length (tail_of ms))%nat.
Proof. induction ms as [|m ms IH]; [cbn; lia|]. rewrite tail_of_cons. cbn [length]. rewrite app_length. lia. Qed.
Lemma bkf_depth_bound : forall V ms, bkf (sget V) ms -> (length ms <= key_len_bound V)%nat.
Proof.
  intros V ms H. unfold bkf, sget in H. destruct (s_get (index_key (path_of ms)) V) as [v|] eqn:E; [|congruence].
  apply m_get_in in E. unfold key_len_bound.
  assert (Hall : Forall (fun k => (k <= list_max (map (fun e : bytes * bytes => length (fst e)) V))%nat)
                        (map (fun e : bytes * bytes => length (fst e)) V)) by (apply list_max_le; lia).
  rewrite Forall_forall in Hall. specialize (Hall (length (index_key (path_of ms)))).
  assert (Hin : In (length (index_key (path_of ms))) (map (fun e : bytes * bytes => length (fst e)) V)).
  { apply in_map_iff. exists (index_key (path_of ms), v). auto. }
  apply Hall in Hin. unfold index_key in Hin. cbn [length] in Hin. rewrite path_of_unfold, app_length in Hin.
  pose proof (tail_of_length ms). lia.
Qed.
Lemma abs_at_rep : forall fuel V ns, (key_len_bound V <= length ns + fuel)%nat -> rep (sget V) ns (abs_at fuel V ns).
Proof.
  induction fuel as [|fuel IH]; intros V ns Hb; cbn [abs_at rep]; (split; [intros uk; reflexivity|]); intros n.
  - intros [_ H]. apply bkf_depth_bound in H. rewrite app_length in H. cbn in H. lia.
  - destruct (is_valid_bucket_name n) eqn:En; cbn [andb].
    + destruct (bkb V (ns ++ [n])) eqn:Eb.
      * split; [reflexivity|]. split; [apply bkb_iff; exact Eb|]. apply IH. rewrite app_length. cbn. lia.
      * intros [_ H]. apply bkb_iff in H. congruence.
    + intros [H _]. discriminate.
Qed.
(* every store has its nested map *)
Lemma abs_tree_rep : forall V, rep (sget V) [] (abs_tree V).
Proof. intros V. apply abs_at_rep. cbn. lia. Qed.

(* ================================================================== Part D: the operations commute *)
(* the tree operations *)
Definition g_set (key : bytes) (x : option bytes) (t : tree) : tree :=
  match t with Node e k => Node (fun uk => if beqb uk key then x else e uk) k end.
Definition g_clear (t : tree) : tree := match t with Node e k => Node (fun _ => None) k end.
Definition g_create (n : bytes) (t : tree) : tree :=
  match t with
  | Node e k => Node e (fun m => if beqb m n then match k n with Some t' => Some t' | None => Some t_empty end else k m)
  end.
Definition g_remove (n : bytes) (t : tree) : tree :=
  match t with Node e k => Node e (fun m => if beqb m n then None else k m) end.
(* at the bucket with name tuple [ns] (no effect when there is no such bucket in the tree): *)
Definition t_put (t : tree) (ns : list bytes) (key v : bytes) : tree := t_upd (g_set key (Some v)) t ns.
Definition t_delete (t : tree) (ns : list bytes) (key : bytes) : tree := t_upd (g_set key None) t ns.
Definition t_clear (t : tree) (ns : list bytes) : tree := t_upd g_clear t ns.
Definition t_create (t : tree) (ns : list bytes) (n : bytes) : tree := t_upd (g_create n) t ns.   (* an empty child, unless there is one *)
Definition t_remove (t : tree) (ns : list bytes) (n : bytes) : tree := t_upd (g_remove n) t ns.   (* drop the child with its subtree *)

Definition upd1 (f : view) (key0 : bytes) (x : option bytes) (f' : view) : Prop :=
  forall k, f' k = if beqb k key0 then x else f k.

Lemma beqb_idx_data : forall p B k, beqb (index_key p) (inner_key (path_of B) k) = false.
Proof. intros. apply beqb_false_iff. apply idx_data_disjoint. Qed.
Lemma beqb_data_idx : forall p B k, beqb (inner_key (path_of B) k) (index_key p) = false.
Proof. intros. apply beqb_false_iff. intros H. symmetry in H. revert H. apply idx_data_disjoint. Qed.
Lemma app_self_neq : forall (ns : list bytes) m r, (ns ++ [m]) ++ r <> ns.
Proof. intros ns m r H. apply (f_equal (@length bytes)) in H. rewrite !app_length in H. cbn in H. lia. Qed.

(* --- one data key changed: Put / Delete *)
Lemma sim_set_data : forall f f' ns key x t, valid_names ns -> upd1 f (inner_key (path_of ns) key) x f' ->
  rep f [] t -> rep f' [] (t_upd (g_set key x) t ns).
Proof.
  intros f f' ns key x t Hns Hupd Hr.
  assert (Hbk : forall ms, bkf f' ms <-> bkf f ms).
  { intros ms. unfold bkf. rewrite Hupd, beqb_idx_data. tauto. }
  assert (Hkv : forall ms uk, valid_names ms -> ms <> ns -> kvf f' ms uk = kvf f ms uk).
  { intros ms uk Hv Hne. unfold kvf. rewrite Hupd. destruct (beqb (inner_key (path_of ms) uk) (inner_key (path_of ns) key)) eqn:E; [|reflexivity].
    apply beqb_true_iff in E. apply path_key_inj in E; auto. destruct E. congruence. }
  apply (rep_upd f f' (g_set key x) ns) with (pre := []) (p := ns); [ | | |constructor|reflexivity|exact Hr].
  - intros [e k] [H1 H2]. cbn [g_set rep]. split.
    + intros uk. unfold kvf. rewrite Hupd, beqb_inner_key. destruct (beqb uk key); [reflexivity|apply H1].
    + intros m. specialize (H2 m). destruct (k m) as [t'|].
      * destruct H2 as [Hm [Hb Hr']]. split; [exact Hm|]. split; [apply Hbk; exact Hb|].
        eapply rep_frame; [|exact Hr']. intros r Hvr. split; [apply Hbk|]. intros uk. apply Hkv.
        -- apply Forall_app. split; [apply Forall_app; split; auto|exact Hvr].
        -- apply app_self_neq.
      * intros [Hm Hb]. apply H2. split; [exact Hm|apply Hbk; exact Hb].
  - intros ms _ _. apply Hbk.
  - intros ms Hv Hne uk. apply Hkv; auto. intros E. apply (Hne []). rewrite app_nil_r. exact E.
Qed.

(* --- Clear *)
Lemma sim_clear_view : forall f f' ns t, valid_names ns ->
  (forall k, f' k = if has_prefix (path_of ns ++ [SEP]) k then None else f k) ->
  rep f [] t -> rep f' [] (t_upd g_clear t ns).
Proof.
  intros f f' ns t Hns Hupd Hr.
  assert (Hpi : forall p, has_prefix (path_of ns ++ [SEP]) (index_key p) = false).
  { intros p. destruct (has_prefix (path_of ns ++ [SEP]) (index_key p)) eqn:E; [|reflexivity]. exfalso.
    apply has_prefix_iff in E. destruct E as [r E]. rewrite <- inner_key_as_app in E. revert E. apply idx_data_disjoint. }
  assert (Hpd : forall ms uk, valid_names ms -> ms <> ns -> has_prefix (path_of ns ++ [SEP]) (inner_key (path_of ms) uk) = false).
  { intros ms uk Hv Hne. destruct (has_prefix (path_of ns ++ [SEP]) (inner_key (path_of ms) uk)) eqn:E; [|reflexivity]. exfalso.
    apply has_prefix_iff in E. destruct E as [r E]. rewrite <- inner_key_as_app in E. apply path_key_inj in E; auto. destruct E. congruence. }
  assert (Hbk : forall ms, bkf f' ms <-> bkf f ms).
  { intros ms. unfold bkf. rewrite Hupd, Hpi. tauto. }
  assert (Hkv : forall ms uk, valid_names ms -> ms <> ns -> kvf f' ms uk = kvf f ms uk).
  { intros ms uk Hv Hne. unfold kvf. rewrite Hupd, Hpd; auto. }
  apply (rep_upd f f' g_clear ns) with (pre := []) (p := ns); [ | | |constructor|reflexivity|exact Hr].
  - intros [e k] [H1 H2]. cbn [g_clear rep]. split.
    + intros uk. unfold kvf. rewrite Hupd, inner_key_as_app, has_prefix_app. reflexivity.
    + intros m. specialize (H2 m). destruct (k m) as [t'|].
      * destruct H2 as [Hm [Hb Hr']]. split; [exact Hm|]. split; [apply Hbk; exact Hb|].
        eapply rep_frame; [|exact Hr']. intros r Hvr. split; [apply Hbk|]. intros uk. apply Hkv.
        -- apply Forall_app. split; [apply Forall_app; split; auto|exact Hvr].
        -- apply app_self_neq.
      * intros [Hm Hb]. apply H2. split; [exact Hm|apply Hbk; exact Hb].
  - intros ms _ _. apply Hbk.
  - intros ms Hv Hne uk. apply Hkv; auto. intros E. apply (Hne []). rewrite app_nil_r. exact E.
Qed.

(* --- one index entry added: CreateTopLevelBucket / NewBucket *)
(* nothing is stored under the name tuple [q] although the bucket [q] is not there (no orphans) *)
Definition fresh (f : view) (q : list bytes) : Prop :=
  (forall uk, kvf f q uk = None) /\ (forall m, is_valid_bucket_name m = true -> ~ bkf f (q ++ [m])).

Lemma sim_create_view : forall f f' ns n v t, valid_names ns -> is_valid_bucket_name n = true ->
  upd1 f (index_key (path_of (ns ++ [n]))) (Some v) f' ->
  (bkf f (ns ++ [n]) \/ fresh f (ns ++ [n])) ->
  rep f [] t -> rep f' [] (t_upd (g_create n) t ns).
Proof.
  intros f f' ns n v t Hns Hn Hupd Hfresh Hr.
  assert (Hvn : valid_names (ns ++ [n])) by (apply Forall_app; split; auto).
  assert (Hkv : forall ms uk, kvf f' ms uk = kvf f ms uk).
  { intros ms uk. unfold kvf. rewrite Hupd, beqb_data_idx. reflexivity. }
  assert (Hbk : forall ms, valid_names ms -> ms <> ns ++ [n] -> (bkf f' ms <-> bkf f ms)).
  { intros ms Hv Hne. unfold bkf. rewrite Hupd. destruct (beqb (index_key (path_of ms)) (index_key (path_of (ns ++ [n])))) eqn:E; [|tauto].
    apply beqb_true_iff in E. apply idx_key_inj in E; auto. congruence. }
  assert (Hnew : bkf f' (ns ++ [n])).
  { unfold bkf. rewrite Hupd, beqb_refl. discriminate. }
  apply (rep_upd f f' (g_create n) ns) with (pre := []) (p := ns); [ | | |constructor|reflexivity|exact Hr].
  - intros [e k] [H1 H2]. cbn [g_create rep]. split; [intros uk; rewrite Hkv; apply H1|].
    intros m. destruct (beqb m n) eqn:Em.
    + apply beqb_true_iff in Em. subst m. specialize (H2 n). destruct (k n) as [t'|].
      * destruct H2 as [_ [Hb Hr']]. split; [exact Hn|]. split; [exact Hnew|].
        eapply rep_frame; [|exact Hr']. intros r Hvr. split; [|intros uk; apply Hkv].
        destruct r as [|r0 r]; [rewrite app_nil_r; tauto|]. apply Hbk; [apply Forall_app; split; auto|].
        intros E. rewrite <- (app_nil_r (ns ++ [n])) in E at 2. apply app_inv_head in E. discriminate.
      * destruct Hfresh as [Hb|[Hf1 Hf2]]; [exfalso; apply H2; auto|].
        split; [exact Hn|]. split; [exact Hnew|]. cbn [t_empty rep]. split.
        -- intros uk. rewrite Hkv. symmetry. apply Hf1.
        -- intros m [Hm Hb]. apply (Hf2 m Hm). apply Hbk; auto.
           ++ apply Forall_app. split; auto.
           ++ intros E. rewrite <- (app_nil_r (ns ++ [n])) in E at 2. apply app_inv_head in E. discriminate.
    + apply beqb_false_iff in Em. specialize (H2 m).
      assert (Hne : forall r, (ns ++ [m]) ++ r <> ns ++ [n]).
      { intros r E. rewrite <- app_assoc in E. apply app_inv_head in E. cbn in E. inversion E. congruence. }
      destruct (k m) as [t'|].
      * destruct H2 as [Hm [Hb Hr']]. split; [exact Hm|].
        split; [apply Hbk; [apply Forall_app; split; auto|rewrite <- (app_nil_r (ns ++ [m])); apply Hne|exact Hb]|].
        eapply rep_frame; [|exact Hr']. intros r Hvr. split; [|intros uk; apply Hkv]. apply Hbk; [|apply Hne].
        apply Forall_app. split; [apply Forall_app; split; auto|exact Hvr].
      * intros [Hm Hb]. apply H2. split; [exact Hm|].
        apply Hbk; [apply Forall_app; split; auto|rewrite <- (app_nil_r (ns ++ [m])); apply Hne|exact Hb].
  - intros ms Hv Hne. apply Hbk; auto. apply Hne. discriminate.
  - intros ms _ _ uk. apply Hkv.
Qed.

(* --- a subtree removed: DeleteBucket *)
Lemma under_idx : forall q ms, valid_names ms -> under q (index_key (path_of ms)) -> exists r, ms = q ++ r.
Proof.
  intros q ms Hv [r [[Hw _] [E|[uk E]]]].
  - apply idx_key_inj in E; eauto.
  - exfalso. revert E. apply idx_data_disjoint.
Qed.
Lemma under_data : forall q ms uk, valid_names ms -> under q (inner_key (path_of ms) uk) -> exists r, ms = q ++ r.
Proof.
  intros q ms uk Hv [r [[Hw _] [E|[uk' E]]]].
  - exfalso. symmetry in E. revert E. apply idx_data_disjoint.
  - apply path_key_inj in E; auto. destruct E. eauto.
Qed.

Lemma sim_remove_view : forall f f' ns n t, valid_names ns -> shrinks (ns ++ [n]) f f' ->
  (is_valid_bucket_name n = true -> f' (index_key (path_of (ns ++ [n]))) = None) ->
  rep f [] t -> rep f' [] (t_upd (g_remove n) t ns).
Proof.
  intros f f' ns n t Hns Hsh Hgone Hr.
  (* whatever is not in the subtree of ns+[n] is untouched *)
  assert (Hbk : forall ms, valid_names ms -> (forall r, ms <> (ns ++ [n]) ++ r) -> (bkf f' ms <-> bkf f ms)).
  { intros ms Hv Hne. unfold bkf. destruct (Hsh (index_key (path_of ms))) as [E|[_ U]]; [rewrite E; tauto|].
    exfalso. destruct (under_idx _ _ Hv U) as [r E]. exact (Hne r E). }
  assert (Hkv : forall ms uk, valid_names ms -> (forall r, ms <> (ns ++ [n]) ++ r) -> kvf f' ms uk = kvf f ms uk).
  { intros ms uk Hv Hne. unfold kvf. destruct (Hsh (inner_key (path_of ms) uk)) as [E|[_ U]]; [exact E|].
    exfalso. destruct (under_data _ _ _ Hv U) as [r E]. exact (Hne r E). }
  apply (rep_upd f f' (g_remove n) ns) with (pre := []) (p := ns); [ | | |constructor|reflexivity|exact Hr].
  - intros [e k] [H1 H2]. cbn [g_remove rep]. split.
    + intros uk. rewrite H1. symmetry. apply Hkv; auto. intros r E. symmetry in E. revert E. apply app_self_neq.
    + intros m. destruct (beqb m n) eqn:Em.
      * apply beqb_true_iff in Em. subst m. intros [Hn Hb]. apply Hb. apply Hgone. exact Hn.
      * apply beqb_false_iff in Em. specialize (H2 m).
        assert (Hne : forall r r', (ns ++ [m]) ++ r <> (ns ++ [n]) ++ r').
        { intros r r' E. rewrite <- !app_assoc in E. apply app_inv_head in E. cbn in E. inversion E. congruence. }
        destruct (k m) as [t'|].
        -- destruct H2 as [Hm [Hb Hr']]. split; [exact Hm|].
           split; [apply Hbk; [apply Forall_app; split; auto|intros r; rewrite <- (app_nil_r (ns ++ [m])); apply Hne|exact Hb]|].
           eapply rep_frame; [|exact Hr']. intros r Hvr.
           assert (Hv' : valid_names ((ns ++ [m]) ++ r)) by (apply Forall_app; split; [apply Forall_app; split; auto|exact Hvr]).
           split; [apply Hbk; auto|intros uk; apply Hkv; auto].
        -- intros [Hm Hb]. apply H2. split; [exact Hm|].
           apply Hbk; [apply Forall_app; split; auto|intros r; rewrite <- (app_nil_r (ns ++ [m])); apply Hne|exact Hb].
  - intros ms Hv Hne. apply Hbk; auto. intros r E. apply (Hne (n :: r)); [discriminate|]. rewrite E, <- app_assoc. reflexivity.
  - intros ms Hv Hne uk. apply Hkv; auto. intros r E. apply (Hne (n :: r)). rewrite E, <- app_assoc. reflexivity.
Qed.

(* --- the model operations, on the view of an open write transaction *)
Lemma sim_put : forall s b h ns key v b' t, hnd h ns -> bucket_put (Some b) h key v = (Ok tt, Some b') ->
  rep (vw s b) [] t -> rep (vw s b') [] (t_put t ns key v).
Proof.
  intros s b h ns key v b' t [[_ [Hv _]] [Hp _]] H Hr. unfold bucket_put in H.
  destruct v as [|c v]; [discriminate|]. destruct key as [|ck key]; [discriminate|]. inversion H; subst b'.
  apply (sim_set_data (vw s b)); auto. intros k. rewrite <- Hp. apply vw_put.
Qed.
Lemma sim_delete : forall s b h ns key b' t, hnd h ns -> key <> [] -> bucket_delete (Some b) h key = (Ok tt, Some b') ->
  rep (vw s b) [] t -> rep (vw s b') [] (t_delete t ns key).
Proof.
  intros s b h ns key b' t [[_ [Hv _]] [Hp _]] Hk H Hr. unfold bucket_delete in H.
  destruct key as [|ck key]; [congruence|]. inversion H; subst b'.
  apply (sim_set_data (vw s b)); auto. intros k. rewrite <- Hp. apply vw_delete.
Qed.
Lemma sim_clear : forall s b h ns b' t, keys_sorted s -> store_ok s -> binv b -> hnd h ns ->
  clear s (Some b) h = (Ok tt, Some b') -> rep (vw s b) [] t -> rep (vw s b') [] (t_clear t ns).
Proof.
  intros s b h ns b' t Hsorted Hs [Hwf _] Hh H Hr. pose proof (hnd_path_bytes h ns Hh) as Hpb. destruct Hh as [[_ [Hv _]] [Hp _]].
  unfold clear in H. inversion H; subst b'.
  apply (sim_clear_view (vw s b)); auto. intros k. rewrite <- Hp. apply vw_clear_kv; auto.
Qed.
Lemma sim_new_bucket : forall s b h ns n sub b' t, hnd h ns -> new_bucket s (Some b) h n = (Ok sub, Some b') ->
  (bkf (vw s b) (ns ++ [n]) \/ fresh (vw s b) (ns ++ [n])) ->
  rep (vw s b) [] t -> rep (vw s b') [] (t_create t ns n).
Proof.
  intros s b h ns n sub b' t [[Hne [Hv _]] [Hp Hd]] H Hf Hr. unfold new_bucket in H.
  destruct (sub_bucket h n) as [sub'|e] eqn:Es; [|discriminate].
  destruct (sub_bucket_wf h n sub' ns Hv Hne Hp Hd Es) as [Hn [Hp' _]].
  assert (Hb' : b' = batch_put b (index_key (path_of (ns ++ [n]))) n).
  { unfold create_index in H. rewrite Hp' in H.
    destruct (s_get (index_key (path_of (ns ++ [n]))) s); [destruct (snd (batch_get b (index_key (path_of (ns ++ [n])))))|];
      cbv beta iota zeta in H; inversion H; reflexivity. }
  subst b'. apply (sim_create_view (vw s b) _ ns n n); auto. intros k. apply vw_put.
Qed.
Lemma sim_create_top : forall s b n h' b' t, create_top_level s b n = (Ok h', b') ->
  (bkf (vw s b) [n] \/ fresh (vw s b) [n]) ->
  rep (vw s b) [] t -> rep (vw s b') [] (t_create t [] n).
Proof.
  intros s b n h' b' t H Hf Hr. unfold create_top_level in H.
  destruct (is_valid_bucket_name n) eqn:Hn; cbn [negb] in H; [|discriminate].
  assert (Hb' : b' = batch_put b (index_key (path_of ([] ++ [n]))) n).
  { unfold create_index in H. rewrite top_path_is_path_of in H. cbn [app].
    destruct (s_get (index_key (path_of [n])) s); [destruct (snd (batch_get b (index_key (path_of [n]))))|];
      inversion H; reflexivity. }
  subst b'. apply (sim_create_view (vw s b) _ [] n n); auto; [constructor|]. intros k. apply vw_put.
Qed.
Lemma sim_delete_bucket : forall s b h ns n b' t, keys_sorted s -> store_ok s -> binv b -> hnd h ns ->
  delete_bucket s (Some b) h n = (Ok tt, Some b') -> rep (vw s b) [] t -> rep (vw s b') [] (t_remove t ns n).
Proof.
  intros s b h ns n b' t Hsorted Hs Hb Hh H Hr. pose proof Hh as [[Hne [Hv Hbn]] [Hp Hd]]. unfold delete_bucket in H.
  destruct (bucket s (Some b) h n) as [sub|] eqn:Eb.
  - destruct (bucket_some_hnd s (Some b) h ns n sub Hs (proj2 Hb) Hh Eb) as [Hsub Hn].
    pose proof (delete_rec_shrinks s Hsorted Hs delete_fuel b sub (ns ++ [n]) Hb Hsub) as Hsh.
    destruct (delete_rec delete_fuel s b sub) as [r b1] eqn:Ed. inversion H; subst r b1. cbn [snd] in Hsh.
    apply (sim_remove_view (vw s b)); auto. intros _.
    apply (delete_rec_complete s Hsorted Hs delete_fuel b sub (ns ++ [n]) b' Hb Hsub Ed []); [| |exact I];
      rewrite app_nil_r; [apply Hsub|left; reflexivity].
  - inversion H; subst b'. apply (sim_remove_view (vw s b)); auto; [apply shrinks_refl|]. intros Hn.
    destruct (vw s b (index_key (path_of (ns ++ [n])))) eqn:E; [|reflexivity]. exfalso.
    assert (Hx : bucket s (Some b) h n <> None).
    { apply (listed_child_opens s (Some b) h ns n (proj1 Hb) (conj Hne (conj Hv Hbn)) Hp Hd).
      split; [exact Hn|]. unfold vw in E. cbn [view_store]. congruence. }
    congruence.
Qed.

(* --- what the reads return *)
Lemma rep_kids_iff : forall f ns tn n, rep f ns tn -> (t_kids tn n <> None <-> is_valid_bucket_name n = true /\ bkf f (ns ++ [n])).
Proof.
  intros f ns [e k] n [_ H2]. cbn [t_kids]. specialize (H2 n). destruct (k n); [|tauto].
  split; [tauto|discriminate].
Qed.
Lemma obs_get : forall s ob h ns key t tn, obwf ob -> hnd h ns -> rep (sget (view_store s ob)) [] t ->
  t_at t ns = Some tn -> key <> [] -> bucket_get s ob h key = t_ents tn key.
Proof.
  intros s ob h ns key t tn Hwf [_ [Hp _]] Hr Ha Hk. pose proof (rep_at _ _ _ _ _ Hr Ha) as Hn. cbn [app] in Hn.
  destruct tn as [e k]. destruct Hn as [H1 _]. cbn [t_ents]. rewrite H1. unfold kvf, sget. rewrite <- Hp.
  destruct ob as [b|]; cbn [view_store].
  - apply read_your_writes_get; auto. apply Hwf.
  - apply read_only_get. exact Hk.
Qed.
Lemma obs_names : forall s ob h ns t tn, keys_sorted s -> store_ok s -> obwf ob -> obatch_ok ob -> hnd h ns ->
  rep (sget (view_store s ob)) [] t -> t_at t ns = Some tn ->
  exists l, bucket_names s ob h = Ok l /\ NoDup l /\ forall n, In n l <-> t_kids tn n <> None.
Proof.
  intros s ob h ns t tn Hsorted Hs Hwf Hb [Hns [Hp Hd]] Hr Ha. pose proof (rep_at _ _ _ _ _ Hr Ha) as Hn. cbn [app] in Hn.
  destruct (bucket_names_exact s ob h ns Hsorted Hs Hwf Hb Hns Hp Hd) as [l [Hl [Hnd Hx]]].
  exists l. split; [exact Hl|]. split; [exact Hnd|]. intros n. rewrite (rep_kids_iff _ _ _ n Hn). apply Hx.
Qed.
Lemma obs_tx_names : forall s ob t, keys_sorted s -> store_ok s -> obwf ob -> obatch_ok ob ->
  rep (sget (view_store s ob)) [] t ->
  exists l, tx_bucket_names s ob = Ok l /\ NoDup l /\ forall n, In n l <-> t_kids t n <> None.
Proof.
  intros s ob t Hsorted Hs Hwf Hb Hr.
  destruct (tx_bucket_names_exact s ob Hsorted Hs Hwf Hb) as [l [Hl [Hnd Hx]]].
  exists l. split; [exact Hl|]. split; [exact Hnd|]. intros n. rewrite (rep_kids_iff _ _ _ n Hr). apply Hx.
Qed.

(* --- commuting with the abstraction function *)
Lemma abs_commute : forall V' t', rep (sget V') [] t' -> teq (abs_tree V') t'.
Proof. intros V' t' H. eapply rep_unique; [apply abs_tree_rep|exact H]. Qed.

(* no orphans: every stored bucket's parent and every stored entry's bucket exist *)
Definition closed (f : view) : Prop :=
  (forall ms m, valid_names (ms ++ [m]) -> ms <> [] -> bkf f (ms ++ [m]) -> bkf f ms) /\
  (forall ms uk, valid_names ms -> ms <> [] -> kvf f ms uk <> None -> bkf f ms).
Lemma closed_fresh : forall f q, closed f -> valid_names q -> q <> [] -> bkf f q \/ fresh f q.
Proof.
  intros f q [H1 H2] Hv Hne. destruct (f (index_key (path_of q))) as [v|] eqn:E.
  - left. unfold bkf. congruence.
  - right. split.
    + intros uk. destruct (kvf f q uk) eqn:Ek; [|reflexivity]. exfalso.
      assert (Hb : bkf f q) by (apply (H2 q uk); auto; congruence). unfold bkf in Hb. congruence.
    + intros m Hm Hb. assert (Hq : bkf f q) by (apply (H1 q m); auto; apply Forall_app; split; auto).
      unfold bkf in Hq. congruence.
Qed.

(* C11_nested_map_refinement: the abstraction function [abs_tree] takes every store to its nested map, and every
   operation of an open write transaction with batch [b] over the committed store [s] takes the nested map of the
   transaction's view to the nested map of the new view by the corresponding tree operation *)
Lemma nested_map_refinement : forall s b, keys_sorted s -> store_ok s -> binv b ->
  let t := abs_tree (commit s b) in
  rep (sget (commit s b)) [] t /\
  (* the top level *)
  (exists l, tx_bucket_names s (Some b) = Ok l /\ NoDup l /\ forall n, In n l <-> t_kids t n <> None) /\
  (forall n h' b', create_top_level s b n = (Ok h', b') ->
     bkf (sget (commit s b)) [n] \/ fresh (sget (commit s b)) [n] ->
     teq (abs_tree (commit s b')) (t_create t [] n)) /\
  (* through a bucket handle *)
  forall h ns, hnd h ns ->
    (forall tn, t_at t ns = Some tn ->
       (forall key, key <> [] -> bucket_get s (Some b) h key = t_ents tn key) /\
       (exists l, bucket_names s (Some b) h = Ok l /\ NoDup l /\ forall n, In n l <-> t_kids tn n <> None)) /\
    (forall key v b', bucket_put (Some b) h key v = (Ok tt, Some b') -> teq (abs_tree (commit s b')) (t_put t ns key v)) /\
    (forall key b', key <> [] -> bucket_delete (Some b) h key = (Ok tt, Some b') -> teq (abs_tree (commit s b')) (t_delete t ns key)) /\
    (forall b', clear s (Some b) h = (Ok tt, Some b') -> teq (abs_tree (commit s b')) (t_clear t ns)) /\
    (forall n sub b', new_bucket s (Some b) h n = (Ok sub, Some b') ->
       bkf (sget (commit s b)) (ns ++ [n]) \/ fresh (sget (commit s b)) (ns ++ [n]) ->
       teq (abs_tree (commit s b')) (t_create t ns n)) /\
    (forall n b', delete_bucket s (Some b) h n = (Ok tt, Some b') -> teq (abs_tree (commit s b')) (t_remove t ns n)).
Proof.
  intros s b Hsorted Hs Hb t. pose proof (abs_tree_rep (commit s b)) as Hr. fold t in Hr.
  pose proof Hb as [Hwf Hidx].
  split; [exact Hr|]. split; [apply (obs_tx_names s (Some b) t); auto|]. split.
  { intros n h' b' H Hf. apply abs_commute. apply (sim_create_top s b n h' b' t H Hf Hr). }
  intros h ns Hh. split; [|split; [|split; [|split; [|split]]]].
  - intros tn Ha. split.
    + intros key Hk. apply (obs_get s (Some b) h ns key t tn); auto.
    + apply (obs_names s (Some b) h ns t tn); auto.
  - intros key v b' H. apply abs_commute. apply (sim_put s b h ns key v b' t Hh H Hr).
  - intros key b' Hk H. apply abs_commute. apply (sim_delete s b h ns key b' t Hh Hk H Hr).
  - intros b' H. apply abs_commute. apply (sim_clear s b h ns b' t Hsorted Hs Hb Hh H Hr).
  - intros n sub b' H Hf. apply abs_commute. apply (sim_new_bucket s b h ns n sub b' t Hh H Hf Hr).
  - intros n b' H. apply abs_commute. apply (sim_delete_bucket s b h ns n b' t Hsorted Hs Hb Hh H Hr).
Qed.

(* levelBucket.DeleteBucket(name) on the view: whatever it answers it only removes entries of the subtree of the
   child; when it answers nil and the child exists, every bucket connected to the child through existing buckets is
   gone with all its data *)
Lemma delete_bucket_effect : forall s b h ns n r b', keys_sorted s -> store_ok s -> binv b -> hnd h ns ->
  delete_bucket s (Some b) h n = (r, Some b') ->
  shrinks (ns ++ [n]) (vw s b) (vw s b') /\
  (r = Ok tt -> bkf (vw s b) (ns ++ [n]) ->
   forall ms key, names_wf ((ns ++ [n]) ++ ms) -> node_key ((ns ++ [n]) ++ ms) key -> chain (vw s b) (ns ++ [n]) ms ->
     vw s b' key = None).
Proof.
  intros s b h ns n r b' Hsorted Hs Hb Hh H. pose proof Hh as [Hns [Hp Hd]]. unfold delete_bucket in H.
  destruct (bucket s (Some b) h n) as [sub|] eqn:Eb.
  - destruct (bucket_some_hnd s (Some b) h ns n sub Hs (proj2 Hb) Hh Eb) as [Hsub Hn].
    pose proof (delete_rec_shrinks s Hsorted Hs delete_fuel b sub (ns ++ [n]) Hb Hsub) as Hsh.
    destruct (delete_rec delete_fuel s b sub) as [r1 b1] eqn:Ed. inversion H; subst r1 b1. cbn [snd] in Hsh.
    split; [exact Hsh|]. intros Er _ ms key Hw Hk Hc. subst r.
    apply (delete_rec_complete s Hsorted Hs delete_fuel b sub (ns ++ [n]) b' Hb Hsub Ed ms key Hw Hk Hc).
  - inversion H; subst r b'. split; [apply shrinks_refl|]. intros _ Hbk ms key Hw Hk Hc. exfalso.
    assert (Hn : is_valid_bucket_name n = true).
    { rewrite <- app_assoc in Hw. cbn [app] in Hw. eapply names_wf_mid; eauto. }
    assert (Hx : bucket s (Some b) h n <> None).
    { apply (listed_child_opens s (Some b) h ns n (proj1 Hb) Hns Hp Hd). split; [exact Hn|exact Hbk]. }
    congruence.
Qed.
