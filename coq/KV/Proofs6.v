(* KV/Proofs6 — the merging levelIterator of write transactions (Model: [it_merge] = true, [mi_seek], [mi_next],
   [mi_merge], [net_changes]): Seek + Next, and Next alone on a fresh iterator, yield exactly the entries of the
   transaction's view [commit s b] in the range (at or after the seek key), strictly ascending, each once.
   1. [mrg]: the merge of a run of committed entries with a run of batch entries (net puts / net deletes), as lists;
   2. the machine ([mi_merge] on index positions) computes [mrg] of what is left on both sides;
   3. what [mrg] of two ascending runs contains; what [net_changes] contains; assembly against [commit]. *)
From Coq Require Import List ZArith Bool Lia Sorted.
Import ListNotations.
Require Import MW.KV.Model MW.KV.Proofs MW.KV.Proofs2 MW.KV.Proofs5.

(* ------------------------------------------------------------------ 1. the merged run, as a list *)
Definition emit (e : bytes * option bytes) : list (bytes * bytes) :=
  match snd e with Some v => [(fst e, v)] | None => [] end.
Fixpoint mrg (sn : list (bytes * bytes)) : list (bytes * option bytes) -> list (bytes * bytes) :=
  fix go (bt : list (bytes * option bytes)) : list (bytes * bytes) :=
    match sn, bt with
    | [], _ => flat_map emit bt
    | _ :: _, [] => sn
    | s :: sn', b :: bt' =>
        match bcmp (fst s) (fst b) with
        | Lt => s :: mrg sn' bt
        | Eq => emit b ++ mrg sn' bt'
        | Gt => emit b ++ go bt'
        end
    end.
Lemma mrg_nil_l : forall bt, mrg [] bt = flat_map emit bt.
Proof. destruct bt; reflexivity. Qed.
Lemma mrg_nil_r : forall sn, mrg sn [] = sn.
Proof. destruct sn; reflexivity. Qed.
Lemma mrg_cons : forall s sn b bt,
  mrg (s :: sn) (b :: bt) = match bcmp (fst s) (fst b) with
                            | Lt => s :: mrg sn (b :: bt)
                            | Eq => emit b ++ mrg sn bt
                            | Gt => emit b ++ mrg (s :: sn) bt
                            end.
Proof. reflexivity. Qed.

(* ------------------------------------------------------------------ 2. the machine *)
(* what is left on the snapshot side (from the current entry on) and on the batch side (from ptr on) *)
Definition sn_of (it : iter) : list (bytes * bytes) :=
  if it_end it then [] else match it_pos it with At n => skipn n (it_ents it) | _ => [] end.
Definition bt_of (it : iter) : list (bytes * option bytes) := skipn (mi_ptr it) (mi_keys it).
(* iterEnd = false means the snapshot iterator stands on an entry *)
Definition mi_inv (it : iter) : Prop := it_end it = false -> exists n, it_pos it = At n /\ (n < length (it_ents it))%nat.
Definition same_st (a b : iter) : Prop :=
  it_ents b = it_ents a /\ mi_keys b = mi_keys a /\ it_pl b = it_pl a /\ it_ro b = it_ro a /\ it_merge b = it_merge a /\
  it_path b = it_path a /\ mi_started b = mi_started a.
Lemma same_st_refl : forall a, same_st a a.
Proof. intros a. repeat split. Qed.
Lemma same_st_trans : forall a b c, same_st a b -> same_st b c -> same_st a c.
Proof.
  intros a b c [A1 [A2 [A3 [A4 [A5 [A6 A7]]]]]] [B1 [B2 [B3 [B4 [B5 [B6 B7]]]]]].
  repeat split; congruence.
Qed.

Lemma snap_next_fields : forall it,
  same_st it (mi_snap_next it) /\ mi_ptr (mi_snap_next it) = mi_ptr it /\ mi_on_iter (mi_snap_next it) = mi_on_iter it /\
  mi_on_batch (mi_snap_next it) = mi_on_batch it.
Proof. intros it. unfold mi_snap_next. destruct (ldb_next it). repeat split. Qed.
Lemma snap_next_bt : forall it, bt_of (mi_snap_next it) = bt_of it.
Proof. intros it. unfold mi_snap_next. destruct (ldb_next it). reflexivity. Qed.
Lemma snap_next_bend : forall it, mi_bend (mi_snap_next it) = mi_bend it.
Proof. intros it. unfold mi_snap_next. destruct (ldb_next it). reflexivity. Qed.
Lemma snap_next_bnext : forall it, mi_bnext (mi_snap_next it) = mi_bnext it.
Proof. intros it. unfold mi_snap_next. destruct (ldb_next it). reflexivity. Qed.

Lemma snap_step : forall it, mi_inv it -> it_end it = false ->
  exists e, mi_snap_cur it = Some e /\ sn_of it = e :: sn_of (mi_snap_next it) /\ mi_inv (mi_snap_next it).
Proof.
  intros it Hi He. destruct (Hi He) as [n [Hp Hn]].
  destruct (nth_error (it_ents it) n) as [e|] eqn:En; [|apply nth_error_None in En; lia].
  exists e. unfold mi_snap_cur, sn_of, mi_snap_next, ldb_next, mi_inv. rewrite He, Hp, En.
  split; [reflexivity|]. rewrite (skipn_nth_error _ _ _ En).
  destruct (S n <? length (it_ents it))%nat eqn:El; cbn [set_ldb it_end it_pos it_ents negb].
  - split; [reflexivity|]. intros _. exists (S n). split; [reflexivity|apply Nat.ltb_lt; exact El].
  - apply Nat.ltb_ge in El. rewrite skipn_all2 by lia. split; [reflexivity|discriminate].
Qed.
Lemma snap_end : forall it, it_end it = true -> sn_of it = [].
Proof. intros it H. unfold sn_of. rewrite H. reflexivity. Qed.
Lemma batch_step : forall it, mi_bend it = false ->
  exists e, mi_batch_cur it = Some e /\ bt_of it = e :: skipn (S (mi_ptr it)) (mi_keys it) /\ mi_bnext it = S (mi_ptr it).
Proof.
  intros it H. unfold mi_bnext. rewrite H. unfold mi_bend in H. apply Nat.leb_gt in H.
  destruct (nth_error (mi_keys it) (mi_ptr it)) as [e|] eqn:En; [|apply nth_error_None in En; lia].
  exists e. split; [exact En|]. split; [apply skipn_nth_error; exact En|reflexivity].
Qed.
Lemma batch_end : forall it, mi_bend it = true -> bt_of it = [] /\ mi_bnext it = mi_ptr it.
Proof.
  intros it H. unfold mi_bnext. rewrite H. unfold mi_bend in H. apply Nat.leb_le in H.
  split; [apply skipn_all2; exact H|reflexivity].
Qed.

(* levelIterator.Next's first half: step over the current entry on the side(s) it came from *)
Definition adv (it : iter) : iter :=
  let it1 := if mi_on_iter it then mi_snap_next it else it in
  set_mi it1 (if mi_on_batch it1 then mi_bnext it1 else mi_ptr it1) (mi_on_iter it1) (mi_on_batch it1) true.

Definition merge_post (it : iter) (r : bool * iter) : Prop :=
  same_st it (snd r) /\
  match mrg (sn_of it) (bt_of it) with
  | [] => fst r = false /\ mi_on_iter (snd r) = false /\ mi_on_batch (snd r) = false /\
          sn_of (snd r) = [] /\ bt_of (snd r) = [] /\ mi_inv (snd r)
  | e :: rest => fst r = true /\ mi_raw (snd r) = Some e /\ mi_inv (adv (snd r)) /\
                 rest = mrg (sn_of (adv (snd r))) (bt_of (adv (snd r)))
  end.
Lemma merge_post_via : forall it it2 r, same_st it it2 -> mrg (sn_of it) (bt_of it) = mrg (sn_of it2) (bt_of it2) ->
  merge_post it2 r -> merge_post it r.
Proof.
  intros it it2 r Hs Hm [Hs2 Hp]. split; [eapply same_st_trans; eauto|]. rewrite Hm. exact Hp.
Qed.

Lemma mi_merge_eq : forall fuel it, mi_merge fuel it =
  let oi := negb (it_end it) in
  let ob := negb (mi_bend it) in
  let '(oi, ob) :=
    if oi && ob
    then match bcmp (match mi_snap_cur it with Some (k, _) => k | None => [] end)
                    (match mi_batch_cur it with Some (k, _) => k | None => [] end) with
         | Lt => (true, false) | Eq => (true, true) | Gt => (false, true)
         end
    else (oi, ob) in
  if negb ob || negb (mi_deleted it) then (oi || ob, set_mi it (mi_ptr it) oi ob (mi_started it))
  else match fuel with
       | O => (false, set_mi it (mi_ptr it) false false (mi_started it))
       | S f => let it1 := if oi then mi_snap_next it else it in
                mi_merge f (set_mi it1 (mi_bnext it1) oi ob (mi_started it1))
       end.
Proof. destruct fuel; reflexivity. Qed.

Lemma set_mi_same : forall it p a b, same_st it (set_mi it p a b (mi_started it)).
Proof. intros. repeat split. Qed.

Lemma sn_of_set_mi : forall it p a b c, sn_of (set_mi it p a b c) = sn_of it.
Proof. reflexivity. Qed.
Lemma bt_of_set_mi : forall it p a b c, bt_of (set_mi it p a b c) = skipn p (mi_keys it).
Proof. reflexivity. Qed.
Lemma merge_spec : forall fuel it, mi_inv it -> (length (bt_of it) < fuel)%nat -> merge_post it (mi_merge fuel it).
Proof.
  induction fuel as [|fuel IH]; intros it Hi Hfuel; [lia|].
  rewrite mi_merge_eq. unfold mi_deleted.
  destruct (it_end it) eqn:He; destruct (mi_bend it) eqn:Hb; cbn [negb andb].
  - (* both sides exhausted *)
    destruct (batch_end it Hb) as [Hbt _]. pose proof (snap_end it He) as Hsn.
    cbn [orb]. split; [apply set_mi_same|]. rewrite Hsn, Hbt. cbn [mrg flat_map fst snd].
    repeat split; try reflexivity; try exact Hsn; try exact Hbt. exact Hi.
  - (* only the batch *)
    destruct (batch_step it Hb) as [[bk bv] [Hcur [Hbt Hnx]]]. pose proof (snap_end it He) as Hsn.
    rewrite Hcur. destruct bv as [v|]; cbn [negb orb].
    + split; [apply set_mi_same|]. rewrite Hsn, Hbt, mrg_nil_l. cbn [flat_map emit fst snd app].
      split; [reflexivity|]. split; [unfold mi_raw; cbn [set_mi mi_on_batch]; unfold mi_batch_cur; cbn [set_mi mi_keys mi_ptr]; unfold mi_batch_cur in Hcur; rewrite Hcur; reflexivity|].
      split; [unfold adv, mi_inv; cbn [set_mi mi_on_iter it_end]; rewrite He; discriminate|].
      unfold adv. cbn [set_mi mi_on_iter mi_on_batch]. unfold sn_of, bt_of. cbn [set_mi it_end mi_ptr mi_keys].
      rewrite He. rewrite mrg_nil_l.
      change (mi_bnext (set_mi it (mi_ptr it) false true (mi_started it))) with (mi_bnext it). rewrite Hnx. reflexivity.
    + set (it2 := set_mi it (mi_bnext it) false true (mi_started it)).
      apply (merge_post_via it it2); [apply set_mi_same| |].
      * change (sn_of it2) with (sn_of it). rewrite Hsn, Hbt, !mrg_nil_l. cbn [flat_map emit fst snd app].
        unfold bt_of, it2. cbn [set_mi mi_ptr mi_keys]. rewrite Hnx. reflexivity.
      * apply IH; [exact Hi|]. unfold bt_of, it2. cbn [set_mi mi_ptr mi_keys]. rewrite Hnx.
        rewrite Hbt in Hfuel. cbn [length] in Hfuel. lia.
  - (* only the snapshot *)
    destruct (batch_end it Hb) as [Hbt _]. destruct (snap_step it Hi He) as [s [Hcur [Hsn Hi']]].
    cbn [orb]. split; [apply set_mi_same|]. rewrite Hsn, Hbt, mrg_nil_r. cbn [fst snd].
    split; [reflexivity|]. split; [unfold mi_raw; cbn [set_mi mi_on_batch mi_on_iter]; exact Hcur|].
    set (r := set_mi it (mi_ptr it) true false (mi_started it)).
    assert (Ea : adv r = set_mi (mi_snap_next it) (mi_ptr (mi_snap_next it)) (mi_on_iter (mi_snap_next r)) (mi_on_batch (mi_snap_next r)) true).
    { unfold adv. change (mi_on_iter r) with true. cbv iota.
      destruct (snap_next_fields r) as [_ [_ [_ Hob]]]. rewrite Hob. change (mi_on_batch r) with false. cbv iota.
      unfold mi_snap_next. change (ldb_next r) with (ldb_next it). destruct (ldb_next it). reflexivity. }
    rewrite Ea. split; [exact Hi'|]. unfold bt_of at 1. cbn [set_mi mi_ptr mi_keys].
    destruct (snap_next_fields it) as [[_ [Hk _]] [Hp _]]. rewrite Hk, Hp. fold (bt_of it). rewrite Hbt, mrg_nil_r. reflexivity.
  - (* both *)
    destruct (batch_step it Hb) as [[bk bv] [Hbcur [Hbt Hnx]]]. destruct (snap_step it Hi He) as [[sk sv] [Hscur [Hsn Hi']]].
    rewrite Hscur, Hbcur. rewrite Hbt in Hfuel.
    assert (Hmr := mrg_cons (sk, sv) (sn_of (mi_snap_next it)) (bk, bv) (skipn (S (mi_ptr it)) (mi_keys it))).
    cbn [fst] in Hmr.
    destruct (snap_next_fields it) as [[_ [Hk _]] [Hp _]].
    destruct (bcmp sk bk) eqn:Ec.
    + (* the same key on both sides *)
      destruct bv as [v|]; cbn [negb orb].
      * split; [apply set_mi_same|]. rewrite Hsn, Hbt, Hmr. cbn [emit fst snd app].
        split; [reflexivity|].
        split; [unfold mi_raw; cbn [set_mi mi_on_batch]; unfold mi_batch_cur; cbn [set_mi mi_keys mi_ptr]; unfold mi_batch_cur in Hbcur; rewrite Hbcur; reflexivity|].
        set (r := set_mi it (mi_ptr it) true true (mi_started it)).
        assert (Ea : adv r = set_mi (mi_snap_next it) (mi_bnext (mi_snap_next it)) (mi_on_iter (mi_snap_next r)) (mi_on_batch (mi_snap_next r)) true).
        { unfold adv. change (mi_on_iter r) with true. cbv iota.
          destruct (snap_next_fields r) as [_ [_ [_ Hob]]]. rewrite Hob. change (mi_on_batch r) with true. cbv iota.
          unfold mi_snap_next. change (ldb_next r) with (ldb_next it). destruct (ldb_next it). reflexivity. }
        rewrite Ea. split; [exact Hi'|]. unfold bt_of at 1. cbn [set_mi mi_ptr mi_keys].
        rewrite snap_next_bnext, Hk, Hnx. reflexivity.
      * set (it2 := set_mi (mi_snap_next it) (mi_bnext (mi_snap_next it)) true true (mi_started (mi_snap_next it))).
        apply (merge_post_via it it2).
        -- eapply same_st_trans; [apply snap_next_fields|apply set_mi_same].
        -- rewrite Hsn, Hbt, Hmr. cbn [emit fst snd app]. change (sn_of it2) with (sn_of (mi_snap_next it)).
           unfold bt_of, it2. cbn [set_mi mi_ptr mi_keys]. rewrite snap_next_bnext, Hk, Hnx. reflexivity.
        -- apply IH; [exact Hi'|]. unfold bt_of, it2. cbn [set_mi mi_ptr mi_keys]. rewrite snap_next_bnext, Hk, Hnx.
           cbn [length] in Hfuel. lia.
    + (* the committed entry comes first *)
      cbn [negb orb]. split; [apply set_mi_same|]. rewrite Hsn, Hbt, Hmr. cbn [fst snd].
      split; [reflexivity|]. split; [unfold mi_raw; cbn [set_mi mi_on_batch mi_on_iter]; exact Hscur|].
      set (r := set_mi it (mi_ptr it) true false (mi_started it)).
      assert (Ea : adv r = set_mi (mi_snap_next it) (mi_ptr (mi_snap_next it)) (mi_on_iter (mi_snap_next r)) (mi_on_batch (mi_snap_next r)) true).
      { unfold adv. change (mi_on_iter r) with true. cbv iota.
        destruct (snap_next_fields r) as [_ [_ [_ Hob]]]. rewrite Hob. change (mi_on_batch r) with false. cbv iota.
        unfold mi_snap_next. change (ldb_next r) with (ldb_next it). destruct (ldb_next it). reflexivity. }
      rewrite Ea. split; [exact Hi'|]. unfold bt_of at 1. cbn [set_mi mi_ptr mi_keys].
      rewrite Hk, Hp. fold (bt_of it). rewrite Hbt. reflexivity.
    + (* the batch key comes first *)
      destruct bv as [v|]; cbn [negb orb].
      * split; [apply set_mi_same|]. rewrite Hsn, Hbt, Hmr. cbn [emit fst snd app].
        split; [reflexivity|].
        split; [unfold mi_raw; cbn [set_mi mi_on_batch]; unfold mi_batch_cur; cbn [set_mi mi_keys mi_ptr]; unfold mi_batch_cur in Hbcur; rewrite Hbcur; reflexivity|].
        unfold adv. cbn [set_mi mi_on_iter mi_on_batch].
        split; [exact Hi|]. rewrite !sn_of_set_mi, !bt_of_set_mi, Hsn. cbn [set_mi mi_keys].
        change (mi_bnext (set_mi it (mi_ptr it) false true (mi_started it))) with (mi_bnext it). rewrite Hnx. reflexivity.
      * set (it2 := set_mi it (mi_bnext it) false true (mi_started it)).
        apply (merge_post_via it it2); [apply set_mi_same| |].
        -- rewrite Hsn, Hbt, Hmr. cbn [emit fst snd app]. change (sn_of it2) with (sn_of it). rewrite Hsn.
           unfold bt_of, it2. cbn [set_mi mi_ptr mi_keys]. rewrite Hnx. reflexivity.
        -- apply IH; [exact Hi|]. unfold bt_of, it2. cbn [set_mi mi_ptr mi_keys]. rewrite Hnx.
           cbn [length] in Hfuel. lia.
Qed.

(* ------------------------------------------------------------------ keys of the merged run *)
Definition keys_ne {V} (l : list (bytes * V)) : Prop := Forall (fun e => fst e <> []) l.
Lemma emit_key : forall b e, In e (emit b) -> fst e = fst b /\ snd b = Some (snd e).
Proof. intros [k [v|]] e H; cbn in H; [destruct H as [H|[]]; subst e; auto|destruct H]. Qed.
Lemma mrg_key_src : forall sn bt e, In e (mrg sn bt) -> In (fst e) (map fst sn) \/ In (fst e) (map fst bt).
Proof.
  induction sn as [|s sn IHs]; intros bt e H.
  - rewrite mrg_nil_l in H. apply in_flat_map in H. destruct H as [b [Hb He]]. right.
    apply emit_key in He. destruct He as [He _]. rewrite He. apply in_map. exact Hb.
  - induction bt as [|b bt IHb]; [rewrite mrg_nil_r in H; left; apply in_map; exact H|].
    rewrite mrg_cons in H. destruct (bcmp (fst s) (fst b)).
    + apply in_app_or in H. destruct H as [H|H].
      * right. apply emit_key in H. destruct H as [H _]. rewrite H. left. reflexivity.
      * destruct (IHs bt e H) as [G|G]; [left; right; exact G|right; right; exact G].
    + destruct H as [H|H]; [subst e; left; left; reflexivity|].
      destruct (IHs (b :: bt) e H) as [G|G]; [left; right; exact G|right; exact G].
    + apply in_app_or in H. destruct H as [H|H].
      * right. apply emit_key in H. destruct H as [H _]. rewrite H. left. reflexivity.
      * destruct (IHb H) as [G|G]; [left; exact G|right; right; exact G].
Qed.
Lemma keys_ne_in {V} : forall (l : list (bytes * V)) k, keys_ne l -> In k (map fst l) -> k <> [].
Proof.
  intros l k H Hin. apply in_map_iff in Hin. destruct Hin as [e [E He]]. subst k.
  unfold keys_ne in H. rewrite Forall_forall in H. apply H. exact He.
Qed.
Lemma keys_ne_skipn {V} : forall n (l : list (bytes * V)), keys_ne l -> keys_ne (skipn n l).
Proof.
  intros n l H. unfold keys_ne in *. rewrite Forall_forall in *. intros e He. apply H.
  rewrite <- (firstn_skipn n l). apply in_or_app. right. exact He.
Qed.
Lemma sn_of_ne : forall it, keys_ne (it_ents it) -> keys_ne (sn_of it).
Proof.
  intros it H. unfold sn_of. destruct (it_end it); [constructor|]. destruct (it_pos it); try constructor.
  apply keys_ne_skipn. exact H.
Qed.
Lemma mrg_ne : forall it e, keys_ne (it_ents it) -> keys_ne (mi_keys it) -> In e (mrg (sn_of it) (bt_of it)) -> fst e <> [].
Proof.
  intros it e H1 H2 H. apply mrg_key_src in H. destruct H as [H|H].
  - eapply keys_ne_in; [apply sn_of_ne; exact H1|exact H].
  - eapply keys_ne_in; [apply keys_ne_skipn; exact H2|exact H].
Qed.

Lemma adv_same : forall it,
  it_ents (adv it) = it_ents it /\ mi_keys (adv it) = mi_keys it /\ it_pl (adv it) = it_pl it /\ it_ro (adv it) = it_ro it /\
  it_merge (adv it) = it_merge it /\ it_path (adv it) = it_path it /\ mi_started (adv it) = true.
Proof.
  intros it. unfold adv. destruct (mi_on_iter it); cbn [set_mi it_ents mi_keys it_pl it_ro it_merge it_path mi_started].
  - destruct (snap_next_fields it) as [[A1 [A2 [A3 [A4 [A5 [A6 A7]]]]]] _]. repeat split; assumption.
  - repeat split.
Qed.
Lemma bt_of_len : forall it, (length (bt_of it) < S (length (mi_keys it)))%nat.
Proof. intros it. unfold bt_of. rewrite skipn_length. lia. Qed.
Lemma mi_active_same : forall a b, it_ro b = it_ro a -> it_merge b = it_merge a -> mi_active b = mi_active a.
Proof. intros a b H1 H2. unfold mi_active. rewrite H1, H2. reflexivity. Qed.

(* what Key() / Value() show after merge has settled on entry e *)
Lemma mi_current : forall it e, mi_active it = true -> mi_raw it = Some e -> fst e <> [] ->
  iter_key it = Some (skipn (it_pl it) (fst e)) /\ iter_value it = snd e.
Proof.
  intros it [k v] Ha Hr Hne. unfold iter_key, iter_value, iter_raw. rewrite Ha, Hr. cbn [fst snd] in *.
  destruct k; [congruence|]. split; reflexivity.
Qed.

(* Next() until false on a moved iterator: the merged run of what is left after the current entry *)
Lemma drain_mi : forall fuel it, mi_active it = true -> mi_started it = true -> mi_inv (adv it) ->
  keys_ne (it_ents it) -> keys_ne (mi_keys it) ->
  (length (mrg (sn_of (adv it)) (bt_of (adv it))) < fuel)%nat ->
  drain fuel it = map (strip (it_pl it)) (mrg (sn_of (adv it)) (bt_of (adv it))).
Proof.
  induction fuel as [|fuel IH]; intros it Ha Hst Hi Hn1 Hn2 Hlen; [lia|].
  destruct (adv_same it) as [A1 [A2 [A3 [A4 [A5 [A6 A7]]]]]].
  cbn [drain]. unfold iter_next. rewrite Ha. unfold mi_next. rewrite Hst. cbn [negb]. rewrite orb_false_r.
  change (set_mi (if mi_on_iter it then mi_snap_next it else it)
            (if mi_on_batch (if mi_on_iter it then mi_snap_next it else it)
             then mi_bnext (if mi_on_iter it then mi_snap_next it else it)
             else mi_ptr (if mi_on_iter it then mi_snap_next it else it))
            (mi_on_iter (if mi_on_iter it then mi_snap_next it else it))
            (mi_on_batch (if mi_on_iter it then mi_snap_next it else it)) true) with (adv it).
  assert (Hf : (length (bt_of (adv it)) < mi_fuel it)%nat) by (unfold mi_fuel; rewrite <- A2; apply bt_of_len).
  pose proof (merge_spec (mi_fuel it) (adv it) Hi Hf) as [Hs Hp].
  destruct (mi_merge (mi_fuel it) (adv it)) as [ok it']. cbn [fst snd] in *.
  destruct Hs as [S1 [S2 [S3 [S4 [S5 [S6 S7]]]]]].
  assert (Hne : forall e, In e (mrg (sn_of (adv it)) (bt_of (adv it))) -> fst e <> []).
  { intros e He. apply (mrg_ne (adv it)); [rewrite A1; exact Hn1|rewrite A2; exact Hn2|exact He]. }
  destruct (mrg (sn_of (adv it)) (bt_of (adv it))) as [|e rest].
  - destruct Hp as [Hp _]. rewrite Hp. reflexivity.
  - destruct Hp as [P1 [P2 [P3 P4]]]. rewrite P1.
    assert (Ha' : mi_active it' = true) by (rewrite <- Ha; apply mi_active_same; congruence).
    destruct (mi_current it' e Ha' P2 (Hne e (or_introl eq_refl))) as [Hk Hv]. rewrite Hk, Hv.
    cbn [map]. unfold strip at 1. replace (it_pl it') with (it_pl it) by congruence. f_equal.
    rewrite (IH it'); [replace (it_pl it') with (it_pl it) by congruence; rewrite <- P4; reflexivity|exact Ha'|congruence|exact P3| | |].
    + rewrite S1, A1. exact Hn1.
    + rewrite S2, A2. exact Hn2.
    + rewrite <- P4. cbn [length] in Hlen. lia.
Qed.

(* merge on a moved iterator, then Next() until false: the merged run of what is left, current entry included *)
Lemma merge_out : forall it fuel, mi_active it = true -> mi_started it = true -> mi_inv it ->
  keys_ne (it_ents it) -> keys_ne (mi_keys it) ->
  (length (mrg (sn_of it) (bt_of it)) < fuel)%nat ->
  let r := mi_merge (mi_fuel it) it in
  (fst r = true <-> mrg (sn_of it) (bt_of it) <> []) /\
  iter_current (snd r) ++ drain fuel (snd r) = map (strip (it_pl it)) (mrg (sn_of it) (bt_of it)).
Proof.
  intros it fuel Ha Hst Hi Hn1 Hn2 Hlen r.
  pose proof (merge_spec (mi_fuel it) it Hi (bt_of_len it)) as [Hs Hp]. fold r in Hs, Hp.
  destruct r as [ok it']. cbn [fst snd] in *.
  destruct Hs as [S1 [S2 [S3 [S4 [S5 [S6 S7]]]]]].
  assert (Ha' : mi_active it' = true) by (rewrite <- Ha; apply mi_active_same; congruence).
  assert (Hst' : mi_started it' = true) by congruence.
  assert (Hne : forall e, In e (mrg (sn_of it) (bt_of it)) -> fst e <> []) by (intros e He; apply (mrg_ne it); assumption).
  destruct (mrg (sn_of it) (bt_of it)) as [|e rest].
  - destruct Hp as [P1 [P2 [P3 [P4 [P5 P6]]]]]. split; [rewrite P1; split; [discriminate|congruence]|].
    assert (Hcur : iter_current it' = []).
    { unfold iter_current, iter_key, iter_raw. rewrite Ha'. unfold mi_raw. rewrite P2, P3. reflexivity. }
    assert (Eadv : sn_of (adv it') = [] /\ bt_of (adv it') = [] /\ mi_inv (adv it')).
    { unfold adv. rewrite P2, P3. rewrite sn_of_set_mi. split; [exact P4|]. split; [exact P5|exact P6]. }
    destruct Eadv as [E1 [E2 E3]].
    rewrite Hcur. rewrite (drain_mi fuel it' Ha' Hst' E3); [rewrite E1, E2; reflexivity|rewrite S1; exact Hn1|rewrite S2; exact Hn2|].
    rewrite E1, E2. cbn. lia.
  - destruct Hp as [P1 [P2 [P3 P4]]]. split; [rewrite P1; split; [discriminate|reflexivity]|].
    destruct (mi_current it' e Ha' P2 (Hne e (or_introl eq_refl))) as [Hk Hv].
    unfold iter_current. rewrite Hk, Hv. cbn [map app]. unfold strip at 1. replace (it_pl it') with (it_pl it) by congruence. f_equal.
    rewrite (drain_mi fuel it' Ha' Hst' P3); [replace (it_pl it') with (it_pl it) by congruence; rewrite <- P4; reflexivity| | |].
    + rewrite S1. exact Hn1.
    + rewrite S2. exact Hn2.
    + rewrite <- P4. cbn [length] in Hlen. lia.
Qed.

(* sort.SearchStrings on the ascending key list: what is left is the keys >= k *)
Lemma filter_ge_all {V} : forall k (l : amap V), keys_sorted l -> (forall e, In e l -> ble k (fst e) = true) ->
  filter (fun x => ble k (fst x)) l = l.
Proof.
  intros k l _ H. induction l as [|e l IH]; [reflexivity|]. cbn [filter]. rewrite (H e (or_introl eq_refl)).
  f_equal. apply IH. intros x Hx. apply H. right. exact Hx.
Qed.
Lemma mi_search_spec : forall k keys, keys_sorted keys ->
  skipn (mi_search k keys) keys = filter (fun e => ble k (fst e)) keys.
Proof.
  intros k keys. induction keys as [|[k' o] r IH]; intros Hs; [reflexivity|].
  inversion Hs as [|? ? Hs' Hall]; subst. cbn [mi_search].
  destruct (ble k k') eqn:E.
  - cbn [skipn]. symmetry. apply filter_ge_all; [exact Hs|]. intros e [He|He]; [subst e; exact E|].
    rewrite Forall_forall in Hall. specialize (Hall e He). unfold key_lt in Hall. cbn [fst] in Hall.
    apply ble_iff. left. eapply ble_trans_lt; eauto.
  - cbn [skipn filter fst]. rewrite E. apply IH. exact Hs'.
Qed.

(* Seek(key) and the following Next()s on the merging iterator *)
Lemma seek_mi : forall it key fuel, mi_active it = true -> keys_sorted (it_ents it) -> keys_sorted (mi_keys it) ->
  keys_ne (it_ents it) -> keys_ne (mi_keys it) ->
  let ik := inner_key (it_path it) key in
  let L := mrg (filter (fun e => ble ik (fst e)) (it_ents it)) (filter (fun e => ble ik (fst e)) (mi_keys it)) in
  (length L < fuel)%nat ->
  (fst (iter_seek it key) = true <-> L <> []) /\
  iter_current (snd (iter_seek it key)) ++ drain fuel (snd (iter_seek it key)) = map (strip (it_pl it)) L.
Proof.
  intros it key fuel Ha Hs1 Hs2 Hn1 Hn2 ik L Hlen.
  unfold iter_seek. rewrite Ha. unfold mi_seek, ldb_seek. fold ik.
  pose proof (find_ge_spec ik (it_ents it) 0%nat Hs1) as Hf.
  set (it2 := fun pos e => set_mi (set_ldb it pos e) (mi_search ik (mi_keys it)) (mi_on_iter it) (mi_on_batch it) true).
  assert (Hbt : forall pos e, bt_of (it2 pos e) = filter (fun e => ble ik (fst e)) (mi_keys it)).
  { intros. unfold it2. rewrite bt_of_set_mi. apply mi_search_spec. exact Hs2. }
  destruct (find_ge ik (it_ents it) 0%nat) as [j|].
  - destruct Hf as [n [Ej [Hn Hsk]]]. cbn in Ej. subst j. cbn [negb].
    change (set_mi (set_ldb it (At n) false) (mi_search ik (mi_keys (set_ldb it (At n) false)))
              (mi_on_iter (set_ldb it (At n) false)) (mi_on_batch (set_ldb it (At n) false)) true) with (it2 (At n) false).
    assert (Hsn : sn_of (it2 (At n) false) = filter (fun e => ble ik (fst e)) (it_ents it)) by (rewrite <- Hsk; reflexivity).
    assert (Hi : mi_inv (it2 (At n) false)) by (intros _; exists n; split; [reflexivity|exact Hn]).
    pose proof (merge_out (it2 (At n) false) fuel Ha eq_refl Hi Hn1 Hn2) as Hm.
    rewrite Hsn, Hbt in Hm. exact (Hm Hlen).
  - cbn [negb].
    change (set_mi (set_ldb it EOI true) (mi_search ik (mi_keys (set_ldb it EOI true)))
              (mi_on_iter (set_ldb it EOI true)) (mi_on_batch (set_ldb it EOI true)) true) with (it2 EOI true).
    assert (Hsn : sn_of (it2 EOI true) = filter (fun e => ble ik (fst e)) (it_ents it)) by (rewrite Hf; reflexivity).
    assert (Hi : mi_inv (it2 EOI true)) by (intros H; discriminate).
    pose proof (merge_out (it2 EOI true) fuel Ha eq_refl Hi Hn1 Hn2) as Hm.
    rewrite Hsn, Hbt in Hm. exact (Hm Hlen).
Qed.

(* a fresh iterator drained by Next() *)
Lemma fresh_mi : forall it fuel, mi_active it = true -> mi_started it = false -> it_pos it = SOI -> it_end it = false ->
  mi_ptr it = 0%nat -> mi_on_batch it = false ->
  keys_ne (it_ents it) -> keys_ne (mi_keys it) ->
  (length (mrg (it_ents it) (mi_keys it)) < fuel)%nat ->
  drain (S fuel) it = map (strip (it_pl it)) (mrg (it_ents it) (mi_keys it)).
Proof.
  intros it fuel Ha Hst Hpos Hend Hptr Hob Hn1 Hn2 Hlen.
  cbn [drain]. unfold iter_next. rewrite Ha. unfold mi_next. rewrite Hst. cbn [negb]. rewrite orb_true_r.
  destruct (snap_next_fields it) as [[A1 [A2 [A3 [A4 [A5 [A6 A7]]]]]] [B1 [B2 B3]]].
  rewrite B3, Hob, B1.
  set (it2 := set_mi (mi_snap_next it) (mi_ptr it) (mi_on_iter (mi_snap_next it)) false true).
  assert (Hsn : sn_of it2 = it_ents it /\ mi_inv it2).
  { unfold it2. rewrite sn_of_set_mi. unfold sn_of, mi_inv, mi_snap_next, ldb_next. rewrite Hpos.
    destruct (it_ents it) as [|e r] eqn:Ee; cbn [set_ldb set_mi it_end it_pos it_ents negb].
    - split; [reflexivity|discriminate].
    - rewrite Ee. split; [reflexivity|]. intros _. exists 0%nat. split; [reflexivity|cbn; lia]. }
  destruct Hsn as [Hsn Hi].
  assert (Hbt : bt_of it2 = mi_keys it) by (unfold it2; rewrite bt_of_set_mi, Hptr, A2; reflexivity).
  assert (Ha2 : mi_active it2 = true) by (rewrite <- Ha; apply mi_active_same; assumption).
  assert (Hf : mi_fuel it = mi_fuel it2) by (unfold mi_fuel, it2; cbn [set_mi mi_keys]; rewrite A2; reflexivity).
  rewrite Hf.
  pose proof (merge_out it2 fuel Ha2 eq_refl Hi) as Hm. rewrite Hsn, Hbt in Hm.
  specialize (Hm ltac:(unfold it2; cbn [set_mi it_ents]; rewrite A1; exact Hn1) ltac:(unfold it2; cbn [set_mi mi_keys]; rewrite A2; exact Hn2) Hlen).
  destruct Hm as [Hm1 Hm2]. replace (it_pl it2) with (it_pl it) in Hm2 by (symmetry; exact A3).
  pose proof (merge_spec (mi_fuel it2) it2 Hi (bt_of_len it2)) as [Hs Hp].
  destruct (mi_merge (mi_fuel it2) it2) as [ok it']. cbn [fst snd] in *. rewrite Hsn, Hbt in Hp.
  destruct (mrg (it_ents it) (mi_keys it)) as [|e rest].
  - destruct Hp as [P1 _]. rewrite P1. reflexivity.
  - destruct Hp as [P1 [P2 _]]. rewrite P1. rewrite <- Hm2. unfold iter_current.
    destruct (iter_key it'); reflexivity.
Qed.

(* ------------------------------------------------------------------ 3. what the merged run contains *)
Definition lb {V} (x : bytes) (l : amap V) : Prop := Forall (fun e => blt x (fst e) = true) l.
Lemma m_get_cons {V} : forall k k' (v : V) r, m_get k ((k', v) :: r) = if beqb k k' then Some v else m_get k r.
Proof. reflexivity. Qed.
Lemma m_get_lb {V} : forall x (l : amap V), lb x l -> m_get x l = None.
Proof.
  intros x l. induction l as [|[k v] l IH]; intros H; [reflexivity|]. inversion H as [|? ? H1 H2]; subst. cbn [fst] in H1.
  rewrite m_get_cons. destruct (beqb x k) eqn:E; [|apply IH; exact H2].
  apply beqb_true_iff in E. subst k. rewrite blt_irrefl in H1. discriminate.
Qed.
Lemma lb_trans {V} : forall x y (l : amap V), blt x y = true -> lb y l -> lb x l.
Proof.
  intros x y l Hxy H. unfold lb in *. rewrite Forall_forall in *. intros e He. eapply blt_trans; [exact Hxy|apply H; exact He].
Qed.
Lemma sorted_lb {V} : forall e (l : amap V), keys_sorted (e :: l) -> lb (fst e) l /\ keys_sorted l.
Proof. intros e l H. inversion H as [|? ? H1 H2]; subst. split; [exact H2|exact H1]. Qed.
Lemma lb_in {V} : forall x (l : amap V) k, lb x l -> In k (map fst l) -> blt x k = true.
Proof.
  intros x l k H Hin. apply in_map_iff in Hin. destruct Hin as [e [E He]]. subst k.
  unfold lb in H. rewrite Forall_forall in H. apply H. exact He.
Qed.
Lemma mrg_lb : forall x sn bt, lb x sn -> lb x bt -> lb x (mrg sn bt).
Proof.
  intros x sn bt H1 H2. unfold lb. rewrite Forall_forall. intros e He. apply mrg_key_src in He.
  destruct He as [He|He]; [exact (lb_in x sn _ H1 He)|exact (lb_in x bt _ H2 He)].
Qed.
Lemma emit_shape : forall b, emit b = [] \/ exists w, emit b = [(fst b, w)].
Proof. intros [k [v|]]; [right; exists v; reflexivity|left; reflexivity]. Qed.
Lemma blt_of_lt : forall a b, bcmp a b = Lt -> blt a b = true.
Proof. intros a b H. unfold blt. rewrite H. reflexivity. Qed.
Lemma blt_of_gt : forall a b, bcmp a b = Gt -> blt b a = true.
Proof. intros a b H. unfold blt. rewrite bcmp_antisym, H. reflexivity. Qed.

Lemma mrg_sorted : forall sn bt, keys_sorted sn -> keys_sorted bt -> keys_sorted (mrg sn bt).
Proof.
  induction sn as [|[sk sv] sn IHs].
  - intros bt _ Hb. rewrite mrg_nil_l. apply flat_map_sorted; [apply emit_shape|exact Hb].
  - intros bt Hs. destruct (sorted_lb _ _ Hs) as [Hls Hs']. cbn [fst] in Hls.
    induction bt as [|[bk bv] bt IHb]; intros Hb; [rewrite mrg_nil_r; exact Hs|].
    destruct (sorted_lb _ _ Hb) as [Hlb Hb']. cbn [fst] in Hlb.
    rewrite mrg_cons. cbn [fst]. destruct (bcmp sk bk) eqn:Ec.
    + apply bcmp_eq_iff in Ec. subst bk. destruct bv as [v|]; cbn [emit fst snd app]; [|apply IHs; assumption].
      constructor; [apply IHs; assumption|]. apply (mrg_lb sk); assumption.
    + apply blt_of_lt in Ec. constructor; [apply IHs; assumption|]. apply (mrg_lb sk); [exact Hls|].
      constructor; [exact Ec|]. eapply lb_trans; eauto.
    + apply blt_of_gt in Ec. destruct bv as [v|]; cbn [emit fst snd app]; [|apply IHb; exact Hb'].
      constructor; [apply IHb; exact Hb'|]. apply (mrg_lb bk); [|exact Hlb].
      constructor; [exact Ec|]. eapply lb_trans; eauto.
Qed.

Lemma m_get_emit_app : forall b X k,
  m_get k (emit b ++ X) = if beqb k (fst b) then match snd b with Some v => Some v | None => m_get k X end else m_get k X.
Proof. intros [bk [v|]] X k; cbn [emit fst snd app]; [rewrite m_get_cons|]; destruct (beqb k bk); reflexivity. Qed.

(* a key's entry in the merged run: the batch's word when the batch has written the key, the committed entry otherwise *)
Lemma mrg_get : forall sn bt, keys_sorted sn -> keys_sorted bt -> forall k,
  m_get k (mrg sn bt) = match m_get k bt with Some o => o | None => m_get k sn end.
Proof.
  induction sn as [|[sk sv] sn IHs].
  - intros bt _ Hb k. rewrite mrg_nil_l. induction bt as [|[bk bv] bt IHb]; [reflexivity|].
    destruct (sorted_lb _ _ Hb) as [Hl Hb']. cbn [fst] in Hl. cbn [flat_map]. rewrite m_get_emit_app. cbn [fst snd].
    rewrite m_get_cons. rewrite (IHb Hb'). destruct (beqb k bk) eqn:E; [|reflexivity].
    destruct bv; [reflexivity|]. apply beqb_true_iff in E. subst k. rewrite (m_get_lb _ _ Hl). reflexivity.
  - intros bt Hs. destruct (sorted_lb _ _ Hs) as [Hls Hs']. cbn [fst] in Hls.
    induction bt as [|[bk bv] bt IHb]; intros Hb k; [rewrite mrg_nil_r; reflexivity|].
    destruct (sorted_lb _ _ Hb) as [Hlb Hb']. cbn [fst] in Hlb.
    rewrite mrg_cons. cbn [fst]. destruct (bcmp sk bk) eqn:Ec.
    + apply bcmp_eq_iff in Ec. subst bk. rewrite m_get_emit_app. cbn [fst snd].
      rewrite (m_get_cons k sk bv bt), (m_get_cons k sk sv sn), (IHs bt Hs' Hb').
      destruct (beqb k sk) eqn:E; [|reflexivity].
      apply beqb_true_iff in E. subst k. rewrite (m_get_lb _ _ Hlb), (m_get_lb _ _ Hls). destruct bv; reflexivity.
    + rewrite (m_get_cons k sk sv (mrg sn ((bk, bv) :: bt))), (m_get_cons k sk sv sn).
      destruct (beqb k sk) eqn:E; [|apply IHs; assumption].
      apply beqb_true_iff in E. subst k. rewrite m_get_cons.
      replace (beqb sk bk) with false by (unfold beqb; rewrite Ec; reflexivity).
      rewrite (m_get_lb sk bt); [reflexivity|]. eapply lb_trans; [apply blt_of_lt; exact Ec|exact Hlb].
    + rewrite m_get_emit_app. cbn [fst snd]. rewrite (m_get_cons k bk bv bt). rewrite (IHb Hb').
      destruct (beqb k bk) eqn:E; [|reflexivity].
      apply beqb_true_iff in E. subst k. rewrite (m_get_lb bk bt Hlb).
      rewrite (m_get_lb bk ((sk, sv) :: sn)); [destruct bv; reflexivity|].
      constructor; [apply blt_of_gt; exact Ec|]. eapply lb_trans; [apply blt_of_gt; exact Ec|exact Hls].
Qed.
Lemma mrg_len : forall sn bt, (length (mrg sn bt) <= length sn + length bt)%nat.
Proof.
  induction sn as [|s sn IHs]; intros bt.
  - rewrite mrg_nil_l. cbn [length plus]. apply flat_map_len1. intros [k [v|]]; cbn; lia.
  - induction bt as [|b bt IHb]; [rewrite mrg_nil_r; lia|]. rewrite mrg_cons.
    assert (He : (length (emit b) <= 1)%nat) by (destruct b as [k [v|]]; cbn; lia).
    destruct (bcmp (fst s) (fst b)); cbn [length]; rewrite ?app_length.
    + specialize (IHs bt). lia.
    + specialize (IHs (b :: bt)). cbn [length] in IHs. lia.
    + cbn [length] in IHb. lia.
Qed.

Lemma m_get_filter {V} : forall (p : bytes -> bool) (l : amap V) k,
  m_get k (filter (fun e => p (fst e)) l) = if p k then m_get k l else None.
Proof.
  intros p l k. induction l as [|[k' v] l IH]; [destruct (p k); reflexivity|]. cbn [filter fst].
  rewrite (m_get_cons k k' v l). destruct (beqb k k') eqn:E.
  - apply beqb_true_iff in E. subst k'. destruct (p k) eqn:Ep; [rewrite m_get_cons, beqb_refl; reflexivity|].
    exact IH.
  - destruct (p k'); [rewrite m_get_cons, E|]; exact IH.
Qed.

(* batch.netChanges *)
Definition key_union (ks : list bytes) : amap unit := fold_right (fun k acc => m_put k tt acc) [] ks.
Lemma key_union_sorted : forall ks, keys_sorted (key_union ks).
Proof. induction ks as [|k ks IH]; [constructor|]. cbn [key_union fold_right]. apply m_put_sorted. exact IH. Qed.
Lemma key_union_get : forall ks k, m_get k (key_union ks) = if existsb (beqb k) ks then Some tt else None.
Proof.
  induction ks as [|a ks IH]; intros k; [reflexivity|]. cbn [key_union fold_right existsb]. fold (key_union ks).
  destruct (beqb k a) eqn:E.
  - apply beqb_true_iff in E. subst a. rewrite m_get_put_same. reflexivity.
  - apply beqb_false_iff in E. rewrite m_get_put_other by exact E. cbn [orb]. apply IH.
Qed.
Lemma m_put_len {V} : forall k (v : V) m, (length (m_put k v m) <= S (length m))%nat.
Proof.
  intros k v m. induction m as [|[k' v'] m IH]; [cbn; lia|]. cbn [m_put]. destruct (bcmp k k'); cbn [length] in *; lia.
Qed.
Lemma key_union_len : forall ks, (length (key_union ks) <= length ks)%nat.
Proof.
  induction ks as [|k ks IH]; [cbn; lia|]. cbn [key_union fold_right length]. fold (key_union ks).
  pose proof (m_put_len k tt (key_union ks)). lia.
Qed.
Lemma existsb_keys {V} : forall k (m : amap V), existsb (beqb k) (map fst m) = match m_get k m with Some _ => true | None => false end.
Proof.
  intros k m. induction m as [|[k' v] m IH]; [reflexivity|]. cbn [map fst existsb]. rewrite m_get_cons.
  destruct (beqb k k'); [reflexivity|exact IH].
Qed.
Lemma m_get_map_keys {W} : forall (g : bytes -> W) (l : amap unit) k,
  m_get k (map (fun e : bytes * unit => (fst e, g (fst e))) l) = match m_get k l with Some _ => Some (g k) | None => None end.
Proof.
  intros g l k. induction l as [|[k' u] l IH]; [reflexivity|]. cbn [map fst]. rewrite !m_get_cons.
  destruct (beqb k k') eqn:E; [|exact IH]. apply beqb_true_iff in E. subst k'. reflexivity.
Qed.
Lemma map_keys_sorted {W} : forall (g : bytes -> W) (l : amap unit), keys_sorted l ->
  keys_sorted (map (fun e : bytes * unit => (fst e, g (fst e))) l).
Proof.
  intros g l H. induction H as [|e l Hs IH Hall]; [constructor|]. cbn [map]. constructor; [exact IH|].
  rewrite Forall_forall in *. intros x Hx. apply in_map_iff in Hx. destruct Hx as [y [E Hy]]. subst x.
  unfold key_lt. cbn [fst]. apply (Hall y Hy).
Qed.
Lemma net_changes_sorted : forall b lo hi, keys_sorted (net_changes b lo hi).
Proof.
  intros b lo hi. unfold net_changes. apply (map_keys_sorted (fun k => fst (batch_get b k))). apply (@filter_sorted unit). apply key_union_sorted.
Qed.
Lemma net_changes_get : forall b lo hi k,
  m_get k (net_changes b lo hi) = if bi_in lo hi k then batch_view b k else None.
Proof.
  intros b lo hi k. unfold net_changes. rewrite (m_get_map_keys (fun k => fst (batch_get b k))).
  fold (key_union (map fst (b_puts b) ++ map fst (b_dels b))).
  rewrite (m_get_filter (bi_in lo hi)). destruct (bi_in lo hi k); [|reflexivity].
  rewrite key_union_get, existsb_app, !existsb_keys. unfold batch_view, batch_get.
  destruct (m_get k (b_puts b)) as [[d sp]|]; destruct (m_get k (b_dels b)) as [sd|]; cbn; try destruct (sp <? sd)%Z; reflexivity.
Qed.
Lemma net_changes_len : forall b lo hi, (length (net_changes b lo hi) <= length (b_puts b) + length (b_dels b))%nat.
Proof.
  intros b lo hi. unfold net_changes. rewrite map_length.
  fold (key_union (map fst (b_puts b) ++ map fst (b_dels b))).
  pose proof (filter_len (fun e : bytes * unit => bi_in lo hi (fst e)) (key_union (map fst (b_puts b) ++ map fst (b_dels b)))).
  pose proof (key_union_len (map fst (b_puts b) ++ map fst (b_dels b))) as H2. rewrite app_length, !map_length in H2. lia.
Qed.
Lemma net_changes_ne : forall b lo hi, lo <> [] -> keys_ne (net_changes b lo hi).
Proof.
  intros b lo hi Hlo. unfold keys_ne, net_changes. rewrite Forall_forall. intros e He.
  apply in_map_iff in He. destruct He as [x [E Hx]]. subst e. cbn [fst]. apply filter_In in Hx. destruct Hx as [_ Hx].
  unfold bi_in in Hx. apply andb_true_iff in Hx. destruct Hx as [Hx _]. eapply ble_nonempty; eauto.
Qed.
Lemma range_entries_ne : forall s lo hi, lo <> [] -> keys_ne (range_entries s lo hi).
Proof.
  intros s lo hi Hlo. unfold keys_ne, range_entries. rewrite Forall_forall. intros e He.
  apply filter_In in He. destruct He as [_ He]. unfold in_range in He. apply andb_true_iff in He. destruct He as [He _].
  eapply ble_nonempty; eauto.
Qed.

(* ------------------------------------------------------------------ assembly: the transaction's view *)
Lemma commit_key_bytes : forall s b K v, keys_sorted s -> keys_bytes s -> batch_wf b -> keys_bytes (b_puts b) ->
  s_get K (commit s b) = Some v -> bytes_ok K.
Proof.
  intros s b K v Hs Hb [Hok Hps] Hbb H. rewrite commit_get in H by exact Hok.
  destruct (batch_view b K) as [[v'|]|] eqn:E.
  - unfold batch_view, batch_get in E. destruct (m_get K (b_puts b)) as [[d sp]|] eqn:Ep.
    + apply (sorted_get_in _ _ _ Hps) in Ep. unfold keys_bytes in Hbb. rewrite Forall_forall in Hbb. apply (Hbb _ Ep).
    + destruct (m_get K (b_dels b)); discriminate.
  - discriminate.
  - eapply store_key_bytes; eauto.
Qed.

(* inner keys: the merged run of the committed range and the batch's changes of the range, both restricted by q, holds
   for every key of the range satisfying q what the store would hold after commit, and nothing else; ascending *)
Lemma view_inner : forall s b lo hi (q : bytes -> bool), keys_sorted s -> batch_ok b -> hi <> None ->
  let L := mrg (filter (fun e => q (fst e)) (range_entries s lo hi)) (filter (fun e => q (fst e)) (net_changes b lo hi)) in
  keys_sorted L /\ forall K, m_get K L = if in_range lo hi K && q K then s_get K (commit s b) else None.
Proof.
  intros s b lo hi q Hs Hok Hhi L.
  assert (S1 : keys_sorted (filter (fun e : bytes * bytes => q (fst e)) (range_entries s lo hi)))
    by (apply (@filter_sorted bytes); apply range_entries_sorted; exact Hs).
  assert (S2 : keys_sorted (filter (fun e : bytes * option bytes => q (fst e)) (net_changes b lo hi)))
    by (apply (@filter_sorted (option bytes)); apply net_changes_sorted).
  split; [apply mrg_sorted; assumption|].
  intros K. unfold L. rewrite (mrg_get _ _ S1 S2). rewrite !(m_get_filter q). rewrite net_changes_get, bi_in_range by exact Hhi.
  unfold range_entries. rewrite (m_get_filter (in_range lo hi)). rewrite commit_get by exact Hok. unfold s_get.
  destruct (q K); destruct (in_range lo hi K); cbn [andb]; try reflexivity.
Qed.

Lemma view_user : forall s b h start limit (q q' : bytes -> bool),
  keys_sorted s -> keys_bytes s -> batch_wf b -> keys_bytes (b_puts b) -> bytes_ok (h_path h) ->
  (forall k, q (inner_key (h_path h) k) = q' k) ->
  let lo := inner_key (h_path h) start in
  let hi := match limit with [] => bp_limit (inner_key (h_path h) []) | _ :: _ => Some (inner_key (h_path h) limit) end in
  let L := mrg (filter (fun e => q (fst e)) (range_entries s lo hi)) (filter (fun e => q (fst e)) (net_changes b lo hi)) in
  let X := map (strip (S (length (h_path h)))) L in
  keys_sorted X /\
  (forall k v, In (k, v) X <-> s_get (inner_key (h_path h) k) (commit s b) = Some v /\ user_range start limit k = true /\ q' k = true).
Proof.
  intros s b h start limit q q' Hs Hb Hwf Hbb Hp Hq lo hi L X.
  assert (Hhi : hi <> None) by (apply iter_limit_some; exact Hp).
  destruct (view_inner s b lo hi q Hs (proj1 Hwf) Hhi) as [HsL HgL]. fold L in HsL, HgL.
  assert (Hin : forall K v, In (K, v) L <-> in_range lo hi K = true /\ q K = true /\ s_get K (commit s b) = Some v).
  { intros K v. rewrite (sorted_get_in L K v HsL), HgL. destruct (in_range lo hi K); destruct (q K); cbn [andb];
      split; try tauto; try (intros H; discriminate); intros [? [? ?]]; discriminate. }
  assert (Hpre : Forall (fun e => has_prefix (h_path h ++ [SEP]) (fst e) = true) L).
  { rewrite Forall_forall. intros [K v] HK. cbn [fst]. apply Hin in HK. destruct HK as [G1 [_ G3]].
    apply (iter_range_in_bucket (h_path h) start limit K Hp); [exact (commit_key_bytes s b K v Hs Hb Hwf Hbb G3)|exact G1]. }
  assert (HL : L = inner_ents (h_path h) X) by (apply ents_with_prefix; exact Hpre).
  split; [apply (inner_ents_sorted (h_path h)); rewrite <- HL; exact HsL|].
  intros k v. rewrite <- (inner_ents_in (h_path h) X k v), <- HL, Hin, Hq. split.
  - intros [G1 [G2 G3]]. split; [exact G3|]. split; [|exact G2].
    assert (Hk : bytes_ok k) by (apply (inner_key_bytes_inv (h_path h)); exact (commit_key_bytes s b _ v Hs Hb Hwf Hbb G3)).
    unfold lo, hi in G1. rewrite inner_range_is_user_range in G1 by assumption. exact G1.
  - intros [G3 [G1 G2]]. split; [|split; assumption].
    assert (Hk : bytes_ok k) by (apply (inner_key_bytes_inv (h_path h)); exact (commit_key_bytes s b _ v Hs Hb Hwf Hbb G3)).
    unfold lo, hi. rewrite inner_range_is_user_range by assumption. exact G1.
Qed.

Lemma inner_key_ne : forall path k, inner_key path k <> [].
Proof. intros path k. unfold inner_key. destruct path; discriminate. Qed.
Lemma filter_true_id {A} : forall (l : list A), filter (fun _ => true) l = l.
Proof. induction l as [|a l IH]; [reflexivity|]. cbn [filter]. rewrite IH. reflexivity. Qed.
Lemma run_len : forall s b lo hi (q : bytes -> bool),
  (length (mrg (filter (fun e => q (fst e)) (range_entries s lo hi)) (filter (fun e => q (fst e)) (net_changes b lo hi)))
   <= length s + length (b_puts b) + length (b_dels b))%nat.
Proof.
  intros s b lo hi q.
  pose proof (mrg_len (filter (fun e : bytes * bytes => q (fst e)) (range_entries s lo hi))
                      (filter (fun e : bytes * option bytes => q (fst e)) (net_changes b lo hi))) as H0.
  pose proof (filter_len (fun e : bytes * bytes => q (fst e)) (range_entries s lo hi)) as H1.
  pose proof (filter_len (fun e : bytes * option bytes => q (fst e)) (net_changes b lo hi)) as H2.
  pose proof (net_changes_len b lo hi) as H3.
  assert (H4 : (length (range_entries s lo hi) <= length s)%nat) by (unfold range_entries; apply filter_len).
  lia.
Qed.

(* C11_write_iter_is_view (Seek): Seek(key) followed by Next() until false on an iterator of a write transaction with
   committed store s and pending batch b (as of the iterator's creation) over Range{start, limit} of a bucket yields
   exactly the entries of the transaction's view [commit s b] in that bucket with start <= key' < limit and
   key' >= key, strictly ascending (hence each once); Seek answers true iff there is one.  No premise on what the batch
   has touched. *)
Lemma write_iter_is_view : forall s b h start limit key fuel,
  keys_sorted s -> keys_bytes s -> batch_wf b -> keys_bytes (b_puts b) -> bytes_ok (h_path h) ->
  (length s + length (b_puts b) + length (b_dels b) < fuel)%nat ->
  let r := iter_seek (new_iterator s (Some b) h start limit) key in
  let out := iter_current (snd r) ++ drain fuel (snd r) in
  (forall k v, In (k, v) out <->
     s_get (inner_key (h_path h) k) (commit s b) = Some v /\ user_range start limit k = true /\ ble key k = true) /\
  keys_sorted out /\
  (fst r = true <-> out <> []).
Proof.
  intros s b h start limit key fuel Hs Hb Hwf Hbb Hp Hfuel r out.
  set (it := new_iterator s (Some b) h start limit) in *.
  set (lo := inner_key (h_path h) start).
  set (hi := match limit with [] => bp_limit (inner_key (h_path h) []) | _ :: _ => Some (inner_key (h_path h) limit) end).
  set (ik := inner_key (h_path h) key).
  assert (E1 : it_ents it = range_entries s lo hi) by reflexivity.
  assert (E2 : mi_keys it = net_changes b lo hi) by reflexivity.
  assert (Hlen := run_len s b lo hi (ble ik)).
  destruct (seek_mi it key fuel eq_refl) as [Hb1 Hd].
  - rewrite E1. apply range_entries_sorted. exact Hs.
  - rewrite E2. apply net_changes_sorted.
  - rewrite E1. apply range_entries_ne. apply inner_key_ne.
  - rewrite E2. apply net_changes_ne. apply inner_key_ne.
  - rewrite E1, E2. change (it_path it) with (h_path h). fold ik. lia.
  - rewrite E1, E2 in Hb1, Hd. change (it_path it) with (h_path h) in Hb1, Hd. fold ik in Hb1, Hd.
    change (it_pl it) with (S (length (h_path h))) in Hd.
    destruct (view_user s b h start limit (ble ik) (ble key) Hs Hb Hwf Hbb Hp) as [V1 V2].
    { intros k. unfold ik. rewrite !inner_key_as_app, ble_app_prefix. reflexivity. }
    fold lo hi in V1, V2. fold r in Hb1, Hd. fold out in Hd. rewrite <- Hd in V1, V2.
    split; [exact V2|]. split; [exact V1|]. rewrite Hb1, Hd.
    destruct (mrg (filter (fun e : bytes * bytes => ble ik (fst e)) (range_entries s lo hi))
                  (filter (fun e : bytes * option bytes => ble ik (fst e)) (net_changes b lo hi)));
      cbn [map]; split; congruence.
Qed.

(* C11_write_iter_is_view (no Seek): a fresh iterator of the write transaction advanced by Next() until false yields
   exactly the entries of the transaction's view in the bucket with start <= key' < limit, strictly ascending *)
Lemma write_iter_is_view_fresh : forall s b h start limit fuel,
  keys_sorted s -> keys_bytes s -> batch_wf b -> keys_bytes (b_puts b) -> bytes_ok (h_path h) ->
  (length s + length (b_puts b) + length (b_dels b) < fuel)%nat ->
  let out := drain (S fuel) (new_iterator s (Some b) h start limit) in
  (forall k v, In (k, v) out <-> s_get (inner_key (h_path h) k) (commit s b) = Some v /\ user_range start limit k = true) /\
  keys_sorted out.
Proof.
  intros s b h start limit fuel Hs Hb Hwf Hbb Hp Hfuel out.
  set (it := new_iterator s (Some b) h start limit) in *.
  set (lo := inner_key (h_path h) start).
  set (hi := match limit with [] => bp_limit (inner_key (h_path h) []) | _ :: _ => Some (inner_key (h_path h) limit) end).
  assert (E1 : it_ents it = range_entries s lo hi) by reflexivity.
  assert (E2 : mi_keys it = net_changes b lo hi) by reflexivity.
  assert (Hlen := run_len s b lo hi (fun _ => true)). cbv beta in Hlen. rewrite !filter_true_id in Hlen.
  assert (Hd : out = map (strip (S (length (h_path h)))) (mrg (range_entries s lo hi) (net_changes b lo hi))).
  { unfold out. rewrite (fresh_mi it fuel eq_refl eq_refl eq_refl eq_refl eq_refl eq_refl).
    - rewrite E1, E2. reflexivity.
    - rewrite E1. apply range_entries_ne. apply inner_key_ne.
    - rewrite E2. apply net_changes_ne. apply inner_key_ne.
    - rewrite E1, E2. lia. }
  destruct (view_user s b h start limit (fun _ => true) (fun _ => true) Hs Hb Hwf Hbb Hp (fun _ => eq_refl)) as [V1 V2].
  fold lo hi in V1, V2. cbv beta in V1, V2. rewrite !filter_true_id in V1, V2. rewrite <- Hd in V1, V2.
  split; [|exact V1]. intros k v. rewrite V2. tauto.
Qed.
