(* KV/Proofs5 — iterators created inside a write transaction AS FOUND BEFORE THE MERGING REPAIR (levelIterator over a
   goleveldb snapshot iterator followed by a batchIterator over the transaction's pending net puts; model switch
   [it_merge] = false, [new_iterator_gen true false], [step_iter_unmerged]), after the repair of
   batchIterator.Seek / Reset (Model: [bi_lower], [bi_from], [it_clamp]).  The merging iterator: Proofs6.
   1. the switch: [it_clamp] is never changed by Seek / Next, [step_seek_unrepaired] = every iterator created with
      [new_iterator_gen false];
   2. closed witnesses: with the switch off Seek below the range's start lands on a pending entry outside the range,
      with the switch on it does not;
   3. what Seek + Next of a write-transaction iterator yields, exactly (seek_write_tx), and what that is NOT
      (closed witnesses: not the transaction's view, not ascending, not each key once). *)
From Coq Require Import List ZArith Bool Lia Sorted.
Import ListNotations.
Open Scope Z_scope.
Require Import MW.KV.Model MW.KV.Proofs MW.KV.Proofs2.

(* ------------------------------------------------------------------ the switch *)
Lemma unclamp_new_iterator : forall s ob h a l, it_unclamp (new_iterator s ob h a l) = new_iterator_gen false false s ob h a l.
Proof. reflexivity. Qed.
Lemma unclamp_id : forall it, it_clamp it = false -> it_merge it = false -> it_unclamp it = it.
Proof. intros it H H2. destruct it. cbn in *. subst. reflexivity. Qed.
Lemma unmerge_new_iterator : forall s ob h a l, it_unmerge (new_iterator s ob h a l) = new_iterator_gen true false s ob h a l.
Proof. reflexivity. Qed.
Lemma unmerge_id : forall it, it_merge it = false -> it_unmerge it = it.
Proof. intros it H. destruct it. cbn in *. subst. reflexivity. Qed.
Lemma mi_snap_next_const : forall it, it_clamp (mi_snap_next it) = it_clamp it /\ it_merge (mi_snap_next it) = it_merge it.
Proof. intros it. unfold mi_snap_next. destruct (ldb_next it). split; reflexivity. Qed.
Lemma mi_merge_const : forall f it, it_clamp (snd (mi_merge f it)) = it_clamp it /\ it_merge (snd (mi_merge f it)) = it_merge it.
Proof.
  induction f as [|f IH]; intros it; cbn [mi_merge];
    destruct (if negb (it_end it) && negb (mi_bend it)
              then match bcmp match mi_snap_cur it with Some (k, _) => k | None => [] end
                              match mi_batch_cur it with Some (k, _) => k | None => [] end with
                   | Eq => (true, true) | Lt => (true, false) | Gt => (false, true) end
              else (negb (it_end it), negb (mi_bend it))) as [oi ob];
    destruct (negb ob || negb (mi_deleted it)); try (split; reflexivity).
  destruct (IH (set_mi (if oi then mi_snap_next it else it) (mi_bnext (if oi then mi_snap_next it else it)) oi ob
                       (mi_started (if oi then mi_snap_next it else it)))) as [H1 H2].
  rewrite H1, H2. cbn [set_mi it_clamp it_merge]. destruct oi; [apply mi_snap_next_const|split; reflexivity].
Qed.
Lemma iter_seek_u_clamp : forall it k, it_clamp (snd (iter_seek_u it k)) = it_clamp it /\ it_merge (snd (iter_seek_u it k)) = it_merge it.
Proof.
  intros it k. unfold iter_seek_u. destruct (ldb_seek it (inner_key (it_path it) k)) as [sk pos]. destruct sk.
  - destruct (it_ro it); split; reflexivity.
  - destruct (it_ro it); [split; reflexivity|]. unfold bi_seek.
    destruct (bi_scan _ _ _ _ _); split; reflexivity.
Qed.
Lemma iter_next_u_clamp : forall it, it_clamp (snd (iter_next_u it)) = it_clamp it /\ it_merge (snd (iter_next_u it)) = it_merge it.
Proof.
  intros it. unfold iter_next_u. destruct (it_end it).
  - destruct (it_ro it || bi_end it); [split; reflexivity|]. unfold bi_next. destruct (bi_scan _ _ _ _ _); split; reflexivity.
  - destruct (ldb_next it) as [has pos]. destruct has; [split; reflexivity|].
    cbn [set_ldb it_ro]. destruct (it_ro it || bi_end (set_ldb it pos true)); [split; reflexivity|].
    unfold bi_next. destruct (bi_scan _ _ _ _ _); split; reflexivity.
Qed.
Lemma iter_seek_switches : forall it k, it_clamp (snd (iter_seek it k)) = it_clamp it /\ it_merge (snd (iter_seek it k)) = it_merge it.
Proof.
  intros it k. unfold iter_seek. destruct (mi_active it); [|apply iter_seek_u_clamp].
  unfold mi_seek. destruct (ldb_seek it (inner_key (it_path it) k)) as [sk pos].
  match goal with |- context [mi_merge ?f ?x] => destruct (mi_merge_const f x) as [H1 H2] end.
  rewrite H1, H2. split; reflexivity.
Qed.
Lemma iter_next_switches : forall it, it_clamp (snd (iter_next it)) = it_clamp it /\ it_merge (snd (iter_next it)) = it_merge it.
Proof.
  intros it. unfold iter_next. destruct (mi_active it); [|apply iter_next_u_clamp].
  unfold mi_next.
  match goal with |- context [mi_merge ?f ?x] => destruct (mi_merge_const f x) as [H1 H2] end.
  rewrite H1, H2. cbn [set_mi it_clamp it_merge].
  destruct (mi_on_iter it || negb (mi_started it)); [apply mi_snap_next_const|split; reflexivity].
Qed.
Lemma iter_seek_clamp : forall it k, it_clamp (snd (iter_seek it k)) = it_clamp it.
Proof. intros. apply iter_seek_switches. Qed.
Lemma iter_next_clamp : forall it, it_clamp (snd (iter_next it)) = it_clamp it.
Proof. intros. apply iter_next_switches. Qed.
Lemma iter_seek_merge : forall it k, it_merge (snd (iter_seek it k)) = it_merge it.
Proof. intros. apply iter_seek_switches. Qed.
Lemma iter_next_merge : forall it, it_merge (snd (iter_next it)) = it_merge it.
Proof. intros. apply iter_next_switches. Qed.

(* ------------------------------------------------------------------ Seek below the range's start: closed witnesses *)
Definition exec_seek_unrepaired (st : state) (ops : list op) : state :=
  fold_left (fun st o => fst (step_seek_unrepaired st o)) ops st.
(* inside db.Update: bucket "ab", pending puts x = v, z = w, an iterator over Range{"y", "{"} *)
Definition below_ops : list op :=
  [OUBegin; OCreateTop 5 [97; 98]; OPut 5 [120] [118]; OPut 5 [122] [119]; OIter 0 5 1 [121] [123]].
Lemma seek_below_range_unfixed_refuted :
  Forall op_bytes below_ops /\
  (* the batchIterator as first found: Seek("a") lands on x, which is outside the range, then Next() on z *)
  snd (step_seek_unrepaired (exec_seek_unrepaired init_state below_ops) (OSeek 0 [97])) = RIter true (Some [120]) [118] /\
  user_range [121] [123] [120] = false /\
  snd (step_seek_unrepaired (exec_seek_unrepaired init_state (below_ops ++ [OSeek 0 [97]])) (ONext 0)) = RIter true (Some [122]) [119] /\
  (* the repaired one: z, then the end — what the same iterator answers once the puts are committed *)
  snd (step (run below_ops) (OSeek 0 [97])) = RIter true (Some [122]) [119] /\
  snd (step (run (below_ops ++ [OSeek 0 [97]])) (ONext 0)) = RIter false None [] /\
  snd (step (run (below_ops ++ [OUEnd false; OBegin false; OTop false 5 [97; 98]; OIter 0 5 1 [121] [123]])) (OSeek 0 [97]))
    = RIter true (Some [122]) [119] /\
  snd (step (run (below_ops ++ [OUEnd false; OBegin false; OTop false 5 [97; 98]; OIter 0 5 1 [121] [123]; OSeek 0 [97]])) (ONext 0))
    = RIter false None [].
Proof.
  split; [unfold below_ops; repeat (apply Forall_cons; [cbn [op_bytes]; solve_bytes|]); apply Forall_nil|].
  vm_compute. repeat split.
Qed.

(* ------------------------------------------------------------------ the batch side of a write-transaction iterator *)
Lemma ble_from : forall k lo x, ble (if blt k lo then lo else k) x = ble k x && ble lo x.
Proof.
  intros k lo x. destruct (blt k lo) eqn:E.
  - destruct (ble lo x) eqn:E2; [|rewrite andb_false_r; reflexivity]. rewrite andb_true_r. symmetry.
    apply ble_iff. left. eapply blt_trans_le; eauto.
  - assert (H : ble lo k = true) by (rewrite blt_negb_ble in E; apply negb_false_iff in E; exact E).
    destruct (ble k x) eqn:E2; [|reflexivity]. cbn [andb]. symmetry. eapply ble_trans; eauto.
Qed.
Lemma blt_nil_r : forall a, blt a [] = false.
Proof. intros a. unfold blt. destruct a; reflexivity. Qed.
Lemma ble_nonempty : forall a k, a <> [] -> ble a k = true -> k <> [].
Proof. intros a k Ha H E. subst k. destruct a; [congruence|]. discriminate. Qed.

Definition bi_P (start : bytes) (limit : option bytes) (e : bytes * bytes) : bool := bi_in start limit (fst e).

(* batchIterator's loop: the first index >= from whose key lies in [start, limit) *)
Lemma bi_scan_spec : forall start limit keys i from n, n = Z.to_nat (from - i) ->
  match bi_scan start limit keys i from with
  | Some j => exists m e, j = i + Z.of_nat m /\ nth_error keys m = Some e /\ bi_P start limit e = true /\
                filter (bi_P start limit) (skipn n keys) = e :: filter (bi_P start limit) (skipn (S m) keys)
  | None => filter (bi_P start limit) (skipn n keys) = []
  end.
Proof.
  intros start limit keys. induction keys as [|[k v] r IH]; intros i from n Hn; cbn [bi_scan].
  - rewrite skipn_nil. reflexivity.
  - destruct (from <=? i) eqn:E1.
    + apply Z.leb_le in E1. assert (E0 : n = 0%nat) by lia. rewrite E0. cbn [andb skipn].
      destruct (bi_in start limit k) eqn:E2.
      * exists 0%nat, (k, v). split; [lia|]. split; [reflexivity|]. split; [exact E2|].
        cbn [filter skipn]. unfold bi_P at 1. cbn [fst]. rewrite E2. reflexivity.
      * specialize (IH (i + 1) from 0%nat ltac:(lia)). change (skipn 0 r) with r in IH.
        assert (Hf0 : filter (bi_P start limit) ((k, v) :: r) = filter (bi_P start limit) r)
          by (cbn [filter]; unfold bi_P at 1; cbn [fst]; rewrite E2; reflexivity).
        destruct (bi_scan start limit r (i + 1) from) as [j|]; [|rewrite Hf0; exact IH].
        destruct IH as [m [e [Ej [Hnth [HP Hf]]]]]. exists (S m), e. split; [lia|]. split; [exact Hnth|]. split; [exact HP|].
        rewrite Hf0. exact Hf.
    + apply Z.leb_gt in E1. cbn [andb]. specialize (IH (i + 1) from (Z.to_nat (from - (i + 1))) eq_refl).
      assert (En : n = S (Z.to_nat (from - (i + 1)))) by lia. rewrite En. cbn [skipn].
      destruct (bi_scan start limit r (i + 1) from) as [j|]; [|exact IH].
      destruct IH as [m [e [Ej [Hnth [HP Hf]]]]]. exists (S m), e. split; [lia|]. split; [exact Hnth|]. split; [exact HP|].
      exact Hf.
Qed.

(* what the batchIterator still has to give: the keys after ptr inside [start, limit) *)
Definition bi_rest (it : iter) : list (bytes * bytes) :=
  filter (bi_P (bi_start it) (bi_limit it)) (skipn (Z.to_nat (bi_ptr it + 1)) (bi_keys it)).

(* a positioned batch entry is what Key() / Value() show *)
Lemma batch_current : forall it m e, it_ro it = false -> it_merge it = false -> it_end it = true -> nth_error (bi_keys it) m = Some e -> fst e <> [] ->
  forall st, let it' := set_batch it (Z.of_nat m) st in
  iter_key it' = Some (skipn (it_pl it) (fst e)) /\ iter_value it' = snd e.
Proof.
  intros it m e Hro Hm Hend Hnth Hne st it'.
  assert (Hlt : (m < length (bi_keys it))%nat) by (apply nth_error_Some; congruence).
  assert (Hraw : iter_raw it' = Some e).
  { rewrite iter_raw_off by (apply mi_active_unmerged; exact Hm).
    unfold iter_raw_u, it'. cbn [set_batch it_end it_ro]. rewrite Hend, Hro. cbn [negb andb].
    unfold bi_end, bi_len. cbn [set_batch bi_keys bi_ptr].
    replace (Z.of_nat (length (bi_keys it)) <=? Z.of_nat m) with false by (symmetry; apply Z.leb_gt; lia).
    cbn [negb]. unfold nth_entry. replace (Z.of_nat m <? 0) with false by (symmetry; apply Z.ltb_ge; lia).
    rewrite Nat2Z.id. exact Hnth. }
  unfold iter_key, iter_value. rewrite Hraw. destruct e as [k v]. cbn [fst snd] in *.
  destruct k; [congruence|]. split; reflexivity.
Qed.

(* phase 2 — the snapshot iterator is exhausted: Next() walks the pending net puts of [start, limit) after ptr *)
Lemma drain_batch : forall fuel it, it_ro it = false -> it_merge it = false -> it_end it = true -> -1 <= bi_ptr it -> bi_start it <> [] ->
  (length (bi_rest it) < fuel)%nat -> drain fuel it = map (strip (it_pl it)) (bi_rest it).
Proof.
  induction fuel as [|fuel IH]; intros it Hro Hm Hend Hptr Hst Hlen; [lia|].
  cbn [drain]. rewrite iter_next_off by (apply mi_active_unmerged; exact Hm). unfold iter_next_u. rewrite Hend, Hro. cbn [orb]. unfold bi_end, bi_len.
  destruct (Z.of_nat (length (bi_keys it)) <=? bi_ptr it) eqn:El.
  - apply Z.leb_le in El. unfold bi_rest. rewrite skipn_all2 by lia. reflexivity.
  - apply Z.leb_gt in El. unfold bi_next.
    pose proof (bi_scan_spec (bi_start it) (bi_limit it) (bi_keys it) 0 (bi_ptr it + 1) (Z.to_nat (bi_ptr it + 1))
                  ltac:(f_equal; lia)) as Hs.
    destruct (bi_scan (bi_start it) (bi_limit it) (bi_keys it) 0 (bi_ptr it + 1)) as [j|].
    + destruct Hs as [m [e [Ej [Hnth [HP Hf]]]]]. cbn [Z.add] in Ej. subst j.
      assert (Hne : fst e <> []).
      { unfold bi_P, bi_in in HP. apply andb_true_iff in HP. destruct HP as [HP _]. eapply ble_nonempty; eauto. }
      destruct (batch_current it m e Hro Hm Hend Hnth Hne (bi_start it)) as [Hk Hv].
      rewrite Hk, Hv. unfold bi_rest. rewrite Hf. cbn [map]. unfold strip at 1. f_equal.
      set (it' := set_batch it (Z.of_nat m) (bi_start it)) in *.
      assert (Hr : bi_rest it' = filter (bi_P (bi_start it) (bi_limit it)) (skipn (S m) (bi_keys it))).
      { unfold bi_rest, it'. cbn [set_batch bi_start bi_limit bi_ptr bi_keys]. f_equal. f_equal. lia. }
      rewrite (IH it'); [rewrite Hr; reflexivity|exact Hro|exact Hm|exact Hend|unfold it'; cbn [set_batch bi_ptr]; lia|exact Hst|].
      rewrite Hr. unfold bi_rest in Hlen. rewrite Hf in Hlen. cbn [length] in Hlen. lia.
    + unfold bi_rest. rewrite Hs. reflexivity.
Qed.

(* phase 1 — the rest of the snapshot entries, then the pending net puts of [start, limit) after ptr *)
Lemma drain_write : forall fuel it, it_ro it = false -> it_merge it = false -> it_end it = false -> -1 <= bi_ptr it -> bi_start it <> [] ->
  Forall (fun e => fst e <> []) (it_ents it) ->
  (length (it_rest it) + length (bi_rest it) < fuel)%nat ->
  drain fuel it = map (strip (it_pl it)) (it_rest it) ++ map (strip (it_pl it)) (bi_rest it).
Proof.
  induction fuel as [|fuel IH]; intros it Hro Hm Hend Hptr Hst Hne Hlen; [lia|].
  assert (Hoff : forall p e, mi_active (set_ldb it p e) = false) by (intros; apply mi_active_unmerged; exact Hm).
  assert (Hoff0 : mi_active it = false) by (apply mi_active_unmerged; exact Hm).
  (* when the snapshot iterator has nothing more, Next() is Next() of the iterator with iterEnd set *)
  assert (Hexh : ldb_next it = (false, EOI) -> it_rest it = [] ->
                 drain (S fuel) it = map (strip (it_pl it)) (it_rest it) ++ map (strip (it_pl it)) (bi_rest it)).
  { intros Hn Hr. set (it1 := set_ldb it EOI true).
    assert (E : drain (S fuel) it = drain (S fuel) it1).
    { cbn [drain]. rewrite (iter_next_off it Hoff0). unfold iter_next_u at 1. rewrite Hend, Hn. fold it1.
      rewrite (iter_next_off it1 (Hoff EOI true)). unfold iter_next_u. replace (it_end it1) with true by reflexivity. reflexivity. }
    rewrite E, Hr. cbn [map app]. rewrite Hr in Hlen. cbn [length] in Hlen.
    apply (drain_batch (S fuel) it1); auto. }
  unfold it_rest in *. destruct (it_pos it) as [|n|] eqn:Epos.
  - destruct (it_ents it) as [|e r] eqn:Eents.
    + apply Hexh; [unfold ldb_next; rewrite Epos, Eents; reflexivity|reflexivity].
    + clear Hexh. cbn [drain]. rewrite (iter_next_off it Hoff0). unfold iter_next_u. rewrite Hend. unfold ldb_next. rewrite Epos, Eents.
      set (it' := set_ldb it (At 0%nat) false).
      assert (Hk : iter_key it' = Some (skipn (it_pl it) (fst e)) /\ iter_value it' = snd e).
      { unfold iter_key, iter_value. unfold it'. rewrite (iter_raw_off _ (Hoff _ _)). unfold iter_raw_u. cbn. rewrite Eents. cbn. destruct e as [k v]. cbn.
        inversion Hne as [|? ? Hk _]; subst. cbn in Hk. destruct k; [congruence|]. auto. }
      destruct Hk as [Hk Hv]. rewrite Hk, Hv. cbn [map app]. unfold strip at 1. f_equal.
      rewrite (IH it'); unfold it'; cbn [set_ldb it_ro it_end bi_ptr bi_start it_ents it_pl]; auto.
      * unfold it_rest, bi_rest. cbn [set_ldb it_pos it_ents bi_start bi_limit bi_ptr bi_keys]. rewrite Eents. reflexivity.
      * rewrite Eents. exact Hne.
      * unfold it_rest, bi_rest in *. cbn [set_ldb it_pos it_ents bi_start bi_limit bi_ptr bi_keys]. rewrite Eents.
        cbn [skipn length] in *. lia.
  - destruct (S n <? length (it_ents it))%nat eqn:El.
    + clear Hexh. cbn [drain]. rewrite (iter_next_off it Hoff0). unfold iter_next_u. rewrite Hend. unfold ldb_next. rewrite Epos, El.
      apply Nat.ltb_lt in El. destruct (nth_error (it_ents it) (S n)) as [e|] eqn:En;
        [|apply nth_error_None in En; lia].
      set (it' := set_ldb it (At (S n)) false).
      assert (Hk : iter_key it' = Some (skipn (it_pl it) (fst e)) /\ iter_value it' = snd e).
      { unfold iter_key, iter_value. unfold it'. rewrite (iter_raw_off _ (Hoff _ _)). unfold iter_raw_u.
        cbn [set_ldb it_end it_pos it_ents negb it_pl]. rewrite En.
        destruct e as [k v]. cbn. rewrite Forall_forall in Hne. apply nth_error_In in En. apply Hne in En. cbn in En.
        destruct k; [congruence|]. auto. }
      destruct Hk as [Hk Hv]. rewrite Hk, Hv. rewrite (skipn_nth_error _ _ _ En). cbn [map app]. unfold strip at 1. f_equal.
      rewrite (skipn_nth_error _ _ _ En) in Hlen. cbn [length] in Hlen.
      rewrite (IH it'); unfold it'; cbn [set_ldb it_ro it_end bi_ptr bi_start it_ents it_pl]; auto.
      unfold it_rest, bi_rest in *. cbn [set_ldb it_pos it_ents bi_start bi_limit bi_ptr bi_keys]. lia.
    + apply Nat.ltb_ge in El. apply Hexh; [unfold ldb_next; rewrite Epos; apply Nat.ltb_ge in El; rewrite El; reflexivity|].
      apply skipn_all2. lia.
  - apply Hexh; [unfold ldb_next; rewrite Epos; reflexivity|reflexivity].
Qed.

(* ------------------------------------------------------------------ Seek on a write-transaction iterator *)
(* the pending entries a Seek to inner key ik selects in the repaired code: >= ik and inside the range *)
Definition bi_G (it : iter) (ik : bytes) (e : bytes * bytes) : bool :=
  ble ik (fst e) && bi_in (bi_lower it) (bi_limit it) (fst e).
Lemma bi_P_from : forall it ik e, it_clamp it = true -> bi_P (bi_pos it ik) (bi_limit it) e = bi_G it ik e.
Proof.
  intros it ik e Hc. unfold bi_P, bi_pos, bi_from, bi_G, bi_in. rewrite Hc, ble_from. rewrite <- !andb_assoc. reflexivity.
Qed.
Lemma bi_pos_nonempty : forall it ik, ik <> [] -> bi_pos it ik <> [].
Proof.
  intros it ik H. unfold bi_pos, bi_from. destruct (it_clamp it); [|exact H].
  destruct (blt ik (bi_lower it)) eqn:E; [|exact H]. intros E0. rewrite E0, blt_nil_r in E. discriminate.
Qed.

Lemma seek_write : forall it key fuel, it_ro it = false -> it_merge it = false -> it_clamp it = true -> keys_sorted (it_ents it) ->
  Forall (fun e => fst e <> []) (it_ents it) ->
  let ik := inner_key (it_path it) key in
  let ge := filter (fun e => ble ik (fst e)) (it_ents it) in
  let gb := filter (bi_G it ik) (bi_keys it) in
  (length (it_ents it) + length (bi_keys it) < fuel)%nat ->
  (fst (iter_seek it key) = true <-> ge ++ gb <> []) /\
  iter_current (snd (iter_seek it key)) ++ drain fuel (snd (iter_seek it key))
    = map (strip (it_pl it)) ge ++ map (strip (it_pl it)) gb.
Proof.
  intros it key fuel Hro Hm Hc Hs Hne ik ge gb Hfuel.
  assert (Hoff : forall p e, mi_active (set_ldb it p e) = false) by (intros; apply mi_active_unmerged; exact Hm).
  assert (Hik : ik <> []) by (unfold ik, inner_key; destruct (it_path it); discriminate).
  assert (Hpos : bi_pos it ik <> []) by (apply bi_pos_nonempty; exact Hik).
  assert (HG : forall l, filter (bi_P (bi_pos it ik) (bi_limit it)) l = filter (bi_G it ik) l).
  { intros l. apply filter_ext. intros e. apply bi_P_from. exact Hc. }
  assert (Hgb : (length gb <= length (bi_keys it))%nat) by apply filter_len.
  rewrite iter_seek_off by (apply mi_active_unmerged; exact Hm). unfold iter_seek_u, ldb_seek. fold ik.
  pose proof (find_ge_spec ik (it_ents it) 0%nat Hs) as Hf. fold ge in Hf.
  destruct (find_ge ik (it_ents it) 0%nat) as [j|].
  - destruct Hf as [n [Ej [Hn Hsk]]]. cbn in Ej. subst j. rewrite Hro. cbn [fst snd].
    destruct (nth_error (it_ents it) n) as [e|] eqn:En; [|apply nth_error_None in En; lia].
    rewrite (skipn_nth_error _ _ _ En) in Hsk. split.
    + rewrite <- Hsk. split; [discriminate|reflexivity].
    + set (it' := set_batch (set_ldb it (At n) false) (-1) (bi_pos it ik)).
      assert (Hk : iter_current it' = [strip (it_pl it) e]).
      { unfold iter_current, iter_key, iter_value.
        rewrite (iter_raw_off it') by (apply mi_active_unmerged; exact Hm). unfold iter_raw_u, it'.
        cbn [set_batch set_ldb it_end it_pos it_ents negb it_pl]. rewrite En.
        destruct e as [k v]. rewrite Forall_forall in Hne. apply nth_error_In in En. apply Hne in En. cbn in En.
        destruct k; [congruence|]. reflexivity. }
      assert (Hr1 : it_rest it' = skipn (S n) (it_ents it)) by reflexivity.
      assert (Hr2 : bi_rest it' = gb).
      { unfold bi_rest, it'. cbn [set_batch set_ldb bi_start bi_limit bi_ptr bi_keys].
        change (Z.to_nat (-1 + 1)) with 0%nat. change (skipn 0 (bi_keys it)) with (bi_keys it). apply HG. }
      rewrite Hk. rewrite (drain_write fuel it').
      * rewrite Hr1, Hr2. replace (it_pl it') with (it_pl it) by reflexivity. rewrite <- Hsk. reflexivity.
      * exact Hro.
      * exact Hm.
      * reflexivity.
      * unfold it'. cbn [set_batch bi_ptr]. lia.
      * exact Hpos.
      * exact Hne.
      * rewrite Hr1, Hr2, skipn_length. lia.
  - rewrite Hro. rewrite Hf. cbn [app map].
    set (it1 := set_ldb it EOI true).
    assert (Hro1 : it_ro it1 = false) by exact Hro.
    assert (Hend1 : it_end it1 = true) by reflexivity.
    assert (Hm1 : it_merge it1 = false) by exact Hm.
    unfold bi_seek. replace (bi_pos it1 ik) with (bi_pos it ik) by reflexivity.
    replace (bi_limit it1) with (bi_limit it) by reflexivity. replace (bi_keys it1) with (bi_keys it) by reflexivity.
    pose proof (bi_scan_spec (bi_pos it ik) (bi_limit it) (bi_keys it) 0 0 0%nat eq_refl) as Hsc.
    change (skipn 0 (bi_keys it)) with (bi_keys it) in Hsc. rewrite HG in Hsc. fold gb in Hsc.
    destruct (bi_scan (bi_pos it ik) (bi_limit it) (bi_keys it) 0 0) as [j|].
    + destruct Hsc as [m [e [Ej [Hnth [HP Hfl]]]]]. cbn [Z.add] in Ej. subst j. cbn [fst snd].
      rewrite HG in Hfl.
      assert (Hne' : fst e <> []).
      { unfold bi_P, bi_in in HP. apply andb_true_iff in HP. destruct HP as [HP _]. eapply ble_nonempty; eauto. }
      destruct (batch_current it1 m e Hro1 Hm1 Hend1 Hnth Hne' (bi_pos it ik)) as [Hk Hv].
      set (it' := set_batch it1 (Z.of_nat m) (bi_pos it ik)) in *.
      split; [rewrite Hfl; split; [discriminate|reflexivity]|].
      unfold iter_current. rewrite Hk, Hv.
      assert (Hr : bi_rest it' = filter (bi_G it ik) (skipn (S m) (bi_keys it))).
      { unfold bi_rest, it'. cbn [set_batch bi_start bi_limit bi_ptr bi_keys].
        replace (bi_limit it1) with (bi_limit it) by reflexivity. replace (bi_keys it1) with (bi_keys it) by reflexivity.
        rewrite HG. f_equal. f_equal. lia. }
      rewrite (drain_batch fuel it').
      * rewrite Hr, Hfl. reflexivity.
      * exact Hro1.
      * exact Hm1.
      * exact Hend1.
      * unfold it'. cbn [set_batch bi_ptr]. lia.
      * exact Hpos.
      * rewrite Hr. rewrite Hfl in Hgb. cbn [length] in Hgb. lia.
    + cbn [fst snd]. rewrite Hsc. split; [split; [discriminate|congruence]|].
      set (it' := set_batch it1 (bi_len it1) (bi_pos it ik)).
      assert (Hr : bi_rest it' = []).
      { unfold bi_rest, it'. cbn [set_batch bi_ptr bi_keys]. unfold bi_len. rewrite skipn_all2; [reflexivity|].
        replace (bi_keys it1) with (bi_keys it) by reflexivity. lia. }
      assert (Hcur : iter_current it' = []).
      { unfold iter_current, iter_key. rewrite (iter_raw_off it') by (apply mi_active_unmerged; exact Hm).
        unfold iter_raw_u, it'. cbn [set_batch it_end it_ro]. rewrite Hend1, Hro1. cbn [negb andb].
        unfold bi_end, bi_len. cbn [set_batch bi_keys bi_ptr]. rewrite Z.leb_refl. reflexivity. }
      rewrite Hcur. rewrite (drain_batch fuel it').
      * rewrite Hr. reflexivity.
      * exact Hro1.
      * exact Hm1.
      * exact Hend1.
      * unfold it'. cbn [set_batch bi_ptr]. unfold bi_len. lia.
      * exact Hpos.
      * rewrite Hr. cbn [length]. lia.
Qed.

(* ------------------------------------------------------------------ the pending net puts, as a list *)
Lemma flat_map_sorted {V W} : forall (f : bytes * V -> list (bytes * W)) (l : amap V),
  (forall e, f e = [] \/ exists w, f e = [(fst e, w)]) -> keys_sorted l -> keys_sorted (flat_map f l).
Proof.
  intros f l Hf. induction l as [|a l IH]; intros Hs; cbn [flat_map]; [constructor|].
  inversion Hs as [|? ? Hs' Hall]; subst. specialize (IH Hs').
  destruct (Hf a) as [E|[w E]]; rewrite E; cbn [app]; [exact IH|].
  constructor; [exact IH|]. rewrite Forall_forall in *. intros x Hx. apply in_flat_map in Hx. destruct Hx as [e [He Hxe]].
  destruct (Hf e) as [E'|[w' E']]; rewrite E' in Hxe; [destruct Hxe|]. destruct Hxe as [Hxe|[]]. subst x.
  unfold key_lt. cbn [fst]. apply (Hall e He).
Qed.
Lemma flat_map_len1 {A B} : forall (f : A -> list B) l, (forall e, (length (f e) <= 1)%nat) ->
  (length (flat_map f l) <= length l)%nat.
Proof.
  intros f l Hf. induction l as [|a l IH]; cbn [flat_map length]; [lia|]. rewrite app_length. specialize (Hf a). lia.
Qed.
Lemma net_puts_shape : forall b p (e : bytes * (bytes * Z)),
  let f := fun e : bytes * (bytes * Z) =>
             let '(k, (d, sp)) := e in
             if has_prefix p k
             then match m_get k (b_dels b) with None => [(k, d)] | Some sd => if sd <? sp then [(k, d)] else [] end
             else [] in
  f e = [] \/ f e = [(fst e, fst (snd e))].
Proof.
  intros b p [k [d sp]]. cbn. destruct (has_prefix p k); auto. destruct (m_get k (b_dels b)) as [sd|]; auto.
  destruct (sd <? sp); auto.
Qed.
Lemma net_puts_sorted : forall b p, keys_sorted (b_puts b) -> keys_sorted (net_puts_by_prefix b p).
Proof.
  intros b p Hs. unfold net_puts_by_prefix. apply flat_map_sorted; [|exact Hs].
  intros e. destruct (net_puts_shape b p e) as [H|H]; [left; exact H|right; eexists; exact H].
Qed.
Lemma net_puts_len : forall b p, (length (net_puts_by_prefix b p) <= length (b_puts b))%nat.
Proof.
  intros b p. unfold net_puts_by_prefix. apply flat_map_len1.
  intros e. destruct (net_puts_shape b p e) as [H|H]; rewrite H; cbn; lia.
Qed.
Lemma net_puts_key_in : forall b p k d, In (k, d) (net_puts_by_prefix b p) -> exists sp, In (k, (d, sp)) (b_puts b).
Proof.
  intros b p k d H. unfold net_puts_by_prefix in H. apply in_flat_map in H. destruct H as [e [He Hx]].
  destruct (net_puts_shape b p e) as [E|E]; rewrite E in Hx; [destruct Hx|]. destruct Hx as [Hx|[]].
  destruct e as [k' [d' sp]]. cbn in Hx. inversion Hx; subst. exists sp. exact He.
Qed.
Lemma batch_view_put_iff : forall b k v, batch_view b k = Some (Some v) <-> fst (batch_get b k) = Some v.
Proof.
  intros b k v. unfold batch_view. destruct (batch_get b k) as [[x|] d]; cbn [fst].
  - split; congruence.
  - destruct d; split; congruence.
Qed.

Lemma bi_in_range : forall lo hi k, hi <> None -> bi_in lo hi k = in_range lo hi k.
Proof. intros lo hi k H. unfold bi_in, in_range. destruct hi; [reflexivity|congruence]. Qed.
Lemma iter_limit_some : forall path limit, bytes_ok path ->
  match limit with [] => bp_limit (inner_key path []) | _ :: _ => Some (inner_key path limit) end <> None.
Proof.
  intros path limit Hp. destruct limit; [|discriminate]. intros H.
  assert (Hb : bytes_ok (inner_key path [])).
  { unfold inner_key. apply bytes_ok_app; [exact Hp|]. constructor; [apply sep_byte_ok|constructor]. }
  apply (bp_limit_none_iff _ Hb) in H. unfold inner_key in H. apply Forall_app in H. destruct H as [_ H].
  inversion H as [|? ? H1 _]. unfold SEP in H1. discriminate.
Qed.
Lemma inner_key_bytes_inv : forall path k, bytes_ok (inner_key path k) -> bytes_ok k.
Proof. intros path k H. unfold inner_key in H. apply Forall_app in H. destruct H as [_ H]. inversion H; auto. Qed.

(* ------------------------------------------------------------------ C11_seek_write_tx *)
(* Seek(key) and the following Next()s on an iterator created inside a write transaction (committed store s, pending
   batch b) over Range{start, limit} of a bucket yield two runs, one after the other:
     A — the COMMITTED entries of the bucket in the range with key' >= key, with their committed values, ascending;
     B — the transaction's pending net puts (last operation on the key is a put) of the bucket in the range with
         key' >= key, ascending.
   Seek answers true iff there is any. *)
Lemma seek_write_tx : forall s b h start limit key,
  keys_sorted s -> keys_bytes s -> batch_wf b -> keys_bytes (b_puts b) -> bytes_ok (h_path h) ->
  let r := iter_seek (new_iterator_gen true false s (Some b) h start limit) key in
  let out := iter_current (snd r) ++ drain (S (length s + length (b_puts b))) (snd r) in
  exists A B, out = A ++ B /\
    (forall k v, In (k, v) A <->
       s_get (inner_key (h_path h) k) s = Some v /\ user_range start limit k = true /\ ble key k = true) /\
    (forall k v, In (k, v) B <->
       fst (batch_get b (inner_key (h_path h) k)) = Some v /\ user_range start limit k = true /\ ble key k = true) /\
    keys_sorted A /\ keys_sorted B /\
    (fst r = true <-> out <> []).
Proof.
  intros s b h start limit key Hs Hb Hwf Hbb Hp r out.
  destruct (range_ents_char s h start limit Hs Hb Hp) as [He [Hin Hsorted]].
  set (it0 := new_iterator s None h start limit) in *.
  set (X := map (strip (it_pl it0)) (it_ents it0)) in *.
  set (it := new_iterator_gen true false s (Some b) h start limit) in *.
  set (path := h_path h) in *.
  set (ik := inner_key path key).
  set (istart := inner_key path start).
  set (ilimit := match limit with [] => bp_limit (inner_key path []) | _ :: _ => Some (inner_key path limit) end).
  assert (Eents : it_ents it = it_ents it0) by reflexivity.
  assert (Epl : it_pl it = S (length path)) by reflexivity.
  assert (Epath : it_path it = path) by reflexivity.
  assert (Ekeys : bi_keys it = net_puts_by_prefix b []) by reflexivity.
  assert (Elow : bi_lower it = istart) by reflexivity.
  assert (Elim : bi_limit it = ilimit) by reflexivity.
  assert (Hlim : ilimit <> None) by (apply iter_limit_some; exact Hp).
  assert (Hsorted_e : keys_sorted (it_ents it)) by (apply range_entries_sorted; exact Hs).
  assert (Hne : Forall (fun e : bytes * bytes => fst e <> []) (it_ents it)) by (rewrite Eents, He; apply inner_ents_keys_nonempty).
  assert (Hl1 : (length (it_ents it) <= length s)%nat) by (apply filter_len).
  assert (Hl2 : (length (bi_keys it) <= length (b_puts b))%nat) by (rewrite Ekeys; apply net_puts_len).
  destruct (seek_write it key (S (length s + length (b_puts b))) eq_refl eq_refl eq_refl Hsorted_e Hne ltac:(lia)) as [Hb1 Hd].
  rewrite Epath in Hb1, Hd. fold ik in Hb1, Hd. rewrite Epl in Hd.
  set (A := filter (fun e : bytes * bytes => ble key (fst e)) X).
  set (gb := filter (bi_G it ik) (bi_keys it)) in *.
  set (B := map (strip (S (length path))) gb).
  assert (Hge : filter (fun e : bytes * bytes => ble ik (fst e)) (it_ents it) = inner_ents path A).
  { rewrite Eents, He. unfold ik. apply filter_inner_ents. }
  rewrite Hge in Hb1, Hd. rewrite strip_inner_ents in Hd.
  (* the selected pending entries all belong to the bucket *)
  assert (HG : forall k v, In (k, v) gb ->
             In (k, v) (net_puts_by_prefix b []) /\ ble ik k = true /\ in_range istart ilimit k = true /\ bytes_ok k).
  { intros k v Hkv. unfold gb in Hkv. apply filter_In in Hkv. destruct Hkv as [Hkv HGk]. rewrite Ekeys in Hkv.
    unfold bi_G in HGk. cbn [fst] in HGk. rewrite Elow, Elim, bi_in_range in HGk by exact Hlim.
    apply andb_true_iff in HGk. destruct HGk as [G1 G2]. split; [exact Hkv|]. split; [exact G1|]. split; [exact G2|].
    destruct (net_puts_key_in _ _ _ _ Hkv) as [sp Hsp]. unfold keys_bytes in Hbb. rewrite Forall_forall in Hbb.
    apply (Hbb _ Hsp). }
  assert (Hpre : Forall (fun e => has_prefix (path ++ [SEP]) (fst e) = true) gb).
  { rewrite Forall_forall. intros [k v] Hkv. cbn [fst]. destruct (HG k v Hkv) as [_ [_ [G2 G3]]].
    eapply iter_range_in_bucket; eauto. }
  assert (HgbB : gb = inner_ents path B) by (apply ents_with_prefix; exact Hpre).
  exists A, B. split; [exact Hd|]. split; [|split; [|split; [|split]]].
  - intros k v. unfold A. rewrite filter_In, Hin. cbn [fst]. tauto.
  - intros k v. rewrite <- (inner_ents_in path B k v), <- HgbB. split.
    + intros Hkv. destruct (HG _ _ Hkv) as [G0 [G1 [G2 G3]]].
      apply net_puts_in in G0; [|exact Hwf]. destruct G0 as [_ G0]. apply batch_view_put_iff in G0.
      split; [exact G0|]. apply inner_key_bytes_inv in G3.
      unfold istart, ilimit in G2. rewrite inner_range_is_user_range in G2 by auto. split; [exact G2|].
      unfold ik in G1. rewrite !inner_key_as_app, ble_app_prefix in G1. exact G1.
    + intros [G0 [G2 G1]]. apply batch_view_put_iff in G0.
      assert (Hnp : In (inner_key path k, v) (net_puts_by_prefix b [])) by (apply net_puts_in; [exact Hwf|split; [reflexivity|exact G0]]).
      assert (G3 : bytes_ok k).
      { destruct (net_puts_key_in _ _ _ _ Hnp) as [sp Hsp]. unfold keys_bytes in Hbb. rewrite Forall_forall in Hbb.
        apply Hbb in Hsp. cbn [fst] in Hsp. eapply inner_key_bytes_inv; eauto. }
      unfold gb. apply filter_In. rewrite Ekeys. split; [exact Hnp|].
      unfold bi_G. cbn [fst]. rewrite Elow, Elim, bi_in_range by exact Hlim. apply andb_true_iff. split.
      * unfold ik. rewrite !inner_key_as_app, ble_app_prefix. exact G1.
      * unfold istart, ilimit. rewrite inner_range_is_user_range by auto. exact G2.
  - unfold A. apply (@filter_sorted bytes). exact Hsorted.
  - apply (inner_ents_sorted path). rewrite <- HgbB. unfold gb. apply (@filter_sorted bytes). rewrite Ekeys.
    apply net_puts_sorted. apply Hwf.
  - fold r in Hb1. rewrite Hb1. unfold out. fold r in Hd. rewrite Hd. rewrite HgbB. unfold inner_ents.
    destruct A; destruct B; cbn; split; congruence.
Qed.

(* ... against the transaction's own view (the store as it would be after commit): nothing the transaction sees in
   the range at or after key is missing; everything yielded is in the range at or after key and is a committed entry
   or an entry of the view; and when the batch has touched none of the committed keys concerned, the yield is exactly
   the view, each key once.  (A committed entry the transaction has deleted or overwritten IS yielded, with its
   committed value: write_iter_not_view_refuted.) *)
Lemma seek_write_tx_view : forall s b h start limit key,
  keys_sorted s -> keys_bytes s -> batch_wf b -> keys_bytes (b_puts b) -> bytes_ok (h_path h) ->
  let r := iter_seek (new_iterator_gen true false s (Some b) h start limit) key in
  let out := iter_current (snd r) ++ drain (S (length s + length (b_puts b))) (snd r) in
  let sees k v := s_get (inner_key (h_path h) k) (commit s b) = Some v /\ user_range start limit k = true /\ ble key k = true in
  (forall k v, sees k v -> In (k, v) out) /\
  (forall k v, In (k, v) out -> user_range start limit k = true /\ ble key k = true /\
                                (s_get (inner_key (h_path h) k) s = Some v \/ sees k v)) /\
  ((forall k v, s_get (inner_key (h_path h) k) s = Some v -> user_range start limit k = true -> ble key k = true ->
                batch_view b (inner_key (h_path h) k) = None) ->
   (forall k v, In (k, v) out <-> sees k v) /\ NoDup (map fst out)).
Proof.
  intros s b h start limit key Hs Hb Hwf Hbb Hp r out sees.
  destruct (seek_write_tx s b h start limit key Hs Hb Hwf Hbb Hp) as [A [B [Hout [HA [HB [HsA [HsB _]]]]]]].
  fold r in Hout. fold out in Hout. destruct Hwf as [Hok Hps].
  assert (H1 : forall k v, sees k v -> In (k, v) out).
  { intros k v [Hv [Hr Hk]]. rewrite Hout. apply in_or_app. rewrite commit_get in Hv by exact Hok.
    destruct (batch_view b (inner_key (h_path h) k)) as [[v'|]|] eqn:E.
    - right. apply HB. inversion Hv; subst v'. apply batch_view_put_iff in E. auto.
    - discriminate.
    - left. apply HA. auto. }
  assert (H2 : forall k v, In (k, v) out -> user_range start limit k = true /\ ble key k = true /\
                                           (s_get (inner_key (h_path h) k) s = Some v \/ sees k v)).
  { intros k v Hkv. rewrite Hout in Hkv. apply in_app_or in Hkv. destruct Hkv as [Hkv|Hkv].
    - apply HA in Hkv. destruct Hkv as [G0 [G1 G2]]. auto.
    - apply HB in Hkv. destruct Hkv as [G0 [G1 G2]]. split; [exact G1|]. split; [exact G2|]. right.
      split; [|auto]. rewrite commit_get by exact Hok. apply batch_view_put_iff in G0. rewrite G0. reflexivity. }
  split; [exact H1|]. split; [exact H2|]. intros Hunt. split.
  - intros k v. split; [|apply H1]. intros Hkv. destruct (H2 k v Hkv) as [G1 [G2 [G0|G0]]]; [|exact G0].
    split; [|auto]. rewrite commit_get by exact Hok. rewrite (Hunt k v G0 G1 G2). exact G0.
  - rewrite Hout, map_app. apply nodup_app; [apply sorted_nodup_keys; exact HsA|apply sorted_nodup_keys; exact HsB|].
    intros k HkA HkB. apply in_map_iff in HkA. destruct HkA as [[k1 v1] [E1 HkA]]. cbn in E1. subst k1.
    apply in_map_iff in HkB. destruct HkB as [[k2 v2] [E2 HkB]]. cbn in E2. subst k2.
    apply HA in HkA. destruct HkA as [G0 [G1 G2]]. apply HB in HkB. destruct HkB as [G3 _].
    apply batch_view_put_iff in G3. rewrite (Hunt k v1 G0 G1 G2) in G3. discriminate.
Qed.

(* ------------------------------------------------------------------ what it is NOT (closed witness, reproduces on the Go code)
   committed in bucket a: k = v, m = w.  A write transaction deletes k, overwrites m = x, puts b = y and iterates the
   bucket: Get(k) = nil, Get(m) = x, GetByPrefix("") = {m = x, b = y} — but Seek("") / Next() yield
   k = v (deleted), m = w (overwritten), b = y (descending), m = x (m a second time), end. *)
Definition stale_ops : list op :=
  [OBegin true; OCreateTop 0 [97]; OPut 0 [107] [118]; OPut 0 [109] [119]; OCommit;
   OBegin true; OTop true 0 [97]; ODel 0 [107]; OPut 0 [109] [120]; OPut 0 [98] [121]; OIter 0 0 0 [] []].
Definition exec_unmerged (st : state) (ops : list op) : state :=
  fold_left (fun st o => fst (step_iter_unmerged st o)) ops st.
Definition run_unmerged (ops : list op) : state := exec_unmerged init_state ops.
Lemma write_iter_not_view_refuted :
  Forall op_bytes stale_ops /\
  snd (step_iter_unmerged (run_unmerged stale_ops) (OGet 0 [107])) = RNil /\
  snd (step_iter_unmerged (run_unmerged stale_ops) (OGet 0 [109])) = RVal [120] /\
  snd (step_iter_unmerged (run_unmerged stale_ops) (OPfx 0 [])) = REntries [([109], [120]); ([98], [121])] /\
  snd (step_iter_unmerged (run_unmerged stale_ops) (OSeek 0 [])) = RIter true (Some [107]) [118] /\
  snd (step_iter_unmerged (run_unmerged (stale_ops ++ [OSeek 0 []])) (ONext 0)) = RIter true (Some [109]) [119] /\
  snd (step_iter_unmerged (run_unmerged (stale_ops ++ [OSeek 0 []; ONext 0])) (ONext 0)) = RIter true (Some [98]) [121] /\
  snd (step_iter_unmerged (run_unmerged (stale_ops ++ [OSeek 0 []; ONext 0; ONext 0])) (ONext 0)) = RIter true (Some [109]) [120] /\
  snd (step_iter_unmerged (run_unmerged (stale_ops ++ [OSeek 0 []; ONext 0; ONext 0; ONext 0])) (ONext 0)) = RIter false None [] /\
  (* the merging iterator on the same history: b = y, m = x, end *)
  snd (step (run stale_ops) (OSeek 0 [])) = RIter true (Some [98]) [121] /\
  snd (step (run (stale_ops ++ [OSeek 0 []])) (ONext 0)) = RIter true (Some [109]) [120] /\
  snd (step (run (stale_ops ++ [OSeek 0 []; ONext 0])) (ONext 0)) = RIter false None [] /\
  snd (step (run (stale_ops ++ [OIter 1 0 0 [] []])) (ONext 1)) = RIter true (Some [98]) [121].
Proof.
  split; [unfold stale_ops; repeat (apply Forall_cons; [cbn [op_bytes]; solve_bytes|]); apply Forall_nil|].
  vm_compute. repeat split.
Qed.

(* the typing premises of seek_write_tx follow from the index invariant, which holds in every reachable state *)
Lemma batch_idx_ok_keys_bytes : forall b, batch_idx_ok b -> keys_bytes (b_puts b).
Proof.
  intros b [H _]. unfold keys_bytes. rewrite Forall_forall. intros [k [v sp]] Hin. cbn [fst].
  eapply entry_ok_bytes. eapply H; eauto.
Qed.
Lemma store_ok_keys_bytes : forall s, store_ok s -> keys_bytes s.
Proof.
  intros s H. unfold keys_bytes. rewrite Forall_forall. intros [k v] Hin. cbn [fst]. eapply entry_ok_bytes. eapply H; eauto.
Qed.
