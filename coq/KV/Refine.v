(* KV/Refine — the model of the wallet database (KV/Model.v [step]) refines the abstract map of KV/Spec.v [spec_step].
   [R0]: the abstraction relation between a model state and a specification state; [sinv] (Spec.v): the specification's
   own invariant (no orphans), kept by every specified step ([spec_step_sinv]); [R] = R0 and sinv;
   [step_sim]: one step; [refines_abstract_map]: every operation sequence.
   Nested buckets: [lookup_sim] (Bucket / FetchBucket / TopLevelBucket), [sim_new] (NewBucket), [delete_bucket_total] +
   [Rview_remove] + [sim_delbucket] (recursive DeleteBucket), [names_sim] (both BucketNames), [dump_sim] (the dump). *)
From Coq Require Import List ZArith Bool Lia Sorted Permutation.
Import ListNotations.
Require Import MW.KV.Model MW.KV.Proofs MW.KV.Proofs2 MW.KV.Proofs3 MW.KV.Proofs4 MW.KV.Proofs5 MW.KV.Proofs6 MW.KV.Spec.

(* ------------------------------------------------------------------ contents *)
Lemma path_eqb_iff : forall p q, path_eqb p q = true <-> p = q.
Proof.
  induction p as [|a p IH]; destruct q as [|b q]; cbn [path_eqb]; try (split; [discriminate|discriminate]); [tauto|].
  rewrite andb_true_iff, beqb_true_iff, IH. split; [intros [-> ->]; reflexivity|intros E; inversion E; auto].
Qed.
Lemma path_eqb_refl : forall p, path_eqb p p = true.
Proof. intros. apply path_eqb_iff. reflexivity. Qed.
Lemma path_eqb_neq : forall p q, p <> q -> path_eqb p q = false.
Proof. intros p q H. destruct (path_eqb p q) eqn:E; [apply path_eqb_iff in E; congruence|reflexivity]. Qed.
Lemma has_bucket_iff : forall c p, has_bucket c p = true <-> In p (c_bk c).
Proof.
  intros c p. unfold has_bucket. rewrite existsb_exists. split.
  - intros [q [Hq E]]. apply path_eqb_iff in E. subst. exact Hq.
  - intros H. exists p. split; [exact H|apply path_eqb_refl].
Qed.
Lemma entries_set : forall c p m q, entries (set_entries c p m) q = if path_eqb q p then m else entries c q.
Proof. reflexivity. Qed.
Lemma has_bucket_set : forall c p m q, has_bucket (set_entries c p m) q = has_bucket c q.
Proof. reflexivity. Qed.
Lemma entries_add : forall c p q, entries (add_bucket c p) q = entries c q.
Proof. intros. unfold add_bucket. destruct (has_bucket c p); reflexivity. Qed.
Lemma has_bucket_add : forall c p q, has_bucket (add_bucket c p) q = true <-> has_bucket c q = true \/ q = p.
Proof.
  intros c p q. unfold add_bucket. destruct (has_bucket c p) eqn:E.
  - split; [auto|]. intros [H|H]; [exact H|subst; exact E].
  - rewrite !has_bucket_iff. cbn [c_bk In]. split; intros [H|H]; auto.
Qed.

(* ------------------------------------------------------------------ the abstraction of one store view *)
(* [f]: a view of the encoded store (stored key -> value).  The content [c] is its decoding: bucket p exists iff its
   index entry is there, and key k of bucket p holds what is stored under the inner key <depth>_<p>_<k> *)
Definition Rview (f : view) (c : content) : Prop :=
  (forall p, has_bucket c p = true <-> names_ok p /\ bkf f p) /\
  (forall p k, names_ok p -> m_get k (entries c p) = kvf f p k) /\
  (forall p, keys_sorted (entries c p)).

Lemma Rview_ext : forall f g c, (forall key, f key = g key) -> Rview f c -> Rview g c.
Proof.
  intros f g c E [H1 [H2 H3]]. split; [|split]; auto.
  - intros p. rewrite H1. unfold bkf. rewrite E. tauto.
  - intros p k Hp. rewrite H2 by exact Hp. unfold kvf. apply E.
Qed.
Lemma Rview_empty : Rview (sget []) empty_content.
Proof.
  split; [|split].
  - intros p. split; [discriminate|]. intros [_ H]. exfalso. apply H. reflexivity.
  - reflexivity.
  - intros p. constructor.
Qed.

Lemma names_ok_valid : forall p, names_ok p -> valid_names p.
Proof. intros p [_ [H _]]. exact H. Qed.

(* a data key of bucket p changes: the bucket's map changes at that key *)
Lemma Rview_data : forall f f' c p k x m', Rview f c -> names_ok p ->
  upd1 f (inner_key (path_of p) k) x f' ->
  keys_sorted m' -> (forall k', m_get k' m' = if beqb k' k then x else m_get k' (entries c p)) ->
  Rview f' (set_entries c p m').
Proof.
  intros f f' c p k x m' [H1 [H2 H3]] Hp Hu Hs Hm. split; [|split].
  - intros q. rewrite has_bucket_set, H1. rewrite (bkf_upd_data f f' p k x q Hu). tauto.
  - intros q k' Hq. rewrite entries_set. unfold kvf. rewrite Hu. destruct (path_eqb q p) eqn:E.
    + apply path_eqb_iff in E. subst q. rewrite beqb_inner_key, Hm. destruct (beqb k' k); [reflexivity|apply H2; exact Hp].
    + destruct (beqb (inner_key (path_of q) k') (inner_key (path_of p) k)) eqn:Eb.
      * apply beqb_true_iff in Eb. apply path_key_inj in Eb; auto using names_ok_valid. destruct Eb as [-> _].
        rewrite path_eqb_refl in E. discriminate.
      * apply H2. exact Hq.
  - intros q. rewrite entries_set. destruct (path_eqb q p); auto.
Qed.

(* all data keys of bucket p disappear *)
Lemma Rview_clear : forall f f' c p, Rview f c -> names_ok p ->
  (forall key, f' key = if has_prefix (path_of p ++ [SEP]) key then None else f key) ->
  Rview f' (set_entries c p []).
Proof.
  intros f f' c p [H1 [H2 H3]] Hp Hu. split; [|split].
  - intros q. rewrite has_bucket_set, H1. unfold bkf. rewrite Hu, has_prefix_idx_false. tauto.
  - intros q k' Hq. rewrite entries_set. unfold kvf. rewrite Hu. destruct (path_eqb q p) eqn:E.
    + apply path_eqb_iff in E. subst q. rewrite inner_key_as_app, has_prefix_app. reflexivity.
    + destruct (has_prefix (path_of p ++ [SEP]) (inner_key (path_of q) k')) eqn:Eb.
      * apply has_prefix_iff in Eb. destruct Eb as [r Er]. rewrite <- inner_key_as_app in Er.
        apply path_key_inj in Er; auto using names_ok_valid. destruct Er as [-> _]. rewrite path_eqb_refl in E. discriminate.
      * apply H2. exact Hq.
  - intros q. rewrite entries_set. destruct (path_eqb q p); [constructor|auto].
Qed.

(* the index entry of bucket p appears *)
Lemma Rview_create : forall f f' c p v, Rview f c -> names_ok p ->
  upd1 f (index_key (path_of p)) (Some v) f' -> Rview f' (add_bucket c p).
Proof.
  intros f f' c p v [H1 [H2 H3]] Hp Hu. split; [|split].
  - intros q. rewrite has_bucket_add, H1. unfold bkf. rewrite Hu.
    destruct (beqb (index_key (path_of q)) (index_key (path_of p))) eqn:E.
    + split.
      * intros [[Hq _]| ->]; (split; [assumption|discriminate]).
      * intros [Hq _]. right. apply beqb_true_iff in E. apply idx_key_inj in E; auto using names_ok_valid.
    + split; [intros [H| ->]; [exact H|rewrite beqb_refl in E; discriminate]|auto].
  - intros q k' Hq. rewrite entries_add. unfold kvf. rewrite Hu, beqb_data_idx. apply H2. exact Hq.
  - intros q. rewrite entries_add. auto.
Qed.

(* ------------------------------------------------------------------ ordered lists *)
Lemma sorted_ext {V} : forall (l1 l2 : amap V), keys_sorted l1 -> keys_sorted l2 ->
  (forall k, m_get k l1 = m_get k l2) -> l1 = l2.
Proof.
  induction l1 as [|[k1 v1] l1 IH]; intros l2 S1 S2 H.
  - destruct l2 as [|[k2 v2] l2]; [reflexivity|]. specialize (H k2). rewrite m_get_cons, beqb_refl in H. discriminate.
  - destruct l2 as [|[k2 v2] l2]; [specialize (H k1); rewrite m_get_cons, beqb_refl in H; discriminate|].
    destruct (sorted_lb _ _ S1) as [L1 S1']. destruct (sorted_lb _ _ S2) as [L2 S2']. cbn [fst] in L1, L2.
    assert (Ek : k1 = k2).
    { destruct (beqb k1 k2) eqn:E; [apply beqb_true_iff; exact E|]. exfalso.
      pose proof (H k1) as A. rewrite !m_get_cons, beqb_refl, E in A. symmetry in A. apply m_get_in in A.
      pose proof (H k2) as B. rewrite !m_get_cons, beqb_refl, beqb_sym, E in B. apply m_get_in in B.
      assert (A' : blt k2 k1 = true) by (apply (lb_in k2 l2); [exact L2|apply in_map_iff; exists (k1, v1); auto]).
      assert (B' : blt k1 k2 = true) by (apply (lb_in k1 l1); [exact L1|apply in_map_iff; exists (k2, v2); auto]).
      pose proof (blt_trans _ _ _ A' B') as C. rewrite blt_irrefl in C. discriminate. }
    subst k2. pose proof (H k1) as A. rewrite !m_get_cons, beqb_refl in A. inversion A; subst v2. f_equal.
    apply IH; auto. intros k. destruct (beqb k k1) eqn:E.
    + apply beqb_true_iff in E. subst k. rewrite !m_get_lb; auto.
    + specialize (H k). rewrite !m_get_cons, E in H. exact H.
Qed.
Lemma sorted_in_ext {V} : forall (l1 l2 : amap V), keys_sorted l1 -> keys_sorted l2 ->
  (forall k v, In (k, v) l1 <-> In (k, v) l2) -> l1 = l2.
Proof.
  intros l1 l2 S1 S2 H. apply sorted_ext; auto. intros k.
  destruct (m_get k l1) as [v|] eqn:E1.
  - apply (sorted_get_in l1 k v S1) in E1. apply H in E1. apply (sorted_get_in l2 k v S2) in E1. auto.
  - destruct (m_get k l2) as [v|] eqn:E2; [|reflexivity].
    apply (sorted_get_in l2 k v S2) in E2. apply H in E2. apply (sorted_get_in l1 k v S1) in E2. congruence.
Qed.
Lemma mrg_filter : forall (p : bytes -> bool) sn bt, keys_sorted sn -> keys_sorted bt ->
  mrg (filter (fun e => p (fst e)) sn) (filter (fun e => p (fst e)) bt) = filter (fun e => p (fst e)) (mrg sn bt).
Proof.
  intros p sn bt S1 S2.
  assert (F1 : keys_sorted (filter (fun e : bytes * bytes => p (fst e)) sn)) by (apply (@filter_sorted bytes); exact S1).
  assert (F2 : keys_sorted (filter (fun e : bytes * option bytes => p (fst e)) bt)) by (apply (@filter_sorted (option bytes)); exact S2).
  apply sorted_ext.
  - apply mrg_sorted; assumption.
  - apply (@filter_sorted bytes). apply mrg_sorted; assumption.
  - intros k. rewrite (mrg_get _ _ F1 F2), !(m_get_filter p), (mrg_get _ _ S1 S2). destruct (p k); reflexivity.
Qed.
Definition has_pfx {V} (path : bytes) (l : list (bytes * V)) : Prop :=
  Forall (fun e => has_prefix (path ++ [SEP]) (fst e) = true) l.
Lemma filter_strip : forall path k (l : list (bytes * bytes)), has_pfx path l ->
  filter (fun e => ble k (fst e)) (map (strip (S (length path))) l)
  = map (strip (S (length path))) (filter (fun e => ble (inner_key path k) (fst e)) l).
Proof.
  intros path k l H. induction H as [|[K v] l HK Hl IH]; [reflexivity|].
  cbn [fst] in HK. apply has_prefix_iff in HK. destruct HK as [r Hr]. rewrite <- inner_key_as_app in Hr. subst K.
  assert (Es : strip (S (length path)) (inner_key path r, v) = (r, v))
    by (unfold strip; cbn [fst snd]; rewrite skipn_inner_key; reflexivity).
  cbn [map filter]. rewrite Es. cbn [fst].
  rewrite !inner_key_as_app, ble_app_prefix, <- !inner_key_as_app. destruct (ble k r).
  - cbn [map]. rewrite Es, IH. reflexivity.
  - exact IH.
Qed.
Lemma tl_skipn {A} : forall n (l : list A), tl (skipn n l) = skipn (S n) l.
Proof. induction n as [|n IH]; intros [|x l]; cbn [skipn tl]; auto. apply IH. Qed.

(* ------------------------------------------------------------------ iterators *)
(* the merging iterator stands on the head of L and what is left after it merges to the tail of L; L = []: at the end *)
Definition settled (it : iter) (L : list (bytes * bytes)) : Prop :=
  match L with
  | [] => mi_on_iter it = false /\ mi_on_batch it = false /\ sn_of it = [] /\ bt_of it = [] /\ mi_inv it
  | e :: rest => mi_raw it = Some e /\ mi_inv (adv it) /\ rest = mrg (sn_of (adv it)) (bt_of (adv it))
  end.
Definition cst (a b : iter) : Prop :=
  it_ents b = it_ents a /\ mi_keys b = mi_keys a /\ it_pl b = it_pl a /\ it_ro b = it_ro a /\ it_merge b = it_merge a /\
  it_path b = it_path a.
Lemma same_st_cst : forall a b, same_st a b -> cst a b.
Proof. intros a b [A1 [A2 [A3 [A4 [A5 [A6 _]]]]]]. repeat split; assumption. Qed.

Definition Rconst (it : iter) (all : list (bytes * bytes)) : Prop :=
  keys_sorted (it_ents it) /\ keys_sorted (mi_keys it) /\ keys_ne (it_ents it) /\ keys_ne (mi_keys it) /\
  it_pl it = S (length (it_path it)) /\ has_pfx (it_path it) (mrg (it_ents it) (mi_keys it)) /\
  all = map (strip (it_pl it)) (mrg (it_ents it) (mi_keys it)) /\
  (if it_ro it then mi_keys it = [] else it_merge it = true).
Definition Rpos (it : iter) (si : siter) : Prop :=
  if si_fresh si
  then it_pos it = SOI /\ it_end it = false /\ mi_ptr it = 0%nat /\ mi_on_batch it = false /\ mi_started it = false /\
       si_rest si = si_all si
  else if it_ro it then mi_inv it /\ si_rest si = map (strip (it_pl it)) (sn_of it)
       else mi_started it = true /\ exists L, si_rest si = map (strip (it_pl it)) L /\ settled it L.
Definition Riter (it : iter) (si : siter) : Prop := Rconst it (si_all si) /\ Rpos it si.

Lemma Rconst_cst : forall a b all, cst a b -> Rconst a all -> Rconst b all.
Proof.
  intros a b all [A1 [A2 [A3 [A4 [A5 A6]]]]] H. unfold Rconst in *. rewrite A1, A2, A3, A4, A5, A6. exact H.
Qed.

(* what Key() / Value() show *)
Lemma ro_out : forall it, it_ro it = true -> mi_inv it -> keys_ne (it_ents it) ->
  RIter (negb (it_end it)) (iter_key it) (iter_value it)
  = match map (strip (it_pl it)) (sn_of it) with (k, v) :: _ => RIter true (Some k) v | [] => RIter false None [] end.
Proof.
  intros it Hro Hi Hne. unfold iter_key, iter_value. rewrite iter_raw_off by (apply mi_active_ro; exact Hro).
  unfold iter_raw_u, sn_of. rewrite Hro. destruct (it_end it) eqn:Ee; cbn [negb andb]; [reflexivity|].
  destruct (Hi Ee) as [n [Hp Hn]]. rewrite Hp.
  destruct (nth_error (it_ents it) n) as [[k v]|] eqn:En; [|apply nth_error_None in En; lia].
  rewrite (skipn_nth_error _ _ _ En). cbn [map]. unfold strip. cbn [fst snd].
  assert (Hk : k <> []).
  { unfold keys_ne in Hne. rewrite Forall_forall in Hne. apply (Hne (k, v)). eapply nth_error_In; eauto. }
  destruct k; [congruence|reflexivity].
Qed.
Lemma settled_out : forall it L ok, mi_active it = true -> settled it L -> (forall e, In e L -> fst e <> []) ->
  (ok = match L with [] => false | _ :: _ => true end) ->
  RIter ok (iter_key it) (iter_value it)
  = match map (strip (it_pl it)) L with (k, v) :: _ => RIter true (Some k) v | [] => RIter false None [] end.
Proof.
  intros it L ok Ha Hs Hne Hok. destruct L as [|e rest]; cbn [settled map] in *.
  - destruct Hs as [H1 [H2 _]]. subst ok. unfold iter_key, iter_value, iter_raw. rewrite Ha. unfold mi_raw. rewrite H1, H2. reflexivity.
  - destruct Hs as [H1 _]. subst ok. destruct (mi_current it e Ha H1 (Hne e (or_introl eq_refl))) as [Hk Hv].
    rewrite Hk, Hv. reflexivity.
Qed.
(* one merge *)
Lemma merge_settles : forall it0 it2, cst it0 it2 -> mi_inv it2 ->
  let r := mi_merge (mi_fuel it0) it2 in
  same_st it2 (snd r) /\ settled (snd r) (mrg (sn_of it2) (bt_of it2)) /\
  fst r = match mrg (sn_of it2) (bt_of it2) with [] => false | _ :: _ => true end.
Proof.
  intros it0 it2 [_ [A2 _]] Hi r.
  assert (Hf : (length (bt_of it2) < mi_fuel it0)%nat) by (unfold mi_fuel; rewrite <- A2; apply bt_of_len).
  pose proof (merge_spec (mi_fuel it0) it2 Hi Hf) as [Hs Hp]. fold r in Hs, Hp.
  split; [exact Hs|]. unfold settled. destruct (mrg (sn_of it2) (bt_of it2)) as [|e rest].
  - destruct Hp as [P1 [P2 [P3 [P4 [P5 P6]]]]]. auto 10.
  - destruct Hp as [P1 [P2 [P3 P4]]]. auto.
Qed.
Lemma mrg_keys_ne : forall sn bt e, keys_ne sn -> keys_ne bt -> In e (mrg sn bt) -> fst e <> [].
Proof.
  intros sn bt e H1 H2 He. apply mrg_key_src in He. destruct He as [He|He]; [exact (keys_ne_in sn _ H1 He)|exact (keys_ne_in bt _ H2 He)].
Qed.

Lemma iter_next_sim : forall it si, Riter it si ->
  Riter (snd (iter_next it)) (siter_next si) /\
  RIter (fst (iter_next it)) (iter_key (snd (iter_next it))) (iter_value (snd (iter_next it))) = siter_out (siter_next si).
Proof.
  intros it si [Hc Hp]. pose proof Hc as [C1 [C2 [C3 [C4 [C5 [C6 [C7 C8]]]]]]].
  unfold Riter, siter_out, siter_next. cbn [si_all si_rest si_fresh]. unfold Rpos in *. cbn [si_all si_rest si_fresh].
  destruct (it_ro it) eqn:Hro.
  - (* read transaction *)
    rewrite iter_next_off by (apply mi_active_ro; exact Hro). rewrite C8, mrg_nil_r in C7.
    assert (Hstep : it_end it = false -> (it_pos it = SOI \/ mi_inv it) ->
              iter_next_u it = (negb (it_end (mi_snap_next it)), mi_snap_next it)).
    { intros He _. unfold iter_next_u, mi_snap_next. rewrite He, Hro. destruct (ldb_next it) as [has pos]. destruct has; reflexivity. }
    destruct (si_fresh si).
    + destruct Hp as [P1 [P2 [P3 [P4 [P5 P6]]]]]. rewrite (Hstep P2 (or_introl P1)). cbn [fst snd].
      assert (Hsn : sn_of (mi_snap_next it) = it_ents it /\ mi_inv (mi_snap_next it)).
      { unfold sn_of, mi_inv, mi_snap_next, ldb_next. rewrite P1.
        destruct (it_ents it) as [|e r] eqn:Ee; cbn [set_ldb it_end it_pos it_ents negb].
        - split; [reflexivity|discriminate].
        - rewrite Ee. split; [reflexivity|]. intros _. exists 0%nat. split; [reflexivity|cbn; lia]. }
      destruct Hsn as [Hsn Hi]. destruct (snap_next_fields it) as [Hs _]. apply same_st_cst in Hs.
      pose proof Hs as [A1 [A2 [A3 [A4 [A5 A6]]]]].
      split; [split; [eapply Rconst_cst; eauto|]|].
      * rewrite A4, Hro. split; [exact Hi|]. rewrite Hsn, A3, P6. exact C7.
      * rewrite ro_out; [|congruence|exact Hi|congruence]. rewrite Hsn, A3, P6, C7. reflexivity.
    + destruct Hp as [Hi P6]. destruct (it_end it) eqn:He.
      * assert (E : iter_next_u it = (false, it)) by (unfold iter_next_u; rewrite He, Hro; reflexivity).
        rewrite E. cbn [fst snd]. rewrite (snap_end it He) in P6. cbn [map] in P6. rewrite P6. cbn [tl].
        split; [split; [exact Hc|]|].
        -- rewrite Hro. split; [exact Hi|]. rewrite (snap_end it He). reflexivity.
        -- pose proof (ro_out it Hro Hi C3) as X. rewrite (snap_end it He), He in X. exact X.
      * rewrite (Hstep eq_refl (or_intror Hi)). cbn [fst snd].
        destruct (snap_step it Hi He) as [e [_ [Hsn Hi']]]. destruct (snap_next_fields it) as [Hs _]. apply same_st_cst in Hs.
        pose proof Hs as [A1 [A2 [A3 [A4 [A5 A6]]]]].
        assert (Et : tl (si_rest si) = map (strip (it_pl it)) (sn_of (mi_snap_next it))) by (rewrite P6, Hsn; reflexivity).
        split; [split; [eapply Rconst_cst; eauto|]|].
        -- rewrite A4, Hro. split; [exact Hi'|]. rewrite A3. exact Et.
        -- rewrite ro_out; [|congruence|exact Hi'|congruence]. rewrite A3, Et. reflexivity.
  - (* write transaction: the merging iterator *)
    assert (Ha : mi_active it = true) by (unfold mi_active; rewrite Hro, C8; reflexivity).
    unfold iter_next. rewrite Ha. unfold mi_next.
    assert (Hfin : forall it2 L, cst it it2 -> mi_inv it2 -> mi_started it2 = true -> mrg (sn_of it2) (bt_of it2) = L ->
              (forall e, In e L -> fst e <> []) ->
              let r := mi_merge (mi_fuel it) it2 in
              (Rconst (snd r) (si_all si) /\ mi_started (snd r) = true /\
               exists L', map (strip (it_pl it)) L = map (strip (it_pl (snd r))) L' /\ settled (snd r) L') /\
              RIter (fst r) (iter_key (snd r)) (iter_value (snd r))
              = match map (strip (it_pl it)) L with (k, v) :: _ => RIter true (Some k) v | [] => RIter false None [] end).
    { intros it2 L Hcs Hi Hst HL HneL r. destruct (merge_settles it it2 Hcs Hi) as [Hs [Hset Hok]]. fold r in Hs, Hset, Hok.
      rewrite HL in Hset, Hok.
      assert (Hcs' : cst it (snd r)).
      { apply same_st_cst in Hs. destruct Hcs as [A1 [A2 [A3 [A4 [A5 A6]]]]]. destruct Hs as [B1 [B2 [B3 [B4 [B5 B6]]]]].
        repeat split; congruence. }
      pose proof Hcs' as [A1 [A2 [A3 [A4 [A5 A6]]]]].
      split; [split; [eapply Rconst_cst; eauto|split]|].
      - destruct Hs as [_ [_ [_ [_ [_ [_ B7]]]]]]. congruence.
      - exists L. rewrite A3. split; [reflexivity|exact Hset].
      - rewrite <- A3. apply settled_out; auto. unfold mi_active. rewrite A4, A5, Hro, C8. reflexivity. }
    destruct (si_fresh si).
    + destruct Hp as [P1 [P2 [P3 [P4 [P5 P6]]]]]. rewrite P5. cbn [negb]. rewrite orb_true_r.
      destruct (snap_next_fields it) as [Hs [B1 [B2 B3]]]. pose proof Hs as [A1 [A2 [A3 [A4 [A5 [A6 A7]]]]]].
      rewrite B3, P4, B1.
      set (it2 := set_mi (mi_snap_next it) (mi_ptr it) (mi_on_iter (mi_snap_next it)) false true).
      assert (Hsn : sn_of it2 = it_ents it /\ mi_inv it2).
      { unfold it2. rewrite sn_of_set_mi. unfold sn_of, mi_inv, mi_snap_next, ldb_next. rewrite P1.
        destruct (it_ents it) as [|e r] eqn:Ee; cbn [set_ldb set_mi it_end it_pos it_ents negb].
        - split; [reflexivity|discriminate].
        - rewrite Ee. split; [reflexivity|]. intros _. exists 0%nat. split; [reflexivity|cbn; lia]. }
      destruct Hsn as [Hsn Hi].
      assert (Hbt : bt_of it2 = mi_keys it) by (unfold it2; rewrite bt_of_set_mi, P3, A2; reflexivity).
      assert (Hcs : cst it it2) by (unfold it2; repeat split; cbn [set_mi it_ents mi_keys it_pl it_ro it_merge it_path]; assumption).
      destruct (Hfin it2 (mrg (it_ents it) (mi_keys it)) Hcs Hi eq_refl) as [[G1 [G2 [L' [G3 G4]]]] G5].
      { rewrite Hsn, Hbt. reflexivity. }
      { intros e He. eapply mrg_keys_ne; eauto. }
      rewrite <- C7, <- P6 in G3, G5.
      split; [split; [exact G1|]|exact G5].
      destruct Hcs as [_ [_ [_ [A4' _]]]].
      assert (Hro' : it_ro (snd (mi_merge (mi_fuel it) it2)) = false).
      { destruct (merge_settles it it2 (conj A1 (conj (eq_trans (f_equal mi_keys eq_refl) A2) (conj A3 (conj A4 (conj A5 A6))))) Hi) as [Hs' _].
        destruct Hs' as [_ [_ [_ [X _]]]]. rewrite X. unfold it2. cbn [set_mi it_ro]. congruence. }
      rewrite Hro'. split; [exact G2|]. exists L'. split; [exact G3|exact G4].
    + destruct Hp as [Hst [L [P6 Hset]]]. rewrite Hst. cbn [negb]. rewrite orb_false_r.
      change (set_mi (if mi_on_iter it then mi_snap_next it else it)
                (if mi_on_batch (if mi_on_iter it then mi_snap_next it else it)
                 then mi_bnext (if mi_on_iter it then mi_snap_next it else it)
                 else mi_ptr (if mi_on_iter it then mi_snap_next it else it))
                (mi_on_iter (if mi_on_iter it then mi_snap_next it else it))
                (mi_on_batch (if mi_on_iter it then mi_snap_next it else it)) true) with (adv it).
      destruct (adv_same it) as [A1 [A2 [A3 [A4 [A5 [A6 A7]]]]]].
      assert (Hcs : cst it (adv it)) by (repeat split; assumption).
      assert (Hadv : mi_inv (adv it) /\ mrg (sn_of (adv it)) (bt_of (adv it)) = tl L).
      { destruct L as [|e rest]; cbn [settled tl] in *.
        - destruct Hset as [H1 [H2 [H3 [H4 H5]]]]. unfold adv. rewrite H1. cbn iota. rewrite H2.
          split; [exact H5|]. rewrite sn_of_set_mi, bt_of_set_mi, H3. fold (bt_of it). rewrite H4. reflexivity.
        - destruct Hset as [H1 [H2 H3]]. split; [exact H2|symmetry; exact H3]. }
      destruct Hadv as [Hi HL].
      destruct (Hfin (adv it) (tl L) Hcs Hi A7 HL) as [[G1 [G2 [L' [G3 G4]]]] G5].
      { intros e He. apply (mrg_keys_ne (sn_of (adv it)) (bt_of (adv it))); [| |rewrite HL; exact He].
        - apply sn_of_ne. rewrite A1. exact C3.
        - unfold bt_of. apply keys_ne_skipn. rewrite A2. exact C4. }
      assert (Et : tl (si_rest si) = map (strip (it_pl it)) (tl L)) by (rewrite P6; destruct L; reflexivity).
      rewrite <- Et in G3, G5.
      assert (Hro' : it_ro (snd (mi_merge (mi_fuel it) (adv it))) = false).
      { destruct (merge_settles it (adv it) Hcs Hi) as [Hs' _]. destruct Hs' as [_ [_ [_ [X _]]]]. congruence. }
      split; [split; [exact G1|]|exact G5].
      rewrite Hro'. split; [exact G2|]. exists L'. split; [exact G3|exact G4].
Qed.

Lemma merge_fin : forall it all it2 L, Rconst it all -> it_ro it = false -> cst it it2 -> mi_inv it2 -> mi_started it2 = true ->
  mrg (sn_of it2) (bt_of it2) = L -> (forall e, In e L -> fst e <> []) ->
  let r := mi_merge (mi_fuel it) it2 in
  Rconst (snd r) all /\ it_ro (snd r) = false /\ mi_started (snd r) = true /\ settled (snd r) L /\ it_pl (snd r) = it_pl it /\
  RIter (fst r) (iter_key (snd r)) (iter_value (snd r))
  = match map (strip (it_pl it)) L with (k, v) :: _ => RIter true (Some k) v | [] => RIter false None [] end.
Proof.
  intros it all it2 L Hc Hro Hcs Hi Hst HL HneL r. pose proof Hc as [C1 [C2 [C3 [C4 [C5 [C6 [C7 C8]]]]]]]. rewrite Hro in C8.
  destruct (merge_settles it it2 Hcs Hi) as [Hs [Hset Hok]]. fold r in Hs, Hset, Hok. rewrite HL in Hset, Hok.
  assert (Hcs' : cst it (snd r)).
  { pose proof (same_st_cst _ _ Hs) as [B1 [B2 [B3 [B4 [B5 B6]]]]]. destruct Hcs as [A1 [A2 [A3 [A4 [A5 A6]]]]].
    repeat split; congruence. }
  pose proof Hcs' as [A1 [A2 [A3 [A4 [A5 A6]]]]].
  split; [eapply Rconst_cst; eauto|]. split; [congruence|]. split; [destruct Hs as [_ [_ [_ [_ [_ [_ B7]]]]]]; congruence|].
  split; [exact Hset|]. split; [exact A3|].
  rewrite <- A3. apply settled_out; auto. unfold mi_active. rewrite A4, A5, Hro, C8. reflexivity.
Qed.

Lemma iter_seek_sim : forall it si k, Riter it si ->
  Riter (snd (iter_seek it k)) (siter_seek si k) /\
  RIter (fst (iter_seek it k)) (iter_key (snd (iter_seek it k))) (iter_value (snd (iter_seek it k))) = siter_out (siter_seek si k).
Proof.
  intros it si k [Hc _]. pose proof Hc as [C1 [C2 [C3 [C4 [C5 [C6 [C7 C8]]]]]]].
  unfold Riter, siter_out, siter_seek. cbn [si_all si_rest si_fresh]. unfold Rpos. cbn [si_all si_rest si_fresh].
  set (ik := inner_key (it_path it) k).
  assert (Hrest : filter (fun e => ble k (fst e)) (si_all si)
                  = map (strip (it_pl it)) (mrg (filter (fun e => ble ik (fst e)) (it_ents it)) (filter (fun e => ble ik (fst e)) (mi_keys it)))).
  { rewrite (mrg_filter (ble ik)) by assumption. rewrite C7, C5. apply filter_strip. exact C6. }
  pose proof (find_ge_spec ik (it_ents it) 0%nat C1) as Hf.
  destruct (it_ro it) eqn:Hro.
  - rewrite iter_seek_off by (apply mi_active_ro; exact Hro). rewrite C8 in Hrest. cbn [filter] in Hrest. rewrite mrg_nil_r in Hrest.
    unfold iter_seek_u, ldb_seek. fold ik. rewrite Hro.
    destruct (find_ge ik (it_ents it) 0%nat) as [j|].
    + destruct Hf as [n [Ej [Hn Hsk]]]. cbn in Ej. subst j. cbn [fst snd].
      set (it' := set_ldb it (At n) false).
      assert (Hsn : sn_of it' = filter (fun e => ble ik (fst e)) (it_ents it)) by (rewrite <- Hsk; reflexivity).
      assert (Hi : mi_inv it') by (intros _; exists n; split; [reflexivity|exact Hn]).
      split; [split; [exact Hc|]|].
      * change (it_ro it') with (it_ro it). rewrite Hro. split; [exact Hi|]. rewrite Hsn. exact Hrest.
      * change true with (negb (it_end it')). rewrite ro_out; auto. rewrite Hsn. change (it_pl it') with (it_pl it). rewrite <- Hrest. reflexivity.
    + cbn [fst snd]. set (it' := set_ldb it EOI true).
      assert (Hsn : sn_of it' = filter (fun e => ble ik (fst e)) (it_ents it)) by (rewrite Hf; reflexivity).
      assert (Hi : mi_inv it') by (intros H; discriminate).
      split; [split; [exact Hc|]|].
      * change (it_ro it') with (it_ro it). rewrite Hro. split; [exact Hi|]. rewrite Hsn. exact Hrest.
      * change false with (negb (it_end it')). rewrite ro_out; auto. rewrite Hsn. change (it_pl it') with (it_pl it). rewrite <- Hrest. reflexivity.
  - assert (Ha : mi_active it = true) by (unfold mi_active; rewrite Hro, C8; reflexivity).
    unfold iter_seek. rewrite Ha. unfold mi_seek, ldb_seek. fold ik.
    set (it2 := fun pos e => set_mi (set_ldb it pos e) (mi_search ik (mi_keys it)) (mi_on_iter it) (mi_on_batch it) true).
    assert (Hbt : forall pos e, bt_of (it2 pos e) = filter (fun e => ble ik (fst e)) (mi_keys it)).
    { intros. unfold it2. rewrite bt_of_set_mi. apply mi_search_spec. exact C2. }
    assert (HneL : forall e, In e (mrg (filter (fun e => ble ik (fst e)) (it_ents it)) (filter (fun e => ble ik (fst e)) (mi_keys it))) -> fst e <> []).
    { intros e He. rewrite (mrg_filter (ble ik)) in He by assumption. apply filter_In in He. destruct He as [He _].
      eapply mrg_keys_ne; eauto. }
    assert (Hgo : forall pos e, mi_inv (it2 pos e) -> sn_of (it2 pos e) = filter (fun e => ble ik (fst e)) (it_ents it) ->
              let r := mi_merge (mi_fuel it) (it2 pos e) in
              (Rconst (snd r) (si_all si) /\
               (if it_ro (snd r) then mi_inv (snd r) /\ filter (fun e => ble k (fst e)) (si_all si) = map (strip (it_pl (snd r))) (sn_of (snd r))
                else mi_started (snd r) = true /\ exists L, filter (fun e => ble k (fst e)) (si_all si) = map (strip (it_pl (snd r))) L /\ settled (snd r) L)) /\
              RIter (fst r) (iter_key (snd r)) (iter_value (snd r))
              = match filter (fun e => ble k (fst e)) (si_all si) with (k, v) :: _ => RIter true (Some k) v | [] => RIter false None [] end).
    { intros pos e Hi Hsn r.
      assert (Hcs : cst it (it2 pos e)) by (unfold it2; repeat split).
      destruct (merge_fin it (si_all si) (it2 pos e) _ Hc Hro Hcs Hi eq_refl (f_equal2 mrg Hsn (Hbt pos e)) HneL)
        as [G1 [G2 [G3 [G4 [G5 G6]]]]]. fold r in G1, G2, G3, G4, G5, G6.
      rewrite <- Hrest in G6. split; [split; [exact G1|]|exact G6].
      rewrite G2. split; [exact G3|]. eexists. split; [|exact G4]. rewrite G5. exact Hrest. }
    destruct (find_ge ik (it_ents it) 0%nat) as [j|].
    + destruct Hf as [n [Ej [Hn Hsk]]]. cbn in Ej. subst j. cbn [negb].
      change (set_mi (set_ldb it (At n) false) (mi_search ik (mi_keys (set_ldb it (At n) false)))
                (mi_on_iter (set_ldb it (At n) false)) (mi_on_batch (set_ldb it (At n) false)) true) with (it2 (At n) false).
      apply Hgo; [intros _; exists n; split; [reflexivity|exact Hn]|rewrite <- Hsk; reflexivity].
    + cbn [negb].
      change (set_mi (set_ldb it EOI true) (mi_search ik (mi_keys (set_ldb it EOI true)))
                (mi_on_iter (set_ldb it EOI true)) (mi_on_batch (set_ldb it EOI true)) true) with (it2 EOI true).
      apply Hgo; [intros H; discriminate|rewrite Hf; reflexivity].
Qed.

(* creation: the lists a new iterator holds against the content *)
Lemma sel_range_is_user_range : forall a l k, sel_range a l k = user_range a l k.
Proof. reflexivity. Qed.
Lemma iter_lists : forall vs b h p a l c, keys_sorted vs -> store_ok vs -> batch_wf b -> batch_idx_ok b -> hnd h p ->
  Rview (vw vs b) c ->
  let lo := inner_key (h_path h) a in
  let hi := match l with [] => bp_limit (inner_key (h_path h) []) | _ :: _ => Some (inner_key (h_path h) l) end in
  let L := mrg (range_entries vs lo hi) (net_changes b lo hi) in
  has_pfx (h_path h) L /\
  map (strip (S (length (h_path h)))) L = filter (fun e => sel_range a l (fst e)) (entries c p).
Proof.
  intros vs b h p a l c Hs Hok Hwf Hidx Hh [_ [R2 R3]] lo hi L.
  assert (Hp : bytes_ok (h_path h)) by (eapply hnd_path_bytes; eauto).
  assert (Hb : keys_bytes vs) by (apply store_ok_keys_bytes; exact Hok).
  assert (Hbb : keys_bytes (b_puts b)) by (apply batch_idx_ok_keys_bytes; exact Hidx).
  assert (Hhi : hi <> None) by (apply iter_limit_some; exact Hp).
  destruct (view_inner vs b lo hi (fun _ => true) Hs (proj1 Hwf) Hhi) as [HsL HgL]. cbv beta in HsL, HgL.
  rewrite !filter_true_id in HsL, HgL. fold L in HsL, HgL.
  split.
  - unfold has_pfx. rewrite Forall_forall. intros [K v] HK. cbn [fst].
    apply (sorted_get_in L K v HsL) in HK. rewrite HgL in HK. rewrite andb_true_r in HK.
    destruct (in_range lo hi K) eqn:G1; [|discriminate].
    apply (iter_range_in_bucket (h_path h) a l K Hp); [exact (commit_key_bytes vs b K v Hs Hb Hwf Hbb HK)|exact G1].
  - destruct (view_user vs b h a l (fun _ => true) (fun _ => true) Hs Hb Hwf Hbb Hp (fun _ => eq_refl)) as [V1 V2].
    cbv beta in V1, V2. rewrite !filter_true_id in V1, V2. fold lo hi in V1, V2. fold L in V1, V2.
    apply sorted_in_ext; [exact V1|apply (@filter_sorted bytes); apply R3|].
    intros k v. rewrite V2, filter_In. cbn [fst]. rewrite (sorted_get_in _ k v (R3 p)).
    destruct Hh as [Hn [Hpath _]]. rewrite (R2 p k Hn). unfold kvf, vw. rewrite Hpath. change (sel_range a l k) with (user_range a l k). tauto.
Qed.

Lemma iter_new_sim : forall vs ob h p c mode start limit, keys_sorted vs -> store_ok vs -> obwf ob -> obatch_ok ob -> hnd h p ->
  Rview (sget (view_store vs ob)) c ->
  Riter (new_iterator vs ob h (fst (iter_bounds mode start limit)) (snd (iter_bounds mode start limit)))
        (siter_new (entries c p) mode start limit).
Proof.
  intros vs ob h p c mode start limit Hs Hok Hwf Hidx Hh HR.
  unfold siter_new. destruct (iter_bounds mode start limit) as [a l]. cbn [fst snd].
  set (lo := inner_key (h_path h) a).
  set (hi := match l with [] => bp_limit (inner_key (h_path h) []) | _ :: _ => Some (inner_key (h_path h) l) end).
  assert (Hgen : forall b, batch_wf b -> batch_idx_ok b -> Rview (vw vs b) c ->
            forall it, it_ents it = range_entries vs lo hi -> mi_keys it = net_changes b lo hi ->
                       it_pl it = S (length (h_path h)) -> it_path it = h_path h ->
                       (if it_ro it then mi_keys it = [] else it_merge it = true) ->
                       Rconst it (filter (fun e => sel_range a l (fst e)) (entries c p))).
  { intros b Hwfb Hidxb HRb it E1 E2 E3 E4 E5.
    destruct (iter_lists vs b h p a l c Hs Hok Hwfb Hidxb Hh HRb) as [I1 I2]. fold lo hi in I1, I2.
    unfold Rconst. rewrite E1, E2, E3, E4. rewrite E2 in E5.
    split; [apply range_entries_sorted; exact Hs|]. split; [apply net_changes_sorted|].
    split; [apply range_entries_ne; apply inner_key_ne|]. split; [apply net_changes_ne; apply inner_key_ne|].
    split; [reflexivity|]. split; [exact I1|]. split; [symmetry; exact I2|exact E5]. }
  cbv zeta. split.
  - cbn [si_all]. destruct ob as [b|].
    + exact (Hgen b Hwf Hidx HR (new_iterator vs (Some b) h a l) eq_refl eq_refl eq_refl eq_refl eq_refl).
    + exact (Hgen empty_batch batch_wf_empty batch_idx_ok_empty HR (new_iterator vs None h a l) eq_refl eq_refl eq_refl eq_refl eq_refl).
  - unfold Rpos. cbn [si_fresh si_rest si_all]. repeat split.
Qed.

(* ------------------------------------------------------------------ the abstraction relation *)
Definition Rsl {A B} (P : A -> B -> Prop) (o : option (bool * A)) (o' : option (bool * B)) : Prop :=
  match o, o' with
  | None, None => True
  | Some (w, x), Some (w', y) => w = w' /\ P x y
  | _, _ => False
  end.
Definition Ropt {A B} (P : A -> B -> Prop) (a : option A) (b : option B) : Prop :=
  match a, b with Some x, Some y => P x y | None, None => True | _, _ => False end.

(* [R0 st ss]: the committed store, decoded, is the committed content; the store as it would be after committing the open
   batch is the write transaction's working copy; the store a read transaction captured is its snapshot content; bucket
   slots hold handles of the same buckets, iterator slots iterators with the same entries left *)
Definition R0 (st : state) (ss : sstate) : Prop :=
  idx_inv st /\
  Rview (sget (st_store st)) (s_committed ss) /\
  st_open st = s_isopen ss /\ st_upd st = s_inupd ss /\
  Ropt (fun b c => Rview (vw (st_store st) b) c) (st_wtx st) (s_pending ss) /\
  Ropt (fun s0 c => Rview (sget s0) c) (st_rtx st) (s_snapshot ss) /\
  Forall2 (Rsl hnd) (st_bs st) (s_bs ss) /\
  Forall2 (Rsl Riter) (st_is st) (s_is ss).

Lemma F2_set {A B} (P : A -> B -> Prop) : forall n l l' x x', Forall2 (Rsl P) l l' -> Rsl P x x' ->
  Forall2 (Rsl P) (set_nth n x l) (set_nth n x' l').
Proof.
  intros n l l' x x' H Hx. revert n. induction H as [|a b l l' Hab Hl IH]; intros n; [destruct n; constructor|].
  destruct n; cbn [set_nth]; constructor; auto.
Qed.
Lemma F2_get {A B} (P : A -> B -> Prop) : forall n l l', Forall2 (Rsl P) l l' -> Rsl P (get_slot n l) (get_slot n l').
Proof.
  intros n l l' H. revert n. induction H as [|a b l l' Hab Hl IH]; intros n; [destruct n; exact I|].
  destruct n; [|apply IH]. unfold get_slot. cbn [nth_error].
  destruct a as [[w x]|]; destruct b as [[w' y]|]; cbn in Hab |- *; auto.
Qed.
Lemma F2_drop {A B} (P : A -> B -> Prop) : forall w l l', Forall2 (Rsl P) l l' -> Forall2 (Rsl P) (drop_tx w l) (drop_tx w l').
Proof.
  intros w l l' H. induction H as [|a b l l' Hab Hl IH]; [constructor|]. cbn [drop_tx map]. constructor; [|exact IH].
  destruct a as [[w1 x]|]; destruct b as [[w2 y]|]; cbn in Hab |- *; auto; try contradiction.
  destruct Hab as [-> Hp]. destruct (Bool.eqb w w2); cbn; auto.
Qed.
Lemma F2_init {A B} (P : A -> B -> Prop) : forall n, Forall2 (Rsl P) (repeat None n) (repeat None n).
Proof. induction n; cbn; constructor; auto. exact I. Qed.

Lemma R_init : R0 init_state spec_init.
Proof.
  split; [apply idx_inv_init|]. split; [exact Rview_empty|]. split; [reflexivity|]. split; [reflexivity|].
  split; [exact I|]. split; [exact I|]. split; apply F2_init.
Qed.

(* results: listings are compared as sets (each element once), everything else literally; a dump as the set of its
   lines (bucket label, entries as a set) *)
Definition dent_equiv (a b : bytes * result (list (bytes * bytes))) : Prop :=
  fst a = fst b /\ match snd a, snd b with
                   | Ok l, Ok l' => Permutation l l'
                   | Err e, Err e' => e = e'
                   | _, _ => False
                   end.
Definition dump_equiv (l l' : list (bytes * result (list (bytes * bytes)))) : Prop :=
  exists m, Permutation l m /\ Forall2 dent_equiv m l'.
Lemma dent_equiv_refl : forall a, dent_equiv a a.
Proof. intros [k [l|e]]; split; cbn; auto. Qed.
Lemma dump_equiv_refl : forall l, dump_equiv l l.
Proof.
  intros l. exists l. split; [apply Permutation_refl|]. induction l; constructor; auto using dent_equiv_refl.
Qed.
Lemma dump_equiv_cons : forall a b l l', dent_equiv a b -> dump_equiv l l' -> dump_equiv (a :: l) (b :: l').
Proof. intros a b l l' H [m [P F]]. exists (a :: m). split; [apply perm_skip; exact P|constructor; auto]. Qed.
Lemma dump_equiv_app : forall l1 l1' l2 l2', dump_equiv l1 l1' -> dump_equiv l2 l2' -> dump_equiv (l1 ++ l2) (l1' ++ l2').
Proof.
  intros l1 l1' l2 l2' [m1 [P1 F1]] [m2 [P2 F2]]. exists (m1 ++ m2). split; [apply Permutation_app; auto|apply Forall2_app; auto].
Qed.
Lemma dump_equiv_perm_l : forall l0 l l', Permutation l0 l -> dump_equiv l l' -> dump_equiv l0 l'.
Proof. intros l0 l l' P [m [P1 F]]. exists m. split; [eapply Permutation_trans; eauto|exact F]. Qed.
Lemma dump_equiv_flat_map {A} : forall (f g : A -> list (bytes * result (list (bytes * bytes)))) xs ys,
  Permutation xs ys -> (forall x, In x xs -> dump_equiv (f x) (g x)) -> dump_equiv (flat_map f xs) (flat_map g ys).
Proof.
  intros f g xs ys P H. apply (dump_equiv_perm_l _ (flat_map f ys)); [apply Permutation_flat_map; exact P|].
  assert (H' : forall x, In x ys -> dump_equiv (f x) (g x)) by (intros x Hx; apply H; eapply Permutation_in; [apply Permutation_sym; exact P|exact Hx]).
  clear H P. induction ys as [|y ys IH]; cbn [flat_map]; [apply dump_equiv_refl|].
  apply dump_equiv_app; [apply H'; left; reflexivity|apply IH; intros x Hx; apply H'; right; exact Hx].
Qed.
Definition res_equiv (a b : res) : Prop :=
  match a, b with
  | REntries l, REntries l' => Permutation l l'
  | RNames l, RNames l' => Permutation l l'
  | RDump l, RDump l' => dump_equiv l l'
  | _, _ => a = b
  end.
Lemma res_equiv_refl : forall a, res_equiv a a.
Proof. intros [] ; cbn; auto using dump_equiv_refl. Qed.

Definition sim_op (o : op) : Prop := forall st ss ss' r, R0 st ss -> op_bytes o -> spec_step ss o = (ss', Spec r) ->
  R0 (fst (step st o)) ss' /\ res_equiv (snd (step st o)) r.

Ltac ropt_cases Hw :=
  match type of Hw with
  | Ropt _ ?a ?b => destruct a; destruct b; cbn [Ropt] in Hw; try contradiction
  end.
Ltac fin1 := first [assumption | exact I | reflexivity | congruence | apply F2_drop; assumption
                    | match goal with H : Rview _ ?c |- Rview _ ?c => exact H end
                    | match goal with HR : R0 _ _ |- Ropt _ _ _ => apply HR end].
Ltac finR Hidx' :=
  split; [first [match goal with HR : R0 _ _ |- _ => exact HR end
                |split; [exact Hidx'|]; cbn; repeat (split; [fin1|]); fin1]
         |reflexivity].

Lemma sim_tx : forall o, match o with
                         | OBegin _ | OCommit | ORollback | OREnd | OUBegin | OUEnd _ | OClose | OReopen | ODeleteTop _ | OBytesPrefix _ => True
                         | _ => False end -> sim_op o.
Proof.
  intros o Ho st ss ss' r HR Hob Hsp. pose proof HR as [Hidx [Rc [Ro [Ru [Rw [Rr [Rb Ri]]]]]]].
  pose proof (step_idx_inv true st o Hidx Hob) as Hidx'. unfold step in *.
  destruct o; try contradiction; cbn [spec_step] in Hsp; unfold step_gen in *.
  - (* OBegin *) destruct w.
    + ropt_cases Rw; [inversion Hsp; subst; finR Hidx'|]. rewrite <- Ro in Hsp.
      destruct (st_open st) eqn:Eo; inversion Hsp; subst; finR Hidx'.
    + ropt_cases Rr; [inversion Hsp; subst; finR Hidx'|]. rewrite <- Ro in Hsp.
      destruct (st_open st) eqn:Eo; inversion Hsp; subst; finR Hidx'.
  - (* OCommit *) ropt_cases Rw; [|inversion Hsp; subst; finR Hidx']. rewrite <- Ru in Hsp.
    destruct (st_upd st) eqn:Eu; inversion Hsp; subst; finR Hidx'.
  - (* ORollback *) ropt_cases Rw; [|inversion Hsp; subst; finR Hidx']. rewrite <- Ru in Hsp.
    destruct (st_upd st) eqn:Eu; inversion Hsp; subst; finR Hidx'.
  - (* OREnd *) ropt_cases Rr; inversion Hsp; subst; finR Hidx'.
  - (* OUBegin *) ropt_cases Rw; [inversion Hsp; subst; finR Hidx'|]. rewrite <- Ro in Hsp.
    destruct (st_open st) eqn:Eo; inversion Hsp; subst; finR Hidx'.
  - (* OUEnd *) ropt_cases Rw; [|inversion Hsp; subst; finR Hidx']. rewrite <- Ru in Hsp.
    destruct (st_upd st) eqn:Eu; [destruct fail|]; inversion Hsp; subst; finR Hidx'.
  - (* OClose *) ropt_cases Rw; ropt_cases Rr; try (inversion Hsp; subst; finR Hidx'). rewrite <- Ro in Hsp.
    destruct (st_open st) eqn:Eo; inversion Hsp; subst; finR Hidx'.
  - (* OReopen *) ropt_cases Rw; ropt_cases Rr; inversion Hsp; subst; finR Hidx'.
  - (* ODeleteTop *) ropt_cases Rw; inversion Hsp; subst; finR Hidx'.
  - (* OBytesPrefix *) destruct (bytes_prefix p) as [a l]. inversion Hsp; subst. finR Hidx'.
Qed.

(* the view of an open transaction, on both sides *)
Definition Rtx (st : state) (ss : sstate) (w : bool) (vs : store) (ob : option batch) (c : content) : Prop :=
  Rview (sget (view_store vs ob)) c /\ keys_sorted vs /\ store_ok vs /\ obwf ob /\ obatch_ok ob /\
  (if w then vs = st_store st /\ exists b, ob = Some b /\ st_wtx st = Some b /\ s_pending ss = Some c else ob = None).
Lemma tx_sim : forall st ss w, R0 st ss ->
  match tx_view true st w, s_view ss w with
  | None, None => True
  | Some (vs, ob), Some c => Rtx st ss w vs ob c
  | _, _ => False
  end.
Proof.
  intros st ss w [[[I1 [I2 I3]] [J1 [J2 [J3 _]]]] [Rc [Ro [Ru [Rw [Rr _]]]]]]. unfold tx_view, s_view. destruct w.
  - destruct (st_wtx st) as [b|] eqn:Eb; destruct (s_pending ss) as [c|] eqn:Ec; cbn [Ropt] in Rw; try contradiction; [|exact I].
    unfold Rtx. split; [exact Rw|]. split; [exact I1|]. split; [exact J1|]. split; [exact I2|]. split; [exact J2|]. split; [reflexivity|]. exists b. auto.
  - destruct (st_rtx st) as [s0|] eqn:Eb; destruct (s_snapshot ss) as [c|] eqn:Ec; cbn [Ropt] in Rr; try contradiction; [|exact I].
    unfold Rtx. split; [exact Rr|]. split; [exact I3|]. split; [exact J3|]. split; [exact I|]. split; [exact I|]. reflexivity.
Qed.
Lemma slot_sim : forall st ss src, R0 st ss ->
  match slot_view true st src, s_slot ss src with
  | None, None => True
  | Some (w, h, vs, ob), Some (w', p, c) => w = w' /\ hnd h p /\ Rtx st ss w vs ob c
  | _, _ => False
  end.
Proof.
  intros st ss src HR. pose proof HR as [_ [_ [_ [_ [_ [_ [Rb _]]]]]]].
  assert (Hg : @Rsl handle path hnd (get_slot src (st_bs st)) (@get_slot (bool * path) src (s_bs ss))) by exact (F2_get hnd src _ _ Rb).
  unfold slot_view, s_slot. unfold Rsl in Hg.
  destruct (get_slot src (st_bs st)) as [[w h]|]; destruct (get_slot src (s_bs ss)) as [[w' p]|]; try contradiction; [|exact I].
  destruct Hg as [<- Hh]. pose proof (tx_sim st ss w HR) as Ht.
  destruct (tx_view true st w) as [[vs ob]|]; destruct (s_view ss w) as [c|]; try contradiction; [|exact I]. auto.
Qed.

Lemma m_get_put {V} : forall k' k (v : V) m, m_get k' (m_put k v m) = if beqb k' k then Some v else m_get k' m.
Proof.
  intros. destruct (beqb k' k) eqn:E; [apply beqb_true_iff in E; subst; apply m_get_put_same|].
  apply m_get_put_other. apply beqb_false_iff. exact E.
Qed.
Lemma m_get_del {V} : forall k' k (m : amap V), m_get k' (m_del k m) = if beqb k' k then None else m_get k' m.
Proof.
  intros. destruct (beqb k' k) eqn:E; [apply beqb_true_iff in E; subst; apply m_get_del_same|].
  apply m_get_del_other. apply beqb_false_iff. exact E.
Qed.

(* R0 after a write of the open write transaction: only the batch / the working copy changed *)
Lemma R_write : forall st ss b' c', R0 st ss -> idx_inv (with_batch st (Some b')) -> st_wtx st <> None ->
  Rview (vw (st_store st) b') c' -> R0 (with_batch st (Some b')) (s_with_pending ss (Some c')).
Proof.
  intros st ss b' c' [_ [Rc [Ro [Ru [Rw [Rr [Rb Ri]]]]]]] Hidx' Hne HV.
  split; [exact Hidx'|]. cbn. repeat (split; [assumption|]). assumption.
Qed.

Lemma R_same_batch : forall st ss b, R0 st ss -> st_wtx st = Some b -> idx_inv (with_batch st (Some b)) ->
  R0 (with_batch st (Some b)) ss.
Proof.
  intros st ss b [_ [Rc [Ro [Ru [Rw [Rr [Rb Ri]]]]]]] E Hidx'. rewrite E in Rw.
  split; [exact Hidx'|]. cbn. repeat (split; [assumption|]). assumption.
Qed.
Ltac same HR Hidx' := split; [first [exact HR | apply R_same_batch; [exact HR|assumption|exact Hidx']] | reflexivity].

Lemma sim_write : forall o, match o with OPut _ _ _ | ODel _ _ | OClear _ => True | _ => False end -> sim_op o.
Proof.
  intros o Ho st ss ss' r HR Hob Hsp. pose proof HR as [Hidx _].
  pose proof (step_idx_inv true st o Hidx Hob) as Hidx'. unfold step in *.
  destruct o; try contradiction; cbn [spec_step] in Hsp; unfold step_gen in *;
    pose proof (slot_sim st ss src HR) as Hs;
    (destruct (slot_view true st src) as [[[[w h] vs] ob]|]; destruct (s_slot ss src) as [[[w' p] c]|]; try contradiction;
     [|inversion Hsp; subst; split; [exact HR|reflexivity]]);
    destruct Hs as [<- [Hh [HV [Hsort [Hok [Hwf [Hbok Hw]]]]]]]; destruct w;
    try (subst ob; inversion Hsp; subst; split; [exact HR|reflexivity]);
    destruct Hw as [-> [b [-> [Ewtx Epend]]]]; cbn [view_store] in HV; pose proof Hh as [Hn [Hpath _]];
    assert (Hne : st_wtx st <> None) by congruence.
  - (* OPut *) unfold bucket_put in *. destruct v as [|v0 v]; [inversion Hsp; subst; same HR Hidx'|].
    destruct k as [|k0 k]; [inversion Hsp; subst; same HR Hidx'|].
    destruct (has_bucket c p) eqn:Ehb; [|discriminate]. inversion Hsp; subst. cbn [fst snd store_batch res_of_unit] in *.
    split; [|reflexivity]. apply R_write; auto. rewrite Hpath.
    apply (Rview_data (vw (st_store st) b) _ c p (k0 :: k) (Some (v0 :: v))); auto.
    + intros key. apply vw_put.
    + apply m_put_sorted. apply HV.
    + intros k'. apply m_get_put.
  - (* ODel *) unfold bucket_delete in *. destruct k as [|k0 k]; [inversion Hsp; subst; same HR Hidx'|].
    inversion Hsp; subst. cbn [fst snd store_batch res_of_unit] in *.
    split; [|reflexivity]. apply R_write; auto. rewrite Hpath.
    apply (Rview_data (vw (st_store st) b) _ c p (k0 :: k) None); auto.
    + intros key. apply vw_delete.
    + apply m_del_sorted. apply HV.
    + intros k'. apply m_get_del.
  - (* OClear *) unfold clear in *. inversion Hsp; subst. cbn [fst snd store_batch res_of_unit] in *.
    split; [|reflexivity]. apply R_write; auto.
    apply (Rview_clear (vw (st_store st) b) _ c p); auto.
    intros key. rewrite <- Hpath. apply vw_clear_kv; auto. eapply hnd_path_bytes; eauto.
Qed.

Lemma R_set_bs : forall st ss n x x', R0 st ss -> Rsl hnd x x' -> idx_inv (with_bs st (set_nth n x (st_bs st))) ->
  R0 (with_bs st (set_nth n x (st_bs st))) (s_with_bs ss (set_nth n x' (s_bs ss))).
Proof.
  intros st ss n x x' [_ [Rc [Ro [Ru [Rw [Rr [Rb Ri]]]]]]] Hx Hidx'.
  split; [exact Hidx'|]. cbn. repeat (split; [assumption|]). split; [apply F2_set; assumption|assumption].
Qed.
Lemma R_set_is : forall st ss n x x', R0 st ss -> Rsl Riter x x' -> idx_inv (with_is st (set_nth n x (st_is st))) ->
  R0 (with_is st (set_nth n x (st_is st))) (s_with_is ss (set_nth n x' (s_is ss))).
Proof.
  intros st ss n x x' [_ [Rc [Ro [Ru [Rw [Rr [Rb Ri]]]]]]] Hx Hidx'.
  split; [exact Hidx'|]. cbn. repeat (split; [assumption|]). apply F2_set; assumption.
Qed.

Lemma gbp_empty : forall pl ents, gbp_committed (Some empty_batch) pl ents = gbp_committed None pl ents.
Proof. induction ents as [|[k v] r IH]; cbn [gbp_committed]; [reflexivity|]. rewrite IH. reflexivity. Qed.
Lemma gbp_none : forall s h pre, get_by_prefix s None h pre = get_by_prefix s (Some empty_batch) h pre.
Proof.
  intros. unfold get_by_prefix. rewrite gbp_empty. destruct (gbp_committed None _ _) as [es set]. cbn. rewrite app_nil_r. reflexivity.
Qed.

Lemma sim_read : forall o, match o with OGet _ _ | OPfx _ _ => True | _ => False end -> sim_op o.
Proof.
  intros o Ho st ss ss' r HR Hob Hsp. unfold step in *.
  destruct o; try contradiction; cbn [spec_step] in Hsp; unfold step_gen in *;
    pose proof (slot_sim st ss src HR) as Hs;
    (destruct (slot_view true st src) as [[[[w h] vs] ob]|]; destruct (s_slot ss src) as [[[w' q] c]|]; try contradiction;
     [|inversion Hsp; subst; split; [exact HR|reflexivity]]);
    destruct Hs as [<- [Hh [HV [Hsort [Hok [Hwf [Hbok Hw]]]]]]]; pose proof Hh as [Hn [Hpath _]]; pose proof HV as [_ [R2 R3]].
  - (* OGet *) destruct k as [|k0 k]; [inversion Hsp; subst; split; [exact HR|reflexivity]|].
    assert (E : bucket_get vs ob h (k0 :: k) = m_get (k0 :: k) (entries c q)).
    { rewrite (R2 q _ Hn). unfold kvf, sget. rewrite <- Hpath. destruct ob as [b|].
      - apply read_your_writes_get; [apply Hwf|discriminate].
      - apply read_only_get. discriminate. }
    rewrite E. destruct (m_get (k0 :: k) (entries c q)); inversion Hsp; subst; split; try exact HR; reflexivity.
  - (* OPfx *) inversion Hsp; subst. split; [exact HR|]. cbn [snd res_equiv].
    assert (Hb : keys_bytes vs) by (apply store_ok_keys_bytes; exact Hok).
    assert (Hp : bytes_ok (h_path h)) by (eapply hnd_path_bytes; eauto).
    assert (G : exists b, batch_wf b /\ get_by_prefix vs ob h p = get_by_prefix vs (Some b) h p /\
                          forall key, s_get key (view_store vs ob) = s_get key (apply_log vs (b_log b))).
    { destruct ob as [b|]; [exists b; auto|]. exists empty_batch. split; [apply batch_wf_empty|]. split; [apply gbp_none|reflexivity]. }
    destruct G as [b [Hwfb [-> Hv]]].
    apply NoDup_Permutation.
    + eapply NoDup_map_inv. apply get_by_prefix_nodup; auto.
    + eapply NoDup_map_inv. apply sorted_nodup_keys. apply (@filter_sorted bytes). apply R3.
    + intros [k' v]. rewrite (read_your_writes_prefix vs b h p Hsort Hb Hwfb Hp Hob k' v).
      rewrite filter_In. cbn [fst]. rewrite (sorted_get_in _ k' v (R3 q)), (R2 q _ Hn). unfold kvf, sget. rewrite Hv, Hpath. tauto.
Qed.

Lemma sim_top : forall o, match o with OTop _ _ _ | OCreateTop _ _ => True | _ => False end -> sim_op o.
Proof.
  intros o Ho st ss ss' r HR Hob Hsp. pose proof HR as [Hidx [Rc _]].
  pose proof (step_idx_inv true st o Hidx Hob) as Hidx'. unfold step in *.
  destruct o; try contradiction; cbn [spec_step] in Hsp; unfold step_gen in *; cbn [op_bytes] in Hob.
  - (* OTop *) pose proof (tx_sim st ss w HR) as Ht.
    destruct (tx_view true st w) as [[vs ob]|]; destruct (s_view ss w) as [c|]; try contradiction;
      [|inversion Hsp; subst; split; [exact HR|reflexivity]].
    destruct Ht as [HV [Hsort [Hok [Hwf [Hbok Hw]]]]]. pose proof HV as [R1 _].
    unfold top_level_bucket in *. unfold s_lookup, s_put_slot in Hsp. rewrite top_path_is_path_of in *.
    assert (Hex : bucket_exists vs ob (index_key (path_of [name])) = true -> names_ok [name]).
    { intros E. destruct (bucket_exists_entry _ _ _ Hok Hbok E) as [v Hv]. apply entry_ok_index_key in Hv.
      rewrite <- top_path_is_path_of in Hv. eapply top_index_entry_name; eauto. }
    destruct (has_bucket c [name]) eqn:Ehb.
    + apply R1 in Ehb. destruct Ehb as [Hn Hbk].
      assert (E : bucket_exists vs ob (index_key (path_of [name])) = true) by (apply bucket_exists_char; [exact Hwf|right; exact Hbk]).
      rewrite E in *. inversion Hsp; subst. cbn [put_handle fst snd] in *. split; [|reflexivity].
      apply R_set_bs; auto. split; [reflexivity|]. split; [exact Hn|split; reflexivity].
    + destruct (bucket_exists vs ob (index_key (path_of [name]))) eqn:E.
      * exfalso. pose proof (Hex eq_refl) as Hn. apply bucket_exists_char in E; [|exact Hwf].
        assert (Hnv : ~ bkf (sget (view_store vs ob)) [name]).
        { intros Hbk. assert (X : has_bucket c [name] = true) by (apply R1; auto). congruence. }
        destruct E as [E|E]; [|exact (Hnv E)]. destruct w.
        -- destruct Hw as [-> _]. assert (X : has_bucket (s_committed ss) [name] = true) by (apply Rc; split; [exact Hn|exact E]).
           rewrite X in Hsp. cbn in Hsp. inversion Hsp.
        -- subst ob. exact (Hnv E).
      * destruct (w && has_bucket (s_committed ss) [name]); [inversion Hsp|]. inversion Hsp; subst.
        cbn [put_handle fst snd] in *. split; [|reflexivity]. apply R_set_bs; auto; exact I.
  - (* OCreateTop *) pose proof HR as [_ [_ [_ [_ [Rw _]]]]].
    destruct (st_wtx st) as [b|] eqn:Ewtx; destruct (s_pending ss) as [c|] eqn:Epend; cbn [Ropt] in Rw; try contradiction;
      [|inversion Hsp; subst; split; [exact HR|reflexivity]].
    destruct Hidx as [[Isort [Iwf _]] [Iok [Ibok _]]]. rewrite Ewtx in Iwf, Ibok. cbn [obwf obatch_ok] in Iwf, Ibok.
    unfold create_top_level in *. destruct (is_valid_bucket_name name) eqn:Ev; cbn [negb] in *.
    2:{ inversion Hsp; subst. same HR Hidx'. }
    assert (Hn : names_ok [name]) by (apply names_ok_one; assumption).
    rewrite top_path_is_path_of in *. unfold create_index in *. set (key := index_key (path_of [name])) in *.
    assert (Hc1 : has_bucket (s_committed ss) [name] = true <-> s_get key (st_store st) <> None).
    { rewrite (proj1 Rc [name]). unfold bkf, sget. fold key. tauto. }
    assert (Hc2 : has_bucket c [name] = true <-> vw (st_store st) b key <> None).
    { rewrite (proj1 Rw [name]). unfold bkf. fold key. tauto. }
    assert (Hcreate : R0 (fst (with_bs (with_batch st (Some (batch_put b key name))) (set_nth dst (Some (true, mkHandle (path_of [name]) 1)) (st_bs st)), ROk))
                        (s_with_bs (s_with_pending ss (Some (add_bucket c [name]))) (set_nth dst (Some (true, [name])) (s_bs ss))) ->
                      R0 (fst (with_bs (with_batch st (Some (batch_put b key name))) (set_nth dst (Some (true, mkHandle (path_of [name]) 1)) (st_bs st)), ROk))
                        (s_with_bs (s_with_pending ss (Some (add_bucket c [name]))) (set_nth dst (Some (true, [name])) (s_bs ss)))) by auto.
    assert (Hmk : idx_inv (with_bs (with_batch st (Some (batch_put b key name))) (set_nth dst (Some (true, mkHandle (path_of [name]) 1)) (st_bs st))) ->
                  R0 (with_bs (with_batch st (Some (batch_put b key name))) (set_nth dst (Some (true, mkHandle (path_of [name]) 1)) (st_bs st)))
                    (s_with_bs (s_with_pending ss (Some (add_bucket c [name]))) (set_nth dst (Some (true, [name])) (s_bs ss)))).
    { intros Hi'. destruct HR as [_ [Rc' [Ro [Ru [_ [Rr [Rb Ri]]]]]]]. split; [exact Hi'|]. cbn.
      split; [assumption|]. split; [assumption|]. split; [assumption|].
      split; [apply (Rview_create (vw (st_store st) b) _ c [name] name Rw Hn); intros k; apply vw_put|].
      split; [assumption|]. split; [|assumption]. apply F2_set; [assumption|]. split; [reflexivity|]. split; [exact Hn|split; reflexivity]. }
    clear Hcreate.
    destruct (s_get key (st_store st)) as [x|] eqn:Es.
    + assert (X1 : has_bucket (s_committed ss) [name] = true) by (apply Hc1; discriminate). rewrite X1 in Hsp. cbn [andb] in Hsp.
      assert (Hv : vw (st_store st) b key = match batch_view b key with Some o => o | None => Some x end).
      { unfold vw. rewrite commit_get by apply Iwf. rewrite Es. reflexivity. }
      unfold batch_view in Hv.
      destruct (batch_get_shape b key) as [E|[E|[v E]]]; rewrite E in *; cbn [snd fst] in *.
      * assert (X2 : has_bucket c [name] = false).
        { destruct (has_bucket c [name]) eqn:Eh; [|reflexivity]. exfalso. apply (proj1 Hc2 eq_refl). congruence. }
        rewrite X2 in Hsp. inversion Hsp; subst. split; [|reflexivity]. apply Hmk. exact Hidx'.
      * assert (X2 : has_bucket c [name] = true) by (apply Hc2; rewrite Hv; discriminate).
        rewrite X2 in Hsp. inversion Hsp; subst. same HR Hidx'.
      * assert (X2 : has_bucket c [name] = true) by (apply Hc2; rewrite Hv; discriminate).
        rewrite X2 in Hsp. inversion Hsp; subst. same HR Hidx'.
    + assert (X1 : has_bucket (s_committed ss) [name] = false).
      { destruct (has_bucket (s_committed ss) [name]) eqn:Eh; [|reflexivity]. exfalso. apply (proj1 Hc1 eq_refl). reflexivity. }
      rewrite X1 in Hsp. cbn [andb] in Hsp. inversion Hsp; subst. split; [|reflexivity]. apply Hmk. exact Hidx'.
Qed.

Lemma sim_iter : forall o, match o with OIter _ _ _ _ _ | OSeek _ _ | ONext _ | ORelease _ => True | _ => False end -> sim_op o.
Proof.
  intros o Ho st ss ss' r HR Hob Hsp. pose proof HR as [Hidx [_ [_ [_ [_ [_ [_ Ri]]]]]]].
  pose proof (step_idx_inv true st o Hidx Hob) as Hidx'. unfold step in *.
  destruct o; try contradiction; cbn [spec_step] in Hsp; unfold step_gen in *.
  - (* OIter *) pose proof (slot_sim st ss src HR) as Hs.
    destruct (slot_view true st src) as [[[[w h] vs] ob]|]; destruct (s_slot ss src) as [[[w' p] c]|]; try contradiction;
      [|inversion Hsp; subst; split; [exact HR|reflexivity]].
    destruct Hs as [<- [Hh [HV [Hsort [Hok [Hwf [Hbok Hw]]]]]]]. inversion Hsp; subst.
    pose proof (iter_new_sim vs ob h p c mode start limit Hsort Hok Hwf Hbok Hh HV) as Hit.
    destruct mode as [|[|m]]; cbn [iter_bounds fst snd] in Hit;
      [| |destruct (bytes_prefix start) as [a [l|]]; cbn [fst snd] in Hit];
      cbn [fst snd] in *; (split; [|reflexivity]); apply R_set_is; auto; split; auto.
  - (* OSeek *) assert (Hg : Rsl Riter (get_slot i (st_is st)) (get_slot i (s_is ss))) by exact (F2_get Riter i _ _ Ri).
    unfold Rsl in Hg. destruct (get_slot i (st_is st)) as [[w it]|]; destruct (get_slot i (s_is ss)) as [[w' si]|]; try contradiction;
      [|inversion Hsp; subst; split; [exact HR|reflexivity]].
    destruct Hg as [<- Hit]. destruct (iter_seek_sim it si k Hit) as [H1 H2]. destruct (iter_seek it k) as [b it']. cbn [fst snd] in *.
    inversion Hsp; subst. split; [|rewrite H2; apply res_equiv_refl]. apply R_set_is; auto. split; auto.
  - (* ONext *) assert (Hg : Rsl Riter (get_slot i (st_is st)) (get_slot i (s_is ss))) by exact (F2_get Riter i _ _ Ri).
    unfold Rsl in Hg. destruct (get_slot i (st_is st)) as [[w it]|]; destruct (get_slot i (s_is ss)) as [[w' si]|]; try contradiction;
      [|inversion Hsp; subst; split; [exact HR|reflexivity]].
    destruct Hg as [<- Hit]. destruct (iter_next_sim it si Hit) as [H1 H2]. destruct (iter_next it) as [b it']. cbn [fst snd] in *.
    inversion Hsp; subst. split; [|rewrite H2; apply res_equiv_refl]. apply R_set_is; auto. split; auto.
  - (* ORelease *) assert (Hg : Rsl Riter (get_slot i (st_is st)) (get_slot i (s_is ss))) by exact (F2_get Riter i _ _ Ri).
    unfold Rsl in Hg. destruct (get_slot i (st_is st)) as [[w it]|]; destruct (get_slot i (s_is ss)) as [[w' si]|]; try contradiction;
      [|inversion Hsp; subst; split; [exact HR|reflexivity]].
    inversion Hsp; subst. cbn [fst snd] in *. split; [|reflexivity]. apply R_set_is; auto; exact I.
Qed.

(* ------------------------------------------------------------------ nested buckets: the specification's helpers *)
Lemma is_prefix_iff : forall q p, is_prefix q p = true <-> exists r, p = q ++ r.
Proof.
  induction q as [|a q IH]; intros p; cbn [is_prefix].
  - split; [intros _; exists p; reflexivity|reflexivity].
  - destruct p as [|b p]; [split; [discriminate|intros [r E]; discriminate]|].
    rewrite andb_true_iff, beqb_true_iff, IH. split.
    + intros [-> [r ->]]. exists r. reflexivity.
    + intros [r E]. cbn in E. inversion E. eauto.
Qed.
Lemma is_prefix_app : forall q r, is_prefix q (q ++ r) = true.
Proof. intros. apply is_prefix_iff. eauto. Qed.
Lemma child_of_iff : forall p q n, child_of p q = Some n <-> q = p ++ [n].
Proof.
  induction p as [|a p IH]; intros q n; cbn [child_of app].
  - destruct q as [|x [|y q]]; split; intros H; try discriminate; inversion H; reflexivity.
  - destruct q as [|b q]; [split; discriminate|]. destruct (beqb a b) eqn:E.
    + apply beqb_true_iff in E. subst b. rewrite IH. split; [intros ->; reflexivity|intros H; inversion H; reflexivity].
    + split; [discriminate|]. intros H. inversion H. subst. rewrite beqb_refl in E. discriminate.
Qed.
Lemma dedup_in : forall l x, In x (dedup l) <-> In x l.
Proof.
  induction l as [|y l IH]; intros x; cbn [dedup]; [tauto|]. destruct (existsb (beqb y) l) eqn:E.
  - rewrite IH. cbn [In]. split; [auto|]. intros [<-|H]; [apply existsb_beqb_in; exact E|exact H].
  - cbn [In]. rewrite IH. tauto.
Qed.
Lemma dedup_nodup : forall l, NoDup (dedup l).
Proof.
  induction l as [|y l IH]; cbn [dedup]; [constructor|]. destruct (existsb (beqb y) l) eqn:E; [exact IH|].
  constructor; [|exact IH]. rewrite dedup_in. intros H. apply existsb_beqb_in in H. congruence.
Qed.
Lemma children_iff : forall c p n, In n (children c p) <-> has_bucket c (p ++ [n]) = true.
Proof.
  intros c p n. unfold children. rewrite dedup_in, in_flat_map, has_bucket_iff. split.
  - intros [q [Hq Hn]]. destruct (child_of p q) as [m|] eqn:E; [|destruct Hn]. destruct Hn as [<-|[]].
    apply child_of_iff in E. subst q. exact Hq.
  - intros H. exists (p ++ [n]). split; [exact H|]. rewrite (proj2 (child_of_iff p (p ++ [n]) n) eq_refl). left. reflexivity.
Qed.
Lemma has_bucket_remove : forall c q p, has_bucket (remove_tree c q) p = true <-> has_bucket c p = true /\ is_prefix q p = false.
Proof.
  intros c q p. rewrite !has_bucket_iff. unfold remove_tree. cbn [c_bk]. rewrite filter_In, negb_true_iff. tauto.
Qed.
Lemma entries_remove : forall c q p, entries (remove_tree c q) p = if is_prefix q p then [] else entries c p.
Proof.
  intros c q p. unfold entries, remove_tree. cbn [c_kv]. induction (c_kv c) as [|[q0 m] l IH]; cbn [filter kv_lookup fst].
  - destruct (is_prefix q p); reflexivity.
  - destruct (is_prefix q q0) eqn:E0; cbn [negb kv_lookup].
    + rewrite IH. destruct (is_prefix q p) eqn:Ep; [reflexivity|]. destruct (path_eqb p q0) eqn:Epq; [|reflexivity].
      apply path_eqb_iff in Epq. congruence.
    + destruct (path_eqb p q0) eqn:Epq.
      * apply path_eqb_iff in Epq. subst q0. rewrite E0. reflexivity.
      * exact IH.
Qed.
Lemma height_ge : forall c q ms, has_bucket c (q ++ ms) = true -> (length ms <= height c q)%nat.
Proof.
  intros c q ms H. apply has_bucket_iff in H. unfold height.
  assert (F : Forall (fun k => k <= list_max (map (fun p => if is_prefix q p then length p - length q else 0) (c_bk c)))%nat
                (map (fun p => if is_prefix q p then length p - length q else 0)%nat (c_bk c))) by (apply list_max_le; lia).
  rewrite Forall_forall in F. specialize (F (length ms)). apply F. apply in_map_iff. exists (q ++ ms). split; [|exact H].
  rewrite is_prefix_app, app_length. lia.
Qed.
Lemma closed_prefix : forall c, cclosed c -> forall r q, q <> [] -> has_bucket c (q ++ r) = true -> has_bucket c q = true.
Proof.
  intros c [H1 _]. induction r as [|x r IH] using rev_ind; intros q Hq H; [rewrite app_nil_r in H; exact H|].
  rewrite app_assoc in H. apply H1 in H; [|intros E; apply app_eq_nil in E; destruct E; congruence]. apply IH; auto.
Qed.
Lemma closed_chain : forall f c, Rview f c -> cclosed c -> forall ms q, q <> [] -> has_bucket c (q ++ ms) = true -> chain f q ms.
Proof.
  intros f c [R1 _] Hc. induction ms as [|m ms IH]; intros q Hq H; cbn [chain]; [exact I|].
  replace (q ++ m :: ms) with ((q ++ [m]) ++ ms) in H by (rewrite <- app_assoc; reflexivity).
  assert (Hm : has_bucket c (q ++ [m]) = true) by (apply (closed_prefix c Hc ms); [destruct q; discriminate|exact H]).
  split; [apply R1 in Hm; apply Hm|]. apply IH; [destruct q; discriminate|exact H].
Qed.

(* the invariant of the specification's states *)
Lemma m_get_nonempty {V} : forall k (m : amap V) v, m_get k m = Some v -> m <> [].
Proof. intros k m v H E. subst m. discriminate. Qed.
Lemma cclosed_empty : cclosed empty_content.
Proof. split; [intros p n H; discriminate|intros p H; exfalso; apply H; reflexivity]. Qed.
Lemma cclosed_add : forall c p n, cclosed c -> (p = [] \/ has_bucket c p = true) -> cclosed (add_bucket c (p ++ [n])).
Proof.
  intros c p n [H1 H2] Hp. split.
  - intros p' n' H Hne. apply has_bucket_add. apply has_bucket_add in H. destruct H as [H|H].
    + left. apply (H1 p' n'); auto.
    + apply app_inj_tail in H. destruct H as [-> _]. left. destruct Hp; [congruence|assumption].
  - intros p' H. rewrite entries_add in H. apply has_bucket_add. left. apply H2. exact H.
Qed.
Lemma cclosed_set : forall c p m, cclosed c -> (m <> [] -> has_bucket c p = true) -> cclosed (set_entries c p m).
Proof.
  intros c p m [H1 H2] Hm. split.
  - intros p' n'. rewrite !has_bucket_set. apply H1.
  - intros p'. rewrite entries_set, has_bucket_set. destruct (path_eqb p' p) eqn:E; [|apply H2].
    apply path_eqb_iff in E. subst p'. exact Hm.
Qed.
Lemma cclosed_remove : forall c q, cclosed c -> cclosed (remove_tree c q).
Proof.
  intros c q [H1 H2]. split.
  - intros p n H Hne. apply has_bucket_remove in H. destruct H as [H Hp]. apply has_bucket_remove. split; [apply (H1 p n); auto|].
    destruct (is_prefix q p) eqn:E; [|reflexivity]. apply is_prefix_iff in E. destruct E as [r ->].
    rewrite <- app_assoc, is_prefix_app in Hp. discriminate.
  - intros p. rewrite entries_remove. destruct (is_prefix q p) eqn:E; [intros H; exfalso; apply H; reflexivity|].
    intros H. apply has_bucket_remove. split; [apply H2; exact H|exact E].
Qed.
Lemma m_del_nil {V} : forall k (m : amap V), m_del k m <> [] -> m <> [].
Proof. intros k m H E. subst m. apply H. reflexivity. Qed.
Lemma s_slot_w : forall ss src p c, s_slot ss src = Some (true, p, c) -> s_pending ss = Some c.
Proof.
  intros ss src p c H. unfold s_slot in H. destruct (get_slot src (s_bs ss)) as [[w q]|]; [|discriminate].
  destruct (s_view ss w) as [c'|] eqn:E; [|discriminate]. inversion H; subst. exact E.
Qed.
Lemma sinv_pending : forall ss c, sinv ss -> cclosed c -> sinv (s_with_pending ss (Some c)).
Proof. intros ss c [H1 [H2 H3]] Hc. split; [exact H1|]. split; [exact Hc|exact H3]. Qed.
Lemma sinv_lookup : forall ss w c dst p ss' r, sinv ss -> s_lookup ss w c dst p = (ss', Spec r) -> sinv ss'.
Proof.
  intros ss w c dst p ss' r H Hs. unfold s_lookup, s_put_slot in Hs.
  destruct (has_bucket c p); [inversion Hs; subst; exact H|].
  destruct (w && has_bucket (s_committed ss) p); inversion Hs; subst; exact H.
Qed.
Lemma sinv_init : sinv spec_init.
Proof. split; [exact cclosed_empty|split; exact I]. Qed.

Lemma spec_step_sinv : forall ss o ss' r, sinv ss -> spec_step ss o = (ss', Spec r) -> sinv ss'.
Proof.
  intros ss o ss' r H Hs. pose proof H as [H1 [H2 H3]].
  destruct o; cbn [spec_step] in Hs.
  - (* OBegin *) destruct w.
    + destruct (s_pending ss); [inversion Hs; subst; exact H|]. destruct (s_isopen ss); inversion Hs; subst; [|exact H].
      split; [exact H1|split; [exact H1|exact H3]].
    + destruct (s_snapshot ss); [inversion Hs; subst; exact H|]. destruct (s_isopen ss); inversion Hs; subst; [|exact H].
      split; [exact H1|split; [exact H2|exact H1]].
  - (* OCommit *) destruct (s_pending ss) as [c|]; [|inversion Hs; subst; exact H].
    destruct (s_inupd ss); inversion Hs; subst; [exact H|]. split; [exact H2|split; [exact I|exact H3]].
  - (* ORollback *) destruct (s_pending ss) as [c|]; [|inversion Hs; subst; exact H].
    destruct (s_inupd ss); inversion Hs; subst; [exact H|]. split; [exact H1|split; [exact I|exact H3]].
  - (* OREnd *) destruct (s_snapshot ss); inversion Hs; subst; [|exact H]. split; [exact H1|split; [exact H2|exact I]].
  - (* OUBegin *) destruct (s_pending ss); [inversion Hs; subst; exact H|]. destruct (s_isopen ss); inversion Hs; subst; [|exact H].
    split; [exact H1|split; [exact H1|exact H3]].
  - (* OUEnd *) destruct (s_pending ss) as [c|]; [|inversion Hs; subst; exact H].
    destruct (s_inupd ss); [destruct fail|]; inversion Hs; subst; try exact H.
    + split; [exact H1|split; [exact I|exact H3]].
    + split; [exact H2|split; [exact I|exact H3]].
  - (* OClose *) destruct (s_pending ss); destruct (s_snapshot ss); try (inversion Hs; subst; exact H).
    destruct (s_isopen ss); inversion Hs; subst; exact H.
  - (* OReopen *) destruct (s_pending ss); destruct (s_snapshot ss); inversion Hs; subst; exact H.
  - (* ODump *) destruct (s_isopen ss); inversion Hs; subst; exact H.
  - (* OTop *) destruct (s_view ss w); [eapply sinv_lookup; eauto|inversion Hs; subst; exact H].
  - (* OCreateTop *) destruct (s_pending ss) as [c|] eqn:Ep; [|inversion Hs; subst; exact H].
    destruct (negb (is_valid_bucket_name name)); [inversion Hs; subst; exact H|].
    destruct (has_bucket (s_committed ss) [name] && has_bucket c [name]); inversion Hs; subst; [exact H|].
    split; [exact H1|split; [|exact H3]]. apply (cclosed_add c [] name); auto.
  - (* ODeleteTop *) destruct (s_pending ss); inversion Hs; subst; exact H.
  - (* OTxNames *) destruct (s_view ss w); inversion Hs; subst; exact H.
  - (* OFetch *) destruct (s_view ss w); [|inversion Hs; subst; exact H].
    destruct (get_slot src (s_bs ss)) as [[w' p]|]; [eapply sinv_lookup; eauto|inversion Hs; subst; exact H].
  - (* ONew *) destruct (s_slot ss src) as [[[[|] p] c]|] eqn:Es; try (inversion Hs; subst; exact H).
    apply s_slot_w in Es. rewrite Es in H2. cbn [ocl] in H2.
    destruct (negb (is_valid_bucket_name name)); [inversion Hs; subst; exact H|].
    destruct (has_bucket c p) eqn:Ehp; cbn [negb] in Hs; [|discriminate].
    destruct (has_bucket c (p ++ [name])); [destruct (has_bucket (s_committed ss) (p ++ [name])); inversion Hs; subst; exact H|].
    inversion Hs; subst. split; [exact H1|split; [|exact H3]]. apply cclosed_add; auto.
  - (* OBucket *) destruct (s_slot ss src) as [[[w p] c]|]; [eapply sinv_lookup; eauto|inversion Hs; subst; exact H].
  - (* ODelBucket *) destruct (s_slot ss src) as [[[[|] p] c]|] eqn:Es; try (inversion Hs; subst; exact H).
    apply s_slot_w in Es. rewrite Es in H2. cbn [ocl] in H2.
    destruct (delete_fuel <=? height c (p ++ [name]))%nat; inversion Hs; subst.
    apply sinv_pending; [exact H|]. apply cclosed_remove. exact H2.
  - (* ONames *) destruct (s_slot ss src) as [[[w p] c]|]; inversion Hs; subst; exact H.
  - (* OPut *) destruct (s_slot ss src) as [[[[|] p] c]|] eqn:Es; try (inversion Hs; subst; exact H).
    apply s_slot_w in Es. rewrite Es in H2. cbn [ocl] in H2.
    destruct v as [|v0 v]; [inversion Hs; subst; exact H|]. destruct k as [|k0 k]; [inversion Hs; subst; exact H|].
    destruct (has_bucket c p) eqn:Ehp; inversion Hs; subst. apply sinv_pending; [exact H|]. apply cclosed_set; auto.
  - (* ODel *) destruct (s_slot ss src) as [[[[|] p] c]|] eqn:Es; try (inversion Hs; subst; exact H).
    apply s_slot_w in Es. rewrite Es in H2. cbn [ocl] in H2.
    destruct k as [|k0 k]; inversion Hs; subst; [exact H|]. apply sinv_pending; [exact H|]. apply cclosed_set; auto.
    intros Hm. apply H2. eapply m_del_nil. exact Hm.
  - (* OGet *) destruct (s_slot ss src) as [[[w p] c]|]; [|inversion Hs; subst; exact H].
    destruct k; [inversion Hs; subst; exact H|]. destruct (m_get _ _); inversion Hs; subst; exact H.
  - (* OClear *) destruct (s_slot ss src) as [[[[|] p] c]|] eqn:Es; try (inversion Hs; subst; exact H).
    apply s_slot_w in Es. rewrite Es in H2. cbn [ocl] in H2. inversion Hs; subst.
    apply sinv_pending; [exact H|]. apply cclosed_set; auto.
  - (* OPfx *) destruct (s_slot ss src) as [[[w p'] c]|]; inversion Hs; subst; exact H.
  - (* OIter *) destruct (s_slot ss src) as [[[w p] c]|]; inversion Hs; subst; exact H.
  - (* OSeek *) destruct (get_slot i (s_is ss)) as [[w it]|]; inversion Hs; subst; exact H.
  - (* ONext *) destruct (get_slot i (s_is ss)) as [[w it]|]; inversion Hs; subst; exact H.
  - (* ORelease *) destruct (get_slot i (s_is ss)) as [[w it]|]; inversion Hs; subst; exact H.
  - (* OBytesPrefix *) destruct (bytes_prefix p) as [a l]. inversion Hs; subst. exact H.
Qed.

(* ------------------------------------------------------------------ nested buckets: look-up, creation *)
Definition sim_op' (o : op) : Prop := forall st ss ss' r, R0 st ss -> sinv ss -> op_bytes o -> spec_step ss o = (ss', Spec r) ->
  R0 (fst (step st o)) ss' /\ res_equiv (snd (step st o)) r.

Lemma lookup_sim : forall st ss w vs ob c dst p oh ss' r,
  R0 st ss -> Rtx st ss w vs ob c ->
  (forall h, oh = Some h -> hnd h p) ->
  (oh <> None <-> (names_ok p /\ bkf (sget vs) p) \/ (names_ok p /\ bkf (sget (view_store vs ob)) p)) ->
  idx_inv (fst (put_handle st w dst oh)) ->
  s_lookup ss w c dst p = (ss', Spec r) ->
  R0 (fst (put_handle st w dst oh)) ss' /\ res_equiv (snd (put_handle st w dst oh)) r.
Proof.
  intros st ss w vs ob c dst p oh ss' r HR Ht Hh Hoh Hidx' Hsp.
  pose proof HR as [_ [Rc _]]. destruct Ht as [HV [_ [_ [_ [_ Hw]]]]]. pose proof HV as [R1 _].
  unfold s_lookup, s_put_slot in Hsp. destruct (has_bucket c p) eqn:Ehb.
  - apply R1 in Ehb. assert (Hne : oh <> None) by (apply Hoh; right; exact Ehb).
    destruct oh as [h|]; [|congruence]. inversion Hsp; subst. cbn [put_handle fst snd] in *. split; [|reflexivity].
    apply R_set_bs; auto. split; [reflexivity|apply Hh; reflexivity].
  - destruct oh as [h|].
    + exfalso. assert (Hx : Some h <> None) by discriminate. apply Hoh in Hx. destruct Hx as [[Hn Hb]|Hx].
      * destruct w.
        -- destruct Hw as [-> _]. assert (X : has_bucket (s_committed ss) p = true) by (apply Rc; split; [exact Hn|exact Hb]).
           rewrite X in Hsp. cbn in Hsp. discriminate.
        -- subst ob. cbn [view_store] in R1. assert (X : has_bucket c p = true) by (apply R1; split; [exact Hn|exact Hb]). congruence.
      * assert (X : has_bucket c p = true) by (apply R1; exact Hx). congruence.
    + destruct (w && has_bucket (s_committed ss) p); [discriminate|]. inversion Hsp; subst.
      cbn [put_handle fst snd] in *. split; [|reflexivity]. apply R_set_bs; auto; exact I.
Qed.

Lemma names_ok_snoc_iff : forall p name, names_ok p -> bytes_ok name ->
  (names_ok (p ++ [name]) <-> is_valid_bucket_name name = true).
Proof.
  intros p name Hn Hb. split.
  - intros [_ [Hv _]]. apply Forall_app in Hv. destruct Hv as [_ Hv]. inversion Hv; auto.
  - intros Hv. apply names_ok_snoc; auto. apply Hn.
Qed.

Lemma sim_bucket : forall dst src name, sim_op (OBucket dst src name).
Proof.
  intros dst src name st ss ss' r HR Hob Hsp. pose proof HR as [Hidx _].
  pose proof (step_idx_inv true st _ Hidx Hob) as Hidx'. unfold step in *. cbn [spec_step] in Hsp. unfold step_gen in *.
  cbn [op_bytes] in Hob. pose proof (slot_sim st ss src HR) as Hs.
  destruct (slot_view true st src) as [[[[w h] vs] ob]|]; destruct (s_slot ss src) as [[[w' p] c]|]; try contradiction;
    [|inversion Hsp; subst; split; [exact HR|reflexivity]].
  destruct Hs as [<- [Hh Ht]]. pose proof Ht as [_ [_ [Hok [Hwf [Hbok _]]]]].
  apply (lookup_sim st ss w vs ob c dst (p ++ [name]) (bucket vs ob h name)); auto.
  - intros h' E. apply (bucket_some_hnd vs ob h p name h' Hok Hbok Hh E).
  - destruct Hh as [Hn [Hp Hd]]. rewrite (bucket_lookup_char vs ob h p name Hwf Hn Hp Hd). unfold child_exists, bkf, sget.
    rewrite (names_ok_snoc_iff p name Hn Hob). tauto.
Qed.

Lemma sim_fetch : forall w dst src, sim_op (OFetch w dst src).
Proof.
  intros w dst src st ss ss' r HR Hob Hsp. pose proof HR as [Hidx [_ [_ [_ [_ [_ [Rb _]]]]]]].
  pose proof (step_idx_inv true st _ Hidx Hob) as Hidx'. unfold step in *. cbn [spec_step] in Hsp. unfold step_gen in *.
  pose proof (tx_sim st ss w HR) as Ht.
  assert (Hg : @Rsl handle path hnd (get_slot src (st_bs st)) (@get_slot (bool * path) src (s_bs ss))) by exact (F2_get hnd src _ _ Rb).
  unfold Rsl in Hg.
  destruct (tx_view true st w) as [[vs ob]|]; destruct (s_view ss w) as [c|]; try contradiction;
    [|inversion Hsp; subst; split; [exact HR|reflexivity]].
  destruct (get_slot src (st_bs st)) as [[w1 h]|]; destruct (get_slot src (s_bs ss)) as [[w2 p]|]; try contradiction;
    [|inversion Hsp; subst; split; [exact HR|reflexivity]].
  destruct Hg as [_ Hh]. pose proof Ht as [_ [_ [Hok [Hwf [Hbok _]]]]]. pose proof Hh as [Hn [Hp Hd]].
  assert (Ef : fetch_bucket vs ob h = if bucket_exists vs ob (index_key (path_of p)) then Some (mkHandle (path_of p) (h_depth h)) else None).
  { unfold fetch_bucket. rewrite Hp, join_split_path by (apply Hn). reflexivity. }
  apply (lookup_sim st ss w vs ob c dst p (fetch_bucket vs ob h)); auto.
  - intros h' E. rewrite Ef in E. destruct (bucket_exists vs ob (index_key (path_of p))); inversion E; subst h'.
    split; [exact Hn|]. split; [reflexivity|exact Hd].
  - rewrite Ef. pose proof (bucket_exists_char vs ob (index_key (path_of p)) Hwf) as Hc. unfold bkf, sget.
    destruct (bucket_exists vs ob (index_key (path_of p))).
    + split; [intros _|discriminate]. destruct (proj1 Hc eq_refl) as [X|X]; [left|right]; auto.
    + split; [congruence|]. intros X. exfalso. assert (Y : false = true) by (apply Hc; tauto). discriminate.
Qed.

Lemma sim_new : forall dst src name, sim_op (ONew dst src name).
Proof.
  intros dst src name st ss ss' r HR Hob Hsp. pose proof HR as [Hidx [Rc _]].
  pose proof (step_idx_inv true st _ Hidx Hob) as Hidx'. unfold step in *. cbn [spec_step] in Hsp. unfold step_gen in *.
  cbn [op_bytes] in Hob. pose proof (slot_sim st ss src HR) as Hs.
  destruct (slot_view true st src) as [[[[w h] vs] ob]|]; destruct (s_slot ss src) as [[[w' p] c]|]; try contradiction;
    [|inversion Hsp; subst; split; [exact HR|reflexivity]].
  destruct Hs as [<- [Hh [HV [Hsort [Hok [Hwf [Hbok Hw]]]]]]]. destruct w.
  2:{ subst ob. cbn [new_bucket store_batch fst snd] in *. inversion Hsp; subst. split; [exact HR|reflexivity]. }
  destruct Hw as [-> [b [-> [Ewtx Epend]]]]. cbn [view_store] in HV. pose proof Hh as [Hn [Hpath Hdep]].
  assert (Hne : st_wtx st <> None) by congruence.
  unfold new_bucket in *. destruct (is_valid_bucket_name name) eqn:Ev; cbn [negb] in Hsp.
  2:{ assert (Es : sub_bucket h name = Err EInvalidBucketName) by (unfold sub_bucket; rewrite Ev; reflexivity).
      rewrite Es in *. cbn [store_batch fst snd] in *. inversion Hsp; subst. same HR Hidx'. }
  rewrite (sub_bucket_eval h p name Hn Hpath Hdep Ev) in *. cbn [h_path] in *.
  set (q := p ++ [name]) in *. set (sub := mkHandle (path_of q) (S (length p))) in *.
  assert (Hnq : names_ok q) by (apply names_ok_snoc_iff; auto).
  assert (Hsub : hnd sub q) by (split; [exact Hnq|split; [reflexivity|unfold q; rewrite app_length; cbn; lia]]).
  destruct (has_bucket c p) eqn:Ehp; cbn [negb] in Hsp; [|discriminate].
  unfold create_index in *. set (key := index_key (path_of q)) in *.
  destruct Hidx as [[Isort [Iwf _]] [Iok [Ibok _]]]. rewrite Ewtx in Iwf, Ibok. cbn [obwf obatch_ok] in Iwf, Ibok.
  assert (Hc1 : has_bucket (s_committed ss) q = true <-> s_get key (st_store st) <> None).
  { rewrite (proj1 Rc q). unfold bkf, sget. fold key. tauto. }
  assert (Hc2 : has_bucket c q = true <-> vw (st_store st) b key <> None).
  { rewrite (proj1 HV q). unfold bkf. fold key. tauto. }
  assert (Hmk : idx_inv (with_bs (with_batch st (Some (batch_put b key name))) (set_nth dst (Some (true, sub)) (st_bs st))) ->
                R0 (with_bs (with_batch st (Some (batch_put b key name))) (set_nth dst (Some (true, sub)) (st_bs st)))
                  (s_with_bs (s_with_pending ss (Some (add_bucket c q))) (set_nth dst (Some (true, q)) (s_bs ss)))).
  { intros Hi'. destruct HR as [_ [Rc' [Ro [Ru [_ [Rr [Rb Ri]]]]]]]. split; [exact Hi'|]. cbn.
    split; [assumption|]. split; [assumption|]. split; [assumption|].
    split; [apply (Rview_create (vw (st_store st) b) _ c q name HV Hnq); intros k; apply vw_put|].
    split; [assumption|]. split; [|assumption]. apply F2_set; [assumption|]. split; [reflexivity|exact Hsub]. }
  destruct (s_get key (st_store st)) as [x|] eqn:Es.
  - assert (X1 : has_bucket (s_committed ss) q = true) by (apply Hc1; discriminate). rewrite X1 in Hsp.
    assert (Hv : vw (st_store st) b key = match batch_view b key with Some o => o | None => Some x end).
    { unfold vw. rewrite commit_get by apply Iwf. rewrite Es. reflexivity. }
    unfold batch_view in Hv.
    destruct (batch_get_shape b key) as [E|[E|[v E]]]; rewrite E in *; cbn [snd fst store_batch] in *.
    + assert (X2 : has_bucket c q = false).
      { destruct (has_bucket c q) eqn:Eh; [|reflexivity]. exfalso. apply (proj1 Hc2 eq_refl). congruence. }
      rewrite X2 in Hsp. inversion Hsp; subst. split; [|reflexivity]. apply Hmk. exact Hidx'.
    + assert (X2 : has_bucket c q = true) by (apply Hc2; rewrite Hv; discriminate).
      rewrite X2 in Hsp. inversion Hsp; subst. same HR Hidx'.
    + assert (X2 : has_bucket c q = true) by (apply Hc2; rewrite Hv; discriminate).
      rewrite X2 in Hsp. inversion Hsp; subst. same HR Hidx'.
  - assert (X1 : has_bucket (s_committed ss) q = false).
    { destruct (has_bucket (s_committed ss) q) eqn:Eh; [|reflexivity]. exfalso. apply (proj1 Hc1 eq_refl). reflexivity. }
    rewrite X1 in Hsp. cbn [snd fst store_batch] in *. destruct (has_bucket c q); [discriminate|].
    inversion Hsp; subst. split; [|reflexivity]. apply Hmk. exact Hidx'.
Qed.

(* ------------------------------------------------------------------ nested buckets: recursive deletion *)
(* below the bucket [ns], fewer than [d] nesting levels exist in view [f] *)
Definition shallow (f : view) (ns : list bytes) (d : nat) : Prop :=
  forall ms, names_wf (ns ++ ms) -> chain f ns ms -> (length ms < d)%nat.
Lemma chain_mono : forall (f f' : view) ms ns, (forall key, f' key <> None -> f key <> None) -> chain f' ns ms -> chain f ns ms.
Proof.
  intros f f' ms. induction ms as [|m ms IH]; intros ns H; cbn [chain]; [auto|].
  intros [A B]. split; [apply H; exact A|apply IH; [exact H|exact B]].
Qed.
Lemma shrinks_keeps : forall ns (f f' : view) key, shrinks ns f f' -> f' key <> None -> f key <> None.
Proof. intros ns f f' key H N. destruct (H key) as [E|[E _]]; congruence. Qed.

(* deleteBucket answers nil whenever the model's recursion bound covers the subtree *)
Lemma delete_rec_total : forall s, keys_sorted s -> store_ok s -> forall fuel b h ns, binv b -> hnd h ns -> (2 <= length ns)%nat ->
  shallow (vw s b) ns fuel -> fst (delete_rec fuel s b h) = Ok tt.
Proof.
  intros s Hsorted Hs. induction fuel as [|fuel IH]; intros b h ns Hb Hh Hlen Hsh.
  - exfalso. assert (X : (length (@nil bytes) < 0)%nat) by (apply Hsh; [rewrite app_nil_r; apply Hh|exact I]). cbn in X. lia.
  - rewrite delete_rec_S. pose proof Hh as [Hns [Hp Hd]]. pose proof Hb as [Hwf Hidx].
    assert (E1 : (h_depth h =? 1)%nat = false) by (apply Nat.eqb_neq; lia). rewrite E1.
    destruct (bucket_names_exact s (Some b) h ns Hsorted Hs Hwf Hidx Hns Hp Hd) as [l [Hl [_ Hx]]]. rewrite Hl.
    assert (Hf : forall l' b', (forall c, In c l' -> In c l) -> binv b' -> shrinks ns (vw s b) (vw s b') ->
              exists bn, fold_left (del_step fuel s h) l' (Ok tt, b') = (Ok tt, bn)).
    { induction l' as [|c l' IHl]; intros b' Hin Hb' Hs'; cbn [fold_left]; [eauto|].
      cbn [del_step]. destruct (bucket s (Some b') h c) as [sub|] eqn:Eb.
      - destruct (bucket_some_hnd s (Some b') h ns c sub Hs (proj2 Hb') Hh Eb) as [Hsub Hval].
        assert (Ht : fst (delete_rec fuel s b' sub) = Ok tt).
        { apply (IH b' sub (ns ++ [c])); auto.
          - rewrite app_length. cbn. lia.
          - intros ms Hw Hc.
            assert (X : (length (c :: ms) < S fuel)%nat).
            { apply Hsh; [rewrite <- app_assoc in Hw; exact Hw|]. cbn [chain]. split.
              - assert (Hi : In c l) by (apply Hin; left; reflexivity). apply Hx in Hi. destruct Hi as [_ Hi]. exact Hi.
              - eapply chain_mono; [|exact Hc]. intros key. apply (shrinks_keeps ns). exact Hs'. }
            cbn [length] in X. lia. }
        pose proof (binv_delete_rec fuel s b' sub Hb') as Hb1.
        pose proof (delete_rec_shrinks s Hsorted Hs fuel b' sub (ns ++ [c]) Hb' Hsub) as Hsh1.
        destruct (delete_rec fuel s b' sub) as [r1 b1]. cbn [fst snd] in *. subst r1.
        apply IHl; auto; [intros c' Hc'; apply Hin; right; exact Hc'|].
        eapply shrinks_trans; [exact Hs'|]. apply (shrinks_sub ns c). exact Hsh1.
      - apply IHl; auto. intros c' Hc'. apply Hin. right. exact Hc'. }
    destruct (Hf l b (fun c H => H) Hb (shrinks_refl _ _)) as [bn E]. rewrite E. reflexivity.
Qed.
Lemma delete_bucket_total : forall s b h ns n, keys_sorted s -> store_ok s -> binv b -> hnd h ns ->
  shallow (vw s b) (ns ++ [n]) delete_fuel -> fst (delete_bucket s (Some b) h n) = Ok tt.
Proof.
  intros s b h ns n Hsorted Hs Hb Hh Hsh. unfold delete_bucket. destruct (bucket s (Some b) h n) as [sub|] eqn:Eb; [|reflexivity].
  destruct (bucket_some_hnd s (Some b) h ns n sub Hs (proj2 Hb) Hh Eb) as [Hsub _].
  assert (Hl : (2 <= length (ns ++ [n]))%nat).
  { rewrite app_length. cbn. destruct Hh as [[Hne _] _]. destruct ns; [congruence|cbn; lia]. }
  pose proof (delete_rec_total s Hsorted Hs delete_fuel b sub (ns ++ [n]) Hb Hsub Hl Hsh) as T.
  destruct (delete_rec delete_fuel s b sub) as [r b']. exact T.
Qed.

(* the subtree of q disappears from the view: the content loses q and everything below it *)
Lemma Rview_remove : forall (f f' : view) c q, Rview f c -> cclosed c -> q <> [] -> shrinks q f f' ->
  (bkf f q -> forall ms key, names_wf (q ++ ms) -> node_key (q ++ ms) key -> chain f q ms -> f' key = None) ->
  Rview f' (remove_tree c q).
Proof.
  intros f f' c q HV Hc Hq Hsh Hgone. pose proof HV as [R1 [R2 R3]]. pose proof Hc as [C1 C2].
  assert (Hdead : forall ms key, has_bucket c (q ++ ms) = true -> node_key (q ++ ms) key -> f' key = None).
  { intros ms key Hb Hk. assert (Hbq : has_bucket c q = true) by (apply (closed_prefix c Hc ms); auto).
    apply R1 in Hbq. apply (Hgone (proj2 Hbq) ms key); auto.
    - apply R1 in Hb. apply Hb.
    - apply (closed_chain f c HV Hc); auto. }
  split; [|split].
  - intros p. rewrite has_bucket_remove. split.
    + intros [Hb Hnp]. apply R1 in Hb. destruct Hb as [Hn Hbk]. split; [exact Hn|]. unfold bkf in *.
      destruct (Hsh (index_key (path_of p))) as [E|[_ U]]; [rewrite E; exact Hbk|]. exfalso.
      destruct (under_idx q p (names_ok_valid p Hn) U) as [r E]. subst p. rewrite is_prefix_app in Hnp. discriminate.
    + intros [Hn Hbk']. assert (Hbk : bkf f p) by (unfold bkf in *; eapply shrinks_keeps; eauto).
      assert (Hb : has_bucket c p = true) by (apply R1; auto). split; [exact Hb|].
      destruct (is_prefix q p) eqn:Ep; [|reflexivity]. exfalso. apply is_prefix_iff in Ep. destruct Ep as [ms ->].
      apply Hbk'. apply (Hdead ms); [exact Hb|left; reflexivity].
  - intros p k Hn. rewrite entries_remove. destruct (is_prefix q p) eqn:Ep.
    + apply is_prefix_iff in Ep. destruct Ep as [ms ->]. cbn [m_get]. symmetry. unfold kvf.
      destruct (f (inner_key (path_of (q ++ ms)) k)) as [v|] eqn:Ef; [|eapply shrinks_none; eauto].
      apply (Hdead ms); [|right; exists k; reflexivity]. apply C2. apply (m_get_nonempty k _ v). rewrite (R2 _ _ Hn). exact Ef.
    + rewrite (R2 _ _ Hn). unfold kvf. destruct (Hsh (inner_key (path_of p) k)) as [E|[_ U]]; [symmetry; exact E|]. exfalso.
      destruct (under_data q p k (names_ok_valid p Hn) U) as [r E]. subst p. rewrite is_prefix_app in Ep. discriminate.
  - intros p. rewrite entries_remove. destruct (is_prefix q p); [constructor|apply R3].
Qed.

Lemma sim_delbucket : forall src name, sim_op' (ODelBucket src name).
Proof.
  intros src name st ss ss' r HR Hinv Hob Hsp. pose proof HR as [Hidx _].
  pose proof (step_idx_inv true st _ Hidx Hob) as Hidx'. unfold step in *. cbn [spec_step] in Hsp. unfold step_gen in *.
  cbn [op_bytes] in Hob. pose proof (slot_sim st ss src HR) as Hs.
  destruct (slot_view true st src) as [[[[w h] vs] ob]|]; destruct (s_slot ss src) as [[[w' p] c]|] eqn:Eslot; try contradiction;
    [|inversion Hsp; subst; split; [exact HR|reflexivity]].
  destruct Hs as [<- [Hh [HV [Hsort [Hok [Hwf [Hbok Hw]]]]]]]. destruct w.
  2:{ subst ob. cbn [delete_bucket store_batch fst snd res_of_unit] in *. inversion Hsp; subst. split; [exact HR|reflexivity]. }
  destruct Hw as [-> [b [-> [Ewtx Epend]]]]. cbn [view_store] in HV. pose proof Hh as [Hn [Hpath Hdep]].
  assert (Hne : st_wtx st <> None) by congruence.
  assert (Hc : cclosed c) by (destruct Hinv as [_ [Hi _]]; rewrite Epend in Hi; exact Hi).
  destruct (delete_fuel <=? height c (p ++ [name]))%nat eqn:Eh; [discriminate|]. apply Nat.leb_gt in Eh. inversion Hsp; subst ss' r. clear Hsp.
  cbn [obwf obatch_ok] in Hwf, Hbok. assert (Hb : binv b) by (split; assumption).
  assert (Hq : p ++ [name] <> []) by (destruct p; discriminate).
  assert (Htot : fst (delete_bucket (st_store st) (Some b) h name) = Ok tt).
  { apply (delete_bucket_total _ b h p name Hsort Hok Hb Hh). intros ms Hw Hch.
    destruct ms as [|m ms]; [cbn; unfold delete_fuel; lia|].
    assert (Hbk : has_bucket c ((p ++ [name]) ++ m :: ms) = true).
    { apply HV. split; [split; [destruct p; discriminate|exact Hw]|].
      (* the last bucket of the chain exists *)
      clear - Hch. revert Hch. generalize (p ++ [name]). revert m. induction ms as [|m' ms IH]; intros m q [A B].
      - exact A.
      - replace (q ++ m :: m' :: ms) with ((q ++ [m]) ++ m' :: ms) by (rewrite <- app_assoc; reflexivity). apply IH. exact B. }
    apply height_ge in Hbk. lia. }
  assert (Hshape : exists b', delete_bucket (st_store st) (Some b) h name = (Ok tt, Some b')).
  { unfold delete_bucket in *. destruct (bucket (st_store st) (Some b) h name) as [sub|]; [|eauto].
    destruct (delete_rec delete_fuel (st_store st) b sub) as [r1 b1]. cbn [fst] in Htot. subst r1. eauto. }
  destruct Hshape as [b' Ed]. rewrite Ed in *. cbn [store_batch fst snd res_of_unit] in *. split; [|reflexivity].
  apply R_write; auto.
  destruct (delete_bucket_effect (st_store st) b h p name (Ok tt) b' Hsort Hok Hb Hh Ed) as [Hsh Hgone].
  apply (Rview_remove (vw (st_store st) b) _ c (p ++ [name])); auto. apply Hgone. reflexivity.
Qed.

(* ------------------------------------------------------------------ bucket listings *)
Lemma names_sim : forall vs ob c p l, store_ok vs -> obatch_ok ob -> Rview (sget (view_store vs ob)) c -> (p = [] \/ names_ok p) ->
  NoDup l -> (forall name, In name l <-> child_exists (view_store vs ob) p name) -> Permutation l (children c p).
Proof.
  intros vs ob c p l Hok Hbok [R1 _] Hp Hnd Hx. apply NoDup_Permutation; [exact Hnd|apply dedup_nodup|].
  intros n. rewrite Hx, children_iff, R1. unfold child_exists, bkf, sget. split.
  - intros [Hv Hs]. split; [|exact Hs].
    assert (Hbn : bytes_ok n).
    { destruct (s_get (index_key (path_of (p ++ [n]))) (view_store vs ob)) as [v|] eqn:E; [|congruence].
      apply (index_key_name_bytes p n). eapply entry_ok_bytes. eapply store_ok_get; [|exact E]. apply view_store_ok; auto. }
    destruct Hp as [->|Hp]; [apply names_ok_one; auto|apply names_ok_snoc; auto; apply Hp].
  - intros [[_ [Hv _]] Hs]. split; [|exact Hs]. apply Forall_app in Hv. destruct Hv as [_ Hv]. inversion Hv; auto.
Qed.
Lemma sim_names : forall src, sim_op (ONames src).
Proof.
  intros src st ss ss' r HR Hob Hsp. unfold step in *. cbn [spec_step] in Hsp. unfold step_gen in *.
  pose proof (slot_sim st ss src HR) as Hs.
  destruct (slot_view true st src) as [[[[w h] vs] ob]|]; destruct (s_slot ss src) as [[[w' p] c]|]; try contradiction;
    [|inversion Hsp; subst; split; [exact HR|reflexivity]].
  destruct Hs as [<- [Hh [HV [Hsort [Hok [Hwf [Hbok Hw]]]]]]]. destruct Hh as [Hn [Hp Hd]]. inversion Hsp; subst ss' r.
  destruct (bucket_names_exact vs ob h p Hsort Hok Hwf Hbok Hn Hp Hd) as [l [Hl [Hnd Hx]]]. rewrite Hl. cbn [fst snd].
  split; [exact HR|]. cbn [res_equiv]. apply (names_sim vs ob c p l); auto.
Qed.
Lemma sim_txnames : forall w, sim_op (OTxNames w).
Proof.
  intros w st ss ss' r HR Hob Hsp. unfold step in *. cbn [spec_step] in Hsp. unfold step_gen in *.
  pose proof (tx_sim st ss w HR) as Ht.
  destruct (tx_view true st w) as [[vs ob]|]; destruct (s_view ss w) as [c|]; try contradiction;
    [|inversion Hsp; subst; split; [exact HR|reflexivity]].
  destruct Ht as [HV [Hsort [Hok [Hwf [Hbok Hw]]]]]. inversion Hsp; subst ss' r.
  destruct (tx_bucket_names_exact vs ob Hsort Hok Hwf Hbok) as [l [Hl [Hnd Hx]]]. rewrite Hl. cbn [fst snd].
  split; [exact HR|]. cbn [res_equiv]. apply (names_sim vs ob c [] l); auto.
Qed.

(* ------------------------------------------------------------------ the dump *)
Lemma filter_all {A} : forall (l : list (bytes * A)), filter (fun e => has_prefix [] (fst e)) l = l.
Proof. induction l as [|a l IH]; [reflexivity|]. cbn [filter]. change (has_prefix [] (fst a)) with true. cbv iota. f_equal. exact IH. Qed.
Lemma pfx_perm : forall vs ob h q c pre, keys_sorted vs -> store_ok vs -> obwf ob -> hnd h q -> bytes_ok pre ->
  Rview (sget (view_store vs ob)) c ->
  Permutation (get_by_prefix vs ob h pre) (filter (fun e => has_prefix pre (fst e)) (entries c q)).
Proof.
  intros vs ob h q c pre Hsort Hok Hwf Hh Hpre [_ [R2 R3]]. pose proof Hh as [Hn [Hpath _]].
  assert (Hb : keys_bytes vs) by (apply store_ok_keys_bytes; exact Hok).
  assert (Hp : bytes_ok (h_path h)) by (eapply hnd_path_bytes; eauto).
  assert (G : exists b, batch_wf b /\ get_by_prefix vs ob h pre = get_by_prefix vs (Some b) h pre /\
                        forall key, s_get key (view_store vs ob) = s_get key (apply_log vs (b_log b))).
  { destruct ob as [b|]; [exists b; auto|]. exists empty_batch. split; [apply batch_wf_empty|]. split; [apply gbp_none|reflexivity]. }
  destruct G as [b [Hwfb [-> Hv]]].
  apply NoDup_Permutation.
  - eapply NoDup_map_inv. apply get_by_prefix_nodup; auto.
  - eapply NoDup_map_inv. apply sorted_nodup_keys. apply (@filter_sorted bytes). apply R3.
  - intros [k' v]. rewrite (read_your_writes_prefix vs b h pre Hsort Hb Hwfb Hp Hpre k' v).
    rewrite filter_In. cbn [fst]. rewrite (sorted_get_in _ k' v (R3 q)), (R2 q _ Hn). unfold kvf, sget. rewrite Hv, Hpath. tauto.
Qed.

Section Dump.
  Variable s : store.
  Variable c : content.
  Hypothesis Hsort : keys_sorted s.
  Hypothesis Hok : store_ok s.
  Hypothesis HV : Rview (sget s) c.

  Lemma dump_rec_sim : forall fuel h p, hnd h p -> dump_equiv (dump_rec fuel s h) (sdump_rec fuel c p).
  Proof.
    induction fuel as [|fuel IH]; intros h p Hh; cbn [dump_rec sdump_rec]; [apply dump_equiv_refl|].
    pose proof Hh as [Hn [Hp Hd]].
    destruct (bucket_names_exact s None h p Hsort Hok I I Hn Hp Hd) as [l [Hl [Hnd Hx]]]. rewrite Hl.
    apply dump_equiv_cons.
    - split; cbn [fst snd]; [exact Hp|]. rewrite <- (filter_all (entries c p)).
      apply (pfx_perm s None h p c []); auto; [exact I|constructor].
    - apply dump_equiv_flat_map; [apply (names_sim s None c p l); auto; exact I|].
      intros n Hin. destruct (bucket s None h n) as [sub|] eqn:Eb.
      + destruct (bucket_some_hnd s None h p n sub Hok I Hh Eb) as [Hsub _]. apply IH. exact Hsub.
      + exfalso. apply (listed_child_opens s None h p n I Hn Hp Hd); [apply Hx; exact Hin|exact Eb].
  Qed.
  Lemma dump_sim : dump_equiv (dump s) (sdump c).
  Proof.
    unfold dump, sdump. destruct (tx_bucket_names_exact s None Hsort Hok I I) as [l [Hl [Hnd Hx]]]. rewrite Hl.
    assert (HP : Permutation l (children c [])) by (apply (names_sim s None c [] l); auto; exact I).
    apply dump_equiv_flat_map; [exact HP|]. intros n Hin.
    assert (Hn : names_ok [n]).
    { apply (Permutation_in _ HP) in Hin. apply children_iff in Hin. apply HV in Hin. apply Hin. }
    apply Hx in Hin. destruct Hin as [_ Hin]. cbn [app view_store] in Hin.
    unfold top_level_bucket. rewrite top_path_is_path_of. unfold bucket_exists.
    destruct (s_get (index_key (path_of [n])) s); [|congruence].
    apply dump_rec_sim. split; [exact Hn|split; reflexivity].
  Qed.
End Dump.

Lemma sim_dump : sim_op ODump.
Proof.
  intros st ss ss' r HR Hob Hsp. pose proof HR as [[[Hsort _] [Hok _]] [Rc [Ro _]]]. unfold step in *. cbn [spec_step] in Hsp. unfold step_gen.
  rewrite <- Ro in Hsp. destruct (st_open st); inversion Hsp; subst; (split; [exact HR|]); cbn [snd res_equiv].
  - apply dump_sim; auto.
  - apply dump_equiv_refl.
Qed.

(* the bucket a specified NewBucket creates is empty: no entries, no sub-buckets *)
Lemma new_bucket_is_empty : forall c q, cclosed c -> has_bucket c q = false -> q <> [] ->
  entries (add_bucket c q) q = [] /\ children (add_bucket c q) q = [].
Proof.
  intros c q [C1 C2] Hq Hne. split.
  - rewrite entries_add. destruct (entries c q) eqn:E; [reflexivity|]. rewrite C2 in Hq; [discriminate|congruence].
  - destruct (children (add_bucket c q) q) as [|n l] eqn:E; [reflexivity|]. exfalso.
    assert (Hin : In n (children (add_bucket c q) q)) by (rewrite E; left; reflexivity).
    apply children_iff in Hin. apply has_bucket_add in Hin. destruct Hin as [Hin|Hin].
    + apply C1 in Hin; [congruence|exact Hne].
    + apply (f_equal (@length bytes)) in Hin. rewrite app_length in Hin. cbn in Hin. lia.
Qed.

(* ------------------------------------------------------------------ the abstraction relation, with the specification's invariant *)
Definition R (st : state) (ss : sstate) : Prop := R0 st ss /\ sinv ss.
Lemma R_init' : R init_state spec_init.
Proof. split; [exact R_init|exact sinv_init]. Qed.

(* ------------------------------------------------------------------ one step, and every sequence *)
Lemma step_sim0 : forall st ss o ss' r, R0 st ss -> sinv ss -> op_bytes o -> spec_step ss o = (ss', Spec r) ->
  R0 (fst (step st o)) ss' /\ res_equiv (snd (step st o)) r.
Proof.
  intros st ss o ss' r HR Hinv Hob Hsp.
  destruct o; try (cbn [spec_step] in Hsp; discriminate);
    first [eapply sim_tx; eauto; exact I | eapply sim_top; eauto; exact I | eapply sim_write; eauto; exact I
          | eapply sim_read; eauto; exact I | eapply sim_iter; eauto; exact I
          | eapply sim_bucket; eauto | eapply sim_fetch; eauto | eapply sim_new; eauto | eapply sim_delbucket; eauto
          | eapply sim_names; eauto | eapply sim_txnames; eauto | eapply sim_dump; eauto].
Qed.
Lemma step_sim : forall st ss o ss' r, R st ss -> op_bytes o -> spec_step ss o = (ss', Spec r) ->
  R (fst (step st o)) ss' /\ res_equiv (snd (step st o)) r.
Proof.
  intros st ss o ss' r [HR Hinv] Hob Hsp. destruct (step_sim0 st ss o ss' r HR Hinv Hob Hsp) as [H1 H2].
  split; [split; [exact H1|eapply spec_step_sinv; eauto]|exact H2].
Qed.

(* the outputs of the model along an operation sequence *)
Fixpoint outs (st : state) (ops : list op) : list res :=
  match ops with
  | [] => []
  | o :: r => snd (step st o) :: outs (fst (step st o)) r
  end.

Lemma refines_from : forall ops st ss, R st ss -> Forall op_bytes ops ->
  Forall2 res_equiv (firstn (length (spec_run ss ops)) (outs st ops)) (spec_run ss ops) /\
  (forall ss', spec_exec ss ops = Some ss' -> R (exec true st ops) ss').
Proof.
  induction ops as [|o ops IH]; intros st ss HR Hb.
  - cbn. split; [constructor|]. intros ss' E. inversion E; subst. exact HR.
  - inversion Hb as [|? ? Ho Hb']; subst. cbn [spec_run spec_exec outs].
    destruct (spec_step ss o) as [ss1 [r|]] eqn:Es.
    + destruct (step_sim st ss o ss1 r HR Ho Es) as [HR' Hr]. destruct (IH _ _ HR' Hb') as [I1 I2].
      cbn [length firstn]. split; [constructor; assumption|]. intros ss' E. unfold exec. cbn [fold_left]. apply I2. exact E.
    + cbn. split; [constructor|discriminate].
Qed.

(* C11_refines_abstract_map *)
Theorem refines_abstract_map : forall ops, Forall op_bytes ops ->
  Forall2 res_equiv (firstn (length (spec_run spec_init ops)) (outs init_state ops)) (spec_run spec_init ops) /\
  (forall n, match spec_exec spec_init (firstn n ops) with
             | Some ss' => R (run (firstn n ops)) ss'
             | None => True
             end) /\
  (spec_exec spec_init ops <> None -> length (spec_run spec_init ops) = length ops).
Proof.
  intros ops Hb. split; [apply (refines_from ops _ _ R_init' Hb)|]. split.
  - intros n. destruct (spec_exec spec_init (firstn n ops)) as [ss'|] eqn:E; [|exact I].
    assert (Hb' : Forall op_bytes (firstn n ops)).
    { rewrite Forall_forall in *. intros x Hx. apply Hb. rewrite <- (firstn_skipn n ops). apply in_or_app. left. exact Hx. }
    apply (proj2 (refines_from (firstn n ops) _ _ R_init' Hb')). exact E.
  - generalize spec_init. induction ops as [|o ops IH]; intros ss H; [reflexivity|]. cbn [spec_exec spec_run] in *.
    destruct (spec_step ss o) as [ss1 [r|]]; [|congruence]. cbn [length]. f_equal. inversion Hb; subst. apply IH; auto.
Qed.

(* ------------------------------------------------------------------ a concrete history (non-vacuity) *)
(* bucket a: k = v, m = w committed; a read transaction begins; a write transaction deletes k, overwrites m = x, puts b = y,
   reads them back, iterates (Next x3, Seek "c"), is rolled back while the read transaction still reads k = v; another write
   transaction commits z = z, which the read transaction (begun before) does not see in Get / GetByPrefix / its iterator;
   close, reopen, a new read transaction sees everything committed *)
Definition ex_ref_ops : list op :=
  [OBegin true; OCreateTop 0 [97]; OPut 0 [107] [118]; OPut 0 [109] [119]; OCommit;
   OBegin false; OTop false 1 [97];
   OBegin true; OTop true 0 [97]; ODel 0 [107]; OPut 0 [109] [120]; OPut 0 [98] [121];
   OGet 0 [107]; OGet 0 [109]; OPfx 0 [];
   OIter 2 0 0 [] []; ONext 2; ONext 2; ONext 2; OSeek 2 [99];
   OGet 1 [107]; ORollback;
   OBegin true; OTop true 0 [97]; OPut 0 [122] [122]; OCommit;
   OGet 1 [122]; OPfx 1 []; OIter 3 1 1 [107] []; ONext 3; ONext 3; ONext 3; OREnd;
   OClose; OReopen; OBegin false; OTop false 1 [97]; OPfx 1 []].
Definition ex_ref_outs (pfx_in_wtx : list (bytes * bytes)) : list res :=
  [ROk; ROk; ROk; ROk; ROk; ROk; ROk; ROk; ROk; ROk; ROk; ROk; RNil;
   RVal [120]; REntries pfx_in_wtx; ROk;
   RIter true (Some [98]) [121]; RIter true (Some [109]) [120]; RIter false None []; RIter true (Some [109]) [120];
   RVal [118]; ROk; ROk; ROk; ROk; ROk; RNil;
   REntries [([107], [118]); ([109], [119])]; ROk;
   RIter true (Some [107]) [118]; RIter true (Some [109]) [119]; RIter false None []; ROk; ROk; ROk; ROk; ROk;
   REntries [([107], [118]); ([109], [119]); ([122], [122])]].
Lemma ex_ref_bytes : Forall op_bytes ex_ref_ops.
Proof. unfold ex_ref_ops. repeat (apply Forall_cons; [cbn [op_bytes]; solve_bytes|]). apply Forall_nil. Qed.

(* nested buckets: in one write transaction create a, a/b, a/bc (the name of one a prefix of the other's), put k in both, look
   up a/b, list a, delete a/b, list a again, read a/bc's k (still there) and a/b's k through the stale handle (gone), look up
   a/b (nil), list the top level, commit; close, reopen; a read transaction lists a, reads a/bc, looks up a/b (nil), fetches
   a/bc by its handle; meanwhile a write transaction deletes the committed a/bc, creates it again (empty), lists a and is
   rolled back, which the read transaction does not notice *)
Definition ex_nest_ops : list op :=
  [OBegin true; OCreateTop 0 [97]; ONew 1 0 [98]; ONew 2 0 [98; 99]; OPut 1 [107] [118]; OPut 2 [107] [119];
   OBucket 3 0 [98]; ONames 0; ODelBucket 0 [98]; ONames 0; OGet 2 [107]; OGet 1 [107]; OBucket 3 0 [98]; OTxNames true; OCommit;
   OClose; OReopen; OBegin false; OTop false 0 [97]; ONames 0; OBucket 1 0 [98; 99]; OGet 1 [107]; OBucket 2 0 [98];
   OFetch false 3 1; OPfx 3 [];
   OBegin true; OTop true 4 [97]; OBucket 5 4 [98; 99]; ODelBucket 4 [98; 99]; ONew 6 4 [98; 99]; OGet 6 [107]; ONames 4; ORollback;
   OGet 1 [107]; OREnd].
Definition ex_nest_outs (first_listing : list bytes) : list res :=
  [ROk; ROk; ROk; ROk; ROk; ROk; ROk; RNames first_listing; ROk; RNames [[98; 99]]; RVal [119]; RNil; RNil; RNames [[97]]; ROk;
   ROk; ROk; ROk; ROk; RNames [[98; 99]]; ROk; RVal [119]; RNil; ROk; REntries [([107], [119])];
   ROk; ROk; ROk; ROk; ROk; RNil; RNames [[98; 99]]; ROk; RVal [119]; ROk].
Lemma ex_nest_bytes : Forall op_bytes ex_nest_ops.
Proof. unfold ex_nest_ops. repeat (apply Forall_cons; [cbn [op_bytes]; solve_bytes|]). apply Forall_nil. Qed.
