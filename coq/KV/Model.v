(* KV — executable model of masswallet/db (db.go: BytesPrefix, Update) and masswallet/db/ldb
   (leveldb.go: batch, transaction, levelBucket, batchIterator, levelIterator).
   Definitions only (no proofs): this file must still run when a proof breaks.

   Bytes are [list Z] with every element in 0..255 ([bytes_ok]); order = lexicographic
   (Go bytes.Compare).  The committed LevelDB is a key-sorted association list.  A write
   transaction carries the op log (what leveldb.Batch holds) and the code's own summary
   (puts / deletes with sequence numbers) exactly as [ldb.batch] keeps it.
   One Gallina function per Go method, same case analysis.  goleveldb itself (Get, Write of a
   batch, range iterators with snapshot) is environment: [s_get], [apply_log], [range_entries]. *)
From Coq Require Import List ZArith Bool.
Import ListNotations.
Open Scope Z_scope.

Definition bytes := list Z.
Definition SEP : Z := 95.          (* '_'  bucketPathSep *)
Definition CH_b : Z := 98.         (* 'b'  bucketNameBucket *)
Definition maxBucketNameLen : nat := 256.

Definition byte_ok (c : Z) : Prop := 0 <= c <= 255.
Definition bytes_ok (s : bytes) : Prop := Forall byte_ok s.

(* ---------- Go bytes.Compare / bytes.HasPrefix *)
Fixpoint bcmp (a b : bytes) : comparison :=
  match a, b with
  | [], [] => Eq
  | [], _ :: _ => Lt
  | _ :: _, [] => Gt
  | x :: a', y :: b' => match Z.compare x y with Eq => bcmp a' b' | c => c end
  end.
Definition blt (a b : bytes) : bool := match bcmp a b with Lt => true | _ => false end.
Definition ble (a b : bytes) : bool := match bcmp a b with Gt => false | _ => true end.
Definition beqb (a b : bytes) : bool := match bcmp a b with Eq => true | _ => false end.
Fixpoint has_prefix (p k : bytes) : bool :=
  match p, k with
  | [], _ => true
  | _ :: _, [] => false
  | x :: p', y :: k' => (x =? y) && has_prefix p' k'
  end.

(* ---------- db.BytesPrefix (same code as goleveldb util.BytesPrefix): Start = prefix,
   Limit = prefix with its last byte below 0xff incremented and everything after dropped;
   nil when every byte is 0xff (or the prefix is empty). *)
Fixpoint bp_limit (p : bytes) : option bytes :=
  match p with
  | [] => None
  | c :: r => match bp_limit r with
              | Some l => Some (c :: l)
              | None => if c <? 255 then Some [c + 1] else None
              end
  end.
Definition bytes_prefix (p : bytes) : bytes * option bytes := (p, bp_limit p).
Definition in_range (lo : bytes) (hi : option bytes) (k : bytes) : bool :=
  ble lo k && match hi with None => true | Some h => blt k h end.

(* ---------- ordered maps as key-sorted association lists *)
Definition amap (V : Type) := list (bytes * V).
Fixpoint m_get {V} (k : bytes) (m : amap V) : option V :=
  match m with
  | [] => None
  | (k', v) :: r => if beqb k k' then Some v else m_get k r
  end.
Fixpoint m_put {V} (k : bytes) (v : V) (m : amap V) : amap V :=
  match m with
  | [] => [(k, v)]
  | (k', v') :: r => match bcmp k k' with
                     | Lt => (k, v) :: m
                     | Eq => (k, v) :: r
                     | Gt => (k', v') :: m_put k v r
                     end
  end.
Fixpoint m_del {V} (k : bytes) (m : amap V) : amap V :=
  match m with
  | [] => []
  | (k', v') :: r => if beqb k k' then m_del k r else (k', v') :: m_del k r
  end.

Definition store := amap bytes.
Definition s_get : bytes -> store -> option bytes := m_get.

(* what leveldb.Batch records, in order *)
Inductive bop := BPut (k v : bytes) | BDel (k : bytes).
Definition apply_op (s : store) (o : bop) : store :=
  match o with BPut k v => m_put k v s | BDel k => m_del k s end.
(* leveldb.DB.Write(batch): the operations in the order they were recorded (trusted: atomic) *)
Definition apply_log (s : store) (log : list bop) : store := fold_left apply_op log s.
(* a goleveldb iterator over [lo, hi) sees exactly these entries (snapshot at creation), ascending *)
Definition range_entries (s : store) (lo : bytes) (hi : option bytes) : list (bytes * bytes) :=
  filter (fun e => in_range lo hi (fst e)) s.

(* ---------- ldb.batch *)
Record batch := mkBatch {
  b_seq : Z;                       (* seqNo *)
  b_rlog : list bop;               (* leveldb.Batch, newest first *)
  b_puts : amap (bytes * Z);       (* puts: key -> (data, seq) *)
  b_dels : amap Z                  (* deletes: key -> seq *)
}.
Definition empty_batch : batch := mkBatch 0 [] [] [].
Definition b_log (b : batch) : list bop := rev (b_rlog b).   (* chronological *)

(* batch.Get: (value, deleted) *)
Definition batch_get (b : batch) (k : bytes) : option bytes * bool :=
  match m_get k (b_dels b), m_get k (b_puts b) with
  | Some sd, Some (d, sp) => if sp <? sd then (None, true) else (Some d, false)
  | Some _, None => (None, true)
  | None, Some (d, _) => (Some d, false)
  | None, None => (None, false)
  end.
(* batch.GetNetPutsByPrefix (a Go map: here in ascending key order) *)
Definition net_puts_by_prefix (b : batch) (prefix : bytes) : list (bytes * bytes) :=
  flat_map (fun e : bytes * (bytes * Z) =>
              let '(k, (d, sp)) := e in
              if has_prefix prefix k
              then match m_get k (b_dels b) with
                   | None => [(k, d)]
                   | Some sd => if sd <? sp then [(k, d)] else []
                   end
              else []) (b_puts b).
Definition batch_put (b : batch) (k v : bytes) : batch :=
  let n := b_seq b + 1 in mkBatch n (BPut k v :: b_rlog b) (m_put k (v, n) (b_puts b)) (b_dels b).
Definition batch_delete (b : batch) (k : bytes) : batch :=
  let n := b_seq b + 1 in mkBatch n (BDel k :: b_rlog b) (b_puts b) (m_put k n (b_dels b)).

(* transaction.Commit / Rollback; db.Update *)
Definition commit (s : store) (b : batch) : store := apply_log s (b_log b).
Definition rollback (s : store) (b : batch) : store := s.

(* ---------- errors (projection of the Go error values) *)
Inductive err := EIllegalKey | EIllegalValue | EBucketExist | EBucketNotFound | EInvalidBucketName
               | EIllegalBucketPath | EWriteNotAllowed | ENotSupported | EClosed | EOther.
Inductive result (A : Type) := Ok (a : A) | Err (e : err).
Arguments Ok {A} a.
Arguments Err {A} e.

(* db.Update(db, f): begin, run f, roll back on error, else commit *)
Definition update {A} (s : store) (f : store -> batch -> result A * batch) : result A * store :=
  match f s empty_batch with
  | (Err e, b) => (Err e, rollback s b)
  | (Ok a, b) => (Ok a, commit s b)
  end.

(* ---------- strings.Split / strings.Join with "_", strconv.Itoa *)
Fixpoint split_sep (s : bytes) : list bytes :=
  match s with
  | [] => [[]]
  | c :: r => if c =? SEP then [] :: split_sep r
              else match split_sep r with
                   | x :: xs => (c :: x) :: xs
                   | [] => [[c]]
                   end
  end.
Fixpoint join_sep (l : list bytes) : bytes :=
  match l with
  | [] => []
  | x :: r => match r with [] => x | _ :: _ => x ++ SEP :: join_sep r end
  end.
Fixpoint digits_rev (fuel : nat) (n : Z) : bytes :=
  match fuel with
  | O => []
  | S f => (48 + n mod 10) :: (if n / 10 =? 0 then [] else digits_rev f (n / 10))
  end.
Definition itoa (d : nat) : bytes := rev (digits_rev (S d) (Z.of_nat d)).

(* ---------- levelBucket: path "<depth>_<name1>_..._<nameDepth>" and depth *)
Record handle := mkHandle { h_path : bytes; h_depth : nat }.

Definition is_valid_bucket_name (name : bytes) : bool :=
  match name with [] => false | _ :: _ => true end
  && (length name <=? maxBucketNameLen)%nat
  && forallb (fun c => negb (c =? SEP)) name.

(* joinBucketPath(bucketNameBucket, path) *)
Definition index_key (path : bytes) : bytes := CH_b :: SEP :: path.
(* levelBucket.innerKey / innerKeyForIterator *)
Definition inner_key (path key : bytes) : bytes := path ++ SEP :: key.
Definition top_path (name : bytes) : bytes := itoa 1 ++ SEP :: name.

(* the canonical form of the paths the API hands out (used by the theorems) *)
Definition path_of (names : list bytes) : bytes :=
  itoa (length names) ++ flat_map (fun n => SEP :: n) names.

(* "does the bucket index entry exist": ldb.Get(key), and in a write transaction, if it is not
   committed, a pending put.  A pending delete of a committed entry is NOT consulted. *)
Definition bucket_exists (s : store) (ob : option batch) (key : bytes) : bool :=
  match s_get key s with
  | Some _ => true
  | None => match ob with
            | Some b => match fst (batch_get b key) with Some _ => true | None => false end
            | None => false
            end
  end.

(* transaction.TopLevelBucket *)
Definition top_level_bucket (s : store) (ob : option batch) (name : bytes) : option handle :=
  let path := top_path name in
  if bucket_exists s ob (index_key path) then Some (mkHandle path 1) else None.

(* shared tail of CreateTopLevelBucket / NewBucket *)
Definition create_index (s : store) (b : batch) (key name : bytes) (h : handle) : result handle * batch :=
  let create := (Ok h, batch_put b key name) in
  match s_get key s with
  | Some _ => if snd (batch_get b key) then create else (Err EBucketExist, b)
  | None => create
  end.

(* transaction.CreateTopLevelBucket *)
Definition create_top_level (s : store) (b : batch) (name : bytes) : result handle * batch :=
  if negb (is_valid_bucket_name name) then (Err EInvalidBucketName, b)
  else let path := top_path name in create_index s b (index_key path) name (mkHandle path 1).

(* levelBucket.subBucket *)
Definition sub_bucket (h : handle) (name : bytes) : result handle :=
  if negb (is_valid_bucket_name name) then Err EInvalidBucketName
  else let ss := split_sep (h_path h) in
       if (length ss <? 2)%nat then Err EIllegalBucketPath
       else let d := S (h_depth h) in
            Ok (mkHandle (join_sep (itoa d :: tl ss ++ [name])) d).

(* levelBucket.NewBucket *)
Definition new_bucket (s : store) (ob : option batch) (h : handle) (name : bytes) : result handle * option batch :=
  match ob with
  | None => (Err EWriteNotAllowed, ob)
  | Some b => match sub_bucket h name with
              | Err e => (Err e, ob)
              | Ok sub => let '(r, b') := create_index s b (index_key (h_path sub)) name sub in (r, Some b')
              end
  end.

(* levelBucket.Bucket *)
Definition bucket (s : store) (ob : option batch) (h : handle) (name : bytes) : option handle :=
  match sub_bucket h name with
  | Err _ => None
  | Ok sub => if bucket_exists s ob (index_key (h_path sub)) then Some sub else None
  end.

(* transaction.FetchBucket(meta) with meta = GetBucketMeta() of a handle (a fresh meta object: no cache hit) *)
Definition fetch_bucket (s : store) (ob : option batch) (h : handle) : option handle :=
  let path := join_sep (split_sep (h_path h)) in
  if bucket_exists s ob (index_key path) then Some (mkHandle path (h_depth h)) else None.

(* the two loops of BucketNames (transaction and levelBucket): committed index entries under the
   prefix merged with the batch, then the batch's net puts *)
Definition check_name (d : nat) (key value : bytes) : bool :=
  let ss := split_sep key in (length ss =? d + 3)%nat && beqb (nth (d + 2) ss []) value.
Definition merged_value (ob : option batch) (key value : bytes) : option bytes :=
  match ob with
  | None => Some value
  | Some b => match batch_get b key with
              | (_, true) => None
              | (Some v, false) => Some v
              | (None, false) => Some value
              end
  end.
Fixpoint names_committed (ob : option batch) (d : nat) (ents : list (bytes * bytes)) (acc : list bytes)
  : result (list bytes) :=
  match ents with
  | [] => Ok acc
  | (key, value) :: r =>
      match merged_value ob key value with
      | None => names_committed ob d r acc
      | Some v => if check_name d key v then names_committed ob d r (acc ++ [v]) else Err EIllegalValue
      end
  end.
Fixpoint names_batch (d : nat) (np : list (bytes * bytes)) (acc : list bytes) : result (list bytes) :=
  match np with
  | [] => Ok acc
  | (key, value) :: r =>
      if check_name d key value
      then if existsb (beqb value) acc then names_batch d r acc else names_batch d r (acc ++ [value])
      else Err EIllegalValue
  end.
Definition prefix_entries (s : store) (prefix : bytes) : list (bytes * bytes) :=
  range_entries s prefix (bp_limit prefix).          (* ldb.NewIterator(util.BytesPrefix(prefix)) *)
Definition names_scan (s : store) (ob : option batch) (prefix : bytes) (d : nat) : result (list bytes) :=
  match names_committed ob d (prefix_entries s prefix) [] with
  | Err e => Err e
  | Ok acc => match ob with
              | None => Ok acc
              | Some b => names_batch d (net_puts_by_prefix b prefix) acc
              end
  end.
(* transaction.BucketNames *)
Definition tx_bucket_names (s : store) (ob : option batch) : result (list bytes) :=
  names_scan s ob (CH_b :: SEP :: itoa 1 ++ [SEP]) 0.
(* levelBucket.BucketNames *)
Definition names_prefix (h : handle) : result bytes :=
  let ss := split_sep (h_path h) in
  if (length ss <? 2)%nat then Err EIllegalBucketPath
  else Ok (index_key (join_sep (itoa (S (h_depth h)) :: tl ss ++ [[]]))).
Definition bucket_names (s : store) (ob : option batch) (h : handle) : result (list bytes) :=
  match names_prefix h with
  | Err e => Err e
  | Ok prefix => names_scan s ob prefix (h_depth h)
  end.

(* the k/v deletion loops shared by Clear and deleteBucket *)
Fixpoint delete_committed (b : batch) (ents : list (bytes * bytes)) : batch :=
  match ents with
  | [] => b
  | (key, _) :: r => if snd (batch_get b key) then delete_committed b r
                     else delete_committed (batch_delete b key) r
  end.
Definition delete_keys (b : batch) (keys : list bytes) : batch := fold_left batch_delete keys b.
Definition clear_kv (s : store) (b : batch) (path : bytes) : batch :=
  let prefix := path ++ [SEP] in
  let b1 := delete_committed b (prefix_entries s prefix) in
  delete_keys b1 (map fst (net_puts_by_prefix b1 prefix)).

(* levelBucket.Clear *)
Definition clear (s : store) (ob : option batch) (h : handle) : result unit * option batch :=
  match ob with
  | None => (Err EWriteNotAllowed, ob)
  | Some b => (Ok tt, Some (clear_kv s b (h_path h)))
  end.

(* deleteBucket (recursive; fuel bounds the nesting depth, EIllegalBucketPath when it runs out) *)
Fixpoint delete_rec (fuel : nat) (s : store) (b : batch) (h : handle) : result unit * batch :=
  match fuel with
  | O => (Err EIllegalBucketPath, b)
  | S f =>
      if (h_depth h =? 1)%nat then (Err ENotSupported, b)
      else match bucket_names s (Some b) h with
           | Err e => (Err e, b)
           | Ok subnames =>
               let step (acc : result unit * batch) (subname : bytes) : result unit * batch :=
                 match acc with
                 | (Err e, b') => (Err e, b')
                 | (Ok _, b') => match bucket s (Some b') h subname with
                                 | None => (Ok tt, b')
                                 | Some sub => delete_rec f s b' sub
                                 end
                 end in
               match fold_left step subnames (Ok tt, b) with
               | (Err e, b') => (Err e, b')
               | (Ok _, b') => (Ok tt, batch_delete (clear_kv s b' (h_path h)) (index_key (h_path h)))
               end
           end
  end.
Definition delete_fuel : nat := 64.
(* levelBucket.DeleteBucket *)
Definition delete_bucket (s : store) (ob : option batch) (h : handle) (name : bytes) : result unit * option batch :=
  match ob with
  | None => (Err EWriteNotAllowed, ob)
  | Some b => match bucket s ob h name with
              | None => (Ok tt, ob)
              | Some sub => let '(r, b') := delete_rec delete_fuel s b sub in (r, Some b')
              end
  end.

(* levelBucket.Put *)
Definition bucket_put (ob : option batch) (h : handle) (key value : bytes) : result unit * option batch :=
  match ob with
  | None => (Err EWriteNotAllowed, ob)
  | Some b => match value with
              | [] => (Err EIllegalValue, ob)
              | _ :: _ => match key with
                          | [] => (Err EIllegalKey, ob)
                          | _ :: _ => (Ok tt, Some (batch_put b (inner_key (h_path h) key) value))
                          end
              end
  end.
(* levelBucket.Get: nil for an empty key, otherwise committed value merged with the batch *)
Definition bucket_get (s : store) (ob : option batch) (h : handle) (key : bytes) : option bytes :=
  match key with
  | [] => None
  | _ :: _ =>
      let ik := inner_key (h_path h) key in
      match s_get ik s with
      | None => match ob with None => None | Some b => fst (batch_get b ik) end
      | Some value => merged_value ob ik value
      end
  end.
(* levelBucket.Delete *)
Definition bucket_delete (ob : option batch) (h : handle) (key : bytes) : result unit * option batch :=
  match ob with
  | None => (Err EWriteNotAllowed, ob)
  | Some b => match key with
              | [] => (Ok tt, ob)
              | _ :: _ => (Ok tt, Some (batch_delete b (inner_key (h_path h) key)))
              end
  end.
(* levelBucket.GetByPrefix *)
Fixpoint gbp_committed (ob : option batch) (pl : nat) (ents : list (bytes * bytes))
  : list (bytes * bytes) * list bytes :=
  match ents with
  | [] => ([], [])
  | (key, value) :: r =>
      let '(es, set) := gbp_committed ob pl r in
      match merged_value ob key value with
      | None => (es, set)
      | Some v => ((skipn pl key, v) :: es, key :: set)
      end
  end.
Definition get_by_prefix (s : store) (ob : option batch) (h : handle) (prefix : bytes) : list (bytes * bytes) :=
  let ip := inner_key (h_path h) prefix in
  let pl := S (length (h_path h)) in
  let '(es, set) := gbp_committed ob pl (prefix_entries s ip) in
  match ob with
  | None => es
  | Some b => es ++ flat_map (fun e : bytes * bytes =>
                                if existsb (beqb (fst e)) set then [] else [(skipn pl (fst e), snd e)])
                             (net_puts_by_prefix b ip)
  end.

(* ---------- iterators *)
Inductive lpos := SOI | At (n : nat) | EOI.          (* goleveldb dbIter: dirSOI / valid / dirEOI *)
Record iter := mkIter {
  it_pl : nat;                              (* pathLen + 1 *)
  it_path : bytes;
  it_ro : bool;
  it_ents : list (bytes * bytes);           (* snapshot of the committed range, ascending *)
  it_pos : lpos;
  it_end : bool;                            (* iterEnd *)
  bi_keys : list (bytes * bytes);           (* batchIterator.keys with m, ascending *)
  bi_ptr : Z;
  bi_start : bytes;
  bi_limit : option bytes;
  bi_lower : bytes;                         (* batchIterator.lower: the range's start, fixed at creation *)
  it_clamp : bool;                          (* true: the repaired batchIterator (Seek / Reset go through from());
                                               false: the code as first found (they take the seek key as it is) *)
  it_merge : bool;                          (* true: the merging levelIterator (a write transaction's iterator shows the
                                               transaction's view); false: the code as found before that repair (the
                                               committed run followed by the run of net puts).  The fields below are
                                               used by the merging iterator only, the bi_ fields by the other only. *)
  mi_keys : list (bytes * option bytes);    (* batchIterator.keys with m: the keys of the range the batch has written,
                                               ascending; Some v = net put, None = net delete *)
  mi_ptr : nat;                             (* batchIterator.ptr *)
  mi_on_iter : bool;                        (* levelIterator.onIter / onBatch / started *)
  mi_on_batch : bool;
  mi_started : bool
}.
(* batch.netChanges(start, limit): the keys of [start, limit) in puts or deletes, ascending (sort.Strings), each with
   the pending value when its last operation is a put *)
Definition bi_in (start : bytes) (limit : option bytes) (k : bytes) : bool :=
  ble start k && match limit with None => false | Some l => blt k l end.
Definition net_changes (b : batch) (start : bytes) (limit : option bytes) : list (bytes * option bytes) :=
  let keys := fold_right (fun k acc => m_put k tt acc) [] (map fst (b_puts b) ++ map fst (b_dels b)) in
  map (fun e : bytes * unit => (fst e, fst (batch_get b (fst e))))
      (filter (fun e : bytes * unit => bi_in start limit (fst e)) keys).
(* levelBucket.NewIterator(&Range{start, limit}); a nil slice is Range{nil, nil}.
   [clamp] selects the repaired batchIterator.Seek / Reset (true) or the ones first found (false); [merge] the merging
   levelIterator (true) or the one found before that repair (false; only then does [clamp] matter). *)
Definition new_iterator_gen (clamp merge : bool) (s : store) (ob : option batch) (h : handle) (start limit : bytes) : iter :=
  let istart := inner_key (h_path h) start in
  let ilimit := match limit with
                | [] => bp_limit (inner_key (h_path h) [])
                | _ :: _ => Some (inner_key (h_path h) limit)
                end in
  mkIter (S (length (h_path h))) (h_path h)
         (match ob with None => true | Some _ => false end)
         (range_entries s istart ilimit) SOI false
         (match ob with None => [] | Some b => net_puts_by_prefix b [] end)
         (-1) istart ilimit istart clamp merge
         (match ob with None => [] | Some b => net_changes b istart ilimit end) O false false false.
(* the code as it is now *)
Definition new_iterator : store -> option batch -> handle -> bytes -> bytes -> iter := new_iterator_gen true true.

Fixpoint find_ge (k : bytes) (ents : list (bytes * bytes)) (i : nat) : option nat :=
  match ents with
  | [] => None
  | (k', _) :: r => if ble k k' then Some i else find_ge k r (S i)
  end.
(* goleveldb iterator.Seek / Next on the snapshot *)
Definition ldb_seek (it : iter) (ik : bytes) : bool * lpos :=
  match find_ge ik (it_ents it) O with Some i => (true, At i) | None => (false, EOI) end.
Definition ldb_next (it : iter) : bool * lpos :=
  match it_pos it with
  | SOI => match it_ents it with [] => (false, EOI) | _ :: _ => (true, At O) end
  | At n => if (S n <? length (it_ents it))%nat then (true, At (S n)) else (false, EOI)
  | EOI => (false, EOI)
  end.
(* batchIterator of the code before the merging repair *)
Fixpoint bi_scan (start : bytes) (limit : option bytes) (keys : list (bytes * bytes)) (i from : Z) : option Z :=
  match keys with
  | [] => None
  | (k, _) :: r => if (from <=? i) && bi_in start limit k then Some i else bi_scan start limit r (i + 1) from
  end.
Definition bi_len (it : iter) : Z := Z.of_nat (length (bi_keys it)).
Definition bi_end (it : iter) : bool := bi_len it <=? bi_ptr it.
Definition set_batch (it : iter) (ptr : Z) (start : bytes) : iter :=
  mkIter (it_pl it) (it_path it) (it_ro it) (it_ents it) (it_pos it) (it_end it) (bi_keys it) ptr start (bi_limit it)
         (bi_lower it) (it_clamp it) (it_merge it) (mi_keys it) (mi_ptr it) (mi_on_iter it) (mi_on_batch it) (mi_started it).
Definition set_ldb (it : iter) (pos : lpos) (e : bool) : iter :=
  mkIter (it_pl it) (it_path it) (it_ro it) (it_ents it) pos e (bi_keys it) (bi_ptr it) (bi_start it) (bi_limit it)
         (bi_lower it) (it_clamp it) (it_merge it) (mi_keys it) (mi_ptr it) (mi_on_iter it) (mi_on_batch it) (mi_started it).
(* batchIterator.from: the position a Seek or Reset to [k] starts at — k, or the lower bound of the range when k
   lies below it (bytes.Compare on the inner keys) *)
Definition bi_from (it : iter) (k : bytes) : bytes := if blt k (bi_lower it) then bi_lower it else k.
(* ... in the repaired code; the code as first found took k itself *)
Definition bi_pos (it : iter) (k : bytes) : bytes := if it_clamp it then bi_from it k else k.
(* batchIterator.Seek *)
Definition bi_seek (it : iter) (ik : bytes) : bool * iter :=
  let k0 := bi_pos it ik in
  match bi_scan k0 (bi_limit it) (bi_keys it) 0 0 with
  | Some i => (true, set_batch it i k0)
  | None => (false, set_batch it (bi_len it) k0)
  end.
Definition bi_next (it : iter) : bool * iter :=
  match bi_scan (bi_start it) (bi_limit it) (bi_keys it) 0 (bi_ptr it + 1) with
  | Some i => (true, set_batch it i (bi_start it))
  | None => (false, set_batch it (bi_len it) (bi_start it))
  end.
(* levelIterator.Seek of the code before the merging repair (and of read transactions) *)
Definition iter_seek_u (it : iter) (key : bytes) : bool * iter :=
  let ik := inner_key (it_path it) key in
  let '(sk, pos) := ldb_seek it ik in
  if sk then (true, if it_ro it then set_ldb it pos false else set_batch (set_ldb it pos false) (-1) (bi_pos it ik))
  else let it1 := set_ldb it pos true in
       if it_ro it then (false, it1) else bi_seek it1 ik.
(* levelIterator.Next of the code before the merging repair (and of read transactions) *)
Definition iter_next_u (it : iter) : bool * iter :=
  if it_end it then
    if it_ro it || bi_end it then (false, it) else bi_next it
  else let '(has, pos) := ldb_next it in
       if has then (true, set_ldb it pos false)
       else let it1 := set_ldb it pos true in
            if it_ro it || bi_end it1 then (false, it1) else bi_next it1.

(* ---- the merging levelIterator (write transactions).  The snapshot side is it_ents / it_pos / it_end as above, the
   batch side mi_keys / mi_ptr. *)
Definition mi_active (it : iter) : bool := negb (it_ro it) && it_merge it.
Definition set_mi (it : iter) (ptr : nat) (oi ob st : bool) : iter :=
  mkIter (it_pl it) (it_path it) (it_ro it) (it_ents it) (it_pos it) (it_end it) (bi_keys it) (bi_ptr it) (bi_start it)
         (bi_limit it) (bi_lower it) (it_clamp it) (it_merge it) (mi_keys it) ptr oi ob st.
(* iter.Key() of the snapshot iterator ([] when it is not positioned) *)
Definition mi_snap_cur (it : iter) : option (bytes * bytes) :=
  match it_pos it with At n => nth_error (it_ents it) n | _ => None end.
(* batchIterator.End / Key+Value / Deleted *)
Definition mi_bend (it : iter) : bool := (length (mi_keys it) <=? mi_ptr it)%nat.
Definition mi_batch_cur (it : iter) : option (bytes * option bytes) := nth_error (mi_keys it) (mi_ptr it).
Definition mi_deleted (it : iter) : bool :=
  match mi_batch_cur it with Some (_, None) => true | _ => false end.
(* batchIterator.Next: ptr++ unless at the end *)
Definition mi_bnext (it : iter) : nat := if mi_bend it then mi_ptr it else S (mi_ptr it).
(* sort.SearchStrings(keys, k): the first index whose key is >= k, len(keys) when there is none *)
Fixpoint mi_search (k : bytes) (keys : list (bytes * option bytes)) : nat :=
  match keys with
  | [] => O
  | (k', _) :: r => if ble k k' then O else S (mi_search k r)
  end.
(* iter.Next() of the snapshot iterator, recorded as levelIterator does: iterEnd = !iter.Next() *)
Definition mi_snap_next (it : iter) : iter := let '(has, pos) := ldb_next it in set_ldb it pos (negb has).
(* levelIterator.merge: one round of the loop per unit of fuel (every further round has consumed a batch key) *)
Fixpoint mi_merge (fuel : nat) (it : iter) : bool * iter :=
  let oi := negb (it_end it) in
  let ob := negb (mi_bend it) in
  let '(oi, ob) :=
    if oi && ob
    then match bcmp (match mi_snap_cur it with Some (k, _) => k | None => [] end)
                    (match mi_batch_cur it with Some (k, _) => k | None => [] end) with
         | Lt => (true, false) | Eq => (true, true) | Gt => (false, true)
         end
    else (oi, ob) in
  if negb ob || negb (mi_deleted it) then (oi || ob, set_mi it (mi_ptr it) oi ob (mi_started it))
  else match fuel with
       | O => (false, set_mi it (mi_ptr it) false false (mi_started it))
       | S f => let it1 := if oi then mi_snap_next it else it in
                mi_merge f (set_mi it1 (mi_bnext it1) oi ob (mi_started it1))
       end.
Definition mi_fuel (it : iter) : nat := S (length (mi_keys it)).
(* levelIterator.Seek in a write transaction *)
Definition mi_seek (it : iter) (key : bytes) : bool * iter :=
  let ik := inner_key (it_path it) key in
  let '(sk, pos) := ldb_seek it ik in
  let it1 := set_ldb it pos (negb sk) in
  mi_merge (mi_fuel it) (set_mi it1 (mi_search ik (mi_keys it1)) (mi_on_iter it1) (mi_on_batch it1) true).
(* levelIterator.Next in a write transaction *)
Definition mi_next (it : iter) : bool * iter :=
  let it1 := if mi_on_iter it || negb (mi_started it) then mi_snap_next it else it in
  let it2 := set_mi it1 (if mi_on_batch it1 then mi_bnext it1 else mi_ptr it1) (mi_on_iter it1) (mi_on_batch it1) true in
  mi_merge (mi_fuel it) it2.

(* levelIterator.Seek / Next *)
Definition iter_seek (it : iter) (key : bytes) : bool * iter :=
  if mi_active it then mi_seek it key else iter_seek_u it key.
Definition iter_next (it : iter) : bool * iter :=
  if mi_active it then mi_next it else iter_next_u it.

Definition nth_entry (l : list (bytes * bytes)) (i : Z) : option (bytes * bytes) :=
  if i <? 0 then None else nth_error l (Z.to_nat i).
Definition iter_raw_u (it : iter) : option (bytes * bytes) :=
  if negb (it_end it) then match it_pos it with At n => nth_error (it_ents it) n | _ => None end
  else if negb (it_ro it) && negb (bi_end it) then nth_entry (bi_keys it) (bi_ptr it)
  else None.
Definition mi_raw (it : iter) : option (bytes * bytes) :=
  if mi_on_batch it
  then match mi_batch_cur it with Some (k, Some v) => Some (k, v) | Some (k, None) => Some (k, []) | None => None end
  else if mi_on_iter it then mi_snap_cur it
  else None.
Definition iter_raw (it : iter) : option (bytes * bytes) := if mi_active it then mi_raw it else iter_raw_u it.
(* levelIterator.Key: nil unless positioned; Value: empty unless positioned *)
Definition iter_key (it : iter) : option bytes :=
  match iter_raw it with
  | Some (k, _) => match k with [] => None | _ :: _ => Some (skipn (it_pl it) k) end
  | None => None
  end.
Definition iter_value (it : iter) : bytes :=
  match iter_raw it with Some (_, v) => v | None => [] end.

(* everything a read-only iterator yields from its current position by Next() until false *)
Fixpoint drain (fuel : nat) (it : iter) : list (bytes * bytes) :=
  match fuel with
  | O => []
  | S f => let '(ok, it') := iter_next it in
           if ok then match iter_key it' with
                      | Some k => (k, iter_value it') :: drain f it'
                      | None => drain f it'
                      end
           else []
  end.

(* ---------- the operation language of the correspondence runs (cmd/c11) and its interpreter *)
Inductive op :=
| OBegin (w : bool) | OCommit | ORollback | OREnd | OUBegin | OUEnd (fail : bool) | OClose | OReopen | ODump
| OTop (w : bool) (dst : nat) (name : bytes)
| OCreateTop (dst : nat) (name : bytes)
| ODeleteTop (name : bytes)
| OTxNames (w : bool)
| OFetch (w : bool) (dst src : nat)
| ONew (dst src : nat) (name : bytes)
| OBucket (dst src : nat) (name : bytes)
| ODelBucket (src : nat) (name : bytes)
| ONames (src : nat)
| OPut (src : nat) (k v : bytes)
| ODel (src : nat) (k : bytes)
| OGet (src : nat) (k : bytes)
| OClear (src : nat)
| OPfx (src : nat) (p : bytes)
| OIter (dst src : nat) (mode : nat) (start limit : bytes)   (* 0: nil slice, 1: Range{start,limit}, 2: db.BytesPrefix(start) *)
| OSeek (i : nat) (k : bytes)
| ONext (i : nat)
| ORelease (i : nat)
| OBytesPrefix (p : bytes).

Inductive res :=
| RSkip | ROk | RNil | RErr (e : err)
| RVal (v : bytes)
| RNames (l : list bytes)
| REntries (l : list (bytes * bytes))
| RIter (b : bool) (k : option bytes) (v : bytes)
| RRange (start : bytes) (limit : option bytes)
| RDump (l : list (bytes * result (list (bytes * bytes)))).

Record state := mkState {
  st_store : store;                          (* the committed LevelDB *)
  st_open : bool;                            (* LevelDB.closed = false *)
  st_wtx : option batch;                     (* open write transaction *)
  st_upd : bool;                             (* ... opened by db.Update *)
  st_rtx : option store;                     (* open read transaction: the store committed when it began *)
  st_bs : list (option (bool * handle));     (* bucket slots: (belongs to the write tx, handle) *)
  st_is : list (option (bool * iter))        (* iterator slots *)
}.
Definition nslots : nat := 8.
Definition init_state : state := mkState [] true None false None (repeat None nslots) (repeat None nslots).

Fixpoint set_nth {A} (n : nat) (x : A) (l : list A) : list A :=
  match l, n with
  | [], _ => []
  | _ :: r, O => x :: r
  | y :: r, S m => y :: set_nth m x r
  end.
Definition get_slot {A} (n : nat) (l : list (option A)) : option A :=
  match nth_error l n with Some (Some x) => Some x | _ => None end.
Definition drop_tx {A} (w : bool) (l : list (option (bool * A))) : list (option (bool * A)) :=
  map (fun o => match o with Some (w', x) => if Bool.eqb w w' then None else o | None => None end) l.

Definition with_batch (st : state) (ob : option batch) : state :=
  mkState (st_store st) (st_open st) ob (st_upd st) (st_rtx st) (st_bs st) (st_is st).
Definition with_bs (st : state) (bs : list (option (bool * handle))) : state :=
  mkState (st_store st) (st_open st) (st_wtx st) (st_upd st) (st_rtx st) bs (st_is st).
Definition with_is (st : state) (l : list (option (bool * iter))) : state :=
  mkState (st_store st) (st_open st) (st_wtx st) (st_upd st) (st_rtx st) (st_bs st) l.
Definition with_open (st : state) (o : bool) : state :=
  mkState (st_store st) o (st_wtx st) (st_upd st) (st_rtx st) (st_bs st) (st_is st).
Definition end_wtx (st : state) (s : store) : state :=
  mkState s (st_open st) None false (st_rtx st) (drop_tx true (st_bs st)) (drop_tx true (st_is st)).

(* The store and batch a transaction reads through; None = that transaction is not open.
   A write transaction reads the database itself plus its batch (tx.get / tx.iter with snap = nil).
   A read transaction: with [snap = true] (the repaired code: BeginReadTx takes GetSnapshot, every read of the
   transaction is served from it) the store committed when it began; with [snap = false] (the code as first
   found) whatever is committed at the moment of each read. *)
Definition tx_view (snap : bool) (st : state) (w : bool) : option (store * option batch) :=
  if w then match st_wtx st with Some b => Some (st_store st, Some b) | None => None end
  else match st_rtx st with
       | Some s0 => Some (if snap then s0 else st_store st, None)
       | None => None
       end.
Definition put_handle (st : state) (w : bool) (dst : nat) (oh : option handle) : state * res :=
  match oh with
  | Some h => (with_bs st (set_nth dst (Some (w, h)) (st_bs st)), ROk)
  | None => (with_bs st (set_nth dst None (st_bs st)), RNil)
  end.
Definition res_of_unit (r : result unit) : res := match r with Ok _ => ROk | Err e => RErr e end.
(* writes through a slot: the batch is only ever the write transaction's *)
Definition store_batch (st : state) (w : bool) (ob : option batch) : state :=
  if w then with_batch st ob else st.

Definition dump_fuel : nat := 12.
Fixpoint dump_rec (fuel : nat) (s : store) (h : handle) : list (bytes * result (list (bytes * bytes))) :=
  match fuel with
  | O => []
  | S f =>
      match bucket_names s None h with
      | Err e => [(h_path h, Err e)]
      | Ok names =>
          (h_path h, Ok (get_by_prefix s None h []))
            :: flat_map (fun n => match bucket s None h n with
                                  | Some sub => dump_rec f s sub
                                  | None => [(n, Err EBucketNotFound)]
                                  end) names
      end
  end.
Definition dump (s : store) : list (bytes * result (list (bytes * bytes))) :=
  match tx_bucket_names s None with
  | Err e => [([], Err e)]
  | Ok names => flat_map (fun n => match top_level_bucket s None n with
                                   | Some h => dump_rec dump_fuel s h
                                   | None => [(n, Err EBucketNotFound)]
                                   end) names
  end.

(* operations through a bucket slot: the slot's handle and the view of its transaction *)
Definition slot_view (snap : bool) (st : state) (src : nat) : option (bool * handle * store * option batch) :=
  match get_slot src (st_bs st) with
  | None => None
  | Some (w, h) => match tx_view snap st w with
                   | None => None
                   | Some (vs, ob) => Some (w, h, vs, ob)
                   end
  end.

Definition step_gen (snap : bool) (st : state) (o : op) : state * res :=
  let s := st_store st in
  match o with
  | OBegin true =>
      match st_wtx st with
      | Some _ => (st, RSkip)
      | None => if st_open st then (with_batch st (Some empty_batch), ROk) else (st, RErr EClosed)
      end
  | OBegin false =>
      match st_rtx st with
      | Some _ => (st, RSkip)
      | None => if st_open st
                then (mkState s true (st_wtx st) (st_upd st) (Some s) (st_bs st) (st_is st), ROk)
                else (st, RErr EClosed)
      end
  | OCommit =>
      match st_wtx st with
      | Some b => if st_upd st then (st, RSkip) else (end_wtx st (commit s b), ROk)
      | None => (st, RSkip)
      end
  | ORollback =>
      match st_wtx st with
      | Some b => if st_upd st then (st, RSkip) else (end_wtx st (rollback s b), ROk)
      | None => (st, RSkip)
      end
  | OREnd =>
      match st_rtx st with
      | Some _ => (mkState s (st_open st) (st_wtx st) (st_upd st) None (drop_tx false (st_bs st)) (drop_tx false (st_is st)), ROk)
      | None => (st, RSkip)
      end
  | OUBegin =>
      match st_wtx st with
      | Some _ => (st, RSkip)
      | None => if st_open st
                then (mkState s true (Some empty_batch) true (st_rtx st) (st_bs st) (st_is st), ROk)
                else (st, RErr EClosed)
      end
  | OUEnd fail =>
      match st_wtx st with
      | Some b => if st_upd st
                  then if fail then (end_wtx st (rollback s b), RErr EOther)
                       else (end_wtx st (commit s b), ROk)
                  else (st, RSkip)
      | None => (st, RSkip)
      end
  | OClose =>
      match st_wtx st, st_rtx st with
      | None, None => if st_open st then (with_open st false, ROk) else (st, RSkip)
      | _, _ => (st, RSkip)
      end
  | OReopen =>
      match st_wtx st, st_rtx st with
      | None, None => (with_open st true, ROk)
      | _, _ => (st, RSkip)
      end
  | ODump => if st_open st then (st, RDump (dump s)) else (st, RDump [([], Err EClosed)])
  | OTop w dst name =>
      match tx_view snap st w with
      | None => (st, RSkip)
      | Some (vs, ob) => put_handle st w dst (top_level_bucket vs ob name)
      end
  | OCreateTop dst name =>
      match st_wtx st with
      | None => (st, RSkip)
      | Some b => match create_top_level s b name with
                  | (Ok h, b') => (with_bs (with_batch st (Some b')) (set_nth dst (Some (true, h)) (st_bs st)), ROk)
                  | (Err e, b') => (with_batch st (Some b'), RErr e)
                  end
      end
  | ODeleteTop name =>
      match st_wtx st with
      | None => (st, RSkip)
      | Some _ => (st, RErr ENotSupported)
      end
  | OTxNames w =>
      match tx_view snap st w with
      | None => (st, RSkip)
      | Some (vs, ob) => match tx_bucket_names vs ob with Ok l => (st, RNames l) | Err e => (st, RErr e) end
      end
  | OFetch w dst src =>
      match tx_view snap st w, get_slot src (st_bs st) with
      | Some (vs, ob), Some (_, h) => put_handle st w dst (fetch_bucket vs ob h)
      | _, _ => (st, RSkip)
      end
  | ONew dst src name =>
      match slot_view snap st src with
      | None => (st, RSkip)
      | Some (w, h, vs, ob) =>
          match new_bucket vs ob h name with
          | (Ok sub, ob') => (with_bs (store_batch st w ob') (set_nth dst (Some (w, sub)) (st_bs st)), ROk)
          | (Err e, ob') => (store_batch st w ob', RErr e)
          end
      end
  | OBucket dst src name =>
      match slot_view snap st src with
      | None => (st, RSkip)
      | Some (w, h, vs, ob) => put_handle st w dst (bucket vs ob h name)
      end
  | ODelBucket src name =>
      match slot_view snap st src with
      | None => (st, RSkip)
      | Some (w, h, vs, ob) => let '(r, ob') := delete_bucket vs ob h name in (store_batch st w ob', res_of_unit r)
      end
  | ONames src =>
      match slot_view snap st src with
      | None => (st, RSkip)
      | Some (w, h, vs, ob) => match bucket_names vs ob h with Ok l => (st, RNames l) | Err e => (st, RErr e) end
      end
  | OPut src k v =>
      match slot_view snap st src with
      | None => (st, RSkip)
      | Some (w, h, vs, ob) => let '(r, ob') := bucket_put ob h k v in (store_batch st w ob', res_of_unit r)
      end
  | ODel src k =>
      match slot_view snap st src with
      | None => (st, RSkip)
      | Some (w, h, vs, ob) => let '(r, ob') := bucket_delete ob h k in (store_batch st w ob', res_of_unit r)
      end
  | OGet src k =>
      match slot_view snap st src with
      | None => (st, RSkip)
      | Some (w, h, vs, ob) => match bucket_get vs ob h k with Some v => (st, RVal v) | None => (st, RNil) end
      end
  | OClear src =>
      match slot_view snap st src with
      | None => (st, RSkip)
      | Some (w, h, vs, ob) => let '(r, ob') := clear vs ob h in (store_batch st w ob', res_of_unit r)
      end
  | OPfx src p =>
      match slot_view snap st src with
      | None => (st, RSkip)
      | Some (w, h, vs, ob) => (st, REntries (get_by_prefix vs ob h p))
      end
  | OIter dst src mode start limit =>
      match slot_view snap st src with
      | None => (st, RSkip)
      | Some (w, h, vs, ob) =>
          let '(a, l) := match mode with
                         | O => ([], [])
                         | S O => (start, limit)
                         | _ => match bytes_prefix start with (a, Some l) => (a, l) | (a, None) => (a, []) end
                         end in
          (with_is st (set_nth dst (Some (w, new_iterator vs ob h a l)) (st_is st)), ROk)
      end
  | OSeek i k =>
      match get_slot i (st_is st) with
      | None => (st, RSkip)
      | Some (w, it) => let '(b, it') := iter_seek it k in
                        (with_is st (set_nth i (Some (w, it')) (st_is st)), RIter b (iter_key it') (iter_value it'))
      end
  | ONext i =>
      match get_slot i (st_is st) with
      | None => (st, RSkip)
      | Some (w, it) => let '(b, it') := iter_next it in
                        (with_is st (set_nth i (Some (w, it')) (st_is st)), RIter b (iter_key it') (iter_value it'))
      end
  | ORelease i =>
      match get_slot i (st_is st) with
      | None => (st, RSkip)
      | Some _ => (with_is st (set_nth i None (st_is st)), ROk)
      end
  | OBytesPrefix p => let '(a, l) := bytes_prefix p in (st, RRange a l)
  end.

(* the code as it is now (read transactions read one snapshot; batchIterator.Seek / Reset never go below the range's
   start) and as it was first found (reads of a read transaction not from one snapshot) *)
Definition step : state -> op -> state * res := step_gen true.
Definition step_unrepaired : state -> op -> state * res := step_gen false.

(* the levelIterator as found before the merging repair, and (step_seek_unrepaired) as first found, with the
   batchIterator whose Seek / Reset take the seek key as it is, also below the range's start: the same
   step, every iterator carrying [it_merge = false], and [it_clamp = false] in the second.  The switch is a field of the iterator that no operation changes,
   so clearing it after every step is creating every iterator with [new_iterator_gen false]. *)
Definition it_unclamp (it : iter) : iter :=
  mkIter (it_pl it) (it_path it) (it_ro it) (it_ents it) (it_pos it) (it_end it) (bi_keys it) (bi_ptr it) (bi_start it)
         (bi_limit it) (bi_lower it) false false (mi_keys it) (mi_ptr it) (mi_on_iter it) (mi_on_batch it) (mi_started it).
Definition it_unmerge (it : iter) : iter :=
  mkIter (it_pl it) (it_path it) (it_ro it) (it_ents it) (it_pos it) (it_end it) (bi_keys it) (bi_ptr it) (bi_start it)
         (bi_limit it) (bi_lower it) (it_clamp it) false (mi_keys it) (mi_ptr it) (mi_on_iter it) (mi_on_batch it) (mi_started it).
Definition unclamp_all (st : state) : state :=
  with_is st (map (fun o : option (bool * iter) =>
                     match o with Some (w, it) => Some (w, it_unclamp it) | None => None end) (st_is st)).
Definition step_seek_unrepaired (st : state) (o : op) : state * res :=
  let '(st', r) := step_gen true st o in (unclamp_all st', r).
Definition unmerge_all (st : state) : state :=
  with_is st (map (fun o : option (bool * iter) =>
                     match o with Some (w, it) => Some (w, it_unmerge it) | None => None end) (st_is st)).
(* the code before the merging repair of levelIterator (batchIterator.Seek / Reset already repaired) *)
Definition step_iter_unmerged (st : state) (o : op) : state * res :=
  let '(st', r) := step_gen true st o in (unmerge_all st', r).
