(* KV/Spec — the SPECIFICATION of the wallet database (property C11), as a small abstract machine.
   Definitions only.  No key encoding, no batch, no sequence numbers, no merging: the database is a set of existing
   buckets (name tuples) and, per bucket, a map key -> value; a write transaction works on a COPY of the committed
   content and installs it at commit (drops it at rollback); a read transaction reads the content committed when it
   began; listings and iterators return the matching entries of the applicable content in ascending key order.
   It is the Coq form of the Go reference map of the test harness (/verif/harness/cmd/c11/main.go, refState), over the
   SAME operation language [op] and result type [res] as the model's [step] (KV/Model.v).
   Where the property text is silent the specification answers [Unspecified] (the harness' "tainted"): after such a
   step the refinement theorem (KV/Refine.v, C11_refines_abstract_map) claims nothing.  These are: NewBucket under a parent
   that no longer exists, NewBucket of a bucket this transaction has already created (C11_create_twice_refuted), Put
   through the handle of a bucket that no longer exists, the look-up of a committed bucket this transaction has deleted
   (C11_lookup_after_delete_refuted), and DeleteBucket of a subtree deeper than the model's recursion bound.
   Reused from Model.v: the types [bytes], [op], [res], [err]; byte-string order [ble]/[blt]/[beqb], [has_prefix];
   the ordered finite map on byte strings [amap] with [m_get]/[m_put]/[m_del] (insertion keeps keys ascending);
   the generic slot helpers [set_nth]/[get_slot]/[drop_tx]; [is_valid_bucket_name] (the API's rule: non-empty, at most
   256 bytes, no '_'); [bytes_prefix] (db.BytesPrefix, characterised by C11_bytes_prefix); [delete_fuel] / [dump_fuel]
   (the model's recursion bounds for DeleteBucket and the dump) and [path_of] (the label the dump prints for a bucket). *)
From Coq Require Import List ZArith Bool.
Import ListNotations.
Require Import MW.KV.Model.

Definition path := list bytes.                      (* a bucket: its name tuple, outermost first *)
Fixpoint path_eqb (p q : path) : bool :=
  match p, q with
  | [], [] => true
  | a :: p', b :: q' => beqb a b && path_eqb p' q'
  | _, _ => false
  end.

(* ---------- one content of the database *)
Record content := mkContent {
  c_bk : list path;                                 (* the buckets that exist *)
  c_kv : list (path * amap bytes)                   (* bucket -> (key -> value); the first binding of a bucket counts *)
}.
Definition empty_content : content := mkContent [] [].
Definition has_bucket (c : content) (p : path) : bool := existsb (path_eqb p) (c_bk c).
Fixpoint kv_lookup (l : list (path * amap bytes)) (p : path) : amap bytes :=
  match l with
  | [] => []
  | (q, m) :: r => if path_eqb p q then m else kv_lookup r p
  end.
Definition entries (c : content) (p : path) : amap bytes := kv_lookup (c_kv c) p.
Definition set_entries (c : content) (p : path) (m : amap bytes) : content := mkContent (c_bk c) ((p, m) :: c_kv c).
Definition add_bucket (c : content) (p : path) : content :=
  if has_bucket c p then c else mkContent (p :: c_bk c) (c_kv c).

(* ---------- nested buckets.  [is_prefix q p]: bucket p is q or lies below q *)
Fixpoint is_prefix (q p : path) : bool :=
  match q, p with
  | [], _ => true
  | a :: q', b :: p' => beqb a b && is_prefix q' p'
  | _ :: _, [] => false
  end.
(* DeleteBucket: the bucket q and everything below it disappears, buckets and entries *)
Definition remove_tree (c : content) (q : path) : content :=
  mkContent (filter (fun p => negb (is_prefix q p)) (c_bk c))
            (filter (fun e : path * amap bytes => negb (is_prefix q (fst e))) (c_kv c)).
(* the number of nesting levels that exist below q *)
Definition height (c : content) (q : path) : nat :=
  list_max (map (fun p => if is_prefix q p then length p - length q else 0)%nat (c_bk c)).
(* [child_of p q] = Some n when q = p ++ [n] *)
Fixpoint child_of (p q : path) : option bytes :=
  match p, q with
  | [], [n] => Some n
  | a :: p', b :: q' => if beqb a b then child_of p' q' else None
  | _, _ => None
  end.
Fixpoint dedup (l : list bytes) : list bytes :=
  match l with
  | [] => []
  | x :: r => if existsb (beqb x) r then dedup r else x :: dedup r
  end.
(* BucketNames: the names of the buckets directly below p (p = []: the top-level buckets), each once *)
Definition children (c : content) (p : path) : list bytes :=
  dedup (flat_map (fun q => match child_of p q with Some n => [n] | None => [] end) (c_bk c)).
(* the dump of the committed content: a bucket is labelled with the string "<depth>_<name1>_..._<nameDepth>" ([path_of]) *)
Fixpoint sdump_rec (fuel : nat) (c : content) (p : path) : list (bytes * result (list (bytes * bytes))) :=
  match fuel with
  | O => []
  | S f => (path_of p, Ok (entries c p)) :: flat_map (fun n => sdump_rec f c (p ++ [n])) (children c p)
  end.
Definition sdump (c : content) : list (bytes * result (list (bytes * bytes))) :=
  flat_map (fun n => sdump_rec dump_fuel c [n]) (children c []).
(* no orphans: a nested bucket's parent exists, and entries are in buckets that exist *)
Definition cclosed (c : content) : Prop :=
  (forall p n, has_bucket c (p ++ [n]) = true -> p <> [] -> has_bucket c p = true) /\
  (forall p, entries c p <> [] -> has_bucket c p = true).

(* ---------- iterators: the entries of the range as of creation (ascending), and what is left from the current entry on *)
Record siter := mkSIter {
  si_all : list (bytes * bytes);
  si_rest : list (bytes * bytes);                   (* not fresh: current entry = head; [] = past the end *)
  si_fresh : bool                                   (* created, not yet moved: before the first entry *)
}.
(* Range{start, limit}: start <= key, and key < limit unless limit is empty *)
Definition sel_range (start limit k : bytes) : bool :=
  ble start k && match limit with [] => true | _ :: _ => blt k limit end.
(* mode 0: NewIterator(nil); 1: Range{start, limit}; otherwise: the range db.BytesPrefix(start) *)
Definition iter_bounds (mode : nat) (start limit : bytes) : bytes * bytes :=
  match mode with
  | O => ([], [])
  | S O => (start, limit)
  | _ => match bytes_prefix start with (a, Some l) => (a, l) | (a, None) => (a, []) end
  end.
Definition siter_new (m : amap bytes) (mode : nat) (start limit : bytes) : siter :=
  let '(a, l) := iter_bounds mode start limit in
  let all := filter (fun e => sel_range a l (fst e)) m in mkSIter all all true.
Definition siter_seek (it : siter) (k : bytes) : siter :=
  mkSIter (si_all it) (filter (fun e => ble k (fst e)) (si_all it)) false.
Definition siter_next (it : siter) : siter :=
  mkSIter (si_all it) (if si_fresh it then si_rest it else tl (si_rest it)) false.
Definition siter_out (it : siter) : res :=
  match si_rest it with (k, v) :: _ => RIter true (Some k) v | [] => RIter false None [] end.

(* ---------- the abstract state *)
Record sstate := mkS {
  s_committed : content;
  s_isopen : bool;
  s_pending : option content;                       (* open write transaction: its working copy *)
  s_inupd : bool;                                   (* ... opened by db.Update *)
  s_snapshot : option content;                      (* open read transaction: the content committed when it began *)
  s_bs : list (option (bool * path));               (* bucket slots: (belongs to the write tx, bucket) *)
  s_is : list (option (bool * siter))               (* iterator slots *)
}.
Definition spec_init : sstate := mkS empty_content true None false None (repeat None nslots) (repeat None nslots).

Inductive sres := Spec (r : res) | Unspecified.

Definition s_with_pending (ss : sstate) (oc : option content) : sstate :=
  mkS (s_committed ss) (s_isopen ss) oc (s_inupd ss) (s_snapshot ss) (s_bs ss) (s_is ss).
Definition s_with_bs (ss : sstate) (bs : list (option (bool * path))) : sstate :=
  mkS (s_committed ss) (s_isopen ss) (s_pending ss) (s_inupd ss) (s_snapshot ss) bs (s_is ss).
Definition s_with_is (ss : sstate) (l : list (option (bool * siter))) : sstate :=
  mkS (s_committed ss) (s_isopen ss) (s_pending ss) (s_inupd ss) (s_snapshot ss) (s_bs ss) l.
Definition s_with_open (ss : sstate) (o : bool) : sstate :=
  mkS (s_committed ss) o (s_pending ss) (s_inupd ss) (s_snapshot ss) (s_bs ss) (s_is ss).
(* the write transaction ends; [c] is the committed content from now on *)
Definition s_end_wtx (ss : sstate) (c : content) : sstate :=
  mkS c (s_isopen ss) None false (s_snapshot ss) (drop_tx true (s_bs ss)) (drop_tx true (s_is ss)).

(* the content a transaction works on *)
Definition s_view (ss : sstate) (w : bool) : option content := if w then s_pending ss else s_snapshot ss.
(* a bucket slot whose transaction is open: (write?, bucket, content) *)
Definition s_slot (ss : sstate) (src : nat) : option (bool * path * content) :=
  match get_slot src (s_bs ss) with
  | None => None
  | Some (w, p) => match s_view ss w with None => None | Some c => Some (w, p, c) end
  end.
Definition s_put_slot (ss : sstate) (w : bool) (dst : nat) (p : path) (found : bool) : sstate * sres :=
  if found then (s_with_bs ss (set_nth dst (Some (w, p)) (s_bs ss)), Spec ROk)
  else (s_with_bs ss (set_nth dst None (s_bs ss)), Spec RNil).
(* lookup of bucket [p] in the transaction's content.  A bucket that is committed but was deleted by this very write
   transaction: the property text does not say whether the lookup still answers *)
Definition s_lookup (ss : sstate) (w : bool) (c : content) (dst : nat) (p : path) : sstate * sres :=
  if has_bucket c p then s_put_slot ss w dst p true
  else if w && has_bucket (s_committed ss) p then (ss, Unspecified)
  else s_put_slot ss w dst p false.

Definition spec_step (ss : sstate) (o : op) : sstate * sres :=
  match o with
  | OBegin true =>
      match s_pending ss with
      | Some _ => (ss, Spec RSkip)
      | None => if s_isopen ss then (s_with_pending ss (Some (s_committed ss)), Spec ROk) else (ss, Spec (RErr EClosed))
      end
  | OUBegin =>
      match s_pending ss with
      | Some _ => (ss, Spec RSkip)
      | None => if s_isopen ss
                then (mkS (s_committed ss) true (Some (s_committed ss)) true (s_snapshot ss) (s_bs ss) (s_is ss), Spec ROk)
                else (ss, Spec (RErr EClosed))
      end
  | OBegin false =>
      match s_snapshot ss with
      | Some _ => (ss, Spec RSkip)
      | None => if s_isopen ss
                then (mkS (s_committed ss) true (s_pending ss) (s_inupd ss) (Some (s_committed ss)) (s_bs ss) (s_is ss), Spec ROk)
                else (ss, Spec (RErr EClosed))
      end
  | OCommit =>
      match s_pending ss with
      | Some c => if s_inupd ss then (ss, Spec RSkip) else (s_end_wtx ss c, Spec ROk)
      | None => (ss, Spec RSkip)
      end
  | ORollback =>
      match s_pending ss with
      | Some _ => if s_inupd ss then (ss, Spec RSkip) else (s_end_wtx ss (s_committed ss), Spec ROk)
      | None => (ss, Spec RSkip)
      end
  | OUEnd fail =>
      match s_pending ss with
      | Some c => if s_inupd ss
                  then if fail then (s_end_wtx ss (s_committed ss), Spec (RErr EOther)) else (s_end_wtx ss c, Spec ROk)
                  else (ss, Spec RSkip)
      | None => (ss, Spec RSkip)
      end
  | OREnd =>
      match s_snapshot ss with
      | Some _ => (mkS (s_committed ss) (s_isopen ss) (s_pending ss) (s_inupd ss) None
                       (drop_tx false (s_bs ss)) (drop_tx false (s_is ss)), Spec ROk)
      | None => (ss, Spec RSkip)
      end
  (* closing and reopening keeps everything committed *)
  | OClose =>
      match s_pending ss, s_snapshot ss with
      | None, None => if s_isopen ss then (s_with_open ss false, Spec ROk) else (ss, Spec RSkip)
      | _, _ => (ss, Spec RSkip)
      end
  | OReopen =>
      match s_pending ss, s_snapshot ss with
      | None, None => (s_with_open ss true, Spec ROk)
      | _, _ => (ss, Spec RSkip)
      end
  | OTop w dst name =>
      match s_view ss w with
      | None => (ss, Spec RSkip)
      | Some c => s_lookup ss w c dst [name]
      end
  | OCreateTop dst name =>
      match s_pending ss with
      | None => (ss, Spec RSkip)
      | Some c =>
          if negb (is_valid_bucket_name name) then (ss, Spec (RErr EInvalidBucketName))
          else if has_bucket (s_committed ss) [name] && has_bucket c [name] then (ss, Spec (RErr EBucketExist))
          else (s_with_bs (s_with_pending ss (Some (add_bucket c [name]))) (set_nth dst (Some (true, [name])) (s_bs ss)), Spec ROk)
      end
  | ODeleteTop _ =>
      match s_pending ss with None => (ss, Spec RSkip) | Some _ => (ss, Spec (RErr ENotSupported)) end
  | OPut src k v =>
      match s_slot ss src with
      | None => (ss, Spec RSkip)
      | Some (false, _, _) => (ss, Spec (RErr EWriteNotAllowed))
      | Some (true, p, c) =>
          match v, k with
          | [], _ => (ss, Spec (RErr EIllegalValue))
          | _ :: _, [] => (ss, Spec (RErr EIllegalKey))
          | _ :: _, _ :: _ =>
              if has_bucket c p then (s_with_pending ss (Some (set_entries c p (m_put k v (entries c p)))), Spec ROk)
              else (ss, Unspecified)             (* a write through the handle of a deleted bucket *)
          end
      end
  | ODel src k =>
      match s_slot ss src with
      | None => (ss, Spec RSkip)
      | Some (false, _, _) => (ss, Spec (RErr EWriteNotAllowed))
      | Some (true, p, c) =>
          match k with
          | [] => (ss, Spec ROk)
          | _ :: _ => (s_with_pending ss (Some (set_entries c p (m_del k (entries c p)))), Spec ROk)
          end
      end
  | OClear src =>
      match s_slot ss src with
      | None => (ss, Spec RSkip)
      | Some (false, _, _) => (ss, Spec (RErr EWriteNotAllowed))
      | Some (true, p, c) => (s_with_pending ss (Some (set_entries c p [])), Spec ROk)
      end
  | OGet src k =>
      match s_slot ss src with
      | None => (ss, Spec RSkip)
      | Some (_, p, c) =>
          match k with
          | [] => (ss, Spec RNil)
          | _ :: _ => match m_get k (entries c p) with Some v => (ss, Spec (RVal v)) | None => (ss, Spec RNil) end
          end
      end
  (* listings are compared as sets (the order of GetByPrefix is not part of the API): see [res_equiv] in Refine.v *)
  | OPfx src pre =>
      match s_slot ss src with
      | None => (ss, Spec RSkip)
      | Some (_, p, c) => (ss, Spec (REntries (filter (fun e => has_prefix pre (fst e)) (entries c p))))
      end
  | OIter dst src mode start limit =>
      match s_slot ss src with
      | None => (ss, Spec RSkip)
      | Some (w, p, c) => (s_with_is ss (set_nth dst (Some (w, siter_new (entries c p) mode start limit)) (s_is ss)), Spec ROk)
      end
  | OSeek i k =>
      match get_slot i (s_is ss) with
      | None => (ss, Spec RSkip)
      | Some (w, it) => let it' := siter_seek it k in
                        (s_with_is ss (set_nth i (Some (w, it')) (s_is ss)), Spec (siter_out it'))
      end
  | ONext i =>
      match get_slot i (s_is ss) with
      | None => (ss, Spec RSkip)
      | Some (w, it) => let it' := siter_next it in
                        (s_with_is ss (set_nth i (Some (w, it')) (s_is ss)), Spec (siter_out it'))
      end
  | ORelease i =>
      match get_slot i (s_is ss) with
      | None => (ss, Spec RSkip)
      | Some _ => (s_with_is ss (set_nth i None (s_is ss)), Spec ROk)
      end
  | OBytesPrefix p => let '(a, l) := bytes_prefix p in (ss, Spec (RRange a l))
  (* ---- nested buckets *)
  (* Bucket(name) through a bucket handle: the child p ++ [name] in the transaction's content *)
  | OBucket dst src name =>
      match s_slot ss src with
      | None => (ss, Spec RSkip)
      | Some (w, p, c) => s_lookup ss w c dst (p ++ [name])
      end
  (* FetchBucket(meta of a handle): the same bucket, looked up in transaction w *)
  | OFetch w dst src =>
      match s_view ss w, get_slot src (s_bs ss) with
      | Some c, Some (_, p) => s_lookup ss w c dst p
      | _, _ => (ss, Spec RSkip)
      end
  (* NewBucket(name) through a bucket handle *)
  | ONew dst src name =>
      match s_slot ss src with
      | None => (ss, Spec RSkip)
      | Some (false, _, _) => (ss, Spec (RErr EWriteNotAllowed))
      | Some (true, p, c) =>
          let q := p ++ [name] in
          if negb (is_valid_bucket_name name) then (ss, Spec (RErr EInvalidBucketName))
          else if negb (has_bucket c p) then (ss, Unspecified)      (* created under a parent that no longer exists *)
          else if has_bucket c q
               then if has_bucket (s_committed ss) q then (ss, Spec (RErr EBucketExist))
                    else (ss, Unspecified)                          (* created twice in one transaction (C11_create_twice_refuted) *)
               else (s_with_bs (s_with_pending ss (Some (add_bucket c q))) (set_nth dst (Some (true, q)) (s_bs ss)), Spec ROk)
      end
  (* DeleteBucket(name): the child and everything below it goes; nil also when there is no such child.
     The model's recursion is bounded by [delete_fuel] levels: deeper subtrees are outside the model *)
  | ODelBucket src name =>
      match s_slot ss src with
      | None => (ss, Spec RSkip)
      | Some (false, _, _) => (ss, Spec (RErr EWriteNotAllowed))
      | Some (true, p, c) =>
          let q := p ++ [name] in
          if (delete_fuel <=? height c q)%nat then (ss, Unspecified)
          else (s_with_pending ss (Some (remove_tree c q)), Spec ROk)
      end
  (* bucket listings (compared as sets, see [res_equiv]) *)
  | ONames src =>
      match s_slot ss src with
      | None => (ss, Spec RSkip)
      | Some (_, p, c) => (ss, Spec (RNames (children c p)))
      end
  | OTxNames w =>
      match s_view ss w with
      | None => (ss, Spec RSkip)
      | Some c => (ss, Spec (RNames (children c [])))
      end
  (* the dump (a diagnostic of the harness): every committed bucket reachable from the top level, at most [dump_fuel]
     levels deep, labelled with its path string, with its entries *)
  | ODump => if s_isopen ss then (ss, Spec (RDump (sdump (s_committed ss)))) else (ss, Spec (RDump [([], Err EClosed)]))
  end.

(* the outputs of the specification along an operation sequence, up to the first unspecified step (exclusive) *)
Fixpoint spec_run (ss : sstate) (ops : list op) : list res :=
  match ops with
  | [] => []
  | o :: r => match spec_step ss o with
              | (ss', Spec x) => x :: spec_run ss' r
              | (_, Unspecified) => []
              end
  end.
(* ... and the state reached, when every step is specified *)
Fixpoint spec_exec (ss : sstate) (ops : list op) : option sstate :=
  match ops with
  | [] => Some ss
  | o :: r => match spec_step ss o with
              | (ss', Spec _) => spec_exec ss' r
              | (_, Unspecified) => None
              end
  end.

(* the invariant of the specification's own states: none of its contents has orphans (KV/Refine.v, spec_step_sinv:
   every specified step keeps it) *)
Definition ocl (oc : option content) : Prop := match oc with Some c => cclosed c | None => True end.
Definition sinv (ss : sstate) : Prop := cclosed (s_committed ss) /\ ocl (s_pending ss) /\ ocl (s_snapshot ss).
