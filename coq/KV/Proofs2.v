(* KV — the store-wide well-formedness invariant of the bucket index and the exact bucket listing (property C11).
   Part 1: [entry_ok] (every stored entry is either a bucket index entry  b_<depth>_<name1>_.._<nameDepth> -> nameDepth
           or a data entry <depth>_<name1>_.._<nameDepth>_<key> -> value, all names legal), holds in every reachable
           state: committed store, the store a read transaction captured, the open write transaction's batch, and every
           bucket handle the API handed out.
   Part 2: from it, BucketNames (transaction and bucket level, read and write transactions) never answers
           ErrIllegalValue and returns exactly the children that exist in the transaction's own view, each once. *)
From Coq Require Import List ZArith Bool Lia Sorted Permutation.
Import ListNotations.
Open Scope Z_scope.
Require Import MW.KV.Model MW.KV.Proofs.

(* ------------------------------------------------------------------ small general facts *)
Lemma m_get_in {V} : forall k (v : V) m, m_get k m = Some v -> In (k, v) m.
Proof.
  intros k v m. induction m as [|[k' v'] m IH]; cbn; [discriminate|].
  destruct (beqb k k') eqn:E.
  - apply beqb_true_iff in E. subst k'. intros H. inversion H. auto.
  - auto.
Qed.

Lemma bytes_ok_app : forall a b, bytes_ok a -> bytes_ok b -> bytes_ok (a ++ b).
Proof. intros a b Ha Hb. apply Forall_app. auto. Qed.
Lemma sep_byte_ok : byte_ok SEP.
Proof. unfold byte_ok, SEP. lia. Qed.
Lemma chb_byte_ok : byte_ok CH_b.
Proof. unfold byte_ok, CH_b. lia. Qed.

Definition tail_of (ns : list bytes) : bytes := flat_map (fun n => SEP :: n) ns.
Lemma path_of_unfold : forall ns, path_of ns = itoa (length ns) ++ tail_of ns.
Proof. reflexivity. Qed.
Lemma tail_of_app : forall a b, tail_of (a ++ b) = tail_of a ++ tail_of b.
Proof. intros. unfold tail_of. apply flat_map_app. Qed.
Lemma tail_of_cons : forall n ns, tail_of (n :: ns) = SEP :: n ++ tail_of ns.
Proof. reflexivity. Qed.
Lemma tail_of_one : forall n, tail_of [n] = SEP :: n.
Proof. intros. unfold tail_of. cbn. rewrite app_nil_r. reflexivity. Qed.
Lemma tail_of_bytes_ok : forall ns, Forall bytes_ok ns -> bytes_ok (tail_of ns).
Proof.
  induction ns as [|n ns IH]; intros H; cbn; [constructor|]. inversion H; subst.
  constructor; [apply sep_byte_ok|]. apply bytes_ok_app; [assumption|]. apply IH; assumption.
Qed.
Lemma path_of_bytes_ok : forall ns, Forall bytes_ok ns -> bytes_ok (path_of ns).
Proof. intros ns H. rewrite path_of_unfold. apply bytes_ok_app; [apply itoa_bytes_ok|apply tail_of_bytes_ok; exact H]. Qed.

(* ------------------------------------------------------------------ the shape of stored entries *)
(* legal bucket name tuples: every name non-empty, at most 256 long, free of '_', made of bytes *)
Definition names_wf (ns : list bytes) : Prop := valid_names ns /\ Forall bytes_ok ns.
Definition names_ok (ns : list bytes) : Prop := ns <> [] /\ names_wf ns.

(* "b_<depth>_<name1>_..._<nameDepth>" -> nameDepth *)
Definition index_entry (k v : bytes) : Prop :=
  exists ns, names_ok ns /\ k = index_key (path_of ns) /\ v = last ns [].
(* "<depth>_<name1>_..._<nameDepth>_<key>" -> value, key and value non-empty *)
Definition data_entry (k v : bytes) : Prop :=
  exists ns uk, names_ok ns /\ uk <> [] /\ bytes_ok uk /\ k = inner_key (path_of ns) uk /\ v <> [].
Definition entry_ok (k v : bytes) : Prop := index_entry k v \/ data_entry k v.

Definition store_ok (s : store) : Prop := forall k v, In (k, v) s -> entry_ok k v.
(* the open batch: everything it has recorded as put (summary and log) has the shape *)
Definition batch_idx_ok (b : batch) : Prop :=
  (forall k v sp, In (k, (v, sp)) (b_puts b) -> entry_ok k v) /\
  (forall k v, In (BPut k v) (b_rlog b) -> entry_ok k v).
(* handles: canonical path of a legal name tuple, depth = its length *)
Definition handle_ok (h : handle) : Prop :=
  exists ns, names_ok ns /\ h_path h = path_of ns /\ h_depth h = length ns.

Lemma handle_ok_wf : forall h, handle_ok h -> handle_wf h.
Proof. intros h [ns [[Hne [Hv _]] [Hp Hd]]]. exists ns. auto. Qed.

Lemma names_ok_one : forall n, is_valid_bucket_name n = true -> bytes_ok n -> names_ok [n].
Proof. intros n Hv Hb. split; [discriminate|]. split; constructor; auto. Qed.
Lemma names_ok_snoc : forall ns n, names_wf ns -> is_valid_bucket_name n = true -> bytes_ok n -> names_ok (ns ++ [n]).
Proof.
  intros ns n [Hv Hb] Hn Hbn. split; [destruct ns; discriminate|]. split; apply Forall_app; split; auto.
Qed.

Lemma index_entry_bytes : forall k v, index_entry k v -> bytes_ok k.
Proof.
  intros k v [ns [[_ [_ Hb]] [Ek _]]]. subst k. unfold index_key.
  constructor; [apply chb_byte_ok|]. constructor; [apply sep_byte_ok|]. apply path_of_bytes_ok. exact Hb.
Qed.
Lemma data_entry_bytes : forall k v, data_entry k v -> bytes_ok k.
Proof.
  intros k v [ns [uk [[_ [_ Hb]] [_ [Hu [Ek _]]]]]]. subst k. unfold inner_key.
  apply bytes_ok_app; [apply path_of_bytes_ok; exact Hb|]. constructor; [apply sep_byte_ok|exact Hu].
Qed.
Lemma entry_ok_bytes : forall k v, entry_ok k v -> bytes_ok k.
Proof. intros k v [H|H]; [eapply index_entry_bytes|eapply data_entry_bytes]; eauto. Qed.
Lemma store_ok_keys_bytes : forall s, store_ok s -> keys_bytes s.
Proof.
  intros s H. unfold keys_bytes. rewrite Forall_forall. intros [k v] Hin. cbn. eapply entry_ok_bytes. apply (H k v Hin).
Qed.

(* a data key starts with a digit, an index key with 'b' *)
Lemma data_entry_head : forall k v, data_entry k v -> exists c r, k = c :: r /\ 48 <= c <= 57.
Proof.
  intros k v [ns [uk [_ [_ [_ [Ek _]]]]]]. subst k. unfold inner_key. rewrite path_of_unfold.
  destruct (itoa_head (length ns)) as [c [r [Ec Hc]]]. rewrite Ec. cbn. eauto.
Qed.
Lemma entry_ok_index_key : forall p v, entry_ok (index_key p) v -> index_entry (index_key p) v.
Proof.
  intros p v [H|H]; [exact H|]. apply data_entry_head in H. destruct H as [c [r [E Hc]]].
  unfold index_key, CH_b in E. inversion E. lia.
Qed.

(* ------------------------------------------------------------------ stores *)
Lemma store_ok_nil : store_ok [].
Proof. intros k v []. Qed.
Lemma store_ok_put : forall k v s, entry_ok k v -> store_ok s -> store_ok (m_put k v s).
Proof. intros k v s He Hs k' v' Hin. apply m_put_in in Hin. destruct Hin as [E|Hin]; [inversion E; subst; exact He|auto]. Qed.
Lemma store_ok_del : forall k s, store_ok s -> store_ok (m_del k s).
Proof. intros k s Hs k' v' Hin. apply m_del_in in Hin. apply Hs. tauto. Qed.
Lemma apply_log_store_ok : forall log s, (forall k v, In (BPut k v) log -> entry_ok k v) -> store_ok s ->
  store_ok (apply_log s log).
Proof.
  induction log as [|o log IH]; intros s Hl Hs; cbn; [exact Hs|]. apply IH; [intros; apply Hl; cbn; auto|].
  destruct o as [k v|k]; cbn; [apply store_ok_put; [apply Hl; cbn; auto|exact Hs]|apply store_ok_del; exact Hs].
Qed.
Lemma commit_store_ok : forall s b, store_ok s -> batch_idx_ok b -> store_ok (commit s b).
Proof.
  intros s b Hs [_ Hl]. unfold commit, b_log. apply apply_log_store_ok; [|exact Hs].
  intros k v Hin. apply in_rev in Hin. auto.
Qed.
Lemma store_ok_get : forall s k v, store_ok s -> s_get k s = Some v -> entry_ok k v.
Proof. intros s k v Hs H. apply Hs. apply m_get_in. exact H. Qed.

(* ------------------------------------------------------------------ batches *)
Lemma batch_idx_ok_empty : batch_idx_ok empty_batch.
Proof. split; cbn; intros; contradiction. Qed.
Lemma batch_idx_ok_put : forall b k v, entry_ok k v -> batch_idx_ok b -> batch_idx_ok (batch_put b k v).
Proof.
  intros b k v He [H1 H2]. split; cbn [batch_put b_puts b_rlog].
  - intros k' v' sp Hin. apply m_put_in in Hin. destruct Hin as [E|Hin]; [inversion E; subst; exact He|eauto].
  - intros k' v' [E|Hin]; [inversion E; subst; exact He|eauto].
Qed.
Lemma batch_idx_ok_delete : forall b k, batch_idx_ok b -> batch_idx_ok (batch_delete b k).
Proof.
  intros b k [H1 H2]. split; cbn [batch_delete b_puts b_rlog]; [exact H1|].
  intros k' v' [E|Hin]; [discriminate|eauto].
Qed.
Lemma batch_get_put_ok : forall b k v, batch_idx_ok b -> fst (batch_get b k) = Some v -> entry_ok k v.
Proof.
  intros b k v [H1 _] H. unfold batch_get in H.
  destruct (m_get k (b_puts b)) as [[d sp]|] eqn:Ep.
  - apply m_get_in in Ep. destruct (m_get k (b_dels b)) as [sd|]; [destruct (sp <? sd)|]; cbn in H; inversion H; subst; eauto.
  - destruct (m_get k (b_dels b)); cbn in H; discriminate.
Qed.

(* everything that only deletes keeps any batch predicate closed under [batch_delete] *)
Section OnlyDeletes.
  Variable P : batch -> Prop.
  Hypothesis Pdel : forall b k, P b -> P (batch_delete b k).
  Lemma delete_committed_P : forall ents b, P b -> P (delete_committed b ents).
  Proof.
    induction ents as [|[key v] ents IH]; intros b Hb; cbn [delete_committed]; auto.
    destruct (snd (batch_get b key)); apply IH; auto.
  Qed.
  Lemma delete_keys_P : forall keys b, P b -> P (delete_keys b keys).
  Proof. unfold delete_keys. induction keys as [|k keys IH]; intros b Hb; cbn [fold_left]; auto. Qed.
  Lemma clear_kv_P : forall s b path, P b -> P (clear_kv s b path).
  Proof. intros. unfold clear_kv. apply delete_keys_P. apply delete_committed_P. assumption. Qed.
  Lemma delete_rec_P : forall fuel s b h, P b -> P (snd (delete_rec fuel s b h)).
  Proof.
    induction fuel as [|fuel IH]; intros s b h Hb; cbn [delete_rec]; [exact Hb|].
    destruct (h_depth h =? 1)%nat; [exact Hb|].
    destruct (bucket_names s (Some b) h) as [subnames|e]; [|exact Hb].
    match goal with |- context [fold_left ?st subnames (Ok tt, b)] =>
      assert (Hf : P (snd (fold_left st subnames (Ok tt, b)))) end.
    { apply (fold_left_snd_inv P); [|exact Hb].
      intros [[u|e] b'] subname Hb'; cbn [snd] in *; auto.
      destruct (bucket s (Some b') h subname); cbn [snd]; auto. }
    match goal with |- context [fold_left ?st subnames (Ok tt, b)] => destruct (fold_left st subnames (Ok tt, b)) as [[u|e] b'] end;
      cbn [snd] in *; auto using clear_kv_P.
  Qed.
End OnlyDeletes.

Definition obatch_ok (ob : option batch) : Prop := match ob with Some b => batch_idx_ok b | None => True end.
Definition ostore_ok (os : option store) : Prop := match os with Some s => store_ok s | None => True end.

Lemma delete_bucket_idx_ok : forall s ob h name, obatch_ok ob -> obatch_ok (snd (delete_bucket s ob h name)).
Proof.
  intros s ob h name Hb. unfold delete_bucket. destruct ob as [b|]; cbn [snd]; auto.
  destruct (bucket s (Some b) h name) as [sub|]; cbn [snd]; auto.
  pose proof (delete_rec_P batch_idx_ok batch_idx_ok_delete delete_fuel s b sub Hb) as H.
  destruct (delete_rec delete_fuel s b sub) as [r b']. exact H.
Qed.
Lemma clear_idx_ok : forall s ob h, obatch_ok ob -> obatch_ok (snd (clear s ob h)).
Proof.
  intros s ob h Hb. unfold clear. destruct ob as [b|]; cbn [snd obatch_ok]; auto.
  apply clear_kv_P; auto using batch_idx_ok_delete.
Qed.
Lemma bucket_delete_idx_ok : forall ob h k, obatch_ok ob -> obatch_ok (snd (bucket_delete ob h k)).
Proof.
  intros ob h k Hb. unfold bucket_delete. destruct ob as [b|]; cbn [snd]; auto.
  destruct k; cbn [snd obatch_ok]; auto using batch_idx_ok_delete.
Qed.
Lemma bucket_put_idx_ok : forall ob h k v, handle_ok h -> bytes_ok k -> obatch_ok ob -> obatch_ok (snd (bucket_put ob h k v)).
Proof.
  intros ob h k v [ns [Hns [Hp _]]] Hk Hb. unfold bucket_put. destruct ob as [b|]; cbn [snd]; auto.
  destruct v as [|c v]; cbn [snd]; auto. destruct k as [|ck k]; cbn [snd obatch_ok]; auto.
  apply batch_idx_ok_put; auto. right. exists ns, (ck :: k). rewrite Hp.
  split; [exact Hns|]. split; [discriminate|]. split; [exact Hk|]. split; [reflexivity|discriminate].
Qed.

(* ------------------------------------------------------------------ creating buckets *)
Lemma top_path_is_path_of : forall name, top_path name = path_of [name].
Proof. intros. unfold top_path, path_of. cbn [length flat_map]. rewrite app_nil_r. reflexivity. Qed.

Lemma create_index_idx_ok : forall s b key name h, index_entry key name -> batch_idx_ok b ->
  batch_idx_ok (snd (create_index s b key name h)).
Proof.
  intros s b key name h He Hb. unfold create_index.
  destruct (s_get key s); [destruct (snd (batch_get b key))|]; cbn [snd]; auto; apply batch_idx_ok_put; auto; left; exact He.
Qed.
Lemma create_top_level_ok : forall s b name, bytes_ok name -> batch_idx_ok b ->
  batch_idx_ok (snd (create_top_level s b name)) /\
  forall h, fst (create_top_level s b name) = Ok h -> handle_ok h.
Proof.
  intros s b name Hbn Hb. unfold create_top_level. destruct (is_valid_bucket_name name) eqn:Ev; cbn [negb].
  - assert (Hns : names_ok [name]) by (apply names_ok_one; auto).
    split.
    + apply create_index_idx_ok; auto. exists [name]. rewrite top_path_is_path_of. auto.
    + intros h Hh. unfold create_index in Hh.
      assert (E : h = mkHandle (top_path name) 1).
      { destruct (s_get (index_key (top_path name)) s); [destruct (snd (batch_get b (index_key (top_path name))))|];
          cbn [fst] in Hh; inversion Hh; reflexivity. }
      subst h. exists [name]. rewrite top_path_is_path_of. auto.
  - split; [exact Hb|]. cbn. intros h H. discriminate.
Qed.

Lemma sub_bucket_ok : forall h name sub, handle_ok h -> bytes_ok name -> sub_bucket h name = Ok sub ->
  handle_ok sub /\ index_entry (index_key (h_path sub)) name.
Proof.
  intros h name sub [ns [[Hne [Hv Hb]] [Hp Hd]]] Hbn H.
  destruct (sub_bucket_wf h name sub ns Hv Hne Hp Hd H) as [Hn [Hp' Hd']].
  assert (Hns : names_ok (ns ++ [name])) by (apply names_ok_snoc; [split|..]; auto).
  split.
  - exists (ns ++ [name]). auto.
  - exists (ns ++ [name]). rewrite Hp', last_last. auto.
Qed.
Lemma new_bucket_ok : forall s ob h name, handle_ok h -> bytes_ok name -> obatch_ok ob ->
  obatch_ok (snd (new_bucket s ob h name)) /\
  forall sub, fst (new_bucket s ob h name) = Ok sub -> handle_ok sub.
Proof.
  intros s ob h name Hh Hbn Hb. unfold new_bucket. destruct ob as [b|]; [|split; [exact I|cbn; discriminate]].
  destruct (sub_bucket h name) as [sub|e] eqn:Es; [|split; [exact Hb|cbn; discriminate]].
  destruct (sub_bucket_ok h name sub Hh Hbn Es) as [Hsub He].
  pose proof (create_index_idx_ok s b (index_key (h_path sub)) name sub He Hb) as H.
  unfold create_index in *.
  destruct (s_get (index_key (h_path sub)) s); [destruct (snd (batch_get b (index_key (h_path sub))))|];
    cbn [fst snd] in *; (split; [exact H|]); intros sub' E; inversion E; subst; auto.
Qed.

(* ------------------------------------------------------------------ looking buckets up *)
Lemma bucket_exists_entry : forall s ob key, store_ok s -> obatch_ok ob -> bucket_exists s ob key = true ->
  exists v, entry_ok key v.
Proof.
  intros s ob key Hs Hb H. unfold bucket_exists in H.
  destruct (s_get key s) as [v|] eqn:Es; [exists v; eapply store_ok_get; eauto|].
  destruct ob as [b|]; [|discriminate].
  destruct (fst (batch_get b key)) as [v|] eqn:Eb; [|discriminate]. exists v. eapply batch_get_put_ok; eauto.
Qed.

(* an index key of a top-level path names a legal top-level bucket *)
Lemma top_index_entry_name : forall name v, index_entry (index_key (top_path name)) v -> names_ok [name].
Proof.
  intros name v [ns [Hns [Ek _]]]. apply index_key_injective in Ek.
  rewrite path_of_unfold in Ek. unfold top_path in Ek.
  destruct Hns as [Hne [Hv Hb]]. destruct ns as [|n ns]; [congruence|].
  rewrite tail_of_cons in Ek.
  apply sep_split_unique in Ek; auto using itoa_no_sep. destruct Ek as [Ei Et].
  apply itoa_inj in Ei. cbn in Ei. destruct ns; [|discriminate]. change (tail_of []) with (@nil Z) in Et.
  rewrite app_nil_r in Et. subst n.
  split; [discriminate|]. split; auto.
Qed.
Lemma top_level_bucket_ok : forall s ob name h, store_ok s -> obatch_ok ob ->
  top_level_bucket s ob name = Some h -> handle_ok h.
Proof.
  intros s ob name h Hs Hb H. unfold top_level_bucket in H.
  destruct (bucket_exists s ob (index_key (top_path name))) eqn:E; [|discriminate]. inversion H; subst h.
  destruct (bucket_exists_entry _ _ _ Hs Hb E) as [v Hv]. apply entry_ok_index_key in Hv.
  apply top_index_entry_name in Hv. exists [name]. rewrite top_path_is_path_of. auto.
Qed.
Lemma bucket_ok : forall s ob h name sub, handle_ok h -> bytes_ok name -> bucket s ob h name = Some sub -> handle_ok sub.
Proof.
  intros s ob h name sub Hh Hbn H. unfold bucket in H. destruct (sub_bucket h name) as [sub'|e] eqn:Es; [|discriminate].
  destruct (bucket_exists s ob (index_key (h_path sub'))); inversion H; subst. eapply sub_bucket_ok; eauto.
Qed.
Lemma join_split_path : forall ns, valid_names ns -> join_sep (split_sep (path_of ns)) = path_of ns.
Proof. intros ns Hv. rewrite split_path_of by (apply valid_names_no_sep; exact Hv). symmetry. apply path_of_join. Qed.
Lemma fetch_bucket_ok : forall s ob h h', handle_ok h -> fetch_bucket s ob h = Some h' -> handle_ok h'.
Proof.
  intros s ob h h' [ns [Hns [Hp Hd]]] H. unfold fetch_bucket in H.
  destruct (bucket_exists s ob _); inversion H; subst h'. exists ns. cbn [h_path h_depth].
  rewrite Hp, join_split_path by (apply Hns). auto.
Qed.

(* ------------------------------------------------------------------ the invariant of reachable states *)
Definition slot_ok (o : option (bool * handle)) : Prop := match o with Some (_, h) => handle_ok h | None => True end.
Definition slots_ok (bs : list (option (bool * handle))) : Prop := Forall slot_ok bs.
Definition idx_part (st : state) : Prop :=
  store_ok (st_store st) /\ obatch_ok (st_wtx st) /\ ostore_ok (st_rtx st) /\ slots_ok (st_bs st).
(* [inv] (Proofs.v): stores key-sorted, the batch summary agrees with its log *)
Definition idx_inv (st : state) : Prop := inv st /\ idx_part st.

(* typing of the operation language: every byte-string argument is a []byte *)
Definition op_bytes (o : op) : Prop :=
  match o with
  | OTop _ _ name | OCreateTop _ name | ODeleteTop name | ONew _ _ name | OBucket _ _ name | ODelBucket _ name => bytes_ok name
  | OPut _ k v => bytes_ok k /\ bytes_ok v
  | ODel _ k | OGet _ k | OPfx _ k | OSeek _ k | OBytesPrefix k => bytes_ok k
  | OIter _ _ _ a l => bytes_ok a /\ bytes_ok l
  | _ => True
  end.

Lemma slots_ok_set_nth : forall n x l, slot_ok x -> slots_ok l -> slots_ok (set_nth n x l).
Proof.
  intros n x l Hx. revert n. induction l as [|y l IH]; intros n Hl; destruct n; cbn; try constructor;
    inversion Hl; subst; auto. apply IH; auto.
Qed.
Lemma slots_ok_drop : forall w l, slots_ok l -> slots_ok (drop_tx w l).
Proof.
  intros w l Hl. unfold slots_ok, drop_tx in *. rewrite Forall_forall in *. intros o Ho. apply in_map_iff in Ho.
  destruct Ho as [o' [E Hin]]. subst o. specialize (Hl o' Hin). destruct o' as [[w' h]|]; [|exact I].
  destruct (Bool.eqb w w'); [exact I|exact Hl].
Qed.
Lemma get_slot_ok : forall src bs w h, slots_ok bs -> get_slot src bs = Some (w, h) -> handle_ok h.
Proof.
  intros src bs w h Hbs H. unfold get_slot in H. destruct (nth_error bs src) as [[x|]|] eqn:E; try discriminate.
  inversion H; subst x. apply nth_error_In in E. unfold slots_ok in Hbs. rewrite Forall_forall in Hbs. apply (Hbs _ E).
Qed.
Lemma slots_ok_init : slots_ok (repeat None nslots).
Proof. unfold slots_ok. rewrite Forall_forall. intros o Ho. apply repeat_spec in Ho. subst o. exact I. Qed.
Lemma idx_inv_init : idx_inv init_state.
Proof.
  split; [apply inv_init|]. split; [apply store_ok_nil|]. split; [exact I|]. split; [exact I|apply slots_ok_init].
Qed.

Lemma tx_view_ok : forall snap st w vs ob, idx_part st -> tx_view snap st w = Some (vs, ob) -> store_ok vs /\ obatch_ok ob.
Proof.
  intros snap st w vs ob [Hs [Hb [Hr _]]] E. unfold tx_view in E. destruct w.
  - destruct (st_wtx st); inversion E; subst. auto.
  - destruct (st_rtx st) as [s0|]; inversion E; subst. split; [|exact I]. destruct snap; auto.
Qed.
Lemma slot_view_ok : forall snap st src w h vs ob, idx_part st -> slot_view snap st src = Some (w, h, vs, ob) ->
  store_ok vs /\ obatch_ok ob /\ handle_ok h.
Proof.
  intros snap st src w h vs ob Hi E. unfold slot_view in E.
  destruct (get_slot src (st_bs st)) as [[w' h']|] eqn:Eg; [|discriminate].
  destruct (tx_view snap st w') as [[vs' ob']|] eqn:Ev; [|discriminate]. inversion E; subst.
  destruct (tx_view_ok _ _ _ _ _ Hi Ev). destruct Hi as [_ [_ [_ Hbs]]]. repeat split; auto. eapply get_slot_ok; eauto.
Qed.
Lemma idx_part_store_batch : forall st w ob, idx_part st -> obatch_ok ob -> idx_part (store_batch st w ob).
Proof. intros st w ob [H1 [H2 [H3 H4]]] Hb. unfold store_batch. destruct w; repeat split; cbn; auto. Qed.
Lemma idx_part_put_handle : forall st w dst oh, idx_part st -> (forall h, oh = Some h -> handle_ok h) ->
  idx_part (fst (put_handle st w dst oh)).
Proof.
  intros st w dst oh [H1 [H2 [H3 H4]]] Hh. unfold put_handle. destruct oh as [h|]; cbn [fst]; repeat split; cbn; auto;
    apply slots_ok_set_nth; cbn; auto.
Qed.

Ltac ip4 := split; [|split; [|split]]; cbn; auto.

Lemma step_idx_part : forall snap st o, idx_part st -> op_bytes o -> idx_part (fst (step_gen snap st o)).
Proof.
  intros snap st o Hi Hob. pose proof Hi as [Hs [Hb [Hr Hbs]]].
  destruct o; cbn [step_gen op_bytes] in *.
  - destruct w.
    + destruct (st_wtx st); [exact Hi|]. destruct (st_open st); [|exact Hi]. ip4. apply batch_idx_ok_empty.
    + destruct (st_rtx st); [exact Hi|]. destruct (st_open st); [|exact Hi]. ip4.
  - destruct (st_wtx st) as [b|] eqn:E; [|exact Hi]. destruct (st_upd st); [exact Hi|].
    ip4; [apply commit_store_ok; auto|apply slots_ok_drop; auto].
  - destruct (st_wtx st) as [b|] eqn:E; [|exact Hi]. destruct (st_upd st); [exact Hi|]. ip4. apply slots_ok_drop; auto.
  - destruct (st_rtx st); [|exact Hi]. ip4. apply slots_ok_drop; auto.
  - destruct (st_wtx st) as [b|] eqn:E; [exact Hi|]. destruct (st_open st); [|exact Hi]. ip4. apply batch_idx_ok_empty.
  - destruct (st_wtx st) as [b|] eqn:E; [|exact Hi]. destruct (st_upd st); [|exact Hi].
    destruct fail; ip4; try (apply slots_ok_drop; auto). apply commit_store_ok; auto.
  - destruct (st_wtx st) eqn:Ew; [exact Hi|]. destruct (st_rtx st) eqn:Er; [exact Hi|]. destruct (st_open st); [|exact Hi].
    ip4; rewrite ?Ew, ?Er; exact I.
  - destruct (st_wtx st) eqn:Ew; [exact Hi|]. destruct (st_rtx st) eqn:Er; [exact Hi|]. ip4; rewrite ?Ew, ?Er; exact I.
  - destruct (st_open st); exact Hi.
  - destruct (tx_view snap st w) as [[vs ob]|] eqn:Ev; [|exact Hi]. destruct (tx_view_ok _ _ _ _ _ Hi Ev) as [Hvs Hvb].
    apply idx_part_put_handle; auto. intros h Hh. eapply top_level_bucket_ok; eauto.
  - destruct (st_wtx st) as [b|] eqn:E; [|exact Hi]. cbn in Hb.
    destruct (create_top_level_ok (st_store st) b name Hob Hb) as [H1 H2].
    destruct (create_top_level (st_store st) b name) as [[h|e] b']; cbn [fst snd] in *.
    + ip4. apply slots_ok_set_nth; auto. cbn. apply H2. reflexivity.
    + ip4.
  - destruct (st_wtx st); exact Hi.
  - destruct (tx_view snap st w) as [[vs ob]|]; [|exact Hi]. destruct (tx_bucket_names vs ob); exact Hi.
  - destruct (tx_view snap st w) as [[vs ob]|]; [|exact Hi]. destruct (get_slot src (st_bs st)) as [[w' h]|] eqn:Eg; [|exact Hi].
    apply idx_part_put_handle; auto. intros h' Hh. eapply fetch_bucket_ok; [|exact Hh]. eapply get_slot_ok; eauto.
  - destruct (slot_view snap st src) as [[[[w h] vs] ob]|] eqn:Ev; [|exact Hi].
    destruct (slot_view_ok _ _ _ _ _ _ _ Hi Ev) as [Hvs [Hvb Hh]].
    destruct (new_bucket_ok vs ob h name Hh Hob Hvb) as [H1 H2].
    destruct (new_bucket vs ob h name) as [[sub|e] ob']; cbn [fst snd] in *.
    + pose proof (idx_part_store_batch st w ob' Hi H1) as [G1 [G2 [G3 G4]]]. ip4.
      apply slots_ok_set_nth; [cbn; apply H2; reflexivity|].
      unfold store_batch. destruct w; exact Hbs.
    + apply idx_part_store_batch; auto.
  - destruct (slot_view snap st src) as [[[[w h] vs] ob]|] eqn:Ev; [|exact Hi].
    destruct (slot_view_ok _ _ _ _ _ _ _ Hi Ev) as [Hvs [Hvb Hh]].
    apply idx_part_put_handle; auto. intros sub Hsub. eapply bucket_ok; eauto.
  - destruct (slot_view snap st src) as [[[[w h] vs] ob]|] eqn:Ev; [|exact Hi].
    destruct (slot_view_ok _ _ _ _ _ _ _ Hi Ev) as [Hvs [Hvb Hh]].
    pose proof (delete_bucket_idx_ok vs ob h name Hvb) as H.
    destruct (delete_bucket vs ob h name) as [r ob']; cbn [snd fst] in *. apply idx_part_store_batch; auto.
  - destruct (slot_view snap st src) as [[[[w h] vs] ob]|]; [|exact Hi]. destruct (bucket_names vs ob h); exact Hi.
  - destruct (slot_view snap st src) as [[[[w h] vs] ob]|] eqn:Ev; [|exact Hi].
    destruct (slot_view_ok _ _ _ _ _ _ _ Hi Ev) as [Hvs [Hvb Hh]]. destruct Hob as [Hk Hv].
    pose proof (bucket_put_idx_ok ob h k v Hh Hk Hvb) as H.
    destruct (bucket_put ob h k v) as [r ob']; cbn [snd fst] in *. apply idx_part_store_batch; auto.
  - destruct (slot_view snap st src) as [[[[w h] vs] ob]|] eqn:Ev; [|exact Hi].
    destruct (slot_view_ok _ _ _ _ _ _ _ Hi Ev) as [Hvs [Hvb Hh]].
    pose proof (bucket_delete_idx_ok ob h k Hvb) as H.
    destruct (bucket_delete ob h k) as [r ob']; cbn [snd fst] in *. apply idx_part_store_batch; auto.
  - destruct (slot_view snap st src) as [[[[w h] vs] ob]|]; [|exact Hi]. destruct (bucket_get vs ob h k); exact Hi.
  - destruct (slot_view snap st src) as [[[[w h] vs] ob]|] eqn:Ev; [|exact Hi].
    destruct (slot_view_ok _ _ _ _ _ _ _ Hi Ev) as [Hvs [Hvb Hh]].
    pose proof (clear_idx_ok vs ob h Hvb) as H.
    destruct (clear vs ob h) as [r ob']; cbn [snd fst] in *. apply idx_part_store_batch; auto.
  - destruct (slot_view snap st src) as [[[[w h] vs] ob]|]; exact Hi.
  - destruct (slot_view snap st src) as [[[[w h] vs] ob]|]; [|exact Hi].
    destruct (match mode with O => _ | S _ => _ end) as [a l]. ip4.
  - destruct (get_slot i (st_is st)) as [[w it]|]; [|exact Hi]. destruct (iter_seek it k). ip4.
  - destruct (get_slot i (st_is st)) as [[w it]|]; [|exact Hi]. destruct (iter_next it). ip4.
  - destruct (get_slot i (st_is st)) as [[w it]|]; [|exact Hi]. ip4.
  - destruct (bytes_prefix p). exact Hi.
Qed.

Lemma step_idx_inv : forall snap st o, idx_inv st -> op_bytes o -> idx_inv (fst (step_gen snap st o)).
Proof. intros snap st o [H1 H2] Ho. split; [apply step_inv; exact H1|apply step_idx_part; auto]. Qed.
Lemma exec_idx_inv : forall snap ops st, idx_inv st -> Forall op_bytes ops -> idx_inv (exec snap st ops).
Proof.
  intros snap. induction ops as [|o ops IH]; intros st Hst Ho; cbn; [exact Hst|]. inversion Ho; subst.
  apply IH; auto. apply step_idx_inv; auto.
Qed.
(* C11_index_invariant *)
Lemma run_idx_inv : forall snap ops, Forall op_bytes ops -> idx_inv (exec snap init_state ops).
Proof. intros snap ops H. apply exec_idx_inv; [apply idx_inv_init|exact H]. Qed.

(* ================================================================== Part 2: the listing *)
(* the prefix BucketNames scans for the children of the bucket with name tuple [ns] ([ns = []]: the top level):
   "b_<depth+1>_<name1>_..._<nameDepth>_" *)
Definition child_prefix (ns : list bytes) : bytes := CH_b :: SEP :: itoa (S (length ns)) ++ tail_of ns ++ [SEP].

Lemma child_key : forall ns n, index_key (path_of (ns ++ [n])) = child_prefix ns ++ n.
Proof.
  intros ns n. unfold index_key, child_prefix. rewrite path_of_unfold, tail_of_app, tail_of_one, app_length. cbn [length].
  replace (length ns + 1)%nat with (S (length ns)) by lia. cbn [app]. rewrite <- !app_assoc. reflexivity.
Qed.
Lemma child_prefix_bytes : forall ns, Forall bytes_ok ns -> bytes_ok (child_prefix ns).
Proof.
  intros ns H. unfold child_prefix. constructor; [apply chb_byte_ok|]. constructor; [apply sep_byte_ok|].
  apply bytes_ok_app; [apply itoa_bytes_ok|]. apply bytes_ok_app; [apply tail_of_bytes_ok; exact H|].
  constructor; [apply sep_byte_ok|constructor].
Qed.
Lemma tx_names_prefix : CH_b :: SEP :: itoa 1 ++ [SEP] = child_prefix [].
Proof. reflexivity. Qed.
Lemma names_prefix_ok : forall h ns, names_ok ns -> h_path h = path_of ns -> h_depth h = length ns ->
  names_prefix h = Ok (child_prefix ns).
Proof.
  intros h ns [Hne [Hv _]] Hp Hd. unfold names_prefix. rewrite Hp, Hd, split_path_of by (apply valid_names_no_sep; exact Hv).
  destruct ns as [|n0 ns]; [congruence|].
  change ((length (itoa (length (n0 :: ns)) :: n0 :: ns) <? 2)%nat) with false. cbn [tl].
  rewrite join_cons_flat. fold (tail_of ((n0 :: ns) ++ [[]])). rewrite tail_of_app, tail_of_one. reflexivity.
Qed.

(* the tail of a tuple determines it *)
Lemma tail_of_starts : forall ns r, exists x, tail_of ns ++ SEP :: r = SEP :: x.
Proof. intros ns r. apply names_tail_starts_with_sep. Qed.

(* an index entry under the children prefix of [ns] is the entry of a child of [ns] *)
Lemma prefix_child : forall ns ms, valid_names ns -> valid_names ms ->
  has_prefix (child_prefix ns) (index_key (path_of ms)) = true -> exists n, ms = ns ++ [n].
Proof.
  intros ns ms Hns Hms H. apply has_prefix_iff in H. destruct H as [r Hr].
  unfold index_key, child_prefix in Hr. inversion Hr as [Hr']. clear Hr.
  rewrite path_of_unfold, <- !app_assoc in Hr'. cbn [app] in Hr'.
  assert (Hlen : length ms = S (length ns) /\ tail_of ms = tail_of ns ++ SEP :: r).
  { destruct (tail_of_starts ns r) as [x Ex]. rewrite Ex in Hr'.
    destruct ms as [|m ms].
    - exfalso. change (tail_of []) with (@nil Z) in Hr'. rewrite app_nil_r in Hr'.
      apply (itoa_no_sep (length (@nil bytes))). rewrite Hr'. apply in_or_app. right. cbn. auto.
    - rewrite tail_of_cons in Hr'. apply sep_split_unique in Hr'; auto using itoa_no_sep.
      destruct Hr' as [Ei Et]. apply itoa_inj in Ei. split; [exact Ei|]. rewrite tail_of_cons, Ex. f_equal. exact Et. }
  destruct Hlen as [Hlen Ht].
  assert (Hsplit : exists ms' m, ms = ms' ++ [m] /\ length ms' = length ns).
  { destruct (exists_last (l := ms)) as [ms' [m E]]; [intros E; subst; discriminate|].
    exists ms', m. split; auto. subst ms. rewrite app_length in Hlen. cbn in Hlen. lia. }
  destruct Hsplit as [ms' [m [E Hl]]]. subst ms. rewrite tail_of_app, tail_of_one in Ht.
  apply Forall_app in Hms. destruct Hms as [Hms' _].
  apply names_tail_inj in Ht; auto using valid_names_no_sep. destruct Ht as [E1 E2]. subst. eauto.
Qed.

Lemma split_index_key : forall ms, valid_names ms -> split_sep (index_key (path_of ms)) = [CH_b] :: itoa (length ms) :: ms.
Proof.
  intros ms Hv. unfold index_key. change (CH_b :: SEP :: path_of ms) with ([CH_b] ++ SEP :: path_of ms).
  rewrite split_app_sep, split_path_of; auto using valid_names_no_sep.
  intros [H|[]]. unfold CH_b, SEP in H. discriminate.
Qed.
Lemma check_name_child : forall ns n, valid_names (ns ++ [n]) -> check_name (length ns) (index_key (path_of (ns ++ [n]))) n = true.
Proof.
  intros ns n Hv. unfold check_name. rewrite split_index_key by exact Hv. cbn [length]. rewrite app_length. cbn [length].
  replace (S (S (length ns + 1)) =? length ns + 3)%nat with true by (symmetry; apply Nat.eqb_eq; lia). cbn [andb].
  replace (length ns + 2)%nat with (S (S (length ns))) by lia. cbn [nth].
  rewrite app_nth2, Nat.sub_diag by lia. cbn [nth]. apply beqb_refl.
Qed.

(* what an entry under the children prefix looks like *)
Lemma scan_entry : forall ns key v, valid_names ns -> entry_ok key v -> has_prefix (child_prefix ns) key = true ->
  exists n : bytes, key = child_prefix ns ++ n /\ v = n /\ is_valid_bucket_name n = true /\ bytes_ok n /\
            key = index_key (path_of (ns ++ [n])) /\ check_name (length ns) key v = true.
Proof.
  intros ns key v Hns [He|He] Hp.
  - destruct He as [ms [[Hne [Hv Hb]] [Ek Ev]]]. subst key. destruct (prefix_child ns ms Hns Hv Hp) as [n E]. subst ms.
    rewrite last_last in Ev. subst v. exists n. apply Forall_app in Hv. destruct Hv as [Hv1 Hv2]. inversion Hv2; subst.
    apply Forall_app in Hb. destruct Hb as [_ Hb2]. inversion Hb2; subst.
    repeat split; auto using child_key. apply check_name_child. apply Forall_app. auto.
  - exfalso. apply data_entry_head in He. destruct He as [c [r [E Hc]]]. subst key. unfold child_prefix in Hp. cbn [has_prefix] in Hp.
    destruct (CH_b =? c) eqn:Eb; [|discriminate]. apply Z.eqb_eq in Eb. unfold CH_b in Eb. lia.
Qed.

(* the scans cannot fail when every entry they meet passes the check *)
Lemma names_committed_total : forall ob d ents acc,
  (forall key value v, In (key, value) ents -> merged_value ob key value = Some v -> check_name d key v = true) ->
  exists l, names_committed ob d ents acc = Ok l.
Proof.
  intros ob d. induction ents as [|[key value] ents IH]; intros acc H; cbn [names_committed]; [eauto|].
  destruct (merged_value ob key value) as [v|] eqn:Em.
  - rewrite (H key value v) by (cbn; auto). apply IH. intros; eapply H; cbn; eauto.
  - apply IH. intros; eapply H; cbn; eauto.
Qed.
Lemma names_batch_total : forall d np acc, (forall key value, In (key, value) np -> check_name d key value = true) ->
  exists l, names_batch d np acc = Ok l.
Proof.
  intros d. induction np as [|[key value] np IH]; intros acc H; cbn [names_batch]; [eauto|].
  rewrite (H key value) by (cbn; auto). destruct (existsb (beqb value) acc); apply IH; intros; apply H; cbn; auto.
Qed.

Lemma merged_value_entry_ok : forall ob key value v, obatch_ok ob -> entry_ok key value ->
  merged_value ob key value = Some v -> entry_ok key v.
Proof.
  intros ob key value v Hb He H. unfold merged_value in H. destruct ob as [b|]; [|inversion H; subst; exact He].
  destruct (batch_get b key) as [[d|] del] eqn:Eg; destruct del; try discriminate; inversion H; subst; auto.
  eapply batch_get_put_ok; eauto. rewrite Eg. reflexivity.
Qed.
Lemma net_puts_in_puts : forall b pfx key d, In (key, d) (net_puts_by_prefix b pfx) ->
  has_prefix pfx key = true /\ exists sp, In (key, (d, sp)) (b_puts b).
Proof.
  intros b pfx key d H. unfold net_puts_by_prefix in H. apply in_flat_map in H. destruct H as [[k [d' sp]] [Hin H]].
  destruct (has_prefix pfx k) eqn:Ep; [|destruct H].
  assert (E : (k, d') = (key, d)).
  { destruct (m_get k (b_dels b)) as [sd|]; [destruct (sd <? sp)|]; cbn in H; tauto. }
  inversion E; subst. eauto.
Qed.
Lemma prefix_entries_sub : forall s pfx key value, store_ok s -> bytes_ok pfx -> In (key, value) (prefix_entries s pfx) ->
  In (key, value) s /\ has_prefix pfx key = true.
Proof.
  intros s pfx key value Hs Hp H. unfold prefix_entries, range_entries in H. apply filter_In in H. destruct H as [Hin Hr].
  split; auto. cbn [fst] in Hr. rewrite bytes_prefix_range in Hr; auto. eapply entry_ok_bytes. apply (Hs _ _ Hin).
Qed.

(* BucketNames never answers ErrIllegalValue *)
Lemma names_scan_total : forall s ob ns, store_ok s -> obatch_ok ob -> names_wf ns ->
  exists l, names_scan s ob (child_prefix ns) (length ns) = Ok l.
Proof.
  intros s ob ns Hs Hb [Hv Hbn]. unfold names_scan.
  pose proof (child_prefix_bytes ns Hbn) as Hpb.
  destruct (names_committed_total ob (length ns) (prefix_entries s (child_prefix ns)) []) as [acc Ha].
  { intros key value v Hin Hm. destruct (prefix_entries_sub _ _ _ _ Hs Hpb Hin) as [Hin' Hp].
    pose proof (merged_value_entry_ok ob key value v Hb (Hs _ _ Hin') Hm) as He.
    destruct (scan_entry ns key v Hv He Hp) as [n [_ [_ [_ [_ [_ Hc]]]]]]. exact Hc. }
  rewrite Ha. destruct ob as [b|]; [|eauto].
  apply names_batch_total. intros key value Hin. apply net_puts_in_puts in Hin. destruct Hin as [Hp [sp Hin]].
  destruct Hb as [Hb _]. destruct (scan_entry ns key value Hv (Hb _ _ _ Hin) Hp) as [n [_ [_ [_ [_ [_ Hc]]]]]]. exact Hc.
Qed.

(* ... and lists every name once *)
Lemma names_batch_nodup : forall d np acc l, NoDup acc -> names_batch d np acc = Ok l -> NoDup l.
Proof.
  intros d. induction np as [|[key value] np IH]; intros acc l Hn H; cbn [names_batch] in H.
  - inversion H; subst. exact Hn.
  - destruct (check_name d key value); [|discriminate]. destruct (existsb (beqb value) acc) eqn:Ex.
    + eapply IH; eauto.
    + eapply IH; [|exact H]. apply nodup_app; auto.
      * constructor; [intros []|constructor].
      * intros x Hx [E|[]]. subst x. apply existsb_beqb_in in Hx. congruence.
Qed.
Lemma names_committed_nodup : forall ob d pfx ents acc l,
  (forall key value v, In (key, value) ents -> merged_value ob key value = Some v -> key = pfx ++ v) ->
  NoDup (map fst ents) -> NoDup acc -> (forall a, In a acc -> ~ In (pfx ++ a) (map fst ents)) ->
  names_committed ob d ents acc = Ok l -> NoDup l.
Proof.
  intros ob d pfx. induction ents as [|[key value] ents IH]; intros acc l Hk Hn Ha Hd H; cbn [names_committed] in H.
  - inversion H; subst. exact Ha.
  - cbn [map fst] in Hn. inversion Hn as [|? ? Hnot Hn']; subst.
    destruct (merged_value ob key value) as [v|] eqn:Em.
    + destruct (check_name d key v); [|discriminate].
      assert (Ekey : key = pfx ++ v) by (eapply Hk; [left; reflexivity|exact Em]).
      eapply IH; [| |  | |exact H]; auto.
      * intros; eapply Hk; [right|]; eauto.
      * apply nodup_app; auto.
        -- constructor; [intros []|constructor].
        -- intros x Hx [E|[]]. subst x. apply (Hd v Hx). cbn [map fst]. left. exact Ekey.
      * intros a Hin Hin2. apply in_app_iff in Hin. destruct Hin as [Hin|[E|[]]].
        -- apply (Hd a Hin). cbn [map fst]. right. exact Hin2.
        -- subst a. apply Hnot. rewrite Ekey. exact Hin2.
    + eapply IH; [| | | |exact H]; auto.
      * intros; eapply Hk; [right|]; eauto.
      * intros a Hin Hin2. apply (Hd a Hin). cbn [map fst]. right. exact Hin2.
Qed.
Lemma names_scan_nodup : forall s ob ns l, keys_sorted s -> store_ok s -> obatch_ok ob -> names_wf ns ->
  names_scan s ob (child_prefix ns) (length ns) = Ok l -> NoDup l.
Proof.
  intros s ob ns l Hsorted Hs Hb [Hv Hbn] H. unfold names_scan in H.
  pose proof (child_prefix_bytes ns Hbn) as Hpb.
  destruct (names_committed ob (length ns) (prefix_entries s (child_prefix ns)) []) as [acc|e] eqn:Ea; [|discriminate].
  assert (Hacc : NoDup acc).
  { eapply (names_committed_nodup ob (length ns) (child_prefix ns)); [| |constructor| |exact Ea].
    - intros key value v Hin Hm. destruct (prefix_entries_sub _ _ _ _ Hs Hpb Hin) as [Hin' Hp].
      pose proof (merged_value_entry_ok ob key value v Hb (Hs _ _ Hin') Hm) as He.
      destruct (scan_entry ns key v Hv He Hp) as [n [E1 [E2 _]]]. subst n. exact E1.
    - apply sorted_nodup_keys. unfold prefix_entries. apply range_entries_sorted. exact Hsorted.
    - intros a []. }
  destruct ob as [b|]; [|inversion H; subst; exact Hacc]. eapply names_batch_nodup; eauto.
Qed.

(* the store as a transaction sees it: the committed content with its own log applied *)
Definition view_store (s : store) (ob : option batch) : store :=
  match ob with Some b => commit s b | None => s end.
(* the child [name] of the bucket with name tuple [ns] exists in store [V] *)
Definition child_exists (V : store) (ns : list bytes) (name : bytes) : Prop :=
  is_valid_bucket_name name = true /\ s_get (index_key (path_of (ns ++ [name]))) V <> None.

Lemma view_store_ok : forall s ob, store_ok s -> obatch_ok ob -> store_ok (view_store s ob).
Proof. intros s [b|] Hs Hb; cbn; auto. apply commit_store_ok; auto. Qed.

Lemma children_char : forall V ns name, store_ok V -> valid_names ns ->
  ((exists key, has_prefix (child_prefix ns) key = true /\ s_get key V = Some name) <-> child_exists V ns name).
Proof.
  intros V ns name HV Hv. split.
  - intros [key [Hp Hg]]. pose proof (store_ok_get _ _ _ HV Hg) as He.
    destruct (scan_entry ns key name Hv He Hp) as [n [_ [En [Hval [_ [Ek _]]]]]]. subst n. split; auto.
    rewrite <- Ek, Hg. discriminate.
  - intros [Hval Hg]. destruct (s_get (index_key (path_of (ns ++ [name]))) V) as [v|] eqn:Eg; [|congruence].
    exists (index_key (path_of (ns ++ [name]))). rewrite child_key at 1. split; [apply has_prefix_app|].
    pose proof (store_ok_get _ _ _ HV Eg) as He.
    assert (Hp : has_prefix (child_prefix ns) (index_key (path_of (ns ++ [name]))) = true) by (rewrite child_key; apply has_prefix_app).
    destruct (scan_entry ns _ v Hv He Hp) as [n [E1 [E2 _]]]. rewrite child_key in E1. apply app_inv_head in E1. subst n v. exact Eg.
Qed.

(* the scan, exactly *)
Lemma names_scan_exact : forall s ob ns, keys_sorted s -> store_ok s -> obwf ob -> obatch_ok ob -> names_wf ns ->
  exists l, names_scan s ob (child_prefix ns) (length ns) = Ok l /\ NoDup l /\
            forall name, In name l <-> child_exists (view_store s ob) ns name.
Proof.
  intros s ob ns Hsorted Hs Hwf Hb Hns. destruct (names_scan_total s ob ns Hs Hb Hns) as [l Hl]. exists l.
  split; [exact Hl|]. split; [eapply names_scan_nodup; eauto|]. intros name.
  pose proof (store_ok_keys_bytes s Hs) as Hkb. destruct Hns as [Hv Hbn]. pose proof (child_prefix_bytes ns Hbn) as Hpb.
  rewrite <- (children_char (view_store s ob) ns name (view_store_ok s ob Hs Hb) Hv).
  destruct ob as [b|]; cbn [view_store].
  - apply (read_your_writes_names_scan s b _ _ l Hsorted Hkb Hwf Hpb Hl).
  - apply (read_only_names_scan s _ _ l Hsorted Hkb Hpb Hl).
Qed.

(* levelBucket.BucketNames and transaction.BucketNames *)
Lemma bucket_names_exact : forall s ob h ns, keys_sorted s -> store_ok s -> obwf ob -> obatch_ok ob ->
  names_ok ns -> h_path h = path_of ns -> h_depth h = length ns ->
  exists l, bucket_names s ob h = Ok l /\ NoDup l /\ forall name, In name l <-> child_exists (view_store s ob) ns name.
Proof.
  intros s ob h ns Hsorted Hs Hwf Hb Hns Hp Hd. unfold bucket_names. rewrite (names_prefix_ok h ns Hns Hp Hd), Hd.
  apply names_scan_exact; auto. apply Hns.
Qed.
Lemma tx_bucket_names_exact : forall s ob, keys_sorted s -> store_ok s -> obwf ob -> obatch_ok ob ->
  exists l, tx_bucket_names s ob = Ok l /\ NoDup l /\ forall name, In name l <-> child_exists (view_store s ob) [] name.
Proof.
  intros s ob Hsorted Hs Hwf Hb. unfold tx_bucket_names. rewrite tx_names_prefix.
  apply (names_scan_exact s ob [] Hsorted Hs Hwf Hb). split; constructor.
Qed.

(* ------------------------------------------------------------------ Bucket(name) against the listing *)
Lemma sub_bucket_eval : forall h ns name, names_ok ns -> h_path h = path_of ns -> h_depth h = length ns ->
  is_valid_bucket_name name = true ->
  sub_bucket h name = Ok (mkHandle (path_of (ns ++ [name])) (S (length ns))).
Proof.
  intros h ns name [Hne [Hv _]] Hp Hd Hn. unfold sub_bucket. rewrite Hn, Hp, Hd. cbn [negb].
  rewrite split_path_of by (apply valid_names_no_sep; exact Hv).
  destruct ns as [|n0 ns]; [congruence|].
  change ((length (itoa (length (n0 :: ns)) :: n0 :: ns) <? 2)%nat) with false. cbn [tl].
  rewrite path_of_join, app_length. cbn [length]. replace (S (length ns) + 1)%nat with (S (S (length ns))) by lia. reflexivity.
Qed.
Lemma sub_bucket_invalid : forall h name, is_valid_bucket_name name = false -> sub_bucket h name = Err EInvalidBucketName.
Proof. intros h name H. unfold sub_bucket. rewrite H. reflexivity. Qed.

(* what [bucket_exists] answers: the entry is committed (whether or not this transaction has deleted it since), or
   it is in the transaction's own view *)
Lemma bucket_exists_char : forall s ob key, obwf ob ->
  (bucket_exists s ob key = true <-> s_get key s <> None \/ s_get key (view_store s ob) <> None).
Proof.
  intros s ob key Hwf. unfold bucket_exists. destruct (s_get key s) as [v|] eqn:Es.
  - split; [left; discriminate|reflexivity].
  - destruct ob as [b|]; cbn [view_store].
    + destruct Hwf as [Hb _]. rewrite commit_get by exact Hb. rewrite Es. unfold batch_view.
      destruct (batch_get_shape b key) as [E|[E|[v E]]]; rewrite E; cbn [fst]; split; try discriminate;
        try (intros [H|H]; congruence). intros _. right. discriminate.
    + rewrite Es. split; [discriminate|intros [H|H]; congruence].
Qed.
(* levelBucket.Bucket(name) answers non-nil exactly for the children that are committed or in the transaction's view *)
Lemma bucket_lookup_char : forall s ob h ns name, obwf ob -> names_ok ns -> h_path h = path_of ns -> h_depth h = length ns ->
  (bucket s ob h name <> None <-> child_exists s ns name \/ child_exists (view_store s ob) ns name).
Proof.
  intros s ob h ns name Hwf Hns Hp Hd. unfold bucket, child_exists.
  destruct (is_valid_bucket_name name) eqn:Ev.
  - rewrite (sub_bucket_eval h ns name Hns Hp Hd Ev). cbn [h_path].
    pose proof (bucket_exists_char s ob (index_key (path_of (ns ++ [name]))) Hwf) as Hc.
    destruct (bucket_exists s ob (index_key (path_of (ns ++ [name])))).
    + split; [intros _|discriminate]. destruct Hc as [Hc _]. destruct (Hc eq_refl); auto.
    + split; [congruence|]. intros [[_ H]|[_ H]]; exfalso; destruct Hc as [_ Hc]; [assert (false = true) by auto|assert (false = true) by auto]; discriminate.
  - rewrite (sub_bucket_invalid h name Ev). split; [congruence|]. intros [[H _]|[H _]]; discriminate.
Qed.
(* in a read transaction Bucket(name) and the listing agree; in a write transaction every listed child opens *)
Lemma bucket_lookup_read_only : forall s h ns name, names_ok ns -> h_path h = path_of ns -> h_depth h = length ns ->
  (bucket s None h name <> None <-> child_exists s ns name).
Proof. intros s h ns name Hns Hp Hd. rewrite (bucket_lookup_char s None h ns name I Hns Hp Hd). cbn [view_store]. tauto. Qed.
Lemma listed_child_opens : forall s ob h ns name, obwf ob -> names_ok ns -> h_path h = path_of ns -> h_depth h = length ns ->
  child_exists (view_store s ob) ns name -> bucket s ob h name <> None.
Proof. intros s ob h ns name Hwf Hns Hp Hd H. apply (bucket_lookup_char s ob h ns name Hwf Hns Hp Hd). auto. Qed.

(* ------------------------------------------------------------------ the listing in every reachable state *)
Lemma slot_names_exact : forall snap st src w h vs ob, idx_inv st -> slot_view snap st src = Some (w, h, vs, ob) ->
  exists ns l, names_ok ns /\ h_path h = path_of ns /\ h_depth h = length ns /\
    snd (step_gen snap st (ONames src)) = RNames l /\ NoDup l /\
    forall name, In name l <-> child_exists (view_store vs ob) ns name.
Proof.
  intros snap st src w h vs ob [Hinv Hi] Ev.
  destruct (slot_view_ok _ _ _ _ _ _ _ Hi Ev) as [Hvs [Hvb [ns [Hns [Hp Hd]]]]].
  destruct (slot_view_wf _ _ _ _ _ _ _ Hinv Ev) as [Hwf Hsorted].
  destruct (bucket_names_exact vs ob h ns Hsorted Hvs Hwf Hvb Hns Hp Hd) as [l [Hl [Hn Hx]]].
  exists ns, l. split; [exact Hns|]. split; [exact Hp|]. split; [exact Hd|]. split; [|split; [exact Hn|exact Hx]].
  cbn [step_gen]. rewrite Ev, Hl. reflexivity.
Qed.
Lemma tx_names_exact : forall snap st w vs ob, idx_inv st -> tx_view snap st w = Some (vs, ob) ->
  exists l, snd (step_gen snap st (OTxNames w)) = RNames l /\ NoDup l /\
    forall name, In name l <-> child_exists (view_store vs ob) [] name.
Proof.
  intros snap st w vs ob [Hinv Hi] Ev.
  destruct (tx_view_ok _ _ _ _ _ Hi Ev) as [Hvs Hvb]. destruct (tx_view_wf _ _ _ _ _ Hinv Ev) as [Hwf Hsorted].
  destruct (tx_bucket_names_exact vs ob Hsorted Hvs Hwf Hvb) as [l [Hl [Hn Hx]]].
  exists l. split; [|split; [exact Hn|exact Hx]]. cbn [step_gen]. rewrite Ev, Hl. reflexivity.
Qed.

(* C11_bucket_names_exact, for every state reachable by a (typed) operation sequence *)
Lemma run_names_exact : forall snap ops, Forall op_bytes ops ->
  let st := exec snap init_state ops in
  (forall src w h vs ob, slot_view snap st src = Some (w, h, vs, ob) ->
     exists ns l, names_ok ns /\ h_path h = path_of ns /\ h_depth h = length ns /\
       snd (step_gen snap st (ONames src)) = RNames l /\ NoDup l /\
       forall name, In name l <-> child_exists (view_store vs ob) ns name) /\
  (forall w vs ob, tx_view snap st w = Some (vs, ob) ->
     exists l, snd (step_gen snap st (OTxNames w)) = RNames l /\ NoDup l /\
       forall name, In name l <-> child_exists (view_store vs ob) [] name).
Proof.
  intros snap ops Ho st. pose proof (run_idx_inv snap ops Ho) as Hi. fold st in Hi. split.
  - intros. eapply slot_names_exact; eauto.
  - intros. eapply tx_names_exact; eauto.
Qed.

(* the invariant spelled out for the states reachable from the empty database *)
Lemma run_idx_inv_explicit : forall snap ops, Forall op_bytes ops ->
  let st := exec snap init_state ops in
  store_ok (st_store st) /\
  match st_wtx st with Some b => batch_idx_ok b /\ store_ok (commit (st_store st) b) | None => True end /\
  match st_rtx st with Some s0 => store_ok s0 | None => True end /\
  Forall (fun o : option (bool * handle) => match o with Some (_, h) => handle_ok h | None => True end) (st_bs st).
Proof.
  intros snap ops Ho st. destruct (run_idx_inv snap ops Ho) as [_ [H1 [H2 [H3 H4]]]]. fold st in H1, H2, H3, H4.
  split; [exact H1|]. split; [|split; [exact H3|exact H4]].
  destruct (st_wtx st) as [b|]; [|exact I]. split; [exact H2|apply commit_store_ok; auto].
Qed.

(* preservation, function by function (what [step_idx_part] is assembled from) *)
Lemma idx_ops_preserve :
  (forall s b name, bytes_ok name -> batch_idx_ok b -> batch_idx_ok (snd (create_top_level s b name))) /\
  (forall s ob h name, handle_ok h -> bytes_ok name -> obatch_ok ob -> obatch_ok (snd (new_bucket s ob h name))) /\
  (forall s ob h name, obatch_ok ob -> obatch_ok (snd (delete_bucket s ob h name))) /\
  (forall ob h k v, handle_ok h -> bytes_ok k -> obatch_ok ob -> obatch_ok (snd (bucket_put ob h k v))) /\
  (forall ob h k, obatch_ok ob -> obatch_ok (snd (bucket_delete ob h k))) /\
  (forall s ob h, obatch_ok ob -> obatch_ok (snd (clear s ob h))) /\
  (forall s b, store_ok s -> batch_idx_ok b -> store_ok (commit s b)) /\
  (forall s b, store_ok s -> store_ok (rollback s b)).
Proof.
  refine (conj _ (conj _ (conj _ (conj _ (conj _ (conj _ (conj _ _))))))).
  - intros. apply create_top_level_ok; auto.
  - intros. apply new_bucket_ok; auto.
  - apply delete_bucket_idx_ok.
  - apply bucket_put_idx_ok.
  - apply bucket_delete_idx_ok.
  - apply clear_idx_ok.
  - apply commit_store_ok.
  - intros s b H. exact H.
Qed.

(* ------------------------------------------------------------------ what is NOT invariant (closed witnesses) *)
(* "a" "x" "y" "k" "v" *)
Definition n_a : bytes := [97].  Definition n_x : bytes := [120].  Definition n_y : bytes := [121].
Definition orphan_ops : list op :=
  [OBegin true; OCreateTop 0 n_a; ONew 1 0 n_x; ODelBucket 0 n_x; ONew 2 1 n_y; OPut 1 [107] [118]; OCommit].
Lemma byte_ok_dec : forall c, (0 <=? c) && (c <=? 255) = true -> byte_ok c.
Proof. intros c H. apply andb_true_iff in H. destruct H as [H1 H2]. apply Z.leb_le in H1. apply Z.leb_le in H2. split; auto. Qed.
Ltac solve_bytes := repeat (first [exact I | apply Forall_nil | apply Forall_cons | split | apply byte_ok_dec; reflexivity]).

Lemma orphan_ops_bytes : Forall op_bytes orphan_ops.
Proof. unfold orphan_ops, n_a, n_x, n_y. repeat (apply Forall_cons; [cbn [op_bytes]; solve_bytes|]). apply Forall_nil. Qed.

(* "every bucket's parent exists" is not an invariant: a handle kept after its bucket was deleted still creates
   sub-buckets (and stores data).  The committed store then holds b_3_a_x_y and 2_a_x_k but not b_2_a_x ... *)
Lemma parent_exists_refuted :
  exists ops ns n, Forall op_bytes ops /\ ns <> [] /\
    s_get (index_key (path_of (ns ++ [n]))) (st_store (run ops)) <> None /\
    s_get (index_key (path_of ns)) (st_store (run ops)) = None.
Proof.
  exists orphan_ops, [n_a; n_x], n_y. split; [exact orphan_ops_bytes|]. split; [discriminate|].
  split; vm_compute; [discriminate|reflexivity].
Qed.
(* ... and a bucket "x" created afresh later is born with the sub-bucket "y" and the key "k" *)
Definition resurrect_ops : list op := orphan_ops ++ [OBegin true; OTop true 0 n_a; ONew 1 0 n_x].
Lemma fresh_bucket_not_empty_refuted :
  Forall op_bytes resurrect_ops /\
  snd (step (run orphan_ops) (ODump)) <> RSkip /\
  snd (step (run resurrect_ops) (ONames 1)) = RNames [n_y] /\
  snd (step (run resurrect_ops) (OGet 1 [107])) = RVal [118].
Proof.
  split.
  - unfold resurrect_ops. apply Forall_app. split; [exact orphan_ops_bytes|].
    unfold n_a, n_x. repeat (apply Forall_cons; [cbn [op_bytes]; solve_bytes|]). apply Forall_nil.
  - split; [vm_compute; discriminate|]. split; vm_compute; reflexivity.
Qed.

(* Bucket(name) after DeleteBucket(name) of a committed bucket in the same write transaction still answers, while
   BucketNames no longer lists it (the pending delete is not consulted by Bucket/TopLevelBucket/FetchBucket) *)
Definition lookup_ops : list op :=
  [OBegin true; OCreateTop 0 n_a; ONew 1 0 n_x; OCommit; OBegin true; OTop true 0 n_a; ODelBucket 0 n_x].
Lemma lookup_after_delete_refuted :
  Forall op_bytes lookup_ops /\
  snd (step (run lookup_ops) (ONames 0)) = RNames [] /\
  snd (step (run lookup_ops) (OBucket 1 0 n_x)) = ROk.
Proof.
  split; [unfold lookup_ops, n_a, n_x; repeat (apply Forall_cons; [cbn [op_bytes]; solve_bytes|]); apply Forall_nil|].
  split; vm_compute; reflexivity.
Qed.
(* NewBucket of a bucket created earlier in the same transaction succeeds again (no ErrBucketExist); after a commit it
   is refused *)
Definition twice_ops : list op := [OBegin true; OCreateTop 0 n_a; ONew 1 0 n_x].
Lemma create_twice_refuted :
  snd (step (run twice_ops) (ONew 2 0 n_x)) = ROk /\
  snd (step (run (twice_ops ++ [OCommit; OBegin true; OTop true 0 n_a])) (ONew 2 0 n_x)) = RErr EBucketExist.
Proof. split; vm_compute; reflexivity. Qed.
