(* KV — lemmas and proofs about KV/Model.v (property C11). *)
From Coq Require Import List ZArith Bool Lia Sorted Permutation.
Import ListNotations.
Open Scope Z_scope.
Require Import MW.KV.Model.

(* ------------------------------------------------------------------ byte-string order *)
Lemma bcmp_eq_iff : forall a b, bcmp a b = Eq <-> a = b.
Proof.
  induction a as [|x a IH]; destruct b as [|y b]; cbn; try (split; congruence).
  destruct (Z.compare_spec x y) as [E|L|G].
  - subst. rewrite IH. split; congruence.
  - split; [discriminate|]. intros H; inversion H; lia.
  - split; [discriminate|]. intros H; inversion H; lia.
Qed.
Lemma bcmp_refl : forall a, bcmp a a = Eq.
Proof. intros a. apply bcmp_eq_iff. reflexivity. Qed.
Lemma bcmp_antisym : forall a b, bcmp b a = CompOpp (bcmp a b).
Proof.
  induction a as [|x a IH]; destruct b as [|y b]; cbn; try reflexivity.
  rewrite (Z.compare_antisym x y). destruct (x ?= y); cbn; auto.
Qed.
Lemma beqb_true_iff : forall a b, beqb a b = true <-> a = b.
Proof.
  intros a b. unfold beqb. rewrite <- bcmp_eq_iff. destruct (bcmp a b); split; congruence.
Qed.
Lemma beqb_refl : forall a, beqb a a = true.
Proof. intros a. apply beqb_true_iff. reflexivity. Qed.
Lemma beqb_false_iff : forall a b, beqb a b = false <-> a <> b.
Proof.
  intros a b. rewrite <- beqb_true_iff. destruct (beqb a b); split; congruence.
Qed.
Lemma beqb_sym : forall a b, beqb a b = beqb b a.
Proof.
  intros a b. destruct (beqb a b) eqn:E.
  - apply beqb_true_iff in E. subst. symmetry. apply beqb_refl.
  - apply beqb_false_iff in E. symmetry. apply beqb_false_iff. congruence.
Qed.
Lemma blt_trans : forall a b c, blt a b = true -> blt b c = true -> blt a c = true.
Proof.
  unfold blt. induction a as [|x a IH]; destruct b as [|y b]; destruct c as [|z c]; cbn; try congruence.
  destruct (Z.compare_spec x y) as [E|L|G]; try congruence.
  - subst y. destruct (Z.compare_spec x z); try congruence. apply IH.
  - destruct (Z.compare_spec y z) as [E2|L2|G2]; try congruence.
    + subst z. destruct (Z.compare_spec x y); try lia; congruence.
    + destruct (Z.compare_spec x z); try lia; congruence.
Qed.
Lemma blt_irrefl : forall a, blt a a = false.
Proof. intros a. unfold blt. rewrite bcmp_refl. reflexivity. Qed.
Lemma ble_iff : forall a b, ble a b = true <-> (blt a b = true \/ a = b).
Proof.
  intros a b. unfold ble, blt. rewrite <- bcmp_eq_iff.
  destruct (bcmp a b); split; intros H; auto; try congruence; try (destruct H; congruence).
Qed.
Lemma blt_negb_ble : forall a b, blt a b = negb (ble b a).
Proof.
  intros a b. unfold blt, ble. rewrite (bcmp_antisym a b). destruct (bcmp a b); reflexivity.
Qed.
Lemma ble_trans_lt : forall a b c, ble a b = true -> blt b c = true -> blt a c = true.
Proof.
  intros a b c H1 H2. apply ble_iff in H1. destruct H1 as [H1|H1]; [eapply blt_trans; eauto|subst; auto].
Qed.
Lemma blt_trans_le : forall a b c, blt a b = true -> ble b c = true -> blt a c = true.
Proof.
  intros a b c H1 H2. apply ble_iff in H2. destruct H2 as [H2|H2]; [eapply blt_trans; eauto|subst; auto].
Qed.
Lemma blt_not_eq : forall a b, blt a b = true -> a <> b.
Proof. intros a b H E. subst. rewrite blt_irrefl in H. discriminate. Qed.

(* ------------------------------------------------------------------ has_prefix *)
Lemma has_prefix_app : forall p k, has_prefix p (p ++ k) = true.
Proof. induction p as [|x p IH]; intros k; cbn; auto. rewrite Z.eqb_refl. cbn. apply IH. Qed.
Lemma has_prefix_iff : forall p k, has_prefix p k = true <-> exists r, k = p ++ r.
Proof.
  induction p as [|x p IH]; intros k; cbn.
  - split; eauto.
  - destruct k as [|y k]; [split; [discriminate|intros [r H]; discriminate]|].
    rewrite andb_true_iff, IH, Z.eqb_eq. split.
    + intros [E [r H]]. subst. eauto.
    + intros [r H]. inversion H. subst. eauto.
Qed.
Lemma has_prefix_app_inv : forall a b k, has_prefix (a ++ b) (a ++ k) = has_prefix b k.
Proof. induction a as [|x a IH]; intros b k; cbn; auto. rewrite Z.eqb_refl. cbn. apply IH. Qed.

(* ------------------------------------------------------------------ C11_bytes_prefix *)
(* lo <= k < limit(p)  <->  p is a prefix of k, for all byte strings, including prefixes that end in
   (or consist of) 0xff bytes and the empty prefix, where the limit is absent. *)
Lemma bcmp_cons : forall x a y b, bcmp (x :: a) (y :: b) = match x ?= y with Eq => bcmp a b | c => c end.
Proof. reflexivity. Qed.

Lemma bytes_prefix_range : forall p k, bytes_ok p -> bytes_ok k ->
  in_range p (bp_limit p) k = has_prefix p k.
Proof.
  unfold in_range.
  induction p as [|c p IH]; intros k Hp Hk.
  - cbn. destruct k; reflexivity.
  - destruct k as [|y k].
    + cbn. reflexivity.
    + inversion Hp as [|? ? Hc Hp']; subst. inversion Hk as [|? ? Hy Hk']; subst.
      specialize (IH k Hp' Hk'). unfold byte_ok in *.
      cbn [has_prefix bp_limit].
      unfold ble, blt in *. 
      destruct (bp_limit p) as [l|] eqn:El.
      * rewrite !bcmp_cons. destruct (Z.compare_spec c y) as [E|L|G].
        -- subst y. rewrite Z.eqb_refl, ?Z.compare_refl. cbn. exact IH.
        -- replace (c =? y) with false by (symmetry; apply Z.eqb_neq; lia).
           destruct (Z.compare_spec y c); try lia; try reflexivity.
        -- replace (c =? y) with false by (symmetry; apply Z.eqb_neq; lia). reflexivity.
      * destruct (c <? 255) eqn:Ec.
        -- apply Z.ltb_lt in Ec. rewrite !bcmp_cons.
           destruct (Z.compare_spec c y) as [E|L|G].
           ++ subst y. rewrite Z.eqb_refl. cbn.
              destruct (Z.compare_spec c (c + 1)); try lia. rewrite andb_true_r in IH |- *. exact IH.
           ++ replace (c =? y) with false by (symmetry; apply Z.eqb_neq; lia). cbn.
              destruct (Z.compare_spec y (c + 1)) as [E2|L2|G2]; try lia; try reflexivity.
              subst y. destruct k; reflexivity.
           ++ replace (c =? y) with false by (symmetry; apply Z.eqb_neq; lia). reflexivity.
        -- apply Z.ltb_ge in Ec. assert (c = 255) by lia. subst c. rewrite !bcmp_cons.
           destruct (Z.compare_spec 255 y) as [E|L|G]; try lia.
           subst y. cbn. exact IH.
Qed.

Lemma bp_limit_none_iff : forall p, bytes_ok p -> (bp_limit p = None <-> Forall (fun c => c = 255) p).
Proof.
  induction p as [|c p IH]; intros Hp; cbn.
  - split; auto.
  - inversion Hp as [|? ? Hc Hp']; subst. unfold byte_ok in Hc. specialize (IH Hp').
    destruct (bp_limit p).
    + split; [discriminate|]. intros H. inversion H; subst. apply IH in H3. discriminate.
    + destruct (c <? 255) eqn:Ec.
      * apply Z.ltb_lt in Ec. split; [discriminate|]. intros H. inversion H; lia.
      * apply Z.ltb_ge in Ec. split; auto. intros _. constructor; [lia|]. apply IH. reflexivity.
Qed.

Lemma bp_limit_app : forall a b,
  bp_limit (a ++ b) = match bp_limit b with Some l => Some (a ++ l) | None => bp_limit a end.
Proof.
  induction a as [|x a IH]; intros b; cbn.
  - destruct (bp_limit b); reflexivity.
  - rewrite IH. destruct (bp_limit b); reflexivity.
Qed.

(* ------------------------------------------------------------------ association maps *)
Lemma m_get_put_same {V} : forall k (v : V) m, m_get k (m_put k v m) = Some v.
Proof.
  intros k v m. induction m as [|[k' v'] m IH]; cbn.
  - rewrite beqb_refl. reflexivity.
  - destruct (bcmp k k') eqn:E; cbn.
    + rewrite beqb_refl. reflexivity.
    + rewrite beqb_refl. reflexivity.
    + unfold beqb at 1. rewrite E. exact IH.
Qed.
Lemma m_get_put_other {V} : forall k k' (v : V) m, k <> k' -> m_get k (m_put k' v m) = m_get k m.
Proof.
  intros k k' v m Hne. assert (Hf : beqb k k' = false) by (apply beqb_false_iff; exact Hne).
  induction m as [|[k2 v2] m IH]; cbn.
  - rewrite Hf. reflexivity.
  - destruct (bcmp k' k2) eqn:E; cbn.
    + apply bcmp_eq_iff in E. subst k2. rewrite Hf. reflexivity.
    + rewrite Hf. reflexivity.
    + rewrite IH. reflexivity.
Qed.
Lemma m_get_del_same {V} : forall k (m : amap V), m_get k (m_del k m) = None.
Proof.
  intros k m. induction m as [|[k' v'] m IH]; cbn; auto.
  destruct (beqb k k') eqn:E; cbn; auto. rewrite E. exact IH.
Qed.
Lemma m_get_del_other {V} : forall k k' (m : amap V), k <> k' -> m_get k (m_del k' m) = m_get k m.
Proof.
  intros k k' m Hne. induction m as [|[k2 v2] m IH]; cbn; auto.
  destruct (beqb k' k2) eqn:E; cbn.
  - apply beqb_true_iff in E. subst k2. replace (beqb k k') with false by (symmetry; apply beqb_false_iff; exact Hne). exact IH.
  - rewrite IH. reflexivity.
Qed.

Definition key_lt {V} (a b : bytes * V) : Prop := blt (fst a) (fst b) = true.
Definition keys_sorted {V} (m : amap V) : Prop := StronglySorted key_lt m.

Lemma m_put_in {V} : forall k (v : V) m e, In e (m_put k v m) -> e = (k, v) \/ In e m.
Proof.
  intros k v m e. induction m as [|[k' v'] m IH]; cbn.
  - intros [H|[]]; auto.
  - destruct (bcmp k k'); cbn; intros H.
    + destruct H; auto.
    + destruct H as [H|[H|H]]; auto.
    + destruct H as [H|H]; auto. apply IH in H. destruct H; auto.
Qed.
Lemma m_put_sorted {V} : forall k (v : V) m, keys_sorted m -> keys_sorted (m_put k v m).
Proof.
  intros k v m. induction m as [|[k' v'] m IH]; cbn; intros Hs.
  - repeat constructor.
  - inversion Hs as [|? ? Hs' Hall]; subst.
    destruct (bcmp k k') eqn:E.
    + apply bcmp_eq_iff in E. subst k'. constructor; auto.
    + constructor; auto. constructor.
      * unfold key_lt, blt. cbn. rewrite E. reflexivity.
      * rewrite Forall_forall in *. intros e He. specialize (Hall e He). unfold key_lt in *. cbn in *.
        eapply blt_trans; [|exact Hall]. unfold blt. rewrite E. reflexivity.
    + constructor; [apply IH; exact Hs'|]. rewrite Forall_forall in *. intros e He. apply m_put_in in He. destruct He as [He|He].
      * subst e. unfold key_lt, blt. cbn. rewrite (bcmp_antisym k k'), E. reflexivity.
      * auto.
Qed.
Lemma m_del_in {V} : forall k (m : amap V) e, In e (m_del k m) -> In e m /\ fst e <> k.
Proof.
  intros k m e. induction m as [|[k' v'] m IH]; cbn; [tauto|].
  destruct (beqb k k') eqn:E; cbn.
  - intros H. apply IH in H. tauto.
  - intros [H|H].
    + subst e. cbn. apply beqb_false_iff in E. split; auto.
    + apply IH in H. tauto.
Qed.
Lemma m_del_sorted {V} : forall k (m : amap V), keys_sorted m -> keys_sorted (m_del k m).
Proof.
  intros k m. induction m as [|[k' v'] m IH]; cbn; intros Hs; auto.
  inversion Hs as [|? ? Hs' Hall]; subst.
  destruct (beqb k k'); [apply IH; exact Hs'|]. constructor; [apply IH; exact Hs'|].
  rewrite Forall_forall in *. intros e He. apply m_del_in in He. apply Hall. tauto.
Qed.
Lemma filter_sorted {V} : forall (f : bytes * V -> bool) m, keys_sorted m -> keys_sorted (filter f m).
Proof.
  intros f m. induction m as [|e m IH]; cbn; intros Hs; auto.
  inversion Hs as [|? ? Hs' Hall]; subst. destruct (f e); [|apply IH; exact Hs'].
  constructor; [apply IH; exact Hs'|]. rewrite Forall_forall in *. intros x Hx. apply filter_In in Hx. apply Hall. tauto.
Qed.
Lemma sorted_get_in {V} : forall (m : amap V) k v, keys_sorted m -> (In (k, v) m <-> m_get k m = Some v).
Proof.
  induction m as [|[k' v'] m IH]; intros k v Hs; cbn.
  - split; [tauto|discriminate].
  - inversion Hs as [|? ? Hs' Hall]; subst. destruct (beqb k k') eqn:E.
    + apply beqb_true_iff in E. subst k'. split.
      * intros [H|H]; [congruence|]. rewrite Forall_forall in Hall. apply Hall in H. unfold key_lt in H. cbn in H.
        rewrite blt_irrefl in H. discriminate.
      * intros H. inversion H. auto.
    + apply beqb_false_iff in E. rewrite <- IH by auto. split.
      * intros [H|H]; [inversion H; congruence|auto].
      * auto.
Qed.
Lemma sorted_nodup_keys {V} : forall (m : amap V), keys_sorted m -> NoDup (map fst m).
Proof.
  induction m as [|[k v] m IH]; cbn; intros Hs; constructor; inversion Hs as [|? ? Hs' Hall]; subst; auto.
  intros Hin. apply in_map_iff in Hin. destruct Hin as [[k2 v2] [E Hin]]. cbn in E. subst k2.
  rewrite Forall_forall in Hall. apply Hall in Hin. unfold key_lt in Hin. cbn in Hin. rewrite blt_irrefl in Hin. discriminate.
Qed.

(* every key of the map is a byte string *)
Definition keys_bytes {V} (m : amap V) : Prop := Forall (fun e => bytes_ok (fst e)) m.
Lemma m_put_keys_bytes {V} : forall k (v : V) m, bytes_ok k -> keys_bytes m -> keys_bytes (m_put k v m).
Proof.
  intros k v m Hk Hm. unfold keys_bytes in *. rewrite Forall_forall in *. intros e He.
  apply m_put_in in He. destruct He as [He|He]; [subst; auto|auto].
Qed.
Lemma m_del_keys_bytes {V} : forall k (m : amap V), keys_bytes m -> keys_bytes (m_del k m).
Proof.
  intros k m Hm. unfold keys_bytes in *. rewrite Forall_forall in *. intros e He. apply m_del_in in He. apply Hm. tauto.
Qed.

(* ------------------------------------------------------------------ the op log *)
Fixpoint view_of_rlog (rlog : list bop) (k : bytes) : option (option bytes) :=
  match rlog with
  | [] => None
  | BPut k' v :: r => if beqb k k' then Some (Some v) else view_of_rlog r k
  | BDel k' :: r => if beqb k k' then Some None else view_of_rlog r k
  end.

Lemma apply_log_snoc : forall s l o, apply_log s (l ++ [o]) = apply_op (apply_log s l) o.
Proof. intros s l o. unfold apply_log. rewrite fold_left_app. reflexivity. Qed.

Lemma apply_op_get : forall s o k,
  s_get k (apply_op s o) =
  match o with
  | BPut k' v => if beqb k k' then Some v else s_get k s
  | BDel k' => if beqb k k' then None else s_get k s
  end.
Proof.
  intros s o k. unfold s_get. destruct o as [k' v|k']; cbn; destruct (beqb k k') eqn:E.
  - apply beqb_true_iff in E. subst. apply m_get_put_same.
  - apply beqb_false_iff in E. apply m_get_put_other. exact E.
  - apply beqb_true_iff in E. subst. apply m_get_del_same.
  - apply beqb_false_iff in E. apply m_get_del_other. exact E.
Qed.

(* what a reader sees after the log is applied: the last operation on the key decides *)
Lemma apply_rlog_get : forall rlog s k,
  s_get k (apply_log s (rev rlog)) = match view_of_rlog rlog k with Some o => o | None => s_get k s end.
Proof.
  induction rlog as [|o rlog IH]; intros s k; cbn [rev view_of_rlog].
  - reflexivity.
  - rewrite apply_log_snoc, apply_op_get. destruct o as [k' v|k']; destruct (beqb k k'); auto.
Qed.

Lemma apply_log_sorted : forall log s, keys_sorted s -> keys_sorted (apply_log s log).
Proof.
  induction log as [|o log IH]; intros s Hs; cbn; auto. apply IH.
  destruct o; cbn; [apply m_put_sorted|apply m_del_sorted]; exact Hs.
Qed.

(* ------------------------------------------------------------------ summary_sound *)
Definition batch_view (b : batch) (k : bytes) : option (option bytes) :=
  match batch_get b k with
  | (Some v, _) => Some (Some v)
  | (None, true) => Some None
  | (None, false) => None
  end.

Definition key_ok (b : batch) (k : bytes) : Prop :=
  match view_of_rlog (b_rlog b) k with
  | None => m_get k (b_puts b) = None /\ m_get k (b_dels b) = None
  | Some (Some v) => exists sp, m_get k (b_puts b) = Some (v, sp) /\ (forall sd, m_get k (b_dels b) = Some sd -> sd < sp)
  | Some None => exists sd, m_get k (b_dels b) = Some sd /\ (forall v sp, m_get k (b_puts b) = Some (v, sp) -> sp < sd)
  end.
Definition seq_bound (b : batch) : Prop :=
  (forall k v sp, m_get k (b_puts b) = Some (v, sp) -> sp <= b_seq b) /\
  (forall k sd, m_get k (b_dels b) = Some sd -> sd <= b_seq b).
(* the invariant of ldb.batch: the (last put, last delete, seq) summary agrees with the recorded log *)
Definition batch_ok (b : batch) : Prop := seq_bound b /\ forall k, key_ok b k.

Lemma batch_ok_empty : batch_ok empty_batch.
Proof. split; [split; cbn; intros; discriminate|]. intros k. unfold key_ok. cbn. auto. Qed.

Lemma batch_ok_put : forall b k v, batch_ok b -> batch_ok (batch_put b k v).
Proof.
  intros b k v [[Hp Hd] Hk]. split; [split|]; cbn [batch_put b_puts b_dels b_seq b_rlog].
  - intros k2 v2 sp H. destruct (beqb k2 k) eqn:E.
    + apply beqb_true_iff in E. subst k2. rewrite m_get_put_same in H. inversion H. lia.
    + apply beqb_false_iff in E. rewrite m_get_put_other in H by exact E. apply Hp in H. lia.
  - intros k2 sd H. apply Hd in H. lia.
  - intros k2. unfold key_ok. cbn [batch_put b_puts b_dels b_seq b_rlog view_of_rlog].
    destruct (beqb k2 k) eqn:E.
    + apply beqb_true_iff in E. subst k2. exists (b_seq b + 1). rewrite m_get_put_same. split; auto.
      intros sd H. apply Hd in H. lia.
    + apply beqb_false_iff in E. rewrite m_get_put_other by exact E. exact (Hk k2).
Qed.
Lemma batch_ok_delete : forall b k, batch_ok b -> batch_ok (batch_delete b k).
Proof.
  intros b k [[Hp Hd] Hk]. split; [split|]; cbn [batch_delete b_puts b_dels b_seq b_rlog].
  - intros k2 v2 sp H. apply Hp in H. lia.
  - intros k2 sd H. destruct (beqb k2 k) eqn:E.
    + apply beqb_true_iff in E. subst k2. rewrite m_get_put_same in H. inversion H. lia.
    + apply beqb_false_iff in E. rewrite m_get_put_other in H by exact E. apply Hd in H. lia.
  - intros k2. unfold key_ok. cbn [batch_delete b_puts b_dels b_seq b_rlog view_of_rlog].
    destruct (beqb k2 k) eqn:E.
    + apply beqb_true_iff in E. subst k2. exists (b_seq b + 1). rewrite m_get_put_same. split; auto.
      intros v sp H. apply Hp in H. lia.
    + apply beqb_false_iff in E. rewrite m_get_put_other by exact E. exact (Hk k2).
Qed.

Lemma summary_sound : forall b k, batch_ok b -> batch_view b k = view_of_rlog (b_rlog b) k.
Proof.
  intros b k [_ Hk]. specialize (Hk k). unfold key_ok in Hk. unfold batch_view, batch_get.
  destruct (view_of_rlog (b_rlog b) k) as [[v|]|].
  - destruct Hk as [sp [Hp Hd]]. rewrite Hp. destruct (m_get k (b_dels b)) as [sd|]; auto.
    specialize (Hd sd eq_refl). replace (sp <? sd) with false by (symmetry; apply Z.ltb_ge; lia). reflexivity.
  - destruct Hk as [sd [Hd Hp]]. rewrite Hd. destruct (m_get k (b_puts b)) as [[v sp]|]; auto.
    specialize (Hp v sp eq_refl). replace (sp <? sd) with true by (symmetry; apply Z.ltb_lt; lia). reflexivity.
  - destruct Hk as [Hp Hd]. rewrite Hp, Hd. reflexivity.
Qed.

(* reading the committed result = overlaying the summary on the old store *)
Lemma commit_get : forall s b k, batch_ok b ->
  s_get k (commit s b) = match batch_view b k with Some o => o | None => s_get k s end.
Proof. intros s b k Hb. unfold commit, b_log. rewrite apply_rlog_get, summary_sound by exact Hb. reflexivity. Qed.

Lemma batch_get_shape : forall b k, batch_get b k = (None, true) \/ batch_get b k = (None, false) \/ exists v, batch_get b k = (Some v, false).
Proof.
  intros b k. unfold batch_get. destruct (m_get k (b_dels b)); destruct (m_get k (b_puts b)) as [[d sp]|]; eauto.
  destruct (sp <? z); eauto.
Qed.

(* ------------------------------------------------------------------ C11_commit_all_or_nothing *)
Lemma commit_is_apply_log : forall s b, commit s b = apply_log s (b_log b).
Proof. reflexivity. Qed.
Lemma rollback_unchanged : forall s b, rollback s b = s.
Proof. reflexivity. Qed.
Lemma update_all_or_nothing : forall A (f : store -> batch -> result A * batch) s,
  (forall e s', update s f = (Err e, s') -> s' = s) /\
  (forall a s', update s f = (Ok a, s') -> s' = apply_log s (b_log (snd (f s empty_batch)))).
Proof.
  intros A f s. unfold update, commit, rollback. destruct (f s empty_batch) as [[a|e] b]; cbn; split; intros ? ? H; inversion H; reflexivity.
Qed.

(* ------------------------------------------------------------------ C11_read_your_writes: point reads *)
Lemma read_your_writes_get : forall s b h k, batch_ok b -> k <> [] ->
  bucket_get s (Some b) h k = s_get (inner_key (h_path h) k) (commit s b).
Proof.
  intros s b h k Hb Hk. rewrite commit_get by exact Hb. unfold bucket_get, batch_view, merged_value.
  destruct k as [|c k]; [congruence|]. set (ik := inner_key (h_path h) (c :: k)).
  destruct (batch_get_shape b ik) as [E|[E|[v E]]]; rewrite E; destruct (s_get ik s); reflexivity.
Qed.
Lemma read_only_get : forall s h k, k <> [] -> bucket_get s None h k = s_get (inner_key (h_path h) k) s.
Proof.
  intros s h k Hk. unfold bucket_get, merged_value. destruct k; [congruence|]. destruct (s_get _ s); reflexivity.
Qed.

(* ------------------------------------------------------------------ the key encoding *)
Definition no_sep (n : bytes) : Prop := ~ In SEP n.
Definition valid_names (names : list bytes) : Prop := Forall (fun n => is_valid_bucket_name n = true) names.
(* the paths the API hands out: "<depth>_<name1>_..._<nameDepth>", every name valid (non-empty, no '_') *)
Definition valid_path (p : bytes) : Prop :=
  exists names, names <> [] /\ valid_names names /\ p = path_of names.
Definition handle_wf (h : handle) : Prop :=
  exists names, names <> [] /\ valid_names names /\ h_path h = path_of names /\ h_depth h = length names.

Lemma valid_name_no_sep : forall n, is_valid_bucket_name n = true -> no_sep n.
Proof.
  intros n H. unfold is_valid_bucket_name in H. apply andb_true_iff in H. destruct H as [_ H].
  rewrite forallb_forall in H. intros Hin. apply H in Hin. unfold SEP in Hin. cbn in Hin. discriminate.
Qed.
Lemma valid_names_no_sep : forall names, valid_names names -> Forall no_sep names.
Proof. intros names H. eapply Forall_impl; [|exact H]. intros a. apply valid_name_no_sep. Qed.

(* strconv.Itoa *)
Fixpoint val_rev (l : bytes) : Z := match l with [] => 0 | c :: r => (c - 48) + 10 * val_rev r end.
Lemma digits_rev_S : forall f n,
  digits_rev (S f) n = (48 + n mod 10) :: (if n / 10 =? 0 then [] else digits_rev f (n / 10)).
Proof. reflexivity. Qed.
Lemma digits_rev_val : forall f n, 0 <= n <= Z.of_nat f -> val_rev (digits_rev (S f) n) = n.
Proof.
  induction f as [|f IH]; intros n Hn.
  - assert (n = 0) by lia. subst n. reflexivity.
  - rewrite digits_rev_S. destruct (n / 10 =? 0) eqn:E.
    + apply Z.eqb_eq in E. cbn [val_rev]. pose proof (Z.div_mod n 10 ltac:(lia)). lia.
    + apply Z.eqb_neq in E. cbn [val_rev].
      assert (Hq : 0 <= n / 10 <= Z.of_nat f).
      { pose proof (Z.div_mod n 10 ltac:(lia)). pose proof (Z.mod_pos_bound n 10 ltac:(lia)).
        assert (0 <= n / 10) by (apply Z.div_pos; lia). lia. }
      rewrite (IH _ Hq). pose proof (Z.div_mod n 10 ltac:(lia)). lia.
Qed.
Lemma itoa_inj : forall d1 d2, itoa d1 = itoa d2 -> d1 = d2.
Proof.
  intros d1 d2 H. unfold itoa in H. apply (f_equal (@rev Z)) in H. rewrite !rev_involutive in H.
  apply (f_equal val_rev) in H. rewrite !digits_rev_val in H by lia. lia.
Qed.
Lemma digits_rev_digits : forall f n, 0 <= n -> Forall (fun c => 48 <= c <= 57) (digits_rev f n).
Proof.
  induction f as [|f IH]; intros n Hn; [constructor|]. rewrite digits_rev_S. constructor.
  - pose proof (Z.mod_pos_bound n 10 ltac:(lia)). lia.
  - destruct (n / 10 =? 0); [constructor|]. apply IH. apply Z.div_pos; lia.
Qed.
Lemma itoa_digits : forall d, Forall (fun c => 48 <= c <= 57) (itoa d).
Proof. intros d. unfold itoa. apply Forall_rev. apply digits_rev_digits. lia. Qed.
Lemma itoa_no_sep : forall d, no_sep (itoa d).
Proof.
  intros d Hin. pose proof (itoa_digits d) as H. rewrite Forall_forall in H. apply H in Hin. unfold SEP in Hin. lia.
Qed.
Lemma itoa_head : forall d, exists c r, itoa d = c :: r /\ 48 <= c <= 57.
Proof.
  intros d. pose proof (itoa_digits d) as H. destruct (itoa d) as [|c r] eqn:E.
  - unfold itoa in E. cbn in E. apply (f_equal (@length Z)) in E. rewrite app_length in E. cbn in E. lia.
  - inversion H; subst. eauto.
Qed.
Lemma itoa_bytes_ok : forall d, bytes_ok (itoa d).
Proof. intros d. eapply Forall_impl; [|apply itoa_digits]. unfold byte_ok. intros; lia. Qed.

(* a '_'-free head is determined by the whole string *)
Lemma sep_split_unique : forall a b x y, no_sep a -> no_sep b -> a ++ SEP :: x = b ++ SEP :: y -> a = b /\ x = y.
Proof.
  unfold no_sep. induction a as [|c a IH]; intros b x y Ha Hb H; destruct b as [|d b]; cbn in *.
  - inversion H. auto.
  - inversion H. subst. exfalso. apply Hb. auto.
  - inversion H. subst. exfalso. apply Ha. auto.
  - inversion H. subst. destruct (IH b x y) as [E1 E2]; auto. subst. auto.
Qed.
Lemma names_tail_starts_with_sep : forall names k, exists x, flat_map (fun n => SEP :: n) names ++ SEP :: k = SEP :: x.
Proof. intros [|n names] k; cbn; eauto. Qed.
Lemma names_tail_inj : forall n1 n2 k1 k2, length n1 = length n2 -> Forall no_sep n1 -> Forall no_sep n2 ->
  flat_map (fun n => SEP :: n) n1 ++ SEP :: k1 = flat_map (fun n => SEP :: n) n2 ++ SEP :: k2 -> n1 = n2 /\ k1 = k2.
Proof.
  induction n1 as [|a n1 IH]; intros n2 k1 k2 Hl H1 H2 H; destruct n2 as [|b n2]; cbn in Hl; try lia.
  - cbn in H. inversion H. auto.
  - inversion H1; subst. inversion H2; subst. cbn in H. rewrite <- !app_assoc in H. inversion H as [H'].
    destruct (names_tail_starts_with_sep n1 k1) as [x1 E1]. destruct (names_tail_starts_with_sep n2 k2) as [x2 E2].
    rewrite E1, E2 in H'. apply sep_split_unique in H'; auto. destruct H' as [Eab Ex]. subst b.
    assert (Ht : flat_map (fun n => SEP :: n) n1 ++ SEP :: k1 = flat_map (fun n => SEP :: n) n2 ++ SEP :: k2) by congruence.
    apply IH in Ht; auto. destruct Ht; subst; auto.
Qed.

(* C11_isolation: the inner key determines the bucket and the user key, whatever bytes the user key contains *)
Lemma inner_key_injective : forall p1 p2 k1 k2, valid_path p1 -> valid_path p2 ->
  inner_key p1 k1 = inner_key p2 k2 -> p1 = p2 /\ k1 = k2.
Proof.
  intros p1 p2 k1 k2 [n1 [_ [V1 E1]]] [n2 [_ [V2 E2]]] H. subst p1 p2. unfold inner_key, path_of in H.
  rewrite <- !app_assoc in H.
  destruct (names_tail_starts_with_sep n1 k1) as [x1 X1]. destruct (names_tail_starts_with_sep n2 k2) as [x2 X2].
  pose proof H as H'. rewrite X1, X2 in H'. apply sep_split_unique in H'; auto using itoa_no_sep.
  destruct H' as [Ed _]. apply itoa_inj in Ed. rewrite Ed in H. apply app_inv_head in H.
  apply names_tail_inj in H; auto using valid_names_no_sep. destruct H; subst. auto.
Qed.

Lemma inner_key_app : forall p a b, inner_key p (a ++ b) = inner_key p a ++ b.
Proof. intros. unfold inner_key. rewrite <- app_assoc. reflexivity. Qed.

(* a prefix scan issued in one bucket only ever meets keys of that bucket *)
Lemma prefix_scan_in_bucket : forall p1 p2 pre k, valid_path p1 -> valid_path p2 ->
  has_prefix (inner_key p1 pre) (inner_key p2 k) = true -> p1 = p2 /\ has_prefix pre k = true.
Proof.
  intros p1 p2 pre k V1 V2 H. apply has_prefix_iff in H. destruct H as [r H]. rewrite <- inner_key_app in H.
  symmetry in H. apply inner_key_injective in H; auto. destruct H; subst. split; auto. apply has_prefix_app.
Qed.

(* bucket index entries ("b_<path>") never coincide with data keys ("<digits>_...") *)
Lemma index_data_disjoint : forall p1 p2 k, valid_path p2 -> index_key p1 <> inner_key p2 k.
Proof.
  intros p1 p2 k [n2 [_ [_ E]]] H. subst p2. unfold index_key, inner_key, path_of in H.
  destruct (itoa_head (length n2)) as [c [r [Ec Hc]]]. rewrite Ec in H. cbn in H. inversion H. unfold CH_b in *. lia.
Qed.
Lemma index_key_injective : forall p1 p2, index_key p1 = index_key p2 -> p1 = p2.
Proof. intros p1 p2 H. inversion H. reflexivity. Qed.

(* strings.Split / strings.Join on "_" *)
Lemma split_no_sep : forall x, no_sep x -> split_sep x = [x].
Proof.
  unfold no_sep. induction x as [|c x IH]; intros H; cbn; auto.
  destruct (c =? SEP) eqn:E; [apply Z.eqb_eq in E; subst; exfalso; apply H; cbn; auto|].
  rewrite IH; auto. intros Hin. apply H. cbn. auto.
Qed.
Lemma split_app_sep : forall x t, no_sep x -> split_sep (x ++ SEP :: t) = x :: split_sep t.
Proof.
  unfold no_sep. induction x as [|c x IH]; intros t H; cbn.
  - reflexivity.
  - destruct (c =? SEP) eqn:E; [apply Z.eqb_eq in E; subst; exfalso; apply H; cbn; auto|].
    rewrite IH; auto. intros Hin. apply H. cbn. auto.
Qed.
Lemma join_sep_cons2 : forall a b l, join_sep (a :: b :: l) = a ++ SEP :: join_sep (b :: l).
Proof. reflexivity. Qed.
Lemma split_join : forall l, l <> [] -> Forall no_sep l -> split_sep (join_sep l) = l.
Proof.
  induction l as [|x l IH]; intros Hne Hl; [congruence|]. inversion Hl; subst.
  destruct l as [|y l].
  - cbn [join_sep]. apply split_no_sep. auto.
  - rewrite join_sep_cons2, split_app_sep by auto. f_equal. apply IH; [discriminate|auto].
Qed.
Lemma join_cons_flat : forall names a, join_sep (a :: names) = a ++ flat_map (fun n => SEP :: n) names.
Proof.
  induction names as [|n names IH]; intros a.
  - cbn. rewrite app_nil_r. reflexivity.
  - rewrite join_sep_cons2, IH. reflexivity.
Qed.
Lemma path_of_join : forall names, path_of names = join_sep (itoa (length names) :: names).
Proof. intros. unfold path_of. rewrite join_cons_flat. reflexivity. Qed.
Lemma split_path_of : forall names, Forall no_sep names -> split_sep (path_of names) = itoa (length names) :: names.
Proof.
  intros names H. rewrite path_of_join. apply split_join; [discriminate|]. constructor; auto using itoa_no_sep.
Qed.

(* handles stay in canonical form *)
Lemma sub_bucket_wf : forall h name sub names, valid_names names -> names <> [] ->
  h_path h = path_of names -> h_depth h = length names -> sub_bucket h name = Ok sub ->
  is_valid_bucket_name name = true /\ h_path sub = path_of (names ++ [name]) /\ h_depth sub = length (names ++ [name]).
Proof.
  intros h name sub names Hv Hne Hp Hd H. unfold sub_bucket in H.
  destruct (is_valid_bucket_name name) eqn:En; cbn in H; [|discriminate].
  rewrite Hp, split_path_of in H by (apply valid_names_no_sep; exact Hv).
  destruct names as [|n0 names]; [congruence|].
  change ((length (itoa (length (n0 :: names)) :: n0 :: names) <? 2)%nat) with false in H.
  change (tl (itoa (length (n0 :: names)) :: n0 :: names)) with (n0 :: names) in H.
  injection H as Hs. subst sub. cbn [h_path h_depth].
  split; auto. rewrite path_of_join, Hd, !app_length. cbn [length]. split; [|lia].
  replace (S (length names) + 1)%nat with (S (S (length names))) by lia. reflexivity.
Qed.
Lemma sub_bucket_handle_wf : forall h name sub, handle_wf h -> sub_bucket h name = Ok sub -> handle_wf sub.
Proof.
  intros h name sub [names [Hne [Hv [Hp Hd]]]] H. destruct (sub_bucket_wf h name sub names Hv Hne Hp Hd H) as [Hn [Hp' Hd']].
  exists (names ++ [name]). repeat split; auto.
  - destruct names; discriminate.
  - apply Forall_app. split; auto.
Qed.
Lemma top_handle_wf : forall name, is_valid_bucket_name name = true -> handle_wf (mkHandle (top_path name) 1).
Proof.
  intros name Hn. exists [name]. split; [discriminate|]. split; [constructor; auto|]. split; [|reflexivity].
  cbn [h_path]. unfold top_path, path_of. cbn [length flat_map]. rewrite app_nil_r. reflexivity.
Qed.
Lemma handle_wf_valid_path : forall h, handle_wf h -> valid_path (h_path h).
Proof. intros h [names [Hne [Hv [Hp _]]]]. exists names. auto. Qed.

(* ------------------------------------------------------------------ order facts used by ranges *)
Lemma bcmp_app_prefix : forall p a b, bcmp (p ++ a) (p ++ b) = bcmp a b.
Proof. induction p as [|c p IH]; intros a b; cbn; auto. rewrite Z.compare_refl. apply IH. Qed.
Lemma blt_app_prefix : forall p a b, blt (p ++ a) (p ++ b) = blt a b.
Proof. intros. unfold blt. rewrite bcmp_app_prefix. reflexivity. Qed.
Lemma ble_app_prefix : forall p a b, ble (p ++ a) (p ++ b) = ble a b.
Proof. intros. unfold ble. rewrite bcmp_app_prefix. reflexivity. Qed.
Lemma ble_refl : forall a, ble a a = true.
Proof. intros. unfold ble. rewrite bcmp_refl. reflexivity. Qed.
Lemma ble_trans : forall a b c, ble a b = true -> ble b c = true -> ble a c = true.
Proof.
  intros a b c H1 H2. apply ble_iff in H1. apply ble_iff in H2. apply ble_iff.
  destruct H1 as [H1|H1]; destruct H2 as [H2|H2]; subst; auto. left. eapply blt_trans; eauto.
Qed.
Lemma ble_nil : forall a, ble [] a = true.
Proof. destruct a; reflexivity. Qed.
Lemma ble_prefix_app : forall p a, ble p (p ++ a) = true.
Proof. intros. rewrite <- (app_nil_r p) at 1. rewrite ble_app_prefix. apply ble_nil. Qed.
(* everything between two strings with a common prefix has that prefix *)
Lemma between_has_prefix : forall p a b k, ble (p ++ a) k = true -> blt k (p ++ b) = true -> has_prefix p k = true.
Proof.
  induction p as [|c p IH]; intros a b k H1 H2; [reflexivity|].
  destruct k as [|y k]; [cbn in H1; discriminate|].
  unfold ble, blt in *. cbn [app] in *. rewrite bcmp_cons in H1, H2. cbn [has_prefix].
  destruct (Z.compare_spec c y) as [E|L|G].
  - subst y. rewrite Z.compare_refl in H2. rewrite Z.eqb_refl. cbn. eapply IH; [exact H1|exact H2].
  - destruct (Z.compare_spec y c); try lia; discriminate.
  - discriminate.
Qed.

(* ------------------------------------------------------------------ committed ranges (what a goleveldb iterator sees) *)
Lemma range_entries_sorted : forall s lo hi, keys_sorted s -> keys_sorted (range_entries s lo hi).
Proof. intros. apply filter_sorted. assumption. Qed.
Lemma range_entries_in : forall s lo hi k v, keys_sorted s ->
  (In (k, v) (range_entries s lo hi) <-> s_get k s = Some v /\ in_range lo hi k = true).
Proof.
  intros s lo hi k v Hs. unfold range_entries. rewrite filter_In. cbn [fst]. unfold s_get.
  rewrite (sorted_get_in s k v Hs). tauto.
Qed.

Definition strip (pl : nat) (e : bytes * bytes) : bytes * bytes := (skipn pl (fst e), snd e).
Definition inner_ents (path : bytes) (l : list (bytes * bytes)) : list (bytes * bytes) :=
  map (fun e => (inner_key path (fst e), snd e)) l.

Lemma skipn_inner_key : forall path k, skipn (S (length path)) (inner_key path k) = k.
Proof.
  intros. unfold inner_key. replace (path ++ SEP :: k) with ((path ++ [SEP]) ++ k) by (rewrite <- app_assoc; reflexivity).
  replace (S (length path)) with (length (path ++ [SEP])) by (rewrite app_length; cbn; lia).
  rewrite skipn_app, Nat.sub_diag, skipn_all. reflexivity.
Qed.
Lemma inner_key_as_app : forall path k, inner_key path k = (path ++ [SEP]) ++ k.
Proof. intros. unfold inner_key. rewrite <- app_assoc. reflexivity. Qed.

(* a list of entries whose keys all carry the bucket prefix is the image of its stripped form *)
Lemma ents_with_prefix : forall path l,
  Forall (fun e => has_prefix (path ++ [SEP]) (fst e) = true) l ->
  l = inner_ents path (map (strip (S (length path))) l).
Proof.
  intros path l H. unfold inner_ents. induction H as [|[k v] l Hk Hl IH]; [reflexivity|].
  cbn [map]. rewrite <- IH. f_equal.
  cbn [fst] in Hk. apply has_prefix_iff in Hk. destruct Hk as [r Hr]. rewrite <- inner_key_as_app in Hr. subst k.
  unfold strip. cbn [fst snd]. rewrite skipn_inner_key. reflexivity.
Qed.
Lemma inner_ents_sorted : forall path l, keys_sorted (inner_ents path l) -> keys_sorted l.
Proof.
  intros path l. induction l as [|e l IH]; cbn; intros H; [constructor|].
  inversion H as [|? ? Hs Hall]; subst. constructor; [apply IH; exact Hs|].
  rewrite Forall_forall in *. intros x Hx. specialize (Hall (inner_key path (fst x), snd x)).
  unfold key_lt in *. cbn [fst] in *. rewrite <- (blt_app_prefix (path ++ [SEP])), <- !inner_key_as_app.
  apply Hall. unfold inner_ents. apply in_map_iff. exists x. auto.
Qed.
Lemma inner_ents_in : forall path l k v, In (inner_key path k, v) (inner_ents path l) <-> In (k, v) l.
Proof.
  intros path l k v. unfold inner_ents. rewrite in_map_iff. split.
  - intros [[k' v'] [E Hin]]. cbn in E. inversion E as [[E1 E2]]. unfold inner_key in E1.
    apply app_inv_head in E1. inversion E1. subst. exact Hin.
  - intros Hin. exists (k, v). auto.
Qed.

(* ------------------------------------------------------------------ read-only iterators *)
Definition it_rest (it : iter) : list (bytes * bytes) :=
  match it_pos it with SOI => it_ents it | At n => skipn (S n) (it_ents it) | EOI => [] end.

Lemma skipn_nth_error {A} : forall (l : list A) n e, nth_error l n = Some e -> skipn n l = e :: skipn (S n) l.
Proof.
  induction l as [|x l IH]; intros n e H; destruct n; cbn in *; try discriminate.
  - inversion H. reflexivity.
  - apply IH. exact H.
Qed.

(* the merging levelIterator is the iterator of write transactions only (and only with the switch on): everywhere
   else Seek / Next / Key / Value are the functions of the code as found *)
Lemma mi_active_ro : forall it, it_ro it = true -> mi_active it = false.
Proof. intros it H. unfold mi_active. rewrite H. reflexivity. Qed.
Lemma mi_active_unmerged : forall it, it_merge it = false -> mi_active it = false.
Proof. intros it H. unfold mi_active. rewrite H. apply andb_false_r. Qed.
Lemma iter_next_off : forall it, mi_active it = false -> iter_next it = iter_next_u it.
Proof. intros it H. unfold iter_next. rewrite H. reflexivity. Qed.
Lemma iter_seek_off : forall it k, mi_active it = false -> iter_seek it k = iter_seek_u it k.
Proof. intros it k H. unfold iter_seek. rewrite H. reflexivity. Qed.
Lemma iter_raw_off : forall it, mi_active it = false -> iter_raw it = iter_raw_u it.
Proof. intros it H. unfold iter_raw. rewrite H. reflexivity. Qed.

Lemma drain_read_only : forall fuel it,
  it_ro it = true -> it_end it = false ->
  Forall (fun e => fst e <> []) (it_ents it) ->
  (length (it_rest it) < fuel)%nat ->
  drain fuel it = map (strip (it_pl it)) (it_rest it).
Proof.
  induction fuel as [|fuel IH]; intros it Hro Hend Hne Hlen; [lia|].
  cbn [drain]. rewrite iter_next_off by (apply mi_active_ro; exact Hro). unfold iter_next_u. rewrite Hend. unfold ldb_next, it_rest in *.
  destruct (it_pos it) as [|n|] eqn:Epos.
  - destruct (it_ents it) as [|e r] eqn:Eents.
    + rewrite Hro. cbn. reflexivity.
    + set (it' := set_ldb it (At 0%nat) false).
      assert (Hk : iter_key it' = Some (skipn (it_pl it) (fst e)) /\ iter_value it' = snd e).
      { unfold iter_key, iter_value. rewrite iter_raw_off by (apply mi_active_ro; exact Hro). unfold iter_raw_u, it'. cbn. rewrite Eents. cbn. destruct e as [k v]. cbn.
        inversion Hne as [|? ? Hk _]; subst. cbn in Hk. destruct k; [congruence|]. auto. }
      destruct Hk as [Hk Hv]. rewrite Hk, Hv. cbn [map]. f_equal.
      rewrite (IH it'); unfold it'; cbn; auto.
      * rewrite Eents. reflexivity.
      * rewrite Eents. exact Hne.
      * rewrite Eents. cbn in *. lia.
  - destruct (S n <? length (it_ents it))%nat eqn:El.
    + apply Nat.ltb_lt in El. destruct (nth_error (it_ents it) (S n)) as [e|] eqn:En;
        [|apply nth_error_None in En; lia].
      set (it' := set_ldb it (At (S n)) false).
      assert (Hk : iter_key it' = Some (skipn (it_pl it) (fst e)) /\ iter_value it' = snd e).
      { unfold iter_key, iter_value. rewrite iter_raw_off by (apply mi_active_ro; exact Hro). unfold iter_raw_u, it'. cbn [set_ldb it_end it_pos it_ents negb it_pl]. rewrite En.
        destruct e as [k v]. cbn. rewrite Forall_forall in Hne. apply nth_error_In in En. apply Hne in En. cbn in En.
        destruct k; [congruence|]. auto. }
      destruct Hk as [Hk Hv]. rewrite Hk, Hv. rewrite (skipn_nth_error _ _ _ En). cbn [map]. f_equal.
      rewrite (skipn_nth_error _ _ _ En) in Hlen. cbn [length] in Hlen.
      rewrite (IH it'); unfold it'; cbn [set_ldb it_pos it_ents it_ro it_end it_pl]; auto. lia.
    + apply Nat.ltb_ge in El. rewrite Hro. cbn [orb]. rewrite skipn_all2 by lia. reflexivity.
  - rewrite Hro. reflexivity.
Qed.

Lemma ble_trans' : forall a b c, ble a b = true -> ble b c = true -> ble a c = true.
Proof. exact ble_trans. Qed.

(* every key in the range an iterator of bucket [path] covers belongs to that bucket *)
Lemma iter_range_in_bucket : forall path start limit k, bytes_ok path -> bytes_ok k ->
  in_range (inner_key path start)
           (match limit with [] => bp_limit (inner_key path []) | _ :: _ => Some (inner_key path limit) end) k = true ->
  has_prefix (path ++ [SEP]) k = true.
Proof.
  intros path start limit k Hp Hk H. unfold in_range in H. apply andb_true_iff in H. destruct H as [H1 H2].
  rewrite inner_key_as_app in H1.
  destruct limit as [|c limit].
  - assert (Hp' : bytes_ok (path ++ [SEP])).
    { apply Forall_app. split; auto. constructor; [unfold byte_ok, SEP; lia|constructor]. }
    rewrite <- (bytes_prefix_range (path ++ [SEP]) k Hp' Hk). unfold in_range.
    rewrite (ble_trans _ _ _ (ble_prefix_app _ _) H1). cbn.
    rewrite inner_key_as_app, app_nil_r in H2. exact H2.
  - rewrite inner_key_as_app in H2. eapply between_has_prefix; eauto.
Qed.

Lemma filter_len {A} : forall (f : A -> bool) l, (length (filter f l) <= length l)%nat.
Proof. intros f l. induction l as [|x l IH]; cbn; [lia|]. destruct (f x); cbn; lia. Qed.

Definition user_range (start limit k : bytes) : bool :=
  ble start k && match limit with [] => true | _ :: _ => blt k limit end.

Lemma inner_range_is_user_range : forall path start limit k, bytes_ok path -> bytes_ok k ->
  in_range (inner_key path start)
           (match limit with [] => bp_limit (inner_key path []) | _ :: _ => Some (inner_key path limit) end)
           (inner_key path k) = user_range start limit k.
Proof.
  intros path start limit k Hp Hk. unfold in_range, user_range. rewrite !inner_key_as_app, ble_app_prefix. f_equal.
  destruct limit as [|c limit].
  - assert (Hp' : bytes_ok (path ++ [SEP])).
    { apply Forall_app. split; auto. constructor; [unfold byte_ok, SEP; lia|constructor]. }
    assert (Hk' : bytes_ok ((path ++ [SEP]) ++ k)) by (apply Forall_app; auto).
    pose proof (bytes_prefix_range (path ++ [SEP]) _ Hp' Hk') as H. unfold in_range in H.
    rewrite has_prefix_app, ble_prefix_app in H. cbn in H. rewrite app_nil_r. exact H.
  - rewrite blt_app_prefix. reflexivity.
Qed.

(* the snapshot a read-only iterator of a bucket holds: exactly the committed entries of that bucket inside
   the range, in ascending key order *)
Lemma range_ents_char : forall s h start limit, keys_sorted s -> keys_bytes s -> bytes_ok (h_path h) ->
  let it := new_iterator s None h start limit in
  let X := map (strip (it_pl it)) (it_ents it) in
  it_ents it = inner_ents (h_path h) X /\
  (forall k v, In (k, v) X <-> s_get (inner_key (h_path h) k) s = Some v /\ user_range start limit k = true) /\
  StronglySorted (fun a b => blt (fst a) (fst b) = true) X.
Proof.
  intros s h start limit Hs Hb Hp it X.
  set (path := h_path h) in *.
  set (ilimit := match limit with [] => bp_limit (inner_key path []) | _ :: _ => Some (inner_key path limit) end).
  set (ents := range_entries s (inner_key path start) ilimit).
  assert (Eents : it_ents it = ents) by reflexivity.
  assert (Epl : it_pl it = S (length path)) by reflexivity.
  assert (Hpre : Forall (fun e => has_prefix (path ++ [SEP]) (fst e) = true) ents).
  { rewrite Forall_forall. intros [k v] Hin. cbn [fst]. unfold ents, range_entries in Hin. apply filter_In in Hin.
    destruct Hin as [Hin Hr]. cbn [fst] in Hr. eapply iter_range_in_bucket; eauto.
    unfold keys_bytes in Hb. rewrite Forall_forall in Hb. apply (Hb (k, v) Hin). }
  pose proof (ents_with_prefix path ents Hpre) as Hents.
  assert (EX : X = map (strip (S (length path))) ents) by (unfold X; rewrite Eents, Epl; reflexivity).
  rewrite <- EX in Hents. rewrite Eents.
  split; [exact Hents|]. split.
  - intros k v. rewrite <- (inner_ents_in path X k v), <- Hents. unfold ents. rewrite range_entries_in by exact Hs.
    assert (Hkb : s_get (inner_key path k) s = Some v -> bytes_ok k).
    { intros H1. unfold keys_bytes in Hb. rewrite Forall_forall in Hb. unfold s_get in H1. apply sorted_get_in in H1; auto.
      apply Hb in H1. cbn in H1. unfold inner_key in H1. apply Forall_app in H1. destruct H1 as [_ H1]. inversion H1; auto. }
    split; intros [H1 H2]; split; auto.
    + unfold ilimit in H2. rewrite inner_range_is_user_range in H2; auto.
    + unfold ilimit. rewrite inner_range_is_user_range; auto.
  - apply (inner_ents_sorted path). rewrite <- Hents. apply range_entries_sorted. exact Hs.
Qed.

Lemma inner_ents_keys_nonempty : forall path X, Forall (fun e : bytes * bytes => fst e <> []) (inner_ents path X).
Proof.
  intros path X. unfold inner_ents. rewrite Forall_forall. intros e He. apply in_map_iff in He.
  destruct He as [x [E _]]. subst e. cbn. unfold inner_key. destruct path; discriminate.
Qed.
Lemma strip_inner_ents : forall path X, map (strip (S (length path))) (inner_ents path X) = X.
Proof.
  intros path X. unfold inner_ents. rewrite map_map. induction X as [|[k v] X IH]; cbn [map]; [reflexivity|].
  rewrite IH. unfold strip. cbn [fst snd]. rewrite skipn_inner_key. reflexivity.
Qed.

(* C11_iter_exact: a read-only iterator over Range{start, limit} (empty limit = to the end of the bucket),
   drained by Next(), yields exactly the committed entries of the bucket inside the range, ascending *)
Lemma iter_exact : forall s h start limit, keys_sorted s -> keys_bytes s -> bytes_ok (h_path h) ->
  let out := drain (S (length s)) (new_iterator s None h start limit) in
  (forall k v, In (k, v) out <-> s_get (inner_key (h_path h) k) s = Some v /\ user_range start limit k = true) /\
  StronglySorted (fun a b => blt (fst a) (fst b) = true) out.
Proof.
  intros s h start limit Hs Hb Hp out.
  destruct (range_ents_char s h start limit Hs Hb Hp) as [He [Hin Hsorted]].
  set (it := new_iterator s None h start limit) in *.
  assert (Hout : out = map (strip (it_pl it)) (it_ents it)).
  { unfold out. fold it. rewrite drain_read_only; auto.
    - rewrite He. apply inner_ents_keys_nonempty.
    - unfold it_rest. cbn [it new_iterator new_iterator_gen it_pos it_ents]. unfold range_entries.
      match goal with |- (length (filter ?f s) < _)%nat => pose proof (filter_len f s) end. lia. }
  rewrite Hout. split; assumption.
Qed.

(* the same for NewIterator(db.BytesPrefix(p)): exactly the entries whose key has the prefix *)
Definition prefix_slice (p : bytes) : bytes * bytes :=
  match bytes_prefix p with (a, Some l) => (a, l) | (a, None) => (a, []) end.
Lemma bp_limit_nonempty : forall p l, bp_limit p = Some l -> l <> [].
Proof.
  induction p as [|c p IH]; cbn; intros l H; [discriminate|].
  destruct (bp_limit p); [inversion H; discriminate|]. destruct (c <? 255); inversion H; discriminate.
Qed.
Lemma prefix_slice_range : forall p k, bytes_ok p -> bytes_ok k ->
  user_range (fst (prefix_slice p)) (snd (prefix_slice p)) k = has_prefix p k.
Proof.
  intros p k Hp Hk. rewrite <- (bytes_prefix_range p k Hp Hk). unfold prefix_slice, bytes_prefix, user_range, in_range.
  destruct (bp_limit p) as [l|] eqn:E; cbn [fst snd]; auto.
  destruct l; [apply bp_limit_nonempty in E; congruence|reflexivity].
Qed.
Lemma iter_prefix_exact : forall s h p, keys_sorted s -> keys_bytes s -> bytes_ok (h_path h) -> bytes_ok p ->
  let out := drain (S (length s)) (new_iterator s None h (fst (prefix_slice p)) (snd (prefix_slice p))) in
  (forall k v, In (k, v) out <-> s_get (inner_key (h_path h) k) s = Some v /\ has_prefix p k = true) /\
  StronglySorted (fun a b => blt (fst a) (fst b) = true) out.
Proof.
  intros s h p Hs Hb Hp Hpp out. destruct (iter_exact s h (fst (prefix_slice p)) (snd (prefix_slice p)) Hs Hb Hp) as [H1 H2].
  split; [|exact H2]. intros k v. fold out in H1. rewrite H1. split; intros [A B]; split; auto.
  - rewrite prefix_slice_range in B; auto.
    unfold keys_bytes in Hb. rewrite Forall_forall in Hb. unfold s_get in A. apply sorted_get_in in A; auto.
    apply Hb in A. cbn in A. unfold inner_key in A. apply Forall_app in A. destruct A as [_ A]. inversion A; auto.
  - rewrite prefix_slice_range; auto.
    unfold keys_bytes in Hb. rewrite Forall_forall in Hb. unfold s_get in A. apply sorted_get_in in A; auto.
    apply Hb in A. cbn in A. unfold inner_key in A. apply Forall_app in A. destruct A as [_ A]. inversion A; auto.
Qed.

(* ------------------------------------------------------------------ C11_seek *)
Lemma filter_all_ge : forall k (ents : list (bytes * bytes)) e, keys_sorted (e :: ents) -> ble k (fst e) = true ->
  filter (fun x => ble k (fst x)) (e :: ents) = e :: ents.
Proof.
  intros k ents e Hs Hk. inversion Hs as [|? ? Hs' Hall]; subst. cbn [filter]. rewrite Hk. f_equal.
  rewrite Forall_forall in Hall.
  assert (H : forall x, In x ents -> ble k (fst x) = true).
  { intros x Hx. apply Hall in Hx. unfold key_lt in Hx. apply ble_iff. left. eapply ble_trans_lt; eauto. }
  clear -H. induction ents as [|x ents IH]; cbn; [reflexivity|].
  rewrite (H x) by (cbn; auto). f_equal. apply IH. intros y Hy. apply H. cbn. auto.
Qed.
Lemma find_ge_spec : forall k ents i, keys_sorted ents ->
  match find_ge k ents i with
  | Some j => exists n, j = (i + n)%nat /\ (n < length ents)%nat /\ skipn n ents = filter (fun x => ble k (fst x)) ents
  | None => filter (fun x => ble k (fst x)) ents = []
  end.
Proof.
  intros k ents. induction ents as [|[k' v] ents IH]; intros i Hs; cbn [find_ge].
  - reflexivity.
  - destruct (ble k k') eqn:E.
    + exists 0%nat. split; [lia|]. split; [cbn; lia|]. cbn [skipn]. symmetry. apply filter_all_ge; auto.
    + inversion Hs as [|? ? Hs' Hall]; subst. specialize (IH (S i) Hs'). cbn [filter fst]. rewrite E.
      destruct (find_ge k ents (S i)) as [j|]; auto.
      destruct IH as [n [Ej [Hn Hsk]]]. exists (S n). split; [lia|]. split; [cbn; lia|]. exact Hsk.
Qed.

Definition iter_current (it : iter) : list (bytes * bytes) :=
  match iter_key it with Some k => [(k, iter_value it)] | None => [] end.

(* Seek(key) on a read-only iterator positions at the first entry >= key; that entry and the following Next()s
   are exactly the snapshot entries >= key *)
Lemma seek_read_only : forall it key, it_ro it = true -> keys_sorted (it_ents it) ->
  Forall (fun e => fst e <> []) (it_ents it) ->
  let ge := filter (fun e => ble (inner_key (it_path it) key) (fst e)) (it_ents it) in
  (fst (iter_seek it key) = true <-> ge <> []) /\
  iter_current (snd (iter_seek it key)) ++ drain (S (length (it_ents it))) (snd (iter_seek it key))
    = map (strip (it_pl it)) ge.
Proof.
  intros it key Hro Hs Hne ge. rewrite iter_seek_off by (apply mi_active_ro; exact Hro). unfold iter_seek_u, ldb_seek. set (ik := inner_key (it_path it) key) in *.
  pose proof (find_ge_spec ik (it_ents it) 0%nat Hs) as Hf. fold ge in Hf.
  destruct (find_ge ik (it_ents it) 0%nat) as [j|].
  - destruct Hf as [n [Ej [Hn Hsk]]]. cbn in Ej. subst j. rewrite Hro. cbn [fst snd].
    destruct (nth_error (it_ents it) n) as [e|] eqn:En; [|apply nth_error_None in En; lia].
    rewrite (skipn_nth_error _ _ _ En) in Hsk. split.
    + rewrite <- Hsk. split; [discriminate|reflexivity].
    + set (it' := set_ldb it (At n) false).
      assert (Hk : iter_current it' = [strip (it_pl it) e]).
      { unfold iter_current, iter_key, iter_value. rewrite iter_raw_off by (apply mi_active_ro; exact Hro).
        unfold iter_raw_u, it'. cbn [set_ldb it_end it_pos it_ents negb it_pl]. rewrite En.
        destruct e as [k v]. rewrite Forall_forall in Hne. apply nth_error_In in En. apply Hne in En. cbn in En.
        destruct k; [congruence|]. reflexivity. }
      rewrite Hk. rewrite drain_read_only; unfold it'; cbn [set_ldb it_pos it_ents it_ro it_end it_pl]; auto.
      * unfold it_rest. cbn [set_ldb it_pos it_ents]. rewrite <- Hsk. reflexivity.
      * unfold it_rest. cbn [set_ldb it_pos it_ents]. rewrite skipn_length. lia.
  - rewrite Hro. cbn [fst snd]. rewrite Hf. split; [split; [discriminate|congruence]|].
    unfold iter_current, iter_key. rewrite iter_raw_off by (apply mi_active_ro; exact Hro).
    unfold iter_raw_u. cbn [set_ldb it_end it_ro negb andb]. rewrite Hro. cbn [negb andb app map].
    cbn [drain]. rewrite iter_next_off by (apply mi_active_ro; exact Hro).
    unfold iter_next_u. cbn [set_ldb it_end it_ro]. rewrite Hro. reflexivity.
Qed.

Lemma filter_inner_ents : forall path key X,
  filter (fun e => ble (inner_key path key) (fst e)) (inner_ents path X)
  = inner_ents path (filter (fun e => ble key (fst e)) X).
Proof.
  intros path key X. unfold inner_ents. induction X as [|[k v] X IH]; cbn [map filter fst]; [reflexivity|].
  rewrite !inner_key_as_app, ble_app_prefix. destruct (ble key k); cbn [map fst snd]; rewrite <- ?inner_key_as_app, IH; reflexivity.
Qed.

(* C11_seek at the level of user keys: after Seek(key) on a read-only iterator over Range{start, limit} the current
   entry followed by everything Next() yields is exactly the committed entries of the bucket in the range with
   key' >= key, ascending; Seek answers true iff there is one *)
Lemma seek_exact : forall s h start limit key, keys_sorted s -> keys_bytes s -> bytes_ok (h_path h) ->
  let r := iter_seek (new_iterator s None h start limit) key in
  let out := iter_current (snd r) ++ drain (S (length s)) (snd r) in
  (forall k v, In (k, v) out <->
     s_get (inner_key (h_path h) k) s = Some v /\ user_range start limit k = true /\ ble key k = true) /\
  StronglySorted (fun a b => blt (fst a) (fst b) = true) out /\
  (fst r = true <-> out <> []).
Proof.
  intros s h start limit key Hs Hb Hp r out.
  destruct (range_ents_char s h start limit Hs Hb Hp) as [He [Hin Hsorted]].
  set (it := new_iterator s None h start limit) in *.
  set (X := map (strip (it_pl it)) (it_ents it)) in *.
  assert (Hsorted_e : keys_sorted (it_ents it)) by (apply range_entries_sorted; exact Hs).
  assert (Hne : Forall (fun e : bytes * bytes => fst e <> []) (it_ents it)) by (rewrite He; apply inner_ents_keys_nonempty).
  destruct (seek_read_only it key eq_refl Hsorted_e Hne) as [Hb1 Hd].
  assert (Hlen : (length (it_ents it) <= length s)%nat).
  { cbn [it new_iterator new_iterator_gen it_ents]. unfold range_entries. apply filter_len. }
  (* the drain fuel: any fuel above the number of snapshot entries gives the same list *)
  assert (Hfuel : drain (S (length s)) (snd r) = drain (S (length (it_ents it))) (snd r)).
  { unfold r. fold it. rewrite iter_seek_off by reflexivity. unfold iter_seek_u, ldb_seek.
    pose proof (find_ge_spec (inner_key (it_path it) key) (it_ents it) 0%nat Hsorted_e) as Hf.
    destruct (find_ge (inner_key (it_path it) key) (it_ents it) 0%nat) as [j|].
    - destruct Hf as [n [Ej [Hn _]]]. cbn in Ej. subst j. change (it_ro it) with true. cbn [snd].
      set (it' := set_ldb it (At n) false).
      assert (Hr : (length (it_rest it') < S (length (it_ents it)))%nat).
      { unfold it_rest, it'. cbn [set_ldb it_pos it_ents]. rewrite skipn_length. lia. }
      assert (A1 : it_ro it' = true) by reflexivity.
      assert (A2 : it_end it' = false) by reflexivity.
      assert (A3 : Forall (fun e : bytes * bytes => fst e <> []) (it_ents it')) by exact Hne.
      rewrite (drain_read_only (S (length s)) it' A1 A2 A3) by lia.
      rewrite (drain_read_only (S (length (it_ents it))) it' A1 A2 A3) by lia.
      reflexivity.
    - change (it_ro it) with true. cbn [snd]. cbn [drain]. rewrite iter_next_off by reflexivity. unfold iter_next_u. cbn [set_ldb it_end it_ro orb]. reflexivity. }
  assert (Hout : out = filter (fun e => ble key (fst e)) X).
  { unfold out. rewrite Hfuel. unfold r. rewrite Hd.
    replace (it_path it) with (h_path h) by reflexivity. rewrite He, filter_inner_ents.
    replace (it_pl it) with (S (length (h_path h))) by reflexivity. apply strip_inner_ents. }
  split; [|split].
  - intros k v. rewrite Hout, filter_In, Hin. cbn [fst]. tauto.
  - rewrite Hout. apply (@filter_sorted bytes). exact Hsorted.
  - unfold r. rewrite Hb1. rewrite Hout. replace (it_path it) with (h_path h) by reflexivity.
    rewrite He, filter_inner_ents. unfold inner_ents.
    destruct (filter (fun e => ble key (fst e)) X); cbn; split; congruence.
Qed.

(* ------------------------------------------------------------------ C11_read_your_writes: prefix reads *)
Definition batch_wf (b : batch) : Prop := batch_ok b /\ keys_sorted (b_puts b).
Lemma batch_wf_empty : batch_wf empty_batch.
Proof. split; [apply batch_ok_empty|constructor]. Qed.
Lemma batch_wf_put : forall b k v, batch_wf b -> batch_wf (batch_put b k v).
Proof. intros b k v [H1 H2]. split; [apply batch_ok_put; exact H1|]. cbn. apply m_put_sorted. exact H2. Qed.
Lemma batch_wf_delete : forall b k, batch_wf b -> batch_wf (batch_delete b k).
Proof. intros b k [H1 H2]. split; [apply batch_ok_delete; exact H1|exact H2]. Qed.

(* the committed side of a prefix scan *)
Lemma prefix_entries_in : forall s ip key value, keys_sorted s -> bytes_ok ip -> bytes_ok key ->
  (In (key, value) (prefix_entries s ip) <-> s_get key s = Some value /\ has_prefix ip key = true).
Proof.
  intros s ip key value Hs Hip Hk. unfold prefix_entries. rewrite range_entries_in by exact Hs.
  rewrite bytes_prefix_range by assumption. tauto.
Qed.

(* merged_value agrees with the committed result *)
Lemma merged_value_commit : forall s b key value, batch_ok b -> s_get key s = Some value ->
  merged_value (Some b) key value = s_get key (commit s b).
Proof.
  intros s b key value Hb Hs. rewrite commit_get by exact Hb. unfold merged_value, batch_view.
  destruct (batch_get_shape b key) as [E|[E|[v E]]]; rewrite E; auto.
Qed.

(* the batch side: net puts are exactly the keys whose last operation is a put *)
Lemma net_puts_in : forall b ip key d, batch_wf b ->
  (In (key, d) (net_puts_by_prefix b ip) <-> has_prefix ip key = true /\ batch_view b key = Some (Some d)).
Proof.
  intros b ip key d [Hb Hsorted]. unfold net_puts_by_prefix. rewrite in_flat_map. split.
  - intros [[k [d' sp]] [Hin H]]. pose proof Hin as Hget. apply sorted_get_in in Hget; [|exact Hsorted].
    destruct (has_prefix ip k) eqn:Ep; [|destruct H].
    assert (Hk : (k, d') = (key, d)).
    { destruct (m_get k (b_dels b)) as [sd|]; [destruct (sd <? sp)|]; cbn in H; tauto. }
    inversion Hk; subst k d'. split; auto.
    rewrite summary_sound by exact Hb. destruct Hb as [_ Hko]. specialize (Hko key). unfold key_ok in Hko.
    destruct (view_of_rlog (b_rlog b) key) as [[v|]|].
    + destruct Hko as [sp' [Hp' _]]. congruence.
    + destruct Hko as [sd [Hd Hlt]]. rewrite Hd in H. specialize (Hlt d sp Hget).
      replace (sd <? sp) with false in H by (symmetry; apply Z.ltb_ge; lia). destruct H.
    + destruct Hko as [Hp' _]. congruence.
  - intros [Hpre Hv]. pose proof Hb as Hb'. rewrite summary_sound in Hv by exact Hb. destruct Hb as [_ Hko]. specialize (Hko key).
    unfold key_ok in Hko. rewrite Hv in Hko. destruct Hko as [sp [Hp Hd]].
    exists (key, (d, sp)). split; [apply sorted_get_in; auto|]. rewrite Hpre.
    destruct (m_get key (b_dels b)) as [sd|] eqn:Ed; [|cbn; auto].
    specialize (Hd sd eq_refl). replace (sd <? sp) with true by (symmetry; apply Z.ltb_lt; lia). cbn. auto.
Qed.

Lemma gbp_committed_spec : forall ob pl ents,
  (forall k' v, In (k', v) (fst (gbp_committed ob pl ents)) <->
     exists key value, In (key, value) ents /\ merged_value ob key value = Some v /\ k' = skipn pl key) /\
  (forall key, In key (snd (gbp_committed ob pl ents)) <->
     exists value v, In (key, value) ents /\ merged_value ob key value = Some v).
Proof.
  intros ob pl. induction ents as [|[key value] ents [IH1 IH2]]; cbn [gbp_committed].
  - split; intros; cbn; split; try tauto; intros [? [? [[] _]]].
  - destruct (gbp_committed ob pl ents) as [es set] eqn:E. cbn [fst snd] in *.
    destruct (merged_value ob key value) as [v0|] eqn:Em; cbn [fst snd]; split.
    + intros k' v. cbn [In]. rewrite IH1. split.
      * intros [H|[key' [value' [Hin [Hm Hk]]]]].
        -- inversion H; subst. exists key, value. cbn. auto.
        -- exists key', value'. cbn. auto.
      * intros [key' [value' [[Hin|Hin] [Hm Hk]]]].
        -- inversion Hin; subst key' value'. rewrite Em in Hm. inversion Hm; subst. left. reflexivity.
        -- right. eauto.
    + intros key'. cbn [In]. rewrite IH2. split.
      * intros [H|[value' [v [Hin Hm]]]]; [subst; exists value, v0; cbn; auto|exists value', v; cbn; auto].
      * intros [value' [v [[Hin|Hin] Hm]]]; [inversion Hin; subst; auto|right; eauto].
    + intros k' v. rewrite IH1. split.
      * intros [key' [value' [Hin [Hm Hk]]]]. exists key', value'. cbn. auto.
      * intros [key' [value' [[Hin|Hin] [Hm Hk]]]]; [inversion Hin; subst; congruence|eauto].
    + intros key'. rewrite IH2. split.
      * intros [value' [v [Hin Hm]]]. exists value', v. cbn. auto.
      * intros [value' [v [[Hin|Hin] Hm]]]; [inversion Hin; subst; congruence|eauto].
Qed.

Lemma existsb_beqb_in : forall k l, existsb (beqb k) l = true <-> In k l.
Proof.
  intros k l. rewrite existsb_exists. split.
  - intros [x [Hin He]]. apply beqb_true_iff in He. subst. exact Hin.
  - intros Hin. exists k. split; auto. apply beqb_refl.
Qed.

Lemma has_prefix_inner : forall path prefix key, has_prefix (inner_key path prefix) key = true ->
  exists k, key = inner_key path k /\ has_prefix prefix k = true.
Proof.
  intros path prefix key H. apply has_prefix_iff in H. destruct H as [r Hr]. exists (prefix ++ r).
  rewrite inner_key_app. split; auto. apply has_prefix_app.
Qed.
Lemma has_prefix_inner_iff : forall path prefix k, has_prefix (inner_key path prefix) (inner_key path k) = has_prefix prefix k.
Proof. intros. rewrite !inner_key_as_app. apply has_prefix_app_inv. Qed.

Lemma store_key_bytes : forall (s : store) key value, keys_sorted s -> keys_bytes s -> s_get key s = Some value -> bytes_ok key.
Proof.
  intros s key value Hs Hb H. unfold s_get in H. apply sorted_get_in in H; auto.
  unfold keys_bytes in Hb. rewrite Forall_forall in Hb. apply (Hb _ H).
Qed.

(* inside a write transaction GetByPrefix returns exactly the entries the store would hold if the transaction
   were committed now (its own puts, overwrites and deletes included), restricted to the prefix *)
Lemma read_your_writes_prefix : forall s b h prefix, keys_sorted s -> keys_bytes s -> batch_wf b ->
  bytes_ok (h_path h) -> bytes_ok prefix ->
  forall k v, In (k, v) (get_by_prefix s (Some b) h prefix) <->
              has_prefix prefix k = true /\ s_get (inner_key (h_path h) k) (commit s b) = Some v.
Proof.
  intros s b h prefix Hs Hkb [Hb Hps] Hp Hpre k v. unfold get_by_prefix.
  set (path := h_path h) in *. set (ip := inner_key path prefix). remember (S (length path)) as pl eqn:Epl.
  assert (Hip : bytes_ok ip).
  { unfold ip, inner_key. apply Forall_app. split; auto. constructor; [unfold byte_ok, SEP; lia|auto]. }
  pose proof (gbp_committed_spec (Some b) pl (prefix_entries s ip)) as [G1 G2].
  destruct (gbp_committed (Some b) pl (prefix_entries s ip)) as [es set] eqn:E. cbn [fst snd] in *.
  rewrite in_app_iff, G1, in_flat_map. split.
  - intros [[key [value [Hin [Hm Hk]]]]|[[key d] [Hin H]]].
    + assert (Hsome : exists x, s_get key s = Some x /\ has_prefix ip key = true).
      { unfold prefix_entries, range_entries in Hin. apply filter_In in Hin. destruct Hin as [Hin Hr]. cbn [fst] in Hr.
        assert (Hbk : bytes_ok key) by (unfold keys_bytes in Hkb; rewrite Forall_forall in Hkb; apply (Hkb _ Hin)).
        rewrite bytes_prefix_range in Hr by assumption. exists value. split; auto. apply sorted_get_in; auto. }
      destruct Hsome as [x [Hx Hpk]]. apply prefix_entries_in in Hin; auto; [|eapply store_key_bytes; eauto].
      destruct Hin as [Hget _]. apply has_prefix_inner in Hpk. destruct Hpk as [k0 [Ek Hpk]]. subst key.
      rewrite Epl, skipn_inner_key in Hk. subst k0. split; auto.
      rewrite <- (merged_value_commit s b _ value Hb Hget). exact Hm.
    + cbn [fst snd] in H. destruct (existsb (beqb key) set) eqn:Ex; [destruct H|]. destruct H as [H|[]]. inversion H; subst k v.
      apply net_puts_in in Hin; [|split; auto]. destruct Hin as [Hpk Hv].
      apply has_prefix_inner in Hpk. destruct Hpk as [k0 [Ek Hpk]]. subst key. rewrite Epl, skipn_inner_key.
      split; auto. rewrite commit_get by exact Hb. rewrite Hv. reflexivity.
  - intros [Hpk Hget]. set (ik := inner_key path k) in *.
    assert (Hpik : has_prefix ip ik = true) by (unfold ip, ik; rewrite has_prefix_inner_iff; exact Hpk).
    rewrite commit_get in Hget by exact Hb.
    destruct (s_get ik s) as [value|] eqn:Es.
    + left. exists ik, value. split; [|split].
      * apply prefix_entries_in; auto. eapply store_key_bytes; eauto.
      * rewrite (merged_value_commit s b ik value Hb Es), commit_get by exact Hb. rewrite Es. exact Hget.
      * unfold ik. rewrite Epl, skipn_inner_key. reflexivity.
    + right. destruct (batch_view b ik) as [[d|]|] eqn:Ev; try discriminate. inversion Hget; subst d.
      exists (ik, v). split.
      * apply net_puts_in; [split; auto|]. auto.
      * cbn [fst snd]. destruct (existsb (beqb ik) set) eqn:Ex.
        -- apply existsb_beqb_in in Ex. apply G2 in Ex. destruct Ex as [value [v' [Hin _]]].
           unfold prefix_entries, range_entries in Hin. apply filter_In in Hin. destruct Hin as [Hin _].
           apply sorted_get_in in Hin; auto. unfold s_get in Es. congruence.
        -- left. unfold ik. rewrite Epl, skipn_inner_key. reflexivity.
Qed.

(* outside a write transaction: exactly the committed entries with the prefix *)
Lemma read_only_prefix : forall s h prefix, keys_sorted s -> keys_bytes s -> bytes_ok (h_path h) -> bytes_ok prefix ->
  forall k v, In (k, v) (get_by_prefix s None h prefix) <->
              has_prefix prefix k = true /\ s_get (inner_key (h_path h) k) s = Some v.
Proof.
  intros s h prefix Hs Hkb Hp Hpre k v. unfold get_by_prefix.
  set (path := h_path h) in *. set (ip := inner_key path prefix). remember (S (length path)) as pl eqn:Epl.
  assert (Hip : bytes_ok ip).
  { unfold ip, inner_key. apply Forall_app. split; auto. constructor; [unfold byte_ok, SEP; lia|auto]. }
  pose proof (gbp_committed_spec None pl (prefix_entries s ip)) as [G1 _].
  destruct (gbp_committed None pl (prefix_entries s ip)) as [es set] eqn:E. cbn [fst snd] in *.
  rewrite G1. split.
  - intros [key [value [Hin [Hm Hk]]]]. cbn in Hm. inversion Hm; subst value.
    assert (Hbk : bytes_ok key).
    { unfold prefix_entries, range_entries in Hin. apply filter_In in Hin. destruct Hin as [Hin _].
      unfold keys_bytes in Hkb. rewrite Forall_forall in Hkb. apply (Hkb _ Hin). }
    apply prefix_entries_in in Hin; auto. destruct Hin as [Hget Hpk].
    apply has_prefix_inner in Hpk. destruct Hpk as [k0 [Ek Hpk]]. subst key.
    rewrite Epl, skipn_inner_key in Hk. subst k0. auto.
  - intros [Hpk Hget]. exists (inner_key path k), v. split; [|split].
    + apply prefix_entries_in; auto; [eapply store_key_bytes; eauto|]. split; auto.
      unfold ip. rewrite has_prefix_inner_iff. exact Hpk.
    + reflexivity.
    + rewrite Epl, skipn_inner_key. reflexivity.
Qed.

(* ------------------------------------------------------------------ C11_read_your_writes: bucket listings (partial) *)
Lemma names_committed_spec : forall ob d ents acc l, names_committed ob d ents acc = Ok l ->
  forall name, In name l <-> In name acc \/ exists key value, In (key, value) ents /\ merged_value ob key value = Some name.
Proof.
  intros ob d. induction ents as [|[key value] ents IH]; intros acc l H name; cbn [names_committed] in H.
  - inversion H; subst. split; [auto|]. intros [H'|[? [? [[] _]]]]. exact H'.
  - destruct (merged_value ob key value) as [v|] eqn:Em.
    + destruct (check_name d key v); [|discriminate]. rewrite (IH _ _ H name), in_app_iff. cbn [In]. split.
      * intros [[Ha|[Hv|[]]]|[key' [value' [Hin Hm]]]]; auto.
        -- subst v. right. exists key, value. auto.
        -- right. exists key', value'. auto.
      * intros [Ha|[key' [value' [[Hin|Hin] Hm]]]]; auto.
        -- inversion Hin; subst key' value'. rewrite Em in Hm. inversion Hm. auto.
        -- right. eauto.
    + rewrite (IH _ _ H name). split.
      * intros [Ha|[key' [value' [Hin Hm]]]]; auto. right. exists key', value'. cbn. auto.
      * intros [Ha|[key' [value' [[Hin|Hin] Hm]]]]; auto.
        -- inversion Hin; subst key' value'. congruence.
        -- right. eauto.
Qed.
Lemma names_batch_spec : forall d np acc l, names_batch d np acc = Ok l ->
  forall name, In name l <-> In name acc \/ exists key, In (key, name) np.
Proof.
  intros d. induction np as [|[key value] np IH]; intros acc l H name; cbn [names_batch] in H.
  - inversion H; subst. split; [auto|]. intros [H'|[? []]]. exact H'.
  - destruct (check_name d key value); [|discriminate].
    destruct (existsb (beqb value) acc) eqn:Ex.
    + rewrite (IH _ _ H name). apply existsb_beqb_in in Ex. split.
      * intros [Ha|[key' Hin]]; auto. right. exists key'. cbn. auto.
      * intros [Ha|[key' [Hin|Hin]]]; auto; [inversion Hin; subst; auto|right; eauto].
    + rewrite (IH _ _ H name), in_app_iff. cbn [In]. split.
      * intros [[Ha|[Hv|[]]]|[key' Hin]]; auto; [subst; right; exists key; auto|right; exists key'; auto].
      * intros [Ha|[key' [Hin|Hin]]]; auto; [inversion Hin; subst; auto|right; eauto].
Qed.

(* whenever a listing inside a write transaction succeeds, it is exactly the set of values of the bucket index entries
   under the listing prefix in the store as it would be after commit (created sub-buckets appear, deleted ones vanish) *)
Lemma read_your_writes_names_scan : forall s b pfx d l, keys_sorted s -> keys_bytes s -> batch_wf b -> bytes_ok pfx ->
  names_scan s (Some b) pfx d = Ok l ->
  forall name, In name l <-> exists key, has_prefix pfx key = true /\ s_get key (commit s b) = Some name.
Proof.
  intros s b pfx d l Hs Hkb [Hb Hps] Hp H name. unfold names_scan in H.
  destruct (names_committed (Some b) d (prefix_entries s pfx) []) as [acc|e] eqn:E1; [|discriminate].
  rewrite (names_batch_spec _ _ _ _ H name), (names_committed_spec _ _ _ _ _ E1 name). cbn [In]. split.
  - intros [[[]|[key [value [Hin Hm]]]]|[key Hin]].
    + assert (Hbk : bytes_ok key).
      { unfold prefix_entries, range_entries in Hin. apply filter_In in Hin. destruct Hin as [Hin _].
        unfold keys_bytes in Hkb. rewrite Forall_forall in Hkb. apply (Hkb _ Hin). }
      apply prefix_entries_in in Hin; auto. destruct Hin as [Hget Hpk]. exists key. split; auto.
      rewrite <- (merged_value_commit s b key value Hb Hget). exact Hm.
    + apply net_puts_in in Hin; [|split; auto]. destruct Hin as [Hpk Hv]. exists key. split; auto.
      rewrite commit_get by exact Hb. rewrite Hv. reflexivity.
  - intros [key [Hpk Hget]]. pose proof Hget as Hget'. rewrite commit_get in Hget by exact Hb.
    destruct (s_get key s) as [value|] eqn:Es.
    + left. right. exists key, value. split.
      * apply prefix_entries_in; auto. eapply store_key_bytes; eauto.
      * rewrite (merged_value_commit s b key value Hb Es). exact Hget'.
    + right. destruct (batch_view b key) as [[dd|]|] eqn:Ev; try discriminate. inversion Hget; subst dd.
      exists key. apply net_puts_in; [split; auto|]. auto.
Qed.
Lemma read_only_names_scan : forall s pfx d l, keys_sorted s -> keys_bytes s -> bytes_ok pfx ->
  names_scan s None pfx d = Ok l ->
  forall name, In name l <-> exists key, has_prefix pfx key = true /\ s_get key s = Some name.
Proof.
  intros s pfx d l Hs Hkb Hp H name. unfold names_scan in H.
  destruct (names_committed None d (prefix_entries s pfx) []) as [acc|e] eqn:E1; [|discriminate]. inversion H; subst acc.
  rewrite (names_committed_spec _ _ _ _ _ E1 name). cbn [In merged_value]. split.
  - intros [[]|[key [value [Hin Hm]]]]. inversion Hm; subst value.
    assert (Hbk : bytes_ok key).
    { unfold prefix_entries, range_entries in Hin. apply filter_In in Hin. destruct Hin as [Hin _].
      unfold keys_bytes in Hkb. rewrite Forall_forall in Hkb. apply (Hkb _ Hin). }
    apply prefix_entries_in in Hin; auto. destruct Hin. eauto.
  - intros [key [Hpk Hget]]. right. exists key, name. split; auto.
    apply prefix_entries_in; auto. eapply store_key_bytes; eauto.
Qed.

(* ------------------------------------------------------------------ invariants along every op sequence *)
Definition obwf (ob : option batch) : Prop := match ob with Some b => batch_wf b | None => True end.

Lemma delete_committed_wf : forall ents b, batch_wf b -> batch_wf (delete_committed b ents).
Proof.
  induction ents as [|[key v] ents IH]; intros b Hb; cbn [delete_committed]; auto.
  destruct (snd (batch_get b key)); apply IH; auto using batch_wf_delete.
Qed.
Lemma delete_keys_wf : forall keys b, batch_wf b -> batch_wf (delete_keys b keys).
Proof.
  unfold delete_keys. induction keys as [|k keys IH]; intros b Hb; cbn [fold_left]; auto using batch_wf_delete.
Qed.
Lemma clear_kv_wf : forall s b path, batch_wf b -> batch_wf (clear_kv s b path).
Proof. intros. unfold clear_kv. apply delete_keys_wf. apply delete_committed_wf. assumption. Qed.
Lemma create_index_wf : forall s b key name h, batch_wf b -> batch_wf (snd (create_index s b key name h)).
Proof.
  intros s b key name h Hb. unfold create_index. destruct (s_get key s); [destruct (snd (batch_get b key))|]; cbn [snd];
    auto using batch_wf_put.
Qed.
Lemma create_top_level_wf : forall s b name, batch_wf b -> batch_wf (snd (create_top_level s b name)).
Proof.
  intros s b name Hb. unfold create_top_level. destruct (negb (is_valid_bucket_name name)); cbn [snd]; auto using create_index_wf.
Qed.
Lemma new_bucket_wf : forall s ob h name, obwf ob -> obwf (snd (new_bucket s ob h name)).
Proof.
  intros s ob h name Hb. unfold new_bucket. destruct ob as [b|]; cbn [snd]; auto.
  destruct (sub_bucket h name) as [sub|e]; cbn [snd]; auto.
  pose proof (create_index_wf s b (index_key (h_path sub)) name sub Hb) as H.
  destruct (create_index s b (index_key (h_path sub)) name sub) as [r b']. cbn [snd] in *. exact H.
Qed.
Lemma fold_left_snd_inv {A B C} : forall (P : B -> Prop) (step : A * B -> C -> A * B) l init,
  (forall acc x, P (snd acc) -> P (snd (step acc x))) -> P (snd init) -> P (snd (fold_left step l init)).
Proof. intros P step l. induction l as [|x l IH]; intros init Hstep Hinit; cbn; auto. Qed.
Lemma delete_rec_wf : forall fuel s b h, batch_wf b -> batch_wf (snd (delete_rec fuel s b h)).
Proof.
  induction fuel as [|fuel IH]; intros s b h Hb; cbn [delete_rec]; [exact Hb|].
  destruct (h_depth h =? 1)%nat; [exact Hb|].
  destruct (bucket_names s (Some b) h) as [subnames|e]; [|exact Hb].
  match goal with |- context [fold_left ?st subnames (Ok tt, b)] =>
    assert (Hf : batch_wf (snd (fold_left st subnames (Ok tt, b)))) end.
  { apply (fold_left_snd_inv batch_wf); [|exact Hb].
    intros [[u|e] b'] subname Hb'; cbn [snd] in *; auto.
    destruct (bucket s (Some b') h subname); cbn [snd]; auto. }
  match goal with |- context [fold_left ?st subnames (Ok tt, b)] => destruct (fold_left st subnames (Ok tt, b)) as [[u|e] b'] end;
    cbn [snd] in *; auto using batch_wf_delete, clear_kv_wf.
Qed.
Lemma delete_bucket_wf : forall s ob h name, obwf ob -> obwf (snd (delete_bucket s ob h name)).
Proof.
  intros s ob h name Hb. unfold delete_bucket. destruct ob as [b|]; cbn [snd]; auto.
  destruct (bucket s (Some b) h name) as [sub|]; cbn [snd]; auto.
  pose proof (delete_rec_wf delete_fuel s b sub Hb) as H. destruct (delete_rec delete_fuel s b sub) as [r b']. exact H.
Qed.
Lemma bucket_put_wf : forall ob h k v, obwf ob -> obwf (snd (bucket_put ob h k v)).
Proof.
  intros ob h k v Hb. unfold bucket_put. destruct ob as [b|]; cbn [snd]; auto.
  destruct v; cbn [snd]; auto. destruct k; cbn [snd obwf]; auto using batch_wf_put.
Qed.
Lemma bucket_delete_wf : forall ob h k, obwf ob -> obwf (snd (bucket_delete ob h k)).
Proof.
  intros ob h k Hb. unfold bucket_delete. destruct ob as [b|]; cbn [snd]; auto.
  destruct k; cbn [snd obwf]; auto using batch_wf_delete.
Qed.
Lemma clear_wf : forall s ob h, obwf ob -> obwf (snd (clear s ob h)).
Proof. intros s ob h Hb. unfold clear. destruct ob as [b|]; cbn [snd obwf]; auto using clear_kv_wf. Qed.

(* the invariant every reachable state satisfies: the store (and the store a read transaction captured when it
   began) is key-sorted, the open batch's summary agrees with its log *)
Definition osorted (os : option store) : Prop := match os with Some s0 => keys_sorted s0 | None => True end.
Definition inv (st : state) : Prop := keys_sorted (st_store st) /\ obwf (st_wtx st) /\ osorted (st_rtx st).
Lemma inv_init : inv init_state.
Proof. split; [constructor|split; exact I]. Qed.
Lemma tx_view_wf : forall snap st w vs ob, inv st -> tx_view snap st w = Some (vs, ob) -> obwf ob /\ keys_sorted vs.
Proof.
  intros snap st w vs ob [Hs [Hb Hr]] E. unfold tx_view in E. destruct w.
  - destruct (st_wtx st); inversion E; subst. auto.
  - destruct (st_rtx st) as [s0|]; inversion E; subst. split; [exact I|]. destruct snap; auto.
Qed.
Lemma slot_view_wf : forall snap st src w h vs ob, inv st -> slot_view snap st src = Some (w, h, vs, ob) ->
  obwf ob /\ keys_sorted vs.
Proof.
  intros snap st src w h vs ob Hinv E. unfold slot_view in E.
  destruct (get_slot src (st_bs st)) as [[w' h']|]; [|discriminate].
  destruct (tx_view snap st w') as [[vs' ob']|] eqn:Ev; [|discriminate]. inversion E; subst.
  eapply tx_view_wf; eauto.
Qed.
Ltac inv3 := split; [|split]; cbn; auto.
Lemma inv_store_batch : forall st w ob, inv st -> obwf ob -> inv (store_batch st w ob).
Proof. intros st w ob [H1 [H2 H3]] Hb. unfold store_batch. destruct w; inv3. Qed.

Lemma step_inv : forall snap st o, inv st -> inv (fst (step_gen snap st o)).
Proof.
  intros snap st o Hinv. pose proof Hinv as [Hs [Hb Hr]].
  destruct o; cbn [step_gen].
  - destruct w.
    + destruct (st_wtx st); [exact Hinv|]. destruct (st_open st); [|exact Hinv]. inv3. apply batch_wf_empty.
    + destruct (st_rtx st); [exact Hinv|]. destruct (st_open st); [|exact Hinv]. inv3.
  - destruct (st_wtx st) as [b|] eqn:E; [|exact Hinv]. destruct (st_upd st); [exact Hinv|].
    inv3. apply apply_log_sorted. exact Hs.
  - destruct (st_wtx st) as [b|] eqn:E; [|exact Hinv]. destruct (st_upd st); [exact Hinv|]. inv3.
  - destruct (st_rtx st); [|exact Hinv]. inv3.
  - destruct (st_wtx st) as [b|] eqn:E; [exact Hinv|]. destruct (st_open st); [|exact Hinv].
    inv3. apply batch_wf_empty.
  - destruct (st_wtx st) as [b|] eqn:E; [|exact Hinv]. destruct (st_upd st); [|exact Hinv].
    destruct fail; inv3. apply apply_log_sorted. exact Hs.
  - destruct (st_wtx st) eqn:Ew; [exact Hinv|]. destruct (st_rtx st) eqn:Er; [exact Hinv|]. destruct (st_open st); [|exact Hinv].
    inv3; rewrite ?Ew, ?Er; exact I.
  - destruct (st_wtx st) eqn:Ew; [exact Hinv|]. destruct (st_rtx st) eqn:Er; [exact Hinv|]. inv3; rewrite ?Ew, ?Er; exact I.
  - destruct (st_open st); exact Hinv.
  - destruct (tx_view snap st w) as [[vs ob]|]; [|exact Hinv]. unfold put_handle.
    destruct (top_level_bucket vs ob name); inv3.
  - destruct (st_wtx st) as [b|] eqn:E; [|exact Hinv]. cbn in Hb.
    pose proof (create_top_level_wf (st_store st) b name Hb) as H.
    destruct (create_top_level (st_store st) b name) as [[h|e] b']; cbn [snd] in H; inv3.
  - destruct (st_wtx st); exact Hinv.
  - destruct (tx_view snap st w) as [[vs ob]|]; [|exact Hinv]. destruct (tx_bucket_names vs ob); exact Hinv.
  - destruct (tx_view snap st w) as [[vs ob]|]; [|exact Hinv]. destruct (get_slot src (st_bs st)) as [[w' h]|]; [|exact Hinv].
    unfold put_handle. destruct (fetch_bucket vs ob h); inv3.
  - destruct (slot_view snap st src) as [[[[w h] vs] ob]|] eqn:Ev; [|exact Hinv].
    destruct (slot_view_wf _ _ _ _ _ _ _ Hinv Ev) as [Hob _].
    pose proof (new_bucket_wf vs ob h name Hob) as H.
    destruct (new_bucket vs ob h name) as [[sub|e] ob']; cbn [snd] in H.
    + pose proof (inv_store_batch st w ob' Hinv H) as [H1 [H2 H3]]. inv3.
    + apply inv_store_batch; auto.
  - destruct (slot_view snap st src) as [[[[w h] vs] ob]|]; [|exact Hinv]. unfold put_handle.
    destruct (bucket vs ob h name); inv3.
  - destruct (slot_view snap st src) as [[[[w h] vs] ob]|] eqn:Ev; [|exact Hinv].
    destruct (slot_view_wf _ _ _ _ _ _ _ Hinv Ev) as [Hob _].
    pose proof (delete_bucket_wf vs ob h name Hob) as H.
    destruct (delete_bucket vs ob h name) as [r ob']; cbn [snd fst] in *. apply inv_store_batch; auto.
  - destruct (slot_view snap st src) as [[[[w h] vs] ob]|]; [|exact Hinv]. destruct (bucket_names vs ob h); exact Hinv.
  - destruct (slot_view snap st src) as [[[[w h] vs] ob]|] eqn:Ev; [|exact Hinv].
    destruct (slot_view_wf _ _ _ _ _ _ _ Hinv Ev) as [Hob _].
    pose proof (bucket_put_wf ob h k v Hob) as H.
    destruct (bucket_put ob h k v) as [r ob']; cbn [snd fst] in *. apply inv_store_batch; auto.
  - destruct (slot_view snap st src) as [[[[w h] vs] ob]|] eqn:Ev; [|exact Hinv].
    destruct (slot_view_wf _ _ _ _ _ _ _ Hinv Ev) as [Hob _].
    pose proof (bucket_delete_wf ob h k Hob) as H.
    destruct (bucket_delete ob h k) as [r ob']; cbn [snd fst] in *. apply inv_store_batch; auto.
  - destruct (slot_view snap st src) as [[[[w h] vs] ob]|]; [|exact Hinv]. destruct (bucket_get vs ob h k); exact Hinv.
  - destruct (slot_view snap st src) as [[[[w h] vs] ob]|] eqn:Ev; [|exact Hinv].
    destruct (slot_view_wf _ _ _ _ _ _ _ Hinv Ev) as [Hob _].
    pose proof (clear_wf vs ob h Hob) as H.
    destruct (clear vs ob h) as [r ob']; cbn [snd fst] in *. apply inv_store_batch; auto.
  - destruct (slot_view snap st src) as [[[[w h] vs] ob]|]; exact Hinv.
  - destruct (slot_view snap st src) as [[[[w h] vs] ob]|]; [|exact Hinv].
    destruct (match mode with O => _ | S _ => _ end) as [a l]. inv3.
  - destruct (get_slot i (st_is st)) as [[w it]|]; [|exact Hinv]. destruct (iter_seek it k). inv3.
  - destruct (get_slot i (st_is st)) as [[w it]|]; [|exact Hinv]. destruct (iter_next it). inv3.
  - destruct (get_slot i (st_is st)) as [[w it]|]; [|exact Hinv]. inv3.
  - destruct (bytes_prefix p). exact Hinv.
Qed.

(* running an op sequence; [run] starts from the empty database with the code as it is now *)
Definition exec (snap : bool) (st : state) (ops : list op) : state := fold_left (fun st o => fst (step_gen snap st o)) ops st.
Definition run (ops : list op) : state := exec true init_state ops.
Lemma exec_inv : forall snap ops st, inv st -> inv (exec snap st ops).
Proof. intros snap. induction ops as [|o ops IH]; intros st Hst; cbn; [exact Hst|]. apply IH. apply step_inv. exact Hst. Qed.
Lemma run_inv : forall ops, inv (run ops).
Proof. intros ops. apply exec_inv. apply inv_init. Qed.

Lemma store_batch_store : forall st w ob, st_store (store_batch st w ob) = st_store st.
Proof. intros st w ob. unfold store_batch. destruct w; reflexivity. Qed.
Lemma store_batch_rtx : forall st w ob, st_rtx (store_batch st w ob) = st_rtx st.
Proof. intros st w ob. unfold store_batch. destruct w; reflexivity. Qed.

(* the committed store changes at Commit (or a successful db.Update) only, and then by the whole log at once *)
Lemma store_changes_only_at_commit : forall snap st o,
  st_store (fst (step_gen snap st o)) = st_store st \/
  exists b, st_wtx st = Some b /\ (o = OCommit \/ o = OUEnd false) /\
            st_store (fst (step_gen snap st o)) = apply_log (st_store st) (b_log b).
Proof.
  intros snap st o. destruct o; cbn [step_gen];
  repeat match goal with
         | |- context [match ?x with _ => _ end] => destruct x eqn:?
         end; cbn; auto; try (left; apply store_batch_store);
  try (unfold put_handle;
       repeat match goal with |- context [match ?x with _ => _ end] => destruct x eqn:? end; cbn; auto; fail).
  - right. eexists. split; [reflexivity|]. split; [left; reflexivity|reflexivity].
  - right. eexists. split; [reflexivity|]. split; [right; reflexivity|reflexivity].
Qed.

(* ------------------------------------------------------------------ a read transaction reads one snapshot *)
(* the store a read transaction captured stays with it until it is ended, whatever else happens *)
Lemma rtx_preserved : forall snap st o s0, st_rtx st = Some s0 -> o <> OREnd ->
  st_rtx (fst (step_gen snap st o)) = Some s0.
Proof.
  intros snap st o s0 Hr Hne. destruct o; try congruence; cbn [step_gen]; rewrite ?Hr;
  repeat match goal with
         | |- context [match ?x with _ => _ end] => destruct x eqn:?
         end; cbn; auto; try (rewrite store_batch_rtx; exact Hr);
  try (unfold put_handle;
       repeat match goal with |- context [match ?x with _ => _ end] => destruct x eqn:? end; cbn; auto; fail).
Qed.
Lemma exec_rtx_preserved : forall snap ops st s0, st_rtx st = Some s0 -> Forall (fun o => o <> OREnd) ops ->
  st_rtx (exec snap st ops) = Some s0.
Proof.
  intros snap. induction ops as [|o ops IH]; intros st s0 Hr Hf; cbn; auto.
  inversion Hf; subst. apply IH; auto. apply rtx_preserved; auto.
Qed.
(* BeginReadTx captures the store committed at that moment *)
Lemma begin_read_captures : forall snap st, st_rtx st = None -> st_open st = true ->
  st_rtx (fst (step_gen snap st (OBegin false))) = Some (st_store st) /\ snd (step_gen snap st (OBegin false)) = ROk.
Proof. intros snap st Hr Ho. cbn [step_gen]. rewrite Hr, Ho. split; reflexivity. Qed.

(* With the repaired code every read of a read transaction is the model read function applied to the captured store:
   over ANY interleaving [ops] (commits, Updates, more reads ...) that does not end the read transaction *)
Lemma read_tx_reads_snapshot : forall st s0 ops, st_rtx st = Some s0 -> Forall (fun o => o <> OREnd) ops ->
  let st' := exec true st ops in
  (forall dst name, snd (step st' (OTop false dst name)) =
                    match top_level_bucket s0 None name with Some _ => ROk | None => RNil end) /\
  snd (step st' (OTxNames false)) = match tx_bucket_names s0 None with Ok l => RNames l | Err e => RErr e end /\
  forall src h, get_slot src (st_bs st') = Some (false, h) ->
    (forall k, snd (step st' (OGet src k)) = match bucket_get s0 None h k with Some v => RVal v | None => RNil end) /\
    (forall p, snd (step st' (OPfx src p)) = REntries (get_by_prefix s0 None h p)) /\
    snd (step st' (ONames src)) = match bucket_names s0 None h with Ok l => RNames l | Err e => RErr e end /\
    (forall dst name, snd (step st' (OBucket dst src name)) = match bucket s0 None h name with Some _ => ROk | None => RNil end) /\
    (forall dst a l, st_is (fst (step st' (OIter dst src 1 a l))) =
                     set_nth dst (Some (false, new_iterator s0 None h a l)) (st_is st')).
Proof.
  intros st s0 ops Hr Hf st'. pose proof (exec_rtx_preserved true ops st s0 Hr Hf) as Hr'. fold st' in Hr'.
  assert (Hv : tx_view true st' false = Some (s0, None)) by (unfold tx_view; rewrite Hr'; reflexivity).
  split; [|split].
  - intros dst name. unfold step. cbn [step_gen]. rewrite Hv. unfold put_handle. destruct (top_level_bucket s0 None name); reflexivity.
  - unfold step. cbn [step_gen]. rewrite Hv. destruct (tx_bucket_names s0 None); reflexivity.
  - intros src h Hslot.
    assert (Hsv : slot_view true st' src = Some (false, h, s0, None)) by (unfold slot_view; rewrite Hslot, Hv; reflexivity).
    unfold step. repeat split; intros; cbn [step_gen]; rewrite Hsv.
    + destruct (bucket_get s0 None h k); reflexivity.
    + reflexivity.
    + destruct (bucket_names s0 None h); reflexivity.
    + unfold put_handle. destruct (bucket s0 None h name); reflexivity.
    + reflexivity.
Qed.

(* ... hence it sees exactly the content committed when it began, whatever is committed later *)
Lemma read_tx_sees_begin_store : forall st s0 ops, inv st -> st_rtx st = Some s0 -> Forall (fun o => o <> OREnd) ops ->
  let st' := exec true st ops in
  forall src h, get_slot src (st_bs st') = Some (false, h) ->
    (forall k, k <> [] -> snd (step st' (OGet src k)) =
                          match s_get (inner_key (h_path h) k) s0 with Some v => RVal v | None => RNil end) /\
    (keys_bytes s0 -> bytes_ok (h_path h) -> forall p, bytes_ok p ->
       exists l, snd (step st' (OPfx src p)) = REntries l /\
                 forall k v, In (k, v) l <-> has_prefix p k = true /\ s_get (inner_key (h_path h) k) s0 = Some v).
Proof.
  intros st s0 ops Hinv Hr Hf st' src h Hslot.
  destruct (read_tx_reads_snapshot st s0 ops Hr Hf) as [_ [_ H]]. fold st' in H.
  destruct (H src h Hslot) as [Hg [Hp _]]. split.
  - intros k Hk. rewrite Hg, read_only_get by exact Hk. reflexivity.
  - intros Hkb Hpath p Hpb. exists (get_by_prefix s0 None h p). split; [apply Hp|].
    apply read_only_prefix; auto. destruct Hinv as [_ [_ Hs0]]. rewrite Hr in Hs0. exact Hs0.
Qed.

(* the code as first found (snap = false): two executions of the same read inside one read transaction, with no
   end of that transaction in between, answer differently — a commit in between is seen *)
Definition refute_pre : list op := [OBegin true; OCreateTop 0 [97]; OCommit; OBegin false; OTop false 1 [97]].
Definition refute_mid : list op := [OBegin true; OTop true 0 [97]; OPut 0 [107] [118]; OCommit].
Lemma unrepaired_read_tx_refuted :
  exists pre mid o,
    st_rtx (exec false init_state pre) <> None /\ Forall (fun o => o <> OREnd) mid /\
    snd (step_unrepaired (exec false init_state pre) o) <> snd (step_unrepaired (exec false init_state (pre ++ mid)) o) /\
    snd (step (exec true init_state pre) o) = snd (step (exec true init_state (pre ++ mid)) o).
Proof.
  exists refute_pre, refute_mid, (OGet 1 [107]). split; [vm_compute; discriminate|]. split.
  - repeat constructor; discriminate.
  - split; vm_compute; [discriminate|reflexivity].
Qed.

(* ------------------------------------------------------------------ prefix reads return every key once *)
Lemma nodup_app {A} : forall (a b : list A), NoDup a -> NoDup b -> (forall x, In x a -> ~ In x b) -> NoDup (a ++ b).
Proof.
  induction a as [|x a IH]; intros b Ha Hb Hd; cbn; auto.
  inversion Ha; subst. constructor.
  - rewrite in_app_iff. intros [H|H]; [auto|]. apply (Hd x); cbn; auto.
  - apply IH; auto. intros y Hy. apply Hd. cbn. auto.
Qed.
Lemma nodup_map_inj_on {A B} : forall (f : A -> B) (l : list A),
  (forall x y, In x l -> In y l -> f x = f y -> x = y) -> NoDup l -> NoDup (map f l).
Proof.
  intros f l. induction l as [|x l IH]; intros Hinj Hn; cbn; [constructor|].
  inversion Hn; subst. constructor.
  - intros Hin. apply in_map_iff in Hin. destruct Hin as [y [Hy Hin]].
    assert (y = x) by (apply Hinj; cbn; auto). subst. auto.
  - apply IH; auto. intros a b Ha Hb. apply Hinj; cbn; auto.
Qed.
Lemma gbp_fst_snd : forall ob pl ents,
  map fst (fst (gbp_committed ob pl ents)) = map (skipn pl) (snd (gbp_committed ob pl ents)).
Proof.
  intros ob pl. induction ents as [|[key value] ents IH]; cbn [gbp_committed]; [reflexivity|].
  destruct (gbp_committed ob pl ents) as [es set]. cbn [fst snd] in *.
  destruct (merged_value ob key value); cbn [fst snd]; [rewrite !map_cons; cbn [fst]; f_equal; exact IH|exact IH].
Qed.
Lemma gbp_set_nodup : forall ob pl ents, NoDup (map fst ents) ->
  NoDup (snd (gbp_committed ob pl ents)) /\ (forall k, In k (snd (gbp_committed ob pl ents)) -> In k (map fst ents)).
Proof.
  intros ob pl. induction ents as [|[key value] ents IH]; cbn [gbp_committed map fst]; intros Hn.
  - split; [constructor|auto].
  - inversion Hn as [|? ? Hnot Hn']; subst. destruct (IH Hn') as [H1 H2].
    destruct (gbp_committed ob pl ents) as [es set]. cbn [fst snd] in *.
    destruct (merged_value ob key value); cbn [fst snd].
    + split; [constructor; auto|]. intros k [Hk|Hk]; cbn; auto.
    + split; auto. intros k Hk. cbn. auto.
Qed.
Lemma net_puts_keys_nodup : forall b ip, keys_sorted (b_puts b) -> NoDup (map fst (net_puts_by_prefix b ip)).
Proof.
  intros b ip Hs. unfold net_puts_by_prefix. apply sorted_nodup_keys in Hs.
  assert (G : forall l : amap (bytes * Z), NoDup (map fst l) ->
     NoDup (map fst (flat_map (fun e : bytes * (bytes * Z) => let '(k, (d, sp)) := e in
        if has_prefix ip k then match m_get k (b_dels b) with None => [(k, d)] | Some sd => if sd <? sp then [(k, d)] else [] end else []) l))
     /\ forall k, In k (map fst (flat_map (fun e : bytes * (bytes * Z) => let '(k, (d, sp)) := e in
        if has_prefix ip k then match m_get k (b_dels b) with None => [(k, d)] | Some sd => if sd <? sp then [(k, d)] else [] end else []) l)) -> In k (map fst l)).
  { induction l as [|[k [d sp]] l IH]; cbn [flat_map map fst]; intros Hn; [split; [constructor|auto]|].
    inversion Hn as [|? ? Hnot Hn']; subst. destruct (IH Hn') as [H1 H2].
    set (g := if has_prefix ip k then match m_get k (b_dels b) with None => [(k, d)] | Some sd => if sd <? sp then [(k, d)] else [] end else []).
    assert (Hg : g = [] \/ g = [(k, d)]).
    { unfold g. destruct (has_prefix ip k); auto. destruct (m_get k (b_dels b)) as [sd|]; auto. destruct (sd <? sp); auto. }
    destruct Hg as [Hg|Hg]; rewrite Hg; cbn [app map fst].
    - split; [exact H1|]. intros k0 Hk. right. apply H2. exact Hk.
    - split; [constructor; [intros Hin; apply Hnot; apply H2; exact Hin|exact H1]|].
      intros k0 [Hk|Hk]; [left; exact Hk|right; apply H2; exact Hk]. }
  apply G. exact Hs.
Qed.

Lemma get_by_prefix_nodup : forall s b h prefix, keys_sorted s -> keys_bytes s -> batch_wf b ->
  bytes_ok (h_path h) -> bytes_ok prefix ->
  NoDup (map fst (get_by_prefix s (Some b) h prefix)).
Proof.
  intros s b h prefix Hs Hkb [Hb Hps] Hp Hpre. unfold get_by_prefix.
  set (path := h_path h) in *. set (ip := inner_key path prefix). remember (S (length path)) as pl eqn:Epl.
  assert (Hip : bytes_ok ip).
  { unfold ip, inner_key. apply Forall_app. split; auto. constructor; [unfold byte_ok, SEP; lia|auto]. }
  set (ents := prefix_entries s ip).
  assert (Hents : NoDup (map fst ents)).
  { apply sorted_nodup_keys. unfold ents, prefix_entries. apply range_entries_sorted. exact Hs. }
  pose proof (gbp_fst_snd (Some b) pl ents) as F. pose proof (gbp_set_nodup (Some b) pl ents Hents) as [N1 N2].
  destruct (gbp_committed (Some b) pl ents) as [es set] eqn:E. cbn [fst snd] in *.
  set (np := net_puts_by_prefix b ip).
  set (L2 := filter (fun k => negb (existsb (beqb k) set)) (map fst np)).
  assert (Hbs : map fst (flat_map (fun e : bytes * bytes => if existsb (beqb (fst e)) set then [] else [(skipn pl (fst e), snd e)]) np)
                = map (skipn pl) L2).
  { unfold L2. clear. induction np as [|[k d] np IH]; cbn [flat_map map filter fst snd]; [reflexivity|].
    destruct (existsb (beqb k) set); cbn [negb app map fst]; congruence. }
  match goal with |- NoDup ?l => replace l with (map (skipn pl) (set ++ L2)) end;
    [|rewrite !map_app; f_equal; [symmetry; exact F|symmetry; exact Hbs]].
  apply nodup_map_inj_on.
  - (* stripping the bucket prefix is injective on keys that carry it *)
    assert (Hpre_all : forall x, In x (set ++ L2) -> exists k, x = inner_key path k).
    { intros x Hx. apply in_app_iff in Hx. destruct Hx as [Hx|Hx].
      - apply N2 in Hx. apply in_map_iff in Hx. destruct Hx as [[key value] [Ek Hin]]. cbn in Ek. subst key.
        unfold ents, prefix_entries, range_entries in Hin. apply filter_In in Hin. destruct Hin as [Hin Hr]. cbn [fst] in Hr.
        assert (Hbk : bytes_ok x) by (unfold keys_bytes in Hkb; rewrite Forall_forall in Hkb; apply (Hkb _ Hin)).
        rewrite bytes_prefix_range in Hr by assumption. apply has_prefix_inner in Hr. destruct Hr as [k [Ek _]]. eauto.
      - unfold L2 in Hx. apply filter_In in Hx. destruct Hx as [Hx _]. apply in_map_iff in Hx.
        destruct Hx as [[key d] [Ek Hin]]. cbn in Ek. subst key. apply net_puts_in in Hin; [|split; auto].
        destruct Hin as [Hr _]. apply has_prefix_inner in Hr. destruct Hr as [k [Ek _]]. eauto. }
    intros x y Hx Hy Hxy. destruct (Hpre_all x Hx) as [kx Ex]. destruct (Hpre_all y Hy) as [ky Ey]. subst x y.
    rewrite Epl, !skipn_inner_key in Hxy. congruence.
  - apply nodup_app; auto.
    + unfold L2. apply NoDup_filter. apply net_puts_keys_nodup. exact Hps.
    + intros x Hx Hx2. unfold L2 in Hx2. apply filter_In in Hx2. destruct Hx2 as [_ Hneg].
      apply negb_true_iff in Hneg. apply existsb_beqb_in in Hx. congruence.
Qed.
