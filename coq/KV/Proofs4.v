(* KV — no orphans (property C11): when bucket handles are not used for writing after their bucket has been deleted,
   every stored bucket's parent exists and every stored entry's bucket exists, in every reachable state.  This
   discharges the "nothing is stored under the new bucket's name" side condition of the create clauses of the
   nested-map refinement (Proofs3.v).  Without the discipline the property fails: Proofs2.parent_exists_refuted. *)
From Coq Require Import List ZArith Bool Lia Sorted Permutation.
Import ListNotations.
Open Scope Z_scope.
Require Import MW.KV.Model MW.KV.Proofs MW.KV.Proofs2 MW.KV.Proofs3.

(* ------------------------------------------------------------------ [closed] under the single operations *)
Lemma bkf_upd_data : forall f f' B key x ms, upd1 f (inner_key (path_of B) key) x f' -> (bkf f' ms <-> bkf f ms).
Proof. intros f f' B key x ms Hupd. unfold bkf. rewrite Hupd, beqb_idx_data. tauto. Qed.

(* Put (the bucket exists) / Delete of a data key *)
Lemma closed_set_data : forall f f' ns key x, closed f -> valid_names ns -> (x <> None -> bkf f ns) ->
  upd1 f (inner_key (path_of ns) key) x f' -> closed f'.
Proof.
  intros f f' ns key x [H1 H2] Hns Hx Hupd. split.
  - intros ms m Hv Hne Hb. apply (bkf_upd_data f f' ns key x) in Hb; auto. apply (bkf_upd_data f f' ns key x); auto. eapply H1; eauto.
  - intros ms uk Hv Hne Hk. apply (bkf_upd_data f f' ns key x); auto. unfold kvf in Hk. rewrite Hupd in Hk.
    destruct (beqb (inner_key (path_of ms) uk) (inner_key (path_of ns) key)) eqn:E.
    + apply beqb_true_iff in E. apply path_key_inj in E; auto. destruct E as [E _]. subst ms. apply Hx. exact Hk.
    + eapply H2; eauto.
Qed.

Lemma has_prefix_idx_false : forall ns p, has_prefix (path_of ns ++ [SEP]) (index_key p) = false.
Proof.
  intros ns p. destruct (has_prefix (path_of ns ++ [SEP]) (index_key p)) eqn:E; [|reflexivity]. exfalso.
  apply has_prefix_iff in E. destruct E as [r E]. rewrite <- inner_key_as_app in E. revert E. apply idx_data_disjoint.
Qed.
(* Clear *)
Lemma closed_clear : forall f f' ns, closed f ->
  (forall k, f' k = if has_prefix (path_of ns ++ [SEP]) k then None else f k) -> closed f'.
Proof.
  intros f f' ns [H1 H2] Hupd.
  assert (Hbk : forall ms, bkf f' ms <-> bkf f ms).
  { intros ms. unfold bkf. rewrite Hupd, has_prefix_idx_false. tauto. }
  split.
  - intros ms m Hv Hne Hb. apply Hbk. apply Hbk in Hb. eapply H1; eauto.
  - intros ms uk Hv Hne Hk. apply Hbk. unfold kvf in Hk. rewrite Hupd in Hk.
    destruct (has_prefix (path_of ns ++ [SEP]) (inner_key (path_of ms) uk)); [congruence|]. eapply H2; eauto.
Qed.
(* CreateTopLevelBucket / NewBucket under an existing bucket *)
Lemma closed_create : forall f f' ns n v, closed f -> valid_names ns -> is_valid_bucket_name n = true ->
  (ns = [] \/ bkf f ns) -> upd1 f (index_key (path_of (ns ++ [n]))) (Some v) f' -> closed f'.
Proof.
  intros f f' ns n v [H1 H2] Hns Hn Hlive Hupd.
  assert (Hvn : valid_names (ns ++ [n])) by (apply Forall_app; split; auto).
  assert (Hmono : forall ms, bkf f ms -> bkf f' ms).
  { intros ms Hb. unfold bkf in *. rewrite Hupd. destruct (beqb _ _); [discriminate|exact Hb]. }
  assert (Hinv : forall ms, valid_names ms -> bkf f' ms -> bkf f ms \/ ms = ns ++ [n]).
  { intros ms Hv Hb. unfold bkf in *. rewrite Hupd in Hb.
    destruct (beqb (index_key (path_of ms)) (index_key (path_of (ns ++ [n])))) eqn:E; [|left; exact Hb].
    right. apply beqb_true_iff in E. apply idx_key_inj in E; auto. }
  split.
  - intros ms m Hv Hne Hb. destruct (Hinv _ Hv Hb) as [Hb'|E].
    + apply Hmono. eapply H1; eauto.
    + apply app_inj_tail in E. destruct E as [E _]. subst ms.
      destruct Hlive as [E|Hb']; [congruence|]. apply Hmono. exact Hb'.
  - intros ms uk Hv Hne Hk. apply Hmono. unfold kvf in Hk. rewrite Hupd, beqb_data_idx in Hk. eapply H2; eauto.
Qed.

(* removing the index entry of a bucket that has no children and no data *)
Lemma closed_remove_idx : forall f f' ns, closed f -> valid_names ns -> upd1 f (index_key (path_of ns)) None f' ->
  (forall m, is_valid_bucket_name m = true -> ~ bkf f (ns ++ [m])) -> (forall uk, kvf f ns uk = None) -> closed f'.
Proof.
  intros f f' ns [H1 H2] Hns Hupd Hnokids Hnodata.
  assert (Hsub : forall ms, bkf f' ms -> bkf f ms).
  { intros ms Hb. unfold bkf in *. rewrite Hupd in Hb. destruct (beqb _ _); [congruence|exact Hb]. }
  assert (Hkeep : forall ms, valid_names ms -> ms <> ns -> bkf f ms -> bkf f' ms).
  { intros ms Hv Hne Hb. unfold bkf in *. rewrite Hupd.
    destruct (beqb (index_key (path_of ms)) (index_key (path_of ns))) eqn:E; [|exact Hb].
    apply beqb_true_iff in E. apply idx_key_inj in E; auto; congruence. }
  split.
  - intros ms m Hv Hne Hb. apply Hsub in Hb. pose proof Hv as Hv'. apply Forall_app in Hv'. destruct Hv' as [Hvms Hvm].
    apply Hkeep; auto.
    + intros E. subst ms. inversion Hvm; subst. eapply Hnokids; eauto.
    + eapply H1; eauto.
  - intros ms uk Hv Hne Hk. unfold kvf in Hk. rewrite Hupd, beqb_data_idx in Hk. apply Hkeep; auto.
    + intros E. subst ms. apply Hk. apply Hnodata.
    + eapply H2; eauto.
Qed.

Section DeleteClosed.
  Variable s : store.
  Hypothesis Hsorted : keys_sorted s.
  Hypothesis Hs : store_ok s.

  Lemma lookup_none_gone : forall b h ns c, binv b -> hnd h ns -> bucket s (Some b) h c = None ->
    is_valid_bucket_name c = true -> vw s b (index_key (path_of (ns ++ [c]))) = None.
  Proof.
    intros b h ns c Hb [Hns [Hp Hd]] Eb Hc. destruct (vw s b (index_key (path_of (ns ++ [c])))) eqn:E; [|reflexivity]. exfalso.
    assert (Hx : bucket s (Some b) h c <> None).
    { apply (listed_child_opens s (Some b) h ns c (proj1 Hb) Hns Hp Hd). split; [exact Hc|]. unfold vw in E. cbn [view_store]. congruence. }
    congruence.
  Qed.

  Lemma fold_del_closed : forall fuel h ns, hnd h ns ->
    (forall b sub ns', binv b -> hnd sub ns' -> closed (vw s b) -> closed (vw s (snd (delete_rec fuel s b sub)))) ->
    forall l b, binv b -> closed (vw s b) ->
      closed (vw s (snd (fold_left (del_step fuel s h) l (Ok tt, b)))) /\
      (forall u, fst (fold_left (del_step fuel s h) l (Ok tt, b)) = Ok u ->
         forall c, In c l -> is_valid_bucket_name c = true ->
           vw s (snd (fold_left (del_step fuel s h) l (Ok tt, b))) (index_key (path_of (ns ++ [c]))) = None).
  Proof.
    intros fuel h ns Hh Hrec. induction l as [|c1 l IH]; intros b Hb Hc; cbn [fold_left].
    - split; [exact Hc|]. intros u _ c [].
    - cbn [del_step]. destruct (bucket s (Some b) h c1) as [sub|] eqn:Eb.
      + destruct (bucket_some_hnd s (Some b) h ns c1 sub Hs (proj2 Hb) Hh Eb) as [Hsub Hv1].
        pose proof (binv_delete_rec fuel s b sub Hb) as Hb1.
        pose proof (Hrec b sub (ns ++ [c1]) Hb Hsub Hc) as Hc1.
        destruct (delete_rec fuel s b sub) as [[u1|e] b1] eqn:Ed; cbn [snd] in Hb1, Hc1.
        * destruct u1. destruct (IH b1 Hb1 Hc1) as [G1 G2]. split; [exact G1|].
          intros u Hu c [E|Hin] Hvc; [|eapply G2; eauto]. subst c1.
          pose proof (fold_del_shrinks s Hsorted Hs fuel h ns l b1 Hb1 Hh) as [_ Hsh].
          eapply shrinks_none; [exact Hsh|].
          apply (delete_rec_complete s Hsorted Hs fuel b sub (ns ++ [c]) b1 Hb Hsub Ed []); [| |exact I];
            rewrite app_nil_r; [apply Hsub|left; reflexivity].
        * rewrite fold_del_err. cbn [fst snd]. split; [exact Hc1|]. intros u Hu. discriminate.
      + destruct (IH b Hb Hc) as [G1 G2]. split; [exact G1|].
        intros u Hu c [E|Hin] Hvc; [|eapply G2; eauto]. subst c1.
        pose proof (fold_del_shrinks s Hsorted Hs fuel h ns l b Hb Hh) as [_ Hsh].
        eapply shrinks_none; [exact Hsh|]. apply (lookup_none_gone b h ns c); auto.
  Qed.

  (* recursive deletion keeps the store free of orphans, whatever it answers *)
  Lemma delete_rec_closed : forall fuel b h ns, binv b -> hnd h ns -> closed (vw s b) ->
    closed (vw s (snd (delete_rec fuel s b h))).
  Proof.
    induction fuel as [|fuel IH]; intros b h ns Hb Hh Hc; [exact Hc|]. rewrite delete_rec_S.
    destruct (h_depth h =? 1)%nat; [exact Hc|].
    pose proof Hb as [Hwf Hidx]. pose proof Hh as [Hns [Hp Hdp]].
    destruct (bucket_names_exact s (Some b) h ns Hsorted Hs Hwf Hidx Hns Hp Hdp) as [l [Hl [_ Hx]]]. rewrite Hl.
    destruct (fold_del_closed fuel h ns Hh IH l b Hb Hc) as [G1 G2].
    pose proof (fold_del_shrinks s Hsorted Hs fuel h ns l b Hb Hh) as [Hbn Hsh].
    destruct (fold_left (del_step fuel s h) l (Ok tt, b)) as [[u|e] bn] eqn:Ef; cbn [fst snd] in *; [|exact G1].
    destruct Hns as [Hne [Hv Hbytes]].
    assert (Hpb : bytes_ok (h_path h)) by (eapply hnd_path_bytes; eauto).
    set (f1 := vw s (clear_kv s bn (h_path h))).
    assert (Hf1 : forall k, f1 k = if has_prefix (path_of ns ++ [SEP]) k then None else vw s bn k).
    { intros k. unfold f1. rewrite <- Hp. apply vw_clear_kv; auto. apply Hbn. }
    assert (Hc1 : closed f1) by (apply (closed_clear (vw s bn) f1 ns G1 Hf1)).
    apply (closed_remove_idx f1 _ ns Hc1 Hv).
    - intros k. unfold f1. rewrite <- Hp. apply vw_delete.
    - intros m Hm Hbk. unfold bkf in Hbk. rewrite Hf1, has_prefix_idx_false in Hbk.
      apply Hbk. apply (G2 u eq_refl m); auto. apply Hx. split; [exact Hm|].
      cbn [view_store]. intros E. apply Hbk. eapply shrinks_none; [exact Hsh|exact E].
    - intros uk. unfold kvf. rewrite Hf1, inner_key_as_app, has_prefix_app. reflexivity.
  Qed.
End DeleteClosed.

(* ------------------------------------------------------------------ the write operations keep the view closed *)
Lemma handle_ok_hnd : forall h, handle_ok h -> exists ns, hnd h ns.
Proof. intros h [ns H]. exists ns. exact H. Qed.

Definition oclosed (s : store) (ob : option batch) : Prop := match ob with Some b => closed (vw s b) | None => True end.

Lemma create_top_level_closed : forall s b n, closed (vw s b) -> closed (vw s (snd (create_top_level s b n))).
Proof.
  intros s b n Hc. unfold create_top_level. destruct (is_valid_bucket_name n) eqn:Hn; cbn [negb]; [|exact Hc].
  unfold create_index. rewrite top_path_is_path_of.
  destruct (s_get (index_key (path_of [n])) s); [destruct (snd (batch_get b (index_key (path_of [n]))))|]; cbn [snd]; try exact Hc;
    apply (closed_create (vw s b) _ [] n n Hc (Forall_nil _) Hn (or_introl eq_refl)); intros k; apply vw_put.
Qed.
Lemma new_bucket_closed : forall s b h ns n, hnd h ns -> bkf (vw s b) ns -> closed (vw s b) ->
  oclosed s (snd (new_bucket s (Some b) h n)).
Proof.
  intros s b h ns n [[Hne [Hv _]] [Hp Hd]] Hb Hc. unfold new_bucket.
  destruct (sub_bucket h n) as [sub|e] eqn:Es; [|exact Hc].
  destruct (sub_bucket_wf h n sub ns Hv Hne Hp Hd Es) as [Hn [Hp' _]].
  unfold create_index. rewrite Hp'.
  destruct (s_get (index_key (path_of (ns ++ [n]))) s); [destruct (snd (batch_get b (index_key (path_of (ns ++ [n])))))|];
    cbn [snd oclosed]; try exact Hc;
    apply (closed_create (vw s b) _ ns n n Hc Hv Hn (or_intror Hb)); intros k; apply vw_put.
Qed.
Lemma bucket_put_closed : forall s b h ns k v, hnd h ns -> bkf (vw s b) ns -> closed (vw s b) ->
  oclosed s (snd (bucket_put (Some b) h k v)).
Proof.
  intros s b h ns k v [[_ [Hv _]] [Hp _]] Hb Hc. unfold bucket_put.
  destruct v as [|c v]; [exact Hc|]. destruct k as [|ck k]; [exact Hc|]. cbn [snd oclosed].
  apply (closed_set_data (vw s b) _ ns (ck :: k) (Some (c :: v)) Hc Hv (fun _ => Hb)). intros key. rewrite <- Hp. apply vw_put.
Qed.
Lemma bucket_delete_closed : forall s b h ns k, hnd h ns -> closed (vw s b) -> oclosed s (snd (bucket_delete (Some b) h k)).
Proof.
  intros s b h ns k [[_ [Hv _]] [Hp _]] Hc. unfold bucket_delete. destruct k as [|ck k]; [exact Hc|]. cbn [snd oclosed].
  apply (closed_set_data (vw s b) _ ns (ck :: k) None Hc Hv); [congruence|]. intros key. rewrite <- Hp. apply vw_delete.
Qed.
Lemma clear_closed : forall s b h ns, keys_sorted s -> store_ok s -> binv b -> hnd h ns -> closed (vw s b) ->
  oclosed s (snd (clear s (Some b) h)).
Proof.
  intros s b h ns Hsorted Hs Hb Hh Hc. pose proof (hnd_path_bytes h ns Hh) as Hpb. destruct Hh as [_ [Hp _]].
  unfold clear. cbn [snd oclosed]. apply (closed_clear (vw s b) _ ns Hc). intros k. rewrite <- Hp. apply vw_clear_kv; auto. apply Hb.
Qed.
Lemma delete_bucket_closed : forall s b h ns n, keys_sorted s -> store_ok s -> binv b -> hnd h ns -> closed (vw s b) ->
  oclosed s (snd (delete_bucket s (Some b) h n)).
Proof.
  intros s b h ns n Hsorted Hs Hb Hh Hc. unfold delete_bucket.
  destruct (bucket s (Some b) h n) as [sub|] eqn:Eb; [|exact Hc].
  destruct (bucket_some_hnd s (Some b) h ns n sub Hs (proj2 Hb) Hh Eb) as [Hsub _].
  pose proof (delete_rec_closed s Hsorted Hs delete_fuel b sub (ns ++ [n]) Hb Hsub Hc) as H.
  destruct (delete_rec delete_fuel s b sub) as [r b']. exact H.
Qed.

(* ------------------------------------------------------------------ along disciplined operation sequences *)
(* the discipline: NewBucket and Put go through handles of buckets that exist in the write transaction's view
   (a handle is not used for writing after its bucket was deleted) *)
Definition live_use (snap : bool) (st : state) (o : op) : Prop :=
  match o with
  | ONew _ src _ | OPut src _ _ =>
      forall h vs b, slot_view snap st src = Some (true, h, vs, Some b) -> exists ns, hnd h ns /\ bkf (vw vs b) ns
  | _ => True
  end.
Fixpoint disciplined (snap : bool) (st : state) (ops : list op) : Prop :=
  match ops with
  | [] => True
  | o :: r => live_use snap st o /\ disciplined snap (fst (step_gen snap st o)) r
  end.

Definition closed_inv (st : state) : Prop :=
  closed (sget (st_store st)) /\ oclosed (st_store st) (st_wtx st) /\
  match st_rtx st with Some s0 => closed (sget s0) | None => True end.

Lemma closed_inv_init : closed_inv init_state.
Proof.
  assert (H : closed (sget [])).
  { split; intros; unfold bkf, kvf, sget in *; cbn in *; congruence. }
  split; [exact H|]. split; exact I.
Qed.

Lemma slot_view_write : forall snap st src h vs ob, slot_view snap st src = Some (true, h, vs, ob) ->
  vs = st_store st /\ exists b, ob = Some b /\ st_wtx st = Some b.
Proof.
  intros snap st src h vs ob H. unfold slot_view in H. destruct (get_slot src (st_bs st)) as [[w h']|]; [|discriminate].
  destruct (tx_view snap st w) as [[vs' ob']|] eqn:Ev; [|discriminate]. inversion H; subst. unfold tx_view in Ev.
  destruct (st_wtx st) as [b|]; [|discriminate]. inversion Ev; subst. eauto.
Qed.
Lemma slot_view_read : forall snap st src h vs ob, slot_view snap st src = Some (false, h, vs, ob) -> ob = None.
Proof.
  intros snap st src h vs ob H. unfold slot_view in H. destruct (get_slot src (st_bs st)) as [[w h']|]; [|discriminate].
  destruct (tx_view snap st w) as [[vs' ob']|] eqn:Ev; [|discriminate]. inversion H; subst. unfold tx_view in Ev.
  destruct (st_rtx st); [|discriminate]. inversion Ev; reflexivity.
Qed.

Lemma closed_inv_store_batch : forall st w ob', closed_inv st -> (w = true -> oclosed (st_store st) ob') ->
  closed_inv (store_batch st w ob').
Proof.
  intros st w ob' [H1 [H2 H3]] Hb. unfold store_batch. destruct w; [|split; auto].
  split; [exact H1|]. split; [cbn; apply Hb; reflexivity|exact H3].
Qed.
Lemma closed_inv_frame : forall st st', st_store st' = st_store st -> st_wtx st' = st_wtx st -> st_rtx st' = st_rtx st ->
  closed_inv st -> closed_inv st'.
Proof. intros st st' E1 E2 E3 H. unfold closed_inv. rewrite E1, E2, E3. exact H. Qed.
Lemma closed_inv_put_handle : forall st w dst oh, closed_inv st -> closed_inv (fst (put_handle st w dst oh)).
Proof. intros st w dst oh H. unfold put_handle. destruct oh; cbn [fst]; eapply closed_inv_frame; eauto. Qed.

(* a write through a slot: read-transaction slots refuse, write-transaction slots act on the open batch *)
Lemma slot_write_closed : forall snap st src w h vs ob (ob' : option batch),
  idx_inv st -> closed_inv st -> slot_view snap st src = Some (w, h, vs, ob) ->
  (ob = None -> ob' = None) ->
  (forall b, w = true -> vs = st_store st -> ob = Some b -> st_wtx st = Some b -> binv b -> closed (vw vs b) -> oclosed vs ob') ->
  closed_inv (store_batch st w ob').
Proof.
  intros snap st src w h vs ob ob' [Hinv Hi] Hc Ev Hnone Hsome. apply closed_inv_store_batch; auto. intros Ew. subst w.
  destruct (slot_view_write _ _ _ _ _ _ Ev) as [Evs [b [Eob Ewtx]]].
  destruct Hc as [_ [Hcb _]]. rewrite Ewtx in Hcb. cbn in Hcb.
  destruct Hinv as [_ [Hwf _]]. destruct Hi as [_ [Hidx _]]. rewrite Ewtx in Hwf, Hidx. cbn in Hwf, Hidx.
  rewrite <- Evs. apply (Hsome b); auto; [split; auto|rewrite Evs; exact Hcb].
Qed.

Lemma step_closed : forall snap st o, idx_inv st -> closed_inv st -> live_use snap st o ->
  closed_inv (fst (step_gen snap st o)).
Proof.
  intros snap st o Hii Hc Hlive. pose proof Hii as [Hinv Hi]. pose proof Hc as [Hcs [Hcb Hcr]].
  pose proof Hinv as [Hsorted [Hwf Hrs]]. pose proof Hi as [Hs [Hidx _]].
  destruct o; cbn [step_gen live_use] in *.
  - destruct w.
    + destruct (st_wtx st); [exact Hc|]. destruct (st_open st); [|exact Hc]. split; [exact Hcs|]. split; [exact Hcs|exact Hcr].
    + destruct (st_rtx st); [exact Hc|]. destruct (st_open st); [|exact Hc]. split; [exact Hcs|]. split; [exact Hcb|exact Hcs].
  - destruct (st_wtx st) as [b|] eqn:E; [|exact Hc]. destruct (st_upd st); [exact Hc|].
    split; [exact Hcb|]. split; [exact I|exact Hcr].
  - destruct (st_wtx st) as [b|] eqn:E; [|exact Hc]. destruct (st_upd st); [exact Hc|].
    split; [exact Hcs|]. split; [exact I|exact Hcr].
  - destruct (st_rtx st); [|exact Hc]. split; [exact Hcs|]. split; [exact Hcb|exact I].
  - destruct (st_wtx st) as [b|] eqn:E; [exact Hc|]. destruct (st_open st); [|exact Hc].
    split; [exact Hcs|]. split; [exact Hcs|exact Hcr].
  - destruct (st_wtx st) as [b|] eqn:E; [|exact Hc]. destruct (st_upd st); [|exact Hc].
    destruct fail; (split; [|split; [exact I|exact Hcr]]); [exact Hcs|exact Hcb].
  - destruct (st_wtx st) eqn:Ew; [exact Hc|]. destruct (st_rtx st) eqn:Er; [exact Hc|]. destruct (st_open st); [|exact Hc].
    eapply closed_inv_frame; [| | |exact Hc]; reflexivity.
  - destruct (st_wtx st) eqn:Ew; [exact Hc|]. destruct (st_rtx st) eqn:Er; [exact Hc|].
    eapply closed_inv_frame; [| | |exact Hc]; reflexivity.
  - destruct (st_open st); exact Hc.
  - destruct (tx_view snap st w) as [[vs ob]|]; [|exact Hc]. apply closed_inv_put_handle. exact Hc.
  - destruct (st_wtx st) as [b|] eqn:E; [|exact Hc]. cbn in Hcb.
    pose proof (create_top_level_closed (st_store st) b name Hcb) as H.
    destruct (create_top_level (st_store st) b name) as [[h|e] b']; cbn [fst snd] in *;
      (split; [exact Hcs|split; [exact H|exact Hcr]]).
  - destruct (st_wtx st); exact Hc.
  - destruct (tx_view snap st w) as [[vs ob]|]; [|exact Hc]. destruct (tx_bucket_names vs ob); exact Hc.
  - destruct (tx_view snap st w) as [[vs ob]|]; [|exact Hc]. destruct (get_slot src (st_bs st)) as [[w' h]|]; [|exact Hc].
    apply closed_inv_put_handle. exact Hc.
  - destruct (slot_view snap st src) as [[[[w h] vs] ob]|] eqn:Ev; [|exact Hc].
    assert (G : closed_inv (store_batch st w (snd (new_bucket vs ob h name)))).
    { apply (slot_write_closed snap st src w h vs ob _ Hii Hc Ev).
      - intros E. subst ob. reflexivity.
      - intros b Ew Evs Eob Ewtx Hb Hcv. subst w ob. destruct (Hlive h vs b eq_refl) as [ns [Hh Hbk]].
        apply (new_bucket_closed vs b h ns name Hh Hbk Hcv). }
    destruct (new_bucket vs ob h name) as [[sub|e] ob']; cbn [fst snd] in *; [|exact G].
    eapply closed_inv_frame; [| | |exact G]; reflexivity.
  - destruct (slot_view snap st src) as [[[[w h] vs] ob]|]; [|exact Hc]. apply closed_inv_put_handle. exact Hc.
  - destruct (slot_view snap st src) as [[[[w h] vs] ob]|] eqn:Ev; [|exact Hc].
    destruct (slot_view_ok _ _ _ _ _ _ _ Hi Ev) as [Hvs [Hvb Hh]]. destruct (slot_view_wf _ _ _ _ _ _ _ Hinv Ev) as [_ Hvsorted].
    destruct (handle_ok_hnd h Hh) as [ns Hns].
    assert (G : closed_inv (store_batch st w (snd (delete_bucket vs ob h name)))).
    { apply (slot_write_closed snap st src w h vs ob _ Hii Hc Ev).
      - intros E. subst ob. reflexivity.
      - intros b Ew Evs Eob Ewtx Hb Hcv. subst ob. apply (delete_bucket_closed vs b h ns name); auto. }
    destruct (delete_bucket vs ob h name) as [r ob']; cbn [fst snd] in *. exact G.
  - destruct (slot_view snap st src) as [[[[w h] vs] ob]|]; [|exact Hc]. destruct (bucket_names vs ob h); exact Hc.
  - destruct (slot_view snap st src) as [[[[w h] vs] ob]|] eqn:Ev; [|exact Hc].
    assert (G : closed_inv (store_batch st w (snd (bucket_put ob h k v)))).
    { apply (slot_write_closed snap st src w h vs ob _ Hii Hc Ev).
      - intros E. subst ob. reflexivity.
      - intros b Ew Evs Eob Ewtx Hb Hcv. subst w ob. destruct (Hlive h vs b eq_refl) as [ns [Hh Hbk]].
        apply (bucket_put_closed vs b h ns k v Hh Hbk Hcv). }
    destruct (bucket_put ob h k v) as [r ob']; cbn [fst snd] in *. exact G.
  - destruct (slot_view snap st src) as [[[[w h] vs] ob]|] eqn:Ev; [|exact Hc].
    destruct (slot_view_ok _ _ _ _ _ _ _ Hi Ev) as [Hvs [Hvb Hh]]. destruct (handle_ok_hnd h Hh) as [ns Hns].
    assert (G : closed_inv (store_batch st w (snd (bucket_delete ob h k)))).
    { apply (slot_write_closed snap st src w h vs ob _ Hii Hc Ev).
      - intros E. subst ob. reflexivity.
      - intros b Ew Evs Eob Ewtx Hb Hcv. subst ob. apply (bucket_delete_closed vs b h ns k Hns Hcv). }
    destruct (bucket_delete ob h k) as [r ob']; cbn [fst snd] in *. exact G.
  - destruct (slot_view snap st src) as [[[[w h] vs] ob]|]; [|exact Hc]. destruct (bucket_get vs ob h k); exact Hc.
  - destruct (slot_view snap st src) as [[[[w h] vs] ob]|] eqn:Ev; [|exact Hc].
    destruct (slot_view_ok _ _ _ _ _ _ _ Hi Ev) as [Hvs [Hvb Hh]]. destruct (slot_view_wf _ _ _ _ _ _ _ Hinv Ev) as [_ Hvsorted].
    destruct (handle_ok_hnd h Hh) as [ns Hns].
    assert (G : closed_inv (store_batch st w (snd (clear vs ob h)))).
    { apply (slot_write_closed snap st src w h vs ob _ Hii Hc Ev).
      - intros E. subst ob. reflexivity.
      - intros b Ew Evs Eob Ewtx Hb Hcv. subst ob. apply (clear_closed vs b h ns); auto. }
    destruct (clear vs ob h) as [r ob']; cbn [fst snd] in *. exact G.
  - destruct (slot_view snap st src) as [[[[w h] vs] ob]|]; exact Hc.
  - destruct (slot_view snap st src) as [[[[w h] vs] ob]|]; [|exact Hc].
    destruct (match mode with O => _ | S _ => _ end) as [a l]. eapply closed_inv_frame; [| | |exact Hc]; reflexivity.
  - destruct (get_slot i (st_is st)) as [[w it]|]; [|exact Hc]. destruct (iter_seek it k).
    eapply closed_inv_frame; [| | |exact Hc]; reflexivity.
  - destruct (get_slot i (st_is st)) as [[w it]|]; [|exact Hc]. destruct (iter_next it).
    eapply closed_inv_frame; [| | |exact Hc]; reflexivity.
  - destruct (get_slot i (st_is st)) as [[w it]|]; [|exact Hc]. eapply closed_inv_frame; [| | |exact Hc]; reflexivity.
  - destruct (bytes_prefix p). exact Hc.
Qed.

Lemma exec_closed : forall snap ops st, idx_inv st -> closed_inv st -> Forall op_bytes ops -> disciplined snap st ops ->
  closed_inv (exec snap st ops).
Proof.
  intros snap. induction ops as [|o ops IH]; intros st Hi Hc Hb Hd; cbn; [exact Hc|].
  inversion Hb; subst. destruct Hd as [Hl Hd]. apply IH; auto; [apply step_idx_inv; auto|apply step_closed; auto].
Qed.
(* in every state reached by a typed, disciplined operation sequence: no orphans, in the committed store, in the open
   write transaction's view and in the store a read transaction captured *)
Lemma run_closed : forall snap ops, Forall op_bytes ops -> disciplined snap init_state ops ->
  closed_inv (exec snap init_state ops).
Proof. intros snap ops Hb Hd. apply exec_closed; auto; [apply idx_inv_init|apply closed_inv_init]. Qed.

(* ------------------------------------------------------------------ the refinement in reachable states *)
Lemma create_top_level_valid : forall s b n h' b', create_top_level s b n = (Ok h', b') -> is_valid_bucket_name n = true.
Proof.
  intros s b n h' b' H. unfold create_top_level in H. destruct (is_valid_bucket_name n); [reflexivity|]. cbn in H. discriminate.
Qed.
Lemma new_bucket_valid : forall s ob h n sub ob', new_bucket s ob h n = (Ok sub, ob') -> is_valid_bucket_name n = true.
Proof.
  intros s ob h n sub ob' H. unfold new_bucket in H. destruct ob as [b|]; [|discriminate].
  destruct (sub_bucket h n) as [sub'|e] eqn:Es; [|discriminate]. unfold sub_bucket in Es.
  destruct (is_valid_bucket_name n); [reflexivity|]. cbn in Es. discriminate.
Qed.

Lemma nested_map_refinement_run : forall snap ops, Forall op_bytes ops -> disciplined snap init_state ops ->
  let st := exec snap init_state ops in
  forall b, st_wtx st = Some b ->
  let s := st_store st in
  let t := abs_tree (commit s b) in
  rep (sget (commit s b)) [] t /\
  (exists l, tx_bucket_names s (Some b) = Ok l /\ NoDup l /\ forall n, In n l <-> t_kids t n <> None) /\
  (forall n h' b', create_top_level s b n = (Ok h', b') -> teq (abs_tree (commit s b')) (t_create t [] n)) /\
  forall h ns, hnd h ns ->
    (forall tn, t_at t ns = Some tn ->
       (forall key, key <> [] -> bucket_get s (Some b) h key = t_ents tn key) /\
       (exists l, bucket_names s (Some b) h = Ok l /\ NoDup l /\ forall n, In n l <-> t_kids tn n <> None)) /\
    (forall key v b', bucket_put (Some b) h key v = (Ok tt, Some b') -> teq (abs_tree (commit s b')) (t_put t ns key v)) /\
    (forall key b', key <> [] -> bucket_delete (Some b) h key = (Ok tt, Some b') -> teq (abs_tree (commit s b')) (t_delete t ns key)) /\
    (forall b', clear s (Some b) h = (Ok tt, Some b') -> teq (abs_tree (commit s b')) (t_clear t ns)) /\
    (forall n sub b', new_bucket s (Some b) h n = (Ok sub, Some b') -> teq (abs_tree (commit s b')) (t_create t ns n)) /\
    (forall n b', delete_bucket s (Some b) h n = (Ok tt, Some b') -> teq (abs_tree (commit s b')) (t_remove t ns n)).
Proof.
  intros snap ops Hb Hd st b Ew s t.
  pose proof (run_idx_inv snap ops Hb) as [[Hsorted [Hwf _]] [Hs [Hidx _]]]. fold st in Hsorted, Hwf, Hs, Hidx.
  pose proof (run_closed snap ops Hb Hd) as [_ [Hc _]]. fold st in Hc. rewrite Ew in Hwf, Hidx, Hc. cbn in Hwf, Hidx, Hc.
  fold s in Hsorted, Hs, Hc.
  destruct (nested_map_refinement s b Hsorted Hs (conj Hwf Hidx)) as [R1 [R2 [R3 R4]]]. fold t in R1, R2, R3, R4.
  split; [exact R1|]. split; [exact R2|]. split.
  - intros n h' b' H. apply (R3 n h' b' H). apply (closed_fresh _ [n] Hc); [|discriminate].
    constructor; [eapply create_top_level_valid; eauto|constructor].
  - intros h ns Hh. destruct (R4 h ns Hh) as [Q1 [Q2 [Q3 [Q4 [Q5 Q6]]]]].
    split; [exact Q1|]. split; [exact Q2|]. split; [exact Q3|]. split; [exact Q4|]. split; [|exact Q6].
    intros n sub b' H. apply (Q5 n sub b' H). destruct Hh as [[_ [Hv _]] _]. apply (closed_fresh _ (ns ++ [n]) Hc).
    + apply Forall_app. split; [exact Hv|]. constructor; [eapply new_bucket_valid; eauto|constructor].
    + destruct ns; discriminate.
Qed.
