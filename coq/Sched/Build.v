(* Sched/Build.v — a transaction-building call as a SEQUENCE of read transactions, each served by
   the committed store that is current when it begins (C17, first sentence, for the calls that
   build a transaction).  Definitions only; proofs in Sched/BuildProofs.v.

   Code: masswallet/common.go autoConstructTxInAndChangeTxOut (outer fee loop, inner dust-change
   loop), addTxIn, existsMsgTx; masswallet/tx.go findEligibleUtxos,
   getUtxosExcludeBindingAndStaking, estimateSignedSize; masswallet/txmgr/txstore.go ExistsTx.
   Callers: AutoCreateRawTransaction, CreateStakingTransaction, CreateBindingTransaction,
   EstimateTxFee / EstimateStakingTxFee / EstimateBindingTxFee (they differ only in how the
   requested outputs are built).

   Read transactions of one call, in code order (k counts them from 0):
     per iteration of the inner loop   one View of getUtxosExcludeBindingAndStaking: the coin
                                       selection reads ONE snapshot (Sched/Reads.v
                                       [spendable_coins] on a constant store = C17_single_boundary)
     per selected coin, every round    one View of existsMsgTx (estimateSignedSize): the previous
                                       transaction is looked up through the credit record of the
                                       outpoint (spent or not) and fetched from the node's chain
     per selected coin, last round     one more View of existsMsgTx (addTxIn)
   [rd k] is the store that serves read transaction k.  Every round selects FROM SCRATCH; the
   transaction is built from the selection of the last round.

   [keep = true] is the seeded variant (seed C17e): the coins picked in earlier rounds are kept and
   only the shortfall is looked for in a later read, so the inputs are a union of picks made in
   different stores.

   The stores are states of the frozen Ledger model; the candidates of a selection round are what
   Reads.v's [spendable_coins] lists (unspent, mature at the store's tip, standard class) minus
   the outpoints reserved by earlier drafts (UTXOUsed; the reservation cache does not change while
   the call runs).  Node mempool and the wallet's pending set are empty in this model.
   Selection, size estimate and relay fee are the functions of the C02 model (Tx/Select.v,
   Tx/Fee.v), instantiated with the coin rows of Reads.v. *)
From Coq Require Import List ZArith NArith Bool Arith.
Import ListNotations.
Open Scope Z_scope.
Require Import MW.Ledger.Model MW.Sched.Reads.
Require MW.Tx.Select MW.Tx.Fee.

Definition op := (N * N)%type.
Definition mem_op (x : op) (l : list op) : bool := existsb (op_eqb x) l.

(* ExistsTx: the credit record of the outpoint (of the current wallet's unspent row, else any
   credit of that transaction with that index), then FetchTxByLoc(height, location) from the
   node: it succeeds when the node still has the credit's block at that height *)
Definition on_chain (n : node) (h : Z) (bid : N) : bool :=
  match node_at n h with Some b => (b_id b =? bid)%N | None => false end.
Definition lookup_ok (n : node) (st : wstate) (o : op) : bool :=
  existsb (fun c => op_eqb (credit_op c) o && on_chain n (c_height c) (c_bid c)) (credits st).

(* what one selection round may choose from, in one store *)
Definition cands (ord : N -> N) (w : N) (sel : N -> bool) (reserved : list op) (st : wstate) : list coinrow :=
  filter (fun c => negb (mem_op (cr_op c) reserved)) (snd (spendable_coins ord (fun _ => st) w sel)).

(* a request as far as the loop reads it: total of the requested outputs, their number, the fee
   the user offers (0 = none), the payload length *)
Record breq := { q_out : Z; q_nout : Z; q_userfee : Z; q_payload : Z }.

Inductive bres :=
| BTx (ins : list coinrow) (change fee : Z)   (* inputs in order, change amount (0 = none), reported fee *)
| BRefused (overfull : bool)                   (* ErrInsufficientFunds / ErrOverfullUtxo *)
| BLookup                                      (* a previous-transaction look-up failed *)
| BOther                                       (* amount range errors *)
| BFuel.                                       (* model only: a loop ran out of fuel (excluded: BuildProofs.build_call_fuel) *)

Inductive ires := IOk (s : list coinrow) (change : Z) | IFail (r : bres).
Inductive kres := KOk (held : list coinrow) (found change : Z) | KFail (r : bres).

Definition init_target (userfee : Z) : Z := if userfee =? 0 then Fee.min_relay else userfee.

(* findEligibleUtxos(amount) on the candidate rows of one snapshot: the selection, its sum, "overfull" *)
Definition find_eligible (want : Z) (cs : list coinrow) : option (list coinrow * Z * bool) :=
  let items := Select.top_k cr_amount Select.sel_k want cs in
  match Select.opt_outputs cr_amount Fee.max_amount want items with
  | None => None
  | Some s => Some (s, Select.sum_amt cr_amount s,
                    (length items =? Select.sel_k)%nat && (length items =? length s)%nat)
  end.

Definition inner_fuel : nat := 3.
Definition outer_fuel : nat := 2 * (Select.sel_k + 3).

Section Call.
Variable ord : N -> N.
Variable w : N.                      (* the selected wallet *)
Variable sel : N -> bool.            (* the sender addresses (script hashes) *)
Variable reserved : list op.         (* outpoints held by earlier drafts *)
Variable nd : node.                  (* the node's best chain while the call runs *)
Variable rd : nat -> wstate.         (* the store serving read transaction k *)

Definition cands_at (k : nat) : list coinrow := cands ord w sel reserved (rd k).

(* one look-up per coin, in order; stops at the first failure *)
Fixpoint lookups (k : nat) (l : list coinrow) : nat * bool :=
  match l with
  | [] => (k, true)
  | c :: t => if lookup_ok nd (rd k) (cr_op c) then lookups (S k) t else (S k, false)
  end.

(* ---------------------------------------------------------------- the code as it is *)

(* inner loop: select for want (+ adj); a change below the relay minimum is not allowed: select
   again, FROM SCRATCH and in a new read transaction, for MinRelayTxFee more *)
Fixpoint inner (fuel : nat) (k : nat) (out target adj : Z) : nat * ires :=
  match fuel with
  | O => (k, IFail BFuel)
  | S f =>
    let want := target + out in
    let want_adj := want + adj in
    if (Fee.max_amount <? want) || (Fee.max_amount <? want_adj) || (want_adj =? 0) then (k, IFail BOther)
    else
      match find_eligible want_adj (cands_at k) with
      | None => (S k, IFail BOther)
      | Some (s, found, overfull) =>
        if found <? want_adj then (S k, IFail (BRefused overfull))
        else
          let change := found - want in
          if change =? 0 then (S k, IOk s 0)
          else if change <? Fee.min_relay then inner f (S k) out target Fee.min_relay
          else (S k, IOk s change)
      end
  end.

Definition req_fee (q : breq) (nin : nat) (change : Z) : Z :=
  Fee.required_fee (Fee.estimate_signed_size (Z.of_nat nin) (q_nout q + (if change =? 0 then 0 else 1)) (q_payload q)).

(* outer loop: estimate the size of the round's selection (look-ups), raise the fee target and
   start over, or add the inputs (look-ups again) and return *)
Fixpoint outer (fuel : nat) (k : nat) (q : breq) (target : Z) : nat * bres :=
  match fuel with
  | O => (k, BFuel)
  | S f =>
    match inner inner_fuel k (q_out q) target 0 with
    | (k1, IFail r) => (k1, r)
    | (k1, IOk s ch) =>
      match lookups k1 s with
      | (k2, false) => (k2, BLookup)
      | (k2, true) =>
        if req_fee q (length s) ch <=? target then
          match lookups k2 s with
          | (k3, true) => (k3, BTx s ch target)
          | (k3, false) => (k3, BLookup)
          end
        else outer f k2 q (req_fee q (length s) ch)
      end
    end
  end.

(* ---------------------------------------------------------------- seeded variant: keep the picks *)

Definition not_held (held : list coinrow) (c : coinrow) : bool := negb (mem_op (cr_op c) (map cr_op held)).

Fixpoint inner_keep (fuel : nat) (k : nat) (out target adj : Z) (held : list coinrow) (found : Z) : nat * kres :=
  match fuel with
  | O => (k, KFail BFuel)
  | S f =>
    let want := target + out in
    let want_adj := want + adj in
    if (Fee.max_amount <? want) || (Fee.max_amount <? want_adj) then (k, KFail BOther)
    else if found <? want_adj then
      (* top up: only the missing part is looked for, among the coins not yet held *)
      let missing := want_adj - found in
      match find_eligible missing (filter (not_held held) (cands_at k)) with
      | None => (S k, KFail BOther)
      | Some (more, fm, overfull) =>
        if fm <? missing then (S k, KFail (BRefused overfull))
        else
          let held' := held ++ more in
          let found' := found + fm in
          let change := found' - want in
          if change =? 0 then (S k, KOk held' found' 0)
          else if change <? Fee.min_relay then inner_keep f (S k) out target Fee.min_relay held' found'
          else (S k, KOk held' found' change)
      end
    else
      let change := found - want in
      if change =? 0 then (k, KOk held found 0)
      else if change <? Fee.min_relay then inner_keep f k out target Fee.min_relay held found
      else (k, KOk held found change)
  end.

Fixpoint outer_keep (fuel : nat) (k : nat) (q : breq) (target : Z) (held : list coinrow) (found : Z) : nat * bres :=
  match fuel with
  | O => (k, BFuel)
  | S f =>
    match inner_keep inner_fuel k (q_out q) target 0 held found with
    | (k1, KFail r) => (k1, r)
    | (k1, KOk held' found' ch) =>
      match lookups k1 held' with
      | (k2, false) => (k2, BLookup)
      | (k2, true) =>
        if req_fee q (length held') ch <=? target then
          match lookups k2 held' with
          | (k3, true) => (k3, BTx held' ch target)
          | (k3, false) => (k3, BLookup)
          end
        else outer_keep f k2 q (req_fee q (length held') ch) held' found'
      end
    end
  end.

(* the call: number of read transactions made, result *)
Definition build_call (keep : bool) (q : breq) : nat * bres :=
  if keep then outer_keep outer_fuel 0 q (init_target (q_userfee q)) [] 0
  else outer outer_fuel 0 q (init_target (q_userfee q)).

End Call.

(* the call when its read transactions are served according to a schedule over the committed
   stores [ss] (Reads.v: element k of [sc] = the commit index at which read transaction k begins) *)
Definition build_sched (ord : N -> N) (w : N) (sel : N -> bool) (reserved : list op) (nd : node)
    (keep : bool) (ss : list wstate) (sc : list nat) (q : breq) : nat * bres :=
  build_call ord w sel reserved nd (fun k => store_at ss (idx sc k)) keep q.

(* ---------------------------------------------------------------- the property's predicate *)

(* THE JUDGED PREDICATE.  A built transaction — its inputs, the total of its outputs, the fee
   reported with it — is a correct answer at a block boundary whose eligible, unreserved coins
   are [el] when no input is listed twice, every input is one of those coins, and value is
   conserved: inputs - outputs = fee. *)
Fixpoint nodup_ops (l : list op) : bool :=
  match l with [] => true | x :: t => negb (mem_op x t) && nodup_ops t end.
Definition find_coin (o : op) (l : list coinrow) : option coinrow := find (fun c => op_eqb (cr_op c) o) l.
Fixpoint sum_ins (el : list coinrow) (ins : list op) : option Z :=
  match ins with
  | [] => Some 0
  | o :: t => match find_coin o el, sum_ins el t with
              | Some c, Some s => Some (cr_amount c + s)
              | _, _ => None
              end
  end.
Definition tx_ok_at (el : list coinrow) (ins : list op) (outs_total fee : Z) : bool :=
  nodup_ops ins && match sum_ins el ins with Some s => s =? outs_total + fee | None => false end.

(* the first boundary j in [lo, lo + n) at which f holds *)
Fixpoint first_boundary (f : nat -> bool) (lo n : nat) : option nat :=
  match n with
  | O => None
  | S m => if f lo then Some lo else first_boundary f (S lo) m
  end.

(* a boundary between the call's start (commit index lo) and its end (hi) at which the
   transaction is a correct answer *)
Definition tx_boundary (ord : N -> N) (w : N) (sel : N -> bool) (reserved : list op) (ss : list wstate)
    (lo hi : nat) (ins : list op) (outs_total fee : Z) : option nat :=
  first_boundary (fun j => tx_ok_at (cands ord w sel reserved (store_at ss j)) ins outs_total fee) lo (S hi - lo).

(* Refusals.  The funds within the input cap: the K largest eligible coins. *)
Definition cap_funds (el : list coinrow) : Z :=
  Select.sum_amt cr_amount (firstn Select.sel_k (Select.sort_desc cr_amount el)).
(* the largest fee target a call can reach when no store offers more than [nmax] candidates *)
Definition target_cap (q : breq) (nmax : Z) : Z :=
  Z.max (init_target (q_userfee q))
        (Fee.required_fee (Fee.estimate_signed_size (Z.min nmax (Z.of_nat Select.sel_k)) (q_nout q + 1) (q_payload q))).
(* an insufficient-funds refusal is a correct answer at a boundary with eligible coins [el] when
   the funds within the cap do not cover the outputs, the largest fee target and the dust slack *)
Definition refusal_ok_at (el : list coinrow) (q : breq) (nmax : Z) : bool :=
  cap_funds el <? q_out q + target_cap q nmax + Fee.min_relay.
Definition max_cands (ord : N -> N) (w : N) (sel : N -> bool) (reserved : list op) (ss : list wstate) (lo hi : nat) : Z :=
  fold_right Z.max 0 (map (fun j => Z.of_nat (length (cands ord w sel reserved (store_at ss j)))) (seq lo (S hi - lo))).
Definition refusal_boundary (ord : N -> N) (w : N) (sel : N -> bool) (reserved : list op) (ss : list wstate)
    (lo hi : nat) (q : breq) : option nat :=
  let nmax := max_cands ord w sel reserved ss lo hi in
  first_boundary (fun j => refusal_ok_at (cands ord w sel reserved (store_at ss j)) q nmax) lo (S hi - lo).

(* a failed look-up is a correct outcome only when some coin that was eligible at a boundary of
   the call cannot be looked up at a (not earlier) boundary: its block left the node's chain *)
Definition lookup_can_fail (ord : N -> N) (w : N) (sel : N -> bool) (reserved : list op) (nd : node) (ss : list wstate)
    (lo hi : nat) : bool :=
  existsb (fun j => existsb (fun j' => (j <=? j')%nat &&
                       existsb (fun c => negb (lookup_ok nd (store_at ss j') (cr_op c)))
                               (cands ord w sel reserved (store_at ss j)))
                    (seq lo (S hi - lo))) (seq lo (S hi - lo)).

(* ---------------------------------------------------------------- explicit inputs *)

(* CreateRawTransaction: constructTxIn looks every input up once, EstimateManualTxFee once more
   for the fee without change and once more for the fee with change: [rounds] passes over the
   inputs, one read transaction per look-up; nothing is selected, the result is a function of the
   request and of the (immutable) previous outputs. *)
Fixpoint lookup_pass (nd : node) (rd : nat -> wstate) (k : nat) (l : list op) : nat * bool :=
  match l with
  | [] => (k, true)
  | o :: t => if lookup_ok nd (rd k) o then lookup_pass nd rd (S k) t else (S k, false)
  end.
Fixpoint manual_lookups (nd : node) (rd : nat -> wstate) (rounds : nat) (k : nat) (ins : list op) : nat * bool :=
  match rounds with
  | O => (k, true)
  | S r => match lookup_pass nd rd k ins with
           | (k1, true) => manual_lookups nd rd r k1 ins
           | (k1, false) => (k1, false)
           end
  end.

(* what the explicit-input path guarantees at a boundary: every input is a recorded output of the
   wallet (spent or not: the code does not ask) whose previous transaction can be fetched, no
   input twice, value conserved *)
Definition credit_of (st : wstate) (w : N) (o : op) : option credit :=
  find (fun c => op_eqb (credit_op c) o && (c_wallet c =? w)%N) (credits st).
Fixpoint sum_credits (st : wstate) (w : N) (ins : list op) : option Z :=
  match ins with
  | [] => Some 0
  | o :: t => match credit_of st w o, sum_credits st w t with
              | Some c, Some s => Some (c_amount c + s)
              | _, _ => None
              end
  end.
Definition manual_ok_at (nd : node) (st : wstate) (w : N) (ins : list op) (outs_total fee : Z) : bool :=
  nodup_ops ins && forallb (lookup_ok nd st) ins &&
  match sum_credits st w ins with Some s => s =? outs_total + fee | None => false end.
Definition manual_boundary (nd : node) (w : N) (ss : list wstate) (lo hi : nat) (ins : list op) (outs_total fee : Z) : option nat :=
  first_boundary (fun j => manual_ok_at nd (store_at ss j) w ins outs_total fee) lo (S hi - lo).
