(* Sched/ReadsProofs.v — proofs about scheduled queries (C17, read-placement half). *)
From Coq Require Import List ZArith NArith Bool Lia.
Import ListNotations.
Open Scope Z_scope.
Require Import MW.Ledger.Model MW.Sched.Reads.

(* ---------------------------------------------------------------- schedules *)

Lemma idx_single j k : idx [j] k = j.
Proof. unfold idx. destruct k as [|k]; cbn; [reflexivity|]. destruct k; reflexivity. Qed.

Lemma serving_snap ss sc k : serving true ss sc k = store_at ss (idx sc 0).
Proof. reflexivity. Qed.

(* ---------------------------------------------------------------- a query only looks at the stores through rd *)

Lemma balance_rows_ext rd1 rd2 sel m h rows :
  (forall k, rd1 k = rd2 k) -> forall k b, balance_rows rd1 sel m h rows k b = balance_rows rd2 sel m h rows k b.
Proof.
  intros E. induction rows as [|r rows IH]; intros k b; cbn [balance_rows]; [reflexivity|].
  rewrite (E k). destruct (find_credit (rd2 k) r) as [c|]; [|apply IH].
  destruct ((c_amount c =? 0) || negb (sel (c_sh c))); apply IH.
Qed.

Lemma unspent_list_ext rd1 rd2 sel h rows :
  (forall k, rd1 k = rd2 k) -> forall k, unspent_list rd1 sel h rows k = unspent_list rd2 sel h rows k.
Proof.
  intros E. induction rows as [|r rows IH]; intros k; cbn [unspent_list]; [reflexivity|].
  rewrite (E k). destruct (find_credit (rd2 k) r) as [c|]; [|apply IH].
  destruct ((c_amount c =? 0) || negb (sel (c_sh c))); [apply IH|]. rewrite IH. reflexivity.
Qed.

Lemma run_query_ext ord rd1 rd2 q : (forall k, rd1 k = rd2 k) -> run_query ord rd1 q = run_query ord rd2 q.
Proof.
  intros E. destruct q as [w m|w shs m|w|w]; cbn [run_query].
  - unfold wallet_balance, script_balance. rewrite (E 0%nat), (E 1%nat).
    rewrite (balance_rows_ext rd1 rd2 _ _ _ _ E).
    destruct (balance_rows rd2 _ m _ _ 2 bal0) as [k b]. rewrite (E k). reflexivity.
  - unfold script_balance. rewrite (E 0%nat), (E 1%nat). rewrite (balance_rows_ext rd1 rd2 _ _ _ _ E). reflexivity.
  - unfold utxo_list. rewrite (E 0%nat), (E 1%nat). rewrite (unspent_list_ext rd1 rd2 _ _ _ E). reflexivity.
  - unfold spendable_coins, utxo_list. rewrite (E 0%nat), (E 1%nat). rewrite (unspent_list_ext rd1 rd2 _ _ _ E). reflexivity.
Qed.

(* repaired semantics (one snapshot per read transaction): the answer is the answer as of the
   block boundary at which the query's read transaction began, whatever is committed afterwards *)
Lemma single_boundary_snapshot ord ss sc q :
  answer ord true ss sc q = answer_at ord ss (idx sc 0) q /\
  nreads ord true ss sc q = fst (run_query ord (fun _ => store_at ss (idx sc 0)) q).
Proof.
  unfold answer, answer_at, nreads.
  rewrite (run_query_ext ord (serving true ss sc) (fun _ => store_at ss (idx sc 0)) q); [split; reflexivity|].
  intros k. apply serving_snap.
Qed.

(* the same holds without snapshots when nothing is committed while the query runs *)
Lemma single_boundary_quiet ord ss j q : answer ord false ss [j] q = answer_at ord ss j q.
Proof.
  unfold answer, answer_at. f_equal. apply run_query_ext. intros k. unfold serving. rewrite idx_single. reflexivity.
Qed.

(* ---------------------------------------------------------------- no wrap at a single boundary *)

Lemma in_insert_row ord r x l : In x (insert_row ord r l) <-> x = r \/ In x l.
Proof.
  induction l as [|y l IH]; cbn.
  - split; [intros [H|[]]; auto | intros [H|[]]; auto].
  - destruct (row_leb ord r y); cbn.
    + split; [intros [H|[H|H]]; auto | intros [H|[H|H]]; auto].
    + rewrite IH. split; [intros [H|[H|H]]; auto | intros [H|[H|H]]; auto].
Qed.

Lemma in_sort_rows ord x l : In x (sort_rows ord l) <-> In x l.
Proof.
  induction l as [|y l IH]; cbn; [tauto|]. rewrite in_insert_row, IH. split; intros [H|H]; auto.
Qed.

Lemma unspent_rows_height ord st w r :
  In r (unspent_rows ord st w) -> exists c, In c (credits st) /\ r_height r = c_height c.
Proof.
  unfold unspent_rows. rewrite in_sort_rows, in_map_iff. intros (c & <- & Hc).
  unfold wallet_unspent in Hc. apply filter_In in Hc. destruct Hc as [Hc _]. exists c. split; [assumption|reflexivity].
Qed.

Lemma find_credit_in st r c : find_credit st r = Some c -> In c (credits st).
Proof. unfold find_credit. intros H. apply find_some in H. tauto. Qed.

Lemma unspent_list_in rd sel h rows : forall k x,
  In x (snd (unspent_list rd sel h rows k)) ->
  exists r c kk, In r rows /\ find_credit (rd kk) r = Some c /\
                 cr_height x = r_height r /\ cr_maturity x = c_maturity c /\
                 cr_confs x = u32 (u64 (h - r_height r + 1)).
Proof.
  induction rows as [|r rows IH]; intros k x H; cbn [unspent_list] in H; [destruct H|].
  destruct (find_credit (rd k) r) as [c|] eqn:Ef.
  - destruct ((c_amount c =? 0) || negb (sel (c_sh c))).
    + destruct (IH _ _ H) as (r' & c' & kk & A & B). exists r', c', kk. split; [right; exact A|exact B].
    + destruct (unspent_list rd sel h rows (S (S k))) as [k' l] eqn:El. cbn [snd] in H. destruct H as [H|H].
      * subst x. exists r, c, k. cbn. repeat split; auto.
      * assert (H' : In x (snd (unspent_list rd sel h rows (S (S k))))) by (rewrite El; exact H).
        destruct (IH _ _ H') as (r' & c' & kk & A & B). exists r', c', kk. split; [right; exact A|exact B].
  - destruct (IH _ _ H) as (r' & c' & kk & A & B). exists r', c', kk. split; [right; exact A|exact B].
Qed.

(* heights_ok, boolean-free: every credit at or below the tip, tip and maturities in uint32 *)
Lemma confs_no_wrap st hr :
  0 <= fst (tip st) < two32 - 1 -> 0 <= hr <= fst (tip st) ->
  u32 (u64 (fst (tip st) - hr + 1)) = fst (tip st) - hr + 1.
Proof.
  intros Ht Hr. unfold u32, u64, two32, two64 in *.
  rewrite (Z.mod_small (fst (tip st) - hr + 1) 18446744073709551616) by lia. apply Z.mod_small. lia.
Qed.

(* at one block boundary the transaction-building selection never offers an immature or
   still-locked coin *)
Lemma spendable_mature_at_boundary ord ss j w l c :
  heights_ok (store_at ss j) ->
  answer_at ord ss j (QSpendable w) = ACoins l -> In c l -> immature_at (store_at ss j) c = false.
Proof.
  intros [Ht Hc] Ha Hin. unfold answer_at in Ha. cbn [run_query] in Ha.
  unfold spendable_coins, utxo_list in Ha.
  set (st := store_at ss j) in *.
  destruct (unspent_list (fun _ => st) (fun _ => true) (fst (tip st)) (unspent_rows ord st w) 2) as [k l0] eqn:El.
  cbn in Ha. inversion Ha; subst l; clear Ha.
  apply filter_In in Hin. destruct Hin as [Hin Hel]. apply filter_In in Hin. destruct Hin as [Hin _].
  assert (Hin' : In c (snd (unspent_list (fun _ => st) (fun _ => true) (fst (tip st)) (unspent_rows ord st w) 2)))
    by (rewrite El; exact Hin).
  destruct (unspent_list_in _ _ _ _ _ _ Hin') as (r & cc & kk & Hr & Hf & Hh & Hm & Hcf).
  destruct (unspent_rows_height _ _ _ _ Hr) as (c0 & Hc0 & Hh0).
  destruct (Hc c0 Hc0) as [Hb0 _].
  unfold immature_at. rewrite Hh. unfold eligible in Hel. apply andb_true_iff in Hel. destruct Hel as [Hel _].
  apply Z.leb_le in Hel. rewrite Hcf in Hel. rewrite confs_no_wrap in Hel by (rewrite ?Hh0; lia).
  apply Z.ltb_ge. exact Hel.
Qed.

(* ---------------------------------------------------------------- code as found: refutation *)

Definition idN : N -> N := fun x => x.
Definition w_params := {| p_cbmat := 4; p_bindlock := 4294967294 |}.
Definition w_own : owner_fn := fun sh => if (sh =? 1)%N then Some 1%N else None.
Definition w_cb (id : N) (outs : list txout) : tx := {| t_id := id; t_cb := true; t_ins := []; t_outs := outs |}.
Definition w_blk (id prev : N) (h : Z) (txs : list tx) : block := {| b_id := id; b_prev := prev; b_height := h; b_txs := txs |}.
Definition w_pay (v : Z) : txout := {| o_sh := 1; o_val := v; o_class := CStd |}.

(* witness 1 (two commits, confs wraps): the wallet is synced to height 1; blocks 2 and 3 are
   committed after the query read the height and before it created its iterator; block 3's
   coinbase pays the wallet *)
Definition w1_node : node :=
  [w_blk 100 0 0 []; w_blk 101 100 1 [w_cb 1 []]; w_blk 102 101 2 [w_cb 2 []]; w_blk 103 102 3 [w_cb 3 [w_pay 420000000]]].
Definition w1_st : wstate := process_or_keep w_params true w_own w1_node (init_state 100) (w_blk 101 100 1 [w_cb 1 []]).
Definition w1_ss : list wstate :=
  stores_of w_params w_own w1_node w1_st [w_blk 102 101 2 [w_cb 2 []]; w_blk 103 102 3 [w_cb 3 [w_pay 420000000]]].
Definition w1_sc : list nat := [0; 0; 2]%nat.

Lemma refuted_wrap :
  monotone w1_sc = true /\ length w1_ss = 3%nat /\
  (forall j, (j < 3)%nat -> answer idN false w1_ss w1_sc (QSpendable 1) <> answer_at idN w1_ss j (QSpendable 1)) /\
  (forall j, (j < 3)%nat -> answer idN false w1_ss w1_sc (QAddressBalance 1 [1%N] 1) <> answer_at idN w1_ss j (QAddressBalance 1 [1%N] 1)) /\
  exists c, answer idN false w1_ss w1_sc (QSpendable 1) = ACoins [c] /\
            cr_maturity c = 4 /\ cr_confs c = 4294967295 /\ eligible c = true /\
            forall j, (j < 3)%nat -> immature_at (store_at w1_ss j) c = true.
Proof.
  split; [reflexivity|]. split; [vm_compute; reflexivity|].
  split; [|split].
  - intros j Hj. destruct j as [|[|[|j]]]; try lia; vm_compute; discriminate.
  - intros j Hj. destruct j as [|[|[|j]]]; try lia; vm_compute; discriminate.
  - eexists. split; [vm_compute; reflexivity|]. cbn [cr_maturity cr_confs].
    split; [reflexivity|]. split; [reflexivity|]. split; [vm_compute; reflexivity|].
    intros j Hj. destruct j as [|[|[|j]]]; try lia; vm_compute; reflexivity.
Qed.

(* witness 2 (one commit, no wrap needed): the wallet holds a mature coin of 5; block 7 spends it
   and pays 4 back; the height is read before the commit, the iterator is created after it:
   with minconf 1 the total is 0 — neither 5 (before) nor 4 (after) *)
Definition w2_spend : tx := {| t_id := 20; t_cb := false; t_ins := [(1%N, 0%N)]; t_outs := [w_pay 4] |}.
Definition w2_chain : list block :=
  [w_blk 101 100 1 [w_cb 1 [w_pay 5]]; w_blk 102 101 2 [w_cb 2 []]; w_blk 103 102 3 [w_cb 3 []];
   w_blk 104 103 4 [w_cb 4 []]; w_blk 105 104 5 [w_cb 5 []]; w_blk 106 105 6 [w_cb 6 []]].
Definition w2_b7 : block := w_blk 107 106 7 [w_cb 7 []; w2_spend].
Definition w2_node : node := w_blk 100 0 0 [] :: w2_chain ++ [w2_b7].
Definition w2_st : wstate := fold_left (process_or_keep w_params true w_own w2_node) w2_chain (init_state 100).
Definition w2_ss : list wstate := stores_of w_params w_own w2_node w2_st [w2_b7].
Definition w2_sc : list nat := [0; 0; 1]%nat.

Lemma refuted_stale :
  monotone w2_sc = true /\ length w2_ss = 2%nat /\
  answer idN false w2_ss w2_sc (QAddressBalance 1 [1%N] 1) = ABal {| b_total := 0; b_spend := 0; b_wstake := 0; b_wbind := 0 |} /\
  answer_at idN w2_ss 0 (QAddressBalance 1 [1%N] 1) = ABal {| b_total := 5; b_spend := 5; b_wstake := 0; b_wbind := 0 |} /\
  answer_at idN w2_ss 1 (QAddressBalance 1 [1%N] 1) = ABal {| b_total := 4; b_spend := 4; b_wstake := 0; b_wbind := 0 |}.
Proof. repeat split; vm_compute; reflexivity. Qed.

(* the statement of the property for the code as found, refuted: a schedule and a query whose
   answer is the answer of no block boundary between its start and its end, and which offers an
   immature coinbase for spending *)
Lemma single_boundary_refuted :
  exists (ord : N -> N) (ss : list wstate) (sc : list nat) (q : query),
    monotone sc = true /\
    (forall j, (j < length ss)%nat -> answer ord false ss sc q <> answer_at ord ss j q) /\
    exists c l, answer ord false ss sc q = ACoins l /\ In c l /\ eligible c = true /\
                forall j, (j < length ss)%nat -> immature_at (store_at ss j) c = true.
Proof.
  destruct refuted_wrap as (Hm & Hl & Hne & _ & c & Ha & _ & _ & He & Hi).
  exists idN, w1_ss, w1_sc, (QSpendable 1). rewrite Hl. split; [exact Hm|]. split; [exact Hne|].
  exists c, [c]. split; [exact Ha|]. split; [left; reflexivity|]. split; [exact He|exact Hi].
Qed.

(* the witness stores satisfy the hypothesis of spendable_mature_at_boundary (non-vacuity) *)
Lemma w1_heights_ok : forall j, (j < 3)%nat -> heights_ok (store_at w1_ss j).
Proof.
  intros j Hj. destruct j as [|[|[|j]]]; try lia; unfold heights_ok.
  all: match goal with
       | |- context [store_at w1_ss ?k] =>
           let v := eval vm_compute in (store_at w1_ss k) in change (store_at w1_ss k) with v
       end; cbn [tip synced hd fst credits]; unfold two32.
  - split; [lia|]. intros c [].
  - split; [lia|]. intros c [].
  - split; [lia|]. intros c [<-|[]]. cbn [c_height c_maturity]. lia.
Qed.
