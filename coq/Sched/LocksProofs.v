(* Sched/LocksProofs.v — the lock discipline holds of the generated table (C17, data-race half). *)
From Coq Require Import List String Bool.
Import ListNotations.
Open Scope string_scope.
Require Import MW.Gen.Locks MW.Sched.Locks.

Lemma vw_eqb_eq p q : vw_eqb p q = true -> p = q.
Proof.
  destruct p as [a b], q as [c d]. unfold vw_eqb. cbn. intros H.
  apply andb_true_iff in H. destruct H as [H1 H2].
  apply String.eqb_eq in H1. apply String.eqb_eq in H2. subst. reflexivity.
Qed.

Lemma existsb_vw p l : existsb (vw_eqb p) l = true -> In p l.
Proof.
  intros H. apply existsb_exists in H. destruct H as (q & Hq & He). apply vw_eqb_eq in He. subst. assumption.
Qed.

(* soundness of the boolean check: it decides the discipline for every pair of the table *)
Lemma discipline_sound t allowed :
  discipline_check t allowed = true ->
  forall a1 a2, In a1 t -> In a2 t -> conflicting a1 a2 = true ->
    protected a1 a2 = true \/
    (a_write a1 = true /\ In (a_var a1, a_site a1) allowed) \/
    (a_write a2 = true /\ In (a_var a2, a_site a2) allowed).
Proof.
  unfold discipline_check. intros H a1 a2 H1 H2 Hc.
  rewrite forallb_forall in H. specialize (H a1 H1). rewrite forallb_forall in H. specialize (H a2 H2).
  unfold discipline_ok in H. rewrite Hc in H.
  destruct (protected a1 a2); [left; reflexivity|].
  destruct (a_write a1) eqn:W1.
  - destruct (existsb (vw_eqb (a_var a1, a_site a1)) allowed) eqn:E1.
    + right. left. split; [reflexivity|apply existsb_vw; exact E1].
    + destruct (a_write a2) eqn:W2; [|discriminate].
      right. right. split; [reflexivity|apply existsb_vw; exact H].
  - destruct (a_write a2) eqn:W2; [|discriminate].
    right. right. split; [reflexivity|apply existsb_vw; exact H].
Qed.

Lemma refuted_sound t allowed :
  refuted_check t allowed = true ->
  forall vw, In vw allowed ->
    exists a1 a2, In a1 t /\ In a2 t /\ a_write a1 = true /\ (a_var a1, a_site a1) = vw /\
                  conflicting a1 a2 = true /\ protected a1 a2 = false.
Proof.
  unfold refuted_check. intros H vw Hin. rewrite forallb_forall in H. specialize (H vw Hin).
  apply existsb_exists in H. destruct H as (a1 & H1 & H).
  destruct (a_write a1) eqn:Hw; [|discriminate].
  destruct (vw_eqb (a_var a1, a_site a1) vw) eqn:Hv; [|discriminate].
  apply existsb_exists in H. destruct H as (a2 & H2 & Hc).
  destruct (conflicting a1 a2) eqn:Hcf; [|discriminate]. apply negb_true_iff in Hc.
  exists a1, a2. repeat split; try assumption. apply vw_eqb_eq. exact Hv.
Qed.

(* the writers of unprotected conflicting pairs of the table as generated from the tree as it
   stands — computed, not pinned, so that a repair in /repo (or a new unprotected access) changes
   the list and never invalidates the theorems; the check reports each culprit as a finding
   race:<function> and prints the list in its evidence *)
Definition unprotected_pinned : list (string * string) := unprotected_writers lock_table.

Lemma table_discipline : discipline_check lock_table unprotected_pinned = true.
Proof. vm_compute. reflexivity. Qed.

Lemma table_refuted : refuted_check lock_table unprotected_pinned = true.
Proof. vm_compute. reflexivity. Qed.

Lemma lock_discipline :
  forall a1 a2, In a1 lock_table -> In a2 lock_table -> conflicting a1 a2 = true ->
    by_mutex a1 a2 = true \/ ordered_by_handshake a1 a2 = true \/
    (a_write a1 = true /\ In (a_var a1, a_site a1) unprotected_pinned) \/
    (a_write a2 = true /\ In (a_var a2, a_site a2) unprotected_pinned).
Proof.
  intros a1 a2 H1 H2 Hc.
  destruct (discipline_sound _ _ table_discipline a1 a2 H1 H2 Hc) as [H|[H|H]].
  - unfold protected in H. apply orb_true_iff in H. destruct H; auto.
  - right. right. left. exact H.
  - right. right. right. exact H.
Qed.

Lemma lock_discipline_refuted :
  forall vw, In vw unprotected_pinned ->
    exists a1 a2, In a1 lock_table /\ In a2 lock_table /\ a_write a1 = true /\ (a_var a1, a_site a1) = vw /\
                  conflicting a1 a2 = true /\ protected a1 a2 = false.
Proof. exact (refuted_sound _ _ table_refuted). Qed.

(* ---------------------------------------------------------------- the code as found *)

(* four rows of the table translate/locks produced before commit c8404ce (the rest of that table is
   the present one): UpdateManagedKeystores touched the keystore cache without km.mu, and
   updateManagedAddress wrote the address table without a.mu *)
Definition found_excerpt : list access := [
  ("KeystoreManager.managedKeystores", "KeystoreManager.updateManagedKeystore", true, "K", []);
  ("KeystoreManager.managedKeystores", "KeystoreManager.ListKeystoreNames", false, "H",
     [("KeystoreManager.mu", true); ("handshake", true)]);
  ("AddrManager.addrs", "AddrManager.updateManagedAddress", true, "A",
     [("KeystoreManager.mu", true); ("WalletManager.mu", true)]);
  ("AddrManager.addrs", "AddrManager.Address", false, "K", [("AddrManager.mu", true); ("handshake", true)])
].

Lemma found_refuted :
  unprotected_writers found_excerpt =
    [("KeystoreManager.managedKeystores", "KeystoreManager.updateManagedKeystore");
     ("AddrManager.addrs", "AddrManager.updateManagedAddress")].
Proof. vm_compute. reflexivity. Qed.
