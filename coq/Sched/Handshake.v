(* Sched/Handshake.v — the goroutines of masswallet/ntfnshandler.go as a labelled transition
   system (DESIGN.md appendix B).  Definitions only.

   Threads
     H  handle(h)      : for { select { <-quit | <-sigSuspend ; <-sigResume | <-queueBlock ; process } }
     K  worker(h)      : start-up view creating taskChan, then
                         for { select { <-quit | task := <-taskChan.C ; asyncImport / asyncRemove } }
     S  Stop()         : close(quit); quitWg.Wait(); CloseDB()
     A  one API client : ImportWallet* / RemoveWallet = IsWorkerBusy() check, database update, push
     E  the node       : OnBlockConnected (blocks while queueBlock is full)
   Every blocking operation is a program counter of its own, so that "blocked for ever" is a
   property of a state.  A rendezvous on an unbuffered channel is ONE joint step, enabled only
   when sender and receiver are both at the matching program counters.  A `select` with several
   ready branches has one step per branch (Go picks at random: nondeterminism).
   `select { case <-quit: … default: … }` (asyncRemove's loop head) is deterministic: the quit
   branch is taken iff quit is closed.

   Work is abstracted to counters: an import task carries the number of 1000-block batches still
   to do, a removal the number of phase-2 rounds (20000 credits each) still to do; [t_more] = that
   number minus one.  What a batch writes is the subject of C07/C08, not of C20.
   The environment is a finite budget inside the state (blocks still to be announced, API
   requests still to be made, whether Stop will be called): every behaviour of the system under
   every finite environment is a path of [step].

   Two switches select between the code as found and the repaired code (commits 423c8aa, 42cbcc9):
   [f1fix]  suspend() also selects on quit and its callers give up (asyncImport / asyncRemove
            return ErrTaskAbort, the worker does not re-queue);
   [nilfix] the task queue is created and the unfinished tasks are re-queued by Start() before
            the goroutines exist (initTaskChan), not by the worker goroutine itself. *)
From Coq Require Import List Arith Bool.
Import ListNotations.

Inductive kind := Imp | Rem.
Record task := { t_kind : kind; t_more : nat }.

(* which hand-shake bracket the worker is in *)
Inductive phase := PImp | PRem1 | PRem2.
(* about to send sigSuspend | between the hand-shakes, update not yet committed | committed,
   about to send sigResume *)
Inductive stage := Ssusp | Supd | Sres.

Inductive hpc_t := Hsel | Hblk | Hwait | Hdone.
Inductive kpc_t :=
| Kinit                                   (* before `h.taskChan = NewWalletTaskChan(..)` *)
| Ksel                                    (* the worker's select *)
| Kat (p : phase) (st : stage) (n : nat)  (* inside asyncImport / asyncRemove, n = t_more *)
| Kpush (n : nat)                         (* import batch done, not finished: PushImport next *)
| Kchk (n : nat)                          (* asyncRemove loop head: select { <-quit | default } *)
| Kdone.
Inductive spc_t := Sidle | Swait | Sdb | Sdone.
Inductive apc_t := Aidle | Apush (t : task).

(* ghost counters: they do not influence any guard *)
Record ghost := { n_ann : nat; n_proc : nat; n_acc : nat; n_fin : nat; n_abort : nat; n_drop : nat }.

Record state := {
  hpc : hpc_t; kpc : kpc_t; spc : spc_t; apc : apc_t;
  qb : nat;                 (* len(queueBlock) *)
  tasks : list task;        (* content of taskChan.C, head = next received *)
  e_blocks : nat;           (* announcements the node will still make *)
  e_tasks : list task;      (* API requests still to come, in order *)
  e_stop : bool;            (* Stop() will be called *)
  restart : list task;      (* tasks the worker queues at start-up (unfinished imports/removals) *)
  panicked : bool;          (* an API call dereferenced the nil taskChan *)
  gh : ghost
}.

Record cfg := { f1fix : bool; nilfix : bool; qcap : nat; cap : nat }.   (* 1024; max (MaxWaitingTaskNum+1) #wallets *)
Definition busy_threshold := 3.                         (* MaxWaitingTaskNum *)

Inductive label :=
| La                  (* OnBlockConnected returned: block queued *)
| Lpush (k : kind)    (* ImportWallet* / RemoveWallet returned: task pushed (or dropped: channel full) *)
| Ltb                 (* API request refused: ErrTooManyTask *)
| Ltp                 (* API request panicked on the nil taskChan *)
| Lte                 (* API request failed: the database is closed *)
| Lhb                 (* handler took a block and begins its database transaction *)
| Lhc                 (* handler's transaction ended *)
| Lkb                 (* sigSuspend rendezvous; worker begins its database transaction *)
| Lkc                 (* worker's transaction ended *)
| Ls                  (* Stop called: quit closed *)
| Lz                  (* database closed, Stop returns *)
| Tachk | Thquit | Tkinit | Tkquit | Tktake | Tkabort | Tkres | Tkpush | Tkchk | Tswait.

Definition observable (l : label) : bool :=
  match l with
  | La | Lpush _ | Ltb | Ltp | Lte | Lhb | Lhc | Lkb | Lkc | Ls | Lz => true
  | _ => false
  end.

Definition quit (s : state) : bool := match spc s with Sidle => false | _ => true end.

(* ---------------------------------------------------------------- field updates *)

Definition set_h (s : state) (h : hpc_t) : state :=
  {| hpc := h; kpc := kpc s; spc := spc s; apc := apc s; qb := qb s; tasks := tasks s;
     e_blocks := e_blocks s; e_tasks := e_tasks s; e_stop := e_stop s; restart := restart s;
     panicked := panicked s; gh := gh s |}.
Definition set_k (s : state) (k : kpc_t) : state :=
  {| hpc := hpc s; kpc := k; spc := spc s; apc := apc s; qb := qb s; tasks := tasks s;
     e_blocks := e_blocks s; e_tasks := e_tasks s; e_stop := e_stop s; restart := restart s;
     panicked := panicked s; gh := gh s |}.
Definition set_s (s : state) (p : spc_t) : state :=
  {| hpc := hpc s; kpc := kpc s; spc := p; apc := apc s; qb := qb s; tasks := tasks s;
     e_blocks := e_blocks s; e_tasks := e_tasks s; e_stop := e_stop s; restart := restart s;
     panicked := panicked s; gh := gh s |}.
Definition set_a (s : state) (a : apc_t) : state :=
  {| hpc := hpc s; kpc := kpc s; spc := spc s; apc := a; qb := qb s; tasks := tasks s;
     e_blocks := e_blocks s; e_tasks := e_tasks s; e_stop := e_stop s; restart := restart s;
     panicked := panicked s; gh := gh s |}.
Definition set_qb (s : state) (n : nat) : state :=
  {| hpc := hpc s; kpc := kpc s; spc := spc s; apc := apc s; qb := n; tasks := tasks s;
     e_blocks := e_blocks s; e_tasks := e_tasks s; e_stop := e_stop s; restart := restart s;
     panicked := panicked s; gh := gh s |}.
Definition set_tasks (s : state) (l : list task) : state :=
  {| hpc := hpc s; kpc := kpc s; spc := spc s; apc := apc s; qb := qb s; tasks := l;
     e_blocks := e_blocks s; e_tasks := e_tasks s; e_stop := e_stop s; restart := restart s;
     panicked := panicked s; gh := gh s |}.
Definition set_eblocks (s : state) (n : nat) : state :=
  {| hpc := hpc s; kpc := kpc s; spc := spc s; apc := apc s; qb := qb s; tasks := tasks s;
     e_blocks := n; e_tasks := e_tasks s; e_stop := e_stop s; restart := restart s;
     panicked := panicked s; gh := gh s |}.
Definition set_etasks (s : state) (l : list task) : state :=
  {| hpc := hpc s; kpc := kpc s; spc := spc s; apc := apc s; qb := qb s; tasks := tasks s;
     e_blocks := e_blocks s; e_tasks := l; e_stop := e_stop s; restart := restart s;
     panicked := panicked s; gh := gh s |}.
Definition set_estop (s : state) (b : bool) : state :=
  {| hpc := hpc s; kpc := kpc s; spc := spc s; apc := apc s; qb := qb s; tasks := tasks s;
     e_blocks := e_blocks s; e_tasks := e_tasks s; e_stop := b; restart := restart s;
     panicked := panicked s; gh := gh s |}.
Definition set_restart (s : state) (l : list task) : state :=
  {| hpc := hpc s; kpc := kpc s; spc := spc s; apc := apc s; qb := qb s; tasks := tasks s;
     e_blocks := e_blocks s; e_tasks := e_tasks s; e_stop := e_stop s; restart := l;
     panicked := panicked s; gh := gh s |}.
Definition set_panicked (s : state) : state :=
  {| hpc := hpc s; kpc := kpc s; spc := spc s; apc := apc s; qb := qb s; tasks := tasks s;
     e_blocks := e_blocks s; e_tasks := e_tasks s; e_stop := e_stop s; restart := restart s;
     panicked := true; gh := gh s |}.
Definition set_gh (s : state) (g : ghost) : state :=
  {| hpc := hpc s; kpc := kpc s; spc := spc s; apc := apc s; qb := qb s; tasks := tasks s;
     e_blocks := e_blocks s; e_tasks := e_tasks s; e_stop := e_stop s; restart := restart s;
     panicked := panicked s; gh := g |}.

Definition g_ann (g : ghost) := {| n_ann := S (n_ann g); n_proc := n_proc g; n_acc := n_acc g; n_fin := n_fin g; n_abort := n_abort g; n_drop := n_drop g |}.
Definition g_proc (g : ghost) := {| n_ann := n_ann g; n_proc := S (n_proc g); n_acc := n_acc g; n_fin := n_fin g; n_abort := n_abort g; n_drop := n_drop g |}.
Definition g_acc (k : nat) (g : ghost) := {| n_ann := n_ann g; n_proc := n_proc g; n_acc := k + n_acc g; n_fin := n_fin g; n_abort := n_abort g; n_drop := n_drop g |}.
Definition g_fin (g : ghost) := {| n_ann := n_ann g; n_proc := n_proc g; n_acc := n_acc g; n_fin := S (n_fin g); n_abort := n_abort g; n_drop := n_drop g |}.
Definition g_abort (g : ghost) := {| n_ann := n_ann g; n_proc := n_proc g; n_acc := n_acc g; n_fin := n_fin g; n_abort := S (n_abort g); n_drop := n_drop g |}.
Definition g_drop (k : nat) (g : ghost) := {| n_ann := n_ann g; n_proc := n_proc g; n_acc := n_acc g; n_fin := n_fin g; n_abort := n_abort g; n_drop := k + n_drop g |}.

(* non-blocking push (WalletTaskChan.PushImport / PushRemove): dropped when the channel is full.
   The task counts as accepted either way (the API answers success); a drop is counted. *)
Definition push_task (c : cfg) (s : state) (t : task) : state :=
  if length (tasks s) <? cap c
  then set_gh (set_tasks s (tasks s ++ [t])) (g_acc 1 (gh s))
  else set_gh s (g_drop 1 (g_acc 1 (gh s))).
(* re-push of an unfinished import by the worker: the task was accepted before *)
Definition repush_task (c : cfg) (s : state) (t : task) : state :=
  if length (tasks s) <? cap c
  then set_tasks s (tasks s ++ [t])
  else set_gh s (g_drop 1 (gh s)).

(* ---------------------------------------------------------------- transitions *)

(* E: OnBlockConnected — `h.queueBlock <- newBlock` (blocks while full; the listener is
   unregistered first thing in WalletManager.Stop) *)
Definition t_ann (c : cfg) (s : state) : option state :=
  match spc s, e_blocks s with
  | Sidle, S n => if qb s <? qcap c
                  then Some (set_gh (set_qb (set_eblocks s n) (S (qb s))) (g_ann (gh s)))
                  else None
  | _, _ => None
  end.

(* A: `if w.ntfnsHandler.IsWorkerBusy()` = h.taskChan.IsBusy() = len(c.C) >= MaxWaitingTaskNum;
   h.taskChan is nil until the worker goroutine has assigned it *)
Definition t_achk_panic (c : cfg) (s : state) : option state :=
  match spc s, apc s, e_tasks s, kpc s with
  | Sdone, _, _, _ => None
  | _, Aidle, _ :: rest, Kinit => Some (set_panicked (set_etasks s rest))
  | _, _, _, _ => None
  end.
Definition t_achk_busy (c : cfg) (s : state) : option state :=
  match spc s, apc s, e_tasks s, kpc s with
  | Sdone, _, _, _ => None
  | _, Aidle, _ :: _, Kinit => None
  | _, Aidle, _ :: rest, _ => if busy_threshold <=? length (tasks s) then Some (set_etasks s rest) else None
  | _, _, _, _ => None
  end.
Definition t_achk_ok (c : cfg) (s : state) : option state :=
  match spc s, apc s, e_tasks s, kpc s with
  | Sdone, _, _, _ => None
  | _, Aidle, _ :: _, Kinit => None
  | _, Aidle, t :: rest, _ => if busy_threshold <=? length (tasks s) then None else Some (set_a (set_etasks s rest) (Apush t))
  | _, _, _, _ => None
  end.
Definition t_apush (c : cfg) (s : state) : option (kind * state) :=
  match spc s, apc s with
  | Sdone, _ => None
  | _, Apush t => Some (t_kind t, push_task c (set_a s Aidle) t)
  | _, Aidle => None
  end.
(* once Stop has closed the database every request fails (mwdb.Update returns an error) *)
Definition t_afail (c : cfg) (s : state) : option state :=
  match spc s, apc s, e_tasks s with
  | Sdone, Apush _, _ => Some (set_a s Aidle)
  | Sdone, Aidle, _ :: rest => Some (set_etasks s rest)
  | _, _, _ => None
  end.

(* H *)
Definition t_hquit (c : cfg) (s : state) : option state :=
  match hpc s with Hsel => if quit s then Some (set_h s Hdone) else None | _ => None end.
Definition t_hb (c : cfg) (s : state) : option state :=
  match hpc s, qb s with Hsel, S n => Some (set_h (set_qb s n) Hblk) | _, _ => None end.
Definition t_hc (c : cfg) (s : state) : option state :=
  match hpc s with Hblk => Some (set_gh (set_h s Hsel) (g_proc (gh s))) | _ => None end.

(* K *)
Definition t_kinit (c : cfg) (s : state) : option state :=
  match kpc s with
  | Kinit => Some (set_gh (set_restart (set_tasks (set_k s Ksel) (restart s)) [])
                          (g_drop (length (tasks s)) (g_acc (length (restart s)) (gh s))))
  | _ => None
  end.
Definition t_kquit (c : cfg) (s : state) : option state :=
  match kpc s with Ksel => if quit s then Some (set_k s Kdone) else None | _ => None end.
Definition t_ktake (c : cfg) (s : state) : option state :=
  match kpc s, tasks s with
  | Ksel, t :: rest =>
      Some (set_k (set_tasks s rest)
                  (Kat (match t_kind t with Imp => PImp | Rem => PRem1 end) Ssusp (t_more t)))
  | _, _ => None
  end.
(* repaired protocol only: suspend() gives up when quit is closed *)
Definition t_kabort (c : cfg) (s : state) : option state :=
  match kpc s with
  | Kat _ Ssusp _ => if f1fix c && quit s then Some (set_gh (set_k s Ksel) (g_abort (gh s))) else None
  | _ => None
  end.
(* the database update between the two hand-shakes *)
Definition t_kupd (c : cfg) (s : state) : option state :=
  match kpc s with Kat p Supd n => Some (set_k s (Kat p Sres n)) | _ => None end.
Definition t_kpush (c : cfg) (s : state) : option state :=
  match kpc s with
  | Kpush n => Some (repush_task c (set_k s Ksel) {| t_kind := Imp; t_more := n |})
  | _ => None
  end.
Definition t_kchk (c : cfg) (s : state) : option state :=
  match kpc s with
  | Kchk n => if quit s then Some (set_gh (set_k s Ksel) (g_abort (gh s)))
              else Some (set_k s (Kat PRem2 Ssusp n))
  | _ => None
  end.

(* joint steps: the two rendezvous *)
Definition t_jsusp (c : cfg) (s : state) : option state :=
  match hpc s, kpc s with
  | Hsel, Kat p Ssusp n => Some (set_h (set_k s (Kat p Supd n)) Hwait)
  | _, _ => None
  end.
(* where the worker goes after `resume`: finished / next batch / next round *)
Definition after_res (p : phase) (n : nat) : kpc_t * bool :=
  match p, n with
  | PImp, O => (Ksel, true)
  | PImp, S m => (Kpush m, false)
  | PRem1, _ => (Kchk n, false)
  | PRem2, O => (Ksel, true)
  | PRem2, S m => (Kchk m, false)
  end.
Definition t_jres (c : cfg) (s : state) : option state :=
  match hpc s, kpc s with
  | Hwait, Kat p Sres n =>
      let '(k, fin) := after_res p n in
      let s1 := set_h (set_k s k) Hsel in
      Some (if fin then set_gh s1 (g_fin (gh s)) else s1)
  | _, _ => None
  end.

(* S *)
Definition t_sclose (c : cfg) (s : state) : option state :=
  match spc s with Sidle => if e_stop s then Some (set_estop (set_s s Swait) false) else None | _ => None end.
Definition t_swait (c : cfg) (s : state) : option state :=
  match spc s, hpc s, kpc s with Swait, Hdone, Kdone => Some (set_s s Sdb) | _, _, _ => None end.
Definition t_sdb (c : cfg) (s : state) : option state :=
  match spc s with Sdb => Some (set_s s Sdone) | _ => None end.

Definition opt1 (l : label) (o : option state) : list (label * state) :=
  match o with Some s => [(l, s)] | None => [] end.

Definition step_l (c : cfg) (s : state) : list (label * state) :=
  opt1 La (t_ann c s) ++ opt1 Ltp (t_achk_panic c s) ++ opt1 Ltb (t_achk_busy c s) ++
  opt1 Tachk (t_achk_ok c s) ++ opt1 Lte (t_afail c s) ++
  (match t_apush c s with Some (k, s') => [(Lpush k, s')] | None => [] end) ++
  opt1 Thquit (t_hquit c s) ++ opt1 Lhb (t_hb c s) ++ opt1 Lhc (t_hc c s) ++
  opt1 Tkinit (t_kinit c s) ++ opt1 Tkquit (t_kquit c s) ++ opt1 Tktake (t_ktake c s) ++
  opt1 Tkabort (t_kabort c s) ++ opt1 Lkc (t_kupd c s) ++ opt1 Tkpush (t_kpush c s) ++
  opt1 Tkchk (t_kchk c s) ++ opt1 Lkb (t_jsusp c s) ++ opt1 Tkres (t_jres c s) ++
  opt1 Ls (t_sclose c s) ++ opt1 Tswait (t_swait c s) ++ opt1 Lz (t_sdb c s).

Definition step (c : cfg) (s : state) : list state := map snd (step_l c s).

(* ---------------------------------------------------------------- initial states, reachability *)

Definition ghost0 := {| n_ann := 0; n_proc := 0; n_acc := 0; n_fin := 0; n_abort := 0; n_drop := 0 |}.

(* the state in which Start() returns.  Code as found: the worker goroutine has not yet created
   the task queue.  Repaired: Start() did it (initTaskChan) before `go worker(h)`. *)
Definition init_state (nfix : bool) (blocks : nat) (reqs rst : list task) (stop : bool) : state :=
  if nfix then
    {| hpc := Hsel; kpc := Ksel; spc := Sidle; apc := Aidle; qb := 0; tasks := rst;
       e_blocks := blocks; e_tasks := reqs; e_stop := stop; restart := []; panicked := false;
       gh := g_acc (length rst) ghost0 |}
  else
    {| hpc := Hsel; kpc := Kinit; spc := Sidle; apc := Aidle; qb := 0; tasks := [];
       e_blocks := blocks; e_tasks := reqs; e_stop := stop; restart := rst; panicked := false; gh := ghost0 |}.

(* NewWalletTaskChan(len(wss)): capacity max (MaxWaitingTaskNum+1) (number of wallets) *)
Definition cfg_ok (c : cfg) : Prop := busy_threshold + 1 <= cap c /\ 1 <= qcap c.

Definition initial (c : cfg) (s : state) : Prop :=
  exists blocks reqs rst stop, s = init_state (nilfix c) blocks reqs rst stop /\ length rst <= cap c.

Inductive reachable (c : cfg) : state -> Prop :=
| reach_init : forall s, initial c s -> reachable c s
| reach_step : forall s s', reachable c s -> In s' (step c s) -> reachable c s'.

Inductive steps (c : cfg) : state -> state -> Prop :=
| steps_refl : forall s, steps c s s
| steps_next : forall s s' s'', In s' (step c s) -> steps c s' s'' -> steps c s s''.

(* executing a path given by choice indexes (used for witnesses and by the driver) *)
Fixpoint exec (c : cfg) (choices : list nat) (s : state) : option state :=
  match choices with
  | [] => Some s
  | i :: rest => match nth_error (step c s) i with
                 | Some s' => exec c rest s'
                 | None => None
                 end
  end.

(* ---------------------------------------------------------------- the queue Start() builds (initTaskChan) *)

(* `h.taskChan = NewWalletTaskChan(len(wss))`: capacity max (MaxWaitingTaskNum+1) (number of wallet status rows) *)
Definition start_cap (nw : nat) : nat := Nat.max (busy_threshold + 1) nw.

(* ... then one NON-BLOCKING push (PushRemove / PushImport) per status row that is removed / not ready,
   in the order of the rows: [q] the queue so far, [d] the pushes dropped because it was full *)
Fixpoint start_pushes (cp : nat) (q : list task) (d : nat) (rst : list task) : list task * nat :=
  match rst with
  | [] => (q, d)
  | t :: r => if length q <? cp then start_pushes cp (q ++ [t]) d r else start_pushes cp q (S d) r
  end.

(* the state in which the repaired Start() returns, with the pushes of initTaskChan spelled out
   (init_state true puts [rst] into the queue as it is; the two agree when [rst] fits, see
   HandshakeQueueProofs.start_state_init) *)
Definition start_state (c : cfg) (blocks : nat) (reqs rst : list task) (stop : bool) : state :=
  {| hpc := Hsel; kpc := Ksel; spc := Sidle; apc := Aidle; qb := 0;
     tasks := fst (start_pushes (cap c) [] 0 rst);
     e_blocks := blocks; e_tasks := reqs; e_stop := stop; restart := []; panicked := false;
     gh := g_drop (snd (start_pushes (cap c) [] 0 rst)) (g_acc (length rst) ghost0) |}.

(* the repaired protocol with a queue of [n] slots *)
Definition cfg_cap (n : nat) : cfg := {| f1fix := true; nilfix := true; qcap := 1024; cap := n |}.
(* ... of exactly MaxWaitingTaskNum slots: no room for the worker's own re-queue while the API has filled the
   waiting queue (the configuration C20_requeue_never_dropped excludes) *)
Definition cfg_tight : cfg := cfg_cap busy_threshold.

(* ---------------------------------------------------------------- predicates of the property *)

Definition stop_requested (s : state) : Prop := spc s <> Sidle.
Definition stopped (s : state) : Prop := spc s = Sdone.           (* quitWg.Wait returned, DB closed *)
Definition can_step (c : cfg) (s : state) : Prop := step c s <> [].
Definition stuck (c : cfg) (s : state) : Prop := step c s = [].
(* nothing left to do: both loops parked in their selects, queues empty, environment exhausted *)
Definition idle (s : state) : Prop :=
  hpc s = Hsel /\ kpc s = Ksel /\ apc s = Aidle /\ qb s = 0 /\ tasks s = [] /\
  e_blocks s = 0 /\ e_tasks s = [] /\ e_stop s = false.

(* ---------------------------------------------------------------- ranking function *)

Definition task_weight (t : task) : nat :=
  match t_kind t with Imp => 5 * S (t_more t) | Rem => 4 * S (t_more t) + 4 end.
Definition tasks_weight (l : list task) : nat := fold_right (fun t a => task_weight t + a) 0 l.
Definition req_weight (l : list task) : nat := fold_right (fun t a => task_weight t + 2 + a) 0 l.

Definition k_weight (k : kpc_t) : nat :=
  match k with
  | Kinit => 2 | Ksel => 1 | Kdone => 0
  | Kat PImp Ssusp n => 5 * S n | Kat PImp Supd n => 5 * S n - 1 | Kat PImp Sres n => 5 * S n - 2
  | Kpush n => 5 * S n + 2
  | Kat PRem1 Ssusp n => 4 * S n + 4 | Kat PRem1 Supd n => 4 * S n + 3 | Kat PRem1 Sres n => 4 * S n + 2
  | Kchk n => 4 * S n + 1
  | Kat PRem2 Ssusp n => 4 * S n | Kat PRem2 Supd n => 4 * S n - 1 | Kat PRem2 Sres n => 4 * S n - 2
  end.
Definition h_weight (h : hpc_t) : nat := match h with Hdone => 0 | Hsel => 1 | Hwait => 1 | Hblk => 2 end.
Definition s_weight (p : spc_t) : nat := match p with Sidle => 3 | Swait => 2 | Sdb => 1 | Sdone => 0 end.
Definition a_weight (a : apc_t) : nat := match a with Aidle => 0 | Apush t => task_weight t + 1 end.

Definition rank (s : state) : nat :=
  h_weight (hpc s) + k_weight (kpc s) + s_weight (spc s) + a_weight (apc s) +
  2 * qb s + 3 * e_blocks s + tasks_weight (tasks s) + tasks_weight (restart s) +
  req_weight (e_tasks s).

(* ---------------------------------------------------------------- the two configurations *)

(* queueBlock holds 1024 blocks; the task channel at least MaxWaitingTaskNum+1 = 4 *)
Definition cfg_found := {| f1fix := false; nilfix := false; qcap := 1024; cap := 4 |}.
Definition cfg_repaired := {| f1fix := true; nilfix := true; qcap := 1024; cap := 4 |}.
