(* Sched/HandshakeProofs.v — proofs about the transition system of Sched/Handshake.v (C20).
   All statements quantify over every reachable state of every finite environment
   (induction over [reachable]); nothing here is an enumeration. *)
From Coq Require Import List Arith Bool Lia.
Import ListNotations.
Require Import MW.Sched.Handshake.

(* ---------------------------------------------------------------- the step function as a relation *)

Inductive trans (c : cfg) (s : state) : label -> state -> Prop :=
| tr_ann s' : t_ann c s = Some s' -> trans c s La s'
| tr_achk_panic s' : t_achk_panic c s = Some s' -> trans c s Ltp s'
| tr_achk_busy s' : t_achk_busy c s = Some s' -> trans c s Ltb s'
| tr_achk_ok s' : t_achk_ok c s = Some s' -> trans c s Tachk s'
| tr_apush k s' : t_apush c s = Some (k, s') -> trans c s (Lpush k) s'
| tr_hquit s' : t_hquit c s = Some s' -> trans c s Thquit s'
| tr_hb s' : t_hb c s = Some s' -> trans c s Lhb s'
| tr_hc s' : t_hc c s = Some s' -> trans c s Lhc s'
| tr_kinit s' : t_kinit c s = Some s' -> trans c s Tkinit s'
| tr_kquit s' : t_kquit c s = Some s' -> trans c s Tkquit s'
| tr_ktake s' : t_ktake c s = Some s' -> trans c s Tktake s'
| tr_kabort s' : t_kabort c s = Some s' -> trans c s Tkabort s'
| tr_kupd s' : t_kupd c s = Some s' -> trans c s Lkc s'
| tr_kpush s' : t_kpush c s = Some s' -> trans c s Tkpush s'
| tr_kchk s' : t_kchk c s = Some s' -> trans c s Tkchk s'
| tr_jsusp s' : t_jsusp c s = Some s' -> trans c s Lkb s'
| tr_jres s' : t_jres c s = Some s' -> trans c s Tkres s'
| tr_sclose s' : t_sclose c s = Some s' -> trans c s Ls s'
| tr_swait s' : t_swait c s = Some s' -> trans c s Tswait s'
| tr_sdb s' : t_sdb c s = Some s' -> trans c s Lz s'.

Lemma opt1_in l o l' s' : In (l', s') (opt1 l o) <-> l' = l /\ o = Some s'.
Proof.
  destruct o as [x|]; cbn; split.
  - intros [H|[]]. inversion H. auto.
  - intros [-> H]. inversion H. auto.
  - intros [].
  - intros [_ H]. discriminate.
Qed.

Lemma step_l_trans c s l s' : In (l, s') (step_l c s) <-> trans c s l s'.
Proof.
  unfold step_l. split.
  - intros H.
    repeat (apply in_app_or in H; destruct H as [H|H]);
      try (apply opt1_in in H; destruct H as [-> H]; constructor; exact H).
    destruct (t_apush c s) as [[k x]|] eqn:E; cbn in H; [|contradiction].
    destruct H as [H|[]]. inversion H; subst. constructor. exact E.
  - intros H.
    destruct H as [x H|x H|x H|x H|k x H|x H|x H|x H|x H|x H|x H|x H|x H|x H|x H|x H|x H|x H|x H|x H];
      repeat rewrite in_app_iff; rewrite ?opt1_in; rewrite ?H; cbn; tauto.
Qed.

Lemma step_trans c s s' : In s' (step c s) <-> exists l, trans c s l s'.
Proof.
  unfold step. rewrite in_map_iff. split.
  - intros [[l x] [E H]]. cbn in E. subst. exists l. apply step_l_trans. exact H.
  - intros [l H]. exists (l, s'). split; [reflexivity|]. apply step_l_trans. exact H.
Qed.

(* case analysis of one transition: afterwards the successor is an explicit term and the guards
   are equations about the fields of [s] *)
Ltac break_match_hyp H :=
  repeat match type of H with
         | context [match ?x with _ => _ end] =>
             match x with
             | context [match _ with _ => _ end] => fail 1
             | _ => let E := fresh "E" in destruct x eqn:E; try discriminate H
             end
         end.

Ltac t_inv H :=
  unfold t_ann, t_achk_panic, t_achk_busy, t_achk_ok, t_apush, t_hquit, t_hb, t_hc, t_kinit, t_kquit,
    t_ktake, t_kabort, t_kupd, t_kpush, t_kchk, t_jsusp, t_jres, t_sclose, t_swait, t_sdb in H;
  break_match_hyp H; inversion H; subst; clear H.

Ltac trans_cases H :=
  destruct H as [x H|x H|x H|x H|k x H|x H|x H|x H|x H|x H|x H|x H|x H|x H|x H|x H|x H|x H|x H|x H];
  t_inv H.

