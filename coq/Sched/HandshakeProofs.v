(* Sched/HandshakeProofs.v — proofs about the transition system of Sched/Handshake.v (C20).
   All statements quantify over every reachable state of every finite environment
   (induction over [reachable]); nothing here is an enumeration. *)
From Coq Require Import List Arith Bool Lia.
Import ListNotations.
Require Import MW.Sched.Handshake.

(* ---------------------------------------------------------------- the step function as a relation *)

Inductive trans (c : cfg) (s : state) : label -> state -> Prop :=
| tr_ann s' : t_ann c s = Some s' -> trans c s La s'
| tr_achk_panic s' : t_achk_panic c s = Some s' -> trans c s Ltp s'
| tr_achk_busy s' : t_achk_busy c s = Some s' -> trans c s Ltb s'
| tr_achk_ok s' : t_achk_ok c s = Some s' -> trans c s Tachk s'
| tr_afail s' : t_afail c s = Some s' -> trans c s Lte s'
| tr_apush k s' : t_apush c s = Some (k, s') -> trans c s (Lpush k) s'
| tr_hquit s' : t_hquit c s = Some s' -> trans c s Thquit s'
| tr_hb s' : t_hb c s = Some s' -> trans c s Lhb s'
| tr_hc s' : t_hc c s = Some s' -> trans c s Lhc s'
| tr_kinit s' : t_kinit c s = Some s' -> trans c s Tkinit s'
| tr_kquit s' : t_kquit c s = Some s' -> trans c s Tkquit s'
| tr_ktake s' : t_ktake c s = Some s' -> trans c s Tktake s'
| tr_kabort s' : t_kabort c s = Some s' -> trans c s Tkabort s'
| tr_kupd s' : t_kupd c s = Some s' -> trans c s Lkc s'
| tr_kpush s' : t_kpush c s = Some s' -> trans c s Tkpush s'
| tr_kchk s' : t_kchk c s = Some s' -> trans c s Tkchk s'
| tr_jsusp s' : t_jsusp c s = Some s' -> trans c s Lkb s'
| tr_jres s' : t_jres c s = Some s' -> trans c s Tkres s'
| tr_sclose s' : t_sclose c s = Some s' -> trans c s Ls s'
| tr_swait s' : t_swait c s = Some s' -> trans c s Tswait s'
| tr_sdb s' : t_sdb c s = Some s' -> trans c s Lz s'.

Lemma opt1_in l o l' s' : In (l', s') (opt1 l o) <-> l' = l /\ o = Some s'.
Proof.
  destruct o as [x|]; cbn; split.
  - intros [H|[]]. inversion H. auto.
  - intros [-> H]. inversion H. auto.
  - intros [].
  - intros [_ H]. discriminate.
Qed.

Lemma step_l_trans c s l s' : In (l, s') (step_l c s) <-> trans c s l s'.
Proof.
  unfold step_l. split.
  - intros H.
    repeat (apply in_app_or in H; destruct H as [H|H]);
      try (apply opt1_in in H; destruct H as [-> H]; constructor; exact H).
    destruct (t_apush c s) as [[k x]|] eqn:E; cbn in H; [|contradiction].
    destruct H as [H|[]]. inversion H; subst. constructor. exact E.
  - intros H.
    destruct H as [x H|x H|x H|x H|x H|k x H|x H|x H|x H|x H|x H|x H|x H|x H|x H|x H|x H|x H|x H|x H|x H];
      repeat rewrite in_app_iff; rewrite ?opt1_in; rewrite ?H; cbn; tauto.
Qed.

Lemma step_trans c s s' : In s' (step c s) <-> exists l, trans c s l s'.
Proof.
  unfold step. rewrite in_map_iff. split.
  - intros [[l x] [E H]]. cbn in E. subst. exists l. apply step_l_trans. exact H.
  - intros [l H]. exists (l, s'). split; [reflexivity|]. apply step_l_trans. exact H.
Qed.

(* case analysis of one transition: afterwards the successor is an explicit term and the guards
   are equations about the fields of [s] *)
Ltac break_match_hyp H :=
  repeat match type of H with
         | context [match ?x with _ => _ end] =>
             match x with
             | context [match _ with _ => _ end] => fail 1
             | _ => let E := fresh "E" in destruct x eqn:E; try discriminate H
             end
         end.

Ltac t_inv H :=
  unfold t_ann, t_achk_panic, t_achk_busy, t_achk_ok, t_afail, t_apush, t_hquit, t_hb, t_hc, t_kinit, t_kquit,
    t_ktake, t_kabort, t_kupd, t_kpush, t_kchk, t_jsusp, t_jres, t_sclose, t_swait, t_sdb in H;
  break_match_hyp H; inversion H; subst; clear H.

Ltac trans_cases H :=
  destruct H as [x H|x H|x H|x H|x H|k x H|x H|x H|x H|x H|x H|x H|x H|x H|x H|x H|x H|x H|x H|x H|x H];
  t_inv H.

(* ---------------------------------------------------------------- every step makes progress *)

Lemma tasks_weight_app a b : tasks_weight (a ++ b) = tasks_weight a + tasks_weight b.
Proof. induction a as [|t a IH]; cbn [app tasks_weight fold_right]; [reflexivity|]. fold (tasks_weight (a++b)). fold (tasks_weight a). rewrite IH. lia. Qed.

Ltac proj_simpl :=
  cbn [hpc kpc spc apc qb tasks e_blocks e_tasks e_stop restart panicked gh
       set_h set_k set_s set_a set_qb set_tasks set_eblocks set_etasks set_estop set_restart
       set_panicked set_gh] in *.

Lemma tasks_weight_cons t l : tasks_weight (t :: l) = task_weight t + tasks_weight l.
Proof. reflexivity. Qed.
Lemma req_weight_cons t l : req_weight (t :: l) = task_weight t + 2 + req_weight l.
Proof. reflexivity. Qed.
Lemma tasks_weight_nil : tasks_weight [] = 0. Proof. reflexivity. Qed.

Ltac res_inv :=
  repeat match goal with
         | E : after_res ?p ?n = _ |- _ => unfold after_res in E; destruct p; try destruct n; inversion E; subst; clear E
         end.

Lemma trans_rank c s l s' : trans c s l s' -> rank s' < rank s.
Proof.
  intros H. trans_cases H; res_inv; unfold rank, push_task, repush_task; proj_simpl.
  all: repeat match goal with p : phase |- _ => destruct p end.
  all: repeat match goal with st : stage |- _ => destruct st end.
  all: repeat match goal with E : _ = _ |- _ => rewrite E end.
  all: try match goal with |- context [if ?b then _ else _] => destruct b end; proj_simpl.
  all: repeat match goal with E : _ = _ |- _ => rewrite E end.
  all: cbn [h_weight k_weight s_weight a_weight after_res fst snd].
  all: rewrite ?tasks_weight_app, ?tasks_weight_cons, ?req_weight_cons, ?tasks_weight_nil.
  all: unfold task_weight; cbn [t_kind t_more].
  all: repeat match goal with E : _ = _ |- _ => rewrite E end.
  all: try lia.
Qed.

(* ---------------------------------------------------------------- invariant *)

Definition in_cs (k : kpc_t) : bool := match k with Kat _ Supd _ | Kat _ Sres _ => true | _ => false end.
Definition k_import (k : kpc_t) : nat := match k with Kat PImp _ _ | Kpush _ => 1 | _ => 0 end.
Definition k_holding (k : kpc_t) : nat := match k with Kat _ _ _ | Kpush _ | Kchk _ => 1 | _ => 0 end.
Definition a_pending (a : apc_t) : nat := match a with Apush _ => 1 | Aidle => 0 end.
Definition h_inblk (h : hpc_t) : nat := match h with Hblk => 1 | _ => 0 end.

Record Inv (c : cfg) (s : state) : Prop := {
  inv_cs : hpc s = Hwait <-> in_cs (kpc s) = true;
  inv_hdone : hpc s = Hdone -> quit s = true;
  inv_kdone : kpc s = Kdone -> quit s = true;
  inv_sdb : spc s = Sdb \/ spc s = Sdone -> hpc s = Hdone /\ kpc s = Kdone;
  inv_estop : e_stop s = true -> spc s = Sidle;
  inv_kinit : kpc s = Kinit -> apc s = Aidle /\ tasks s = [];
  inv_restart : kpc s <> Kinit -> restart s = [];
  inv_rst_len : length (restart s) <= cap c;
  inv_cap : length (tasks s) + k_import (kpc s) + a_pending (apc s) <= cap c;
  inv_nodrop : n_drop (gh s) = 0;
  inv_tasks : n_acc (gh s) = n_fin (gh s) + n_abort (gh s) + n_drop (gh s) + length (tasks s) + k_holding (kpc s);
  inv_blocks : n_ann (gh s) = n_proc (gh s) + qb s + h_inblk (hpc s);
  inv_noabort : spc s = Sidle -> n_abort (gh s) = 0;
  inv_nil : nilfix c = true -> kpc s <> Kinit /\ panicked s = false
}.

Lemma inv_init c s : cfg_ok c -> initial c s -> Inv c s.
Proof.
  intros Hc (b & r & rs & st & -> & Hl). destruct (nilfix c) eqn:En.
  all: constructor; cbn; try tauto; try congruence; try lia.
  all: try (split; discriminate).
  all: try (intros [H|H]; discriminate).
  all: try discriminate.
  intros _. split; [discriminate|reflexivity].
Qed.

Ltac nat_hyps :=
  repeat match goal with
         | E : (_ <? _) = true |- _ => apply Nat.ltb_lt in E
         | E : (_ <? _) = false |- _ => apply Nat.ltb_ge in E
         | E : (_ <=? _) = true |- _ => apply Nat.leb_le in E
         | E : (_ <=? _) = false |- _ => apply Nat.leb_gt in E
         | E : _ && _ = true |- _ => apply andb_true_iff in E; destruct E
         end.

Ltac use_refl :=
  repeat match goal with
         | H : ?a = ?a -> _ |- _ => specialize (H eq_refl)
         | H : _ /\ _ |- _ => destruct H
         end.

Ltac inv_fin :=
  unfold quit, busy_threshold in *; proj_simpl;
  cbn [n_ann n_proc n_acc n_fin n_abort n_drop g_ann g_proc g_acc g_fin g_abort g_drop
       in_cs k_import k_holding a_pending h_inblk length] in *;
  repeat match goal with E : ?x = _ |- context [?x] => rewrite E end;
  cbn [in_cs k_import k_holding a_pending h_inblk length] in *;
  rewrite ?app_length; cbn [length];
  try solve [intuition (try congruence; try discriminate; try lia)].

Lemma inv_step c s l s' : cfg_ok c -> Inv c s -> trans c s l s' -> Inv c s'.
Proof.
  intros [Hc1 Hc2] HI H. destruct HI.
  trans_cases H; res_inv; unfold push_task, repush_task in *; proj_simpl.
  all: try match goal with |- context [if ?b then _ else _] => destruct b eqn:? end; proj_simpl.
  all: nat_hyps; use_refl.
  all: constructor; inv_fin.
  all: try (destruct (spc s) eqn:?; cbn beta iota in *; inv_fin).
  all: try (repeat match goal with E : ?x = _, H : context [?x] |- _ => rewrite E in H end; inv_fin).
  all: try (repeat match goal with p : phase |- _ => destruct p end; inv_fin).
Qed.

Lemma reachable_inv c s : cfg_ok c -> reachable c s -> Inv c s.
Proof.
  intros Hc H. induction H as [s Hi | s s' Hr IH Hs].
  - apply inv_init; assumption.
  - apply step_trans in Hs. destruct Hs as [l Hs]. eapply inv_step; eassumption.
Qed.

(* ---------------------------------------------------------------- runs *)

Inductive steps_n (c : cfg) : nat -> state -> state -> Prop :=
| sn_refl : forall s, steps_n c 0 s s
| sn_next : forall n s s' s'', In s' (step c s) -> steps_n c n s' s'' -> steps_n c (S n) s s''.

Lemma step_rank c s s' : In s' (step c s) -> rank s' < rank s.
Proof. intros H. apply step_trans in H. destruct H as [l H]. eapply trans_rank; eassumption. Qed.

Lemma steps_n_bound c n s s' : steps_n c n s s' -> n + rank s' <= rank s.
Proof.
  induction 1 as [s | n s s1 s2 Hs Hn IH]; [lia|].
  apply step_rank in Hs. lia.
Qed.

Lemma steps_has_n c s s' : steps c s s' -> exists n, steps_n c n s s'.
Proof.
  induction 1 as [s | s s1 s2 Hs Hn [n IH]].
  - exists 0. constructor.
  - exists (S n). econstructor; eassumption.
Qed.

Lemma steps_reachable c s s' : reachable c s -> steps c s s' -> reachable c s'.
Proof.
  intros Hr H. induction H as [s | s s1 s2 Hs Hn IH]; [assumption|].
  apply IH. eapply reach_step; eassumption.
Qed.

(* every run can be extended to one that cannot move any more *)
Lemma run_to_stuck c s : exists s', steps c s s' /\ stuck c s'.
Proof.
  remember (rank s) as r eqn:Er. revert s Er.
  induction r as [r IH] using lt_wf_ind. intros s ->.
  destruct (step c s) as [|s1 rest] eqn:E.
  - exists s. split; [constructor | exact E].
  - assert (Hin : In s1 (step c s)) by (rewrite E; left; reflexivity).
    destruct (IH (rank s1) (step_rank _ _ _ Hin) s1 eq_refl) as (s' & Hs & Hst).
    exists s'. split; [econstructor; eassumption | assumption].
Qed.

Lemma trans_can_step c s l s' : trans c s l s' -> can_step c s.
Proof.
  intros H E. assert (Hin : In s' (step c s)) by (apply step_trans; exists l; exact H).
  unfold stuck in E. rewrite E in Hin. destruct Hin.
Qed.

(* ---------------------------------------------------------------- the running system *)

Definition no_stop (s : state) : Prop := spc s = Sidle /\ e_stop s = false.

Lemma no_stop_trans c s l s' : no_stop s -> trans c s l s' -> no_stop s'.
Proof.
  intros [H1 H2] H. unfold no_stop.
  trans_cases H; res_inv; unfold push_task, repush_task; proj_simpl;
    try match goal with |- context [if ?b then _ else _] => destruct b end; proj_simpl;
    try (split; congruence).
Qed.

Lemma no_stop_steps c s s' : no_stop s -> steps c s s' -> no_stop s'.
Proof.
  intros Hn H. induction H as [s | s s1 s2 Hs Hr IH]; [assumption|].
  apply IH. apply step_trans in Hs. destruct Hs as [l Hs]. eapply no_stop_trans; eassumption.
Qed.

Ltac enabled t := eapply trans_can_step; eapply t; unfold t_ann, t_achk_panic, t_achk_busy, t_achk_ok, t_afail, t_apush, t_hquit, t_hb, t_hc, t_kinit, t_kquit,
    t_ktake, t_kabort, t_kupd, t_kpush, t_kchk, t_jsusp, t_jres, t_sclose, t_swait, t_sdb, quit.

(* stated for every state of the invariant (Sched/HandshakeRetryProofs.v uses it for states of the system with
   retry waits, whose base component satisfies [Inv] without being reachable here) *)
Lemma no_deadlock_running_inv c s : cfg_ok c -> Inv c s -> spc s = Sidle -> can_step c s \/ idle s.
Proof.
  intros Hc HI Hs. destruct Hc as [Hc1 Hc2]. destruct HI.
  unfold quit in *. rewrite Hs in *.
  destruct (e_stop s) eqn:Est.
  { left. enabled tr_sclose. rewrite Hs, Est. reflexivity. }
  destruct (hpc s) eqn:Eh.
  - (* Hsel *)
    destruct (kpc s) as [| |p st n|n|n|] eqn:Ek.
    + left. enabled tr_kinit. rewrite Ek. reflexivity.
    + destruct (tasks s) as [|t rest] eqn:Et.
      * destruct (qb s) as [|q] eqn:Eq.
        -- destruct (apc s) as [|t] eqn:Ea.
           ++ destruct (e_tasks s) as [|t rest] eqn:Ee.
              ** destruct (e_blocks s) as [|b] eqn:Eb.
                 --- right. unfold idle. rewrite Eh, Ek, Ea, Eq, Et, Eb, Ee, Est. tauto.
                 --- left. enabled tr_ann. rewrite Hs, Eb, Eq.
                     destruct (0 <? qcap c) eqn:El; [reflexivity|]. apply Nat.ltb_ge in El. lia.
              ** left. enabled tr_achk_ok. rewrite Hs, Ea, Ee, Ek, Et. cbn. reflexivity.
           ++ left. enabled tr_apush. rewrite Hs, Ea. reflexivity.
        -- left. enabled tr_hb. rewrite Eh, Eq. reflexivity.
      * left. enabled tr_ktake. rewrite Ek, Et. reflexivity.
    + destruct st.
      * left. enabled tr_jsusp. rewrite Eh, Ek. reflexivity.
      * exfalso. destruct inv_cs0 as [_ H]. cbn in H. specialize (H eq_refl). discriminate.
      * exfalso. destruct inv_cs0 as [_ H]. cbn in H. specialize (H eq_refl). discriminate.
    + left. enabled tr_kpush. rewrite Ek. reflexivity.
    + left. enabled tr_kchk. rewrite Ek, Hs. reflexivity.
    + exfalso. specialize (inv_kdone0 eq_refl). discriminate.
  - left. enabled tr_hc. rewrite Eh. reflexivity.
  - (* Hwait: the worker is between the hand-shakes *)
    destruct inv_cs0 as [H _]. specialize (H eq_refl).
    destruct (kpc s) as [| |p st n|n|n|] eqn:Ek; try discriminate. destruct st; try discriminate.
    + left. enabled tr_kupd. rewrite Ek. reflexivity.
    + left. destruct (after_res p n) as [k fin] eqn:Ea. enabled tr_jres. rewrite Eh, Ek, Ea. reflexivity.
  - exfalso. specialize (inv_hdone0 eq_refl). discriminate.
Qed.

Lemma no_deadlock_running c s : cfg_ok c -> reachable c s -> spc s = Sidle -> can_step c s \/ idle s.
Proof. intros Hc Hr. apply no_deadlock_running_inv; [exact Hc | apply reachable_inv; assumption]. Qed.

(* every maximal run of the running system (no Stop) ends with both loops parked, every
   announced block processed, every accepted task finished, none dropped, none aborted *)
Definition all_done (s : state) : Prop :=
  idle s /\ n_proc (gh s) = n_ann (gh s) /\ n_fin (gh s) = n_acc (gh s) /\
  n_drop (gh s) = 0 /\ n_abort (gh s) = 0.

Lemma tasks_finish c s :
  cfg_ok c -> reachable c s -> no_stop s ->
  (forall s', steps c s s' -> stuck c s' -> all_done s') /\
  (forall n s', steps_n c n s s' -> n <= rank s) /\
  (exists s', steps c s s' /\ stuck c s').
Proof.
  intros Hc Hr Hn. split; [|split].
  - intros s' Hs Hst.
    pose proof (steps_reachable _ _ _ Hr Hs) as Hr'.
    pose proof (no_stop_steps _ _ _ Hn Hs) as [Hn1 Hn2].
    destruct (no_deadlock_running c s' Hc Hr' Hn1) as [Hcan|Hid]; [contradiction|].
    pose proof (reachable_inv c s' Hc Hr') as HI. destruct HI.
    destruct Hid as (Hh & Hk & Ha & Hq & Ht & Hb & He & Hst').
    specialize (inv_noabort0 Hn1).
    rewrite Hh, Hk, Ht, Hq in *. cbn in inv_tasks0, inv_blocks0.
    unfold all_done, idle. rewrite Hh, Hk, Ha, Hq, Ht, Hb, He, Hst'. repeat split; lia.
  - intros n s' H. apply steps_n_bound in H. lia.
  - apply run_to_stuck.
Qed.

Lemma requeue_never_dropped c s : cfg_ok c -> reachable c s -> n_drop (gh s) = 0.
Proof. intros Hc Hr. destruct (reachable_inv c s Hc Hr). assumption. Qed.

(* the point of the hand-shake: the handler is never inside its block transaction while the
   worker is between suspend and resume *)
Lemma handshake_exclusion c s : cfg_ok c -> reachable c s -> ~ (hpc s = Hblk /\ in_cs (kpc s) = true).
Proof.
  intros Hc Hr [H1 H2]. destruct (reachable_inv c s Hc Hr). apply inv_cs0 in H2. congruence.
Qed.

(* ---------------------------------------------------------------- Stop, repaired protocol *)

Lemma stuck_after_stop_is_stopped_inv c s :
  cfg_ok c -> f1fix c = true -> Inv c s -> stop_requested s -> stuck c s -> stopped s.
Proof.
  intros Hc Hf HI Hreq Hst. destruct HI.
  unfold stop_requested, stopped in *. unfold quit in *.
  assert (Hno : forall l s', ~ trans c s l s') by (intros l s' H; apply trans_can_step in H; contradiction).
  destruct (spc s) eqn:Es; [contradiction| | |reflexivity].
  - (* Swait *)
    exfalso.
    destruct (hpc s) eqn:Eh.
    + eapply Hno. eapply tr_hquit. unfold t_hquit, quit. rewrite Eh, Es. reflexivity.
    + eapply Hno. eapply tr_hc. unfold t_hc. rewrite Eh. reflexivity.
    + destruct inv_cs0 as [H _]. specialize (H eq_refl).
      destruct (kpc s) as [| |p st n|n|n|] eqn:Ek; try discriminate. destruct st; try discriminate.
      * eapply Hno. eapply tr_kupd. unfold t_kupd. rewrite Ek. reflexivity.
      * destruct (after_res p n) as [k fin] eqn:Ea.
        eapply Hno. eapply tr_jres. unfold t_jres. rewrite Eh, Ek, Ea. reflexivity.
    + destruct (kpc s) as [| |p st n|n|n|] eqn:Ek.
      * eapply Hno. eapply tr_kinit. unfold t_kinit. rewrite Ek. reflexivity.
      * eapply Hno. eapply tr_kquit. unfold t_kquit, quit. rewrite Ek, Es. reflexivity.
      * destruct st.
        -- eapply Hno. eapply tr_kabort. unfold t_kabort, quit. rewrite Ek, Hf, Es. reflexivity.
        -- destruct inv_cs0 as [_ H]. cbn in H. specialize (H eq_refl). discriminate.
        -- destruct inv_cs0 as [_ H]. cbn in H. specialize (H eq_refl). discriminate.
      * eapply Hno. eapply tr_kpush. unfold t_kpush. rewrite Ek. reflexivity.
      * eapply Hno. eapply tr_kchk. unfold t_kchk, quit. rewrite Ek, Es. reflexivity.
      * eapply Hno. eapply tr_swait. unfold t_swait. rewrite Es, Eh, Ek. reflexivity.
  - exfalso. eapply Hno. eapply tr_sdb. unfold t_sdb. rewrite Es. reflexivity.
Qed.

Lemma stuck_after_stop_is_stopped c s :
  cfg_ok c -> f1fix c = true -> reachable c s -> stop_requested s -> stuck c s -> stopped s.
Proof. intros Hc Hf Hr. apply stuck_after_stop_is_stopped_inv; [exact Hc | exact Hf | apply reachable_inv; assumption]. Qed.

Definition stop_coming (s : state) : Prop := e_stop s = true \/ spc s <> Sidle.

Lemma stop_coming_trans c s l s' : stop_coming s -> trans c s l s' -> stop_coming s'.
Proof.
  intros Hs H. unfold stop_coming in *.
  trans_cases H; res_inv; unfold push_task, repush_task; proj_simpl;
    try match goal with |- context [if ?b then _ else _] => destruct b end; proj_simpl;
    try assumption; try (right; congruence).
  all: destruct Hs as [Hs|Hs]; try (right; congruence); try (left; congruence).
Qed.

Lemma stop_coming_steps c s s' : stop_coming s -> steps c s s' -> stop_coming s'.
Proof.
  intros Hn H. induction H as [s | s s1 s2 Hs Hr IH]; [assumption|].
  apply IH. apply step_trans in Hs. destruct Hs as [l Hs]. eapply stop_coming_trans; eassumption.
Qed.

(* repaired protocol: once Stop has been (or will be) called, every maximal run ends with the
   database closed, after at most [rank s] further steps, and such a run exists *)
Lemma stop_terminates c s :
  cfg_ok c -> f1fix c = true -> reachable c s -> stop_coming s ->
  (forall s', steps c s s' -> stuck c s' -> stopped s') /\
  (forall n s', steps_n c n s s' -> n <= rank s) /\
  (exists s', steps c s s' /\ stuck c s').
Proof.
  intros Hc Hf Hr Hcoming. split; [|split].
  - intros s' Hs Hst.
    pose proof (steps_reachable _ _ _ Hr Hs) as Hr'.
    destruct (stop_coming_steps _ _ _ Hcoming Hs) as [He|Hne].
    + exfalso. pose proof (reachable_inv c s' Hc Hr') as HI. destruct HI.
      specialize (inv_estop0 He).
      assert (Hcan : can_step c s').
      { eapply trans_can_step. eapply tr_sclose. unfold t_sclose. rewrite inv_estop0, He. reflexivity. }
      contradiction.
    + apply (stuck_after_stop_is_stopped c s' Hc Hf Hr' Hne Hst).
  - intros n s' H. apply steps_n_bound in H. lia.
  - apply run_to_stuck.
Qed.

(* ---------------------------------------------------------------- Stop, protocol as found *)

Lemma exec_reachable c cs : forall s s', reachable c s -> exec c cs s = Some s' -> reachable c s'.
Proof.
  induction cs as [|i cs IH]; intros s s' Hr H; cbn in H.
  - inversion H. subst. assumption.
  - destruct (nth_error (step c s) i) as [s1|] eqn:E; [|discriminate].
    apply (IH s1 s'); [|assumption]. eapply reach_step; [eassumption|]. eapply nth_error_In; eassumption.
Qed.

Lemma init_reachable c blocks reqs rst stop :
  length rst <= cap c -> reachable c (init_state (nilfix c) blocks reqs rst stop).
Proof. intros H. apply reach_init. exists blocks, reqs, rst, stop. split; [reflexivity|assumption]. Qed.

(* the state of DESIGN F1 for an arbitrary environment: an import is pending from the last run,
   the worker takes it (quit open), Stop closes quit, the handler leaves, the worker stands at
   the sigSuspend send *)
Definition f1_state (blocks : nat) (reqs : list task) : state :=
  {| hpc := Hdone; kpc := Kat PImp Ssusp 0; spc := Swait; apc := Aidle; qb := 0; tasks := [];
     e_blocks := blocks; e_tasks := reqs; e_stop := false; restart := []; panicked := false;
     gh := {| n_ann := 0; n_proc := 0; n_acc := 1; n_fin := 0; n_abort := 0; n_drop := 0 |} |}.

Lemma f1_state_reachable c blocks reqs : cfg_ok c -> nilfix c = false -> reachable c (f1_state blocks reqs).
Proof.
  intros [Hc _] Hn. unfold busy_threshold in Hc.
  set (t := {| t_kind := Imp; t_more := 0 |}).
  set (g1 := {| n_ann := 0; n_proc := 0; n_acc := 1; n_fin := 0; n_abort := 0; n_drop := 0 |}).
  set (s0 := {| hpc := Hsel; kpc := Kinit; spc := Sidle; apc := Aidle; qb := 0; tasks := [];
     e_blocks := blocks; e_tasks := reqs; e_stop := true; restart := [t]; panicked := false; gh := ghost0 |}).
  set (s1 := {| hpc := Hsel; kpc := Ksel; spc := Sidle; apc := Aidle; qb := 0; tasks := [t];
     e_blocks := blocks; e_tasks := reqs; e_stop := true; restart := []; panicked := false; gh := g1 |}).
  set (s2 := {| hpc := Hsel; kpc := Kat PImp Ssusp 0; spc := Sidle; apc := Aidle; qb := 0; tasks := [];
     e_blocks := blocks; e_tasks := reqs; e_stop := true; restart := []; panicked := false; gh := g1 |}).
  set (s3 := {| hpc := Hsel; kpc := Kat PImp Ssusp 0; spc := Swait; apc := Aidle; qb := 0; tasks := [];
     e_blocks := blocks; e_tasks := reqs; e_stop := false; restart := []; panicked := false; gh := g1 |}).
  assert (H0 : reachable c s0).
  { apply reach_init. exists blocks, reqs, [t], true. rewrite Hn. split; [reflexivity|cbn; lia]. }
  assert (H1 : reachable c s1).
  { eapply reach_step; [exact H0|]. apply step_trans. exists Tkinit. apply tr_kinit. reflexivity. }
  assert (H2 : reachable c s2).
  { eapply reach_step; [exact H1|]. apply step_trans. exists Tktake. apply tr_ktake. reflexivity. }
  assert (H3 : reachable c s3).
  { eapply reach_step; [exact H2|]. apply step_trans. exists Ls. apply tr_sclose. reflexivity. }
  eapply reach_step; [exact H3|]. apply step_trans. exists Thquit. apply tr_hquit. reflexivity.
Qed.

(* with the protocol as found nothing a later step does frees the two threads *)
Lemma f1_frozen c s l s' p n :
  f1fix c = false -> hpc s = Hdone -> kpc s = Kat p Ssusp n -> spc s = Swait ->
  trans c s l s' -> hpc s' = Hdone /\ kpc s' = Kat p Ssusp n /\ spc s' = Swait.
Proof.
  intros Hf Hh Hk Hs H.
  trans_cases H; res_inv; unfold push_task, repush_task; proj_simpl;
    try match goal with |- context [if ?b then _ else _] => destruct b end; proj_simpl;
    try congruence; try (repeat split; congruence).
  all: try (rewrite Hf in *; discriminate).
Qed.

Lemma f1_frozen_steps c s s' p n :
  f1fix c = false -> hpc s = Hdone -> kpc s = Kat p Ssusp n -> spc s = Swait ->
  steps c s s' -> hpc s' = Hdone /\ kpc s' = Kat p Ssusp n /\ spc s' = Swait.
Proof.
  intros Hf Hh Hk Hs H. induction H as [s | s s1 s2 Hst Hr IH]; [auto|].
  apply step_trans in Hst. destruct Hst as [l Hst].
  destruct (f1_frozen c s l s1 p n Hf Hh Hk Hs Hst) as (A & B & C). apply IH; assumption.
Qed.

Lemma stop_deadlock_refuted c :
  cfg_ok c -> f1fix c = false -> nilfix c = false ->
  exists s, reachable c s /\ stop_requested s /\ ~ stopped s /\ stuck c s.
Proof.
  intros Hc Hf Hn. exists (f1_state 0 []). split; [apply f1_state_reachable; assumption|].
  split; [cbn; discriminate|]. split; [cbn; discriminate|].
  unfold stuck, step, step_l, t_kabort. cbn. rewrite Hf. reflexivity.
Qed.

(* for every environment (any number of further announcements and API requests) *)
Lemma stop_deadlock_permanent c blocks reqs :
  cfg_ok c -> f1fix c = false -> nilfix c = false ->
  exists s, reachable c s /\ stop_requested s /\ e_blocks s = blocks /\ e_tasks s = reqs /\
            forall s', steps c s s' -> ~ stopped s'.
Proof.
  intros Hc Hf Hn. exists (f1_state blocks reqs). split; [apply f1_state_reachable; assumption|].
  split; [cbn; discriminate|]. split; [reflexivity|]. split; [reflexivity|].
  intros s' Hs Hstop.
  destruct (f1_frozen_steps c (f1_state blocks reqs) s' PImp 0 Hf eq_refl eq_refl eq_refl Hs) as (_ & _ & H).
  unfold stopped in Hstop. congruence.
Qed.

(* ---------------------------------------------------------------- nil task channel *)

Lemma taskchan_nil_refuted c : cfg_ok c -> nilfix c = false -> exists s, reachable c s /\ panicked s = true.
Proof.
  intros [Hc _] Hn. unfold busy_threshold in Hc.
  set (t := {| t_kind := Imp; t_more := 0 |}).
  set (s0 := {| hpc := Hsel; kpc := Kinit; spc := Sidle; apc := Aidle; qb := 0; tasks := [];
     e_blocks := 0; e_tasks := [t]; e_stop := false; restart := []; panicked := false; gh := ghost0 |}).
  exists (set_panicked (set_etasks s0 [])). split; [|reflexivity].
  eapply reach_step.
  - apply reach_init. exists 0, [t], [], false. rewrite Hn. split; [reflexivity|cbn; lia].
  - apply step_trans. exists Ltp. apply tr_achk_panic. reflexivity.
Qed.

(* an API request made after the worker has created its channel cannot panic *)
Lemma no_panic_after_init c s l s' : kpc s <> Kinit -> panicked s = false -> trans c s l s' -> panicked s' = false /\ kpc s' <> Kinit.
Proof.
  intros Hk Hp H.
  trans_cases H; res_inv; unfold push_task, repush_task; proj_simpl;
    try match goal with |- context [if ?b then _ else _] => destruct b end; proj_simpl;
    try (split; congruence); try congruence.
  all: split; try assumption; try discriminate; try congruence.
  all: try (destruct (t_kind t); discriminate).
Qed.

Lemma no_nil_panic c s : cfg_ok c -> nilfix c = true -> reachable c s -> panicked s = false.
Proof. intros Hc Hn Hr. destruct (reachable_inv c s Hc Hr). apply inv_nil0. assumption. Qed.
