(* Sched/Reads.v — a query of the wallet API as a list of database reads, each served by the
   store that is current when the read is made (C17).  Definitions only.

   Code: wallet.go WalletBalance / AddressBalance / GetUtxo, tx.go getUtxos /
   getUtxosExcludeBindingAndStaking, txmgr/utxostore.go ScriptAddressBalance /
   ScriptAddressUnspents, db/ldb/leveldb.go (BeginReadTx takes no snapshot: a Get inside a View
   reads the store current at that moment; NewIterator pins goleveldb's snapshot at creation).
   The stores are states of the frozen Ledger model (Ledger/Model.v): [ss] lists the committed
   states a running query can meet, index = number of block commits (connects or reorgs) since
   the query began.  A schedule gives, for the k-th read of the query, the index of the store
   that serves it; it is non-decreasing.

   Reads of one query, in code order:
     0           syncStore.SyncedTo            -> syncHeight
     1           nsUnspent.NewIterator         -> the rows of the wallet's unspent bucket,
                                                  all from the store current at creation
     per row     existsCredit (point read of the credits bucket, key tx:vout:height:blockhash)
                 absent: existsRawUnspent (point read) and the row is skipped ("due to block rollback")
                 present, amount <> 0, address selected, coin listing only:
                         existsRawUnminedInput (point read; the pending set is empty in this model)
     last        WalletBalance only: GrossBalance (stored per-wallet total)
   confs is computed in uint64 (balance) and truncated to uint32 (coin listing) exactly as the
   code does: syncHeight - height + 1 with wrap-around.

   [snap] is the repaired semantics: every read of one View is served by the store current when
   the View began (a snapshot per read transaction, taken by BeginReadTx). *)
From Coq Require Import List ZArith NArith Bool.
Import ListNotations.
Open Scope Z_scope.
Require Import MW.Ledger.Model.

Definition two64 : Z := 18446744073709551616.
Definition two32 : Z := 4294967296.
Definition u64 (z : Z) : Z := z mod two64.
Definition u32 (z : Z) : Z := z mod two32.

Definition empty_store : wstate := {| credits := []; synced := [] |}.
Definition store_at (ss : list wstate) (j : nat) : wstate := nth j ss (last ss empty_store).

(* schedule: element 0 = the commit index at which the read transaction begins (BeginReadTx),
   element k+1 = the commit index serving the k-th read; beyond the list the last index stays in
   force *)
Definition idx (sc : list nat) (k : nat) : nat := nth k sc (last sc 0%nat).

Fixpoint monotone (sc : list nat) : bool :=
  match sc with
  | a :: ((b :: _) as rest) => (a <=? b)%nat && monotone rest
  | _ => true
  end.

(* the store that serves read k *)
Definition serving (snap : bool) (ss : list wstate) (sc : list nat) (k : nat) : wstate :=
  store_at ss (if snap then idx sc 0 else idx sc (S k)).

(* a row of the unspent bucket: key wallet:tx:vout, value height:blockhash *)
Record urow := { r_op : N * N; r_height : Z; r_bid : N }.

(* the iterator yields the rows in key order: wallet id, transaction hash, output index.
   Transaction ids are opaque numbers in the Ledger model; [ord] gives the rank of a
   transaction's hash (environment; the theorems hold for every [ord]). *)
Definition row_leb (ord : N -> N) (a b : urow) : bool :=
  let ka := ord (fst (r_op a)) in
  let kb := ord (fst (r_op b)) in
  (ka <? kb)%N || ((ka =? kb)%N && (snd (r_op a) <=? snd (r_op b))%N).
Fixpoint insert_row (ord : N -> N) (r : urow) (l : list urow) : list urow :=
  match l with
  | [] => [r]
  | x :: rest => if row_leb ord r x then r :: l else x :: insert_row ord r rest
  end.
Definition sort_rows (ord : N -> N) (l : list urow) : list urow := fold_right (insert_row ord) [] l.

Definition unspent_rows (ord : N -> N) (st : wstate) (w : N) : list urow :=
  sort_rows ord
    (map (fun c => {| r_op := credit_op c; r_height := c_height c; r_bid := c_bid c |}) (wallet_unspent st w)).

(* existsCredit(txhash, index, block) *)
Definition find_credit (st : wstate) (r : urow) : option credit :=
  find (fun c => op_eqb (credit_op c) (r_op r) && (c_height c =? r_height r) && (c_bid c =? r_bid r)%N)
       (credits st).

(* ---------------------------------------------------------------- ScriptAddressBalance *)

Record bal := { b_total : Z; b_spend : Z; b_wstake : Z; b_wbind : Z }.
Definition bal0 := {| b_total := 0; b_spend := 0; b_wstake := 0; b_wbind := 0 |}.

Definition add_coin (minconf : Z) (h : Z) (r : urow) (c : credit) (b : bal) : bal :=
  let confs := u64 (h - r_height r + 1) in
  if confs <? minconf then b
  else
    let b1 := {| b_total := b_total b + c_amount c; b_spend := b_spend b; b_wstake := b_wstake b; b_wbind := b_wbind b |} in
    if confs <? c_maturity c then b1
    else if is_binding c then {| b_total := b_total b1; b_spend := b_spend b1; b_wstake := b_wstake b1; b_wbind := b_wbind b1 + c_amount c |}
    else if is_staking c then {| b_total := b_total b1; b_spend := b_spend b1; b_wstake := b_wstake b1 + c_amount c; b_wbind := b_wbind b1 |}
    else {| b_total := b_total b1; b_spend := b_spend b1 + c_amount c; b_wstake := b_wstake b1; b_wbind := b_wbind b1 |}.

(* rd k = the store serving read k.  Returns the next read number and the sums. *)
Fixpoint balance_rows (rd : nat -> wstate) (sel : N -> bool) (minconf h : Z) (rows : list urow) (k : nat) (b : bal)
  : nat * bal :=
  match rows with
  | [] => (k, b)
  | r :: rest =>
      match find_credit (rd k) r with
      | None => balance_rows rd sel minconf h rest (S (S k)) b
      | Some c =>
          if (c_amount c =? 0) || negb (sel (c_sh c))
          then balance_rows rd sel minconf h rest (S k) b
          else balance_rows rd sel minconf h rest (S k) (add_coin minconf h r c b)
      end
  end.

Definition script_balance (ord : N -> N) (rd : nat -> wstate) (w : N) (sel : N -> bool) (minconf : Z) : nat * bal :=
  let h := fst (tip (rd 0%nat)) in
  balance_rows rd sel minconf h (unspent_rows ord (rd 1%nat) w) 2 bal0.

(* WalletManager.WalletBalance(confs, detail = true): Total is replaced by the stored gross balance *)
Definition wallet_balance (ord : N -> N) (rd : nat -> wstate) (w : N) (minconf : Z) : nat * bal :=
  let '(k, b) := script_balance ord rd w (fun _ => true) minconf in
  (S k, {| b_total := gross_balance (rd k) w; b_spend := b_spend b; b_wstake := b_wstake b; b_wbind := b_wbind b |}).

(* ---------------------------------------------------------------- ScriptAddressUnspents *)

Record coinrow := { cr_op : N * N; cr_amount : Z; cr_height : Z; cr_sh : N; cr_maturity : Z; cr_confs : Z;
                    cr_class : oclass; cr_spent : bool }.

Fixpoint unspent_list (rd : nat -> wstate) (sel : N -> bool) (h : Z) (rows : list urow) (k : nat)
  : nat * list coinrow :=
  match rows with
  | [] => (k, [])
  | r :: rest =>
      match find_credit (rd k) r with
      | None => unspent_list rd sel h rest (S (S k))
      | Some c =>
          if (c_amount c =? 0) || negb (sel (c_sh c))
          then unspent_list rd sel h rest (S k)
          else
            let '(k', l) := unspent_list rd sel h rest (S (S k)) in
            (k', {| cr_op := r_op r; cr_amount := c_amount c; cr_height := r_height r; cr_sh := c_sh c;
                    cr_maturity := c_maturity c; cr_confs := u32 (u64 (h - r_height r + 1));
                    cr_class := c_class c; cr_spent := negb (is_unspent c) |} :: l)
      end
  end.

(* GetUtxo / getUtxos: every listed coin whose credit record does not carry the spent flag
   (the callers' filter `!item.Flags.Spent`; node mempool empty).  The flag comes from the credit
   point read, i.e. from a store that may be later than the iterator's. *)
Definition utxo_list (ord : N -> N) (rd : nat -> wstate) (w : N) (sel : N -> bool) : nat * list coinrow :=
  let h := fst (tip (rd 0%nat)) in
  let '(k, l) := unspent_list rd sel h (unspent_rows ord (rd 1%nat) w) 2 in
  (k, filter (fun c => negb (cr_spent c)) l).

(* getUtxosExcludeBindingAndStaking: what transaction building may select from *)
Definition eligible (c : coinrow) : bool :=
  (cr_maturity c <=? cr_confs c) && match cr_class c with CStd => true | _ => false end.
Definition spendable_coins (ord : N -> N) (rd : nat -> wstate) (w : N) (sel : N -> bool) : nat * list coinrow :=
  let '(k, l) := utxo_list ord rd w sel in (k, filter eligible l).

(* ---------------------------------------------------------------- answers *)

Inductive query :=
| QWalletBalance (w : N) (minconf : Z)
| QAddressBalance (w : N) (shs : list N) (minconf : Z)
| QUtxo (w : N)
| QSpendable (w : N).

Inductive ans := ABal (b : bal) | ACoins (l : list coinrow).

Definition in_list (l : list N) (x : N) : bool := existsb (fun y => (x =? y)%N) l.

Definition run_query (ord : N -> N) (rd : nat -> wstate) (q : query) : nat * ans :=
  match q with
  | QWalletBalance w m => let '(k, b) := wallet_balance ord rd w m in (k, ABal b)
  | QAddressBalance w shs m => let '(k, b) := script_balance ord rd w (in_list shs) m in (k, ABal b)
  | QUtxo w => let '(k, l) := utxo_list ord rd w (fun _ => true) in (k, ACoins l)
  | QSpendable w => let '(k, l) := spendable_coins ord rd w (fun _ => true) in (k, ACoins l)
  end.

(* the answer of q when its reads are served according to the schedule; the number of reads *)
Definition answer (ord : N -> N) (snap : bool) (ss : list wstate) (sc : list nat) (q : query) : ans :=
  snd (run_query ord (serving snap ss sc) q).
Definition nreads (ord : N -> N) (snap : bool) (ss : list wstate) (sc : list nat) (q : query) : nat :=
  fst (run_query ord (serving snap ss sc) q).
(* the answer as of block boundary j *)
Definition answer_at (ord : N -> N) (ss : list wstate) (j : nat) (q : query) : ans :=
  snd (run_query ord (fun _ => store_at ss j) q).

(* a coin of the answer that the store at boundary j does not allow to spend *)
Definition immature_at (st : wstate) (c : coinrow) : bool :=
  fst (tip st) - cr_height c + 1 <? cr_maturity c.

(* stores as the Ledger model produces them: sigma_0, then one commit per announced block *)
Fixpoint stores_of (p : params) (own : owner_fn) (n : node) (st : wstate) (bs : list block) : list wstate :=
  st :: match bs with
        | [] => []
        | b :: rest => stores_of p own n (process_or_keep p true own n st b) rest
        end.

(* no wrap-around at a single boundary: every credit lies at or below the tip *)
Definition heights_ok (st : wstate) : Prop :=
  0 <= fst (tip st) < two32 - 1 /\
  forall c, In c (credits st) -> 0 <= c_height c <= fst (tip st) /\ 0 <= c_maturity c < two32.
