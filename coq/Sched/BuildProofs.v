(* Sched/BuildProofs.v — proofs about scheduled transaction-building calls (C17, Sched/Build.v). *)
From Coq Require Import List ZArith NArith Bool Arith Lia Permutation.
Import ListNotations.
Open Scope Z_scope.
Require Import MW.Ledger.Model MW.Sched.Reads MW.Sched.ReadsProofs MW.Sched.Build.
Require MW.Tx.Select MW.Tx.Fee MW.Tx.Proofs.

Module TP := MW.Tx.Proofs.
Notation csum := (Select.sum_amt cr_amount).
Notation subperm := (@TP.subperm coinrow).

(* ---------------------------------------------------------------- outpoints *)

Lemma op_eqb_eq a b : op_eqb a b = true <-> a = b.
Proof.
  unfold op_eqb. rewrite andb_true_iff, !N.eqb_eq. destruct a, b; cbn. split; [intros [-> ->]; reflexivity|intros H; inversion H; auto].
Qed.

Lemma mem_op_In x l : mem_op x l = true <-> In x l.
Proof.
  unfold mem_op. rewrite existsb_exists. split.
  - intros (y & Hy & E). apply op_eqb_eq in E. subst. exact Hy.
  - intros H. exists x. split; [exact H|apply op_eqb_eq; reflexivity].
Qed.

Lemma nodup_ops_NoDup l : NoDup l -> nodup_ops l = true.
Proof.
  induction 1 as [|x l Hx Hn IH]; cbn; [reflexivity|]. rewrite IH, andb_true_r.
  destruct (mem_op x l) eqn:E; [apply mem_op_In in E; contradiction|reflexivity].
Qed.

Lemma find_coin_nodup el : NoDup (map cr_op el) -> forall c, In c el -> find_coin (cr_op c) el = Some c.
Proof.
  unfold find_coin. induction el as [|x el IH]; intros Hn c Hc; [destruct Hc|].
  cbn [map] in Hn. inversion Hn as [|? ? Hx Hn']; subst. cbn [find].
  destruct (op_eqb (cr_op x) (cr_op c)) eqn:E.
  - apply op_eqb_eq in E. destruct Hc as [->|Hc]; [reflexivity|].
    exfalso. apply Hx. rewrite E. apply in_map. exact Hc.
  - destruct Hc as [->|Hc]; [|apply IH; assumption].
    assert (op_eqb (cr_op c) (cr_op c) = true) by (apply op_eqb_eq; reflexivity). congruence.
Qed.

Lemma sum_ins_incl el : NoDup (map cr_op el) -> forall s, incl s el -> sum_ins el (map cr_op s) = Some (csum s).
Proof.
  intros Hn. induction s as [|c s IH]; intros Hi; [reflexivity|].
  cbn [map sum_ins]. rewrite (find_coin_nodup el Hn c) by (apply Hi; left; reflexivity).
  rewrite IH by (intros x Hx; apply Hi; right; exact Hx). reflexivity.
Qed.

(* a sub-multiset of a list with distinct outpoints is a correct input set for the amounts it sums to *)
Lemma tx_ok_at_subperm el s outs fee :
  NoDup (map cr_op el) -> subperm s el -> csum s = outs + fee -> tx_ok_at el (map cr_op s) outs fee = true.
Proof.
  intros Hn Hs Hsum. unfold tx_ok_at.
  rewrite (nodup_ops_NoDup _ (TP.subperm_NoDup_map _ cr_op s el Hs Hn)).
  rewrite (sum_ins_incl el Hn s (TP.subperm_incl _ _ _ Hs)). cbn. apply Z.eqb_eq. exact Hsum.
Qed.

(* ---------------------------------------------------------------- one selection *)

Lemma find_eligible_spec want cs s found ov :
  find_eligible want cs = Some (s, found, ov) ->
  subperm s cs /\ found = csum s /\ (length s <= Select.sel_k)%nat /\ (length s <= length cs)%nat.
Proof.
  unfold find_eligible.
  destruct (Select.opt_outputs cr_amount Fee.max_amount want (Select.top_k cr_amount Select.sel_k want cs)) as [r|] eqn:Ho; [|discriminate].
  intros H. injection H as <- <- _.
  assert (Hs : subperm r cs).
  { eapply TP.subperm_trans; [eapply TP.opt_outputs_subperm; exact Ho|apply TP.top_k_subperm]. }
  split; [exact Hs|]. split; [reflexivity|]. split.
  - eapply TP.opt_outputs_top_k_length; [apply TP.sel_k_pos|exact Ho].
  - apply TP.subperm_length. exact Hs.
Qed.

(* when the selection sums to less than the amount asked, the coins the selector keeps do not reach it *)
Lemma find_eligible_short want cs s found ov :
  0 < want -> find_eligible want cs = Some (s, found, ov) -> found < want ->
  csum (Select.top_k cr_amount Select.sel_k want cs) < want.
Proof.
  unfold find_eligible. intros Hw.
  destruct (Select.opt_outputs cr_amount Fee.max_amount want (Select.top_k cr_amount Select.sel_k want cs)) as [r|] eqn:Ho; [|discriminate].
  intros H Hlt. injection H as <- <- _.
  destruct (Z_lt_le_dec (csum (Select.top_k cr_amount Select.sel_k want cs)) want) as [|Hge]; [assumption|].
  pose proof (TP.opt_outputs_sum _ cr_amount _ _ _ _ Hw Ho Hge). lia.
Qed.

Section Call.
Variable ord : N -> N.
Variable w : N.
Variable sel : N -> bool.
Variable reserved : list op.
Variable nd : node.
Variable rd : nat -> wstate.

Notation cands_at := (cands_at ord w sel reserved rd).
Notation inner := (inner ord w sel reserved rd).
Notation outer := (outer ord w sel reserved nd rd).
Notation lookups := (lookups nd rd).

(* ---------------------------------------------------------------- look-ups *)

Lemma lookups_spec l : forall k k2,
  lookups k l = (k2, true) ->
  k2 = (k + length l)%nat /\
  forall i c, nth_error l i = Some c -> lookup_ok nd (rd (k + i)) (cr_op c) = true.
Proof.
  induction l as [|c l IH]; intros k k2 H; cbn [Build.lookups] in H.
  - injection H as <-. split; [cbn; lia|]. intros i c Hc. destruct i; discriminate.
  - destruct (lookup_ok nd (rd k) (cr_op c)) eqn:E; [|discriminate].
    destruct (IH _ _ H) as [-> Hl]. split; [cbn; lia|].
    intros i c' Hc. destruct i as [|i]; cbn in Hc.
    + injection Hc as <-. rewrite Nat.add_0_r. exact E.
    + replace (k + S i)%nat with (S k + i)%nat by lia. apply Hl. exact Hc.
Qed.

Lemma lookups_le l : forall k k2 b, lookups k l = (k2, b) -> (k <= k2)%nat.
Proof.
  induction l as [|c l IH]; intros k k2 b H; cbn [Build.lookups] in H.
  - injection H as <- _. lia.
  - destruct (lookup_ok nd (rd k) (cr_op c)).
    + apply IH in H. lia.
    + injection H as <- _. lia.
Qed.

(* ---------------------------------------------------------------- inner loop *)

Lemma inner_unfold f k out target adj :
  inner (S f) k out target adj =
    (if (Fee.max_amount <? target + out) || (Fee.max_amount <? target + out + adj) || (target + out + adj =? 0)
     then (k, IFail BOther)
     else match find_eligible (target + out + adj) (cands_at k) with
          | None => (S k, IFail BOther)
          | Some (s, found, overfull) =>
            if found <? target + out + adj then (S k, IFail (BRefused overfull))
            else if found - (target + out) =? 0 then (S k, IOk s 0)
            else if found - (target + out) <? Fee.min_relay then inner f (S k) out target Fee.min_relay
            else (S k, IOk s (found - (target + out)))
          end).
Proof. reflexivity. Qed.

(* the selection returned is the selection of ONE read transaction: the last one of the loop *)
Lemma inner_ok fuel : forall k out target adj k1 s ch,
  inner fuel k out target adj = (k1, IOk s ch) ->
  exists kb, (k <= kb)%nat /\ k1 = S kb /\
    subperm s (cands_at kb) /\ csum s = target + out + ch /\ adj <= ch /\
    (ch = 0 \/ Fee.min_relay <= ch) /\
    (length s <= Select.sel_k)%nat /\ (length s <= length (cands_at kb))%nat.
Proof.
  induction fuel as [|f IH]; intros k out target adj k1 s ch H; [discriminate|].
  rewrite inner_unfold in H.
  destruct ((Fee.max_amount <? target + out) || (Fee.max_amount <? target + out + adj) || (target + out + adj =? 0)); [discriminate|].
  destruct (find_eligible (target + out + adj) (cands_at k)) as [[[s0 found] ov]|] eqn:Hf; [|discriminate].
  destruct (find_eligible_spec _ _ _ _ _ Hf) as (Hs & Hfound & Hl1 & Hl2).
  destruct (found <? target + out + adj) eqn:Hlt; [discriminate|]. apply Z.ltb_ge in Hlt.
  destruct (found - (target + out) =? 0) eqn:H0.
  - injection H as <- <- <-. apply Z.eqb_eq in H0. exists k. repeat split; auto; lia.
  - destruct (found - (target + out) <? Fee.min_relay) eqn:Hd.
    + apply IH in H. destruct H as (kb & Hk & Hk1 & R1 & R2 & R3 & R4 & R5). exists kb.
      apply Z.ltb_lt in Hd. split; [lia|]. split; [exact Hk1|]. repeat split; auto; try tauto; lia.
    + injection H as <- <- <-. apply Z.ltb_ge in Hd. exists k. repeat split; auto; lia.
Qed.

(* a refusal is the refusal of ONE read transaction: what the selector keeps there does not reach
   the amount asked, which is the outputs plus the fee target plus at most one MinRelayTxFee *)
Lemma inner_refused fuel : forall k out target adj k1 ov,
  0 < target + out -> 0 <= adj <= Fee.min_relay ->
  inner fuel k out target adj = (k1, IFail (BRefused ov)) ->
  exists kb a, (k <= kb)%nat /\ k1 = S kb /\ 0 <= a <= Fee.min_relay /\
    csum (Select.top_k cr_amount Select.sel_k (target + out + a) (cands_at kb)) < target + out + a.
Proof.
  induction fuel as [|f IH]; intros k out target adj k1 ov Hpos Hadj H; [discriminate|].
  rewrite inner_unfold in H.
  destruct ((Fee.max_amount <? target + out) || (Fee.max_amount <? target + out + adj) || (target + out + adj =? 0)); [discriminate|].
  destruct (find_eligible (target + out + adj) (cands_at k)) as [[[s0 found] ov0]|] eqn:Hf; [|discriminate].
  destruct (found <? target + out + adj) eqn:Hlt.
  - injection H as <- _. apply Z.ltb_lt in Hlt. exists k, adj. repeat split; try lia.
    eapply find_eligible_short; [lia|exact Hf|exact Hlt].
  - destruct (found - (target + out) =? 0); [discriminate|].
    destruct (found - (target + out) <? Fee.min_relay); [|discriminate].
    pose proof TP.min_relay_ge.
    apply IH in H; [|exact Hpos|lia]. destruct H as (kb & a & Hk & R). exists kb, a. split; [lia|exact R].
Qed.

Lemma inner_le fuel : forall k out target adj k1 r, inner fuel k out target adj = (k1, r) -> (k <= k1)%nat.
Proof.
  induction fuel as [|f IH]; intros k out target adj k1 r H; [injection H as <- _; lia|].
  rewrite inner_unfold in H.
  destruct ((Fee.max_amount <? target + out) || (Fee.max_amount <? target + out + adj) || (target + out + adj =? 0)); [injection H as <- _; lia|].
  destruct (find_eligible (target + out + adj) (cands_at k)) as [[[s0 found] ov0]|]; [|injection H as <- _; lia].
  destruct (found <? target + out + adj); [injection H as <- _; lia|].
  destruct (found - (target + out) =? 0); [injection H as <- _; lia|].
  destruct (found - (target + out) <? Fee.min_relay); [apply IH in H; lia|injection H as <- _; lia].
Qed.

Lemma inner_fail_not_tx fuel : forall k out target adj k1 r s c f,
  inner fuel k out target adj = (k1, IFail r) -> r <> BTx s c f.
Proof.
  induction fuel as [|fu IH]; intros k out target adj k1 r s c f H; [injection H as _ <-; discriminate|].
  rewrite inner_unfold in H.
  destruct ((Fee.max_amount <? target + out) || (Fee.max_amount <? target + out + adj) || (target + out + adj =? 0)); [injection H as _ <-; discriminate|].
  destruct (find_eligible (target + out + adj) (cands_at k)) as [[[s0 found] ov0]|]; [|injection H as _ <-; discriminate].
  destruct (found <? target + out + adj); [injection H as _ <-; discriminate|].
  destruct (found - (target + out) =? 0); [discriminate|].
  destruct (found - (target + out) <? Fee.min_relay); [eapply IH; exact H|discriminate].
Qed.

(* three iterations are never needed: the second one asks for MinRelayTxFee more than the first,
   so its change is no dust *)
Lemma inner_fuel_enough k out target r k1 : inner inner_fuel k out target 0 = (k1, r) -> r <> IFail BFuel.
Proof.
  unfold inner_fuel. rewrite inner_unfold.
  destruct ((Fee.max_amount <? target + out) || (Fee.max_amount <? target + out + 0) || (target + out + 0 =? 0)); [intros H; injection H as _ <-; discriminate|].
  destruct (find_eligible (target + out + 0) (cands_at k)) as [[[s0 found] ov0]|]; [|intros H; injection H as _ <-; discriminate].
  destruct (found <? target + out + 0); [intros H; injection H as _ <-; discriminate|].
  destruct (found - (target + out) =? 0); [intros H; injection H as _ <-; discriminate|].
  destruct (found - (target + out) <? Fee.min_relay); [|intros H; injection H as _ <-; discriminate].
  rewrite inner_unfold.
  destruct ((Fee.max_amount <? target + out) || (Fee.max_amount <? target + out + Fee.min_relay) || (target + out + Fee.min_relay =? 0)); [intros H; injection H as _ <-; discriminate|].
  destruct (find_eligible (target + out + Fee.min_relay) (cands_at (S k))) as [[[s1 found1] ov1]|]; [|intros H; injection H as _ <-; discriminate].
  destruct (found1 <? target + out + Fee.min_relay) eqn:Hlt; [intros H; injection H as _ <-; discriminate|].
  apply Z.ltb_ge in Hlt.
  destruct (found1 - (target + out) =? 0); [intros H; injection H as _ <-; discriminate|].
  destruct (found1 - (target + out) <? Fee.min_relay) eqn:Hd; [apply Z.ltb_lt in Hd; lia|].
  intros H; injection H as _ <-; discriminate.
Qed.

(* ---------------------------------------------------------------- outer loop *)

Lemma outer_unfold f k q target :
  outer (S f) k q target =
    match inner inner_fuel k (q_out q) target 0 with
    | (k1, IFail r) => (k1, r)
    | (k1, IOk s ch) =>
      match lookups k1 s with
      | (k2, false) => (k2, BLookup)
      | (k2, true) =>
        if req_fee q (length s) ch <=? target then
          match lookups k2 s with
          | (k3, true) => (k3, BTx s ch target)
          | (k3, false) => (k3, BLookup)
          end
        else outer f k2 q (req_fee q (length s) ch)
      end
    end.
Proof. reflexivity. Qed.

(* THE SINGLE BOUNDARY of a built transaction: read transaction kb, the selection round of the last
   pass of the fee loop.  Every input is one of its candidates, their values sum to outputs +
   change + fee, and every input has been looked up successfully twice afterwards. *)
Lemma outer_ok fuel : forall k q target k3 s ch fee,
  outer fuel k q target = (k3, BTx s ch fee) ->
  exists kb, (k <= kb)%nat /\ k3 = (S kb + length s + length s)%nat /\
    subperm s (cands_at kb) /\ csum s = fee + q_out q + ch /\ (ch = 0 \/ Fee.min_relay <= ch) /\
    target <= fee /\ req_fee q (length s) ch <= fee /\
    (length s <= Select.sel_k)%nat /\
    (forall i c, nth_error s i = Some c ->
       lookup_ok nd (rd (S kb + i)) (cr_op c) = true /\ lookup_ok nd (rd (S kb + length s + i)) (cr_op c) = true).
Proof.
  induction fuel as [|f IH]; intros k q target k3 s ch fee H; [discriminate|].
  rewrite outer_unfold in H.
  destruct (inner inner_fuel k (q_out q) target 0) as [k1 [s0 ch0|r]] eqn:Hi;
    [|injection H as _ ->; exfalso; exact (inner_fail_not_tx _ _ _ _ _ _ _ _ _ _ Hi eq_refl)].
  destruct (lookups k1 s0) as [k2 [|]] eqn:Hl1; [|discriminate].
  destruct (req_fee q (length s0) ch0 <=? target) eqn:Hc.
  - destruct (lookups k2 s0) as [k3' [|]] eqn:Hl2; [|discriminate].
    injection H as <- <- <- <-. apply Z.leb_le in Hc.
    destruct (inner_ok _ _ _ _ _ _ _ _ Hi) as (kb & Hk & -> & Hs & Hsum & _ & Hch & Hlen & _).
    destruct (lookups_spec _ _ _ Hl1) as [-> L1]. destruct (lookups_spec _ _ _ Hl2) as [-> L2].
    exists kb. repeat split; auto; try lia.
  - apply Z.leb_gt in Hc. apply IH in H.
    destruct H as (kb & Hk & Hk3 & R1 & R2 & R3 & R4 & R5). exists kb.
    apply inner_le in Hi. apply lookups_le in Hl1. split; [lia|]. split; [exact Hk3|].
    destruct R5 as (R5 & R6 & R7). repeat split; try tauto; try lia; apply R7; assumption.
Qed.

(* a refusal: the read transaction kb at which it happened, and the amount asked there *)
Lemma outer_refused fuel : forall k q target k1 ov,
  0 <= q_out q -> 0 < target -> 0 <= q_nout q -> 0 <= q_payload q ->
  outer fuel k q target = (k1, BRefused ov) ->
  exists kb t a, (k <= kb)%nat /\ k1 = S kb /\ target <= t /\ 0 <= a <= Fee.min_relay /\
    (t = target \/ exists n d, (n <= Select.sel_k)%nat /\ (exists j, (j < k1)%nat /\ (n <= length (cands_at j))%nat) /\ 0 <= d <= 1 /\
                    t = Fee.required_fee (Fee.estimate_signed_size (Z.of_nat n) (q_nout q + d) (q_payload q))) /\
    csum (Select.top_k cr_amount Select.sel_k (t + q_out q + a) (cands_at kb)) < t + q_out q + a.
Proof.
  induction fuel as [|f IH]; intros k q target k1 ov Hout Ht Hn Hp H; [discriminate|].
  rewrite outer_unfold in H.
  destruct (inner inner_fuel k (q_out q) target 0) as [k1' [s0 ch0|r]] eqn:Hi.
  - destruct (lookups k1' s0) as [k2 [|]] eqn:Hl1; [|discriminate].
    destruct (req_fee q (length s0) ch0 <=? target) eqn:Hc.
    + destruct (lookups k2 s0) as [k3' [|]]; discriminate.
    + apply Z.leb_gt in Hc.
      destruct (inner_ok _ _ _ _ _ _ _ _ Hi) as (kb0 & _ & Hkb0 & _ & _ & _ & _ & Hlen & Hlen2).
      apply IH in H; auto; [|lia].
      destruct H as (kb & t & a & Hk & Hk1 & Htt & Ha & Hor & Hlt).
      apply inner_le in Hi. apply lookups_le in Hl1.
      exists kb, t, a. split; [lia|]. split; [exact Hk1|]. split; [lia|]. split; [exact Ha|]. split; [|exact Hlt].
      destruct Hor as [->|Hor]; [|right; exact Hor].
      right. exists (length s0), (if ch0 =? 0 then 0 else 1). split; [exact Hlen|]. split; [exists kb0; split; [lia|exact Hlen2]|].
      split; [destruct (ch0 =? 0); lia|]. reflexivity.
  - injection H as <- ->.
    pose proof TP.min_relay_ge.
    apply inner_refused in Hi; [|lia|lia]. destruct Hi as (kb & a & Hk & Hk1 & Ha & Hlt).
    exists kb, target, a. repeat split; auto; try lia.
Qed.

(* the fuel of the outer loop is never used up: from the second pass on the target is the relay
   minimum of a candidate size, and a further pass needs a strictly larger candidate; candidates
   are ranked by 2*inputs + change in 0 .. 2K+1 — whatever stores serve the passes *)
Lemma outer_fuel_from f : forall k q a d k1 r,
  0 <= q_nout q -> 0 <= q_payload q -> 0 <= a <= Z.of_nat Select.sel_k -> 0 <= d <= 1 ->
  2 * Z.of_nat Select.sel_k + 3 <= Z.of_nat f + (2 * a + d) ->
  outer f k q (Fee.required_fee (Fee.estimate_signed_size a (q_nout q + d) (q_payload q))) = (k1, r) -> r <> BFuel.
Proof.
  induction f as [|f IH]; intros k q a d k1 r Hn Hp Ha Hd Hf H; [lia|].
  rewrite outer_unfold in H.
  destruct (inner inner_fuel k (q_out q) _ 0) as [k1' [s0 ch0|r0]] eqn:Hi.
  - destruct (lookups k1' s0) as [k2 [|]]; [|injection H as _ <-; discriminate].
    destruct (req_fee q (length s0) ch0 <=? _) eqn:Hc.
    + destruct (lookups k2 s0) as [k3' [|]]; injection H as _ <-; discriminate.
    + apply Z.leb_gt in Hc.
      destruct (inner_ok _ _ _ _ _ _ _ _ Hi) as (kb0 & _ & _ & _ & _ & _ & _ & Hlen & _).
      unfold req_fee in H, Hc.
      set (d' := if ch0 =? 0 then 0 else 1) in *.
      assert (Hd' : 0 <= d' <= 1) by (unfold d'; destruct (ch0 =? 0); lia).
      eapply (IH k2 q (Z.of_nat (length s0)) d'); eauto; try lia.
      assert (Hlt : Fee.estimate_signed_size a (q_nout q + d) (q_payload q)
                    < Fee.estimate_signed_size (Z.of_nat (length s0)) (q_nout q + d') (q_payload q)).
      { destruct (Z_lt_le_dec (Fee.estimate_signed_size a (q_nout q + d) (q_payload q))
                              (Fee.estimate_signed_size (Z.of_nat (length s0)) (q_nout q + d') (q_payload q))) as [|Hle]; auto.
        exfalso. apply TP.required_fee_mono in Hle; [lia|]. apply TP.estimate_pos; lia. }
      apply TP.estimate_rank in Hlt; lia.
  - injection H as _ <-. intros E. subst r0. exact (inner_fuel_enough _ _ _ _ _ Hi eq_refl).
Qed.

Lemma outer_fuel_enough k q target k1 r :
  0 <= q_nout q -> 0 <= q_payload q -> outer outer_fuel k q target = (k1, r) -> r <> BFuel.
Proof.
  intros Hn Hp H. unfold outer_fuel in H. remember (Select.sel_k + 3)%nat as m.
  replace (2 * m)%nat with (S (m + m - 1))%nat in H by (subst m; lia).
  rewrite outer_unfold in H.
  destruct (inner inner_fuel k (q_out q) target 0) as [k1' [s0 ch0|r0]] eqn:Hi.
  - destruct (lookups k1' s0) as [k2 [|]]; [|injection H as _ <-; discriminate].
    destruct (req_fee q (length s0) ch0 <=? _) eqn:Hc.
    + destruct (lookups k2 s0) as [k3' [|]]; injection H as _ <-; discriminate.
    + destruct (inner_ok _ _ _ _ _ _ _ _ Hi) as (kb0 & _ & _ & _ & _ & _ & _ & Hlen & _).
      unfold req_fee in H.
      eapply (outer_fuel_from _ k2 q (Z.of_nat (length s0)) (if ch0 =? 0 then 0 else 1)); eauto; try lia.
      * destruct (ch0 =? 0); lia.
      * subst m. destruct (ch0 =? 0); lia.
  - injection H as _ <-. intros E. subst r0. exact (inner_fuel_enough _ _ _ _ _ Hi eq_refl).
Qed.

End Call.

(* ---------------------------------------------------------------- candidates of one store *)

(* the unspent bucket is keyed by wallet and outpoint: no outpoint twice *)
Definition store_ok (st : wstate) (w : N) : Prop := NoDup (map credit_op (wallet_unspent st w)).
Definition amounts_ok (st : wstate) : Prop := forall c, In c (credits st) -> 0 <= c_amount c.

Lemma insert_row_perm ord r l : Permutation (insert_row ord r l) (r :: l).
Proof.
  induction l as [|x l IH]; cbn; [apply Permutation_refl|].
  destruct (row_leb ord r x); [apply Permutation_refl|].
  eapply perm_trans; [apply perm_skip; exact IH|apply perm_swap].
Qed.

Lemma sort_rows_perm ord l : Permutation (sort_rows ord l) l.
Proof.
  induction l as [|x l IH]; cbn; [apply perm_nil|].
  eapply perm_trans; [apply insert_row_perm|apply perm_skip; exact IH].
Qed.

Lemma NoDup_map_filter {A B} (f : A -> B) (p : A -> bool) l : NoDup (map f l) -> NoDup (map f (filter p l)).
Proof.
  induction l as [|x l IH]; cbn; intros H; [constructor|]. inversion H as [|? ? Hx Hn]; subst.
  destruct (p x); cbn; [constructor|]; auto.
  intros Hin. apply Hx. apply in_map_iff in Hin. destruct Hin as (y & E & Hy). apply filter_In in Hy.
  rewrite <- E. apply in_map. tauto.
Qed.

Lemma unspent_list_ops rd sel h rows : forall k x,
  In x (map cr_op (snd (unspent_list rd sel h rows k))) -> In x (map r_op rows).
Proof.
  induction rows as [|r rows IH]; intros k x H; cbn [unspent_list] in H; [destruct H|].
  cbn [map]. destruct (find_credit (rd k) r) as [c|].
  - destruct ((c_amount c =? 0) || negb (sel (c_sh c))); [right; eapply IH; exact H|].
    destruct (unspent_list rd sel h rows (S (S k))) as [k' l] eqn:El. cbn in H. destruct H as [H|H]; [left; exact H|].
    right. apply (IH (S (S k))). rewrite El. exact H.
  - right. eapply IH; exact H.
Qed.

Lemma unspent_list_nodup rd sel h rows : NoDup (map r_op rows) -> forall k,
  NoDup (map cr_op (snd (unspent_list rd sel h rows k))).
Proof.
  induction rows as [|r rows IH]; intros Hn k; cbn [unspent_list]; [constructor|].
  cbn [map] in Hn. inversion Hn as [|? ? Hx Hn']; subst.
  destruct (find_credit (rd k) r) as [c|]; [|apply IH; assumption].
  destruct ((c_amount c =? 0) || negb (sel (c_sh c))); [apply IH; assumption|].
  pose proof (IH Hn' (S (S k))) as Hl. pose proof (unspent_list_ops rd sel h rows (S (S k))) as Hops.
  destruct (unspent_list rd sel h rows (S (S k))) as [k' l]. cbn in *. constructor; [|exact Hl].
  intros Hin. apply Hx. apply Hops. exact Hin.
Qed.

Lemma cands_unfold ord w sel reserved st :
  cands ord w sel reserved st =
  filter (fun c => negb (mem_op (cr_op c) reserved))
    (filter Reads.eligible (filter (fun c => negb (cr_spent c))
       (snd (unspent_list (fun _ => st) sel (fst (tip st)) (unspent_rows ord st w) 2)))).
Proof.
  unfold cands, spendable_coins, utxo_list.
  destruct (unspent_list (fun _ => st) sel (fst (tip st)) (unspent_rows ord st w) 2) as [k l]. reflexivity.
Qed.

Lemma cands_nodup ord w sel reserved st : store_ok st w -> NoDup (map cr_op (cands ord w sel reserved st)).
Proof.
  intros Hs. rewrite cands_unfold. do 3 apply NoDup_map_filter. apply unspent_list_nodup.
  unfold unspent_rows.
  eapply Permutation_NoDup; [apply Permutation_sym, Permutation_map, sort_rows_perm|].
  rewrite map_map. cbn. exact Hs.
Qed.

(* what a candidate is, at the store it was read from: a listed coin of the wallet whose credit
   record is not spent, mature at that store's tip, of the standard class, not reserved *)
Lemma cands_spec ord w sel reserved st c :
  heights_ok st -> In c (cands ord w sel reserved st) ->
  immature_at st c = false /\ cr_spent c = false /\ cr_class c = CStd /\ ~ In (cr_op c) reserved.
Proof.
  intros [Ht Hc] Hin. rewrite cands_unfold in Hin.
  apply filter_In in Hin. destruct Hin as [Hin Hres]. apply filter_In in Hin. destruct Hin as [Hin Hel].
  apply filter_In in Hin. destruct Hin as [Hin Hsp].
  destruct (unspent_list_in _ _ _ _ _ _ Hin) as (r & cc & kk & Hr & Hf & Hh & Hm & Hcf).
  destruct (unspent_rows_height _ _ _ _ Hr) as (c0 & Hc0 & Hh0).
  destruct (Hc c0 Hc0) as [Hb0 _].
  unfold Reads.eligible in Hel. apply andb_true_iff in Hel. destruct Hel as [Hel Hcl].
  split; [|split; [|split]].
  - unfold immature_at. rewrite Hh. apply Z.leb_le in Hel. rewrite Hcf in Hel.
    rewrite confs_no_wrap in Hel by (rewrite ?Hh0; lia). apply Z.ltb_ge. exact Hel.
  - destruct (cr_spent c); [discriminate|reflexivity].
  - destruct (cr_class c); try discriminate. reflexivity.
  - intros H. apply mem_op_In in H. rewrite H in Hres. discriminate.
Qed.

Lemma unspent_list_amount rd sel h rows : forall k x,
  In x (snd (unspent_list rd sel h rows k)) -> exists kk c, In c (credits (rd kk)) /\ cr_amount x = c_amount c.
Proof.
  induction rows as [|r rows IH]; intros k x H; cbn [unspent_list] in H; [destruct H|].
  destruct (find_credit (rd k) r) as [c|] eqn:Ef; [|eapply IH; exact H].
  destruct ((c_amount c =? 0) || negb (sel (c_sh c))); [eapply IH; exact H|].
  destruct (unspent_list rd sel h rows (S (S k))) as [k' l] eqn:El. cbn in H. destruct H as [<-|H].
  - exists k, c. split; [eapply find_credit_in; exact Ef|reflexivity].
  - apply (IH (S (S k))). rewrite El. exact H.
Qed.

Lemma cands_nonneg ord w sel reserved st :
  amounts_ok st -> Forall (fun c => 0 <= cr_amount c) (cands ord w sel reserved st).
Proof.
  intros Ha. apply Forall_forall. intros c Hin. rewrite cands_unfold in Hin.
  apply filter_In in Hin. destruct Hin as [Hin _]. apply filter_In in Hin. destruct Hin as [Hin _].
  apply filter_In in Hin. destruct Hin as [Hin _].
  destruct (unspent_list_amount _ _ _ _ _ _ Hin) as (kk & c0 & Hc0 & ->). apply Ha. exact Hc0.
Qed.

(* the funds within the input cap are what the selector can reach at best *)
Lemma cap_funds_lt el a :
  Forall (fun c => 0 <= cr_amount c) el ->
  csum (Select.top_k cr_amount Select.sel_k a el) < a -> cap_funds el < a.
Proof.
  intros Hpos Hlt. unfold cap_funds.
  destruct (Z_lt_le_dec (csum (firstn Select.sel_k (Select.sort_desc cr_amount el))) a) as [|Hge]; [assumption|].
  exfalso.
  assert (Hs : subperm (firstn Select.sel_k (Select.sort_desc cr_amount el)) el).
  { eapply TP.subperm_trans; [apply TP.firstn_subperm|]. apply TP.subperm_perm. apply TP.sort_desc_perm. }
  pose proof (TP.top_k_covers _ cr_amount Select.sel_k a el _ Hpos Hs (firstn_le_length _ _) Hge). lia.
Qed.

(* ---------------------------------------------------------------- the theorems *)

Lemma init_target_pos uf : 0 <= uf -> 0 < init_target uf.
Proof. intros H. unfold init_target. pose proof TP.min_relay_ge. destruct (uf =? 0) eqn:E; [lia|apply Z.eqb_neq in E; lia]. Qed.

(* C17_build_single_boundary: whatever stores serve the read transactions of the call — any
   history of commits, placed anywhere between them —, a transaction that comes back is a correct
   answer at ONE of them: the store of read transaction kb, the selection round of the last pass *)
Theorem build_single_boundary ord w sel reserved nd rd q k s ch fee :
  (forall j, store_ok (rd j) w) ->
  build_call ord w sel reserved nd rd false q = (k, BTx s ch fee) ->
  exists kb, (kb < k)%nat /\ k = (S kb + length s + length s)%nat /\
    tx_ok_at (cands ord w sel reserved (rd kb)) (map cr_op s) (q_out q + ch) fee = true /\
    (forall c, In c s -> In c (cands ord w sel reserved (rd kb))) /\
    NoDup (map cr_op s) /\ csum s = q_out q + ch + fee /\
    init_target (q_userfee q) <= fee /\ req_fee q (length s) ch <= fee /\ (ch = 0 \/ Fee.min_relay <= ch) /\
    (forall i c, nth_error s i = Some c ->
       lookup_ok nd (rd (S kb + i)%nat) (cr_op c) = true /\ lookup_ok nd (rd (S kb + length s + i)%nat) (cr_op c) = true).
Proof.
  intros Hok H. unfold build_call in H.
  destruct (outer_ok _ _ _ _ _ _ _ _ _ _ _ _ _ _ H) as (kb & _ & Hk & Hs & Hsum & Hch & Ht & Hr & _ & Hl).
  exists kb. split; [lia|]. split; [exact Hk|].
  pose proof (cands_nodup ord w sel reserved (rd kb) (Hok kb)) as Hn.
  split; [apply tx_ok_at_subperm; [exact Hn|exact Hs|lia]|].
  split; [intros c Hc; exact (TP.subperm_incl _ _ _ Hs c Hc)|].
  split; [exact (TP.subperm_NoDup_map _ cr_op _ _ Hs Hn)|].
  repeat split; auto; try lia; apply Hl; assumption.
Qed.

(* every input is spendable at that boundary: mature at its tip, unspent, standard, not reserved *)
Theorem build_inputs_spendable ord w sel reserved nd rd q k s ch fee :
  (forall j, store_ok (rd j) w) -> (forall j, heights_ok (rd j)) ->
  build_call ord w sel reserved nd rd false q = (k, BTx s ch fee) ->
  exists kb, (kb < k)%nat /\
    forall c, In c s -> immature_at (rd kb) c = false /\ cr_spent c = false /\ cr_class c = CStd /\ ~ In (cr_op c) reserved.
Proof.
  intros Hok Hh H. destruct (build_single_boundary _ _ _ _ _ _ _ _ _ _ _ Hok H) as (kb & Hk & _ & _ & Hin & _).
  exists kb. split; [exact Hk|]. intros c Hc. eapply cands_spec; [apply Hh|apply Hin; exact Hc].
Qed.

(* a refusal is the refusal of ONE store: there the funds within the input cap do not cover the
   outputs, the fee target in force (at most the largest one any pass can set) and the dust slack *)
Theorem build_refusal_boundary ord w sel reserved nd rd q k ov nmax :
  (forall j, (j < k)%nat -> amounts_ok (rd j)) ->
  (forall j, (j < k)%nat -> Z.of_nat (length (cands ord w sel reserved (rd j))) <= nmax) ->
  0 <= q_out q -> 0 <= q_userfee q -> 0 <= q_nout q -> 0 <= q_payload q ->
  build_call ord w sel reserved nd rd false q = (k, BRefused ov) ->
  exists kb, (kb < k)%nat /\ refusal_ok_at (cands ord w sel reserved (rd kb)) q nmax = true.
Proof.
  intros Ha Hmax Hout Hu Hn Hp H. unfold build_call in H.
  pose proof (init_target_pos _ Hu) as Hpos.
  apply outer_refused in H; auto. destruct H as (kb & t & a & _ & Hk & Htt & Haa & Hor & Hlt).
  exists kb. split; [lia|]. unfold refusal_ok_at. apply Z.ltb_lt.
  assert (Hkb : (kb < k)%nat) by lia.
  pose proof (cap_funds_lt _ _ (cands_nonneg ord w sel reserved _ (Ha kb Hkb)) Hlt) as Hcap.
  assert (Hcapt : t <= target_cap q nmax).
  { unfold target_cap. destruct Hor as [->|(n & d & Hnk & (j & Hj & Hnj) & Hd & ->)]; [lia|].
    apply Z.max_le_iff. right. apply TP.required_fee_mono; [apply TP.estimate_pos; lia|].
    apply TP.estimate_mono; [|lia]. pose proof (Hmax j Hj). unfold cands_at in Hnj. lia. }
  lia.
Qed.

(* the loops never run out of fuel: the fuelled functions are the Go loops *)
Theorem build_call_fuel ord w sel reserved nd rd q k r :
  0 <= q_nout q -> 0 <= q_payload q -> build_call ord w sel reserved nd rd false q = (k, r) -> r <> BFuel.
Proof. intros Hn Hp H. unfold build_call in H. eapply outer_fuel_enough; eauto. Qed.

(* nothing committed while the call runs: the boundary is the store of the call *)
Corollary build_quiet ord w sel reserved nd st q k s ch fee :
  store_ok st w ->
  build_call ord w sel reserved nd (fun _ => st) false q = (k, BTx s ch fee) ->
  tx_ok_at (cands ord w sel reserved st) (map cr_op s) (q_out q + ch) fee = true.
Proof.
  intros Hok H. destruct (build_single_boundary ord w sel reserved nd (fun _ => st) q k s ch fee (fun _ => Hok) H) as (kb & _ & _ & R & _).
  exact R.
Qed.

(* ---------------------------------------------------------------- schedules over committed stores *)

Lemma idx_cons x y r k : idx (x :: y :: r) (S k) = idx (y :: r) k.
Proof. reflexivity. Qed.

Lemma idx_ge_head sc : monotone sc = true -> forall k, (idx sc 0 <= idx sc k)%nat.
Proof.
  induction sc as [|x sc IH]; intros Hm k; [destruct k; cbn; lia|].
  destruct sc as [|y r]; [rewrite !idx_single; lia|].
  destruct k as [|k]; [lia|]. rewrite idx_cons.
  cbn [monotone] in Hm. apply andb_true_iff in Hm. destruct Hm as [Hxy Hm]. apply Nat.leb_le in Hxy.
  specialize (IH Hm k). change (idx (x :: y :: r) 0) with x. change (idx (y :: r) 0) with y in IH. lia.
Qed.

Lemma idx_mono sc : monotone sc = true -> forall a b, (a <= b)%nat -> (idx sc a <= idx sc b)%nat.
Proof.
  induction sc as [|x sc IH]; intros Hm a b Hab; [destruct a, b; cbn; lia|].
  destruct sc as [|y r]; [rewrite !idx_single; lia|].
  destruct a as [|a]; [apply idx_ge_head; exact Hm|].
  destruct b as [|b]; [lia|]. rewrite !idx_cons.
  cbn [monotone] in Hm. apply andb_true_iff in Hm. apply IH; [tauto|lia].
Qed.

Lemma first_boundary_some f : forall n lo b, (lo <= b < lo + n)%nat -> f b = true -> first_boundary f lo n <> None.
Proof.
  induction n as [|n IH]; intros lo b Hb Hf; [lia|]. cbn. destruct (f lo) eqn:E; [discriminate|].
  apply (IH (S lo) b); [|exact Hf]. destruct (Nat.eq_dec lo b) as [->|]; [congruence|lia].
Qed.

(* the same in terms of schedules: with commits placed anywhere between the read transactions, the
   boundary is a commit index between the one at which the call began and the one at which it
   ended, and the judged function [tx_boundary] finds one *)
Theorem build_sched_single_boundary ord w sel reserved nd ss sc q k s ch fee :
  monotone sc = true -> (forall j, store_ok (store_at ss j) w) ->
  build_sched ord w sel reserved nd false ss sc q = (k, BTx s ch fee) ->
  (exists b, (idx sc 0 <= b <= idx sc (k - 1))%nat /\
     tx_ok_at (cands ord w sel reserved (store_at ss b)) (map cr_op s) (q_out q + ch) fee = true) /\
  tx_boundary ord w sel reserved ss (idx sc 0) (idx sc (k - 1)) (map cr_op s) (q_out q + ch) fee <> None.
Proof.
  intros Hm Hok H. unfold build_sched in H.
  destruct (build_single_boundary ord w sel reserved nd _ q k s ch fee (fun j => Hok (idx sc j)) H) as (kb & Hk & _ & R & _).
  assert (Hb : (idx sc 0 <= idx sc kb <= idx sc (k - 1))%nat).
  { split; apply idx_mono; auto; lia. }
  split; [exists (idx sc kb); split; [exact Hb|exact R]|].
  unfold tx_boundary. apply (first_boundary_some _ _ _ (idx sc kb)); [lia|exact R].
Qed.

Lemma max_cands_ge ord w sel reserved ss lo hi b : (lo <= b <= hi)%nat ->
  Z.of_nat (length (cands ord w sel reserved (store_at ss b))) <= max_cands ord w sel reserved ss lo hi.
Proof.
  intros Hb. unfold max_cands.
  assert (Hin : In b (seq lo (S hi - lo))) by (apply in_seq; lia).
  induction (seq lo (S hi - lo)) as [|x l IH]; [destruct Hin|]. cbn.
  destruct Hin as [->|Hin]; [lia|]. specialize (IH Hin). lia.
Qed.

Theorem build_sched_refusal_boundary ord w sel reserved nd ss sc q k ov :
  monotone sc = true -> (forall j, amounts_ok (store_at ss j)) ->
  0 <= q_out q -> 0 <= q_userfee q -> 0 <= q_nout q -> 0 <= q_payload q ->
  build_sched ord w sel reserved nd false ss sc q = (k, BRefused ov) ->
  refusal_boundary ord w sel reserved ss (idx sc 0) (idx sc (k - 1)) q <> None.
Proof.
  intros Hm Ha Hout Hu Hn Hp H. unfold build_sched in H.
  assert (Hin : forall j, (j < k)%nat -> (idx sc 0 <= idx sc j <= idx sc (k - 1))%nat).
  { intros j Hj. split; apply idx_mono; auto; lia. }
  destruct (build_refusal_boundary ord w sel reserved nd _ q k ov
              (max_cands ord w sel reserved ss (idx sc 0) (idx sc (k - 1)))
              (fun j _ => Ha (idx sc j)) (fun j Hj => max_cands_ge _ _ _ _ _ _ _ _ (Hin j Hj)) Hout Hu Hn Hp H) as (kb & Hk & R).
  unfold refusal_boundary. apply (first_boundary_some _ _ _ (idx sc kb)); [specialize (Hin kb Hk); lia|exact R].
Qed.

(* ---------------------------------------------------------------- seeded variant (keep the picks): refutation *)

(* The wallet holds one mature coin of 1 MASS (coinbase 1:0).  The request leaves a change of
   half the relay fee: dust, so 0.0001 MASS more is asked for.  Block 7, committed between the
   first selection and the top-up, spends 1:0 and pays the wallet 20:0.  The variant keeps 1:0 and
   tops up with 20:0: the transaction spends a coin and the coin its spender created.  The code as
   it is selects from scratch in the store after block 7 and refuses. *)
Definition bw_spend : tx := {| t_id := 20; t_cb := false; t_ins := [(1%N, 0%N)]; t_outs := [w_pay 99000000] |}.
Definition bw_chain : list block :=
  [w_blk 101 100 1 [w_cb 1 [w_pay 100000000]]; w_blk 102 101 2 [w_cb 2 []]; w_blk 103 102 3 [w_cb 3 []];
   w_blk 104 103 4 [w_cb 4 []]; w_blk 105 104 5 [w_cb 5 []]; w_blk 106 105 6 [w_cb 6 []]].
Definition bw_b7 : block := w_blk 107 106 7 [w_cb 7 []; bw_spend].
Definition bw_node : node := w_blk 100 0 0 [] :: bw_chain ++ [bw_b7].
Definition bw_st : wstate := fold_left (process_or_keep w_params true w_own bw_node) bw_chain (init_state 100).
Definition bw_ss : list wstate := stores_of w_params w_own bw_node bw_st [bw_b7].
Definition bw_sc : list nat := [0; 1]%nat.
Definition bw_q : breq := {| q_out := 99985000; q_nout := 1; q_userfee := 0; q_payload := 0 |}.
Definition bw_all : N -> bool := fun _ => true.

Lemma bw_stores_ok : forall j, store_ok (store_at bw_ss j) 1.
Proof.
  intros j. unfold store_ok.
  destruct j as [|[|j]].
  - vm_compute. repeat constructor; cbn; intuition discriminate.
  - vm_compute. repeat constructor; cbn; intuition discriminate.
  - replace (store_at bw_ss (S (S j))) with (store_at bw_ss 1) by (unfold store_at; destruct j; reflexivity).
    vm_compute. repeat constructor; cbn; intuition discriminate.
Qed.

Lemma build_keep_witness :
  monotone bw_sc = true /\ length bw_ss = 2%nat /\
  exists k s ch fee,
    build_sched idN 1 bw_all [] bw_node true bw_ss bw_sc bw_q = (k, BTx s ch fee) /\
    map cr_op s = [(1%N, 0%N); (20%N, 0%N)] /\ ch = 99005000 /\ fee = 10000 /\ idx bw_sc (k - 1) = 1%nat /\
    (forall j, (j < 2)%nat ->
       tx_ok_at (cands idN 1 bw_all [] (store_at bw_ss j)) (map cr_op s) (q_out bw_q + ch) fee = false) /\
    tx_boundary idN 1 bw_all [] bw_ss 0 1 (map cr_op s) (q_out bw_q + ch) fee = None /\
    snd (build_sched idN 1 bw_all [] bw_node false bw_ss bw_sc bw_q) = BRefused false.
Proof.
  split; [reflexivity|]. split; [vm_compute; reflexivity|].
  eexists _, _, _, _. split; [vm_compute; reflexivity|].
  split; [reflexivity|]. split; [reflexivity|]. split; [reflexivity|]. split; [reflexivity|]. split; [|split].
  - intros j Hj. destruct j as [|[|j]]; try lia; vm_compute; reflexivity.
  - vm_compute. reflexivity.
  - vm_compute. reflexivity.
Qed.

(* the statement of the property for the variant, refuted: stores produced by the Ledger model from
   a chain (each with distinct outpoints), a monotone schedule, a request, and a transaction that
   comes back whose inputs are a correct answer at NO boundary between the call's start and its end *)
Theorem build_keep_refuted :
  exists (ord : N -> N) (w : N) (sel : N -> bool) (reserved : list op) (nd : node) (ss : list wstate) (sc : list nat)
         (q : breq) (k : nat) (s : list coinrow) (ch fee : Z),
    monotone sc = true /\ (forall j, store_ok (store_at ss j) w) /\
    build_sched ord w sel reserved nd true ss sc q = (k, BTx s ch fee) /\
    (forall j, (j < length ss)%nat ->
       tx_ok_at (cands ord w sel reserved (store_at ss j)) (map cr_op s) (q_out q + ch) fee = false) /\
    tx_boundary ord w sel reserved ss (idx sc 0) (idx sc (k - 1)) (map cr_op s) (q_out q + ch) fee = None.
Proof.
  destruct build_keep_witness as (Hm & Hl & k & s & ch & fee & Hb & Hops & -> & -> & Hk & Hno & Hnb & _).
  exists idN, 1%N, bw_all, [], bw_node, bw_ss, bw_sc, bw_q, k, s, 99005000, 10000.
  split; [exact Hm|]. split; [exact bw_stores_ok|]. split; [exact Hb|]. rewrite Hl. split; [exact Hno|].
  rewrite Hk. exact Hnb.
Qed.

(* ---------------------------------------------------------------- code as it is: a refusal that no boundary gives alone *)

(* What build_refusal_boundary does NOT say: the amount asked in the refusing read transaction
   carries the dust adjustment (or the fee target) decided on the selection of ANOTHER store.
   The wallet holds 1:0 (1 MASS) and 1:1 (0.2 MASS); the request leaves half the relay fee as
   change of 1:0 alone, so 0.0001 MASS more is asked for.  Block 7, committed between the two
   selections, spends both coins and pays the wallet 20:0, worth exactly outputs + relay fee.
   The call refuses; run alone before block 7 it spends 1:0 and 1:1, run alone after it, 20:0. *)
Definition br_spend : tx := {| t_id := 20; t_cb := false; t_ins := [(1%N, 0%N); (1%N, 1%N)]; t_outs := [w_pay 99995000] |}.
Definition br_chain : list block :=
  [w_blk 101 100 1 [w_cb 1 [w_pay 100000000; w_pay 20000000]]; w_blk 102 101 2 [w_cb 2 []]; w_blk 103 102 3 [w_cb 3 []];
   w_blk 104 103 4 [w_cb 4 []]; w_blk 105 104 5 [w_cb 5 []]; w_blk 106 105 6 [w_cb 6 []]].
Definition br_b7 : block := w_blk 107 106 7 [w_cb 7 []; br_spend].
Definition br_node : node := w_blk 100 0 0 [] :: br_chain ++ [br_b7].
Definition br_st : wstate := fold_left (process_or_keep w_params true w_own br_node) br_chain (init_state 100).
Definition br_ss : list wstate := stores_of w_params w_own br_node br_st [br_b7].

Lemma build_refusal_carried_refuted :
  monotone [0; 1]%nat = true /\ length br_ss = 2%nat /\
  build_sched idN 1 bw_all [] br_node false br_ss [0; 1]%nat bw_q = (2%nat, BRefused false) /\
  (exists s ch, build_sched idN 1 bw_all [] br_node false br_ss [0]%nat bw_q = (6%nat, BTx s ch 10000) /\
                map cr_op s = [(1%N, 0%N); (1%N, 1%N)]) /\
  (exists s, build_sched idN 1 bw_all [] br_node false br_ss [1]%nat bw_q = (3%nat, BTx s 0 10000) /\
             map cr_op s = [(20%N, 0%N)]) /\
  refusal_boundary idN 1 bw_all [] br_ss 0 1 bw_q = Some 1%nat.
Proof.
  split; [reflexivity|]. split; [vm_compute; reflexivity|]. split; [vm_compute; reflexivity|].
  split; [eexists _, _; split; vm_compute; reflexivity|].
  split; [eexists; split; vm_compute; reflexivity|].
  vm_compute. reflexivity.
Qed.

(* ---------------------------------------------------------------- explicit inputs *)

Lemma lookup_pass_spec nd rd l : forall k k1,
  lookup_pass nd rd k l = (k1, true) ->
  k1 = (k + length l)%nat /\ forall i o, nth_error l i = Some o -> lookup_ok nd (rd (k + i)%nat) o = true.
Proof.
  induction l as [|o l IH]; intros k k1 H; cbn [lookup_pass] in H.
  - injection H as <-. split; [cbn; lia|]. intros i o Ho. destruct i; discriminate.
  - destruct (lookup_ok nd (rd k) o) eqn:E; [|discriminate].
    destruct (IH _ _ H) as [-> Hl]. split; [cbn; lia|].
    intros i o' Ho. destruct i as [|i]; cbn in Ho.
    + injection Ho as <-. rewrite Nat.add_0_r. exact E.
    + replace (k + S i)%nat with (S k + i)%nat by lia. apply Hl. exact Ho.
Qed.

(* a call with explicit inputs that succeeds has looked every input up successfully in each of
   its passes: [rounds] read transactions per input *)
Lemma manual_lookups_ok nd rd ins : forall rounds k k1,
  manual_lookups nd rd (S rounds) k ins = (k1, true) ->
  (k + length ins <= k1)%nat /\
  forall o, In o ins -> exists j, (k <= j < k1)%nat /\ lookup_ok nd (rd j) o = true.
Proof.
  induction rounds as [|r IH]; intros k k1 H; cbn [manual_lookups] in H.
  - destruct (lookup_pass nd rd k ins) as [k' [|]] eqn:Hp; [|discriminate]. injection H as <-.
    destruct (lookup_pass_spec _ _ _ _ _ Hp) as [-> Hl]. split; [lia|].
    intros o Ho. apply In_nth_error in Ho. destruct Ho as [i Hi].
    exists (k + i)%nat. split; [|apply Hl; exact Hi].
    assert (i < length ins)%nat by (apply nth_error_Some; congruence). lia.
  - destruct (lookup_pass nd rd k ins) as [k' [|]] eqn:Hp; [|discriminate].
    destruct (lookup_pass_spec _ _ _ _ _ Hp) as [-> _].
    destruct (IH _ _ H) as [Hle Hall]. split; [lia|].
    intros o Ho. destruct (Hall o Ho) as (j & Hj & Hok). exists j. split; [lia|exact Hok].
Qed.

(* while blocks are only CONNECTED (what can be looked up stays so), the inputs of a successful
   call can all be looked up in the store of its last read transaction: one boundary *)
Theorem manual_single_boundary_connects nd rd ins rounds k1 :
  (forall j j' o, (j <= j')%nat -> lookup_ok nd (rd j) o = true -> lookup_ok nd (rd j') o = true) ->
  manual_lookups nd rd (S rounds) 0 ins = (k1, true) ->
  forall o, In o ins -> lookup_ok nd (rd (k1 - 1)%nat) o = true.
Proof.
  intros Hmono H o Ho. destruct (manual_lookups_ok _ _ _ _ _ _ H) as [_ Hall].
  destruct (Hall o Ho) as (j & Hj & Hok). apply (Hmono j); [lia|exact Hok].
Qed.
