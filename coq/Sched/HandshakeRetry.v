(* Sched/HandshakeRetry.v — the transition system of Sched/Handshake.v extended by REFUSED rescan batches
   and the worker's RETRY WAIT (masswallet/ntfnshandler.go, worker(), since 9b649ff / 4dd12f5).  Definitions only.

     case task := <-h.taskChan.C:
         fin, err := h.asyncImport(task.walletId)      suspend; Update(db, ...); resume
         ...
         if !fin {
             if err == ErrImportingContinuable {        the batch read a chain the follower is not synced to:
                 select {                               its transaction was rolled back (REFUSED)
                 case <-h.quit:                         RETRY WAIT: ends when quit is closed
                 case <-time.After(importRetryDelay):   ... or when the timer fires
                 }
             }
             h.taskChan.PushImport(task.walletId)       then the task is re-queued (non-blocking push) with
             continue                                   the work it had before the refused batch
         }

   The system EMBEDS the one of Handshake.v: a state is a state of Handshake.v ([base]) plus [rext];
   every transition of Handshake.v is a transition here (except the two the extension guards, see
   [allowed]), and with no refusal left in the environment and none under way the two systems have the
   same steps (HandshakeRetryProofs.rstep_conservative).

   Whether a batch is refused is decided by the ENVIRONMENT (is the node on the follower's chain at the
   batch's upper height?): as for announcements and API requests, the state carries a finite budget
   [e_refuse] of refusals still to come; at every batch of an import the environment may spend one or let
   the batch through.  "Refusals are finitely many" is therefore part of every initial state, for every
   number; it is the fairness premise of C20_retry_tasks_finish (a node that is off the follower's chain
   for ever refuses for ever, and the import legitimately never finishes).

   The handler leaves at quit WITHOUT draining its block queue: that is [t_hquit] of Handshake.v (enabled
   in [Hsel] whenever quit is closed, whatever [qb] is), unchanged.

   Switch [wait_while_queued] (false = the code of /repo): the seeded variant "pause, then repeat the pause
   while len(h.queueBlock) > 0" — the wait ends (by timer or by quit) only when the block queue is empty. *)
From Coq Require Import List Arith Bool.
Import ListNotations.
Require Import MW.Sched.Handshake.

Record rext := {
  rwait : bool;      (* the worker stands in the retry wait; its base pc is [Kpush n], n = t_more of the task *)
  refused : bool;    (* the transaction of the current batch was rolled back (ErrImportingContinuable);
                        base pc [Kat PImp Sres n]: resume comes next *)
  e_refuse : nat;    (* refusals the environment will still cause *)
  n_ref : nat        (* ghost: batches refused so far *)
}.
Record rstate := { base : state; ext : rext }.
Record rcfg := { bcfg : cfg; wait_while_queued : bool }.

Inductive rlabel :=
| Lb (l : label)     (* a transition of Handshake.v *)
| Lkx                (* worker's transaction rolled back: batch refused (observable, like Lkc) *)
| Tkresx             (* resume after a refused batch: the worker enters the retry wait *)
| Trtick             (* the retry wait's timer fired *)
| Trquit.            (* the retry wait saw quit closed *)

Definition robservable (l : rlabel) : bool :=
  match l with Lb l => observable l | Lkx => true | _ => false end.

Definition with_base (s : rstate) (b : state) : rstate := {| base := b; ext := ext s |}.
Definition ext0 (r : nat) : rext := {| rwait := false; refused := false; e_refuse := r; n_ref := 0 |}.
Definition rinit (b : state) (r : nat) : rstate := {| base := b; ext := ext0 r |}.

(* the two transitions of Handshake.v the extension guards: the re-queue waits for the end of the retry
   wait; after a refused batch `resume` leads into the retry wait, not to the next batch *)
Definition allowed (x : rext) (l : label) : bool :=
  match l with
  | Tkpush => negb (rwait x)
  | Tkres => negb (refused x)
  | _ => true
  end.

Definition lift (s : rstate) (ls : list (label * state)) : list (rlabel * rstate) :=
  map (fun p => (Lb (fst p), with_base s (snd p))) (filter (fun p => allowed (ext s) (fst p)) ls).

(* the update of an import batch ends with ErrImportingContinuable instead of a commit *)
Definition t_refuse (c : rcfg) (s : rstate) : option rstate :=
  match kpc (base s), e_refuse (ext s) with
  | Kat PImp Supd n, S r =>
      Some {| base := set_k (base s) (Kat PImp Sres n);
              ext := {| rwait := false; refused := true; e_refuse := r; n_ref := S (n_ref (ext s)) |} |}
  | _, _ => None
  end.

(* the deferred resume of the refused asyncImport (joint step with the handler, as t_jres); the worker
   then stands in the retry wait with the task's work unchanged *)
Definition t_resx (c : rcfg) (s : rstate) : option rstate :=
  match hpc (base s), kpc (base s), refused (ext s) with
  | Hwait, Kat PImp Sres n, true =>
      Some {| base := set_h (set_k (base s) (Kpush n)) Hsel;
              ext := {| rwait := true; refused := false; e_refuse := e_refuse (ext s); n_ref := n_ref (ext s) |} |}
  | _, _, _ => None
  end.

(* one pass through the wait's select: afterwards the worker leaves the wait — in the seeded variant only
   if the block queue is empty, otherwise it goes round again *)
Definition after_wait (c : rcfg) (s : rstate) : rstate :=
  if wait_while_queued c && (0 <? qb (base s)) then s
  else {| base := base s;
          ext := {| rwait := false; refused := refused (ext s); e_refuse := e_refuse (ext s); n_ref := n_ref (ext s) |} |}.

Definition t_rtick (c : rcfg) (s : rstate) : option rstate :=
  if rwait (ext s) then Some (after_wait c s) else None.
Definition t_rquit (c : rcfg) (s : rstate) : option rstate :=
  if rwait (ext s) && quit (base s) then Some (after_wait c s) else None.

Definition ropt1 (l : rlabel) (o : option rstate) : list (rlabel * rstate) :=
  match o with Some s => [(l, s)] | None => [] end.

Definition rstep_l (c : rcfg) (s : rstate) : list (rlabel * rstate) :=
  lift s (step_l (bcfg c) (base s)) ++
  ropt1 Lkx (t_refuse c s) ++ ropt1 Tkresx (t_resx c s) ++
  ropt1 Trtick (t_rtick c s) ++ ropt1 Trquit (t_rquit c s).

Definition rstep (c : rcfg) (s : rstate) : list rstate := map snd (rstep_l c s).

(* ---------------------------------------------------------------- initial states, reachability, runs *)

(* an initial state of Handshake.v, and any number of refusals to come *)
Definition rinitial (c : rcfg) (s : rstate) : Prop :=
  exists b r, initial (bcfg c) b /\ s = rinit b r.

Inductive rreachable (c : rcfg) : rstate -> Prop :=
| rreach_init : forall s, rinitial c s -> rreachable c s
| rreach_step : forall s s', rreachable c s -> In s' (rstep c s) -> rreachable c s'.

Inductive rsteps (c : rcfg) : rstate -> rstate -> Prop :=
| rsteps_refl : forall s, rsteps c s s
| rsteps_next : forall s s' s'', In s' (rstep c s) -> rsteps c s' s'' -> rsteps c s s''.

Inductive rsteps_n (c : rcfg) : nat -> rstate -> rstate -> Prop :=
| rsn_refl : forall s, rsteps_n c 0 s s
| rsn_next : forall n s s' s'', In s' (rstep c s) -> rsteps_n c n s' s'' -> rsteps_n c (S n) s s''.

Definition rcan_step (c : rcfg) (s : rstate) : Prop := rstep c s <> [].
Definition rstuck (c : rcfg) (s : rstate) : Prop := rstep c s = [].

(* ranking function: a refusal costs the environment one unit of its budget, worth more than the work the
   refusal gives back to the worker *)
Definition rrank (s : rstate) : nat :=
  rank (base s) + 8 * e_refuse (ext s) + (if refused (ext s) then 7 else 0) + (if rwait (ext s) then 1 else 0).

(* the code of /repo and the seeded variant, on the repaired hand-shake protocol *)
Definition rcfg_code : rcfg := {| bcfg := cfg_repaired; wait_while_queued := false |}.
Definition rcfg_seeded : rcfg := {| bcfg := cfg_repaired; wait_while_queued := true |}.
(* with the task queue of [n] slots (start-up rule) *)
Definition rcfg_cap (n : nat) : rcfg := {| bcfg := cfg_cap n; wait_while_queued := false |}.

(* follow the first transition carrying each label in turn (witnesses, examples) *)
Definition kind_eqb' (a b : kind) : bool := match a, b with Imp, Imp | Rem, Rem => true | _, _ => false end.
Definition label_eqb' (a b : label) : bool :=
  match a, b with
  | La, La | Ltb, Ltb | Ltp, Ltp | Lte, Lte | Lhb, Lhb | Lhc, Lhc | Lkb, Lkb | Lkc, Lkc | Ls, Ls | Lz, Lz
  | Tachk, Tachk | Thquit, Thquit | Tkinit, Tkinit | Tkquit, Tkquit | Tktake, Tktake | Tkabort, Tkabort
  | Tkres, Tkres | Tkpush, Tkpush | Tkchk, Tkchk | Tswait, Tswait => true
  | Lpush k1, Lpush k2 => kind_eqb' k1 k2
  | _, _ => false
  end.
Definition rlabel_eqb (a b : rlabel) : bool :=
  match a, b with
  | Lb x, Lb y => label_eqb' x y
  | Lkx, Lkx | Tkresx, Tkresx | Trtick, Trtick | Trquit, Trquit => true
  | _, _ => false
  end.
Fixpoint rpick (l : rlabel) (succ : list (rlabel * rstate)) : option rstate :=
  match succ with
  | [] => None
  | (l', s') :: rest => if rlabel_eqb l l' then Some s' else rpick l rest
  end.
Fixpoint rexec_lab (c : rcfg) (ls : list rlabel) (s : rstate) : option rstate :=
  match ls with
  | [] => Some s
  | l :: rest => match rpick l (rstep_l c s) with
                 | Some s' => rexec_lab c rest s'
                 | None => None
                 end
  end.
