(* Sched/HandshakeQueueProofs.v — the capacity of the background task queue (C20, second sentence).
   (1) the queue Start() builds from k unfinished tasks (initTaskChan) never drops a task, for every k;
   (2) the converse of requeue_never_dropped: a queue of exactly MaxWaitingTaskNum slots (or fewer)
       drops a task; with MaxWaitingTaskNum slots it is the worker's own re-queue of the import it is
       running, and the maximal run ends with that accepted import never finished;
   (3) hence: no reachable drop  <->  capacity >= MaxWaitingTaskNum + 1. *)
From Coq Require Import List Arith Bool Lia.
Import ListNotations.
Require Import MW.Sched.Handshake MW.Sched.HandshakeProofs.

(* ---------------------------------------------------------------- runs given by their labels *)

Definition kind_eqb (a b : kind) : bool := match a, b with Imp, Imp | Rem, Rem => true | _, _ => false end.
Definition label_eqb (a b : label) : bool :=
  match a, b with
  | La, La | Ltb, Ltb | Ltp, Ltp | Lte, Lte | Lhb, Lhb | Lhc, Lhc | Lkb, Lkb | Lkc, Lkc | Ls, Ls | Lz, Lz
  | Tachk, Tachk | Thquit, Thquit | Tkinit, Tkinit | Tkquit, Tkquit | Tktake, Tktake | Tkabort, Tkabort
  | Tkres, Tkres | Tkpush, Tkpush | Tkchk, Tkchk | Tswait, Tswait => true
  | Lpush k1, Lpush k2 => kind_eqb k1 k2
  | _, _ => false
  end.

Fixpoint pick (l : label) (succ : list (label * state)) : option state :=
  match succ with
  | [] => None
  | (l', s') :: rest => if label_eqb l l' then Some s' else pick l rest
  end.

(* follow the first transition carrying each label in turn *)
Fixpoint exec_lab (c : cfg) (ls : list label) (s : state) : option state :=
  match ls with
  | [] => Some s
  | l :: rest => match pick l (step_l c s) with
                 | Some s' => exec_lab c rest s'
                 | None => None
                 end
  end.

Lemma pick_in l succ s' : pick l succ = Some s' -> In s' (map snd succ).
Proof.
  induction succ as [|[l1 s1] rest IH]; cbn; [discriminate|].
  destruct (label_eqb l l1).
  - intros H. inversion H. left. reflexivity.
  - intros H. right. apply IH. exact H.
Qed.

Lemma exec_lab_steps c ls : forall s s', exec_lab c ls s = Some s' -> steps c s s'.
Proof.
  induction ls as [|l ls IH]; intros s s' H; cbn in H.
  - inversion H. constructor.
  - destruct (pick l (step_l c s)) as [s1|] eqn:E; [|discriminate].
    econstructor; [|apply IH; exact H]. unfold step. eapply pick_in. exact E.
Qed.

Lemma steps_trans_rel c s1 s2 s3 : steps c s1 s2 -> steps c s2 s3 -> steps c s1 s3.
Proof.
  intros H. induction H as [s | s s' s'' Hs Hr IH]; [auto|].
  intros H3. econstructor; [exact Hs|]. apply IH. exact H3.
Qed.

(* ---------------------------------------------------------------- (1) the queue built at start-up *)

Lemma start_pushes_fit cp : forall rst q d,
  length q + length rst <= cp -> start_pushes cp q d rst = (q ++ rst, d).
Proof.
  induction rst as [|t r IH]; intros q d H; cbn [start_pushes].
  - rewrite app_nil_r. reflexivity.
  - cbn [length] in H.
    destruct (length q <? cp) eqn:E.
    + rewrite IH; [|rewrite app_length; cbn [length]; lia]. rewrite <- app_assoc. reflexivity.
    + apply Nat.ltb_ge in E. lia.
Qed.

(* when the unfinished tasks fit, Start() returns in the state [init_state true] *)
Lemma start_state_init c blocks reqs rst stop :
  length rst <= cap c -> start_state c blocks reqs rst stop = init_state true blocks reqs rst stop.
Proof.
  intros H. unfold start_state, init_state.
  rewrite (start_pushes_fit (cap c) rst [] 0) by (cbn [length]; lia).
  cbn [fst snd app]. reflexivity.
Qed.

Lemma start_cap_ok c nw : cap c = start_cap nw -> 1 <= qcap c -> cfg_ok c.
Proof. intros Hc Hq. split; [|exact Hq]. rewrite Hc. unfold start_cap. lia. Qed.

Lemma start_cap_fits c nw (rst : list task) : cap c = start_cap nw -> length rst <= nw -> length rst <= cap c.
Proof. intros Hc Hl. rewrite Hc. unfold start_cap. lia. Qed.

Lemma start_state_reachable c nw blocks reqs rst stop :
  nilfix c = true -> cap c = start_cap nw -> length rst <= nw ->
  reachable c (start_state c blocks reqs rst stop).
Proof.
  intros Hn Hc Hl. pose proof (start_cap_fits c nw rst Hc Hl) as Hf.
  rewrite start_state_init by exact Hf.
  rewrite <- Hn. apply init_reachable. exact Hf.
Qed.

(* whatever the number k of unfinished tasks and of wallets: the pushes of initTaskChan drop nothing,
   and nothing is dropped later *)
Lemma startup_never_dropped c nw blocks reqs rst stop s :
  nilfix c = true -> 1 <= qcap c -> cap c = start_cap nw -> length rst <= nw ->
  steps c (start_state c blocks reqs rst stop) s ->
  tasks (start_state c blocks reqs rst stop) = rst /\ n_drop (gh s) = 0.
Proof.
  intros Hn Hq Hc Hl Hs. split.
  - rewrite start_state_init by (eapply start_cap_fits; eassumption). reflexivity.
  - apply (requeue_never_dropped c s (start_cap_ok c nw Hc Hq)).
    eapply steps_reachable; [|exact Hs]. eapply start_state_reachable; eassumption.
Qed.

Lemma trans_acc_mono c s l s' : trans c s l s' -> n_acc (gh s) <= n_acc (gh s').
Proof.
  intros H. trans_cases H; res_inv; unfold push_task, repush_task; proj_simpl;
    try match goal with |- context [if ?b then _ else _] => destruct b end; proj_simpl;
    cbn [n_acc g_ann g_proc g_acc g_fin g_abort g_drop]; lia.
Qed.

Lemma steps_acc_mono c s s' : steps c s s' -> n_acc (gh s) <= n_acc (gh s').
Proof.
  intros H. induction H as [s | s s1 s2 Hs Hr IH]; [lia|].
  apply step_trans in Hs. destruct Hs as [l Hs]. apply trans_acc_mono in Hs. lia.
Qed.

(* ... and while the wallet runs every one of them is finished, together with everything the API accepts *)
Lemma startup_tasks_finish c nw blocks reqs rst s :
  nilfix c = true -> 1 <= qcap c -> cap c = start_cap nw -> length rst <= nw ->
  steps c (start_state c blocks reqs rst false) s -> stuck c s ->
  all_done s /\ length rst <= n_fin (gh s).
Proof.
  intros Hn Hq Hc Hl Hs Hst.
  pose proof (start_state_reachable c nw blocks reqs rst false Hn Hc Hl) as Hr.
  assert (Hns : no_stop (start_state c blocks reqs rst false)) by (split; reflexivity).
  destruct (tasks_finish c _ (start_cap_ok c nw Hc Hq) Hr Hns) as (Hall & _ & _).
  pose proof (Hall s Hs Hst) as Hd. split; [exact Hd|].
  destruct Hd as (_ & _ & Hfin & _ & _). rewrite Hfin.
  apply steps_acc_mono in Hs. cbn in Hs. lia.
Qed.

(* ---------------------------------------------------------------- (2) a queue of MaxWaitingTaskNum slots *)

Definition imp (n : nat) : task := {| t_kind := Imp; t_more := n |}.
Definition rem (n : nat) : task := {| t_kind := Rem; t_more := n |}.

(* an import of two batches, then three removals of other wallets *)
Definition pressure_reqs : list task := [imp 1; rem 0; rem 0; rem 0].

(* the import is accepted, the worker takes it and suspends the follower; while that batch runs the
   API accepts three removals (the waiting queue is then full: a fourth request would be refused);
   the batch ends, the worker resumes the follower and re-queues the import: dropped *)
Definition pressure_run : list label :=
  [Tachk; Lpush Imp; Tktake; Lkb;
   Tachk; Lpush Rem; Tachk; Lpush Rem; Tachk; Lpush Rem;
   Lkc; Tkres; Tkpush].
(* the three removals then run to their end *)
Definition removal_run : list label := [Tktake; Lkb; Lkc; Tkres; Tkchk; Lkb; Lkc; Tkres].
Definition drain_run : list label := removal_run ++ removal_run ++ removal_run.

(* the same with the import left over from the previous run (restart) *)
Definition pressure_run_restart : list label :=
  [Tktake; Lkb; Tachk; Lpush Rem; Tachk; Lpush Rem; Tachk; Lpush Rem; Lkc; Tkres; Tkpush].

Definition dropped_witness (c : cfg) (s0 s1 s2 : state) : Prop :=
  initial c s0 /\ no_stop s0 /\
  steps c s0 s1 /\ 0 < n_drop (gh s1) /\
  steps c s1 s2 /\ stuck c s2 /\ idle s2 /\ n_proc (gh s2) = n_ann (gh s2) /\
  n_abort (gh s2) = 0 /\ n_fin (gh s2) < n_acc (gh s2).

Lemma exec_lab_witness c s0 ls1 ls2 s1 s2 :
  initial c s0 -> no_stop s0 ->
  exec_lab c ls1 s0 = Some s1 -> exec_lab c ls2 s1 = Some s2 ->
  0 < n_drop (gh s1) -> step c s2 = [] -> idle s2 -> n_proc (gh s2) = n_ann (gh s2) ->
  n_abort (gh s2) = 0 -> n_fin (gh s2) < n_acc (gh s2) ->
  dropped_witness c s0 s1 s2.
Proof.
  intros Hi Hn H1 H2 Hd Hst Hid Hp Ha Hf. unfold dropped_witness.
  split; [exact Hi|]. split; [exact Hn|].
  split; [eapply exec_lab_steps; exact H1|]. split; [exact Hd|].
  split; [eapply exec_lab_steps; exact H2|]. split; [exact Hst|].
  split; [exact Hid|]. split; [exact Hp|]. split; [exact Ha|exact Hf].
Qed.

Ltac witness_by reqs rst run1 run2 :=
  eexists; eexists; eapply (exec_lab_witness _ _ run1 run2);
  [ exists 0, reqs, rst, false; split; [reflexivity|unfold busy_threshold; cbn; lia]
  | split; reflexivity
  | lazy; reflexivity
  | lazy; reflexivity
  | unfold busy_threshold; cbn; lia
  | reflexivity
  | unfold idle; cbn; tauto
  | reflexivity
  | reflexivity
  | unfold busy_threshold; cbn; lia ].

Lemma requeue_dropped_refuted c :
  cap c = busy_threshold -> nilfix c = true ->
  exists s1 s2, dropped_witness c (init_state true 0 pressure_reqs [] false) s1 s2.
Proof.
  destruct c as [f n q cp]. cbn [cap nilfix]. intros -> ->.
  destruct f; witness_by pressure_reqs (@nil task) pressure_run drain_run.
Qed.

(* the restart variant: the two-batch import is the one task left over from the last run (the queue
   the seeded initTaskChan builds from fewer than four unfinished tasks has MaxWaitingTaskNum slots) *)
Lemma requeue_dropped_restart_refuted c :
  cap c = busy_threshold -> nilfix c = true ->
  exists s1 s2, dropped_witness c (init_state true 0 [rem 0; rem 0; rem 0] [imp 1] false) s1 s2.
Proof.
  destruct c as [f n q cp]. cbn [cap nilfix]. intros -> ->.
  destruct f; witness_by [rem 0; rem 0; rem 0] [imp 1] pressure_run_restart drain_run.
Qed.

(* ---------------------------------------------------------------- (3) the capacity condition is exact *)

(* fewer than MaxWaitingTaskNum slots: IsBusy never answers true, the API's own push is dropped *)
Definition flood_reqs : list task := [rem 0; rem 0; rem 0].
Fixpoint flood_run (n : nat) : list label :=
  match n with O => [] | S m => Tachk :: Lpush Rem :: flood_run m end.

Ltac flood k :=
  eexists; split;
  [ eapply steps_reachable;
    [ apply reach_init; exists 0, flood_reqs, (@nil task), false; split; [reflexivity|unfold busy_threshold; cbn; lia]
    | eapply (exec_lab_steps _ (flood_run (S k))); lazy; reflexivity ]
  | unfold busy_threshold; cbn; lia ].

Lemma small_queue_drops c :
  cap c < busy_threshold -> nilfix c = true ->
  exists s, reachable c s /\ 0 < n_drop (gh s).
Proof.
  destruct c as [f n q cp]. cbn [cap nilfix]. intros Hc ->. unfold busy_threshold in Hc.
  assert (Hcase : cp = 0 \/ cp = 1 \/ cp = 2) by lia.
  destruct Hcase as [Hk | [Hk | Hk]]; subst cp; destruct f;
    [flood 0 | flood 0 | flood 1 | flood 1 | flood 2 | flood 2].
Qed.

Lemma never_dropped_iff c :
  nilfix c = true -> 1 <= qcap c ->
  ((forall s, reachable c s -> n_drop (gh s) = 0) <-> busy_threshold + 1 <= cap c).
Proof.
  intros Hn Hq. split.
  - intros Hall.
    destruct (le_lt_dec (busy_threshold + 1) (cap c)) as [Hle|Hlt]; [exact Hle|exfalso].
    destruct (Nat.eq_dec (cap c) busy_threshold) as [He|Hne].
    + destruct (requeue_dropped_refuted c He Hn) as (s1 & s2 & Hi & _ & Hs & Hd & _).
      assert (Hr : reachable c s1) by (eapply steps_reachable; [apply reach_init; exact Hi|exact Hs]).
      specialize (Hall s1 Hr). lia.
    + assert (Hlt' : cap c < busy_threshold) by lia.
      destruct (small_queue_drops c Hlt' Hn) as (s & Hr & Hd).
      specialize (Hall s Hr). lia.
  - intros Hc s Hr. apply (requeue_never_dropped c s); [split; assumption|exact Hr].
Qed.
