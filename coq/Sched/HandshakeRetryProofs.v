(* Sched/HandshakeRetryProofs.v — proofs about the system with refused batches and retry waits
   (Sched/HandshakeRetry.v).  Every statement quantifies over every reachable state of every finite
   environment (announcements, API requests, left-over tasks, refusals, Stop or no Stop): induction over
   [rreachable] with the invariant [RInv] = the invariant of Handshake.v on the base component + where
   the worker stands when one of the two flags is up. *)
From Coq Require Import List Arith Bool Lia.
Import ListNotations.
Require Import MW.Sched.Handshake MW.Sched.HandshakeProofs MW.Sched.HandshakeRetry.

(* ---------------------------------------------------------------- the step function as a relation *)

Inductive rtrans (c : rcfg) (s : rstate) : rlabel -> rstate -> Prop :=
| rt_base l b' : trans (bcfg c) (base s) l b' -> allowed (ext s) l = true -> rtrans c s (Lb l) (with_base s b')
| rt_refuse s' : t_refuse c s = Some s' -> rtrans c s Lkx s'
| rt_resx s' : t_resx c s = Some s' -> rtrans c s Tkresx s'
| rt_tick s' : t_rtick c s = Some s' -> rtrans c s Trtick s'
| rt_quit s' : t_rquit c s = Some s' -> rtrans c s Trquit s'.

Lemma ropt1_in l o l' s' : In (l', s') (ropt1 l o) <-> l' = l /\ o = Some s'.
Proof.
  destruct o as [x|]; cbn; split.
  - intros [H|[]]. inversion H. auto.
  - intros [-> H]. inversion H. auto.
  - intros [].
  - intros [_ H]. discriminate.
Qed.

Lemma lift_in s ls l' s' :
  In (l', s') (lift s ls) <-> exists l b', l' = Lb l /\ s' = with_base s b' /\ In (l, b') ls /\ allowed (ext s) l = true.
Proof.
  unfold lift. rewrite in_map_iff. split.
  - intros [[l b'] [E H]]. apply filter_In in H. destruct H as [Hin Ha]. cbn [fst snd] in *.
    inversion E; subst. exists l, b'. auto.
  - intros (l & b' & -> & -> & Hin & Ha). exists (l, b'). split; [reflexivity|].
    apply filter_In. split; assumption.
Qed.

Lemma rstep_l_rtrans c s l s' : In (l, s') (rstep_l c s) <-> rtrans c s l s'.
Proof.
  unfold rstep_l. split.
  - intros H. repeat (apply in_app_or in H; destruct H as [H|H]).
    + apply lift_in in H. destruct H as (l0 & b' & -> & -> & Hin & Ha).
      apply rt_base; [apply step_l_trans; exact Hin | exact Ha].
    + apply ropt1_in in H. destruct H as [-> H]. apply rt_refuse. exact H.
    + apply ropt1_in in H. destruct H as [-> H]. apply rt_resx. exact H.
    + apply ropt1_in in H. destruct H as [-> H]. apply rt_tick. exact H.
    + apply ropt1_in in H. destruct H as [-> H]. apply rt_quit. exact H.
  - intros H. destruct H as [l b' Ht Ha|x H|x H|x H|x H]; repeat rewrite in_app_iff.
    + left. apply lift_in. exists l, b'. repeat split; [apply step_l_trans; exact Ht | exact Ha].
    + right. left. apply ropt1_in. auto.
    + right. right. left. apply ropt1_in. auto.
    + right. right. right. left. apply ropt1_in. auto.
    + right. right. right. right. apply ropt1_in. auto.
Qed.

Lemma rstep_rtrans c s s' : In s' (rstep c s) <-> exists l, rtrans c s l s'.
Proof.
  unfold rstep. rewrite in_map_iff. split.
  - intros [[l x] [E H]]. cbn in E. subst. exists l. apply rstep_l_rtrans. exact H.
  - intros [l H]. exists (l, s'). split; [reflexivity|]. apply rstep_l_rtrans. exact H.
Qed.

Lemma rtrans_can_step c s l s' : rtrans c s l s' -> rcan_step c s.
Proof.
  intros H E. assert (Hin : In s' (rstep c s)) by (apply rstep_rtrans; exists l; exact H).
  unfold rstuck in E. rewrite E in Hin. destruct Hin.
Qed.

Ltac rt_inv H :=
  unfold t_refuse, t_resx, t_rtick, t_rquit in H; break_match_hyp H; inversion H; subst; clear H.

(* ---------------------------------------------------------------- conservativity *)

(* with no refusal to come and none under way the extension adds nothing and removes nothing: the steps
   are those of Handshake.v *)
Lemma filter_all_true {A} (f : A -> bool) (l : list A) : (forall x, f x = true) -> filter f l = l.
Proof. intros H. induction l as [|a l IH]; cbn; [reflexivity|]. rewrite H, IH. reflexivity. Qed.

Lemma rstep_conservative c b :
  rstep_l c (rinit b 0) = map (fun p => (Lb (fst p), rinit (snd p) 0)) (step_l (bcfg c) b).
Proof.
  assert (E1 : t_refuse c (rinit b 0) = None).
  { unfold t_refuse. cbn [rinit base ext ext0 e_refuse].
    destruct (kpc b) as [| |p st n|n|n|]; try reflexivity. destruct p, st; reflexivity. }
  assert (E2 : t_resx c (rinit b 0) = None).
  { unfold t_resx. cbn [rinit base ext ext0 refused].
    destruct (hpc b); try reflexivity. destruct (kpc b) as [| |p st n|n|n|]; try reflexivity. destruct p, st; reflexivity. }
  unfold rstep_l. rewrite E1, E2. unfold t_rtick, t_rquit. cbn [rinit base ext ext0 rwait andb ropt1 app].
  rewrite app_nil_r. unfold lift. cbn [ext].
  rewrite filter_all_true; [reflexivity|].
  intros [l x]. cbn. destruct l; reflexivity.
Qed.

(* ---------------------------------------------------------------- every step makes progress *)

Ltac rw_all := repeat match goal with E : ?x = _ |- context [?x] => rewrite E end.

Lemma rtrans_rank c s l s' : wait_while_queued c = false -> rtrans c s l s' -> rrank s' < rrank s.
Proof.
  intros Hw H. destruct H as [l b' Ht Ha|x H|x H|x H|x H].
  - apply trans_rank in Ht. unfold rrank, with_base. cbn [base ext]. lia.
  - rt_inv H. unfold rrank, rank. cbn [base ext rwait refused e_refuse]. proj_simpl. rw_all. cbn [k_weight].
    destruct (refused (ext s)), (rwait (ext s)); lia.
  - rt_inv H. unfold rrank, rank. cbn [base ext rwait refused e_refuse]. proj_simpl. rw_all.
    cbn [k_weight h_weight]. destruct (rwait (ext s)); lia.
  - rt_inv H. unfold after_wait. rewrite Hw. cbn [andb]. unfold rrank. cbn [base ext rwait refused e_refuse].
    rw_all. lia.
  - rt_inv H. match goal with E : _ && _ = true |- _ => apply andb_true_iff in E; destruct E end.
    unfold after_wait. rewrite Hw. cbn [andb]. unfold rrank. cbn [base ext rwait refused e_refuse].
    rw_all. lia.
Qed.

Lemma rstep_rank c s s' : wait_while_queued c = false -> In s' (rstep c s) -> rrank s' < rrank s.
Proof. intros Hw H. apply rstep_rtrans in H. destruct H as [l H]. eapply rtrans_rank; eassumption. Qed.

Lemma rsteps_n_bound c n s s' : wait_while_queued c = false -> rsteps_n c n s s' -> n + rrank s' <= rrank s.
Proof.
  intros Hw. induction 1 as [s | n s s1 s2 Hs Hn IH]; [lia|].
  apply (rstep_rank _ _ _ Hw) in Hs. lia.
Qed.

Lemma rrun_to_stuck c s : wait_while_queued c = false -> exists s', rsteps c s s' /\ rstuck c s'.
Proof.
  intros Hw. remember (rrank s) as r eqn:Er. revert s Er.
  induction r as [r IH] using lt_wf_ind. intros s ->.
  destruct (rstep c s) as [|s1 rest] eqn:E.
  - exists s. split; [constructor | exact E].
  - assert (Hin : In s1 (rstep c s)) by (rewrite E; left; reflexivity).
    destruct (IH (rrank s1) (rstep_rank _ _ _ Hw Hin) s1 eq_refl) as (s' & Hs & Hst).
    exists s'. split; [econstructor; eassumption | assumption].
Qed.

(* ---------------------------------------------------------------- invariant *)

Record RInv (c : rcfg) (s : rstate) : Prop := {
  ri_base : Inv (bcfg c) (base s);
  ri_refused : refused (ext s) = true -> exists n, kpc (base s) = Kat PImp Sres n;
  ri_rwait : rwait (ext s) = true -> exists n, kpc (base s) = Kpush n
}.

Lemma rinv_init c s : cfg_ok (bcfg c) -> rinitial c s -> RInv c s.
Proof.
  intros Hc (b & r & Hi & ->). constructor; cbn.
  - apply inv_init; assumption.
  - discriminate.
  - discriminate.
Qed.

(* a transition of Handshake.v other than resume / re-queue leaves the worker where the flag says it is *)
Lemma trans_keeps_sres c s l s' n :
  trans c s l s' -> kpc s = Kat PImp Sres n -> l <> Tkres -> kpc s' = Kat PImp Sres n.
Proof.
  intros H Hk Hl.
  trans_cases H; res_inv; unfold push_task, repush_task; proj_simpl;
    try match goal with |- context [if ?b then _ else _] => destruct b end; proj_simpl;
    try congruence.
Qed.

Lemma trans_keeps_kpush c s l s' n :
  trans c s l s' -> kpc s = Kpush n -> l <> Tkpush -> kpc s' = Kpush n.
Proof.
  intros H Hk Hl.
  trans_cases H; res_inv; unfold push_task, repush_task; proj_simpl;
    try match goal with |- context [if ?b then _ else _] => destruct b end; proj_simpl;
    try congruence.
Qed.

(* resume after a refused batch: handler back in its select, worker about to re-queue the same task *)
Lemma inv_resx c s n :
  Inv c s -> hpc s = Hwait -> kpc s = Kat PImp Sres n -> Inv c (set_h (set_k s (Kpush n)) Hsel).
Proof.
  intros HI Hh Hk. destruct HI.
  constructor; inv_fin.
  all: try (destruct (spc s) eqn:?; cbn beta iota in *; inv_fin).
  all: try (repeat match goal with E : ?x = _, H : context [?x] |- _ => rewrite E in H end; inv_fin).
Qed.

Lemma rinv_step c s l s' : cfg_ok (bcfg c) -> RInv c s -> rtrans c s l s' -> RInv c s'.
Proof.
  intros Hc HI H. pose proof HI as [HB HR HW].
  destruct H as [l b' Ht Ha|x H|x H|x H|x H].
  - constructor; cbn [with_base base ext].
    + eapply inv_step; eassumption.
    + intros Hf. destruct (HR Hf) as [n Hn]. exists n.
      eapply trans_keeps_sres; [exact Ht | exact Hn |].
      intros ->. cbn in Ha. rewrite Hf in Ha. discriminate.
    + intros Hf. destruct (HW Hf) as [n Hn]. exists n.
      eapply trans_keeps_kpush; [exact Ht | exact Hn |].
      intros ->. cbn in Ha. rewrite Hf in Ha. discriminate.
  - rt_inv H. constructor; cbn [base ext rwait refused].
    + apply (inv_step _ (base s) Lkc); [exact Hc | exact HB |].
      apply tr_kupd. unfold t_kupd. rewrite E. reflexivity.
    + intros _. exists n. reflexivity.
    + discriminate.
  - rt_inv H. constructor; cbn [base ext rwait refused].
    + apply inv_resx; assumption.
    + discriminate.
    + intros _. exists n. reflexivity.
  - rt_inv H. unfold after_wait. destruct (wait_while_queued c && (0 <? qb (base s))).
    + exact HI.
    + constructor; cbn [base ext rwait refused]; [assumption | assumption | discriminate].
  - rt_inv H. unfold after_wait. destruct (wait_while_queued c && (0 <? qb (base s))).
    + exact HI.
    + constructor; cbn [base ext rwait refused]; [assumption | assumption | discriminate].
Qed.

Lemma rreachable_inv c s : cfg_ok (bcfg c) -> rreachable c s -> RInv c s.
Proof.
  intros Hc H. induction H as [s Hi | s s' Hr IH Hs].
  - apply rinv_init; assumption.
  - apply rstep_rtrans in Hs. destruct Hs as [l Hs]. eapply rinv_step; eassumption.
Qed.

Lemma rsteps_reachable c s s' : rreachable c s -> rsteps c s s' -> rreachable c s'.
Proof.
  intros Hr H. induction H as [s | s s1 s2 Hs Hn IH]; [assumption|].
  apply IH. eapply rreach_step; eassumption.
Qed.

Lemma rsteps_trans_rel c s1 s2 s3 : rsteps c s1 s2 -> rsteps c s2 s3 -> rsteps c s1 s3.
Proof.
  intros H. induction H as [s | s s' s'' Hs Hr IH]; [auto|].
  intros H3. econstructor; [exact Hs|]. apply IH. exact H3.
Qed.

(* ---------------------------------------------------------------- where the base system can move, so can this one *)

Lemma can_step_lifts c s : RInv c s -> can_step (bcfg c) (base s) -> rcan_step c s.
Proof.
  intros [HB HR HW] Hcan.
  destruct (step (bcfg c) (base s)) as [|b' rest] eqn:E; [contradiction|].
  assert (Hin : In b' (step (bcfg c) (base s))) by (rewrite E; left; reflexivity).
  apply step_trans in Hin. destruct Hin as [l Ht].
  destruct (allowed (ext s) l) eqn:Ea.
  - eapply rtrans_can_step. eapply rt_base; eassumption.
  - destruct l; try discriminate Ea; cbn in Ea; apply negb_false_iff in Ea.
    + (* resume, but the batch was refused: the refused resume is enabled *)
      destruct (HR Ea) as [n Hn].
      assert (Hh : hpc (base s) = Hwait).
      { apply (inv_cs _ _ HB). rewrite Hn. reflexivity. }
      eapply rtrans_can_step. eapply rt_resx. unfold t_resx. rewrite Hh, Hn, Ea. reflexivity.
    + (* re-queue, but the worker is still waiting: the timer can fire *)
      eapply rtrans_can_step. eapply rt_tick. unfold t_rtick. rewrite Ea. reflexivity.
Qed.

Lemma rstuck_base_stuck c s : RInv c s -> rstuck c s -> stuck (bcfg c) (base s).
Proof.
  intros HI Hst. unfold stuck. destruct (step (bcfg c) (base s)) as [|b' rest] eqn:E; [reflexivity|].
  exfalso. apply (can_step_lifts c s HI); [|exact Hst]. unfold can_step. rewrite E. discriminate.
Qed.

(* ---------------------------------------------------------------- the running system *)

Lemma rno_stop_trans c s l s' : no_stop (base s) -> rtrans c s l s' -> no_stop (base s').
Proof.
  intros Hn H. destruct H as [l b' Ht Ha|x H|x H|x H|x H].
  - cbn [with_base base]. eapply no_stop_trans; eassumption.
  - rt_inv H. cbn [base]. destruct Hn. split; assumption.
  - rt_inv H. cbn [base]. destruct Hn. split; assumption.
  - rt_inv H. unfold after_wait. destruct (wait_while_queued c && (0 <? qb (base s))); assumption.
  - rt_inv H. unfold after_wait. destruct (wait_while_queued c && (0 <? qb (base s))); assumption.
Qed.

Lemma rno_stop_steps c s s' : no_stop (base s) -> rsteps c s s' -> no_stop (base s').
Proof.
  intros Hn H. induction H as [s | s s1 s2 Hs Hr IH]; [assumption|].
  apply IH. apply rstep_rtrans in Hs. destruct Hs as [l Hs]. eapply rno_stop_trans; eassumption.
Qed.

(* no deadlock while the wallet runs: a reachable state can move unless nothing is left to do (then the
   worker is neither in a retry wait nor holding a refused batch: it is parked in its select) *)
Lemma rno_deadlock_running c s :
  cfg_ok (bcfg c) -> rreachable c s -> spc (base s) = Sidle ->
  rcan_step c s \/ (idle (base s) /\ rwait (ext s) = false /\ refused (ext s) = false).
Proof.
  intros Hc Hr Hs. pose proof (rreachable_inv c s Hc Hr) as HI.
  destruct (no_deadlock_running_inv (bcfg c) (base s) Hc (ri_base _ _ HI) Hs) as [Hcan|Hid].
  - left. apply can_step_lifts; assumption.
  - right. split; [exact Hid|]. destruct Hid as (_ & Hk & _). split.
    + destruct (rwait (ext s)) eqn:E; [|reflexivity]. destruct (ri_rwait _ _ HI E) as [n Hn]. congruence.
    + destruct (refused (ext s)) eqn:E; [|reflexivity]. destruct (ri_refused _ _ HI E) as [n Hn]. congruence.
Qed.

(* without Stop: every maximal run ends with both loops parked, every announced block processed, every
   accepted task finished (none dropped, none aborted) — however many batches the environment refused on
   the way (finitely many: the budget [e_refuse] of the state the run starts in); a run has at most
   rank (base s) + 8 * e_refuse + 8 steps; a maximal run exists *)
Lemma retry_tasks_finish c s :
  cfg_ok (bcfg c) -> wait_while_queued c = false -> rreachable c s -> no_stop (base s) ->
  (forall s', rsteps c s s' -> rstuck c s' -> all_done (base s') /\ rwait (ext s') = false /\ refused (ext s') = false) /\
  (forall n s', rsteps_n c n s s' -> n <= rank (base s) + 8 * e_refuse (ext s) + 8) /\
  (exists s', rsteps c s s' /\ rstuck c s').
Proof.
  intros Hc Hw Hr Hn. split; [|split].
  - intros s' Hs Hst.
    pose proof (rsteps_reachable _ _ _ Hr Hs) as Hr'.
    pose proof (rno_stop_steps _ _ _ Hn Hs) as [Hn1 Hn2].
    destruct (rno_deadlock_running c s' Hc Hr' Hn1) as [Hcan|(Hid & Hw' & Hf')]; [contradiction|].
    split; [|split; assumption].
    pose proof (rreachable_inv c s' Hc Hr') as [HI _ _].
    destruct Hid as (Hh & Hk & Ha & Hq & Ht & Hb & He & Hst').
    pose proof (inv_noabort _ _ HI Hn1) as Hna.
    pose proof (inv_tasks _ _ HI) as Hta. pose proof (inv_blocks _ _ HI) as Hbl.
    pose proof (inv_nodrop _ _ HI) as Hnd.
    rewrite Hh, Hk, Ht, Hq in *. cbn in Hta, Hbl.
    unfold all_done, idle. rewrite Hh, Hk, Ha, Hq, Ht, Hb, He, Hst'. repeat split; lia.
  - intros n s' H. apply (rsteps_n_bound _ _ _ _ Hw) in H. unfold rrank in H.
    destruct (refused (ext s)), (rwait (ext s)); lia.
  - apply rrun_to_stuck. exact Hw.
Qed.

(* ---------------------------------------------------------------- Stop *)

Lemma rstop_coming_trans c s l s' : stop_coming (base s) -> rtrans c s l s' -> stop_coming (base s').
Proof.
  intros Hn H. destruct H as [l b' Ht Ha|x H|x H|x H|x H].
  - cbn [with_base base]. eapply stop_coming_trans; eassumption.
  - rt_inv H. cbn [base]. exact Hn.
  - rt_inv H. cbn [base]. exact Hn.
  - rt_inv H. unfold after_wait. destruct (wait_while_queued c && (0 <? qb (base s))); assumption.
  - rt_inv H. unfold after_wait. destruct (wait_while_queued c && (0 <? qb (base s))); assumption.
Qed.

Lemma rstop_coming_steps c s s' : stop_coming (base s) -> rsteps c s s' -> stop_coming (base s').
Proof.
  intros Hn H. induction H as [s | s s1 s2 Hs Hr IH]; [assumption|].
  apply IH. apply rstep_rtrans in Hs. destruct Hs as [l Hs]. eapply rstop_coming_trans; eassumption.
Qed.

(* once Stop has been (or will be) called — in ANY reachable state: any number of announcements queued, the
   worker in a retry wait, holding a refused batch, between refusal and re-queue, any number of refusals
   still to come — every maximal run ends with both goroutines gone and the database closed, after at most
   rank (base s) + 8 * e_refuse + 8 steps; a maximal run exists *)
Lemma retry_stop_terminates c s :
  cfg_ok (bcfg c) -> f1fix (bcfg c) = true -> wait_while_queued c = false ->
  rreachable c s -> stop_coming (base s) ->
  (forall s', rsteps c s s' -> rstuck c s' ->
     stopped (base s') /\ hpc (base s') = Hdone /\ kpc (base s') = Kdone) /\
  (forall n s', rsteps_n c n s s' -> n <= rank (base s) + 8 * e_refuse (ext s) + 8) /\
  (exists s', rsteps c s s' /\ rstuck c s').
Proof.
  intros Hc Hf Hw Hr Hcoming. split; [|split].
  - intros s' Hs Hst.
    pose proof (rsteps_reachable _ _ _ Hr Hs) as Hr'.
    pose proof (rreachable_inv c s' Hc Hr') as HI.
    pose proof (rstuck_base_stuck c s' HI Hst) as Hbst.
    assert (Hstopped : stopped (base s')).
    { destruct (rstop_coming_steps _ _ _ Hcoming Hs) as [He|Hne].
      - exfalso. pose proof (inv_estop _ _ (ri_base _ _ HI) He) as Hidle.
        assert (Hcan : can_step (bcfg c) (base s')).
        { eapply trans_can_step. eapply tr_sclose. unfold t_sclose. rewrite Hidle, He. reflexivity. }
        contradiction.
      - apply (stuck_after_stop_is_stopped_inv (bcfg c) (base s') Hc Hf (ri_base _ _ HI) Hne Hbst). }
    split; [exact Hstopped|]. apply (inv_sdb _ _ (ri_base _ _ HI)). right. exact Hstopped.
  - intros n s' H. apply (rsteps_n_bound _ _ _ _ Hw) in H. unfold rrank in H.
    destruct (refused (ext s)), (rwait (ext s)); lia.
  - apply rrun_to_stuck. exact Hw.
Qed.

(* ---------------------------------------------------------------- the seeded variant *)

Lemma rpick_in l succ s' : rpick l succ = Some s' -> In s' (map snd succ).
Proof.
  induction succ as [|[l1 s1] rest IH]; cbn; [discriminate|].
  destruct (rlabel_eqb l l1).
  - intros H. inversion H. left. reflexivity.
  - intros H. right. apply IH. exact H.
Qed.

Lemma rexec_lab_steps c ls : forall s s', rexec_lab c ls s = Some s' -> rsteps c s s'.
Proof.
  induction ls as [|l ls IH]; intros s s' H; cbn in H.
  - inversion H. constructor.
  - destruct (rpick l (rstep_l c s)) as [s1|] eqn:E; [|discriminate].
    econstructor; [|apply IH; exact H]. unfold rstep. eapply rpick_in. exact E.
Qed.

(* the state of the seed's hang, for any number q >= 1 of queued announcements, any further environment:
   an import's batch was refused, the worker stands in the retry wait, Stop has closed quit, the handler
   has left with q announcements still in its queue *)
Definition spin_state (q : nat) (reqs : list task) (r : nat) : rstate :=
  {| base := {| hpc := Hdone; kpc := Kpush 0; spc := Swait; apc := Aidle; qb := S q; tasks := [];
                e_blocks := 0; e_tasks := reqs; e_stop := false; restart := []; panicked := false;
                gh := {| n_ann := S q; n_proc := 0; n_acc := 1; n_fin := 0; n_abort := 0; n_drop := 0 |} |};
     ext := {| rwait := true; refused := false; e_refuse := r; n_ref := 1 |} |}.

(* the run that leads there: the left-over import is taken, its batch refused, the node announces S q
   blocks (the follower does not get to them), Stop, the handler picks the quit case *)
Fixpoint announce_n (q : nat) : list rlabel := match q with O => [] | S n => Lb La :: announce_n n end.
Definition spin_run (q : nat) : list rlabel :=
  [Lb Tktake; Lb Lkb; Lkx; Tkresx] ++ announce_n (S q) ++ [Lb Ls; Lb Thquit].

Definition spin_init (q : nat) (reqs : list task) (r : nat) : rstate :=
  rinit (init_state true (S q) reqs [ {| t_kind := Imp; t_more := 0 |} ] true) (S r).

Lemma rreach_rtrans c s l s' : rreachable c s -> rtrans c s l s' -> rreachable c s'.
Proof. intros Hr H. eapply rreach_step; [exact Hr|]. apply rstep_rtrans. exists l. exact H. Qed.

Lemma rt_base' c s l b' s' :
  trans (bcfg c) (base s) l b' -> allowed (ext s) l = true -> s' = with_base s b' -> rtrans c s (Lb l) s'.
Proof. intros Ht Ha ->. apply rt_base; assumption. Qed.

Lemma spin_state_reachable c q reqs r :
  cfg_ok (bcfg c) -> nilfix (bcfg c) = true -> S q <= qcap (bcfg c) -> rreachable c (spin_state q reqs r).
Proof.
  intros [Hc1 Hc2] Hn Hq. unfold busy_threshold in Hc1.
  set (t := {| t_kind := Imp; t_more := 0 |}).
  set (g1 := {| n_ann := 0; n_proc := 0; n_acc := 1; n_fin := 0; n_abort := 0; n_drop := 0 |}).
  (* the state after the refused batch, with j blocks announced and S q - j to come *)
  set (mid := fun (j : nat) =>
    {| base := {| hpc := Hsel; kpc := Kpush 0; spc := Sidle; apc := Aidle; qb := j; tasks := [];
                  e_blocks := S q - j; e_tasks := reqs; e_stop := true; restart := []; panicked := false;
                  gh := {| n_ann := j; n_proc := 0; n_acc := 1; n_fin := 0; n_abort := 0; n_drop := 0 |} |};
       ext := {| rwait := true; refused := false; e_refuse := r; n_ref := 1 |} |}).
  assert (H0 : rreachable c (spin_init q reqs r)).
  { apply rreach_init. exists (init_state true (S q) reqs [t] true), (S r). split; [|reflexivity].
    exists (S q), reqs, [t], true. rewrite Hn. split; [reflexivity|cbn; lia]. }
  assert (H1 : rreachable c (with_base (spin_init q reqs r)
             (set_k (set_tasks (base (spin_init q reqs r)) []) (Kat PImp Ssusp 0)))).
  { eapply rreach_rtrans; [exact H0|]. eapply (rt_base' c _ Tktake); [apply tr_ktake; reflexivity | reflexivity | reflexivity]. }
  assert (H2 : rreachable c (with_base (spin_init q reqs r)
             (set_h (set_k (set_tasks (base (spin_init q reqs r)) []) (Kat PImp Supd 0)) Hwait))).
  { eapply rreach_rtrans; [exact H1|]. eapply (rt_base' c _ Lkb); [apply tr_jsusp; reflexivity | reflexivity | reflexivity]. }
  assert (H3 : rreachable c
             {| base := set_h (set_k (set_tasks (base (spin_init q reqs r)) []) (Kat PImp Sres 0)) Hwait;
                ext := {| rwait := false; refused := true; e_refuse := r; n_ref := 1 |} |}).
  { eapply rreach_rtrans; [exact H2|]. apply rt_refuse. reflexivity. }
  assert (H4 : rreachable c (mid 0)).
  { eapply rreach_rtrans; [exact H3|]. apply rt_resx. unfold mid. rewrite Nat.sub_0_r. reflexivity. }
  assert (H5 : forall j, j <= S q -> rreachable c (mid j)).
  { induction j as [|j IH]; intros Hj; [exact H4|].
    eapply rreach_rtrans; [apply IH; lia|].
    eapply (rt_base' c _ La); [| reflexivity | reflexivity]. apply tr_ann.
    unfold t_ann, mid. cbn [base spc e_blocks qb].
    replace (S q - j) with (S (S q - S j)) by lia.
    assert (Hlt : (j <? qcap (bcfg c)) = true) by (apply Nat.ltb_lt; lia). rewrite Hlt. reflexivity. }
  assert (H6 : rreachable c (with_base (mid (S q)) (set_estop (set_s (base (mid (S q))) Swait) false))).
  { eapply rreach_rtrans; [apply (H5 (S q)); lia|]. eapply (rt_base' c _ Ls); [apply tr_sclose; reflexivity | reflexivity | reflexivity]. }
  eapply rreach_rtrans; [exact H6|].
  eapply (rt_base' c _ Thquit); [apply tr_hquit; reflexivity | reflexivity |].
  unfold spin_state, mid, with_base, set_h, set_estop, set_s. cbn. rewrite Nat.sub_diag. reflexivity.
Qed.

(* in the seeded variant nothing frees the worker: the handler is gone, nobody takes a block from the queue,
   every pass through the wait's select (the quit case is ready at once, every time) finds the queue
   non-empty *)
Definition spinning (s : rstate) : Prop :=
  hpc (base s) = Hdone /\ spc (base s) = Swait /\ 0 < qb (base s) /\ rwait (ext s) = true /\
  exists n, kpc (base s) = Kpush n.

Lemma spinning_trans c s l s' :
  wait_while_queued c = true -> spinning s -> rtrans c s l s' -> spinning s'.
Proof.
  intros Hw (Hh & Hs & Hq & Hr & n & Hk) H. unfold spinning.
  destruct H as [l b' Ht Ha|x H|x H|x H|x H].
  - cbn [with_base base ext].
    assert (Hl : l <> Tkpush) by (intros ->; cbn in Ha; rewrite Hr in Ha; discriminate).
    pose proof (trans_keeps_kpush _ _ _ _ _ Ht Hk Hl) as Hk'.
    split; [|split; [|split; [|split; [exact Hr | exists n; exact Hk']]]].
    all: clear Hk' Ha; trans_cases Ht; res_inv; unfold push_task, repush_task in *; proj_simpl;
      try match goal with |- context [if ?b then _ else _] => destruct b end; proj_simpl;
      try congruence; try lia.
  - rt_inv H. congruence.
  - rt_inv H. congruence.
  - rt_inv H. unfold after_wait. rewrite Hw.
    assert (Hlt : (0 <? qb (base s)) = true) by (apply Nat.ltb_lt; exact Hq). rewrite Hlt. cbn [andb].
    repeat split; try assumption. exists n. exact Hk.
  - rt_inv H. unfold after_wait. rewrite Hw.
    assert (Hlt : (0 <? qb (base s)) = true) by (apply Nat.ltb_lt; exact Hq). rewrite Hlt. cbn [andb].
    repeat split; try assumption. exists n. exact Hk.
Qed.

Lemma spinning_steps c s s' : wait_while_queued c = true -> spinning s -> rsteps c s s' -> spinning s'.
Proof.
  intros Hw Hsp H. induction H as [s | s s1 s2 Hs Hr IH]; [assumption|].
  apply IH. apply rstep_rtrans in Hs. destruct Hs as [l Hs]. eapply spinning_trans; eassumption.
Qed.

Lemma spinning_not_stopped s : spinning s -> ~ stopped (base s).
Proof. intros (_ & Hs & _) H. unfold stopped in H. congruence. Qed.

Lemma spinning_can_step c s : spinning s -> rcan_step c s.
Proof.
  intros (_ & _ & _ & Hr & _). eapply rtrans_can_step. eapply rt_tick. unfold t_rtick. rewrite Hr. reflexivity.
Qed.

Lemma spinning_self_loop c s : wait_while_queued c = true -> spinning s -> In s (rstep c s).
Proof.
  intros Hw (_ & _ & Hq & Hr & _). apply rstep_rtrans. exists Trtick. apply rt_tick.
  unfold t_rtick, after_wait. rewrite Hr, Hw.
  assert (Hlt : (0 <? qb (base s)) = true) by (apply Nat.ltb_lt; exact Hq). rewrite Hlt. reflexivity.
Qed.

(* SEEDED VARIANT (retry wait repeated while the block queue is non-empty), any hand-shake protocol with the
   task queue created by Start, any capacities, any number q+1 of queued announcements, any further API
   requests and refusals: a reachable state after Stop was requested from which no run ever closes the
   database — no run gets stuck either (the worker spins: the state is its own successor), and runs of
   every length exist *)
Lemma retry_wait_while_queued_refuted c q reqs r :
  cfg_ok (bcfg c) -> nilfix (bcfg c) = true -> wait_while_queued c = true -> S q <= qcap (bcfg c) ->
  exists s, rreachable c s /\ stop_requested (base s) /\ qb (base s) = S q /\
            e_tasks (base s) = reqs /\ e_refuse (ext s) = r /\
            (forall s', rsteps c s s' -> ~ stopped (base s') /\ rcan_step c s') /\
            (forall n, exists s', rsteps_n c n s s').
Proof.
  intros Hc Hn Hw Hq. exists (spin_state q reqs r).
  assert (Hsp : spinning (spin_state q reqs r)).
  { unfold spinning, spin_state. cbn. repeat split; try lia. exists 0. reflexivity. }
  split; [apply spin_state_reachable; assumption|].
  split; [cbn; discriminate|]. split; [reflexivity|]. split; [reflexivity|]. split; [reflexivity|].
  split.
  - intros s' Hs. pose proof (spinning_steps c _ _ Hw Hsp Hs) as Hsp'.
    split; [apply spinning_not_stopped; exact Hsp' | apply spinning_can_step; exact Hsp'].
  - intros n. exists (spin_state q reqs r). induction n as [|n IH]; [constructor|].
    econstructor; [apply spinning_self_loop; assumption | exact IH].
Qed.

(* the same state in the code of /repo (one stop-aware pause): the next pass through the select ends the wait *)
Lemma retry_wait_leaves_on_quit c q reqs r :
  wait_while_queued c = false ->
  In {| base := base (spin_state q reqs r);
        ext := {| rwait := false; refused := false; e_refuse := r; n_ref := 1 |} |} (rstep c (spin_state q reqs r)).
Proof.
  intros Hw. apply rstep_rtrans. exists Trquit. apply rt_quit.
  unfold t_rquit, after_wait. rewrite Hw. reflexivity.
Qed.

(* ---------------------------------------------------------------- why the premise "finitely many refusals" *)

(* one import left over from the last run, no Stop, the environment refuses k batches: the run in which it
   spends them all on this import has 6 k steps and the import has still not finished — no bound on the
   completion of an accepted import is independent of the number of refusals, and an environment that
   refuses for ever (a node that never returns to the follower's chain) keeps the import unfinished for ever *)
Definition retry_loop_state (r m : nat) : rstate :=
  {| base := init_state true 0 [] [ {| t_kind := Imp; t_more := 0 |} ] false;
     ext := {| rwait := false; refused := false; e_refuse := r; n_ref := m |} |}.
Definition retry_loop : list rlabel := [Lb Tktake; Lb Lkb; Lkx; Tkresx; Trtick; Lb Tkpush].

Lemma rexec_lab_steps_n c ls : forall s s', rexec_lab c ls s = Some s' -> rsteps_n c (length ls) s s'.
Proof.
  induction ls as [|l ls IH]; intros s s' H; cbn in H.
  - inversion H. constructor.
  - destruct (rpick l (rstep_l c s)) as [s1|] eqn:E; [|discriminate].
    cbn [length]. econstructor; [|apply IH; exact H]. unfold rstep. eapply rpick_in. exact E.
Qed.

Lemma rsteps_n_app c n1 n2 s1 s2 s3 : rsteps_n c n1 s1 s2 -> rsteps_n c n2 s2 s3 -> rsteps_n c (n1 + n2) s1 s3.
Proof.
  intros H. induction H as [s | n s s' s'' Hs Hr IH]; [auto|].
  intros H3. cbn [plus]. econstructor; [exact Hs|]. apply IH. exact H3.
Qed.

Lemma retry_loop_once r m :
  rexec_lab rcfg_code retry_loop (retry_loop_state (S r) m) = Some (retry_loop_state r (S m)).
Proof. reflexivity. Qed.

Lemma refusals_delay_import k : forall m,
  rsteps_n rcfg_code (6 * k) (retry_loop_state k m) (retry_loop_state 0 (k + m)).
Proof.
  induction k as [|k IH]; intros m.
  - cbn. constructor.
  - replace (6 * S k) with (6 + 6 * k) by lia. replace (S k + m) with (k + S m) by lia.
    eapply rsteps_n_app; [|apply IH].
    apply (rexec_lab_steps_n rcfg_code retry_loop). apply retry_loop_once.
Qed.

Lemma refusals_unbounded_delay k :
  exists s, rsteps_n rcfg_code (6 * k) (rinit (init_state true 0 [] [ {| t_kind := Imp; t_more := 0 |} ] false) k) s /\
            n_ref (ext s) = k /\ n_fin (gh (base s)) = 0 /\ n_acc (gh (base s)) = 1.
Proof.
  exists (retry_loop_state 0 (k + 0)). split; [apply (refusals_delay_import k 0)|].
  cbn. repeat split; lia.
Qed.
